(** C15 -- proofs about the record models (MixModel) and the specification (MixSpec). *)
From Coq Require Import String ZArith Bool List Lia.
Require Import H4.gen.Gen_Mix H4.MixSpec H4.MixModel.
Import ListNotations.
Local Open Scope Z_scope.

(* ------------------------------------------------------------------------------------------ big-endian *)
Lemma be_enc_length : forall k v, length (be_enc k v) = k.
Proof. induction k; intros; simpl; auto. Qed.

Lemma be_dec_enc : forall k v acc,
  be_dec (be_enc k v) acc = acc * 256 ^ Z.of_nat k + v mod 256 ^ Z.of_nat k.
Proof.
  induction k; intros.
  - simpl. rewrite Z.mod_1_r. lia.
  - cbn [be_enc be_dec]. rewrite IHk.
    rewrite Nat2Z.inj_succ, Z.pow_succ_r by lia.
    set (p := 256 ^ Z.of_nat k).
    assert (Hp : 0 < p) by (apply Z.pow_pos_nonneg; lia).
    replace (256 * p) with (p * 256) by lia.
    rewrite (Z.rem_mul_r v p 256) by lia.
    lia.
Qed.

Definition in_range (w : Z) (signed : bool) (v : Z) : Prop :=
  if signed then - 2 ^ (8 * w - 1) <= v < 2 ^ (8 * w - 1) else 0 <= v < 2 ^ (8 * w).

Lemma pow256 : forall w, 0 <= w -> 256 ^ w = 2 ^ (8 * w).
Proof. intros. replace 256 with (2 ^ 8) by reflexivity. rewrite <- Z.pow_mul_r by lia. reflexivity. Qed.

Lemma enc_val_length : forall w v, 0 <= w -> length (enc_val w v) = Z.to_nat w.
Proof. intros. unfold enc_val. apply be_enc_length. Qed.

Lemma dec_enc_val : forall w s v, 0 < w -> in_range w s v -> dec_val w s (enc_val w v) = v.
Proof.
  intros w s v Hw Hr. unfold dec_val, enc_val.
  rewrite be_dec_enc. rewrite Z2Nat.id by lia.
  rewrite Z.mod_mod by (apply Z.pow_nonzero; lia).
  rewrite pow256 by lia. rewrite Z.mul_0_l, Z.add_0_l.
  set (M := 2 ^ (8 * w)).
  assert (HM : M = 2 * 2 ^ (8 * w - 1)).
  { unfold M. replace (8 * w) with (Z.succ (8 * w - 1)) at 1 by lia. rewrite Z.pow_succ_r by lia. reflexivity. }
  assert (Hh : 0 < 2 ^ (8 * w - 1)) by (apply Z.pow_pos_nonneg; lia).
  unfold in_range in Hr. destruct s; cbn [andb].
  - destruct (Z_lt_le_dec v 0).
    + assert (E : v mod M = v + M).
      { rewrite <- (Z_mod_plus_full v 1 M). rewrite Z.mul_1_l. apply Z.mod_small. lia. }
      rewrite E. destruct (Z.leb_spec (2 ^ (8 * w - 1)) (v + M)); lia.
    + rewrite Z.mod_small by lia. destruct (Z.leb_spec (2 ^ (8 * w - 1)) v); lia.
  - apply Z.mod_small. fold M in Hr. lia.
Qed.

Lemma firstn_exact : forall {A} (a b : list A) k, length a = k -> firstn k (a ++ b) = a.
Proof. intros A a; induction a; intros b k H; subst; simpl; auto. f_equal; auto. Qed.
Lemma skipn_exact : forall {A} (a b : list A) k, length a = k -> skipn k (a ++ b) = b.
Proof. intros A a; induction a; intros b k H; subst; simpl; auto. Qed.

(* ------------------------------------------------------------------------------ field sequences *)
Definition same_shape (f1 f2 : field) : Prop := f_width f1 = f_width f2 /\ f_signed f1 = f_signed f2.

Definition field_ok (env : string -> Z) (f : field) : Prop :=
  0 < f_width f /\ in_range (f_width f) (f_signed f) (env (f_name f)).

(** a record written with field sequence l1 and read with a sequence l2 of the same widths and signs yields the
    written values under the reader's names *)
Lemma dec_enc_fields : forall l1 l2 env rest,
  Forall2 same_shape l1 l2 -> Forall (field_ok env) l1 ->
  dec_fields l2 (enc_fields l1 env ++ rest) =
  Some (combine (map f_name l2) (map (fun f => env (f_name f)) l1)).
Proof.
  induction l1 as [|f1 r1 IH]; intros l2 env rest HS HO.
  - inversion HS; subst. reflexivity.
  - inversion HS as [|? f2 ? r2 [Hw Hs] HS']; subst. inversion HO as [|? ? [Hpos Hr] HO']; subst.
    cbn [enc_fields dec_fields]. rewrite <- app_assoc.
    assert (HL : length (enc_val (f_width f1) (env (f_name f1))) = Z.to_nat (f_width f2)).
    { rewrite enc_val_length by lia. now rewrite Hw. }
    assert (HN : (length (enc_val (f_width f1) (env (f_name f1)) ++ enc_fields r1 env ++ rest) <? Z.to_nat (f_width f2))%nat = false).
    { apply Nat.ltb_ge. rewrite app_length. lia. }
    rewrite HN. rewrite skipn_exact by exact HL. rewrite firstn_exact by exact HL.
    rewrite IH by assumption. cbn [map combine].
    rewrite <- Hw, <- Hs. rewrite dec_enc_val by assumption. reflexivity.
Qed.

(* ------------------------------------------------------------------------- image description (ID) codec *)
Definition id_ok (r : idrec) : Prop :=
  0 <= id_x r < 2 ^ 31 /\ 0 <= id_y r < 2 ^ 31 /\ 0 <= id_nt_tag r < 65536 /\ 0 <= id_nt_ref r < 65536 /\
  0 <= id_ncomp r < 32768 /\ 0 <= id_il r < 32768 /\ 0 <= id_ctag r < 65536 /\ 0 <= id_cref r < 65536.

Lemma id_roundtrip_gen : forall wl rl r,
  Forall2 same_shape wl rl -> Forall (field_ok (id_env r)) wl ->
  id_decode rl (id_encode wl r) =
  Some (id_of_env (combine (map f_name rl) (map (fun f => id_env r (f_name f)) wl))).
Proof.
  intros. unfold id_decode, id_encode.
  rewrite <- (app_nil_r (enc_fields wl (id_env r))).
  rewrite dec_enc_fields by assumption. reflexivity.
Qed.

Ltac shape_tac := repeat (constructor; [split; reflexivity|]); constructor.
Ltac fields_tac H :=
  unfold id_ok in H; decompose [and] H; clear H;
  repeat (constructor; [split; [reflexivity | unfold in_range; cbn; unfold MFGR_INTERLACE_PIXEL; lia]|]); constructor.

(** every (writer, reader) pair of the single-file raster interfaces: the description read is the one written *)
Lemma id_roundtrip_dfr8 : forall r, id_ok r -> id_decode DFR8getrig_ID (id_encode DFR8putrig_ID r) = Some r.
Proof. intros r H. rewrite id_roundtrip_gen; [destruct r; reflexivity | shape_tac | fields_tac H]. Qed.
Lemma id_roundtrip_dfgr : forall r, id_ok r -> id_decode DFGRgetrig_ID (id_encode DFGRaddrig_ID r) = Some r.
Proof. intros r H. rewrite id_roundtrip_gen; [destruct r; reflexivity | shape_tac | fields_tac H]. Qed.
Lemma id_cross_dfr8_dfgr : forall r, id_ok r -> id_decode DFGRgetrig_ID (id_encode DFR8putrig_ID r) = Some r.
Proof. intros r H. rewrite id_roundtrip_gen; [destruct r; reflexivity | shape_tac | fields_tac H]. Qed.
Lemma id_cross_dfgr_dfr8 : forall r, id_ok r -> id_decode DFR8getrig_ID (id_encode DFGRaddrig_ID r) = Some r.
Proof. intros r H. rewrite id_roundtrip_gen; [destruct r; reflexivity | shape_tac | fields_tac H]. Qed.

(** GR's writer: the same record with the interlace forced to pixel *)
Definition id_pixel (r : idrec) : idrec :=
  mkId (id_x r) (id_y r) (id_nt_tag r) (id_nt_ref r) (id_ncomp r) MFGR_INTERLACE_PIXEL (id_ctag r) (id_cref r).
Lemma id_cross_gr_dfr8 : forall r, id_ok r -> id_decode DFR8getrig_ID (id_encode GRIupdatemeta_ID r) = Some (id_pixel r).
Proof. intros r H. rewrite id_roundtrip_gen; [destruct r; reflexivity | shape_tac | fields_tac H]. Qed.
Lemma id_cross_gr_dfgr : forall r, id_ok r -> id_decode DFGRgetrig_ID (id_encode GRIupdatemeta_ID r) = Some (id_pixel r).
Proof. intros r H. rewrite id_roundtrip_gen; [destruct r; reflexivity | shape_tac | fields_tac H]. Qed.

(* ------------------------------------------------------------------------------------ number types *)
Definition nt_bases : list Z :=
  [DFNT_UCHAR8; DFNT_CHAR8; DFNT_INT8; DFNT_UINT8; DFNT_INT16; DFNT_UINT16; DFNT_INT32; DFNT_UINT32; DFNT_FLOAT32; DFNT_FLOAT64].
Definition nt_all : list Z := flat_map (fun b => [b; b + DFNT_NATIVE; b + DFNT_LITEND]) nt_bases.

Definition opt_is (o : option Z) (v : Z) : bool := match o with Some a => a =? v | None => false end.
Lemma opt_is_eq : forall o v, opt_is o v = true -> o = Some v.
Proof. destruct o; simpl; intros; [apply Z.eqb_eq in H; now subst | discriminate]. Qed.

Definition nt_check (nt : Z) : bool :=
  opt_is (nt_decode (nt_encode nt)) (shown_nt nt) && opt_is (dfsd_nt_decode (nt_encode nt)) (shown_nt nt) &&
  (shown_nt nt =? same_type nt) && opt_is (assoc hdf_unmap_type_switch (Z.land nt 255)) (nc_type_of nt) &&
  (ntsize nt =? nt_size nt) && (0 <? ntsize nt).

Lemma nt_check_all : forallb nt_check nt_all = true.
Proof. vm_compute. reflexivity. Qed.

(** all 30 number types (10 base types, standard / native / little-endian): the NT record written by
    hdf_write_var and DFSDIputndg is read back, by hdf_read_ndgs / hdf_read_vars and by DFSDIgetndg, as the type
    every view must name (MixSpec.same_type); hdf_unmap_type gives MixSpec.nc_type_of; DFKNTsize gives nt_size *)
Lemma nt_roundtrip : forall nt, In nt nt_all ->
  nt_decode (nt_encode nt) = Some (shown_nt nt) /\ dfsd_nt_decode (nt_encode nt) = Some (shown_nt nt) /\
  shown_nt nt = same_type nt /\ assoc hdf_unmap_type_switch (Z.land nt 255) = Some (nc_type_of nt) /\
  ntsize nt = nt_size nt /\ 0 < ntsize nt.
Proof.
  intros nt H. pose proof (proj1 (forallb_forall nt_check nt_all) nt_check_all nt H) as C.
  unfold nt_check in C. repeat rewrite andb_true_iff in C.
  destruct C as [[[[[C1 C2] C3] C4] C5] C6].
  repeat split; try (apply opt_is_eq; assumption); try (apply Z.eqb_eq; assumption). apply Z.ltb_lt; assumption.
Qed.

(* ------------------------------------------------------------------------------------ interlace codes *)
Lemma il_codes_inverse : forall a b,
  (gr_il_of_dfil a = Some b <-> dfil_of_gr_il b = Some a).
Proof.
  intros a b. unfold gr_il_of_dfil, dfil_of_gr_il.
  unfold DFIL_PIXEL, DFIL_LINE, DFIL_PLANE, MFGR_INTERLACE_PIXEL, MFGR_INTERLACE_LINE, MFGR_INTERLACE_COMPONENT.
  destruct (Z.eqb_spec a 0), (Z.eqb_spec a 1), (Z.eqb_spec a 2), (Z.eqb_spec b 0), (Z.eqb_spec b 1), (Z.eqb_spec b 2);
    split; intro H; try discriminate; try (inversion H; subst; try lia; reflexivity); try lia; subst; try reflexivity;
    try (exfalso; lia); try congruence.
Qed.

Lemma il_codes_total : forall il, In il [0; 1; 2] -> gr_il_of_dfil il = Some il /\ dfil_of_gr_il il = Some il.
Proof. intros il H. simpl in H. decompose [or] H; subst; try contradiction; split; reflexivity. Qed.

(* -------------------------------------------------------------- what the translator read off the sources *)
(** the field sequences of every writer/reader pair agree (a source edit that reorders, drops or resizes a field
    of one side breaks these) *)
Lemma source_tie_layouts :
  DFR8putrig_ID = DFR8getrig_ID /\ DFGRaddrig_ID = DFGRgetrig_ID /\ DFR8putrig_ID = DFGRgetrig_ID /\
  DFGRaddrig_LD = DFGRgetrig_ID /\
  map fst GRIupdatemeta_ID = map fst DFGRgetrig_ID /\ map fst GRIupdatemeta_LD = map fst DFGRgetrig_ID /\
  hdf_write_var_SDD = DFSDIputndg_SDD /\
  map (fun f => (f_width f, f_name f)) hdf_write_var_SDD = map (fun f => (f_width f, f_name f)) (firstn 4 DFSDIgetndg_SDD) /\
  hdf_read_rank_f ++ hdf_read_dimsizes_f ++ hdf_read_NT_f = firstn 4 DFSDIgetndg_SDD /\
  DFR8putrig_ID8 = [(2, false, "xdim"%string); (2, false, "ydim"%string)].
Proof. repeat split; reflexivity. Qed.

(** the number-type records, group member orders and acceptance tests the models above were written from *)
Lemma source_tie_text :
  hdf_write_var_nt = ["DFNT_VERSION"; "(uint8)((*var)->HDFtype & 0xff)"; "(uint8)((*var)->HDFsize * 8)"; "outNT"]%string /\
  DFSDIputndg_nt = ["DFNT_VERSION"; "(uint8)(numtype & 0xff)"; "(uint8)(fileNTsize * 8)"; "outNT"]%string /\
  DFR8putrig_nt = ["DFNT_VERSION"; "DFNT_UCHAR"; "8"; "DFNTC_BYTE"]%string /\
  DFGRaddrig_nt = ["DFNT_VERSION"; "DFNT_UCHAR"; "8"; "DFNTC_BYTE"]%string /\
  GRIupdatemeta_nt = ["DFNT_VERSION"; "(uint8)img_ptr->img_dim.nt"; "(uint8)(DFKNTsize(img_ptr->img_dim.nt) * 8)"; "DFNTC_BYTE"]%string /\
  hdf_write_var_group = ["DFTAG_SD"; "DFTAG_NT"; "DFTAG_SDD"; "BOGUS_TAG"]%string /\
  DFR8putrig_group = ["DFTAG_ID"; "rig->image.tag"; "rig->lut.tag"]%string /\
  DFGRaddrig_group = ["DFTAG_ID"; "rig->data[IMAGE].tag"; "DFTAG_LD"; "rig->data[LUT].tag"]%string /\
  GRIupdateRIG_group = ["DFTAG_ID"; "img_ptr->img_tag"; "DFTAG_LD"; "img_ptr->lut_tag"]%string /\
  firstn 2 DFSDIputndg_group = ["sdg->data.tag"; "DFTAG_SDD"]%string /\
  DFR8getrig_ntcheck = "(ntstring[2] != 8) || (ntstring[1] != DFNT_UCHAR && ntstring[1] != DFNT_UINT8)"%string /\
  DFGRgetrig_ntcheck = DFR8getrig_ntcheck /\
  GRIupdateRIG_compat = "img_ptr->img_dim.nt != DFNT_UINT8 || (img_ptr->img_dim.ncomps != 1 && img_ptr->img_dim.ncomps != 3)"%string /\
  hdf_read_rank_ok = "temp_rank > 0"%string /\ hdf_read_dimsizes_bad = "dim_size < 0"%string /\
  DFNT_UCHAR = DFNT_UCHAR8 /\ DATA_TAG = DFTAG_SD.
Proof. repeat split; reflexivity. Qed.

(* ---------------------------------------------------------------------------- dimension record (SDD) *)
Lemma read_n_enc : forall f vs rest,
  0 < f_width f -> Forall (in_range (f_width f) (f_signed f)) vs ->
  read_n f (length vs) (flat_map (enc_val (f_width f)) vs ++ rest) = Some (vs, rest).
Proof.
  intros f vs rest Hw. induction vs as [|v vs IH]; intro HF.
  - reflexivity.
  - inversion HF; subst. cbn [flat_map length read_n]. rewrite <- app_assoc.
    assert (HL : length (enc_val (f_width f) v) = Z.to_nat (f_width f)) by (apply enc_val_length; lia).
    assert (HN : (length (enc_val (f_width f) v ++ flat_map (enc_val (f_width f)) vs ++ rest) <? Z.to_nat (f_width f))%nat = false).
    { apply Nat.ltb_ge. rewrite app_length. lia. }
    rewrite HN, skipn_exact, firstn_exact by exact HL. rewrite IH by assumption.
    rewrite dec_enc_val by assumption. reflexivity.
Qed.

Lemma read_n_one : forall f v rest,
  0 < f_width f -> in_range (f_width f) (f_signed f) v ->
  read_n f 1 (enc_val (f_width f) v ++ rest) = Some ([v], rest).
Proof.
  intros. pose proof (read_n_enc f [v] rest H (Forall_cons _ H0 (Forall_nil _))) as E.
  cbn [flat_map length] in E. rewrite app_nil_r in E. exact E.
Qed.

Definition pair_ok (ft fr : field) (p : Z * Z) : Prop :=
  in_range (f_width ft) (f_signed ft) (fst p) /\ in_range (f_width fr) (f_signed fr) (snd p).

Lemma read_pairs_enc : forall ft fr ps rest,
  0 < f_width ft -> 0 < f_width fr -> Forall (pair_ok ft fr) ps ->
  read_pairs ft fr (length ps)
    (flat_map (fun p => enc_val (f_width ft) (fst p) ++ enc_val (f_width fr) (snd p)) ps ++ rest) = Some (ps, rest).
Proof.
  intros ft fr ps rest Ht Hr. induction ps as [|[t r] ps IH]; intro HF.
  - reflexivity.
  - inversion HF as [|? ? [H1 H2] HF']; subst. cbn [flat_map length read_pairs fst snd] in *.
    rewrite <- !app_assoc. rewrite read_n_one by assumption. rewrite read_n_one by assumption.
    rewrite IH by assumption. reflexivity.
Qed.

Definition sdd_ok (s : sdd) : Prop :=
  0 < sdd_rank s < 32768 /\ sdd_rank s = zlen (sdd_dims s) /\
  Forall (fun d => 0 <= d < 2 ^ 31) (sdd_dims s) /\
  length (sdd_nts s) = S (length (sdd_dims s)) /\
  Forall (fun p => 0 <= fst p < 65536 /\ 0 <= snd p < 65536) (sdd_nts s).

Lemma forallb_nonneg : forall l, Forall (fun d => 0 <= d < 2 ^ 31) l -> forallb (fun d => 0 <=? d) l = true.
Proof. induction 1; simpl; auto. rewrite IHForall. destruct (Z.leb_spec 0 x); [reflexivity | lia]. Qed.

Lemma sdd_roundtrip_sd : forall s, sdd_ok s -> sd_read_sdd (sdd_encode hdf_write_var_SDD s) = Some s.
Proof.
  intros [rank dims nts] (Hr & Hrk & Hd & Hl & Hn). cbn [sdd_rank sdd_dims sdd_nts] in *.
  unfold sd_read_sdd, sdd_encode, enc_pair. cbn [sdd_rank sdd_dims sdd_nts].
  change (fld hdf_write_var_SDD "rank") with ((2, false, "rank"%string) : field).
  change (fld hdf_write_var_SDD "dim") with ((4, true, "dim"%string) : field).
  change (fld hdf_write_var_SDD "nt_tag") with ((2, false, "nt_tag"%string) : field).
  change (fld hdf_write_var_SDD "nt_ref") with ((2, false, "nt_ref"%string) : field).
  change (fld hdf_read_rank_f "rank") with ((2, true, "rank"%string) : field).
  change (fld hdf_read_dimsizes_f "dim") with ((4, true, "dim"%string) : field).
  change (fld hdf_read_NT_f "nt_tag") with ((2, false, "nt_tag"%string) : field).
  change (fld hdf_read_NT_f "nt_ref") with ((2, false, "nt_ref"%string) : field).
  change (f_width (2, false, "rank"%string)) with (f_width (2, true, "rank"%string)).
  rewrite read_n_one; [| cbn; lia | unfold in_range; cbn; lia].
  destruct (Z.ltb_spec 0 rank); [| lia].
  assert (HR : Z.to_nat rank = length dims) by (rewrite Hrk; unfold zlen; apply Nat2Z.id).
  rewrite HR.
  rewrite (read_n_enc (4, true, "dim"%string) dims); [| cbn; lia |].
  2:{ eapply Forall_impl; [| exact Hd]. intros d Hdd. unfold in_range. cbn. cbn in Hdd. lia. }
  rewrite forallb_nonneg by assumption.
  rewrite <- Hl.
  rewrite <- (app_nil_r (flat_map _ nts)).
  rewrite (read_pairs_enc (2, false, "nt_tag"%string) (2, false, "nt_ref"%string) nts []); [reflexivity | cbn; lia | cbn; lia |].
  eapply Forall_impl; [| exact Hn]. intros p [H1 H2]. split; unfold in_range; cbn; lia.
Qed.

Lemma sdd_roundtrip_dfsd : forall s, sdd_ok s -> dfsd_read_sdd (sdd_encode DFSDIputndg_SDD s) = Some s.
Proof.
  intros [rank dims nts] (Hr & Hrk & Hd & Hl & Hn). cbn [sdd_rank sdd_dims sdd_nts] in *.
  unfold dfsd_read_sdd, sdd_encode, enc_pair. cbn [sdd_rank sdd_dims sdd_nts].
  change (fld DFSDIputndg_SDD "rank") with ((2, false, "rank"%string) : field).
  change (fld DFSDIputndg_SDD "dim") with ((4, true, "dim"%string) : field).
  change (fld DFSDIputndg_SDD "nt_tag") with ((2, false, "nt_tag"%string) : field).
  change (fld DFSDIputndg_SDD "nt_ref") with ((2, false, "nt_ref"%string) : field).
  change (fld DFSDIgetndg_SDD "rank") with ((2, true, "rank"%string) : field).
  change (fld DFSDIgetndg_SDD "dim") with ((4, true, "dim"%string) : field).
  change (fld DFSDIgetndg_SDD "nt_tag") with ((2, false, "nt_tag"%string) : field).
  change (fld DFSDIgetndg_SDD "nt_ref") with ((2, false, "nt_ref"%string) : field).
  change (f_width (2, false, "rank"%string)) with (f_width (2, true, "rank"%string)).
  rewrite read_n_one; [| cbn; lia | unfold in_range; cbn; lia].
  assert (HR : Z.to_nat rank = length dims) by (rewrite Hrk; unfold zlen; apply Nat2Z.id).
  rewrite HR.
  rewrite (read_n_enc (4, true, "dim"%string) dims); [| cbn; lia |].
  2:{ eapply Forall_impl; [| exact Hd]. intros d Hdd. unfold in_range. cbn. cbn in Hdd. lia. }
  rewrite <- Hl.
  rewrite <- (app_nil_r (flat_map _ nts)).
  rewrite (read_pairs_enc (2, false, "nt_tag"%string) (2, false, "nt_ref"%string) nts []); [reflexivity | cbn; lia | cbn; lia |].
  eapply Forall_impl; [| exact Hn]. intros p [H1 H2]. split; unfold in_range; cbn; lia.
Qed.

(* ------------------------------------------------------------------ the readers, one member at a time *)
Lemma eqb_false : forall a b, a <> b -> (a =? b) = false.
Proof. intros. now apply Z.eqb_neq. Qed.

Lemma ndg_scan_skip : forall st t r rest acc d, t <> DFTAG_SDD -> t <> DFTAG_SD ->
  ndg_scan st ((t, r) :: rest) acc d = ndg_scan st rest acc d.
Proof. intros. cbn [ndg_scan]. now rewrite !eqb_false by assumption. Qed.
Lemma ndg_scan_sd : forall st r rest acc d, ndg_scan st ((DFTAG_SD, r) :: rest) acc d = ndg_scan st rest acc r.
Proof. intros. cbn [ndg_scan]. reflexivity. Qed.
Lemma ndg_scan_sdd : forall st r rest acc d b s nt_t nt_r tl nb ty,
  get st DFTAG_SDD r = Some b -> sd_read_sdd b = Some s -> sdd_nts s = (nt_t, nt_r) :: tl ->
  get st nt_t nt_r = Some nb -> nt_decode nb = Some ty ->
  ndg_scan st ((DFTAG_SDD, r) :: rest) acc d = ndg_scan st rest (Some (sdd_rank s, sdd_dims s, ty)) d.
Proof. intros. cbn [ndg_scan]. rewrite Z.eqb_refl, H, H0, H1, H2, H3. reflexivity. Qed.

Lemma dfsd_scan_skip : forall st t r rest acc d, t <> DFTAG_SDD -> t <> DFTAG_SD ->
  dfsd_scan st ((t, r) :: rest) acc d = dfsd_scan st rest acc d.
Proof. intros. cbn [dfsd_scan]. now rewrite !eqb_false by assumption. Qed.
Lemma dfsd_scan_sd : forall st r rest acc d, dfsd_scan st ((DFTAG_SD, r) :: rest) acc d = dfsd_scan st rest acc r.
Proof. intros. cbn [dfsd_scan]. reflexivity. Qed.
Lemma dfsd_scan_sdd : forall st r rest acc d b s nt_t nt_r tl nb ty,
  get st DFTAG_SDD r = Some b -> dfsd_read_sdd b = Some s -> sdd_nts s = (nt_t, nt_r) :: tl ->
  get st nt_t nt_r = Some nb -> dfsd_nt_decode nb = Some ty ->
  dfsd_scan st ((DFTAG_SDD, r) :: rest) acc d = dfsd_scan st rest (Some (sdd_rank s, sdd_dims s, ty)) d.
Proof. intros. cbn [dfsd_scan]. rewrite Z.eqb_refl, H, H0, H1, H2, H3. reflexivity. Qed.

Lemma vg_scan_skip : forall st t r rest ty d, t <> DFTAG_NT -> t <> DFTAG_SD ->
  vg_scan st ((t, r) :: rest) ty d = vg_scan st rest ty d.
Proof. intros. cbn [vg_scan]. now rewrite !eqb_false by assumption. Qed.
Lemma vg_scan_sd : forall st r rest ty d, vg_scan st ((DFTAG_SD, r) :: rest) ty d = vg_scan st rest ty r.
Proof. intros. cbn [vg_scan]. reflexivity. Qed.
Lemma vg_scan_nt : forall st r rest ty d nb y,
  get st DFTAG_NT r = Some nb -> nt_decode nb = Some y ->
  vg_scan st ((DFTAG_NT, r) :: rest) ty d = vg_scan st rest (Some y) d.
Proof. intros. cbn [vg_scan]. rewrite Z.eqb_refl, H, H0. reflexivity. Qed.

(* ------------------------------------------------------------------------------------- SD variables *)
Definition var_ok (v : svar) : Prop :=
  v_dims v <> [] /\ zlen (v_dims v) < 32768 /\ Forall (fun d => 0 <= d < 2 ^ 31) (v_dims v) /\
  In (v_nt v) nt_all /\ 0 < v_ref v < 65536 /\ 0 <= v_data_ref v < 65536 /\ 0 < v_ndg_ref v < 65536.

Lemma sd_sdd_ok : forall v, var_ok v -> sdd_ok (sd_sdd v).
Proof.
  intros v (Hne & Hlt & Hd & _ & Hr & _). unfold sdd_ok, sd_sdd. cbn [sdd_rank sdd_dims sdd_nts].
  repeat split; try assumption.
  - unfold zlen. destruct (v_dims v); [congruence | cbn [length]; lia].
  - apply repeat_length.
  - apply Forall_forall. intros p Hp. apply repeat_spec in Hp. subst. cbn. unfold DFTAG_NT. lia.
Qed.

Lemma get_sd_nt : forall v st', get (sd_write_var v ++ st') DFTAG_NT (v_ref v) = Some (nt_encode (v_nt v)).
Proof. intros. unfold sd_write_var. cbn [app get]. rewrite !Z.eqb_refl. reflexivity. Qed.
Lemma get_sd_sdd : forall v st',
  get (sd_write_var v ++ st') DFTAG_SDD (v_ref v) = Some (sdd_encode hdf_write_var_SDD (sd_sdd v)).
Proof. intros. unfold sd_write_var. cbn [app get]. rewrite !Z.eqb_refl. reflexivity. Qed.
Lemma get_dfsd_nt : forall v st', get (dfsd_put v ++ st') DFTAG_NT (v_ref v) = Some (nt_encode (v_nt v)).
Proof. intros. unfold dfsd_put. cbn [app get]. rewrite !Z.eqb_refl. reflexivity. Qed.
Lemma get_dfsd_sdd : forall v st',
  get (dfsd_put v ++ st') DFTAG_SDD (v_ref v) = Some (sdd_encode DFSDIputndg_SDD (sd_sdd v)).
Proof. intros. unfold dfsd_put. cbn [app get]. rewrite !Z.eqb_refl. reflexivity. Qed.

Definition the_view (v : svar) : view := (zlen (v_dims v), v_dims v, shown_nt (v_nt v), v_data_ref v).

Ltac tagne := unfold DFTAG_NT, DFTAG_SDD, DFTAG_SD, DFTAG_NDG, BOGUS_TAG; lia.

(** the SD reader's reconstruction of (rank, extents, type, data) from the NDG that hdf_write_var emits equals its
    reconstruction from the Vgroup description of the same variable, and both are the variable *)
Lemma ndg_view_eq_vgroup_view_lemma : forall v st', var_ok v ->
  ndg_view (sd_write_var v ++ st') (sd_ndg_members v) = Some (the_view v) /\
  vg_view (sd_write_var v ++ st') (sd_write_vg v) = Some (the_view v).
Proof.
  intros v st' Hv. pose proof (sd_sdd_ok v Hv) as Hs.
  destruct Hv as (Hne & Hlt & Hd & Hnt & Hr & Hdr & Hn).
  destruct (nt_roundtrip _ Hnt) as (N1 & N2 & _).
  assert (NTS : sdd_nts (sd_sdd v) = (DFTAG_NT, v_ref v) :: repeat (DFTAG_NT, v_ref v) (length (v_dims v))) by reflexivity.
  split.
  - unfold ndg_view, sd_ndg_members, the_view.
    destruct (Z.eqb_spec (v_data_ref v) 0) as [E | E]; cbn [app].
    + rewrite ndg_scan_skip by tagne.
      erewrite ndg_scan_sdd; [| apply get_sd_sdd | apply sdd_roundtrip_sd; exact Hs | exact NTS | apply get_sd_nt | exact N1].
      rewrite ndg_scan_skip by tagne. cbn [ndg_scan sdd_rank sdd_dims sd_sdd]. rewrite E. reflexivity.
    + rewrite ndg_scan_sd. rewrite ndg_scan_skip by tagne.
      erewrite ndg_scan_sdd; [| apply get_sd_sdd | apply sdd_roundtrip_sd; exact Hs | exact NTS | apply get_sd_nt | exact N1].
      rewrite ndg_scan_skip by tagne. cbn [ndg_scan sdd_rank sdd_dims sd_sdd]. reflexivity.
  - unfold vg_view, sd_write_vg, the_view. cbn [vg_members vg_dims].
    destruct (Z.eqb_spec (v_data_ref v) 0) as [E | E]; cbn [app].
    + erewrite vg_scan_nt; [| apply get_sd_nt | exact N1].
      rewrite vg_scan_skip by tagne. rewrite vg_scan_skip by tagne. cbn [vg_scan]. rewrite E. reflexivity.
    + rewrite vg_scan_sd. erewrite vg_scan_nt; [| apply get_sd_nt | exact N1].
      rewrite vg_scan_skip by tagne. rewrite vg_scan_skip by tagne. cbn [vg_scan]. reflexivity.
Qed.

(** the single-file SDS reader on an SD-written dataset, and the SD reader on a DFSD-written one *)
Lemma dfsd_reads_sd : forall v st', var_ok v ->
  dfsd_view (sd_write_var v ++ st') (sd_ndg_members v) = Some (the_view v).
Proof.
  intros v st' Hv. pose proof (sd_sdd_ok v Hv) as Hs.
  destruct Hv as (Hne & Hlt & Hd & Hnt & Hr & Hdr & Hn).
  destruct (nt_roundtrip _ Hnt) as (N1 & N2 & _).
  assert (NTS : sdd_nts (sd_sdd v) = (DFTAG_NT, v_ref v) :: repeat (DFTAG_NT, v_ref v) (length (v_dims v))) by reflexivity.
  unfold dfsd_view, sd_ndg_members, the_view.
  destruct (Z.eqb_spec (v_data_ref v) 0) as [E | E]; cbn [app].
  - rewrite dfsd_scan_skip by tagne.
    erewrite dfsd_scan_sdd; [| apply get_sd_sdd | apply (sdd_roundtrip_dfsd _ Hs) | exact NTS | apply get_sd_nt | exact N2].
    rewrite dfsd_scan_skip by tagne. cbn [dfsd_scan sdd_rank sdd_dims sd_sdd]. rewrite E. reflexivity.
  - rewrite dfsd_scan_sd. rewrite dfsd_scan_skip by tagne.
    erewrite dfsd_scan_sdd; [| apply get_sd_sdd | apply (sdd_roundtrip_dfsd _ Hs) | exact NTS | apply get_sd_nt | exact N2].
    rewrite dfsd_scan_skip by tagne. cbn [dfsd_scan sdd_rank sdd_dims sd_sdd]. reflexivity.
Qed.

Lemma sd_and_dfsd_read_dfsd : forall v st', var_ok v ->
  let members := [(DFTAG_SD, v_data_ref v); (DFTAG_SDD, v_ref v)] in
  ndg_view (dfsd_put v ++ st') members = Some (the_view v) /\
  dfsd_view (dfsd_put v ++ st') members = Some (the_view v).
Proof.
  intros v st' Hv members. pose proof (sd_sdd_ok v Hv) as Hs.
  destruct Hv as (Hne & Hlt & Hd & Hnt & Hr & Hdr & Hn).
  destruct (nt_roundtrip _ Hnt) as (N1 & N2 & _).
  assert (NTS : sdd_nts (sd_sdd v) = (DFTAG_NT, v_ref v) :: repeat (DFTAG_NT, v_ref v) (length (v_dims v))) by reflexivity.
  unfold members, the_view. split.
  - unfold ndg_view. rewrite ndg_scan_sd.
    erewrite ndg_scan_sdd; [| apply get_dfsd_sdd | apply (sdd_roundtrip_sd _ Hs) | exact NTS | apply get_dfsd_nt | exact N1].
    reflexivity.
  - unfold dfsd_view. rewrite dfsd_scan_sd.
    erewrite dfsd_scan_sdd; [| apply get_dfsd_sdd | apply (sdd_roundtrip_dfsd _ Hs) | exact NTS | apply get_dfsd_nt | exact N2].
    reflexivity.
Qed.

(* ----------------------------------------------------------------------------------- raster-image groups *)
Lemma rig_scan_img : forall o l st t r rest v, t = DFTAG_RI \/ t = DFTAG_CI ->
  rig_scan o l st ((t, r) :: rest) v =
  rig_scan o l st rest (mkRv (rv_x v) (rv_y v) (rv_ncomp v) (rv_il v) (rv_ctag v) t r (rv_lut_ref v)).
Proof. intros. cbn [rig_scan]. destruct H; subst; reflexivity. Qed.
Lemma rig_scan_lut : forall o l st r rest v,
  rig_scan o l st ((DFTAG_LUT, r) :: rest) v =
  rig_scan o l st rest (mkRv (rv_x v) (rv_y v) (rv_ncomp v) (rv_il v) (rv_ctag v) (rv_img_tag v) (rv_img_ref v) r).
Proof. intros. cbn [rig_scan]. reflexivity. Qed.
Lemma rig_scan_ld : forall o l st r rest v, rig_scan o l st ((DFTAG_LD, r) :: rest) v = rig_scan o l st rest v.
Proof. intros. cbn [rig_scan]. reflexivity. Qed.
Lemma rig_scan_id : forall o l st r rest v b d nb,
  get st DFTAG_ID r = Some b -> id_decode l b = Some d -> (o && negb (id_ncomp d =? 1)) = false ->
  id_nt_tag d <> 0 -> get st (id_nt_tag d) (id_nt_ref d) = Some nb -> rig_nt_ok nb = true ->
  rig_scan o l st ((DFTAG_ID, r) :: rest) v =
  rig_scan o l st rest (mkRv (id_x d) (id_y d) (id_ncomp d) (id_il d) (id_ctag d) (rv_img_tag v) (rv_img_ref v) (rv_lut_ref v)).
Proof.
  intros. cbn [rig_scan]. change (DFTAG_ID =? DFTAG_CI) with false. change (DFTAG_ID =? DFTAG_RI) with false.
  change (DFTAG_ID =? DFTAG_LUT) with false. cbn [orb]. rewrite Z.eqb_refl, H, H0, H1.
  rewrite (eqb_false _ _ H2), H3, H4. reflexivity.
Qed.

Definition ri_ok (m : rimage) : Prop :=
  0 <= ri_x m < 2 ^ 31 /\ 0 <= ri_y m < 2 ^ 31 /\ 0 <= ri_ncomp m < 32768 /\ 0 <= ri_il m < 32768 /\
  0 <= ri_ctag m < 65536 /\ 0 < ri_ref m < 65536 /\ 0 <= ri_img_ref m < 65536 /\
  (ri_img_tag m = DFTAG_RI \/ ri_img_tag m = DFTAG_CI) /\ 0 <= ri_lut_ref m < 65536.

Lemma ri_id_ok : forall m, ri_ok m -> id_ok (ri_id m).
Proof.
  intros m (Hx & Hy & Hc & Hi & Ht & Hr & Hir & _ & _). unfold id_ok, ri_id.
  cbn [id_x id_y id_nt_tag id_nt_ref id_ncomp id_il id_ctag id_cref]. unfold DFTAG_NT.
  destruct (ri_ctag m =? 0); lia.
Qed.

Definition dfr8_members (m : rimage) : list (Z * Z) :=
  [(DFTAG_ID, ri_ref m); (ri_img_tag m, ri_img_ref m)] ++ (if ri_lut_ref m =? 0 then [] else [(DFTAG_LUT, ri_lut_ref m)]).
Definition gr_members (m : rimage) : list (Z * Z) :=
  [(DFTAG_ID, ri_ref m); (ri_img_tag m, ri_img_ref m)] ++
  (if ri_lut_ref m =? 0 then [] else [(DFTAG_LD, ri_lut_ref m); (DFTAG_LUT, ri_lut_ref m)]).

Lemma get_dfr8_id : forall m st', get (dfr8_put m ++ st') DFTAG_ID (ri_ref m) = Some (id_encode DFR8putrig_ID (ri_id m)).
Proof. intros. unfold dfr8_put. cbn [app get]. rewrite !Z.eqb_refl. reflexivity. Qed.
Lemma get_dfr8_nt : forall m st', get (dfr8_put m ++ st') DFTAG_NT (ri_ref m) = Some nt_encode_r8.
Proof. intros. unfold dfr8_put. cbn [app get]. rewrite !Z.eqb_refl. reflexivity. Qed.

Lemma gr_compat_inv : forall m, gr_compat m = true -> ri_nt m = DFNT_UINT8 /\ (ri_ncomp m = 1 \/ ri_ncomp m = 3).
Proof.
  intros m. unfold gr_compat.
  destruct (Z.eqb_spec (ri_nt m) DFNT_UINT8), (Z.eqb_spec (ri_ncomp m) 1), (Z.eqb_spec (ri_ncomp m) 3);
    cbn; intro; try discriminate; auto.
Qed.

(** an 8-bit image written by DFR8putrig is read back by DFR8getrig and by DFGRgetrig as written *)
Lemma dfr8_rig_roundtrip : forall m st', ri_ok m -> ri_ncomp m = 1 ->
  dfr8_view (dfr8_put m ++ st') (dfr8_members m) = Some (rview_of m (ri_il m)) /\
  dfgr_view (dfr8_put m ++ st') (dfr8_members m) = Some (rview_of m (ri_il m)).
Proof.
  intros m st' Hm Hc. pose proof (ri_id_ok m Hm) as Hid.
  destruct Hm as (Hx & Hy & Hnc & Hi & Ht & Hr & Hir & Htag & Hl).
  split; unfold dfr8_view, dfgr_view, dfr8_members, rview_of, rv0; cbn [app].
  - erewrite rig_scan_id; [| apply get_dfr8_id | apply id_roundtrip_dfr8; exact Hid | | | apply get_dfr8_nt | reflexivity];
      [| cbn [ri_id id_ncomp]; rewrite Hc; reflexivity | cbn [ri_id id_nt_tag]; unfold DFTAG_NT; lia].
    rewrite rig_scan_img by exact Htag.
    destruct (Z.eqb_spec (ri_lut_ref m) 0) as [E | E].
    + cbn [rig_scan ri_id id_x id_y id_ncomp id_il id_ctag rv_x rv_y rv_ncomp rv_il rv_ctag rv_lut_ref]. rewrite E. reflexivity.
    + rewrite rig_scan_lut. reflexivity.
  - erewrite rig_scan_id; [| apply get_dfr8_id | apply id_cross_dfr8_dfgr; exact Hid | reflexivity | | apply get_dfr8_nt | reflexivity];
      [| cbn [ri_id id_nt_tag]; unfold DFTAG_NT; lia].
    rewrite rig_scan_img by exact Htag.
    destruct (Z.eqb_spec (ri_lut_ref m) 0) as [E | E].
    + cbn [rig_scan ri_id id_x id_y id_ncomp id_il id_ctag rv_x rv_y rv_ncomp rv_il rv_ctag rv_lut_ref]. rewrite E. reflexivity.
    + rewrite rig_scan_lut. reflexivity.
Qed.

Lemma get_gr_id : forall m st', gr_compat m = true ->
  get (gr_put m ++ st') DFTAG_ID (ri_ref m) = Some (id_encode GRIupdatemeta_ID (ri_id m)).
Proof. intros. unfold gr_put. rewrite H. cbn [app get]. rewrite !Z.eqb_refl. reflexivity. Qed.
Lemma get_gr_nt : forall m st', gr_compat m = true ->
  get (gr_put m ++ st') DFTAG_NT (ri_ref m) = Some (nt_encode_gr (ri_nt m)).
Proof. intros. unfold gr_put. rewrite H. cbn [app get]. rewrite !Z.eqb_refl. reflexivity. Qed.

(** the raster-image group GR writes for an 8-bit unsigned image of 1 or 3 components is accepted by the RIG
    readers of the older interfaces, with the dimensions, component count and (pixel) interlace of the image
    (this is the theorem the repaired number-type test of DFR8getrig / DFGRgetrig makes true) *)
Lemma gr_rig_read_by_old : forall m st', ri_ok m -> gr_compat m = true ->
  dfgr_view (gr_put m ++ st') (gr_members m) = Some (rview_of m MFGR_INTERLACE_PIXEL) /\
  (ri_ncomp m = 1 -> dfr8_view (gr_put m ++ st') (gr_members m) = Some (rview_of m MFGR_INTERLACE_PIXEL)).
Proof.
  intros m st' Hm Hg. pose proof (ri_id_ok m Hm) as Hid. destruct (gr_compat_inv m Hg) as [Hnt Hcc].
  destruct Hm as (Hx & Hy & Hnc & Hi & Ht & Hr & Hir & Htag & Hl).
  assert (NTOK : rig_nt_ok (nt_encode_gr (ri_nt m)) = true) by (rewrite Hnt; reflexivity).
  split; [| intro Hc]; unfold dfr8_view, dfgr_view, gr_members, rview_of, rv0; cbn [app].
  - erewrite rig_scan_id; [| apply get_gr_id; exact Hg | apply id_cross_gr_dfgr; exact Hid | reflexivity | | apply get_gr_nt; exact Hg | exact NTOK];
      [| cbn [ri_id id_pixel id_nt_tag]; unfold DFTAG_NT; lia].
    rewrite rig_scan_img by exact Htag.
    destruct (Z.eqb_spec (ri_lut_ref m) 0) as [E | E].
    + cbn [rig_scan ri_id id_pixel id_x id_y id_ncomp id_il id_ctag rv_x rv_y rv_ncomp rv_il rv_ctag rv_lut_ref]. rewrite E. reflexivity.
    + rewrite rig_scan_ld, rig_scan_lut. reflexivity.
  - erewrite rig_scan_id; [| apply get_gr_id; exact Hg | apply id_cross_gr_dfr8; exact Hid | | | apply get_gr_nt; exact Hg | exact NTOK];
      [| cbn [ri_id id_pixel id_ncomp]; rewrite Hc; reflexivity | cbn [ri_id id_pixel id_nt_tag]; unfold DFTAG_NT; lia].
    rewrite rig_scan_img by exact Htag.
    destruct (Z.eqb_spec (ri_lut_ref m) 0) as [E | E].
    + cbn [rig_scan ri_id id_pixel id_x id_y id_ncomp id_il id_ctag rv_x rv_y rv_ncomp rv_il rv_ctag rv_lut_ref]. rewrite E. reflexivity.
    + rewrite rig_scan_ld, rig_scan_lut. reflexivity.
Qed.

(** a RIG whose number-type record names anything but the two unsigned 8-bit types is refused *)
Lemma rig_nt_refused : forall ver ty w cls, ty <> DFNT_UCHAR8 -> ty <> DFNT_UINT8 -> rig_nt_ok [ver; ty; w; cls] = false.
Proof.
  intros. unfold rig_nt_ok. rewrite (eqb_false _ _ H), (eqb_false _ _ H0). cbn. now rewrite orb_true_r.
Qed.

(* ------------------------------------------------------------------------------ small maps between views *)
Lemma dims_order_roundtrip : forall x y, xy_of_gr_dims (gr_dims_of_xy x y) = Some (x, y).
Proof. reflexivity. Qed.

(** record-level agreement of the three SDS readers, in the vocabulary of the specification: rank, extents and
    the type name MixSpec.same_type *)
Lemma sds_readers_agree : forall v st', var_ok v ->
  let shown := (zlen (v_dims v), v_dims v, same_type (v_nt v), v_data_ref v) in
  ndg_view (sd_write_var v ++ st') (sd_ndg_members v) = Some shown /\
  vg_view (sd_write_var v ++ st') (sd_write_vg v) = Some shown /\
  dfsd_view (sd_write_var v ++ st') (sd_ndg_members v) = Some shown /\
  ndg_view (dfsd_put v ++ st') [(DFTAG_SD, v_data_ref v); (DFTAG_SDD, v_ref v)] = Some shown /\
  dfsd_view (dfsd_put v ++ st') [(DFTAG_SD, v_data_ref v); (DFTAG_SDD, v_ref v)] = Some shown.
Proof.
  intros v st' Hv shown.
  assert (E : shown = the_view v).
  { unfold shown, the_view. destruct Hv as (_ & _ & _ & Hnt & _). destruct (nt_roundtrip _ Hnt) as (_ & _ & S & _). now rewrite S. }
  rewrite E. destruct (ndg_view_eq_vgroup_view_lemma v st' Hv) as [A B].
  destruct (sd_and_dfsd_read_dfsd v st' Hv) as [C D].
  repeat split; try assumption. apply dfsd_reads_sd; assumption.
Qed.

(* --------------------------------------------------------- record dimensions and dimension scales *)
(** for an HDF file the NDG carries the variable's own extents, whatever the file-wide record count is *)
Lemma ndg_dims_own_record_count : forall shape vrecs hrecs,
  ndg_dims true shape vrecs hrecs = effective_dims shape vrecs.
Proof. reflexivity. Qed.

Lemma source_tie_record_and_scales :
  hdf_write_var_recdim =
    "if (val == NC_UNLIMITED) { if (handle->file_type == HDF_FILE) val = (*var)->numrecs; else val = handle->numrecs; }"%string /\
  hdf_read_ndgs_scale_start = "scale_offset = rank * sizeof(uint8)"%string /\
  hdf_read_ndgs_scale_walk =
    "if ((scalebuf) && (scalebuf[dim])) { vars[current_var]->numrecs = dimsizes[dim]; vars[current_var]->data_offset = scale_offset; scale_offset += dimsizes[dim] * DFKNTsize(scaletypes[dim]); } else { vars[current_var]->data_offset = -1; }"%string /\
  NC_UNLIMITED = 0.
Proof. repeat split; reflexivity. Qed.

Definition scale_fits (s : option (list Z)) (n : Z) : Prop :=
  match s with Some b => Z.of_nat (length b) = n | None => True end.

Lemma forall2_length : forall {A B} (P : A -> B -> Prop) l1 l2, Forall2 P l1 l2 -> length l1 = length l2.
Proof. induction 1; simpl; auto. Qed.

Lemma sds_flags_length : forall scales, length (sds_flags scales) = length scales.
Proof. intros. unfold sds_flags. apply map_length. Qed.

Lemma slice_exact : forall pre b tail,
  slice (pre ++ b ++ tail) (Z.of_nat (length pre)) (Z.of_nat (length b)) = b.
Proof.
  intros. unfold slice. rewrite !Nat2Z.id. rewrite skipn_exact by reflexivity. apply firstn_exact. reflexivity.
Qed.

(** the offset walk of hdf_read_ndgs finds every scale DFSDIputndg stored, for every subset of the dimensions *)
Lemma scale_walk : forall scales sizes pre tail,
  Forall2 scale_fits scales sizes ->
  map (fun on => match fst on with
                 | Some off => Some (slice (pre ++ concat (present scales) ++ tail) off (snd on))
                 | None => None
                 end)
      (combine (scale_offsets sizes (sds_flags scales) (Z.of_nat (length pre))) sizes) = scales.
Proof.
  intros scales sizes pre tail H. revert pre. induction H as [| s n scales sizes Hs HF IH]; intro pre.
  - reflexivity.
  - destruct s as [b |]; cbn [sds_flags map present concat scale_offsets].
    + change (1 =? 0) with false. cbn [combine map fst snd]. f_equal.
      * f_equal. cbn in Hs. rewrite <- Hs. rewrite <- app_assoc. apply slice_exact.
      * cbn in Hs. rewrite <- Hs. rewrite <- Nat2Z.inj_add, <- app_length.
        specialize (IH (pre ++ b)). rewrite <- !app_assoc in IH. rewrite <- app_assoc. exact IH.
    + change (0 =? 0) with true. cbn [combine map fst snd]. f_equal. apply IH.
Qed.

Lemma sds_roundtrip_sd : forall scales sizes,
  Forall2 scale_fits scales sizes -> sd_read_scales sizes (sds_encode scales) = scales.
Proof.
  intros scales sizes H. unfold sd_read_scales, sds_encode.
  assert (L : length sizes = length (sds_flags scales)).
  { rewrite sds_flags_length. symmetry. eapply forall2_length; eauto. }
  rewrite L. rewrite firstn_exact by reflexivity.
  pose proof (scale_walk scales sizes (sds_flags scales) [] H) as W. rewrite app_nil_r in W. exact W.
Qed.

Lemma seq_scales_ok : forall scales sizes tail,
  Forall2 scale_fits scales sizes ->
  seq_scales sizes (sds_flags scales) (concat (present scales) ++ tail) = scales.
Proof.
  intros scales sizes tail H. induction H as [| s n scales sizes Hs HF IH].
  - reflexivity.
  - destruct s as [b |]; cbn [sds_flags map present concat seq_scales].
    + change (1 =? 0) with false. cbn in Hs. rewrite <- Hs, Nat2Z.id. rewrite <- app_assoc.
      rewrite firstn_exact, skipn_exact by reflexivity. apply (f_equal (cons (Some b))). exact IH.
    + change (0 =? 0) with true. apply (f_equal (cons None)). exact IH.
Qed.

Lemma sds_roundtrip_dfsd : forall scales sizes,
  Forall2 scale_fits scales sizes -> dfsd_read_scales sizes (sds_encode scales) = scales.
Proof.
  intros scales sizes H. unfold dfsd_read_scales, sds_encode.
  assert (L : length sizes = length (sds_flags scales)).
  { rewrite sds_flags_length. symmetry. eapply forall2_length; eauto. }
  rewrite L. rewrite firstn_exact, skipn_exact by reflexivity.
  pose proof (seq_scales_ok scales sizes [] H) as W. rewrite app_nil_r in W. exact W.
Qed.

(** record variables: the NDG reconstruction shows the variable's own record count *)
Lemma ndg_view_record_variable : forall shape vrecs hrecs nt dref ref ndgref st',
  let v := mkVar (ndg_dims true shape vrecs hrecs) nt dref ref ndgref in
  var_ok v ->
  ndg_view (sd_write_var v ++ st') (sd_ndg_members v) =
  Some (zlen shape, effective_dims shape vrecs, shown_nt nt, dref).
Proof.
  intros shape vrecs hrecs nt dref ref ndgref st' v Hv.
  destruct (ndg_view_eq_vgroup_view_lemma v st' Hv) as [A _]. rewrite A. unfold the_view, v. cbn [v_dims v_nt v_data_ref].
  rewrite ndg_dims_own_record_count. unfold zlen, effective_dims. rewrite map_length. reflexivity.
Qed.

(* --------------------------------------------------------------- round 2: name matching, array collapse *)
Lemma prefix_eqb_same_length : forall a b, length a = length b -> prefix_eqb a b = true -> a = b.
Proof.
  induction a as [|x a IH]; destruct b as [|y b]; simpl; intros HL H; try discriminate; auto.
  apply andb_true_iff in H. destruct H as [E P]. apply Z.eqb_eq in E. subst. f_equal. apply IH; [lia | assumption].
Qed.
Lemma prefix_eqb_refl : forall a, prefix_eqb a a = true.
Proof. induction a; simpl; auto. rewrite Z.eqb_refl. assumption. Qed.

(** the test SDgetdimstrs applies to a variable name is equality with the dimension name: a name that merely
    starts with the dimension name does not match *)
Lemma name_match_iff : forall dim var, name_match dim var = true <-> dim = var.
Proof.
  intros. unfold name_match. split.
  - intro H. apply andb_true_iff in H. destruct H as [L P]. apply Nat.eqb_eq in L. apply prefix_eqb_same_length; assumption.
  - intro; subst. rewrite Nat.eqb_refl, prefix_eqb_refl. reflexivity.
Qed.

Definition cv_step (dim : list Z) (acc : option cvar) (v : cvar) : option cvar :=
  if (cv_rank v =? 1) && name_match dim (cv_name v) && negb (cv_is_sds v) then Some v else acc.

Lemma find_coordvar_acc : forall dim vars acc,
  (forall v, acc = Some v -> cv_name v = dim /\ cv_rank v = 1 /\ cv_is_sds v = false) ->
  forall v, fold_left (cv_step dim) vars acc = Some v -> cv_name v = dim /\ cv_rank v = 1 /\ cv_is_sds v = false.
Proof.
  intros dim vars. induction vars as [|x vars IH]; intros acc Hacc v H; simpl in H.
  - apply Hacc. assumption.
  - eapply IH; [| exact H]. intros v0 Hv0. unfold cv_step in Hv0.
    destruct ((cv_rank x =? 1) && name_match dim (cv_name x) && negb (cv_is_sds x)) eqn:E.
    + inversion Hv0; subst. apply andb_true_iff in E. destruct E as [E E3]. apply andb_true_iff in E. destruct E as [E1 E2].
      apply Z.eqb_eq in E1. apply name_match_iff in E2. apply negb_true_iff in E3. auto.
    + apply Hacc. assumption.
Qed.

(** the strings SDgetdimstrs returns are those of a coordinate variable named exactly like the dimension ... *)
Lemma find_coordvar_exact : forall dim vars v,
  find_coordvar dim vars = Some v -> cv_name v = dim /\ cv_rank v = 1 /\ cv_is_sds v = false.
Proof. intros dim vars v H. eapply (find_coordvar_acc dim vars None); [| exact H]. intros v0 H0; discriminate. Qed.

Lemma find_coordvar_some_acc : forall dim vars acc, acc <> None -> fold_left (cv_step dim) vars acc <> None.
Proof.
  intros dim vars. induction vars as [|x vars IH]; intros acc H; simpl; auto.
  apply IH. unfold cv_step. destruct ((cv_rank x =? 1) && name_match dim (cv_name x) && negb (cv_is_sds x)); [discriminate | assumption].
Qed.

Lemma find_coordvar_total_acc : forall dim vars acc v,
  In v vars -> cv_name v = dim -> cv_rank v = 1 -> cv_is_sds v = false -> fold_left (cv_step dim) vars acc <> None.
Proof.
  intros dim vars. induction vars as [|x vars IH]; intros acc v HIn Hn Hr Hs; simpl in *; [contradiction |].
  destruct HIn as [-> | HIn].
  - apply find_coordvar_some_acc. unfold cv_step. rewrite Hr, Hn, Hs. rewrite Z.eqb_refl.
    rewrite (proj2 (name_match_iff dim dim) eq_refl). simpl. discriminate.
  - eapply IH; eauto.
Qed.

(** ... and such a variable is found whenever one exists *)
Lemma find_coordvar_total : forall dim vars v,
  In v vars -> cv_name v = dim -> cv_rank v = 1 -> cv_is_sds v = false -> find_coordvar dim vars <> None.
Proof. intros. change (find_coordvar dim vars) with (fold_left (cv_step dim) vars None). eapply find_coordvar_total_acc; eauto. Qed.

(** a dimension the collapse loop of DFSDIgetslice merges away is whole in the file AND in the caller's array: its
    rows are contiguous in both (the property that makes treating two dimensions as one sound) *)
Lemma collapse_only_whole_dimensions : forall a w s f,
  collapse_break (a, w, s, f) = false -> w <= a -> 0 <= s -> s + w <= f -> a = w /\ s = 0 /\ w = f.
Proof.
  intros a w s f H Ha Hs Hf. unfold collapse_break, getslice_collapse_break in H.
  apply negb_false_iff in H. apply Z.eqb_eq in H.
  destruct (Z.ltb_spec w a), (Z.eqb_spec s 0), (Z.ltb_spec w f); simpl in H; try discriminate; lia.
Qed.

(** and conversely a whole dimension is merged (the optimisation is not lost) *)
Lemma collapse_merges_whole_dimensions : forall a : Z, collapse_break (a, a, 0, a) = false.
Proof.
  intros. unfold collapse_break, getslice_collapse_break.
  rewrite Z.ltb_irrefl. simpl. reflexivity.
Qed.

Lemma source_tie_round2 :
  SDgetdimstrs_namematch = "namelen == (*dp)->name->len && strncmp(name, (*dp)->name->values, strlen(name)) == 0"%string /\
  getslice_collapse_step = "wstart[i - 1] *= fdims[i]; wdims[i - 1] *= wdims[i]; adims[i - 1] *= adims[i]; fdims[i - 1] *= fdims[i]; rank--;"%string /\
  getslice_fast_readsize = "readsize = wdims[0] * fileNTsize;"%string.
Proof. repeat split; reflexivity. Qed.

(* --------------------------------------------------- round 3: the writer's scales record between datasets *)
(** the bookkeeping invariant: "no record" means no scale is set; "record r is up to date" means the record holds
    exactly the scales now in effect *)
Definition wsc_ok (st : wscales) : Prop :=
  (wsc_ref st = -1 -> has_scale (wsc_scales st) = false) /\
  (0 < wsc_ref st -> wsc_written st = sds_encode (wsc_scales st)) /\ -1 <= wsc_ref st.

Lemma has_scale_repeat : forall n, has_scale (repeat None n) = false.
Proof. induction n; simpl; auto. Qed.

Lemma wsc_ok_step : forall st op, wsc_ok st -> (match op with WPut r => 0 < r | _ => True end) -> wsc_ok (fst (wsc_step st op)).
Proof.
  intros st op (H1 & H2 & H3) Hop. destruct op as [d s | rank | rank | r]; cbn [wsc_step fst].
  - unfold wsc_setscale, wsc_ok. cbn [wsc_ref wsc_scales wsc_written].
    assert (E : (match s with Some _ => DFSDsetdimscale_set_marks_modified | None => DFSDsetdimscale_null_marks_modified end) = true)
      by (destruct s; reflexivity).
    rewrite E. repeat split; intros; lia.
  - unfold wsc_forget, wsc_ok. cbn [wsc_ref wsc_scales wsc_written].
    change DFSDIclear_forgets_scales_record with true. cbn. repeat split; intros; try lia. apply has_scale_repeat.
  - unfold wsc_forget, wsc_ok. cbn [wsc_ref wsc_scales wsc_written].
    change DFSDIclearNT_forgets_scales_record with true. cbn. repeat split; intros; try lia. apply has_scale_repeat.
  - unfold wsc_put. destruct (Z.eqb_spec (wsc_ref st) 0) as [E | E].
    + destruct (has_scale (wsc_scales st)) eqn:HS; cbn [fst]; unfold wsc_ok; cbn [wsc_ref wsc_scales wsc_written];
        repeat split; intros; try lia; auto.
    + destruct (Z.ltb_spec 0 (wsc_ref st)); cbn [fst]; unfold wsc_ok; auto.
Qed.

(** the record an NDG refers to holds exactly the scales in effect for that dataset; no record = no scale *)
Definition put_ok (p : list (option (list Z)) * option (list Z)) : Prop :=
  match snd p with Some rec => rec = sds_encode (fst p) | None => has_scale (fst p) = false end.

Lemma wsc_put_ok : forall st r, wsc_ok st -> put_ok (wsc_scales st, snd (wsc_put st r)).
Proof.
  intros st r (H1 & H2 & H3). unfold wsc_put, put_ok.
  destruct (Z.eqb_spec (wsc_ref st) 0) as [E | E].
  - destruct (has_scale (wsc_scales st)) eqn:HS; cbn [fst snd]; auto.
  - destruct (Z.ltb_spec 0 (wsc_ref st)); cbn [fst snd]; [apply H2; assumption | apply H1; lia].
Qed.

Definition wop_ok (op : wop) : Prop := match op with WPut r => 0 < r | _ => True end.

Lemma wsc_run_ok : forall ops st, wsc_ok st -> Forall wop_ok ops -> Forall put_ok (wsc_run st ops).
Proof.
  induction ops as [|op ops IH]; intros st Hst Hops; cbn [wsc_run]; [constructor |].
  inversion Hops as [|? ? Hop Hrest]; subst.
  pose proof (wsc_ok_step st op Hst Hop) as Hst'.
  destruct (wsc_step st op) as [st' out] eqn:E. cbn [fst] in Hst'.
  apply Forall_app. split; [| apply IH; assumption].
  destruct op as [d s | rank | rank | r]; cbn [wsc_step] in E.
  - inversion E; subst. constructor.
  - inversion E; subst. constructor.
  - inversion E; subst. constructor.
  - destruct (wsc_put st r) as [st2 rec] eqn:P. inversion E; subst. constructor; [| constructor].
    pose proof (wsc_put_ok st r Hst) as Q. rewrite P in Q. exact Q.
Qed.

Lemma wsc_initial_ok : wsc_ok (mkWs [] (-1) []).
Proof. unfold wsc_ok; cbn. repeat split; intros; try lia; reflexivity. Qed.

Definition put_reads_back (p : list (option (list Z)) * option (list Z)) : Prop :=
  match snd p with
  | Some rec => forall sizes, Forall2 scale_fits (fst p) sizes ->
                  sd_read_scales sizes rec = fst p /\ dfsd_read_scales sizes rec = fst p
  | None => has_scale (fst p) = false
  end.

Lemma wsc_session_reads_back : forall ops, Forall wop_ok ops ->
  Forall put_reads_back (wsc_run (mkWs [] (-1) []) ops).
Proof.
  intros ops H. eapply Forall_impl; [| apply (wsc_run_ok ops _ wsc_initial_ok H)].
  intros [sc rec] Hp. unfold put_ok, put_reads_back in *. cbn [fst snd] in *.
  destruct rec as [rc |]; [| exact Hp]. subst rc. intros sizes HF.
  split; [apply sds_roundtrip_sd | apply sds_roundtrip_dfsd]; assumption.
Qed.

(* ------------------------------------------- deepening: the collapse does not move any element of the window *)
Lemma seq_add : forall n b, seq b n = map (fun i => (b + i)%nat) (seq 0 n).
Proof.
  induction n; intro b; simpl; [reflexivity |]. f_equal; [lia |].
  rewrite <- (seq_shift n 0), map_map. rewrite (IHn (S b)). apply map_ext. intros; lia.
Qed.

Lemma seq_mul_split : forall (A : Type) (g : nat -> A) m n,
  map g (seq 0 (m * n)) = flat_map (fun j => map (fun i => g (j * n + i)%nat) (seq 0 n)) (seq 0 m).
Proof.
  intros A g m n. induction m as [|m IH].
  - reflexivity.
  - replace (S m * n)%nat with (m * n + n)%nat by lia. rewrite seq_app, map_app, IH.
    rewrite seq_S, flat_map_app. cbn [flat_map plus]. rewrite app_nil_r. f_equal.
    rewrite (seq_add n (m * n)), map_map. reflexivity.
Qed.

Lemma zrange_mul_split : forall (A : Type) (g : Z -> A) m n, 0 <= m -> 0 <= n ->
  map g (zrange (m * n)) = flat_map (fun j => map (fun i => g (j * n + i)) (zrange n)) (zrange m).
Proof.
  intros A g m n Hm Hn. unfold zrange. rewrite Z2Nat.inj_mul by assumption.
  rewrite map_map. rewrite (seq_mul_split A (fun x => g (Z.of_nat x)) (Z.to_nat m) (Z.to_nat n)).
  rewrite flat_map_concat_map, flat_map_concat_map. f_equal. rewrite map_map. apply map_ext. intro j.
  rewrite map_map. apply map_ext. intro i.
  f_equal. rewrite Nat2Z.inj_add, Nat2Z.inj_mul, Z2Nat.id by assumption. reflexivity.
Qed.

Lemma flat_map_ext_in : forall (A B : Type) (f g : A -> list B) l, (forall x, f x = g x) -> flat_map f l = flat_map g l.
Proof. intros. induction l; simpl; [reflexivity | rewrite H, IHl; reflexivity]. Qed.

Lemma flat_map_flat_map : forall (A B C : Type) (f : A -> list B) (g : B -> list C) l,
  flat_map g (flat_map f l) = flat_map (fun x => flat_map g (f x)) l.
Proof. intros. induction l; simpl; [reflexivity |]. rewrite flat_map_app, IHl. reflexivity. Qed.

Lemma flat_map_map : forall (A B C : Type) (f : A -> B) (g : B -> list C) l,
  flat_map g (map f l) = flat_map (fun x => g (f x)) l.
Proof. intros. induction l; simpl; [reflexivity | rewrite IHl; reflexivity]. Qed.

(** one merge step: a dimension that is whole in the file and in the array (n = its extent everywhere, start 0) can be
    folded into the next one without moving any element *)
Lemma cells_merge : forall n a0 w0 s0 f0 rest, 0 <= n -> 0 <= w0 ->
  cells ((n, n, 0, n) :: (a0, w0, s0, f0) :: rest) = cells ((a0 * n, w0 * n, s0 * n, f0 * n) :: rest).
Proof.
  intros n a0 w0 s0 f0 rest Hn Hw. cbn [cells].
  rewrite flat_map_flat_map. apply flat_map_ext_in. intro q.
  rewrite flat_map_map.
  rewrite (zrange_mul_split _ (fun i => (i + a0 * n * fst q, s0 * n + i + f0 * n * snd q)) w0 n Hw Hn).
  apply flat_map_ext_in. intro j. apply map_ext. intro i. cbn [fst snd]. f_equal; ring.
Qed.

Definition gdim_ok (d : gdim) : Prop := match d with (a, w, s, f) => 0 <= w <= a /\ 0 <= s /\ s + w <= f end.

(** DFSDIgetslice's dimension collapse leaves every element of the window at the same place of the caller's array and
    takes it from the same place of the file, in the same order *)
Lemma collapse_preserves_cells : forall fuel l, Forall gdim_ok l -> cells (collapse fuel l) = cells l /\ Forall gdim_ok (collapse fuel l).
Proof.
  induction fuel as [|k IH]; intros l Hl; [split; [reflexivity | assumption] |].
  cbn [collapse]. destruct l as [|[[[a1 w1] s1] f1] [|[[[a0 w0] s0] f0] rest]]; try (split; [reflexivity | assumption]).
  destruct (collapse_break (a1, w1, s1, f1)) eqn:B; [split; [reflexivity | assumption] |].
  inversion Hl as [|? ? H1 Hl']; subst. inversion Hl' as [|? ? H0 Hrest]; subst.
  cbn [gdim_ok] in H1, H0. destruct H1 as ([Hw1 Ha1] & Hs1 & Hf1). destruct H0 as ([Hw0 Ha0] & Hs0 & Hf0).
  destruct (collapse_only_whole_dimensions a1 w1 s1 f1 B Ha1 Hs1 Hf1) as (Ea & Es & Ef). subst a1 s1 f1.
  assert (OK : Forall gdim_ok ((a0 * w1, w0 * w1, s0 * w1, f0 * w1) :: rest)).
  { constructor; [| assumption]. cbn [gdim_ok]. repeat split; try nia. }
  destruct (IH _ OK) as [E1 E2]. split; [| exact E2].
  rewrite E1. symmetry. apply cells_merge; lia.
Qed.

(* ------------------------------------------------------------------ deepening: values across the interfaces *)
Lemma chunk_nil : forall fuel w, chunk fuel w [] = [].
Proof. destruct fuel; reflexivity. Qed.

Lemma chunk_concat : forall els fuel w, (0 < w)%nat -> Forall (fun e => length e = w) els -> (length els <= fuel)%nat ->
  chunk fuel w (concat els) = els.
Proof.
  induction els as [|e es IH]; intros fuel w Hw HF Hf.
  - apply chunk_nil.
  - inversion HF as [|? ? He HF']; subst. destruct fuel as [|k]; [simpl in Hf; lia |].
    cbn [concat chunk]. destruct e as [|x e']; [simpl in Hw; lia |].
    cbn [app]. change (x :: e' ++ concat es) with ((x :: e') ++ concat es).
    rewrite firstn_exact, skipn_exact by reflexivity. f_equal. apply IH; auto. simpl in Hf; lia.
Qed.

Lemma concat_length_ge : forall (els : list (list Z)) w, (0 < w)%nat -> Forall (fun e => length e = w) els ->
  (length els <= length (concat els))%nat.
Proof. induction 2; simpl; [lia |]. rewrite app_length. lia. Qed.

Lemma convert_concat : forall nt els, 0 < ntsize nt ->
  Forall (fun e => Z.of_nat (length e) = ntsize nt) els -> convert nt (concat els) = concat (conv_elems nt els).
Proof.
  intros nt els Hs HF. unfold convert. f_equal. f_equal.
  assert (HF' : Forall (fun e => length e = Z.to_nat (ntsize nt)) els).
  { eapply Forall_impl; [| exact HF]. intros e He. cbn in He. lia. }
  apply chunk_concat; [lia | assumption | apply concat_length_ge with (w := Z.to_nat (ntsize nt)); [lia | assumption]].
Qed.

Lemma conv_elems_lengths : forall nt els w, Forall (fun e => Z.of_nat (length e) = w) els ->
  Forall (fun e => Z.of_nat (length e) = w) (conv_elems nt els).
Proof.
  intros nt els w H. unfold conv_elems. destruct (swap_needed nt); [| assumption].
  induction H; simpl; constructor; auto. rewrite rev_length. assumption.
Qed.

Lemma rev_single : forall (e : list Z), length e = 1%nat -> rev e = e.
Proof. intros [|x [|y e]] H; simpl in H; try discriminate; reflexivity. Qed.

(** converting with the writer's type and then with the type the reader decoded gives the values back *)
Lemma conv_elems_roundtrip : forall nt ty els,
  (swap_needed ty = swap_needed nt \/ ntsize nt = 1) -> Forall (fun e => Z.of_nat (length e) = ntsize nt) els ->
  conv_elems ty (conv_elems nt els) = els.
Proof.
  intros nt ty els H HF. unfold conv_elems.
  assert (RR : map (@rev Z) (map (@rev Z) els) = els).
  { rewrite map_map. rewrite <- (map_id els) at 2. apply map_ext. intro; apply rev_involutive. }
  destruct H as [E | E1].
  - rewrite E. destruct (swap_needed nt); [exact RR | reflexivity].
  - assert (R1 : map (@rev Z) els = els).
    { rewrite <- (map_id els) at 2. apply map_ext_in. intros e He. apply rev_single.
      rewrite Forall_forall in HF. specialize (HF e He). lia. }
    destruct (swap_needed nt), (swap_needed ty); rewrite ?R1; auto.
Qed.

Definition nt_conv_check (nt : Z) : bool :=
  ((Bool.eqb (swap_needed (shown_nt nt)) (swap_needed nt)) || (ntsize nt =? 1)) && (ntsize (shown_nt nt) =? ntsize nt).
Lemma nt_conv_check_all : forallb nt_conv_check nt_all = true.
Proof. vm_compute. reflexivity. Qed.

Lemma convert_roundtrip : forall nt els, In nt nt_all ->
  Forall (fun e => Z.of_nat (length e) = ntsize nt) els ->
  convert (shown_nt nt) (convert nt (concat els)) = concat els.
Proof.
  intros nt els Hnt HF.
  pose proof (proj1 (forallb_forall nt_conv_check nt_all) nt_conv_check_all nt Hnt) as C.
  unfold nt_conv_check in C. apply andb_true_iff in C. destruct C as [C1 C2]. apply Z.eqb_eq in C2.
  destruct (nt_roundtrip nt Hnt) as (_ & _ & _ & _ & _ & Hpos).
  rewrite convert_concat by assumption.
  rewrite convert_concat; [| rewrite C2; assumption | rewrite C2; apply conv_elems_lengths; assumption].
  rewrite conv_elems_roundtrip; [reflexivity | | assumption].
  apply orb_true_iff in C1. destruct C1 as [C1 | C1]; [left; apply Bool.eqb_prop; assumption | right; apply Z.eqb_eq; assumption].
Qed.

Lemma get_past_sd_var : forall v b st', v_data_ref v <> 0 ->
  get (sd_write_var v ++ (DFTAG_SD, v_data_ref v, b) :: st') DFTAG_SD (v_data_ref v) = Some b.
Proof. intros. unfold sd_write_var. cbn [app get]. rewrite !Z.eqb_refl. reflexivity. Qed.
Lemma get_past_dfsd : forall v b st', v_data_ref v <> 0 ->
  get (dfsd_put v ++ (DFTAG_SD, v_data_ref v, b) :: st') DFTAG_SD (v_data_ref v) = Some b.
Proof. intros. unfold dfsd_put. cbn [app get]. rewrite !Z.eqb_refl. reflexivity. Qed.

(** END TO END at the level of the element store: a dataset written through SD (hdf_write_var + the data element)
    or through DFSD (DFSDIputndg + the data element) is handed back -- rank, extents, type name AND every value -- by the
    SD reader on the NDG path, by the SD reader on the Vgroup path and by the DFSD reader, whichever of the two wrote it *)
Lemma sds_values_agree : forall v els st', var_ok v -> v_data_ref v <> 0 ->
  Forall (fun e => Z.of_nat (length e) = ntsize (v_nt v)) els ->
  let data := concat els in
  let shown := (zlen (v_dims v), v_dims v, same_type (v_nt v), v_data_ref v) in
  read_values ndg_view (sd_write_full v data st') (sd_ndg_members v) = Some (shown, data) /\
  read_values_vg (sd_write_full v data st') (sd_write_vg v) = Some (shown, data) /\
  read_values dfsd_view (sd_write_full v data st') (sd_ndg_members v) = Some (shown, data) /\
  read_values ndg_view (dfsd_put_full v data st') [(DFTAG_SD, v_data_ref v); (DFTAG_SDD, v_ref v)] = Some (shown, data) /\
  read_values dfsd_view (dfsd_put_full v data st') [(DFTAG_SD, v_data_ref v); (DFTAG_SDD, v_ref v)] = Some (shown, data).
Proof.
  intros v els st' Hv Hd HF data shown.
  pose proof Hv as (_ & _ & _ & Hnt & _).
  destruct (nt_roundtrip _ Hnt) as (_ & _ & Hsame & _).
  destruct (sds_readers_agree v ((DFTAG_SD, v_data_ref v, convert (v_nt v) data) :: st') Hv) as (A & B & C & _ & _).
  destruct (sds_readers_agree v ((DFTAG_SD, v_data_ref v, convert (v_nt v) data) :: st') Hv) as (_ & _ & _ & D & E).
  pose proof (convert_roundtrip (v_nt v) els Hnt HF) as RT. rewrite Hsame in RT.
  unfold read_values, read_values_vg, sd_write_full, dfsd_put_full.
  rewrite A, B, C, D, E. rewrite get_past_sd_var, get_past_dfsd by assumption.
  fold data in RT. rewrite RT. repeat split; reflexivity.
Qed.

(* ------------------------------------------------ deepening: every Ref.* slot of the writer, generically *)
Section SlotProofs.
  Variable A : Type.
  Variable present : A -> bool.
  Variable dflt : A.
  Variable oneshot : bool.

  Definition sl_ok (st : slot A) : Prop :=
    (sl_ref st = -1 -> sl_val st = dflt \/ present (sl_val st) = false) /\
    (0 < sl_ref st -> sl_written st = sl_val st) /\ -1 <= sl_ref st.

  Definition sl_put_ok (p : A * option A) : Prop :=
    match snd p with Some x => x = fst p | None => fst p = dflt \/ present (fst p) = false end.

  Lemma sl_ok_step : forall st op, sl_ok st -> (match op with SlPut r => 0 < r | _ => True end) ->
    sl_ok (fst (sl_step true true oneshot present dflt st op)).
  Proof.
    intros st op (H1 & H2 & H3) Hop. destruct op as [v | | r]; cbn [sl_step fst].
    - unfold sl_set, sl_ok; cbn. repeat split; intros; try lia.
    - unfold sl_forget, sl_ok; cbn. repeat split; intros; try lia. left; reflexivity.
    - unfold sl_put. destruct (Z.eqb_spec (sl_ref st) 0) as [E | E].
      + destruct (present (sl_val st)) eqn:P; cbn [fst snd]; destruct oneshot; unfold sl_ok; cbn;
          repeat split; intros; try lia; auto.
      + destruct (Z.ltb_spec 0 (sl_ref st)); cbn [fst snd]; destruct oneshot; unfold sl_ok; cbn;
          repeat split; intros; try lia; auto.
  Qed.

  Lemma sl_put_out_ok : forall st r, sl_ok st -> sl_put_ok (sl_val st, snd (sl_put present oneshot dflt st r)).
  Proof.
    intros st r (H1 & H2 & H3). unfold sl_put, sl_put_ok.
    destruct (Z.eqb_spec (sl_ref st) 0) as [E | E].
    - destruct (present (sl_val st)) eqn:P; cbn [fst snd]; auto.
    - destruct (Z.ltb_spec 0 (sl_ref st)); cbn [fst snd]; [apply H2; assumption | apply H1; lia].
  Qed.

  Definition slop_ok (op : slot_op A) : Prop := match op with SlPut r => 0 < r | _ => True end.

  (** for every sequence of set / forget / put: the record each dataset refers to holds the value in effect, and a
      dataset without record has the default (nothing set) *)
  Lemma sl_run_ok : forall ops st, sl_ok st -> Forall slop_ok ops ->
    Forall sl_put_ok (sl_run true true oneshot present dflt st ops).
  Proof.
    induction ops as [|op ops IH]; intros st Hst Hops; cbn [sl_run]; [constructor |].
    inversion Hops as [|? ? Hop Hrest]; subst.
    pose proof (sl_ok_step st op Hst Hop) as Hst'.
    destruct (sl_step true true oneshot present dflt st op) as [st' out] eqn:E. cbn [fst] in Hst'.
    apply Forall_app. split; [| apply IH; assumption].
    destruct op as [v | | r]; cbn [sl_step] in E.
    - inversion E; subst. constructor.
    - inversion E; subst. constructor.
    - destruct (sl_put present oneshot dflt st r) as [st2 rec] eqn:P. inversion E; subst. constructor; [| constructor].
      pose proof (sl_put_out_ok st r Hst) as Q. rewrite P in Q. exact Q.
  Qed.

  Lemma sl_initial_ok : sl_ok (mkSlot dflt (-1) dflt).
  Proof. unfold sl_ok; cbn. repeat split; intros; try lia. left; reflexivity. Qed.
End SlotProofs.

(** the two instances, with the setter / reset behaviour the translator read off dfsd.c *)
Lemma luf_session_ok : forall ops, Forall (slop_ok luf_value) ops ->
  Forall (sl_put_ok luf_value (fun _ => true) (None, [])) (luf_run (mkSlot (None, []) (-1) (None, [])) ops).
Proof. intros. apply (sl_run_ok luf_value (fun _ => true) (None, []) false); [apply sl_initial_ok | assumption]. Qed.

Lemma range_session_ok : forall ops, Forall (slop_ok range_value) ops ->
  Forall (sl_put_ok range_value (fun v => match v with Some _ => true | None => false end) None)
         (range_run (mkSlot None (-1) None) ops).
Proof.
  intros. apply (sl_run_ok range_value (fun v => match v with Some _ => true | None => false end) None true);
    [apply sl_initial_ok | assumption].
Qed.

(* ------------------------------------------------------------ deepening: 8-bit pixels across GR / DFR8 / DF24 *)
Lemma get_img_past_gr : forall m b st', gr_compat m = true -> ri_img_tag m = DFTAG_RI \/ ri_img_tag m = DFTAG_CI ->
  get (gr_put m ++ (ri_img_tag m, ri_img_ref m, b) :: st') (ri_img_tag m) (ri_img_ref m) = Some b.
Proof.
  intros m b st' Hg Ht. unfold gr_put. rewrite Hg. cbn [app get].
  destruct Ht as [-> | ->]; cbn; rewrite !Z.eqb_refl; reflexivity.
Qed.
Lemma get_img_past_dfr8 : forall m b st', ri_img_tag m = DFTAG_RI \/ ri_img_tag m = DFTAG_CI ->
  get (dfr8_put m ++ (ri_img_tag m, ri_img_ref m, b) :: st') (ri_img_tag m) (ri_img_ref m) = Some b.
Proof.
  intros m b st' Ht. unfold dfr8_put. cbn [app get].
  destruct Ht as [-> | ->]; cbn; rewrite !Z.eqb_refl; reflexivity.
Qed.

(** an uncompressed 8-bit image written by GR (with its compatibility group) or by DFR8 is handed back, description
    and every pixel, by DFR8getrig+element read and by DFGRgetrig+element read *)
Lemma raster8_values_agree : forall m pixels st', ri_ok m -> ri_ncomp m = 1 -> ri_ctag m = 0 ->
  (gr_compat m = true ->
     rig_read_pixels dfr8_view (gr_put_full m pixels st') (gr_members m) = Some (rview_of m MFGR_INTERLACE_PIXEL, pixels) /\
     rig_read_pixels dfgr_view (gr_put_full m pixels st') (gr_members m) = Some (rview_of m MFGR_INTERLACE_PIXEL, pixels)) /\
  rig_read_pixels dfr8_view (dfr8_put_full m pixels st') (dfr8_members m) = Some (rview_of m (ri_il m), pixels) /\
  rig_read_pixels dfgr_view (dfr8_put_full m pixels st') (dfr8_members m) = Some (rview_of m (ri_il m), pixels).
Proof.
  intros m pixels st' Hm Hc Hz. pose proof Hm as (_ & _ & _ & _ & _ & _ & _ & Htag & _).
  split; [intro Hg | ].
  - destruct (gr_rig_read_by_old m ((ri_img_tag m, ri_img_ref m, pixels) :: st') Hm Hg) as [A B].
    unfold rig_read_pixels, gr_put_full. rewrite A, (B Hc). unfold rview_of. cbn [rv_ctag rv_img_tag rv_img_ref].
    rewrite Hz, Z.eqb_refl. rewrite get_img_past_gr by assumption. split; reflexivity.
  - destruct (dfr8_rig_roundtrip m ((ri_img_tag m, ri_img_ref m, pixels) :: st') Hm Hc) as [A B].
    unfold rig_read_pixels, dfr8_put_full. rewrite A, B. unfold rview_of. cbn [rv_ctag rv_img_tag rv_img_ref].
    rewrite Hz, Z.eqb_refl. rewrite get_img_past_dfr8 by assumption. split; reflexivity.
Qed.

(* ------------------------------------------------------------- round 4: state kept between calls of the readers *)
(** opening a different file leaves no annotation directory of the previous file behind; the same file keeps both *)
Lemma dfan_open_no_stale_directory : forall (A : Type) (dirs : list A * list A),
  dfan_open false dirs = ([], []) /\ dfan_open true dirs = dirs.
Proof. intros. split; reflexivity. Qed.

(** a caller that reads image after image with DF24getimage alone gets exactly the 24-bit images of the file, in order *)
Lemma df24_sequence_is_the_24bit_images : forall groups, df24_sequence groups = filter (fun g => g =? 3) groups.
Proof.
  induction groups as [|g r IH]; [reflexivity |].
  cbn [df24_sequence filter].
  change (DF24getimage_steps_with_DF24getdims && DF24getdims_skips_other_groups) with true. cbv iota.
  rewrite IH. destruct (g =? 3); reflexivity.
Qed.
