(** C01 -- proofs: a linked-block element (HBlocksModel.v) is a byte stream, for every first length,
    block length >= 1, table size >= 1 and every sequence of positioned writes and reads. *)
From Coq Require Import ZArith List Bool Lia.
Require Import H4.HBlocksModel.
Import ListNotations.
Local Open Scope Z_scope.

Definition WF (st : lb) : Prop := 0 <= fl st /\ 0 < bl st /\ 0 < nb st.

Definition bstart (st : lb) (i : Z) : Z := if i =? 0 then 0 else fl st + (i - 1) * bl st.

Lemma locate_spec st q : WF st -> 0 <= q ->
  let '(i, r) := locate st q in 0 <= i /\ 0 <= r < cur_len st i /\ bstart st i + r = q.
Proof.
  intros (Hf & Hb & Hn) Hq. unfold locate, cur_len, bstart.
  destruct (Z.ltb_spec q (fl st)) as [H|H].
  - cbn. lia.
  - pose proof (Z.div_mod (q - fl st) (bl st) ltac:(lia)) as Hdm.
    pose proof (Z.mod_pos_bound (q - fl st) (bl st) Hb) as Hm.
    assert (0 <= (q - fl st) / bl st) by (apply Z.div_pos; lia).
    destruct (Z.eqb_spec ((q - fl st) / bl st + 1) 0) as [E|E]; [lia|].
    split; [lia|]. split; [lia|].
    replace ((q - fl st) / bl st + 1 - 1) with ((q - fl st) / bl st) by lia. lia.
Qed.

Lemma locate_unique st i r : WF st -> 0 <= i -> 0 <= r < cur_len st i ->
  locate st (bstart st i + r) = (i, r).
Proof.
  intros (Hf & Hb & Hn) Hi Hr. unfold locate, cur_len, bstart in *.
  destruct (Z.eqb_spec i 0) as [->|E].
  - cbn. destruct (Z.ltb_spec r (fl st)); [reflexivity|lia].
  - assert (0 <= (i - 1) * bl st) by (apply Z.mul_nonneg_nonneg; lia).
    destruct (Z.ltb_spec (fl st + (i - 1) * bl st + r) (fl st)); [lia|].
    replace (fl st + (i - 1) * bl st + r - fl st) with (r + (i - 1) * bl st) by lia.
    rewrite Z.div_add by lia. rewrite Z.mod_add by lia.
    rewrite Z.div_small by lia. rewrite Z.mod_small by lia. f_equal. lia.
Qed.

Lemma bstart_next st i : 0 <= i -> bstart st (i + 1) = bstart st i + cur_len st i.
Proof.
  intros Hi. unfold bstart, cur_len.
  destruct (Z.eqb_spec (i + 1) 0); [lia|]. destruct (Z.eqb_spec i 0) as [->|]; lia.
Qed.

(** block index is monotone in the position *)
Lemma locate_mono st q1 q2 : WF st -> 0 <= q1 <= q2 -> fst (locate st q1) <= fst (locate st q2).
Proof.
  intros (Hf & Hb & Hn) Hq. unfold locate.
  destruct (Z.ltb_spec q1 (fl st)), (Z.ltb_spec q2 (fl st)); cbn; try lia.
  - assert (0 <= (q2 - fl st) / bl st) by (apply Z.div_pos; lia). lia.
  - assert ((q1 - fl st) / bl st <= (q2 - fl st) / bl st) by (apply Z.div_le_mono; lia). lia.
Qed.

(** byte_at depends on the record only through fl, bl and the blocks *)
Lemma byte_at_ext st st' q : fl st' = fl st -> bl st' = bl st -> (forall i, blk st' i = blk st i) ->
  byte_at st' q = byte_at st q.
Proof.
  intros H1 H2 H3. unfold byte_at, locate. rewrite H1, H2.
  destruct (q <? fl st); rewrite H3; reflexivity.
Qed.

Lemma zlen_nonneg {A} (l : list A) : 0 <= zlen l.
Proof. unfold zlen. lia. Qed.

Lemma zlen_firstn {A} (l : list A) n : 0 <= n <= zlen l -> zlen (firstn (Z.to_nat n) l) = n.
Proof. unfold zlen. intros H. rewrite firstn_length. lia. Qed.

Lemma zlen_skipn {A} (l : list A) n : 0 <= n <= zlen l -> zlen (skipn (Z.to_nat n) l) = zlen l - n.
Proof. unfold zlen. intros H. rewrite skipn_length. lia. Qed.

Lemma nth_firstn_skipn (l : list Z) : forall (n k : nat),
  nth k l 0 = if (k <? n)%nat then nth k (firstn n l) 0 else nth (k - n) (skipn n l) 0.
Proof.
  induction l as [|a l IH]; intros n k.
  - rewrite firstn_nil, skipn_nil. assert (E : forall j, nth j (@nil Z) 0 = 0) by (intros [|j]; reflexivity).
    rewrite !E. destruct (k <? n)%nat; reflexivity.
  - destruct n as [|n].
    + cbn [firstn skipn]. change (k <? 0)%nat with false. now rewrite Nat.sub_0_r.
    + destruct k as [|k]; [reflexivity|].
      cbn [firstn skipn nth]. rewrite (IH n k). reflexivity.
Qed.

(** ---- the write loop -------------------------------------------------------- *)

Lemma wr_loop_spec : forall fuel st idx rel data,
  WF st -> (length data < fuel)%nat -> 0 <= idx -> 0 <= rel < cur_len st idx -> data <> [] ->
  idx / nb st < ntab st ->
  let st' := wr_loop fuel st idx rel data in
  let pos := bstart st idx + rel in
  fl st' = fl st /\ bl st' = bl st /\ nb st' = nb st /\ len st' = len st /\ ntab st <= ntab st' /\
  (forall q, 0 <= q -> byte_at st' q =
     if (pos <=? q) && (q <? pos + zlen data) then nth (Z.to_nat (q - pos)) data 0 else byte_at st q) /\
  (forall q, pos <= q < pos + zlen data -> fst (locate st q) / nb st < ntab st').
Proof.
  induction fuel as [|fuel IH]; intros st idx rel data Hwf Hfuel Hidx Hrel Hne Htab; [lia|].
  cbn [wr_loop]. cbv zeta.
  set (remaining := Z.min (cur_len st idx - rel) (zlen data)).
  assert (Hdl : 0 < zlen data) by (destruct data; [congruence | unfold zlen; cbn; lia]).
  assert (Hrem : 0 < remaining <= zlen data) by (unfold remaining; lia).
  set (chunk := firstn (Z.to_nat remaining) data).
  set (rest := skipn (Z.to_nat remaining) data).
  assert (Hcl : zlen chunk = remaining) by (apply zlen_firstn; lia).
  assert (Hrl : zlen rest = zlen data - remaining) by (apply zlen_skipn; lia).
  set (st1 := set_blk st idx (put_chunk (blk st idx) rel chunk)).
  set (pos := bstart st idx + rel).
  (* effect of the chunk on the stream *)
  assert (Hb1 : forall q, 0 <= q -> byte_at st1 q =
            if (pos <=? q) && (q <? pos + remaining) then nth (Z.to_nat (q - pos)) chunk 0 else byte_at st q).
  { intros q Hq. unfold byte_at. change (locate st1 q) with (locate st q).
    pose proof (locate_spec st q Hwf Hq) as Hl. destruct (locate st q) as [i r]. destruct Hl as (Hi & Hr & Hqe).
    cbn [blk st1 set_blk]. destruct (Z.eqb_spec i idx) as [->|Hne'].
    - unfold put_chunk. rewrite Hcl. subst pos.
      destruct (Z.leb_spec rel r), (Z.ltb_spec r (rel + remaining)),
               (Z.leb_spec (bstart st idx + rel) q), (Z.ltb_spec q (bstart st idx + rel + remaining)); cbn [andb]; try lia.
      all: try (f_equal; lia).
      all: destruct (blk st idx); reflexivity.
    - (* another block: q is outside [pos, pos+remaining) *)
      assert (Hout : ~ (pos <= q < pos + remaining)).
      { intros Hin. subst pos.
        assert (Hr' : 0 <= q - bstart st idx < cur_len st idx) by (unfold remaining in *; lia).
        pose proof (locate_unique st idx (q - bstart st idx) Hwf Hidx Hr') as Hu.
        replace (bstart st idx + (q - bstart st idx)) with q in Hu by lia.
        pose proof (locate_unique st i r Hwf Hi Hr) as Hu2. rewrite Hqe in Hu2. congruence. }
      destruct (Z.leb_spec pos q), (Z.ltb_spec q (pos + remaining)); cbn; try lia; reflexivity. }
  assert (Hrlen : length rest = (length data - Z.to_nat remaining)%nat) by (unfold rest; apply skipn_length).
  destruct rest as [|x rest'] eqn:Erest.
  - (* last chunk *)
    assert (Hall : remaining = zlen data) by (unfold zlen in Hrl; cbn in Hrl; unfold zlen; lia).
    fold st1. repeat split; try reflexivity; try lia.
    + intros q Hq. rewrite Hb1 by assumption. rewrite Hall.
      destruct ((pos <=? q) && (q <? pos + zlen data)); [|reflexivity].
      unfold chunk. rewrite Hall. unfold zlen. rewrite Nat2Z.id. now rewrite firstn_all.
    + intros q Hq. cbn [ntab st1 set_blk].
      assert (Hr' : 0 <= q - bstart st idx < cur_len st idx) by (unfold remaining, pos in *; lia).
      pose proof (locate_unique st idx (q - bstart st idx) Hwf Hidx Hr') as Hu.
      replace (bstart st idx + (q - bstart st idx)) with q in Hu by lia. rewrite Hu. cbn. exact Htab.
  - (* more to write: the chunk filled block idx to its end *)
    assert (Hfull : remaining = cur_len st idx - rel).
    { assert (0 < zlen (x :: rest')) by (unfold zlen; cbn [length]; lia). unfold remaining in *. lia. }
    set (st2 := with_ntab st1 (Z.max (ntab st1) ((idx + 1) / nb st1 + 1))).
    assert (Hwf2 : WF st2) by exact Hwf.
    assert (Hcur2 : forall i, cur_len st2 i = cur_len st i) by reflexivity.
    specialize (IH st2 (idx + 1) 0 (x :: rest')).
    destruct IH as (I1 & I2 & I3 & I4 & I5 & I6 & I7); try assumption.
    + rewrite Hrlen. unfold zlen in *. lia.
    + lia.
    + rewrite Hcur2. unfold cur_len. destruct (Z.eqb_spec (idx + 1) 0); [lia|]. destruct Hwf as (_ & ? & _). lia.
    + discriminate.
    + cbn [ntab st2 with_ntab nb st1 set_blk]. lia.
    + assert (Hpos2 : bstart st2 (idx + 1) + 0 = pos + remaining).
      { change (bstart st2 (idx + 1)) with (bstart st (idx + 1)). rewrite bstart_next by assumption. subst pos. lia. }
      rewrite Hpos2 in I6, I7.
      repeat split; try assumption.
      * cbn [ntab st2 with_ntab st1 set_blk] in I5. lia.
      * intros q Hq. rewrite I6 by assumption.
        rewrite Hrl.
        rewrite (byte_at_ext st1 st2) by reflexivity. rewrite Hb1 by assumption.
        pose proof (nth_firstn_skipn data (Z.to_nat remaining) (Z.to_nat (q - pos))) as Hn.
        fold chunk rest in Hn. rewrite Erest in Hn.
        destruct (Z.leb_spec pos q), (Z.ltb_spec q (pos + remaining)), (Z.leb_spec (pos + remaining) q),
                 (Z.ltb_spec q (pos + remaining + (zlen data - remaining))), (Z.ltb_spec q (pos + zlen data));
          cbn [andb]; try lia; try reflexivity.
        all: rewrite Hn; destruct (Nat.ltb_spec (Z.to_nat (q - pos)) (Z.to_nat remaining));
          try lia; try reflexivity; try (f_equal; lia).
      * intros q Hq.
        destruct (Z_lt_dec q (pos + remaining)) as [Hlt|Hge].
        -- assert (Hr' : 0 <= q - bstart st idx < cur_len st idx) by (unfold pos in *; lia).
           pose proof (locate_unique st idx (q - bstart st idx) Hwf Hidx Hr') as Hu.
           replace (bstart st idx + (q - bstart st idx)) with q in Hu by lia. rewrite Hu. cbn.
           cbn [ntab st2 with_ntab st1 set_blk] in I5. lia.
        -- change (locate st q) with (locate st2 q). change (nb st) with (nb st2). apply I7.
           rewrite Hrl. lia.
Qed.

(** ---- the read loop --------------------------------------------------------- *)

Lemma map_seq_shift (g : Z -> Z) (lo : Z) (n : nat) :
  map (fun i => g (lo + Z.of_nat i)) (seq 0 n) = map g (zrange lo n).
Proof. unfold zrange. now rewrite map_map. Qed.

Lemma map_seq_start {A} (m : nat) : forall (f : nat -> A) (n : nat),
  map f (seq n m) = map (fun i => f (n + i)%nat) (seq 0 m).
Proof.
  induction m as [|m IH]; intros f n; [reflexivity|].
  cbn [seq map]. f_equal; [f_equal; lia|].
  rewrite (IH f (S n)), (IH (fun i => f (n + i)%nat) 1%nat).
  apply map_ext. intros i. f_equal. lia.
Qed.

Lemma zrange_app lo n m : zrange lo (n + m) = zrange lo n ++ zrange (lo + Z.of_nat n) m.
Proof.
  unfold zrange. rewrite seq_app, map_app. f_equal. cbn [Nat.add].
  rewrite (map_seq_start m (fun i => lo + Z.of_nat i) n).
  apply map_ext. intros i. lia.
Qed.

Lemma repeat_as_map (n : nat) : forall s, repeat 0 n = map (fun _ : nat => 0) (seq s n).
Proof. induction n as [|n IH]; intros s; [reflexivity|]. cbn. f_equal. apply IH. Qed.

Lemma rd_loop_spec : forall fuel st idx rel n,
  WF st -> (Z.to_nat n < fuel)%nat -> 0 <= idx -> 0 <= rel < cur_len st idx -> 0 < n ->
  (forall q, bstart st idx + rel <= q < bstart st idx + rel + n -> fst (locate st q) / nb st < ntab st) ->
  rd_loop fuel st idx rel n = Some (map (byte_at st) (zrange (bstart st idx + rel) (Z.to_nat n))).
Proof.
  induction fuel as [|fuel IH]; intros st idx rel n Hwf Hfuel Hidx Hrel Hn Htab; [lia|].
  cbn [rd_loop].
  set (pos := bstart st idx + rel) in *.
  assert (Hloc0 : locate st pos = (idx, rel)) by (apply locate_unique; assumption).
  assert (Ht0 : idx / nb st < ntab st).
  { specialize (Htab pos ltac:(lia)). rewrite Hloc0 in Htab. exact Htab. }
  destruct (Z.leb_spec (ntab st) (idx / nb st)); [lia|].
  set (remaining := Z.min (cur_len st idx - rel) n).
  assert (Hrem : 0 < remaining <= n) by (unfold remaining; lia).
  (* bytes of this block *)
  assert (Hbytes : match blk st idx with
                   | Some g => map (fun i => g (rel + Z.of_nat i)) (seq 0 (Z.to_nat remaining))
                   | None => repeat 0 (Z.to_nat remaining) end
                   = map (byte_at st) (zrange pos (Z.to_nat remaining))).
  { unfold zrange. rewrite map_map.
    destruct (blk st idx) as [g|] eqn:Eb.
    - apply map_ext_in. intros i Hi. apply in_seq in Hi.
      unfold byte_at.
      assert (Hr' : 0 <= rel + Z.of_nat i < cur_len st idx) by (unfold remaining in *; lia).
      pose proof (locate_unique st idx (rel + Z.of_nat i) Hwf Hidx Hr') as Hu.
      replace (bstart st idx + (rel + Z.of_nat i)) with (pos + Z.of_nat i) in Hu by (unfold pos; lia).
      rewrite Hu, Eb. reflexivity.
    - rewrite (repeat_as_map (Z.to_nat remaining) 0%nat).
      apply map_ext_in. intros i Hi. apply in_seq in Hi.
      unfold byte_at.
      assert (Hr' : 0 <= rel + Z.of_nat i < cur_len st idx) by (unfold remaining in *; lia).
      pose proof (locate_unique st idx (rel + Z.of_nat i) Hwf Hidx Hr') as Hu.
      replace (bstart st idx + (rel + Z.of_nat i)) with (pos + Z.of_nat i) in Hu by (unfold pos; lia).
      rewrite Hu, Eb. reflexivity. }
  rewrite Hbytes.
  destruct (Z.leb_spec (n - remaining) 0) as [Hlast|Hmore].
  - replace remaining with n by lia. reflexivity.
  - assert (Hfull : remaining = cur_len st idx - rel) by (unfold remaining in *; lia).
    rewrite (IH st (idx + 1) 0 (n - remaining)); try assumption; try lia.
    + f_equal. rewrite <- map_app. f_equal.
      replace (Z.to_nat n) with (Z.to_nat remaining + Z.to_nat (n - remaining))%nat by lia.
      rewrite zrange_app. f_equal. f_equal.
      rewrite bstart_next by assumption. unfold pos. lia.
    + unfold cur_len. destruct (Z.eqb_spec (idx + 1) 0); [lia|]. destruct Hwf as (_ & ? & _). lia.
    + intros q Hq. apply Htab. rewrite bstart_next in Hq by assumption. unfold pos. lia.
Qed.

(** ---- invariant, single operations ------------------------------------------- *)

Definition Inv (st : lb) : Prop :=
  WF st /\ 0 <= len st /\
  (forall q, 0 <= q < len st -> fst (locate st q) / nb st < ntab st) /\
  (forall q, len st <= q -> byte_at st q = 0).

Lemma div_mono_nb a b n : 0 < n -> a <= b -> a / n <= b / n.
Proof. intros. apply Z.div_le_mono; lia. Qed.

Lemma hl_write_spec st pos data : Inv st -> 0 <= pos -> data <> [] ->
  exists st', hl_write st pos data = Some (st', zlen data) /\ Inv st' /\
    len st' = Z.max (len st) (pos + zlen data) /\
    forall q, 0 <= q -> byte_at st' q =
      if (pos <=? q) && (q <? pos + zlen data) then nth (Z.to_nat (q - pos)) data 0 else byte_at st q.
Proof.
  intros (Hwf & Hlen & Htab & Hzero) Hpos Hne.
  assert (Hdl : 0 < zlen data) by (destruct data; [congruence | unfold zlen; cbn; lia]).
  unfold hl_write. destruct (Z.leb_spec (zlen data) 0); [lia|].
  pose proof (locate_spec st pos Hwf Hpos) as Hl. destruct (locate st pos) as [idx rel] eqn:Eloc.
  destruct Hl as (Hidx & Hrel & Hbs).
  set (st0 := with_ntab st (Z.max (ntab st) (idx / nb st + 1))).
  assert (Hwf0 : WF st0) by exact Hwf.
  destruct (wr_loop_spec (S (length data)) st0 idx rel data Hwf0 ltac:(lia) Hidx Hrel Hne
              ltac:(cbn [ntab st0 with_ntab nb]; lia)) as (I1 & I2 & I3 & I4 & I5 & I6 & I7).
  change (bstart st0 idx) with (bstart st idx) in I6, I7. rewrite Hbs in I6, I7.
  set (st1 := wr_loop (S (length data)) st0 idx rel data) in *.
  eexists. split; [reflexivity|].
  assert (Hb : forall q, byte_at (with_len st1 (Z.max (len st1) (pos + zlen data))) q = byte_at st1 q)
    by (intros q; apply byte_at_ext; reflexivity).
  split; [|split].
  - (* invariant *)
    split; [|split; [|split]].
    + unfold WF. cbn [fl bl nb with_len]. rewrite I1, I2, I3. exact Hwf.
    + cbn [len with_len]. lia.
    + intros q Hq. cbn [len with_len] in Hq. rewrite I4 in Hq. change (len st0) with (len st) in Hq.
      cbn [ntab nb with_len].
      assert (Hloc : locate (with_len st1 (Z.max (len st1) (pos + zlen data))) q = locate st q).
      { unfold locate. cbn [fl bl with_len]. rewrite I1, I2. reflexivity. }
      rewrite Hloc, I3. change (nb st0) with (nb st).
      destruct (Z_lt_dec q pos) as [Hlt|Hge].
      * destruct (Z_lt_dec q (len st)) as [Hin|Hout].
        -- specialize (Htab q ltac:(lia)). cbn [ntab st0 with_ntab] in I5. lia.
        -- (* in the gap: its table was created by the initial walk *)
           pose proof (locate_mono st q pos Hwf ltac:(lia)) as Hm. rewrite Eloc in Hm. cbn [fst] in Hm.
           destruct Hwf as (_ & _ & Hnb).
           pose proof (div_mono_nb _ _ (nb st) Hnb Hm). cbn [ntab st0 with_ntab] in I5. lia.
      * destruct (Z_lt_dec q (pos + zlen data)) as [Hin|Hout].
        -- change (locate st q) with (locate st0 q). change (nb st) with (nb st0). apply I7. lia.
        -- specialize (Htab q ltac:(lia)). cbn [ntab st0 with_ntab] in I5. lia.
    + intros q Hq. cbn [len with_len] in Hq. rewrite Hb.
      assert (0 <= q) by lia. rewrite I6 by assumption.
      destruct (Z.leb_spec pos q), (Z.ltb_spec q (pos + zlen data)); cbn [andb]; try lia.
      all: rewrite (byte_at_ext st st0) by reflexivity; apply Hzero; rewrite I4 in Hq; change (len st0) with (len st) in Hq; lia.
  - cbn [len with_len]. rewrite I4. reflexivity.
  - intros q Hq. rewrite Hb, I6 by assumption. reflexivity.
Qed.

Lemma firstn_skipn_zrange (f : Z -> Z) (L p k : nat) : (p + k <= L)%nat ->
  firstn k (skipn p (map f (zrange 0 L))) = map f (zrange (Z.of_nat p) k).
Proof.
  intros H. replace L with (p + (k + (L - p - k)))%nat by lia.
  rewrite !zrange_app, !map_app.
  rewrite skipn_app. rewrite skipn_all2 by (rewrite map_length; unfold zrange; rewrite map_length, seq_length; lia).
  replace (p - length (map f (zrange 0 p)))%nat with 0%nat
    by (rewrite map_length; unfold zrange; rewrite map_length, seq_length; lia).
  cbn [skipn app]. rewrite firstn_app.
  replace (k - length (map f (zrange (0 + Z.of_nat p) k)))%nat with 0%nat
    by (rewrite map_length; unfold zrange; rewrite map_length, seq_length; lia).
  rewrite firstn_all2 by (rewrite map_length; unfold zrange; rewrite map_length, seq_length; lia).
  cbn [firstn]. rewrite app_nil_r. reflexivity.
Qed.

Lemma abs_stream_len st : 0 <= len st -> zlen (abs_stream st) = len st.
Proof.
  intros H. unfold abs_stream, zlen, zrange. rewrite !map_length, seq_length. lia.
Qed.

Lemma hl_read_spec st pos n : Inv st -> 0 <= pos ->
  hl_read st pos n = stream_read (abs_stream st) pos n.
Proof.
  intros (Hwf & Hlen & Htab & Hzero) Hpos.
  unfold hl_read, stream_read. rewrite abs_stream_len by assumption.
  destruct (n <? 0); [reflexivity|].
  set (n1 := if n =? 0 then len st - pos else n).
  set (n2 := if len st <? pos + n1 then len st - pos else n1).
  destruct (Z.leb_spec n2 0) as [|Hn2]; [reflexivity|].
  assert (Hfit : pos + n2 <= len st).
  { unfold n2. destruct (Z.ltb_spec (len st) (pos + n1)); lia. }
  pose proof (locate_spec st pos Hwf Hpos) as Hl. destruct (locate st pos) as [idx rel].
  destruct Hl as (Hidx & Hrel & Hbs).
  rewrite (rd_loop_spec (S (Z.to_nat n2)) st idx rel n2 Hwf ltac:(lia) Hidx Hrel Hn2).
  - rewrite Hbs. f_equal. unfold abs_stream.
    rewrite (firstn_skipn_zrange (byte_at st) (Z.to_nat (len st)) (Z.to_nat pos) (Z.to_nat n2)) by lia.
    rewrite Z2Nat.id by assumption. reflexivity.
  - intros q Hq. apply Htab. lia.
Qed.

(** ---- the list side: write_at0 pointwise ------------------------------------ *)

Lemma nth_default0_app (l : list Z) k i : nth i (l ++ repeat 0 k) 0 = nth i l 0.
Proof.
  destruct (Nat.lt_ge_cases i (length l)) as [H|H].
  - now rewrite app_nth1.
  - rewrite app_nth2 by assumption. rewrite (nth_overflow l) by assumption.
    destruct (Nat.lt_ge_cases (i - length l) k) as [H2|H2].
    + apply nth_repeat.
    + apply nth_overflow. rewrite repeat_length. assumption.
Qed.

Lemma write_at0_length d pos bytes : 0 <= pos ->
  length (write_at0 d pos bytes) = Nat.max (length d) (Z.to_nat pos + length bytes).
Proof.
  intros Hp. unfold write_at0. rewrite !app_length, firstn_length, skipn_length, app_length, repeat_length. lia.
Qed.

Lemma nth_write_at0 d pos bytes i : 0 <= pos ->
  nth i (write_at0 d pos bytes) 0 =
  if (i <? Z.to_nat pos)%nat then nth i d 0
  else if (i <? Z.to_nat pos + length bytes)%nat then nth (i - Z.to_nat pos) bytes 0 else nth i d 0.
Proof.
  intros Hp. unfold write_at0. set (p := Z.to_nat pos). set (padded := d ++ repeat 0 (p - length d)).
  assert (Hpl : (p <= length padded)%nat) by (unfold padded; rewrite app_length, repeat_length; lia).
  assert (Hf : length (firstn p padded) = p) by (rewrite firstn_length; lia).
  destruct (Nat.ltb_spec i p) as [H1|H1].
  - rewrite app_nth1 by lia.
    pose proof (nth_firstn_skipn padded p i) as Hn. destruct (Nat.ltb_spec i p); [|lia].
    rewrite <- Hn. unfold padded. apply nth_default0_app.
  - rewrite app_nth2 by lia. rewrite Hf.
    destruct (Nat.ltb_spec i (p + length bytes)) as [H2|H2].
    + rewrite app_nth1 by lia. reflexivity.
    + rewrite app_nth2 by lia.
      pose proof (nth_firstn_skipn padded (p + length bytes) i) as Hn.
      destruct (Nat.ltb_spec i (p + length bytes)); [lia|].
      replace (i - p - length bytes)%nat with (i - (p + length bytes))%nat by lia.
      rewrite <- Hn. unfold padded. apply nth_default0_app.
Qed.

Lemma abs_stream_nth st i : (i < Z.to_nat (len st))%nat -> nth i (abs_stream st) 0 = byte_at st (Z.of_nat i).
Proof.
  intros H. unfold abs_stream, zrange. rewrite map_map.
  rewrite (nth_indep _ 0 (byte_at st (0 + Z.of_nat 0))) by (rewrite map_length, seq_length; exact H).
  rewrite (map_nth (fun x => byte_at st (0 + Z.of_nat x)) (seq 0 (Z.to_nat (len st))) 0%nat i).
  rewrite seq_nth by exact H. reflexivity.
Qed.

Lemma hl_write_abs st st' pos data : Inv st -> 0 <= pos -> data <> [] ->
  hl_write st pos data = Some (st', zlen data) ->
  abs_stream st' = write_at0 (abs_stream st) pos data.
Proof.
  intros HI Hpos Hne Hw.
  destruct (hl_write_spec st pos data HI Hpos Hne) as (st'' & Hw' & HI' & Hlen' & Hbytes).
  rewrite Hw in Hw'. injection Hw' as <-.
  destruct HI as (Hwf & Hlen & Htab & Hzero).
  assert (Hal : length (abs_stream st) = Z.to_nat (len st))
    by (unfold abs_stream, zrange; rewrite !map_length, seq_length; reflexivity).
  apply nth_ext with (d := 0) (d' := 0).
  - rewrite write_at0_length by assumption. rewrite Hal.
    unfold abs_stream, zrange. rewrite !map_length, seq_length. rewrite Hlen'. unfold zlen. lia.
  - intros i Hi.
    assert (Hi' : (i < Z.to_nat (len st'))%nat)
      by (unfold abs_stream, zrange in Hi; rewrite !map_length, seq_length in Hi; exact Hi).
    rewrite abs_stream_nth by exact Hi'. rewrite Hbytes by lia.
    rewrite nth_write_at0 by assumption.
    unfold zlen.
    destruct (Nat.ltb_spec i (Z.to_nat pos)), (Nat.ltb_spec i (Z.to_nat pos + length data)),
             (Z.leb_spec pos (Z.of_nat i)), (Z.ltb_spec (Z.of_nat i) (pos + Z.of_nat (length data)));
      cbn [andb]; try lia.
    all: try (f_equal; lia).
    all: destruct (Nat.lt_ge_cases i (Z.to_nat (len st))) as [Hin|Hout];
      [ now rewrite abs_stream_nth by exact Hin
      | rewrite (nth_overflow (abs_stream st)) by (rewrite Hal; exact Hout); apply Hzero; lia ].
Qed.

(** ---- every operation sequence ----------------------------------------------- *)

Definition op_pos_ok (o : lop) : Prop := match o with LWrite p _ => 0 <= p | LRead p _ => 0 <= p end.

Theorem lb_refines_stream_lemma : forall ops st, Inv st -> Forall op_pos_ok ops ->
  lb_run st ops = stream_run (abs_stream st) ops.
Proof.
  induction ops as [|o ops IH]; intros st HI Hops; [reflexivity|].
  inversion Hops as [|? ? Ho Hrest]; subst.
  cbn [lb_run stream_run]. destruct o as [pos data | pos n]; cbn [lb_step stream_step op_pos_ok] in *.
  - destruct data as [|b data'].
    + (* empty write: both fail *)
      cbn. f_equal. apply IH; assumption.
    + assert (Hne : b :: data' <> []) by discriminate.
      destruct (hl_write_spec st pos (b :: data') HI Ho Hne) as (st' & Hw & HI' & _ & _).
      rewrite Hw.
      destruct (Z.leb_spec (zlen (b :: data')) 0) as [Hz|_]; [unfold zlen in Hz; cbn in Hz; lia|].
      f_equal. rewrite <- (hl_write_abs st st' pos (b :: data') HI Ho Hne Hw). apply IH; assumption.
  - rewrite (hl_read_spec st pos n HI Ho).
    destruct (stream_read (abs_stream st) pos n); f_equal; apply IH; assumption.
Qed.

Lemma Inv_new blen nblk : 1 <= blen -> 1 <= nblk -> Inv (hl_new blen nblk).
Proof.
  intros Hb Hn. unfold Inv, WF, hl_new. cbn. repeat split; try lia.
  intros q Hq. unfold byte_at, locate. cbn. destruct (q <? blen); reflexivity.
Qed.

Lemma abs_new blen nblk : abs_stream (hl_new blen nblk) = [].
Proof. reflexivity. Qed.

Lemma Inv_of_data data blen nblk : 1 <= blen -> 1 <= nblk -> Inv (hl_of_data data blen nblk).
Proof.
  intros Hb Hn. unfold Inv, WF, hl_of_data. cbn [fl bl nb len ntab blk].
  pose proof (zlen_nonneg data) as Hd.
  repeat split; try lia.
  - intros q Hq. unfold locate. cbn [fl bl]. destruct (Z.ltb_spec q (zlen data)); [|lia].
    cbn [fst]. rewrite Z.div_0_l by lia. lia.
  - intros q Hq. unfold byte_at, locate. cbn [fl bl blk].
    destruct (Z.ltb_spec q (zlen data)); [lia|].
    assert (0 <= (q - zlen data) / blen) by (apply Z.div_pos; lia).
    destruct (Z.eqb_spec ((q - zlen data) / blen + 1) 0); [lia|reflexivity].
Qed.

Lemma abs_of_data data blen nblk : abs_stream (hl_of_data data blen nblk) = data.
Proof.
  unfold abs_stream. cbn [len hl_of_data]. unfold zlen. rewrite Nat2Z.id.
  apply nth_ext with (d := 0) (d' := 0).
  - unfold zrange. now rewrite !map_length, seq_length.
  - intros i Hi. unfold zrange in *. rewrite !map_length, seq_length in Hi. rewrite map_map.
    rewrite (nth_indep _ 0 (byte_at (hl_of_data data blen nblk) (0 + Z.of_nat 0)))
      by (rewrite map_length, seq_length; exact Hi).
    rewrite (map_nth (fun x => byte_at (hl_of_data data blen nblk) (0 + Z.of_nat x)) (seq 0 (length data)) 0%nat i).
    rewrite seq_nth by exact Hi.
    unfold byte_at, locate. cbn [fl bl blk hl_of_data]. unfold zlen.
    destruct (Z.ltb_spec (0 + Z.of_nat (0 + i)) (Z.of_nat (length data))); [|lia].
    cbn [Z.eqb]. f_equal. lia.
Qed.
