(** C12 -- The tag/ref directory is a faithful persistent map; new refs are never in use.
    Property theorems only; each is closed by [exact] of a lemma from DDBvProofs.v / DDProofs.v.
    M = DDModel.v / DDBvModel.v (hfiledd.c, bitvect.c as the code performs them), S = DDSpec.v (finite map). *)
From Coq Require Import ZArith List Bool Permutation Lia.
Require Import H4.gen.Gen_DD H4.DDBvModel H4.DDBvProofs H4.DDSpec H4.DDModel H4.DDProofs H4.DDInvProofs H4.DDEofModel H4.DDDynModel H4.DDDynProofs H4.DDCloseModel.
Import ListNotations.
Local Open Scope Z_scope.

(** bitvect.c's table: bv_first_zero[x] is the least clear bit of x, for every byte value x
    (the table is regenerated from bitvect.c on every run). *)
Theorem bv_first_zero_table : forall x, 0 <= x < 256 ->
  let k := tbl bv_first_zero x in
  0 <= k <= 8 /\ Z.testbit x k = false /\ forall j, 0 <= j < k -> Z.testbit x j = true.
Proof. exact first_zero_table_lemma. Qed.
Print Assumptions bv_first_zero_table.

(** bv_set succeeds on every well-formed vector (growing it in chunks when needed), keeps it well formed and
    changes exactly the addressed bit; bv_get reads the bit. *)
Theorem bv_set_get : forall b n v, bv_wf b -> 0 <= n -> (v = BV_TRUE \/ v = BV_FALSE) ->
  exists b', bv_set b n v = Some b' /\ bv_wf b' /\
             (forall m, 0 <= m -> bv_bit b' m = if m =? n then (v =? BV_TRUE) else bv_bit b m) /\
             (forall m, 0 <= m -> bv_get b' m = if bv_bit b' m then BV_TRUE else BV_FALSE).
Proof. exact bv_set_get_lemma. Qed.
Print Assumptions bv_set_get.

(** bv_find_next_zero returns the least clear bit of every well-formed vector -- through the last_zero cache,
    the table, the slush bits of a partial last byte, or by extending the vector -- and does not change any bit. *)
Theorem bv_find_least_zero : forall b, bv_wf b ->
  exists b' r, bv_find_next_zero b = Some (b', r) /\ bv_wf b' /\
               (forall m, 0 <= m -> bv_bit b' m = bv_bit b m) /\
               0 <= r /\ bv_bit b r = false /\ (forall m, 0 <= m < r -> bv_bit b m = true).
Proof. exact bv_find_next_zero_spec. Qed.
Print Assumptions bv_find_least_zero.

(** Every sequence of bv_set / bv_get / bv_find_next_zero calls on a vector made by bv_new -- however the buffer had to
    grow in chunks on the way -- behaves as the corresponding set of natural numbers: bv_set succeeds, bv_get reports
    membership, bv_find_next_zero returns the least non-member. *)
Theorem bv_seq_refines_set : forall nb h outs, Forall op_ok h -> bv_run_new nb h = Some outs ->
  set_ok (fun _ => false) h outs.
Proof. exact bv_new_seq_refines_set_lemma. Qed.
Print Assumptions bv_seq_refines_set.

(** dynarray.c (faithful model: num_elems, incr_mult, the array; growth expression regenerated from DAset_elem):
    DAset_elem never stores outside the array, grows it only when the index lies beyond it and then exactly to the next
    multiple of incr_mult above the index, and changes no other cell. *)
Theorem dynarray_set_in_bounds : forall d e v, dn_wf d -> 0 <= e ->
  exists d', dn_set d e v = Some d' /\ dn_wf d' /\ e < dn_num d' /\
    (forall r, 0 <= r -> dn_get d' r = if e =? r then v else dn_get d r) /\
    (dn_num d' = dn_num d \/ (dn_num d <= e /\ dn_num d' = (e / dn_incr d + 1) * dn_incr d)) /\
    dn_incr d' = dn_incr d.
Proof. exact dn_set_spec. Qed.
Print Assumptions dynarray_set_in_bounds.

(** for all operation sequences (DAset_elem / DAget_elem / DAdel_elem at non-negative indices), the dynarray returns
    what the finite map ref -> slot of the DD model (DDModel.da_get / da_set / da_del) returns: the association-list
    abstraction used by inv_step / dir_refines_map is a refinement target of the real data structure. *)
Theorem dynarray_refines_map : forall h d a, dn_wf d -> dyn_rep d a ->
  (forall k r p, In (k, r, p) h -> 0 <= r) ->
  map fst (dn_run d h) = a_run a h /\ Forall (fun x => 0 <= snd x) (dn_run d h).
Proof. exact dyn_refines_map_lemma. Qed.
Print Assumptions dynarray_refines_map.

(** ... starting from DAcreate_array(REF_DYNARRAY_START, REF_DYNARRAY_INCR), as HTIregister_tag_ref creates it *)
Theorem ref_dynarray_refines_map : forall h, (forall k r p, In (k, r, p) h -> 0 <= r) ->
  exists out, dn_run_new REF_DYNARRAY_START REF_DYNARRAY_INCR h = Some out /\ map fst out = a_run [] h.
Proof. exact ref_dynarray_refines_map_lemma. Qed.
Print Assumptions ref_dynarray_refines_map.

(** Hnumber is exact for every block size parity: HTIcount_dd (with its odd/even unrolled loop run per block)
    returns the number of entries of the map that the tag designates; it never reads past a block. *)
Theorem hnumber_exact : forall st t,
  (0 < nddsn st)%nat -> obs_tag t = true -> no_free_tags st ->
  hticount_dd st t DFREF_WILDCARD = Some (Z.of_nat (length (filter (tag_matches t) (abs st)))).
Proof. exact hnumber_exact_lemma. Qed.
Print Assumptions hnumber_exact.

(** Wildcard searches in either direction enumerate each live entry the search designates exactly once
    (iterating Hfind from the start until it fails: forward in table order, backward in the reverse order). *)
Theorem find_enumerates_once : forall st t r,
  index_ok st -> t <> DFTAG_NULL -> (t = DFTAG_WILDCARD \/ r = DFREF_WILDCARD) ->
  let sel := map triple (filter (fun e => tag_matches t e && ref_matches r e) (abs st)) in
  findall st (S (length (m_slots st))) t r 0 0 DF_FORWARD = sel /\
  findall st (S (length (m_slots st))) t r 0 0 DF_BACKWARD = rev sel.
Proof. exact find_enumerates_once_lemma. Qed.
Print Assumptions find_enumerates_once.

(** Hnewref: file-wide freshness, including the search path once the 16-bit counter has reached 65535;
    0 only when no reference is free. *)
Theorem hnewref_fresh : forall st st' v, maxref_ok st -> hnewref st = (st', v) ->
  (v <> 0 -> 1 <= v <= MAX_REF /\ ~ ref_in_use st v) /\
  (v = 0 -> forall x, 1 <= x <= MAX_REF -> ref_in_use st x) /\
  m_slots st' = m_slots st /\ maxref_ok st'.
Proof. exact hnewref_fresh_lemma. Qed.
Print Assumptions hnewref_fresh.

(** Htagnewref: freshness for the base tag (special variants share the reference space); 0 only when all
    65535 references of the tag are in use. *)
Theorem htagnewref_fresh : forall st t st' v, tree_bits_ok st -> htagnewref st t = (st', v) ->
  (v <> 0 -> 1 <= v <= MAX_REF /\ ~ tagref_in_use st (BASETAG t) v) /\
  (v = 0 -> forall x, 1 <= x <= MAX_REF -> tagref_in_use st (BASETAG t) x) /\
  m_slots st' = m_slots st.
Proof. exact htagnewref_fresh_lemma. Qed.
Print Assumptions htagnewref_fresh.

(** inv_step: every operation of a history (create / rewrite, duplicate, delete, reuse, the observers, the
    reference allocators, cache switches, Hsync, close+reopen, a fresh Hopen) preserves the invariant [Inv]
    (live descriptors well formed; tag tree, ref dynarrays and bit-vectors mirror the DD table; maxref bounds
    every live ref; clean blocks equal their disk image; dirty blocks only while caching) and commutes with the
    specification step: equal results (enumerations as the same entries, new refs accepted by S) and
    [abs st'] a permutation of the specification map.  S is fed M's answer for a new reference ([feed]). *)
Theorem inv_step : forall st s o st' rm s' rs,
  rel st s -> m_step st o = (st', rm) -> s_step s (feed o rm) = (s', rs) -> rs <> RNoDomain ->
  rel st' s' /\ res_agree o rm rs.
Proof. exact inv_step_lemma. Qed.
Print Assumptions inv_step.

(** dir_refines_map (full): for every history that starts with Hopen(DFACC_CREATE, n) -- every block size, odd or
    even, from the minimum up; caching off, on or toggled anywhere; refs at 1 and 65535 and after wrap-around;
    base, special and user tags -- the model and the finite map agree operation by operation for as long as the
    specification is inside its domain. *)
Theorem dir_refines_map : forall n h st0 s0, run_agree st0 s0 (OOpen n :: h).
Proof. exact dir_refines_map_lemma. Qed.
Print Assumptions dir_refines_map.

(** the hypotheses of find_enumerates_once / hnewref_fresh / htagnewref_fresh / hnumber_exact hold in every
    reachable state, and the table represents the specification map *)
Theorem reachable_inv : forall n h st0 s0 st s, run_states st0 s0 (OOpen n :: h) = (st, s, true) ->
  index_ok st /\ maxref_ok st /\ tree_bits_ok st /\ no_free_tags st /\ Permutation (abs st) s.
Proof. exact reachable_inv_lemma. Qed.
Print Assumptions reachable_inv.

(** the observers against the map, in any state satisfying the (weaker) invariant [inv] *)
Theorem observers_refine_map : forall st s, inv st -> Permutation (abs st) s ->
  (forall t, obs_tag t = true -> m_step st (ONumber t) = (st, snd (s_step s (ONumber t)))) /\
  (forall t r, t <> DFTAG_NULL -> (t = DFTAG_WILDCARD \/ r = DFREF_WILDCARD) ->
     snd (m_step st (OFindall t r DF_FORWARD)) =
       RList (map triple (filter (fun e => tag_matches t e && ref_matches r e) (abs st))) /\
     snd (m_step st (OFindall t r DF_BACKWARD)) =
       RList (rev (map triple (filter (fun e => tag_matches t e && ref_matches r e) (abs st))))) /\
  (forall x st' v, m_step st (ONewref x) = (st', RVal v) ->
     snd (s_step s (ONewref v)) = ROk /\ abs st' = abs st) /\
  (forall t x st' v, mut_tag t = true -> m_step st (OTagnewref t x) = (st', RVal v) ->
     snd (s_step s (OTagnewref t v)) = ROk /\ abs st' = abs st).
Proof. exact observers_refine_lemma. Qed.
Print Assumptions observers_refine_map.

(** reopen: from every state satisfying the invariant -- whatever the cache flag and the dirty flags -- Hclose
    followed by Hopen reads back exactly the DD table in memory and rebuilds a tag tree satisfying the invariant. *)
Theorem reopen_same_directory : forall st, Inv st ->
  exists st', hreopen st = Some st' /\ Inv st' /\ m_slots st' = m_slots st /\ m_cache st' = true.
Proof. exact hreopen_spec. Qed.
Print Assumptions reopen_same_directory.

(** cache_mode_irrelevant: with caching off, on, or toggled anywhere (Hcache / Hsync operations anywhere in the
    history), the directory read back after close is the one of the history with those operations removed. *)
Theorem cache_mode_irrelevant : forall n h st0 s0 st1 s1 st2 s2,
  run_states st0 s0 (OOpen n :: h) = (st1, s1, true) ->
  run_states st0 s0 (OOpen n :: filter (fun o => negb (is_cache_op o)) h) = (st2, s2, true) ->
  exists r1 r2, hreopen st1 = Some r1 /\ hreopen st2 = Some r2 /\
                m_slots r1 = m_slots st1 /\ m_slots r2 = m_slots st2 /\ Permutation (abs r1) (abs r2).
Proof. exact cache_mode_irrelevant_lemma. Qed.
Print Assumptions cache_mode_irrelevant.

(** parse (serialize dir) = dir at DD granularity (the byte encoding of a DD block is C02's format theorem):
    flushing a table whose blocks are all dirty writes an image from which HTPstart's block walk reads back
    exactly the table, for every number of blocks and every block size. *)
Theorem reopen_parse_serialize : forall n m slots dhdr dslots,
  length dhdr = S m -> length slots = (S m * n)%nat -> length dslots = (S m * n)%nat ->
  let '(hs, ds) := sync_blocks n 0 (S m) (repeat true (S m)) slots dhdr dslots in
  read_blocks n hs ds = Some (slots, S m).
Proof. exact reopen_parse_serialize_lemma. Qed.
Print Assumptions reopen_parse_serialize.

(** HTPstart's end of file: the value it recovers for f_end_off (block-end and element-end expressions regenerated
    from the body of HTPstart) is at or beyond the end of every DD block -- header plus ndds records of DD_SZ bytes --
    and of every data element, for every chain of blocks.  Anything allocated after a reopen therefore lies behind
    all live descriptors and data. *)
Theorem htpstart_eof_covers : forall bl, eof_covers (htpstart_end_off bl) bl = true.
Proof. exact htpstart_eof_covers_lemma. Qed.
Print Assumptions htpstart_eof_covers.

(** An Hclose that is refused because access elements are still attached (statement order regenerated from Hclose)
    leaves the reference count as it was -- so the file record is not taken for a dead one (BADFREC), every later call
    through the file id keeps working and the close can be repeated after Hendaccess -- and releases nothing. *)
Theorem hclose_refused_keeps_file : forall rc, 0 < rc ->
  hclose_refused_refcount rc = rc /\ badfrec (hclose_refused_refcount rc) = false /\ refusal_releases = false.
Proof. exact hclose_refused_lemma. Qed.
Print Assumptions hclose_refused_keeps_file.

(** Deleting with caching off reaches the disk: after HTPdelete (steps in the order of the C source, see
    Gen_DD.HTPdelete_calls) the slot written through to the file carries DFTAG_NULL. *)
Theorem delete_persists_uncached : forall st p st',
  m_cache st = false -> (p < length (m_slots st))%nat -> (p < length (m_dslots st))%nat ->
  htpdelete st p = Some st' ->
  d_tag (slot st' p) = DFTAG_NULL /\ nth p (m_dslots st') None = Some (slot st' p).
Proof. exact htpdelete_writes_null_lemma. Qed.
Print Assumptions delete_persists_uncached.

(** Non-vacuity: a concrete reachable state (ndds 4; a second block; a deleted entry; a special variant;
    ref 65535 in use, so Hnewref is on its search path) and what the theorems say about it. *)
Definition ex_hist : list op :=
  [OOpen 4; OCache 0; OPut 720 1 5; OPut 720 2 6; OPut 721 65535 7; ODup 17104 3 720 1; OPut 722 1 3; ODel 720 2].
Definition abs_spec_of_ex : smap := Eval vm_compute in snd (fst (run_states m_empty [] ex_hist)).
Definition ex_state_run : mst := fold_left (fun st o => fst (m_step st o)) ex_hist m_empty.
Definition ex_state : mst := Eval vm_compute in ex_state_run.     (* the state as a literal record *)
Example ex_state_reached : ex_state_run = ex_state.
Proof. vm_compute. reflexivity. Qed.

Example ex_results : m_run m_empty ex_hist = [ROk; ROk; ROk; ROk; ROk; ROk; ROk; ROk] /\
                     s_run [] ex_hist = [ROk; ROk; ROk; ROk; ROk; ROk; ROk; ROk].
Proof. vm_compute. split; reflexivity. Qed.
Example ex_abs : abs ex_state =
  [mkentry 30 1 92; mkentry 720 1 5; mkentry 721 65535 7; mkentry 17104 3 5; mkentry 722 1 3].
Proof. vm_compute. reflexivity. Qed.
Example ex_two_blocks : length (m_slots ex_state) = 8%nat /\ m_maxref ex_state = 65535.
Proof. vm_compute. split; reflexivity. Qed.
Example ex_maxref_ok : maxref_ok ex_state.
Proof.
  split; [vm_compute; split; discriminate|]. intros d Hin Hl. vm_compute in Hin.
  repeat (destruct Hin as [<-|Hin]; [vm_compute in Hl |- *; try discriminate; split; discriminate|]). contradiction.
Qed.
Example ex_no_free : no_free_tags ex_state.
Proof. intros d Hin. vm_compute in Hin. repeat (destruct Hin as [<-|Hin]; [vm_compute; discriminate|]). contradiction. Qed.
Example ex_index_ok : index_ok ex_state.
Proof.
  intros p Hp Hl. change (length (m_slots ex_state)) with 8%nat in Hp.
  do 8 (destruct p as [|p]; [vm_compute in Hl |- *; try discriminate Hl; repeat split; discriminate|]).
  exfalso. lia.
Qed.
Example ex_newref : snd (hnewref ex_state) = 2 /\ snd (htagnewref ex_state 720) = 2 /\
                    snd (htagnewref ex_state 721) = 1 /\
                    hticount_dd ex_state 720 DFREF_WILDCARD = Some 2 /\
                    findall ex_state 9 0 0 0 0 DF_BACKWARD = [(722, 1, 3); (17104, 3, 5); (721, 65535, 7); (720, 1, 5); (30, 1, 92)].
Proof. vm_compute. repeat split; reflexivity. Qed.
Example ex_run_in_domain : run_states m_empty [] ex_hist = (ex_state, abs_spec_of_ex, true).
Proof. vm_compute. reflexivity. Qed.
Example ex_tree_bits_ok : tree_bits_ok ex_state /\ index_ok ex_state /\ maxref_ok ex_state.
Proof. destruct (reachable_inv_lemma 4 (tl ex_hist) m_empty [] ex_state abs_spec_of_ex ex_run_in_domain) as (A & B & C & _). auto. Qed.
Example ex_Inv : rel ex_state abs_spec_of_ex.
Proof. exact (reachable_rel 4 (tl ex_hist) m_empty [] ex_state abs_spec_of_ex ex_run_in_domain). Qed.
Example ex_cache_both_in_domain :
  snd (run_states m_empty [] ex_hist) = true /\
  snd (run_states m_empty [] (OOpen 4 :: filter (fun o => negb (is_cache_op o)) (tl ex_hist))) = true.
Proof. vm_compute. split; reflexivity. Qed.
Example ex_eof : htpstart_end_off [mklb 4 4 [(202, 92); (294, 4); (298, 5); (303, 6)]; mklb 309 4 [(294, 4); (294, 4); (294, 4); (294, 4)]] = 363.
Proof. vm_compute. reflexivity. Qed.
Example ex_dyn_run :
  dn_run_new REF_DYNARRAY_START REF_DYNARRAY_INCR [(0, 3, 7%nat); (0, 64, 8%nat); (1, 64, 0%nat); (0, 65535, 9%nat); (2, 3, 0%nat); (1, 3, 0%nat)]
  = Some [(0, 64); (0, 256); (9, 256); (0, 65536); (8, 65536); (0, 65536)].
Proof. vm_compute. reflexivity. Qed.
Example ex_dyn_wf : exists d, dn_create 64 256 = Some d /\ dn_wf d /\ dyn_rep d [].
Proof. eexists. split; [reflexivity|]. destruct (dn_create_spec 64 256 _ eq_refl) as (W & _ & _ & H). split; auto. intros r _. rewrite H. reflexivity. Qed.
Example ex_bv_seq : Forall op_ok [(0, 0, 1); (0, 1, 1); (0, 1000, 1); (2, 0, 0); (0, 1, 0); (2, 0, 0); (1, 1000, 0)] /\
  option_map (map (fun x => fst (fst (fst x)))) (bv_run_new (-1) [(0, 0, 1); (0, 1, 1); (0, 1000, 1); (2, 0, 0); (0, 1, 0); (2, 0, 0); (1, 1000, 0)])
  = Some [0; 0; 0; 2; 0; 1; 1].
Proof.
  split; [|vm_compute; reflexivity].
  repeat (apply Forall_cons; [unfold op_ok, BV_TRUE, BV_FALSE; intuition (try discriminate; try lia)|]). apply Forall_nil.
Qed.
Example ex_refusal : refusal_segment = [1] /\ hclose_refused_refcount 1 = 1.
Proof. split; reflexivity. Qed.
Example ex_bv_wf : exists b, bv_new (-1) = Some b /\ bv_wf b.
Proof. eexists. split; [reflexivity|]. exact (proj1 (bv_new_wf (-1) _ eq_refl)). Qed.
Example ex_delete_uncached : m_cache ex_state = false /\ (exists st', htpdelete ex_state 1 = Some st').
Proof. split; [vm_compute; reflexivity|]. eexists. vm_compute. reflexivity. Qed.
