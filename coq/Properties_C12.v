(** C12 -- The tag/ref directory is a faithful persistent map; new refs are never in use.
    Property theorems only; each is closed by [exact] of a lemma from DDBvProofs.v / DDProofs.v. *)
From Coq Require Import ZArith List Bool.
Require Import H4.gen.Gen_DD H4.DDBvModel H4.DDBvProofs.
Import ListNotations.
Local Open Scope Z_scope.

(** bitvect.c's table: bv_first_zero[x] is the least clear bit of x, for every byte value x
    (the table is regenerated from bitvect.c on every run). *)
Theorem bv_first_zero_table : forall x, 0 <= x < 256 ->
  let k := tbl bv_first_zero x in
  0 <= k <= 8 /\ Z.testbit x k = false /\ forall j, 0 <= j < k -> Z.testbit x j = true.
Proof. exact first_zero_table_lemma. Qed.
Print Assumptions bv_first_zero_table.
