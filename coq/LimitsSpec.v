(** C20 -- format limits: the abstract specification S.

    S works in unbounded integers ([Z]) and says, for every limit-probing request of the harness language,
    whether it must succeed or must be refused, and what the observable state is afterwards.  A request is
    refused exactly when its mathematical result does not fit what the format can represent:
      file and element offsets  <= 2^31-1          refs, members, sizes, orders, name-length fields <= 65535
      fields per Vdata <= VSFIELDMAX    dimensions <= H4_MAX_VAR_DIMS    SD names <= H4_MAX_NC_NAME
      Vdata name/class are truncated at VSNAMELENMAX, field names at FIELDNAMELENMAX
      open SD files <= system limit (min (RLIMIT_NOFILE - 3) H4_MAX_AVAIL_OPENFILES)
    and a refused request leaves the state unchanged (the one visible trace the library is allowed to leave is
    the length-less descriptor of an element whose space could not be reserved).
    No C integer width appears in this file; the limits come from the regenerated constants. *)
From Coq Require Import ZArith List Bool.
Require Import H4.gen.Gen_Limits.
Import ListNotations.
Local Open Scope Z_scope.

Definition INT32_MAX : Z := 2147483647.
Definition UINT16_MAX : Z := 65535.
Definition FAR : Z := 1073741824.   (* 2^30: see h_known *)

(** results: [None] in a value list is "not specified" (end of file after operations S does not track) *)
Inductive res := ROk (vs : list (option Z)) | RFail (vs : list (option Z)) | RUnspec.
Definition ok1 (z : Z) := ROk [Some z].

(* ------------------------------------------------------------------ H level *)
Record elem := mkE { e_tag : Z; e_ref : Z; e_off : Z; e_len : Z; e_written : bool }.   (* e_len = -1: length-less *)
(** [h_known]: S tracks the end of file exactly.  After Vgroup/Vdata/linked-block operations it does not; there
    S only predicts reservations of at most 2^30 bytes, assuming the end of file is below 2^30 (recorded as a
    domain assumption of the check). *)
Record hst := mkH { h_known : bool; h_eof : Z; h_ndds : Z; h_free : Z; h_maxref : Z;
                    h_elems : list elem; h_bulk : list (Z * Z * Z) }.
Definition h0 := mkH false 0 0 0 0 [] [].

Definition find_elem (h : hst) (tag ref : Z) : option elem :=
  find (fun e => (e_tag e =? tag) && (e_ref e =? ref)) (h_elems h).
Definition in_bulk (h : hst) (tag ref : Z) : bool :=
  existsb (fun b => match b with (t, lo, hi) => (t =? tag) && (lo <=? ref) && (ref <=? hi) end) (h_bulk h).
Definition ddblock_size (ndds : Z) : Z := NDDS_SZ + OFFSET_SZ + ndds * DD_SZ.
Definition norm_ndds (n : Z) : Z := if n =? 0 then DEF_NDDS else if n <? MIN_NDDS then MIN_NDDS else n.

Definition h_create (ndds : Z) : hst :=
  let n := norm_ndds ndds in
  let e0 := MAGICLEN + ddblock_size n in
  mkH true (e0 + LIBVER_LEN) n (n - 1) 1 [mkE DFTAG_VERSION 1 e0 LIBVER_LEN false] [].

(** a descriptor slot: the next free one, or a new descriptor block at the end of the file *)
Definition alloc_dd (h : hst) : option hst :=
  if negb (h_known h) then Some h
  else if 0 <? h_free h then Some (mkH true (h_eof h) (h_ndds h) (h_free h - 1) (h_maxref h) (h_elems h) (h_bulk h))
  else let sz := ddblock_size (h_ndds h) in
       if h_eof h + sz <=? INT32_MAX
       then Some (mkH true (h_eof h + sz) (h_ndds h) (h_ndds h - 1) (h_maxref h) (h_elems h) (h_bulk h))
       else None.

Definition set_elem (h : hst) (e : elem) : list elem :=
  e :: filter (fun x => negb ((e_tag x =? e_tag e) && (e_ref x =? e_ref e))) (h_elems h).
Definition eofv (h : hst) : option Z := if h_known h then Some (h_eof h) else None.

(** space for [len] bytes at the end of the file: refused when the end would pass 2^31-1 *)
Definition give_block (h : hst) (tag ref len : Z) (written : bool) : hst * bool :=
  if len <? 0 then (h, false)
  else if h_known h then
    if h_eof h + len <=? INT32_MAX
    then (mkH true (h_eof h + len) (h_ndds h) (h_free h) (h_maxref h)
              (set_elem h (mkE tag ref (h_eof h) len written)) (h_bulk h), true)
    else (h, false)
  else (mkH false 0 (h_ndds h) (h_free h) (h_maxref h) (set_elem h (mkE tag ref (-2) len written)) (h_bulk h), true).

Definition new_element (h : hst) (tag ref len : Z) (written : bool) : hst * res :=
  if negb (h_known h) && (FAR <? len) then (h, RUnspec)
  else if in_bulk h tag ref then (h, RUnspec)
  else match find_elem h tag ref with
  | Some e =>
      if 0 <=? e_len e then (h, RUnspec)     (* existing element: not a reservation request *)
      else let (h', okb) := give_block h tag ref len written in
           (h', if okb then ROk [eofv h'] else RFail [eofv h'])
  | None =>
      match alloc_dd h with
      | None => (h, RFail [eofv h])
      | Some h1 =>
          let h2 := mkH (h_known h1) (h_eof h1) (h_ndds h1) (h_free h1) (Z.max (h_maxref h1) ref)
                        (set_elem h1 (mkE tag ref (-1) (-1) false)) (h_bulk h1) in
          let (h3, okb) := give_block h2 tag ref len written in
          (h3, if okb then ROk [eofv h3] else RFail [eofv h3])
      end
  end.

Definition zcount {A} (f : A -> bool) (l : list A) : Z := Z.of_nat (length (filter f l)).
Definition bulk_count (h : hst) : Z := fold_right (fun b acc => match b with (_, lo, hi) => acc + (hi - lo + 1) end) 0 (h_bulk h).

(** every ref used by some descriptor, as intervals *)
Definition used_intervals (h : hst) (tagsel : option Z) : list (Z * Z) :=
  let sel t := match tagsel with None => true | Some t' => t =? t' end in
  map (fun e => (e_ref e, e_ref e)) (filter (fun e => sel (e_tag e)) (h_elems h)) ++
  map (fun b => match b with (_, lo, hi) => (lo, hi) end) (filter (fun b => match b with (t, _, _) => sel t end) (h_bulk h)).
Fixpoint first_free (fuel : nat) (iv : list (Z * Z)) (r : Z) : Z :=
  match fuel with
  | O => r
  | S f => match filter (fun p => (fst p <=? r) && (r <=? snd p)) iv with
           | [] => r
           | hits => first_free f iv (fold_right (fun p acc => Z.max acc (snd p + 1)) (r + 1) hits)
           end
  end.

(* ------------------------------------------------------------------ V level *)
Record vgobj := mkG { g_n : Z; g_name : Z; g_class : Z; g_stored : bool }.
Record fdef := mkF { f_idx : Z; f_nlen : Z; f_size : Z; f_order : Z; f_tsz : Z }.   (* f_size = f_order * f_tsz *)
Record vsobj := mkS { s_defs : list fdef; s_nf : Z; s_iv : Z; s_fnames : list Z; s_nrec : Z; s_pos : Z;
                      s_name : Z; s_class : Z; s_stored : bool; s_w : bool; s_aid : bool }.
Record vst := mkV { vgs : list vgobj; vgslot : list (Z * Z); vss : list vsobj; vsslot : list (Z * Z) }.
Definition v0 := mkV [] [] [] [].

Definition slot_get (m : list (Z * Z)) (k : Z) : option Z :=
  match find (fun p => fst p =? k) m with Some p => Some (snd p) | None => None end.
Definition slot_set (m : list (Z * Z)) (k v : Z) := (k, v) :: filter (fun p => negb (fst p =? k)) m.
Definition slot_del (m : list (Z * Z)) (k : Z) := filter (fun p => negb (fst p =? k)) m.
Definition nthz {A} (l : list A) (i : Z) : option A := if i <? 0 then None else nth_error l (Z.to_nat i).
Fixpoint setz {A} (l : list A) (i : nat) (a : A) : list A :=
  match l, i with [], _ => [] | _ :: t, O => a :: t | x :: t, S j => x :: setz t j a end.

Definition ntsize (ty : Z) : Z :=
  match find (fun p => fst p =? ty) DFKNTsize_switch with Some p => snd p | None => -1 end.
Fixpoint ndigits (fuel : nat) (n : Z) : Z :=
  match fuel with O => 1 | S f => if n <? 10 then 1 else 1 + ndigits f (n / 10) end.
(** the harness names field [idx] "F<idx>_" padded to [nlen] characters; the library keeps FIELDNAMELENMAX *)
Definition field_name_len (idx nlen : Z) : Z := Z.min FIELDNAMELENMAX (Z.max nlen (2 + ndigits 6 idx)).

(** sizes of the requested fields, in order; [None] when one is not defined.  idx -1 is the predefined "PX" *)
Fixpoint field_sizes (defs : list fdef) (l : list (Z * Z)) : option (list (Z * Z)) :=
  match l with
  | [] => Some []
  | (idx, nlen) :: t =>
      match field_sizes defs t with
      | None => None
      | Some r =>
          if idx =? -1 then Some ((SIZE_FLOAT32, 2) :: r)
          else match find (fun d => (f_idx d =? idx) && (field_name_len idx (f_nlen d) =? field_name_len idx nlen)) defs with
               | Some d => Some ((f_size d, field_name_len idx (f_nlen d)) :: r)
               | None => None
               end
      end
  end.
(** record size: every partial sum must stay within MAX_FIELD_SIZE *)
Fixpoint record_size (acc : Z) (l : list (Z * Z)) : option Z :=
  match l with
  | [] => Some acc
  | (sz, _) :: t => if acc + sz <=? MAX_FIELD_SIZE then record_size (acc + sz) t else None
  end.

(* ------------------------------------------------------------------ SD level *)
Record sdst := mkD { d_sys : Z; d_size : Z; d_maxopen : Z; d_slots : list (option Z);
                     d_files : list (Z * list (Z * Z)) }.
(** [d_sys] above H4_MAX_AVAIL_OPENFILES: the harness has not set the descriptor limit, the system value is not known to S *)
Definition d0 := mkD (H4_MAX_AVAIL_OPENFILES + 1) 0 H4_MAX_NC_OPEN [] [].
Definition d_open_count (d : sdst) : Z := zcount (fun o => match o with Some _ => true | None => false end) (d_slots d).
Fixpoint first_none (l : list (option Z)) (i : Z) : Z :=
  match l with [] => i | None :: _ => i | Some _ :: t => first_none t (i + 1) end.
Fixpoint index_of (l : list (option Z)) (k i : Z) : option Z :=
  match l with
  | [] => None
  | Some k' :: t => if k' =? k then Some i else index_of t k (i + 1)
  | None :: t => index_of t k (i + 1)
  end.
Definition file_get (d : sdst) (k : Z) : option (list (Z * Z)) :=
  match find (fun p => fst p =? k) (d_files d) with Some p => Some (snd p) | None => None end.
Definition file_set (d : sdst) (k : Z) (v : list (Z * Z)) := (k, v) :: filter (fun p => negb (fst p =? k)) (d_files d).
Definition highest_used (l : list (option Z)) : Z :=
  fst (fold_left (fun (acc : Z * Z) o => let (hi, i) := acc in
                    (match o with Some _ => i + 1 | None => hi end, i + 1)) l (0, 0)).

(** attributes: an attribute is stored as ONE field of a Vdata, so it obeys the field limits whichever interface sets
    it (SDsetattr, GRsetattr, Vsetattr, VSsetattr) and whether the name is new or the value of an existing name is
    replaced: at least 1 and at most MAX_ORDER values, at most MAX_FIELD_SIZE bytes *)
Definition s_attr_ok (nt count : Z) : bool :=
  (0 <? ntsize nt) && (1 <=? count) && (count <=? MAX_ORDER) && (count * ntsize nt <=? MAX_FIELD_SIZE).
(** SD attributes are kept with the file facts under a key made of file, object and name ([obj] -1 = the file,
    i = data set i, 1000+i = first dimension of data set i; name 999 marks "the dimension has its coordinate
    variable"); value = [(number type, count)] *)
Definition attr_key (k obj a : Z) : Z := - (1 + ((k * 2000 + (obj + 1)) * 1000 + a)).
Definition sd_obj_ok (sets : list (Z * Z)) (obj : Z) : bool :=
  if obj =? -1 then true
  else let i := if obj <? 1000 then obj else obj - 1000 in
       match nthz sets i with
       | Some (nl, rk) => (0 <=? nl) && ((obj <? 1000) || (1 <=? rk)) && (obj <? 1100)
       | None => false
       end.
(** touching a dimension through an attribute call gives it a coordinate variable, which counts as a data set *)
(** does an attribute call on [obj] have to create the coordinate variable of a dimension? *)
Definition sd_needs_coordvar (d : sdst) (k obj : Z) : bool :=
  (1000 <=? obj) && match find (fun p => fst p =? attr_key k obj 999) (d_files d) with Some _ => false | None => true end.
(** number of attributes of an object (kept under name 998) *)
Definition attr_count_of (d : sdst) (k obj : Z) : Z :=
  match find (fun p => fst p =? attr_key k obj 998) (d_files d) with Some (_, [(c, _)]) => c | _ => 0 end.
Definition sd_touch_dim (d : sdst) (k obj : Z) (sets : list (Z * Z)) : list (Z * list (Z * Z)) :=
  if (1000 <=? obj) && match find (fun p => fst p =? attr_key k obj 999) (d_files d) with Some _ => false | None => true end
  then (attr_key k obj 999, []) :: (k, sets ++ [(-1, 1)]) :: filter (fun p => negb (fst p =? k)) (d_files d)
  else d_files d.
(** the two-step attribute probes of the other interfaces: set a NEW name with [c1] values, set the same name again
    with [c2] values, ask for the count: (first accepted, second accepted, count afterwards or -1) *)
Definition s_attr2 (replace_any_count : bool) (nt c1 c2 : Z) : res :=
  if ntsize nt <=? 0 then RUnspec else
  let r1 := s_attr_ok nt c1 in
  let r2 := if r1 && negb replace_any_count then c2 =? c1 else s_attr_ok nt c2 in
  let b2z (b : bool) := if b then 1 else 0 in
  ROk [Some (b2z r1); Some (b2z r2);
       Some (if r1 && negb replace_any_count then c1 else if r2 then c2 else if r1 then c1 else -1)].

Definition sd_do_open (d : sdst) (k : Z) : sdst * res :=
  match index_of (d_slots d) k 0 with
  | Some _ => (* a second SDstart of a file that is open: outside the property; nothing about file k is predicted any more *)
      (mkD (d_sys d) (d_size d) (d_maxopen d) (d_slots d) (filter (fun p => negb (fst p =? k)) (d_files d)), RUnspec)
  | None =>
    (* the open-file table: allocated on first use, grown to the system limit when full *)
    let d1 := if d_size d =? 0 then mkD (d_sys d) (d_maxopen d) (d_maxopen d) (d_slots d) (d_files d) else d in
    let idx := first_none (d_slots d1) 0 in
    let full := (idx =? d_size d1) && (Z.of_nat (length (d_slots d1)) >=? d_maxopen d1) in
    if full && (d_maxopen d1 =? d_sys d1) then (d, RFail [])
    else
      let d2 := if full then mkD (d_sys d1) (d_sys d1) (d_sys d1) (d_slots d1) (d_files d1) else d1 in
      if d_sys d2 <=? d_open_count d2 then (d, RFail [])   (* no file descriptor left *)
      else
        let slots := if idx =? Z.of_nat (length (d_slots d2)) then d_slots d2 ++ [Some k]
                     else setz (d_slots d2) (Z.to_nat idx) (Some k) in
        (mkD (d_sys d2) (d_size d2) (d_maxopen d2) slots (d_files d2), ROk [])
  end.

Fixpoint drop_last_none (l : list (option Z)) : list (option Z) :=
  match l with
  | [] => []
  | [None] => []
  | x :: t => x :: drop_last_none t
  end.

(* ------------------------------------------------------------------ the operations *)
Inductive op :=
| OHopen (ndds : Z) | OReserve (tag ref len : Z) | OPut (tag ref n : Z) | OGet (tag ref : Z) | OReopen | ODds
| OAppendAt (tag ref pos n : Z) | OHlWrite (tag ref blen nblk pos n : Z) | OFillRefs (tag lo hi : Z)
| ONewRef | OTagNewRef (tag : Z)
| OVgNew (v : Z) | OVgAdd (v tag ref0 n : Z) | OVgN (v : Z) | OVgSetName (v len : Z) | OVgSetClass (v len : Z)
| OVgName (v : Z) | OVgClass (v : Z) | OVgDetach (v : Z) | OVgAttach (v idx : Z) (w : bool)
| OVsNew (x : Z) | OVsFdefine (x idx nlen ty order : Z) | OVsSetFields (x : Z) (l : list (Z * Z))
| OVsWrite (x n : Z) | OVsWriteBig (x n : Z) | OVsSeek (x p : Z) | OVsRead (x n : Z) | OVsElts (x : Z)
| OVsSetName (x len : Z) | OVsSetClass (x len : Z) | OVsName (x : Z) | OVsClass (x : Z)
| OVsFieldName (x i didx dlen : Z) | OVsDetach (x : Z) | OVsAttach (x idx : Z) (w : bool)
| OSdLimit (n : Z) | OSdStart (k : Z) | OSdOpen (k : Z) | OSdEnd (k : Z) | OSdCreate (k nlen rank : Z)
| OSdInfo (k : Z) | OSdName (k i : Z) | OSdMax (n : Z) | OSdGetMax | OSdNOpen
| OSeekAt (tag ref app origin offset pos0 : Z) | OChunkFill (tag ref k : Z)
| OSdAttr (k obj a nt count : Z) | OSdAttrInfo (k obj a : Z)
| OGrAttr2 (nt c1 c2 : Z) | OVgAttr2 (v nt c1 c2 : Z) | OVsAttr2 (x nt c1 c2 : Z)
| OSdFill (k n : Z) | OSdAttrFill (k obj n : Z) | OLoneVs (lref : Z) | OLoneVg (lref : Z) | OHlHole (tag ref blen : Z)
| OOther.

Definition state := (hst * vst * sdst)%type.
Definition init : state := (h0, v0, d0).

Definition unknown (h : hst) : hst := mkH false 0 (h_ndds h) (h_free h) (h_maxref h) (h_elems h) (h_bulk h).
(** Vattach/VSattach of a new object take the next ref *)
Definition take_ref (h : hst) : option hst :=
  if h_maxref h <? 0 then Some (mkH false 0 (h_ndds h) (h_free h) (-1) (h_elems h) (h_bulk h))
  else if h_maxref h <? MAX_REF
  then Some (mkH false 0 (h_ndds h) (h_free h) (h_maxref h + 1) (h_elems h) (h_bulk h)) else None.

Definition with_vg (v : vst) (i : Z) (g : vgobj) : vst := mkV (setz (vgs v) (Z.to_nat i) g) (vgslot v) (vss v) (vsslot v).
Definition with_vs (v : vst) (i : Z) (s : vsobj) : vst := mkV (vgs v) (vgslot v) (setz (vss v) (Z.to_nat i) s) (vsslot v).
Definition get_vg (v : vst) (slot : Z) : option (Z * vgobj) :=
  match slot_get (vgslot v) slot with
  | Some i => match nthz (vgs v) i with Some g => Some (i, g) | None => None end
  | None => None end.
Definition get_vs (v : vst) (slot : Z) : option (Z * vsobj) :=
  match slot_get (vsslot v) slot with
  | Some i => match nthz (vss v) i with Some s => Some (i, s) | None => None end
  | None => None end.

Definition step_h (h : hst) (v : vst) (o : op) : hst * res :=
  match o with
  | OHopen ndds => let h' := h_create ndds in (h', ok1 (h_eof h'))
  | OReserve tag ref len => new_element h tag ref len false
  | OPut tag ref n =>
      if n <=? 0 then (fst (new_element h tag ref n false), RUnspec)   (* an empty Hputelement is not a limits request *)
      else new_element h tag ref n true
  | OGet tag ref =>
      match find_elem h tag ref with
      | Some e => if e_written e then (h, ok1 (e_len e)) else if e_len e <? 0 then (h, RFail []) else (h, RUnspec)
      | None => if in_bulk h tag ref then (h, RUnspec) else (h, RFail [])
      end
  | OReopen => (h, ROk [eofv h])
  | ODds =>
      if h_known h
      then (h, ROk [Some (zcount (fun e => 0 <=? e_len e) (h_elems h) + bulk_count h);
                    Some (zcount (fun e => e_len e <? 0) (h_elems h)); Some 0])
      else (h, ROk [None; None; Some 0])
  | OAppendAt tag ref pos n =>
      match find_elem h tag ref with
      | Some e =>
          (* only an element that ends the file grows in place; anything else is re-organised into linked blocks,
             which S does not follow *)
          if negb (h_known h) || (e_len e <? 0) || negb (e_off e + e_len e =? h_eof h) || (pos <? 0) || (n <=? 0)
          then (mkH false 0 (h_ndds h) (h_free h) (-1) (set_elem h (mkE tag ref (-2) 0 false)) (h_bulk h), RUnspec)
          else if (pos + n <=? INT32_MAX) && (e_off e + pos + n <=? INT32_MAX) then
            let len' := Z.max (e_len e) (pos + n) in
            let h' := mkH true (e_off e + len') (h_ndds h) (h_free h) (h_maxref h)
                          (set_elem h (mkE tag ref (e_off e) len' false)) (h_bulk h) in
            (h', ROk [Some n; Some (pos + n); Some len'; Some (h_eof h')])
          else (h, RFail [Some pos; Some (e_len e); Some (h_eof h)])
      | None =>
          (* first write to a new element at position 0: a descriptor slot and [n] bytes at the end of the file *)
          if h_known h && (pos =? 0) && (0 <? n) && negb (in_bulk h tag ref) then
            match alloc_dd h with
            | None => (h, RUnspec)
            | Some h1 =>
                let h2 := mkH (h_known h1) (h_eof h1) (h_ndds h1) (h_free h1) (Z.max (h_maxref h1) ref)
                              (set_elem h1 (mkE tag ref (-1) (-1) false)) (h_bulk h1) in
                let (h3, okb) := give_block h2 tag ref n false in
                (h3, if okb then ROk [Some n; Some n; Some n; eofv h3] else RFail [Some 0; Some (-1); eofv h3])
            end
          else (mkH false 0 (h_ndds h) (h_free h) (-1) (set_elem h (mkE tag ref (-2) 0 false)) (h_bulk h), RUnspec)
      end
  | OHlWrite tag ref blen nblk pos n =>
      match find_elem h tag ref with
      | Some _ => (h, RUnspec)
      | None =>
          if (pos <? 0) || (n <=? 0) || (blen <=? 0) || (nblk <=? 0) || in_bulk h tag ref then (h, RUnspec)
          else
            (* the block tables and blocks take refs and space S does not track: maxref -1 = unknown *)
            if pos + n <=? INT32_MAX
            then (mkH false 0 (h_ndds h) (h_free h) (-1) (set_elem h (mkE tag ref (-2) (pos + n) false)) (h_bulk h),
                  ROk [Some n; Some (pos + n); Some (pos + n)])
            else (mkH false 0 (h_ndds h) (h_free h) (-1) (set_elem h (mkE tag ref (-2) 0 false)) (h_bulk h),
                  RFail [Some pos; Some 0])
      end
  | OFillRefs tag lo hi =>
      let k := hi - lo + 1 in
      if negb (h_known h) || (k <=? 0) || (lo <? 1) || (MAX_REF <? hi)
         || existsb (fun e => (e_tag e =? tag)) (h_elems h)
         || existsb (fun b => match b with (t, _, _) => t =? tag end) (h_bulk h) then (h, RUnspec)
      else
        let nb := if k <=? h_free h then 0 else (k - h_free h + h_ndds h - 1) / h_ndds h in
        let free' := if k <=? h_free h then h_free h - k else nb * h_ndds h - (k - h_free h) in
        let eof' := h_eof h + k + nb * ddblock_size (h_ndds h) in
        if eof' <=? FAR
        then (mkH true eof' (h_ndds h) free' (Z.max (h_maxref h) hi) (h_elems h) ((tag, lo, hi) :: h_bulk h), ok1 k)
        else (h, RUnspec)
  | ONewRef =>
      if h_maxref h <? 0 then (h, RUnspec)
      else if h_maxref h <? MAX_REF
      then (mkH (h_known h) (h_eof h) (h_ndds h) (h_free h) (h_maxref h + 1) (h_elems h) (h_bulk h), ok1 (h_maxref h + 1))
      else match vgs v, vss v with
           | [], [] =>
               let iv := used_intervals h None in
               let r := first_free (S (length iv)) iv 1 in
               if r <=? MAX_REF then (h, ok1 r) else (h, RFail [])
           | _, _ => (h, RUnspec)
           end
  | OSeekAt tag ref app origin offset pos0 =>
      (** Hseek(pos0, DF_START) then Hseek(offset, origin) on an existing element: the target is base + offset in
          unbounded integers; it must lie in [0, length] (in [0, 2^31-1] for an appendable element that ends the
          file); a refused seek leaves the position where it was *)
      match find_elem h tag ref with
      | Some e =>
          let appendable := negb (app =? 0) in
          if negb (h_known h) || (e_len e <? 0) || (pos0 <? 0) || (e_len e <? pos0)
             || (appendable && negb (e_off e + e_len e =? h_eof h))
             || negb ((origin =? 0) || (origin =? 1) || (origin =? 2)) then (h, RUnspec)
          else
            let base := if origin =? 0 then 0 else if origin =? 1 then pos0 else e_len e in
            let target := base + offset in
            if (0 <=? target) && (if appendable then target <=? INT32_MAX else target <=? e_len e)
            then (h, ok1 target) else (h, RFail [Some pos0])
      | None => (h, RUnspec)
      end
  | OChunkFill tag ref k =>
      (** a chunked element of two chunks is created, refs 1..k of DFTAG_CHUNK are taken by other elements, then the
          two chunks are written: each needs a ref of DFTAG_CHUNK; none is left beyond MAX_REF.  The result says
          whether both chunks were stored (the writes go through a cache, the refusal surfaces at the latest when the
          access ends); either way the file stays usable *)
      if negb (h_known h) || (k <? 1) || (MAX_REF <? k) || (h_maxref h <? 0)
         || existsb (fun e => (e_tag e =? DFTAG_CHUNK) || ((e_tag e =? tag) && (e_ref e =? ref))) (h_elems h)
         || existsb (fun b => match b with (t, _, _) => t =? DFTAG_CHUNK end) (h_bulk h) then (h, RUnspec)
      else
        (mkH false 0 (h_ndds h) (h_free h) (-1) (set_elem h (mkE tag ref (-2) 0 false))
             ((DFTAG_CHUNK, 1, Z.min MAX_REF (k + 2)) :: h_bulk h), ROk [Some (if k + 2 <=? MAX_REF then 1 else 0)])
  | OTagNewRef tag =>
      let iv := used_intervals h (Some tag) in
      let r := first_free (S (length iv)) iv 1 in
      if r <=? MAX_REF then (h, ok1 r) else (h, RFail [])
  | _ => (h, RUnspec)
  end.

Definition name_res (n : Z) : res := if n <? 0 then RUnspec else ok1 n.

Definition step_v (h : hst) (v : vst) (o : op) : hst * vst * res :=
  match o with
  | OVgNew slot =>
      match take_ref h with
      | None => (h, v, RUnspec)
      | Some h' => (h', mkV (vgs v ++ [mkG 0 (-1) (-1) false]) (slot_set (vgslot v) slot (Z.of_nat (length (vgs v))))
                            (vss v) (vsslot v), ROk [])
      end
  | OVgAdd slot _ _ n =>
      match get_vg v slot with
      | Some (i, g) =>
          (** a Vgroup holds at most 65535 members (16-bit count): the first refused insertion changes nothing *)
          let k := Z.max 0 (Z.min n (UINT16_MAX - g_n g)) in
          let g' := mkG (g_n g + k) (g_name g) (g_class g) (g_stored g) in
          if k =? 0 then (h, v, RFail [Some 0])       (* nothing was accepted: nothing changes *)
          else (h, with_vg v i g', if k =? n then ROk [Some n; Some (g_n g')] else RFail [Some k])
      | None => (h, v, RUnspec)
      end
  | OVgN slot => match get_vg v slot with Some (_, g) => (h, v, ok1 (g_n g)) | None => (h, v, RUnspec) end
  | OVgSetName slot len =>
      match get_vg v slot with
      | Some (i, g) => if len <=? UINT16_MAX then (h, with_vg v i (mkG (g_n g) len (g_class g) (g_stored g)), ROk [])
                       else (h, v, RFail [])
      | None => (h, v, RUnspec) end
  | OVgSetClass slot len =>
      match get_vg v slot with
      | Some (i, g) => if len <=? UINT16_MAX then (h, with_vg v i (mkG (g_n g) (g_name g) len (g_stored g)), ROk [])
                       else (h, v, RFail [])
      | None => (h, v, RUnspec) end
  | OVgName slot => match get_vg v slot with Some (_, g) => (h, v, name_res (g_name g)) | None => (h, v, RUnspec) end
  | OVgClass slot => match get_vg v slot with Some (_, g) => (h, v, name_res (g_class g)) | None => (h, v, RUnspec) end
  | OVgDetach slot =>
      match get_vg v slot with
      | Some (i, g) => (unknown h, mkV (setz (vgs v) (Z.to_nat i) (mkG (g_n g) (g_name g) (g_class g) true))
                                       (slot_del (vgslot v) slot) (vss v) (vsslot v), ROk [])
      | None => (h, v, RUnspec) end
  | OVgAttach slot idx _ =>
      match nthz (vgs v) idx with
      | Some g => if g_stored g then (h, mkV (vgs v) (slot_set (vgslot v) slot idx) (vss v) (vsslot v), ROk [])
                  else (h, v, RUnspec)
      | None => (h, v, RFail []) end
  | OVsNew slot =>
      match take_ref h with
      | None => (h, v, RUnspec)
      | Some h' => (h', mkV (vgs v) (vgslot v) (vss v ++ [mkS [] 0 0 [] 0 0 0 0 false true false])
                            (slot_set (vsslot v) slot (Z.of_nat (length (vss v)))), ROk [])
      end
  | OVsFdefine slot idx nlen ty order =>
      match get_vs v slot with
      | Some (i, s) =>
          if existsb (fun d => f_idx d =? idx) (s_defs s) then (h, v, RUnspec)
          else
            let sz := ntsize ty in
            if (1 <=? order) && (order <=? MAX_ORDER) && (0 <? sz) && (sz * order <=? MAX_FIELD_SIZE)
            then (h, with_vs v i (mkS (s_defs s ++ [mkF idx nlen (sz * order) order sz]) (s_nf s) (s_iv s) (s_fnames s) (s_nrec s)
                                      (s_pos s) (s_name s) (s_class s) (s_stored s) (s_w s) (s_aid s)), ROk [])
            else (h, v, RFail [])
      | None => (h, v, RUnspec) end
  | OVsSetFields slot l =>
      match get_vs v slot with
      | Some (i, s) =>
          let unchanged := RFail [Some (s_nf s); Some (s_iv s)] in
          if negb (s_w s) || (0 <? s_nrec s) then (h, v, RUnspec)
          else if 0 <? s_nf s then (h, v, unchanged)
          else if (VSFIELDMAX <? Z.of_nat (length l)) || (length l =? 0)%nat then (h, v, unchanged)
          else match field_sizes (s_defs s) l with
               | None => (h, v, unchanged)
               | Some szs =>
                   match record_size 0 szs with
                   | None => (h, v, unchanged)
                   | Some total =>
                       let n := Z.of_nat (length l) in
                       (h, with_vs v i (mkS (s_defs s) n total (map snd szs) (s_nrec s) (s_pos s) (s_name s) (s_class s)
                                            (s_stored s) (s_w s) (s_aid s)), ROk [Some n; Some total])
                   end
               end
      | None => (h, v, RUnspec) end
  | OVsWrite slot n =>
      match get_vs v slot with
      | Some (i, s) =>
          if negb (s_w s) || (s_nf s <=? 0) || (n <=? 0) || (FAR <? (s_pos s + n) * s_iv s) then (h, v, RUnspec)
          else (unknown h, with_vs v i (mkS (s_defs s) (s_nf s) (s_iv s) (s_fnames s) (Z.max (s_nrec s) (s_pos s + n))
                                            (s_pos s + n) (s_name s) (s_class s) (s_stored s) (s_w s) true), ok1 n)
      | None => (h, v, RUnspec) end
  | OVsWriteBig slot n =>
      match get_vs v slot with
      | Some (_, s) => if s_w s && (0 <? s_nf s) && (INT32_MAX <? n * s_iv s) then (h, v, RFail []) else (h, v, RUnspec)
      | None => (h, v, RUnspec) end
  | OVsSeek slot p =>
      match get_vs v slot with
      | Some (i, s) =>
          if (s_nf s <=? 0) || negb (s_aid s) then (h, v, RUnspec)
          else if (p <? 0) || (INT32_MAX <? p * s_iv s) || (negb (s_w s) && (s_nrec s <? p)) then (h, v, RFail [])
          else if s_w s && (s_nrec s <? p) then (h, v, RUnspec)   (* seeking past the end may re-organise the element *)
          else (h, with_vs v i (mkS (s_defs s) (s_nf s) (s_iv s) (s_fnames s) (s_nrec s) p (s_name s) (s_class s)
                                    (s_stored s) (s_w s) (s_aid s)), ok1 p)
      | None => (h, v, RUnspec) end
  | OVsRead slot n =>
      match get_vs v slot with
      | Some (i, s) =>
          if (s_nf s <=? 0) || negb (s_aid s) || (n <=? 0) || (s_nrec s <? s_pos s + n) then (h, v, RUnspec)
          else (h, with_vs v i (mkS (s_defs s) (s_nf s) (s_iv s) (s_fnames s) (s_nrec s) (s_pos s + n) (s_name s) (s_class s)
                                    (s_stored s) (s_w s) (s_aid s)), ok1 n)
      | None => (h, v, RUnspec) end
  | OVsElts slot => match get_vs v slot with Some (_, s) => (h, v, ok1 (s_nrec s)) | None => (h, v, RUnspec) end
  | OVsSetName slot len =>
      match get_vs v slot with
      | Some (i, s) => (h, with_vs v i (mkS (s_defs s) (s_nf s) (s_iv s) (s_fnames s) (s_nrec s) (s_pos s)
                                            (Z.min len VSNAMELENMAX) (s_class s) (s_stored s) (s_w s) (s_aid s)), ROk [])
      | None => (h, v, RUnspec) end
  | OVsSetClass slot len =>
      match get_vs v slot with
      | Some (i, s) => (h, with_vs v i (mkS (s_defs s) (s_nf s) (s_iv s) (s_fnames s) (s_nrec s) (s_pos s)
                                            (s_name s) (Z.min len VSNAMELENMAX) (s_stored s) (s_w s) (s_aid s)), ROk [])
      | None => (h, v, RUnspec) end
  | OVsName slot => match get_vs v slot with Some (_, s) => (h, v, ok1 (s_name s)) | None => (h, v, RUnspec) end
  | OVsClass slot => match get_vs v slot with Some (_, s) => (h, v, ok1 (s_class s)) | None => (h, v, RUnspec) end
  | OVsFieldName slot i _ _ =>
      match get_vs v slot with
      | Some (_, s) => match nthz (s_fnames s) i with Some l => (h, v, ok1 l) | None => (h, v, RFail []) end
      | None => (h, v, RUnspec) end
  | OVsDetach slot =>
      match get_vs v slot with
      | Some (i, s) => (unknown h, mkV (vgs v) (vgslot v)
                                       (setz (vss v) (Z.to_nat i) (mkS (s_defs s) (s_nf s) (s_iv s) (s_fnames s) (s_nrec s) 0
                                                                      (s_name s) (s_class s) true (s_w s) (s_aid s)))
                                       (slot_del (vsslot v) slot), ROk [])
      | None => (h, v, RUnspec) end
  | OVgAttr2 slot nt c1 c2 =>
      match get_vg v slot with
      | Some _ => (mkH false 0 (h_ndds h) (h_free h) (-1) (h_elems h) (h_bulk h), v, s_attr2 false nt c1 c2)
      | None => (h, v, RUnspec) end
  | OVsAttr2 slot nt c1 c2 =>
      match get_vs v slot with
      | Some (_, s) => if s_w s then (mkH false 0 (h_ndds h) (h_free h) (-1) (h_elems h) (h_bulk h), v, s_attr2 false nt c1 c2)
                       else (h, v, RUnspec)
      | None => (h, v, RUnspec) end
  | OGrAttr2 nt c1 c2 => (mkH false 0 (h_ndds h) (h_free h) (-1) (h_elems h) (h_bulk h), v, s_attr2 true nt c1 c2)
  | OLoneVs r | OLoneVg r =>
      (** a Vdata / Vgroup that gets ref [r] (the highest ref of the file is pushed to r-1 first) and belongs to no
          Vgroup: every enumeration must list it -- also when r is MAX_REF, the highest ref the format has *)
      if negb (h_known h) || (h_maxref h <? 0) || (r - 1 <=? h_maxref h) || (MAX_REF <? r) then (h, v, RUnspec)
      else (mkH false 0 (h_ndds h) (h_free h) (-1) (h_elems h) (h_bulk h), v, ROk [Some r; Some 1; Some 1])
  | OHlHole tag ref blen =>
      (** a linked-block element with a hole; the file is then filled to within less than one block of 2^31-1; a write
          into the hole is refused, and the hole still reads as zeros, the written blocks as written *)
      match find_elem h tag ref with
      | Some _ => (h, v, RUnspec)
      | None => if negb (h_known h) || (blen <? 16) || (FAR <? blen) || (FAR <? h_eof h) || in_bulk h tag ref then (h, v, RUnspec)
                else (mkH false 0 (h_ndds h) (h_free h) (-1) (set_elem h (mkE tag ref (-2) 0 false)) (h_bulk h), v,
                      ROk [Some 0; Some 8; Some 1; Some 1])
      end
  | OVsAttach slot idx w =>
      match nthz (vss v) idx with
      | Some s => if s_stored s
                  then (h, mkV (vgs v) (vgslot v)
                               (setz (vss v) (Z.to_nat idx) (mkS (s_defs s) (s_nf s) (s_iv s) (s_fnames s) (s_nrec s) 0
                                                                 (s_name s) (s_class s) true w (0 <? s_nrec s)))
                               (slot_set (vsslot v) slot idx), ROk [])
                  else (h, v, RUnspec)
      | None => (h, v, RFail []) end
  | _ => (h, v, RUnspec)
  end.

Definition step_d (d : sdst) (o : op) : sdst * res :=
  match o with
  | OSdLimit n => let s := Z.min (n - 3) H4_MAX_AVAIL_OPENFILES in
                  (mkD s (d_size d) (d_maxopen d) (d_slots d) (d_files d), ok1 s)
  | OSdStart k =>
      match file_get d k with
      | Some _ => (d, RUnspec)
      | None => let (d', r) := sd_do_open d k in
                match r with ROk _ => (mkD (d_sys d') (d_size d') (d_maxopen d') (d_slots d') (file_set d' k []), r) | _ => (d', r) end
      end
  | OSdOpen k => match file_get d k with Some _ => sd_do_open d k | None => (d, RUnspec) end
  | OSdEnd k =>
      match index_of (d_slots d) k 0 with
      | Some idx =>
          let slots := setz (d_slots d) (Z.to_nat idx) None in
          let slots' := if idx =? Z.of_nat (length slots) - 1 then drop_last_none slots else slots in
          let d' := mkD (d_sys d) (d_size d) (d_maxopen d) slots' (d_files d) in
          (if d_open_count d' =? 0 then mkD (d_sys d) 0 (d_maxopen d) slots' (d_files d) else d', ROk [])
      | None => (d, RFail []) end
  | OSdCreate k nlen rank =>
      match index_of (d_slots d) k 0, file_get d k with
      | Some _, Some sets =>
          if (nlen <=? 0) || (rank <? 0) then (d, RUnspec)
          else if (rank <=? H4_MAX_VAR_DIMS) && (nlen <=? H4_MAX_NC_NAME) && (Z.of_nat (length sets) <? H4_MAX_NC_VARS)
          then (mkD (d_sys d) (d_size d) (d_maxopen d) (d_slots d) (file_set d k (sets ++ [(nlen, rank)])), ROk [])
          else (d, RFail [])
      | _, _ => (d, RUnspec) end
  | OSdAttr k obj a nt count =>
      match index_of (d_slots d) k 0, file_get d k with
      | Some _, Some sets =>
          if negb (sd_obj_ok sets obj) || (ntsize nt <=? 0) || (a <? 0) || (990 <? a) then (d, RUnspec)
          else if negb (s_attr_ok nt count) then (d, RFail [])   (* refused before the object is even looked up *)
          else if sd_needs_coordvar d k obj && (H4_MAX_NC_VARS <=? Z.of_nat (length sets))
          then (d, RFail [])                     (* the file holds H4_MAX_NC_VARS variables: no coordinate variable can be added *)
          else
            let isnew := match file_get d (attr_key k obj a) with Some _ => false | None => true end in
            let cnt := attr_count_of d k obj in
            if isnew && (H4_MAX_NC_ATTRS <=? cnt)
            then (if 1000 <=? obj then (mkD (d_sys d) (d_size d) (d_maxopen d) (d_slots d) (sd_touch_dim d k obj sets), RUnspec)
                  else (d, RFail []))
            else
              let fl := sd_touch_dim d k obj sets in
              let fl1 := (attr_key k obj a, [(nt, count)]) :: filter (fun p => negb (fst p =? attr_key k obj a)) fl in
              let fl2 := if isnew then (attr_key k obj 998, [(cnt + 1, 0)]) :: filter (fun p => negb (fst p =? attr_key k obj 998)) fl1
                         else fl1 in
              (mkD (d_sys d) (d_size d) (d_maxopen d) (d_slots d) fl2, ROk [])
      | _, _ => (d, RUnspec) end
  | OSdAttrInfo k obj a =>
      match index_of (d_slots d) k 0, file_get d k with
      | Some _, Some sets =>
          if negb (sd_obj_ok sets obj) || (a <? 0) || (990 <? a) then (d, RUnspec)
          else if sd_needs_coordvar d k obj && (H4_MAX_NC_VARS <=? Z.of_nat (length sets)) then (d, RFail [])
          else
            let d' := mkD (d_sys d) (d_size d) (d_maxopen d) (d_slots d) (sd_touch_dim d k obj sets) in
            match file_get d' (attr_key k obj a) with
            | Some [(nt, count)] => (d', ROk [Some nt; Some count])
            | _ => if 1000 <=? obj then (d', RUnspec) else (d, RFail [])
            end
      | _, _ => (d, RUnspec) end
  | OSdFill k n =>
      (** [n] more data sets of rank 1 with a 6-character name: as many as fit below H4_MAX_NC_VARS are created *)
      match index_of (d_slots d) k 0, file_get d k with
      | Some _, Some sets =>
          if (n <? 0) || (20000 <? n) then (d, RUnspec)
          else let m := Z.max 0 (Z.min n (H4_MAX_NC_VARS - Z.of_nat (length sets))) in
               (mkD (d_sys d) (d_size d) (d_maxopen d) (d_slots d) (file_set d k (sets ++ repeat (6, 1) (Z.to_nat m))), ok1 m)
      | _, _ => (d, RUnspec) end
  | OSdAttrFill k obj n =>
      (** [n] new one-byte attributes on a data set: as many as fit below H4_MAX_NC_ATTRS are accepted *)
      match index_of (d_slots d) k 0, file_get d k with
      | Some _, Some sets =>
          if negb (sd_obj_ok sets obj) || (obj <? 0) || (1000 <=? obj) || (n <? 0) || (20000 <? n) then (d, RUnspec)
          else let cnt := attr_count_of d k obj in
               let m := Z.max 0 (Z.min n (H4_MAX_NC_ATTRS - cnt)) in
               (mkD (d_sys d) (d_size d) (d_maxopen d) (d_slots d)
                    ((attr_key k obj 998, [(cnt + m, 0)]) :: filter (fun p => negb (fst p =? attr_key k obj 998)) (d_files d)), ok1 m)
      | _, _ => (d, RUnspec) end
  | OSdInfo k =>
      match index_of (d_slots d) k 0, file_get d k with
      | Some _, Some sets => (d, ok1 (Z.of_nat (length sets)))
      | _, _ => (d, RUnspec) end
  | OSdName k i =>
      match index_of (d_slots d) k 0, file_get d k with
      | Some _, Some sets => match nthz sets i with
                             | Some (nl, rk) => if nl <? 0 then (d, RUnspec) else (d, ROk [Some nl; Some rk])
                             | None => (d, RFail []) end
      | _, _ => (d, RUnspec) end
  | OSdMax n =>
      if n <? 0 then (d, RFail [])
      else if d_size d =? 0 then
        let s := if n =? 0 then d_maxopen d else n in
        (mkD (d_sys d) s s (d_slots d) (d_files d), ok1 s)
      else if n <=? d_open_count d then (d, ok1 (d_size d))
      else
        let a := Z.min n (d_sys d) in
        (** open files keep their identifiers: the table never shrinks below the highest one in use *)
        if a <? highest_used (d_slots d) then (d, ok1 (d_size d))
        else (mkD (d_sys d) a a (d_slots d) (d_files d), ok1 a)
  | OSdGetMax => (d, ROk [Some (if d_size d =? 0 then d_maxopen d else d_size d);
                          if H4_MAX_AVAIL_OPENFILES <? d_sys d then None else Some (d_sys d)])
  | OSdNOpen => (d, ok1 (d_open_count d))
  | _ => (d, RUnspec)
  end.

Definition is_h (o : op) : bool :=
  match o with
  | OHopen _ | OReserve _ _ _ | OPut _ _ _ | OGet _ _ | OReopen | ODds | OAppendAt _ _ _ _ | OHlWrite _ _ _ _ _ _
  | OFillRefs _ _ _ | ONewRef | OTagNewRef _ | OSeekAt _ _ _ _ _ _ | OChunkFill _ _ _ => true | _ => false end.
Definition is_d (o : op) : bool :=
  match o with
  | OSdLimit _ | OSdStart _ | OSdOpen _ | OSdEnd _ | OSdCreate _ _ _ | OSdInfo _ | OSdName _ _ | OSdMax _ | OSdGetMax
  | OSdNOpen | OSdAttr _ _ _ _ _ | OSdAttrInfo _ _ _ | OSdFill _ _ | OSdAttrFill _ _ _ => true | _ => false end.

(** reopening the file detaches every Vgroup and Vdata *)
Definition detach_all (v : vst) : vst :=
  mkV (map (fun g => mkG (g_n g) (g_name g) (g_class g) true) (vgs v)) []
      (map (fun s => mkS (s_defs s) (s_nf s) (s_iv s) (s_fnames s) (s_nrec s) 0 (s_name s) (s_class s) true (s_w s) (s_aid s)) (vss v)) [].

Definition step (st : state) (o : op) : state * res :=
  match st with
  | (h, v, d) =>
      match o with
      | OOther => (st, RUnspec)
      | OReopen =>
          if h_ndds h =? 0 then (st, RUnspec) else
          (* refs handed out by Hnewref but never used by a descriptor are forgotten: maxref is recomputed from the
             descriptors (S does not know the refs of Vgroups/Vdatas: -1 = unknown) *)
          let mr := if h_maxref h <? 0 then -1 else
                    fold_right (fun p acc => Z.max acc (snd p)) 0 (used_intervals h None) in
          let h1 := mkH (h_known h) (h_eof h) (h_ndds h) (h_free h) mr (h_elems h) (h_bulk h) in
          let h' := match vgs v, vss v with [], [] => h1
                    | _, _ => mkH false 0 (h_ndds h) (h_free h) (-1) (h_elems h) (h_bulk h) end in
          ((h', detach_all v, d), ROk [eofv h'])
      | OHopen _ => let (h', r) := step_h h v o in ((h', v0, d), r)
      | _ =>
          if is_d o then let (d', r) := step_d d o in ((h, v, d'), r)
          else if h_ndds h =? 0 then (st, RUnspec)           (* no HDF file is open *)
          else if is_h o then let (h', r) := step_h h v o in ((h', v, d), r)
          else match step_v h v o with (h', v', r) => ((h', v', d), r) end
      end
  end.

(* ------------------------------------------------------------------ site specifications (unbounded integers) *)
(** what each guarded site must compute, stated without any machine width: [None] = the request is refused *)
Definition s_getdiskblock (eof size : Z) : option (Z * Z) :=
  if (size <? 0) || (INT32_MAX <? eof + size) then None else Some (eof, eof + size).

(** ordinary Hwrite of [len] bytes at [pos]: (position, element length, end of file) afterwards *)
Definition s_hwrite (appendable at_eof : bool) (pos len off elen eof : Z) : option (Z * Z * Z) :=
  if (len <=? 0) || (INT32_MAX <? pos + len) then None
  else if pos + len <=? elen then Some (pos + len, elen, eof)
  else if negb appendable then None
  else if negb at_eof then None
  else if INT32_MAX <? off + pos + len then None
  else Some (pos + len, pos + len, off + pos + len).

Definition s_endoff (blk_end : Z) (dds : list (Z * Z)) : Z :=
  fold_left (fun e p => Z.max e (fst p + snd p)) dds (Z.max 0 blk_end).

Definition s_vinsertpair (n : Z) : option Z := if n <? UINT16_MAX then Some (n + 1) else None.
Definition s_vsetname (len : Z) : option Z := if len <=? UINT16_MAX then Some len else None.
Definition s_vssetname (len : Z) : Z := Z.min len VSNAMELENMAX.
Definition s_vsfdefine (size order : Z) : option (Z * Z) :=
  if (1 <=? order) && (order <=? MAX_ORDER) && (0 <? size) && (size * order <=? MAX_FIELD_SIZE)
  then Some (size, order) else None.
Definition s_field_size (f : option (Z * Z)) : Z := match f with Some (order, isz) => order * isz | None => SIZE_FLOAT32 end.
Fixpoint s_record_size (fs : list (option (Z * Z))) (acc : Z) : option Z :=
  match fs with
  | [] => Some acc
  | f :: t => if acc + s_field_size f <=? MAX_FIELD_SIZE then s_record_size t (acc + s_field_size f) else None
  end.
Definition s_vssetfields (fs : list (option (Z * Z))) : option (Z * Z) :=
  if VSFIELDMAX <? Z.of_nat (length fs) then None
  else match s_record_size fs 0 with Some t => Some (Z.of_nat (length fs), t) | None => None end.
Definition s_product (a b : Z) : option Z := if a * b <=? INT32_MAX then Some (a * b) else None.
Definition s_newref_next (maxref : Z) : option Z := if maxref <? MAX_REF then Some (maxref + 1) else None.
Definition s_tagnewref (next : Z) : option Z := if (0 <=? next) && (next <=? MAX_REF) then Some next else None.
Definition s_sdcreate_ok (rank namelen : Z) : bool := (rank <=? H4_MAX_VAR_DIMS) && (namelen <=? H4_MAX_NC_NAME).

Definition s_hseek (appendable : bool) (origin offset posn data_len : Z) : option Z :=
  let base := if origin =? DF_CURRENT then posn else if origin =? DF_END then data_len else 0 in
  let target := base + offset in
  if (0 <=? target) && (target <=? INT32_MAX) && (appendable || (target <=? data_len)) then Some target else None.
Definition s_vpackvs_size (fnames : list Z) (namelen classlen : Z) : Z :=
  27 + 8 * Z.of_nat (length fnames) + fold_right (fun l acc => acc + (2 + l)) 0 fnames + namelen + classlen.
(** a lower bound of the buffer VSdetach provides: sizeof(VWRITELIST) holds VSFIELDMAX names of FIELDNAMELENMAX+1
    bytes and six 16-bit arrays of VSFIELDMAX entries *)
Definition vh_buffer_lower_bound : Z := VSFIELDMAX * (FIELDNAMELENMAX + 1) + 6 * 2 * VSFIELDMAX.

Definition s_setattr (sz count : Z) : bool := (1 <=? count) && (count <=? MAX_ORDER) && (count * sz <=? MAX_FIELD_SIZE).
