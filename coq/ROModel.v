(** C14 -- implementation model M (layer L1 + the mode checks of the V layer) as an EFFECT model:
    every modelled operation returns (new state, result, list of device writes).

    The file record carries the access flags computed by Hopen; every access record carries the flags it
    was opened with; the mode checks are the Gallina translations of the C conditions regenerated from the
    current sources into gen/Gen_RO.v (hstartaccess_denied, hwrite_denied, ...), used here in the order the
    C code tests them.  A "device write" is one call of HP_write (hfile.c), whatever the stream would do with
    it.  No proofs in this file. *)
From Coq Require Import ZArith List Bool.
Import ListNotations.
Require Import H4.gen.Gen_RO.
Local Open Scope Z_scope.

(** what HP_write was called for *)
Inductive dev :=
| WData (n : Z)      (* element data (Hwrite, special-element writers) *)
| WDD                (* one descriptor, written in place (HTIupdate_dd, cache off) *)
| WDDBlocks          (* dirty DD blocks flushed (HTPsync) *)
| WFileEnd           (* the byte that extends the file (HIextend_file / HPgetdiskblock) *)
| WSpecialHeader.    (* special-element header / block table / chunk table *)

Definition FAIL : Z := -1.
Definition nz (z : Z) : bool := negb (Z.eqb z 0).     (* C truth value *)

(** d_special: stored as a special element; d_ext: ... of the external kind (its start-access reads the header with
    HP_read directly; the linked-block, compressed and chunked kinds read it through a nested plain Hstartaccess) *)
Record dd := { d_tag : Z; d_ref : Z; d_off : Z; d_len : Z; d_special : bool; d_ext : bool }.
Record arec := { a_id : Z; a_access : Z; a_new : bool; a_app : bool; a_special : bool; a_tag : Z; a_ref : Z; a_posn : Z }.
(** vgroup / vdata instances attached through the V interface: v_access is the character 'r' / 'w' *)
Record vrec := { v_key : Z; v_isvs : bool; v_access : Z; v_aid : Z; v_marked : bool }.

Record frec := {
  f_open : bool;
  f_access : Z;               (* file_rec->access *)
  f_cache : Z;                (* file_rec->cache (0/1) *)
  f_dirty : Z;                (* file_rec->dirty (DDLIST_DIRTY | FILE_END_DIRTY) *)
  f_dds : list dd;
  f_end : Z;                  (* f_end_off *)
  f_recs : list arec;         (* attached access records *)
  f_vrecs : list vrec;
  f_vset : bool;              (* version_set *)
  f_vmod : Z;                 (* version.modified *)
  f_ver : Z * Z * Z;          (* in-memory file version *)
  f_diskver : Z * Z * Z;      (* content of the stored version element (when it exists) *)
  f_next : Z                  (* next atom *)
}.

Definition upd_dds f l := {| f_open := f_open f; f_access := f_access f; f_cache := f_cache f; f_dirty := f_dirty f; f_dds := l; f_end := f_end f; f_recs := f_recs f; f_vrecs := f_vrecs f; f_vset := f_vset f; f_vmod := f_vmod f; f_ver := f_ver f; f_diskver := f_diskver f; f_next := f_next f |}.
Definition upd_dirty f d := {| f_open := f_open f; f_access := f_access f; f_cache := f_cache f; f_dirty := d; f_dds := f_dds f; f_end := f_end f; f_recs := f_recs f; f_vrecs := f_vrecs f; f_vset := f_vset f; f_vmod := f_vmod f; f_ver := f_ver f; f_diskver := f_diskver f; f_next := f_next f |}.
Definition upd_cache f c := {| f_open := f_open f; f_access := f_access f; f_cache := c; f_dirty := f_dirty f; f_dds := f_dds f; f_end := f_end f; f_recs := f_recs f; f_vrecs := f_vrecs f; f_vset := f_vset f; f_vmod := f_vmod f; f_ver := f_ver f; f_diskver := f_diskver f; f_next := f_next f |}.
Definition upd_end f e := {| f_open := f_open f; f_access := f_access f; f_cache := f_cache f; f_dirty := f_dirty f; f_dds := f_dds f; f_end := e; f_recs := f_recs f; f_vrecs := f_vrecs f; f_vset := f_vset f; f_vmod := f_vmod f; f_ver := f_ver f; f_diskver := f_diskver f; f_next := f_next f |}.
Definition upd_recs f l := {| f_open := f_open f; f_access := f_access f; f_cache := f_cache f; f_dirty := f_dirty f; f_dds := f_dds f; f_end := f_end f; f_recs := l; f_vrecs := f_vrecs f; f_vset := f_vset f; f_vmod := f_vmod f; f_ver := f_ver f; f_diskver := f_diskver f; f_next := f_next f |}.
Definition upd_vrecs f l := {| f_open := f_open f; f_access := f_access f; f_cache := f_cache f; f_dirty := f_dirty f; f_dds := f_dds f; f_end := f_end f; f_recs := f_recs f; f_vrecs := l; f_vset := f_vset f; f_vmod := f_vmod f; f_ver := f_ver f; f_diskver := f_diskver f; f_next := f_next f |}.
Definition upd_version f vs vm v := {| f_open := f_open f; f_access := f_access f; f_cache := f_cache f; f_dirty := f_dirty f; f_dds := f_dds f; f_end := f_end f; f_recs := f_recs f; f_vrecs := f_vrecs f; f_vset := vs; f_vmod := vm; f_ver := v; f_diskver := f_diskver f; f_next := f_next f |}.
Definition upd_diskver f v := {| f_open := f_open f; f_access := f_access f; f_cache := f_cache f; f_dirty := f_dirty f; f_dds := f_dds f; f_end := f_end f; f_recs := f_recs f; f_vrecs := f_vrecs f; f_vset := f_vset f; f_vmod := f_vmod f; f_ver := f_ver f; f_diskver := v; f_next := f_next f |}.
Definition upd_next f n := {| f_open := f_open f; f_access := f_access f; f_cache := f_cache f; f_dirty := f_dirty f; f_dds := f_dds f; f_end := f_end f; f_recs := f_recs f; f_vrecs := f_vrecs f; f_vset := f_vset f; f_vmod := f_vmod f; f_ver := f_ver f; f_diskver := f_diskver f; f_next := n |}.
Definition upd_open f o := {| f_open := o; f_access := f_access f; f_cache := f_cache f; f_dirty := f_dirty f; f_dds := f_dds f; f_end := f_end f; f_recs := f_recs f; f_vrecs := f_vrecs f; f_vset := f_vset f; f_vmod := f_vmod f; f_ver := f_ver f; f_diskver := f_diskver f; f_next := f_next f |}.

Definition dd_is (tag ref : Z) (d : dd) : bool := Z.eqb (d_tag d) tag && Z.eqb (d_ref d) ref.
Definition find_dd f tag ref := find (dd_is tag ref) (f_dds f).
Definition find_rec f aid := find (fun a => Z.eqb (a_id a) aid) (f_recs f).
Definition find_vrec f key := find (fun v => Z.eqb (v_key v) key) (f_vrecs f).
Definition drop_rec f aid := upd_recs f (filter (fun a => negb (Z.eqb (a_id a) aid)) (f_recs f)).
Definition drop_vrec f key := upd_vrecs f (filter (fun v => negb (Z.eqb (v_key v) key)) (f_vrecs f)).
Definition put_rec f (a : arec) := upd_recs (drop_rec f (a_id a)) (a :: f_recs (drop_rec f (a_id a))).
Definition set_dd f tag ref (d : dd) := upd_dds f (map (fun x => if dd_is tag ref x then d else x) (f_dds f)).
Definition del_dd f tag ref := upd_dds f (filter (fun x => negb (dd_is tag ref x)) (f_dds f)).

(** HTIupdate_dd: note the change of one descriptor (deferred when caching) *)
Definition htiupdate_dd (f : frec) : frec * list dev :=
  if nz (htiupdate_deferred (f_cache f)) then (upd_dirty f (Z.lor (f_dirty f) DDLIST_DIRTY), [])
  else (f, [WDD]).

(** HPgetdiskblock(file_rec, n, FALSE) *)
Definition hpgetdiskblock (f : frec) (n : Z) : frec * Z * list dev :=
  let off := f_end f in
  if 0 <? n then
    if nz (f_cache f) then (upd_end (upd_dirty f (Z.lor (f_dirty f) FILE_END_DIRTY)) (off + n), off, [])
    else (upd_end f (off + n), off, [WFileEnd])
  else (f, off, []).

(** HIcheckfileversion *)
Definition hicheckfileversion (f : frec) : frec :=
  let '(fa, fb, fc) := f_ver f in
  if nz (version_is_newer LIBVER_MAJOR LIBVER_MINOR LIBVER_RELEASE fa fb fc)
  then upd_version f true 1 (LIBVER_MAJOR, LIBVER_MINOR, LIBVER_RELEASE)
  else upd_version f true (f_vmod f) (f_ver f).

Definition new_rec f (acc : Z) (isnew app special : bool) (tag ref : Z) : frec * Z :=
  let id := f_next f in
  (upd_next (upd_recs f ({| a_id := id; a_access := acc; a_new := isnew; a_app := app; a_special := special;
                            a_tag := tag; a_ref := ref; a_posn := 0 |} :: f_recs f)) (id + 1), id).

(** Hstartaccess *)
Definition hstartaccess (f : frec) (tag ref flags : Z) : frec * Z * list dev :=
  if negb (f_open f) then (f, FAIL, []) else
  if nz (hstartaccess_denied flags (f_access f)) then (f, FAIL, []) else
  let finish (f1 : frec) (ddnew : bool) (w : list dev) :=
    let '(f2, id) := new_rec f1 flags ddnew (nz (hstartaccess_appendable flags)) false tag ref in
    let f3 := if f_vset f2 then f2 else hicheckfileversion f2 in
    (f3, id, w) in
  match find_dd f tag ref with
  | None =>
    if nz (hstartaccess_nocreate flags) then (f, FAIL, [])
    else (* HTPcreate *)
      let f1 := upd_dds f (f_dds f ++ [{| d_tag := tag; d_ref := ref; d_off := INVALID_OFFSET; d_len := INVALID_LENGTH; d_special := false; d_ext := false |}]) in
      let '(f2, w) := htiupdate_dd f1 in
      finish f2 true w
  | Some d =>
    if d_special d then
      (* special element: stread / stwrite of its function table (H*Istaccess) *)
      let acc_mode := if nz (hstartaccess_special_read flags) then hl_stread_mode else hl_stwrite_mode in
      if nz (hlistaccess_denied (f_access f) acc_mode) then (f, FAIL, [])
      else let '(f2, id) := new_rec f (hlistaccess_access acc_mode) false false true tag ref in
           (* reading the special header: a nested plain Hstartaccess (version check) except for external elements *)
           ((if d_ext d || f_vset f2 then f2 else hicheckfileversion f2), id, [])
    else finish f (Z.eqb (d_off d) INVALID_OFFSET && Z.eqb (d_len d) INVALID_LENGTH) []
  end.

(** Hsetlength *)
Definition hsetlength (f : frec) (aid len : Z) : frec * Z * list dev :=
  match find_rec f aid with
  | None => (f, FAIL, [])
  | Some a =>
    if negb (a_new a) then (f, FAIL, []) else
    if nz (hsetlength_denied (a_access a)) then (f, FAIL, []) else
    let '(f1, off, w1) := hpgetdiskblock f len in
    match find_dd f1 (a_tag a) (a_ref a) with
    | None => (f1, FAIL, w1)
    | Some d =>
      let f2 := set_dd f1 (a_tag a) (a_ref a) {| d_tag := d_tag d; d_ref := d_ref d; d_off := off; d_len := len; d_special := d_special d; d_ext := d_ext d |} in
      let '(f3, w2) := htiupdate_dd f2 in
      (put_rec f3 {| a_id := a_id a; a_access := a_access a; a_new := false; a_app := a_app a; a_special := a_special a;
                     a_tag := a_tag a; a_ref := a_ref a; a_posn := a_posn a |}, 0, w1 ++ w2)
    end
  end.

(** Hstartwrite *)
Definition hstartwrite (f : frec) (tag ref len : Z) : frec * Z * list dev :=
  let '(f1, id, w1) := hstartaccess f tag ref hstartwrite_flags in
  if Z.eqb id FAIL then (f1, FAIL, w1) else
  match find_rec f1 id with
  | Some a =>
    if a_new a then
      let '(f2, r, w2) := hsetlength f1 id len in
      if Z.eqb r FAIL then (drop_rec f2 id, FAIL, w1 ++ w2) else (f2, id, w1 ++ w2)
    else (f1, id, w1)
  | None => (f1, FAIL, w1)
  end.

(** HLconvert (promotion of a plain element to linked blocks) -- abstract on the write-mode side *)
Definition hlconvert (f : frec) (aid : Z) : frec * Z * list dev :=
  match find_rec f aid with
  | None => (f, FAIL, [])
  | Some a =>
    if nz (hlconvert_denied (f_access f)) then (f, FAIL, []) else
    match find_dd f (a_tag a) (a_ref a) with
    | None => (f, FAIL, [])
    | Some d =>
      if d_special d then (f, FAIL, []) else
      let f1 := set_dd f (a_tag a) (a_ref a) {| d_tag := d_tag d; d_ref := d_ref d; d_off := d_off d; d_len := d_len d; d_special := true; d_ext := false |} in
      let '(f2, w) := htiupdate_dd f1 in
      (put_rec f2 {| a_id := a_id a; a_access := a_access a; a_new := false; a_app := false; a_special := true;
                     a_tag := a_tag a; a_ref := a_ref a; a_posn := a_posn a |}, 0, w ++ [WSpecialHeader])
    end
  end.

(** Hwrite *)
Definition hwrite (f : frec) (aid len : Z) : frec * Z * list dev :=
  match find_rec f aid with
  | None => (f, FAIL, [])
  | Some a =>
    if nz (hwrite_denied (a_access a)) then (f, FAIL, []) else
    if a_special a then (f, len, [WData len]) else
    (* a "new" element gets its length from the first write and becomes appendable *)
    let '(f1, a1, w1) :=
      if a_new a then
        let '(f', _, w') := hsetlength f aid len in
        match find_rec f' aid with
        | Some a' => let a'' := {| a_id := a_id a'; a_access := a_access a'; a_new := a_new a'; a_app := true; a_special := a_special a';
                                  a_tag := a_tag a'; a_ref := a_ref a'; a_posn := a_posn a' |} in (put_rec f' a'', a'', w')
        | None => (f', a, w')
        end
      else (f, a, []) in
    match find_dd f1 (a_tag a1) (a_ref a1) with
    | None => (f1, FAIL, w1)
    | Some d =>
      if (len <=? 0) || (negb (a_app a1) && (d_len d <? len + a_posn a1)) then (f1, FAIL, w1) else
      if a_app a1 && (d_len d <? len + a_posn a1) then
        if negb (Z.eqb (d_len d + d_off d) (f_end f1)) then
          (* not at the end of the file: promote to linked blocks, then write through the special layer *)
          let '(f2, r, w2) := hlconvert f1 aid in
          if Z.eqb r FAIL then (f2, FAIL, w1 ++ w2) else (f2, len, w1 ++ w2 ++ [WData len])
        else
          let f2 := set_dd f1 (a_tag a1) (a_ref a1) {| d_tag := d_tag d; d_ref := d_ref d; d_off := d_off d; d_len := a_posn a1 + len; d_special := false; d_ext := false |} in
          let '(f3, w2) := htiupdate_dd f2 in
          let e := Z.max (f_end f3) (d_off d + a_posn a1 + len) in
          (put_rec (upd_end f3 e) {| a_id := a_id a1; a_access := a_access a1; a_new := a_new a1; a_app := a_app a1; a_special := false;
                                     a_tag := a_tag a1; a_ref := a_ref a1; a_posn := a_posn a1 + len |}, len, w1 ++ w2 ++ [WData len])
      else
        (put_rec f1 {| a_id := a_id a1; a_access := a_access a1; a_new := a_new a1; a_app := a_app a1; a_special := false;
                       a_tag := a_tag a1; a_ref := a_ref a1; a_posn := a_posn a1 + len |}, len, w1 ++ [WData len])
    end
  end.

(** Htrunc *)
Definition htrunc (f : frec) (aid len : Z) : frec * Z * list dev :=
  match find_rec f aid with
  | None => (f, FAIL, [])
  | Some a =>
    if nz (htrunc_denied (a_access a)) then (f, FAIL, []) else
    match find_dd f (a_tag a) (a_ref a) with
    | None => (f, FAIL, [])
    | Some d =>
      if len <? d_len d then
        let f1 := set_dd f (a_tag a) (a_ref a) {| d_tag := d_tag d; d_ref := d_ref d; d_off := d_off d; d_len := len; d_special := d_special d; d_ext := d_ext d |} in
        let '(f2, w) := htiupdate_dd f1 in
        (put_rec f2 {| a_id := a_id a; a_access := a_access a; a_new := a_new a; a_app := a_app a; a_special := a_special a;
                       a_tag := a_tag a; a_ref := a_ref a; a_posn := Z.min (a_posn a) len |}, len, w)
      else (f, FAIL, [])
    end
  end.

Definition happendable (f : frec) (aid : Z) : frec * Z * list dev :=
  match find_rec f aid with
  | None => (f, FAIL, [])
  | Some a => (put_rec f {| a_id := a_id a; a_access := a_access a; a_new := a_new a; a_app := true; a_special := a_special a;
                            a_tag := a_tag a; a_ref := a_ref a; a_posn := a_posn a |}, 0, [])
  end.

(** Hendaccess: special elements opened for writing flush their state (compressed / chunked) *)
Definition hendaccess (f : frec) (aid : Z) : frec * Z * list dev :=
  match find_rec f aid with
  | None => (f, FAIL, [])
  | Some a => (drop_rec f aid, 0, if a_special a && nz (Z.land (a_access a) DFACC_WRITE) then [WSpecialHeader] else [])
  end.

(** Hread / Hseek: positions only; with caching, Hread first extends the file over reserved space *)
Definition hread (f : frec) (aid n : Z) : frec * Z * list dev :=
  match find_rec f aid with
  | None => (f, FAIL, [])
  | Some a =>
    if a_new a then (f, FAIL, []) else
    if nz (f_cache f) && nz (Z.land (f_dirty f) FILE_END_DIRTY)
    then (upd_dirty f (Z.land (f_dirty f) DDLIST_DIRTY), 0, [WFileEnd]) else (f, 0, [])
  end.
Definition hseek (f : frec) (aid off : Z) : frec * Z * list dev :=
  match find_rec f aid with None => (f, FAIL, []) | Some a => (f, 0, []) end.

(** Hputelement = Hstartwrite; Hwrite; Hendaccess *)
Definition hputelement (f : frec) (tag ref len : Z) : frec * Z * list dev :=
  let '(f1, id, w1) := hstartwrite f tag ref len in
  if Z.eqb id FAIL then (f1, FAIL, w1) else
  let '(f2, r, w2) := hwrite f1 id len in
  let '(f3, _, w3) := hendaccess f2 id in
  (f3, (if Z.eqb r FAIL then FAIL else len), w1 ++ w2 ++ w3).

(** Hdupdd / Hdeldd / HDreuse_tagref *)
Definition hdupdd (f : frec) (tag ref otag oref : Z) : frec * Z * list dev :=
  if negb (f_open f) then (f, FAIL, []) else
  if nz (hdupdd_denied (f_access f)) then (f, FAIL, []) else
  match find_dd f otag oref with
  | None => (f, FAIL, [])
  | Some d =>
    match find_dd f tag ref with
    | Some _ => (f, FAIL, [])
    | None =>
      let f1 := upd_dds f (f_dds f ++ [{| d_tag := tag; d_ref := ref; d_off := d_off d; d_len := d_len d; d_special := d_special d; d_ext := d_ext d |}]) in
      let '(f2, w1) := htiupdate_dd f1 in      (* HTPcreate *)
      let '(f3, w2) := htiupdate_dd f2 in      (* HTPupdate *)
      (f3, 0, w1 ++ w2)
    end
  end.
Definition hdeldd (f : frec) (tag ref : Z) : frec * Z * list dev :=
  if negb (f_open f) then (f, FAIL, []) else
  if nz (hdeldd_denied (f_access f)) then (f, FAIL, []) else
  match find_dd f tag ref with
  | None => (f, FAIL, [])
  | Some d => let '(f1, w) := htiupdate_dd (del_dd f tag ref) in (f1, 0, w)
  end.
Definition hdreuse (f : frec) (tag ref : Z) : frec * Z * list dev :=
  if negb (f_open f) then (f, FAIL, []) else
  if nz (hdreuse_denied (f_access f)) then (f, FAIL, []) else
  match find_dd f tag ref with
  | None => (f, FAIL, [])
  | Some d =>
    let '(f1, w) := htiupdate_dd (set_dd f tag ref {| d_tag := tag; d_ref := ref; d_off := INVALID_OFFSET; d_len := INVALID_LENGTH; d_special := d_special d; d_ext := d_ext d |}) in
    (f1, 0, w)
  end.

(** creation of special elements: HLcreate / HXcreate / HCcreate / HMCcreate.  [which] selects the guard. *)
Definition special_denied (which : Z) (facc : Z) : Z :=
  if Z.eqb which 0 then hlcreate_denied facc else if Z.eqb which 1 then hxcreate_denied facc
  else if Z.eqb which 2 then hccreate_denied facc else hmccreate_denied facc.
Definition hspecial_create (f : frec) (which tag ref : Z) : frec * Z * list dev :=
  if negb (f_open f) then (f, FAIL, []) else
  if nz (special_denied which (f_access f)) then (f, FAIL, []) else
  match find_dd f tag ref with
  | Some d =>
    if d_special d then (f, FAIL, []) else
    let f1 := set_dd f tag ref {| d_tag := tag; d_ref := ref; d_off := d_off d; d_len := d_len d; d_special := true; d_ext := Z.eqb which 1 |} in
    let '(f2, w) := htiupdate_dd f1 in
    let '(f3, id) := new_rec f2 DFACC_RDWR false false true tag ref in
    (f3, id, w ++ [WSpecialHeader])
  | None =>
    let f1 := upd_dds f (f_dds f ++ [{| d_tag := tag; d_ref := ref; d_off := f_end f; d_len := 0; d_special := true; d_ext := Z.eqb which 1 |}]) in
    let '(f2, w) := htiupdate_dd f1 in
    let '(f3, id) := new_rec f2 DFACC_RDWR false false true tag ref in
    (f3, id, w ++ [WSpecialHeader])
  end.

(** HIsync / Hsync / Hcache *)
Definition hisync (f : frec) : frec * Z * list dev :=
  if nz (hisync_flushes (f_cache f) (f_dirty f)) then
    (upd_dirty f 0, 0,
     (if nz (Z.land (f_dirty f) DDLIST_DIRTY) then [WDDBlocks] else []) ++
     (if nz (Z.land (f_dirty f) FILE_END_DIRTY) then [WFileEnd] else []))
  else (f, 0, []).
Definition hsync (f : frec) : frec * Z * list dev := if negb (f_open f) then (f, FAIL, []) else hisync f.
Definition hcache (f : frec) (on : Z) : frec * Z * list dev :=
  if negb (f_open f) then (f, FAIL, []) else
  (* turning caching off flushes first *)
  let '(f1, _, w) := if Z.eqb on 0 then hisync f else (f, 0, []) in
  (upd_cache f1 (if Z.eqb on 0 then 0 else 1), 0, w).

(** V layer: only the mode checks and what is written when *)
Definition CH_W : Z := 119.
Definition CH_R : Z := 114.
Definition new_vrec f (isvs : bool) (acc aid : Z) : frec * Z :=
  let id := f_next f in
  (upd_next (upd_vrecs f ({| v_key := id; v_isvs := isvs; v_access := acc; v_aid := aid; v_marked := false |} :: f_vrecs f)) (id + 1), id).

(** Vattach(f, ref, mode): ref = -1 creates a new vgroup (in memory until Vdetach) *)
Definition vattach (f : frec) (ref mode : Z) : frec * Z * list dev :=
  if negb (f_open f) then (f, FAIL, []) else
  if negb (Z.eqb mode CH_R || Z.eqb mode CH_W) then (f, FAIL, []) else      (* DFE_BADACC *)
  if nz (vattach_denied mode (f_access f)) then (f, FAIL, []) else
  if Z.eqb ref (-1) then
    if Z.eqb mode CH_W then let '(f1, k) := new_vrec f false CH_W FAIL in (f1, k, []) else (f, FAIL, [])
  else match find_dd f DFTAG_VG ref with
       | None => (f, FAIL, [])
       | Some _ => let '(f1, k) := new_vrec f false mode FAIL in (f1, k, [])
       end.
(** VSattach(f, ref, mode) *)
Definition vsattach (f : frec) (ref mode : Z) : frec * Z * list dev :=
  if negb (f_open f) then (f, FAIL, []) else
  if negb (Z.eqb mode CH_R || Z.eqb mode CH_W) then (f, FAIL, []) else      (* DFE_BADACC *)
  if Z.eqb ref (-1) then
    if Z.eqb mode CH_R then (f, FAIL, []) else
    if nz (vsattach_new_denied (f_access f)) then (f, FAIL, []) else
    let '(f1, k) := new_vrec f true CH_W FAIL in (f1, k, [])
  else match find_dd f DFTAG_VH ref with
       | None => (f, FAIL, [])
       | Some _ =>
         if Z.eqb mode CH_R then
           let '(f1, aid, w) := hstartaccess f DFTAG_VS ref DFACC_READ in
           if Z.eqb aid FAIL then (f1, FAIL, w) else let '(f2, k) := new_vrec f1 true CH_R aid in (f2, k, w)
         else
           let '(f1, aid, w) := hstartwrite f DFTAG_VS ref vsattach_w_uses_hstartwrite in
           if Z.eqb aid FAIL then (f1, FAIL, w) else let '(f2, k) := new_vrec f1 true CH_W aid in (f2, k, w)
       end.
(** the setters of the V interface (Vsetname, Vaddtagref, VSsetname, ...): allowed on 'w' instances only; they mark *)
Definition vset (f : frec) (key : Z) : frec * Z * list dev :=
  match find_vrec f key with
  | None => (f, FAIL, [])
  | Some v =>
    if nz (if v_isvs v then vssetname_denied (v_access v) else vsetname_denied (v_access v)) then (f, FAIL, []) else
    (upd_vrecs (drop_vrec f key) ({| v_key := key; v_isvs := v_isvs v; v_access := v_access v; v_aid := v_aid v; v_marked := true |} :: f_vrecs (drop_vrec f key)), 0, [])
  end.
Definition vswrite (f : frec) (key n : Z) : frec * Z * list dev :=
  match find_vrec f key with
  | None => (f, FAIL, [])
  | Some v =>
    if negb (v_isvs v) then (f, FAIL, []) else
    if nz (vswrite_denied (v_access v)) then (f, FAIL, []) else
    (upd_vrecs (drop_vrec f key) ({| v_key := key; v_isvs := true; v_access := v_access v; v_aid := v_aid v; v_marked := true |} :: f_vrecs (drop_vrec f key)), n, [WData n])
  end.
(** VSsetfields on a vdata with [nv] records and [wn] fields set: it DEFINES the record layout (marks the vdata) under
    the path condition regenerated from vsfld.c; otherwise it only builds the read list, which needs records *)
Definition vsdefine (f : frec) (key nv wn : Z) : frec * Z * list dev :=
  match find_vrec f key with
  | None => (f, FAIL, [])
  | Some v =>
    if negb (v_isvs v) then (f, FAIL, []) else
    if nz (vssetfields_defines_layout (v_access v) nv wn) then
      (upd_vrecs (drop_vrec f key) ({| v_key := key; v_isvs := true; v_access := v_access v; v_aid := v_aid v; v_marked := true |} :: f_vrecs (drop_vrec f key)), 0, [])
    else if 0 <? nv then (f, 0, []) else (f, FAIL, [])
  end.

(** Vdetach / VSdetach: a marked 'w' instance is written back *)
Definition vdetach (f : frec) (key : Z) : frec * Z * list dev :=
  match find_vrec f key with
  | None => (f, FAIL, [])
  | Some v =>
    let f1 := drop_vrec f key in
    let f2 := if Z.eqb (v_aid v) FAIL then f1 else drop_rec f1 (v_aid v) in
    (f2, 0, if Z.eqb (v_access v) CH_W && v_marked v then [WData 0] else [])
  end.
Definition vdelete (f : frec) (isvs : bool) (ref : Z) : frec * Z * list dev :=
  if negb (f_open f) then (f, FAIL, []) else
  if nz (if isvs then vsdelete_denied (f_access f) else vdelete_denied (f_access f)) then (f, FAIL, []) else
  hdeldd f (if isvs then DFTAG_VH else DFTAG_VG) ref.

(** Hopen of an EXISTING file (acc_mode <> DFACC_CREATE, the stream opens): access flags, then HIread_version *)
Definition hopen_existing (acc_mode : Z) (dds : list dd) (fend : Z) (diskver : Z * Z * Z) : frec :=
  let f0 := {| f_open := true; f_access := hopen_existing_access acc_mode; f_cache := 1; f_dirty := 0; f_dds := dds; f_end := fend;
               f_recs := []; f_vrecs := []; f_vset := false; f_vmod := 0; f_ver := (0, 0, 0); f_diskver := diskver; f_next := 1 |} in
  (* HIread_version: Hgetelement(DFTAG_VERSION, 1) = Hstartread; Hread; Hendaccess *)
  let '(f1, aid, _) := hstartaccess f0 DFTAG_VERSION 1 DFACC_READ in
  if Z.eqb aid FAIL then upd_version f1 (f_vset f1) 0 (0, 0, 0)
  else let '(f2, _, _) := hendaccess f1 aid in upd_version f2 (f_vset f2) 0 diskver.

(** Hopen of a path that is ALREADY open through this file record (refcount > 0), acc_mode <> DFACC_CREATE:
    when writing is requested and the record does not allow it, the stream is reopened "rb+"; [stream_ok] says
    whether the operating system grants that.  Only a successful reopen gives the shared record the write bit
    (the update stands after the last failing exit of that block: hopen_failing_exits_after_upgrade = 0). *)
Definition hopen_again (f : frec) (acc_mode : Z) (stream_ok : bool) : frec * Z * list dev :=
  if negb (f_open f) then (f, FAIL, []) else
  if nz (hopen_needs_upgrade acc_mode (f_access f)) then
    let '(f1, _, w) := hisync f in
    if stream_ok then
      ({| f_open := true; f_access := Z.lor (f_access f1) hopen_upgrade_bits; f_cache := f_cache f1; f_dirty := f_dirty f1;
          f_dds := f_dds f1; f_end := f_end f1; f_recs := f_recs f1; f_vrecs := f_vrecs f1; f_vset := false; f_vmod := f_vmod f1;
          f_ver := f_ver f1; f_diskver := f_diskver f1; f_next := f_next f1 |}, 0, w)
    else (f1, FAIL, w)
  else (f, 0, []).

(** HIupdate_version: Hputelement of the version element; the modified flag is cleared only on success; the result
    (FAIL / SUCCEED) is returned to Hclose *)
Definition hiupdate_version (f : frec) : frec * Z * list dev :=
  let '(f1, r, w) := hputelement f DFTAG_VERSION 1 92 in
  if Z.eqb r FAIL then (f1, FAIL, w)
  else (upd_diskver (upd_version f1 (f_vset f1) 0 (LIBVER_MAJOR, LIBVER_MINOR, LIBVER_RELEASE)) (LIBVER_MAJOR, LIBVER_MINOR, LIBVER_RELEASE), 0, w).

(** Hclose (single open): the version element is refreshed when it is marked modified AND the file allows writing
    (a failure of that update fails the close and leaves the file open); then the close is refused while access
    records are attached; then the cached DD blocks / file end are flushed *)
Definition hclose (f : frec) : frec * Z * list dev :=
  if negb (f_open f) then (f, FAIL, []) else
  let '(f1, r1, w1) := if nz (hclose_updates_version 1 (f_vmod f) (f_access f)) then hiupdate_version f else (f, 0, []) in
  if nz (hclose_fails_when_update_fails r1) then (f1, FAIL, w1) else
  match f_recs f1 with
  | _ :: _ => (f1, FAIL, w1)
  | [] => let '(f2, _, w2) := hisync f1 in (upd_open f2 false, 0, w1 ++ w2)
  end.

(** operations of the modelled interface *)
Inductive op :=
| OStartAccess (tag ref flags : Z) | OStartWrite (tag ref len : Z) | OWrite (aid len : Z) | ORead (aid n : Z)
| OSeek (aid off : Z) | OTrunc (aid len : Z) | OSetLength (aid len : Z) | OAppendable (aid : Z) | OEndAccess (aid : Z)
| OPutElement (tag ref len : Z) | ODupdd (tag ref otag oref : Z) | ODeldd (tag ref : Z) | OReuse (tag ref : Z)
| OSpecialCreate (which tag ref : Z) | OHLconvert (aid : Z) | OSync | OCache (on : Z)
| OVattach (ref mode : Z) | OVSattach (ref mode : Z) | OVset (key : Z) | OVSwrite (key n : Z) | OVSdefine (key nv wn : Z) | OVdetach (key : Z)
| OVdelete (isvs : bool) (ref : Z) | OClose.

Definition step (f : frec) (o : op) : frec * Z * list dev :=
  match o with
  | OStartAccess t r fl => hstartaccess f t r fl
  | OStartWrite t r l => hstartwrite f t r l
  | OWrite a l => hwrite f a l
  | ORead a n => hread f a n
  | OSeek a o => hseek f a o
  | OTrunc a l => htrunc f a l
  | OSetLength a l => hsetlength f a l
  | OAppendable a => happendable f a
  | OEndAccess a => hendaccess f a
  | OPutElement t r l => hputelement f t r l
  | ODupdd t r ot or' => hdupdd f t r ot or'
  | ODeldd t r => hdeldd f t r
  | OReuse t r => hdreuse f t r
  | OSpecialCreate w t r => hspecial_create f w t r
  | OHLconvert a => hlconvert f a
  | OSync => hsync f
  | OCache on => hcache f on
  | OVattach r m => vattach f r m
  | OVSattach r m => vsattach f r m
  | OVset k => vset f k
  | OVSwrite k n => vswrite f k n
  | OVSdefine k nv wn => vsdefine f k nv wn
  | OVdetach k => vdetach f k
  | OVdelete b r => vdelete f b r
  | OClose => hclose f
  end.

(** run a history; returns the final state and, per operation, its result and device writes *)
Fixpoint run (f : frec) (ops : list op) : frec * list (Z * list dev) :=
  match ops with
  | [] => (f, [])
  | o :: r => let '(f1, res, w) := step f o in let '(f2, l) := run f1 r in (f2, (res, w) :: l)
  end.

Definition writes_of (l : list (Z * list dev)) : list dev := concat (map snd l).

(** which operations are write requests / creations (for ro_mutators_fail) *)
Definition mutating (o : op) : bool :=
  match o with
  | OStartAccess _ _ fl => nz (Z.land fl DFACC_WRITE)
  | OStartWrite _ _ _ | OWrite _ _ | OTrunc _ _ | OSetLength _ _ | OPutElement _ _ _ | ODupdd _ _ _ _ | ODeldd _ _
  | OReuse _ _ | OSpecialCreate _ _ _ | OHLconvert _ | OVSwrite _ _ | OVset _ | OVdelete _ _ => true
  | OVattach _ m => Z.eqb m CH_W
  | OVSattach _ m => Z.eqb m CH_W
  | OVSdefine _ nv _ => nv <=? 0       (* no records: the call can only be a layout definition *)
  | _ => false
  end.
