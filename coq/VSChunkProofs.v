(** C07 -- further proofs: the single conversion of case E, and the passes of the chunk loops. *)
From Coq Require Import ZArith List Bool Lia Arith.
Require Import H4.gen.Gen_VS H4.VSModel H4.VTableSpec H4.VSProofs.
Require H4.ConvModel H4.ConvProofs.
Import ListNotations.
Local Open Scope Z_scope.

(** a contiguous DFKconvert call (strides 0, 0) *)
Lemma conv_spec0 : forall nt m p q n w,
  cwidth nt = Some w -> cflav nt = true -> 0 < n -> 1 <= w ->
  (q + n * w <= p \/ p + n * w <= q) ->
  exists m', ConvModel.spec_convert m p q nt n 0 0 = Some m' /\
    (forall e b, 0 <= e < n -> 0 <= b < w -> m' (q + e * w + b) = m (p + e * w + cperm w (swap_of nt w) b)) /\
    (forall a, (a < q \/ q + n * w <= a) -> m' a = m a).
Proof.
  intros nt m p q n w Hw Hf Hn Hw1 Hdis.
  assert (Heff : ConvModel.eff w 0 0 = (w, w)) by reflexivity.
  assert (Hdom : ConvModel.in_domain w p q n 0 0 = true).
  { unfold ConvModel.in_domain. rewrite Heff.
    apply andb_true_iff; split; [apply andb_true_iff; split; [apply andb_true_iff; split|]|]; try (apply Z.leb_le; lia); try (apply Z.ltb_lt; lia).
    apply orb_true_iff. destruct Hdis as [H|H]; [left; apply orb_true_iff; right|right]; apply Z.leb_le; lia. }
  assert (Hsome : exists m', ConvModel.spec_convert m p q nt n 0 0 = Some m').
  { unfold ConvModel.spec_convert. rewrite Hw, Hf. cbn [negb orb].
    destruct (n <=? 0) eqn:E; [apply Z.leb_le in E; lia|]. rewrite Heff. eexists; reflexivity. }
  destruct Hsome as [m' Hm']. exists m'. split; [exact Hm'|].
  pose proof (ConvProofs.spec_convert_elementwise_lemma nt m p q n 0 0 w m' Hw Hdom Hm') as H.
  cbv zeta in H. unfold ConvProofs.eff_se, ConvProofs.eff_de in H. rewrite Heff in H. cbn [fst snd] in H.
  destruct H as [H1 H2]. split; [exact H1|].
  intros a Ha. apply H2. intros i b Hi Hb. nia.
Qed.

(** VSread, case E (a single field): one pass.  Element e = i * order + j of the contiguous conversion is
    component j of record i. *)
Lemma rd_e_spec : forall f m vt P c,
  fld_ok f -> 0 < c -> (P + c * w_esize f <= vt \/ vt + c * w_isize f <= P) ->
  exists m', ConvModel.spec_convert m vt P (w_type f) (w_order f * c) 0 0 = Some m' /\
    (forall j i b, 0 <= j < w_order f -> 0 <= i < c -> 0 <= b < fw f ->
       m' (P + j * fw f + i * w_esize f + b) = m (vt + j * fw f + i * w_isize f + cperm (fw f) (swap_of (w_type f) (fw f)) b)) /\
    (forall a, (a < P \/ P + c * w_esize f <= a) -> m' a = m a).
Proof.
  intros f m vt P c Hf Hc Hreg.
  destruct (fld_ok_sizes f Hf) as [Hw1 [Hi [He [_ [_ [Hord [Hcw Hfl]]]]]]].
  destruct (conv_spec0 (w_type f) m vt P (w_order f * c) (fw f) Hcw Hfl ltac:(nia) Hw1) as [m' [Hm' [Hhit Hmiss]]].
  { rewrite He, Hi in Hreg. destruct Hreg; [left|right]; nia. }
  exists m'. split; [exact Hm'|]. split.
  - intros j i b Hj Hi' Hb.
    specialize (Hhit (i * w_order f + j) b ltac:(nia) Hb).
    rewrite He, Hi.
    replace (P + j * fw f + i * (w_order f * fw f) + b) with (P + (i * w_order f + j) * fw f + b) by ring.
    replace (vt + j * fw f + i * (w_order f * fw f) + cperm (fw f) (swap_of (w_type f) (fw f)) b)
      with (vt + (i * w_order f + j) * fw f + cperm (fw f) (swap_of (w_type f) (fw f)) b) by ring.
    exact Hhit.
  - intros a Ha. apply Hmiss. rewrite He in Ha. destruct Ha; [left; lia|right; nia].
Qed.

(** cases E/E, one pass: a single-field Vdata *)
Lemma rw_e_pass : forall f n mu vtW mw mr0 vtR mr,
  fld_ok f -> w_off f = 0 -> 0 < n ->
  n * w_isize f <= vtW -> n * w_esize f <= vtR ->
  wr_ec_fields [f] mu vtW 0 0 n (w_isize f) (w_isize f) = Some mw ->
  ConvModel.spec_convert (load mr0 vtR (mem_slice mw vtW (w_isize f * n))) vtR 0 (w_type f) (w_order f * n) 0 0 = Some mr ->
  forall j i b, 0 <= j < w_order f -> 0 <= i < n -> 0 <= b < fw f ->
    mr (j * fw f + i * w_esize f + b) = mu (j * fw f + i * w_isize f + b).
Proof.
  intros f n mu vtW mw mr0 vtR mr Hf Hoff Hn HvW HvR Hw Hr j i b Hj Hi Hb.
  destruct (fld_ok_sizes f Hf) as [Hw1 [Hisz [Hesz [_ [_ [Hord _]]]]]].
  assert (Hok : Forall fld_ok [f]) by (constructor; [assumption|constructor]).
  assert (Hofs : offs_ok 0 [f]) by (cbn; auto).
  assert (Hsum : isum [f] = w_isize f) by (cbn; lia).
  assert (0 <= w_isize f) by nia.
  destruct (wr_c_spec [f] mu vtW 0 n (w_isize f) (w_isize f) Hok Hofs ltac:(lia) ltac:(lia) Hn ltac:(left; lia)) as [mw' [Hw' [Hwhit _]]].
  rewrite Hw in Hw'. inversion Hw'; subst mw'. clear Hw'.
  destruct (rd_e_spec f (load mr0 vtR (mem_slice mw vtW (w_isize f * n))) vtR 0 n Hf Hn ltac:(left; lia)) as [mr' [Hr' [Hrhit _]]].
  rewrite Hr in Hr'. inversion Hr'; subst mr'. clear Hr'.
  specialize (Hrhit j i b Hj Hi Hb). cbn [Z.add] in Hrhit. try rewrite Z.add_0_l in Hrhit. rewrite Hrhit.
  pose proof (perm_range (fw f) (swap_of (w_type f) (fw f)) b Hb) as Hp.
  set (pb := cperm (fw f) (swap_of (w_type f) (fw f)) b) in *.
  assert (Hx : 0 <= j * fw f + i * w_isize f + pb < w_isize f * n) by nia.
  replace (vtR + j * fw f + i * w_isize f + pb) with (vtR + (j * fw f + i * w_isize f + pb)) by lia.
  rewrite load_in by (rewrite mem_slice_length; lia).
  rewrite mem_slice_nth by lia.
  specialize (Hwhit f 0 (or_introl eq_refl) j i pb Hj Hi Hp).
  rewrite Hoff in Hwhit.
  replace (vtW + (j * fw f + i * w_isize f + pb)) with (vtW + 0 + j * fw f + i * w_isize f + pb) by lia.
  rewrite Hwhit. unfold pb. rewrite ConvProofs.perm_involutive. try (f_equal; lia).
Qed.

(* ------------------------------------------------------------------ *)
(** * The while loops of cases E + C: several passes through the transfer buffer *)

Definition zsum (l : list Z) : Z := fold_right Z.add 0 l.

Lemma in_foffs_in : forall fl o f eo, In (f, eo) (foffs o fl) -> In f fl.
Proof.
  induction fl as [|f0 t IH]; intros o f eo H; [destruct H|].
  destruct H as [E|H]; [inversion E; left; reflexivity|right; eapply IH; eassumption].
Qed.

Lemma in_roffs_in : forall rl fl o f uo, In (f, uo) (roffs fl rl o) -> In f fl.
Proof.
  induction rl as [|i t IH]; intros fl o f uo H; [destruct H|].
  cbn in H. destruct (nthf fl i) as [f0|] eqn:E; [|destruct H].
  destruct H as [E'|H]; [inversion E'; subst; eapply nthf_in; eassumption|eapply IH; eassumption].
Qed.

(** where the cell (field f, component j, byte b) lies inside a record of hs bytes *)
Lemma cell_in_record : forall fl f j b, Forall fld_ok fl -> offs_ok 0 fl -> In f fl ->
  0 <= j < w_order f -> 0 <= b < fw f -> 0 <= w_off f + j * fw f + b < isum fl.
Proof.
  intros fl f j b Hok Hoff Hin Hj Hb.
  assert (Hfo : fld_ok f) by (rewrite Forall_forall in Hok; apply Hok; assumption).
  destruct (fld_ok_sizes f Hfo) as [Hw1 [Hisz _]].
  destruct (offs_in fl 0 f Hok Hoff Hin ltac:(lia)) as [Ho1 Ho2]. nia.
Qed.

(** VSwrite: the byte strings handed to Hwrite, concatenated, are the records of the caller's buffer in file
    order -- whatever the chunk sizes *)
Lemma wr_chunks_spec : forall chunks fl m vt Src,
  Forall fld_ok fl -> offs_ok 0 fl -> Forall (fun c => 0 < c) chunks -> 0 <= Src ->
  Src + zsum chunks * isum fl <= vt ->
  exists sl, wr_ec_chunks fl m vt Src chunks (isum fl) (isum fl) = Some sl /\
    length (concat sl) = Z.to_nat (zsum chunks * isum fl) /\
    (forall f eo, In (f, eo) (foffs 0 fl) -> forall j I b, 0 <= j < w_order f -> 0 <= I < zsum chunks -> 0 <= b < fw f ->
       nth (Z.to_nat (I * isum fl + w_off f + j * fw f + b)) (concat sl) 0 =
       m (Src + I * isum fl + eo + j * fw f + cperm (fw f) (swap_of (w_type f) (fw f)) b)).
Proof.
  induction chunks as [|c rest IH]; intros fl m vt Src Hok Hoff Hpos HSrc Hfit.
  - exists []. split; [reflexivity|]. split; [reflexivity|]. intros; cbn in *; lia.
  - inversion Hpos as [|? ? Hc Hrest]; subst.
    pose proof (isum_nonneg fl Hok) as Hnn.
    cbn [zsum fold_right] in Hfit. fold (zsum rest) in Hfit.
    assert (Hzr : 0 <= zsum rest).
    { clear - Hrest. unfold zsum. induction Hrest; cbn; lia. }
    destruct (wr_c_spec fl m vt Src c (isum fl) (isum fl) Hok Hoff ltac:(lia) ltac:(lia) Hc ltac:(left; nia))
      as [m1 [Hm1 [Hhit Hframe]]].
    destruct (IH fl m1 vt (Src + c * isum fl) Hok Hoff Hrest ltac:(nia) ltac:(nia)) as [sl' [Hsl' [Hlen' Hnth']]].
    exists (mem_slice m1 vt (isum fl * c) :: sl').
    split; [cbn [wr_ec_chunks]; rewrite Hm1, Hsl'; reflexivity|].
    cbn [concat zsum fold_right]. fold (zsum rest).
    split.
    + rewrite app_length, mem_slice_length, Hlen'. rewrite <- Z2Nat.inj_add by nia. f_equal. ring.
    + intros f eo Hin j I b Hj HI Hb.
      pose proof (cell_in_record fl f j b Hok Hoff (in_foffs_in _ _ _ _ Hin) Hj Hb) as Hcell.
      destruct (Z_lt_ge_dec I c) as [Hlt|Hge].
      * rewrite app_nth1 by (rewrite mem_slice_length; nia).
        rewrite mem_slice_nth by nia.
        replace (vt + (I * isum fl + w_off f + j * fw f + b)) with (vt + w_off f + j * fw f + I * isum fl + b) by ring.
        rewrite (Hhit f eo Hin j I b Hj ltac:(lia) Hb). f_equal. ring.
      * rewrite app_nth2 by (rewrite mem_slice_length; nia).
        rewrite mem_slice_length.
        replace (Z.to_nat (I * isum fl + w_off f + j * fw f + b) - Z.to_nat (isum fl * c))%nat
          with (Z.to_nat ((I - c) * isum fl + w_off f + j * fw f + b)) by nia.
        rewrite (Hnth' f eo Hin j (I - c) b Hj ltac:(lia) Hb).
        assert (Hfo : fld_ok f) by (rewrite Forall_forall in Hok; apply Hok; eapply in_foffs_in; eassumption).
        pose proof (perm_range (fw f) (swap_of (w_type f) (fw f)) b Hb) as Hp.
        rewrite Hframe.
        -- f_equal. ring.
        -- left.
           (* the source cell lies in the caller's buffer, below vt *)
           assert (Heo : 0 <= eo /\ eo + w_esize f <= isum fl).
           { clear - Hin Hok Hnn. revert Hin. 
             assert (G : forall fl o, Forall fld_ok fl -> 0 <= o -> In (f, eo) (foffs o fl) -> o <= eo /\ eo + w_esize f <= o + isum fl).
             { induction fl0 as [|f0 t IHt]; intros o Hk Ho Hi; [destruct Hi|].
               inversion Hk as [|? ? Hf0 Ht]; subst.
               destruct (fld_ok_sizes f0 Hf0) as [Hw1 [Hi0 [He0 [_ [_ [Ho0 _]]]]]].
               pose proof (isum_nonneg t Ht).
               cbn [isum fold_right]. fold (isum t).
               destruct Hi as [E|Hi]; [inversion E; subst; nia|].
               destruct (IHt (o + w_esize f0) Ht ltac:(nia) Hi); nia. }
             intros Hin. destruct (G fl 0 Hok ltac:(lia) Hin). lia. }
           destruct (fld_ok_sizes f Hfo) as [Hw1 [_ [Hesz _]]].
           nia.
Qed.

(** VSread, case C with several passes: for a Vdata with at least two fields the caller's buffer receives, record by
    record, the selected cells of the byte stream -- whatever the chunk sizes *)
Lemma rd_chunks_spec : forall chunks fl rl m vt P data,
  Forall fld_ok fl -> offs_ok 0 fl -> rl_ok fl rl -> (2 <= length fl)%nat ->
  Forall (fun c => 0 < c) chunks -> 0 <= P ->
  P + zsum chunks * rsum fl rl <= vt -> length data = Z.to_nat (zsum chunks * isum fl) ->
  exists m', rd_ec_chunks fl rl m vt P chunks data (isum fl) (rsum fl rl) = Some m' /\
    (forall f uo, In (f, uo) (roffs fl rl 0) -> forall j I b, 0 <= j < w_order f -> 0 <= I < zsum chunks -> 0 <= b < fw f ->
       m' (P + I * rsum fl rl + uo + j * fw f + b) =
       nth (Z.to_nat (I * isum fl + w_off f + j * fw f + cperm (fw f) (swap_of (w_type f) (fw f)) b)) data 0) /\
    (forall a, a < P -> m' a = m a).
Proof.
  induction chunks as [|c rest IH]; intros fl rl m vt P data Hok Hoff Hrl H2 Hpos HP Hfit Hlen.
  - exists m. split; [reflexivity|]. split; [intros; cbn in *; lia|reflexivity].
  - inversion Hpos as [|? ? Hc Hrest]; subst.
    pose proof (isum_nonneg fl Hok) as Hnn. pose proof (rsum_nonneg fl rl Hok) as Hrn.
    cbn [zsum fold_right] in Hfit, Hlen. fold (zsum rest) in Hfit, Hlen.
    assert (Hzr : 0 <= zsum rest).
    { clear - Hrest. unfold zsum. induction Hrest; cbn; lia. }
    set (bytes := Z.to_nat (isum fl * c)).
    set (m1 := load m vt (firstn bytes data)).
    assert (Hfl : length (firstn bytes data) = bytes).
    { rewrite firstn_length. unfold bytes. nia. }
    destruct (rd_c_spec fl rl m1 vt P c (isum fl) (rsum fl rl) Hok Hoff Hrl ltac:(lia) ltac:(lia) Hc ltac:(right; nia))
      as [m2 [Hm2 [Hhit Hframe]]].
    destruct (IH fl rl m2 vt (P + c * rsum fl rl) (skipn bytes data) Hok Hoff Hrl H2 Hrest ltac:(nia) ltac:(nia))
      as [m' [Hm' [Hhit' Hframe']]].
    { rewrite skipn_length, Hlen. unfold bytes. nia. }
    exists m'. split.
    + cbn [rd_ec_chunks]. fold bytes. fold m1.
      destruct fl as [|f1 [|f2 t]]; cbn [length] in H2; try lia.
      rewrite Hm2. exact Hm'.
    + split.
      * intros f uo Hin j I b Hj HI Hb.
        assert (HI' : 0 <= I < c + zsum rest) by exact HI. clear HI.
        pose proof (perm_range (fw f) (swap_of (w_type f) (fw f)) b Hb) as Hp.
        set (pb := cperm (fw f) (swap_of (w_type f) (fw f)) b) in *.
        pose proof (cell_in_record fl f j pb Hok Hoff (in_roffs_in _ _ _ _ _ Hin) Hj Hp) as Hcell.
        (* the destination cell lies inside the record of rsum bytes *)
        assert (Huo : 0 <= uo /\ uo + w_esize f <= rsum fl rl).
        { clear - Hin Hok. 
          assert (G : forall rl o, 0 <= o -> In (f, uo) (roffs fl rl o) -> o <= uo /\ uo + w_esize f <= o + rsum fl rl).
          { induction rl0 as [|i0 t IHt]; intros o Ho Hi; [destruct Hi|].
            cbn [roffs rsum] in *. destruct (nthf fl i0) as [f0|] eqn:E; [|destruct Hi].
            assert (Hf0 : fld_ok f0) by (rewrite Forall_forall in Hok; apply Hok; eapply nthf_in; eassumption).
            destruct (fld_ok_sizes f0 Hf0) as [Hw1 [_ [He0 [_ [_ [Ho0 _]]]]]].
            pose proof (rsum_nonneg fl t Hok).
            destruct Hi as [E'|Hi]; [inversion E'; subst; nia|].
            destruct (IHt (o + w_esize f0) ltac:(nia) Hi); nia. }
          destruct (G rl 0 ltac:(lia) Hin). lia. }
        assert (Hfo : fld_ok f) by (rewrite Forall_forall in Hok; apply Hok; eapply in_roffs_in; eassumption).
        destruct (fld_ok_sizes f Hfo) as [Hw1 [_ [Hesz _]]].
        destruct (Z_lt_ge_dec I c) as [Hlt|Hge].
        -- rewrite Hframe' by nia.
           replace (P + I * rsum fl rl + uo + j * fw f + b) with (P + uo + j * fw f + I * rsum fl rl + b) by ring.
           rewrite (Hhit f uo Hin j I b Hj ltac:(lia) Hb). fold pb.
           unfold m1.
           replace (vt + w_off f + j * fw f + I * isum fl + pb) with (vt + (I * isum fl + w_off f + j * fw f + pb)) by ring.
           rewrite load_in by (rewrite Hfl; unfold bytes; nia).
           apply nth_firstn_lt. unfold bytes. nia.
        -- replace (P + I * rsum fl rl + uo + j * fw f + b)
             with (P + c * rsum fl rl + (I - c) * rsum fl rl + uo + j * fw f + b) by ring.
           rewrite (Hhit' f uo Hin j (I - c) b Hj ltac:(lia) Hb). fold pb.
           rewrite nth_skipn_add. f_equal. unfold bytes. nia.
      * intros a Ha. rewrite Hframe' by nia. rewrite Hframe by (left; lia).
        unfold m1. apply load_out. left. nia.
Qed.

(** cases C/C with any number of passes on either side (the two calls may split the records differently) *)
Lemma rw_c_chunks : forall wchunks rchunks fl rl n mu vtW sl mr0 vtR mr,
  Forall fld_ok fl -> offs_ok 0 fl -> rl_ok fl rl -> (2 <= length fl)%nat ->
  Forall (fun c => 0 < c) wchunks -> Forall (fun c => 0 < c) rchunks ->
  zsum wchunks = n -> zsum rchunks = n ->
  n * isum fl <= vtW -> n * rsum fl rl <= vtR ->
  wr_ec_chunks fl mu vtW 0 wchunks (isum fl) (isum fl) = Some sl ->
  rd_ec_chunks fl rl mr0 vtR 0 rchunks (concat sl) (isum fl) (rsum fl rl) = Some mr ->
  forall f eo uo, In (f, eo) (foffs 0 fl) -> In (f, uo) (roffs fl rl 0) ->
  forall j I b, 0 <= j < w_order f -> 0 <= I < n -> 0 <= b < fw f ->
    mr (I * rsum fl rl + uo + j * fw f + b) = mu (I * isum fl + eo + j * fw f + b).
Proof.
  intros wchunks rchunks fl rl n mu vtW sl mr0 vtR mr Hok Hoff Hrl H2 Hwp Hrp Hws Hrs HvW HvR Hw Hr
         f eo uo Hfe Hfu j I b Hj HI Hb.
  destruct (wr_chunks_spec wchunks fl mu vtW 0 Hok Hoff Hwp ltac:(lia) ltac:(rewrite Hws; lia)) as [sl0 [Hsl0 [Hlen Hnth]]].
  rewrite Hw in Hsl0. inversion Hsl0; subst sl0. clear Hsl0.
  destruct (rd_chunks_spec rchunks fl rl mr0 vtR 0 (concat sl) Hok Hoff Hrl H2 Hrp ltac:(lia) ltac:(rewrite Hrs; lia))
    as [mr' [Hmr' [Hhit _]]].
  { rewrite Hlen, Hws, Hrs. reflexivity. }
  rewrite Hr in Hmr'. inversion Hmr'; subst mr'. clear Hmr'.
  pose proof (perm_range (fw f) (swap_of (w_type f) (fw f)) b Hb) as Hp.
  specialize (Hhit f uo Hfu j I b Hj ltac:(rewrite Hrs; exact HI) Hb). cbn [Z.add] in Hhit. try rewrite Z.add_0_l in Hhit.
  rewrite Hhit.
  rewrite (Hnth f eo Hfe j I _ Hj ltac:(rewrite Hws; exact HI) Hp).
  rewrite ConvProofs.perm_involutive. try (f_equal; lia).
Qed.

(** the chunk sizes VSwrite / VSread actually use (regenerated conditions): all positive, and they add up to nelt *)
Lemma chunk_loop_ok : forall lc fuel nelt done chunk,
  (forall n d c, lc n d c = if n - d <? c then 1 else 0) ->
  0 <= done <= nelt -> 1 <= chunk -> (Z.to_nat (nelt - done) <= fuel)%nat ->
  Forall (fun c => 0 < c) (chunk_loop lc fuel nelt done chunk) /\ zsum (chunk_loop lc fuel nelt done chunk) = nelt - done.
Proof.
  intros lc fuel. induction fuel as [|k IH]; intros nelt done chunk Hlc Hd Hc Hf.
  - cbn. split; [constructor|]. cbn. lia.
  - cbn [chunk_loop]. destruct (done <? nelt) eqn:E.
    + apply Z.ltb_lt in E. rewrite Hlc.
      destruct (nelt - done <? chunk) eqn:E2; cbn [Z.eqb].
      * apply Z.ltb_lt in E2.
        destruct (IH nelt (done + (nelt - done)) (nelt - done) Hlc ltac:(lia) ltac:(lia) ltac:(lia)) as [G1 G2].
        split; [constructor; [lia|exact G1]|]. cbn [zsum fold_right]. fold (zsum (chunk_loop lc k nelt (done + (nelt - done)) (nelt - done))).
        rewrite G2. lia.
      * apply Z.ltb_ge in E2.
        destruct (IH nelt (done + chunk) chunk Hlc ltac:(lia) Hc ltac:(lia)) as [G1 G2].
        split; [constructor; [lia|exact G1]|]. cbn [zsum fold_right]. fold (zsum (chunk_loop lc k nelt (done + chunk) chunk)).
        rewrite G2. lia.
    + apply Z.ltb_ge in E. split; [constructor|]. cbn. lia.
Qed.

Lemma plan_ok : forall fits bufsz chunkf lc hsize nelt vtb,
  (forall n d c, lc n d c = if n - d <? c then 1 else 0) ->
  (forall bs hs, 0 <= bs -> 0 < hs -> 1 <= chunkf bs hs) -> (forall t, 0 <= t -> 0 <= bufsz t) ->
  0 < hsize -> 0 < nelt ->
  Forall (fun c => 0 < c) (p_chunks (ec_plan fits bufsz chunkf lc hsize nelt vtb)) /\
  zsum (p_chunks (ec_plan fits bufsz chunkf lc hsize nelt vtb)) = nelt.
Proof.
  intros fits bufsz chunkf lc hsize nelt vtb Hlc Hcf Hbs Hh Hn. unfold ec_plan.
  destruct (fits (hsize * nelt) vtb =? 0); cbn [p_chunks].
  - destruct (chunk_loop_ok lc (Z.to_nat nelt) nelt 0 (chunkf (bufsz (hsize * nelt)) hsize) Hlc ltac:(lia)) as [G1 G2].
    + apply Hcf; [apply Hbs; nia|assumption].
    + lia.
    + split; [exact G1|]. rewrite G2. lia.
  - destruct (chunk_loop_ok lc (Z.to_nat nelt) nelt 0 nelt Hlc ltac:(lia) ltac:(lia) ltac:(lia)) as [G1 G2].
    split; [exact G1|]. rewrite G2. lia.
Qed.

Lemma write_plan_ok : forall hsize nelt vtb, 0 < hsize -> 0 < nelt ->
  Forall (fun c => 0 < c) (p_chunks (write_plan hsize nelt vtb)) /\ zsum (p_chunks (write_plan hsize nelt vtb)) = nelt.
Proof.
  intros. unfold write_plan. apply plan_ok; try assumption.
  - intros. unfold vswrite_last_chunk_cond. reflexivity.
  - intros bs hs Hb Hh. unfold vswrite_chunk. pose proof (Z.quot_pos bs hs Hb Hh). lia.
  - intros t Ht. unfold vswrite_buf_size. destruct (t <? 1000000) eqn:E; cbn; lia.
Qed.

Lemma read_plan_ok : forall hsize nelt vtb, 0 < hsize -> 0 < nelt ->
  Forall (fun c => 0 < c) (p_chunks (read_plan hsize nelt vtb)) /\ zsum (p_chunks (read_plan hsize nelt vtb)) = nelt.
Proof.
  intros. unfold read_plan. apply plan_ok; try assumption.
  - intros. unfold vsread_last_chunk_cond. reflexivity.
  - intros bs hs Hb Hh. unfold vsread_chunk. pose proof (Z.quot_pos bs hs Hb Hh). lia.
  - intros t Ht. unfold vsread_buf_size. destruct (t <? 1000000) eqn:E; cbn; lia.
Qed.

(* ------------------------------------------------------------------ *)
(** * End to end through the model's entry points: user FULL_INTERLACE, file FULL_INTERLACE, at least two fields *)

Lemma ec_cond_full_w : forall wn, vswrite_ec_cond wn FULL_INTERLACE FULL_INTERLACE = 1.
Proof. intros. unfold vswrite_ec_cond, FULL_INTERLACE. destruct (wn =? 1); reflexivity. Qed.
Lemma ec_cond_full_r : forall wn, vsread_ec_cond wn FULL_INTERLACE FULL_INTERLACE = 1.
Proof. intros. unfold vsread_ec_cond, FULL_INTERLACE. destruct (wn =? 1); reflexivity. Qed.

Lemma isum_pos : forall fl, Forall fld_ok fl -> fl <> [] -> 0 < isum fl.
Proof.
  intros fl Hok Hne. destruct fl as [|f t]; [congruence|].
  inversion Hok as [|? ? Hf Ht]; subst. pose proof (isum_nonneg t Ht).
  destruct (fld_ok_sizes f Hf) as [Hw1 [Hi [_ [_ [_ [Ho _]]]]]].
  cbn [isum fold_right]. fold (isum t). nia.
Qed.

Lemma mem_of_list_nth : forall l a, 0 <= a -> ConvModel.mem_of_list l a = nth (Z.to_nat a) l 0.
Proof. intros l a Ha. unfold ConvModel.mem_of_list. destruct (a <? 0) eqn:E; [apply Z.ltb_lt in E; lia|reflexivity]. Qed.

Lemma vsread_after_vswrite_full_full_lemma : forall w rl nelt vtbW pos nv ubuf r vtbR vtbR' lens out,
  Forall fld_ok (wl_fields w) -> offs_ok 0 (wl_fields w) -> wl_ivsize w = isum (wl_fields w) ->
  (2 <= length (wl_fields w))%nat -> rl_ok (wl_fields w) rl -> 0 < nelt ->
  Z.of_nat (length ubuf) = nelt * isum (wl_fields w) ->
  m_vswrite w FULL_INTERLACE FULL_INTERLACE nelt vtbW pos nv ubuf = Some r ->
  m_vsread w rl FULL_INTERLACE FULL_INTERLACE nelt vtbR (concat (wr_chunks r)) = Some (vtbR', lens, out) ->
  forall f eo uo, In (f, eo) (foffs 0 (wl_fields w)) -> In (f, uo) (roffs (wl_fields w) rl 0) ->
  forall j I b, 0 <= j < w_order f -> 0 <= I < nelt -> 0 <= b < fw f ->
    nth (Z.to_nat (I * rsum (wl_fields w) rl + uo + j * fw f + b)) out 0 =
    nth (Z.to_nat (I * isum (wl_fields w) + eo + j * fw f + b)) ubuf 0.
Proof.
  intros w rl nelt vtbW pos nv ubuf r vtbR vtbR' lens out Hok Hoff Hiv H2 Hrl Hn Hlen Hw Hr f eo uo Hfe Hfu j I b Hj HI Hb.
  remember (wl_fields w) as fl eqn:Efl.
  assert (Hne : fl <> []) by (intro E; rewrite E in H2; cbn in H2; lia).
  assert (A1 : (match fl with [] => true | _ :: _ => false end) = false) by (destruct fl; [congruence|reflexivity]).
  assert (A2 : match fl with [f0] => w_esize f0 | _ => rsum fl rl end = rsum fl rl)
    by (destruct fl as [|f1 [|f2 t]]; cbn [length] in H2; try lia; reflexivity).
  assert (A3 : user_size w rl nelt = nelt * rsum fl rl).
  { unfold user_size. rewrite <- Efl. clear - H2 Hrl.
    destruct fl as [|f1 [|f2 t]]; cbn [length] in H2; try lia. rewrite (uvsize_of_rsum _ rl Hrl). reflexivity. }
  pose proof (isum_pos fl Hok Hne) as Hpos. pose proof (rsum_nonneg fl rl Hok) as Hrn.
  (* VSwrite *)
  unfold m_vswrite in Hw. rewrite <- Efl in Hw. rewrite A1 in Hw.
  replace (nelt <=? 0) with false in Hw by (symmetry; apply Z.leb_gt; lia).
  replace ((FULL_INTERLACE =? NO_INTERLACE) || (FULL_INTERLACE =? FULL_INTERLACE)) with true in Hw by reflexivity.
  cbn [negb orb] in Hw.
  unfold m_vswrite_mem in Hw. rewrite <- Efl in Hw. rewrite ec_cond_full_w in Hw. cbn [Z.eqb negb] in Hw.
  rewrite int_size_of_isum in Hw by assumption. rewrite Hiv in Hw.
  destruct (wr_ec_chunks fl (ConvModel.mem_of_list ubuf) (Z.of_nat (length ubuf)) 0
              (p_chunks (write_plan (isum fl) nelt vtbW)) (isum fl) (isum fl)) as [sl|] eqn:Ew; [|discriminate].
  inversion Hw; subst r. clear Hw. cbn [wr_chunks] in Hr.
  (* VSread *)
  unfold m_vsread in Hr. rewrite <- Efl in Hr. rewrite A1 in Hr.
  replace (nelt <=? 0) with false in Hr by (symmetry; apply Z.leb_gt; lia).
  replace ((FULL_INTERLACE =? NO_INTERLACE) || (FULL_INTERLACE =? FULL_INTERLACE)) with true in Hr by reflexivity.
  cbn [negb orb] in Hr.
  rewrite A3 in Hr.
  unfold m_vsread_mem in Hr. rewrite <- Efl in Hr. rewrite (uvsize_of_rsum fl rl Hrl) in Hr.
  rewrite ec_cond_full_r in Hr. cbn [Z.eqb negb] in Hr. rewrite Hiv in Hr. rewrite A2 in Hr.
  destruct (rd_ec_chunks fl rl (fun _ : Z => 238) (nelt * rsum fl rl) 0 (p_chunks (read_plan (isum fl) nelt vtbR))
              (concat sl) (isum fl) (rsum fl rl)) as [mr|] eqn:Er; [|discriminate].
  inversion Hr; subst vtbR' lens out. clear Hr. cbn [rr_mem].
  destruct (write_plan_ok (isum fl) nelt vtbW Hpos Hn) as [Hwp Hws].
  destruct (read_plan_ok (isum fl) nelt vtbR Hpos Hn) as [Hrp Hrs].
  pose proof (rw_c_chunks _ _ fl rl nelt _ (Z.of_nat (length ubuf)) sl _ (nelt * rsum fl rl) mr
                Hok Hoff Hrl H2 Hwp Hrp Hws Hrs ltac:(lia) ltac:(lia) Ew Er f eo uo Hfe Hfu j I b Hj HI Hb) as Hcell.
  (* cells as list positions *)
  assert (Hfo : fld_ok f) by (rewrite Forall_forall in Hok; apply Hok; eapply in_foffs_in; eassumption).
  destruct (fld_ok_sizes f Hfo) as [Hw1 [Hisz [Hesz [_ [_ [Hord _]]]]]].
  pose proof (cell_in_record fl f j b Hok Hoff (in_foffs_in _ _ _ _ Hfe) Hj Hb) as Hc1.
  assert (Huo : 0 <= uo /\ uo + w_esize f <= rsum fl rl).
  { clear - Hfu Hok.
    assert (G : forall rl o, 0 <= o -> In (f, uo) (roffs fl rl o) -> o <= uo /\ uo + w_esize f <= o + rsum fl rl).
    { induction rl0 as [|i0 t0 IHt]; intros o Ho Hi; [destruct Hi|].
      cbn [roffs rsum] in *. destruct (nthf fl i0) as [f0|] eqn:E; [|destruct Hi].
      assert (Hf0 : fld_ok f0) by (rewrite Forall_forall in Hok; apply Hok; eapply nthf_in; eassumption).
      destruct (fld_ok_sizes f0 Hf0) as [Hw1 [_ [He0 [_ [_ [Ho0 _]]]]]].
      pose proof (rsum_nonneg fl t0 Hok).
      destruct Hi as [E'|Hi]; [inversion E'; subst; nia|].
      destruct (IHt (o + w_esize f0) ltac:(nia) Hi); nia. }
    destruct (G rl 0 ltac:(lia) Hfu). lia. }
  assert (Heo : 0 <= eo).
  { clear - Hfe Hok.
    assert (G : forall fl o, Forall fld_ok fl -> 0 <= o -> In (f, eo) (foffs o fl) -> o <= eo).
    { induction fl0 as [|f0 t0 IHt]; intros o Hk Ho Hi; [destruct Hi|].
      inversion Hk as [|? ? Hf0 Ht]; subst.
      destruct (fld_ok_sizes f0 Hf0) as [Hw1 [_ [He0 [_ [_ [Ho0 _]]]]]].
      destruct Hi as [E|Hi]; [inversion E; subst; lia|].
      specialize (IHt (o + w_esize f0) Ht ltac:(nia) Hi). nia. }
    apply (G fl 0 Hok ltac:(lia) Hfe). }
  rewrite mem_slice_nth by nia.
  rewrite Z.add_0_l. rewrite Hcell.
  apply mem_of_list_nth. nia.
Qed.
