(** C05 -- implementation model M of the run-length coder (hdf/src/crle.c).  No proofs in this file.

    The numeric content of the coder -- the three states, RLE_NIL, the control bytes and payload lengths the
    encoder and HCIcrle_term emit, the limits at which a run or a mix is cut, the decoder's run/mix test and
    lengths -- is NOT written here: it is imported from the generated file Gen_Comp.v (regenerated from
    crle.c / crle_priv.h on every run).  What is hand-written is the control skeleton. *)
From Coq Require Import ZArith List Bool.
Require Import H4.gen.Gen_Comp H4.CompSpec.
Import ListNotations.
Local Open Scope Z_scope.

(** ** encoder (HCIcrle_encode, one loop iteration per input byte) *)
Record rle_enc := mk_rle_enc {
  re_state : Z;            (* RLE_INIT / RLE_RUN / RLE_MIX                  *)
  re_buf : list Z;         (* buffer[0 .. buf_pos)                          *)
  re_len : Z;              (* buf_length                                    *)
  re_last : Z;             (* last_byte   (RLE_NIL = no byte)               *)
  re_second : Z }.         (* second_byte                                   *)

Definition rle_enc_init : rle_enc := mk_rle_enc RLE_INIT [] 0 RLE_NIL RLE_NIL.

Definition u8 (z : Z) : Z := Z.modulo z 256.        (* the (uint8) casts at HDputc *)

(** one iteration of the while loop: new state and the bytes written to the compressed element *)
Definition rle_enc_step (s : rle_enc) (b : Z) : rle_enc * list Z :=
  if re_state s =? RLE_INIT then
    (mk_rle_enc RLE_MIX [b] 1 b (re_second s), [])
  else if re_state s =? RLE_RUN then
    if negb (b =? re_last s) then
      (mk_rle_enc RLE_MIX [b] 1 b (re_second s), [u8 (rle_enc_run_ctl_end (re_len s)); u8 (re_last s)])
    else
      let len' := re_len s + 1 in
      if rle_enc_run_limit <=? len' then
        (mk_rle_enc RLE_INIT (re_buf s) len' RLE_NIL RLE_NIL, [u8 (rle_enc_run_ctl_max len'); u8 (re_last s)])
      else (mk_rle_enc RLE_RUN (re_buf s) len' (re_last s) (re_second s), [])
  else (* RLE_MIX *)
    if (b =? re_last s) && (b =? re_second s) then
      (mk_rle_enc RLE_RUN (re_buf s) rle_enc_run_start (re_last s) (re_second s),
       if rle_enc_torun_keep <? re_len s
       then u8 (rle_enc_mix_ctl_torun (re_len s)) :: ztake (rle_enc_mix_len_torun (re_len s)) (re_buf s)
       else [])
    else
      let buf' := re_buf s ++ [b] in
      let len' := re_len s + 1 in
      if rle_enc_mix_limit <=? len' then
        (mk_rle_enc RLE_INIT buf' len' RLE_NIL RLE_NIL,
         u8 (rle_enc_mix_ctl_full len') :: ztake (rle_enc_mix_len_full len') buf')
      else (mk_rle_enc RLE_MIX buf' len' b (re_last s), []).

(** HCIcrle_encode on one Hwrite call: fold over the bytes of the call *)
Fixpoint rle_encode (s : rle_enc) (bs : list Z) : rle_enc * list Z :=
  match bs with
  | [] => (s, [])
  | b :: t => let '(s1, o1) := rle_enc_step s b in
              let '(s2, o2) := rle_encode s1 t in (s2, o1 ++ o2)
  end.

(** HCIcrle_term (called by endaccess / backward seek when the state is not RLE_INIT) *)
Definition rle_term (s : rle_enc) : rle_enc * list Z :=
  (mk_rle_enc RLE_INIT (re_buf s) (re_len s) RLE_NIL RLE_NIL,
   if re_state s =? RLE_RUN then [u8 (rle_term_run_ctl (re_len s)); u8 (re_last s)]
   else if re_state s =? RLE_MIX then u8 (rle_term_mix_ctl (re_len s)) :: ztake (rle_term_mix_len (re_len s)) (re_buf s)
   else []).

(** a whole write session: the calls of the session, then endaccess *)
Fixpoint rle_encode_calls (s : rle_enc) (calls : list (list Z)) : rle_enc * list Z :=
  match calls with
  | [] => (s, [])
  | c :: t => let '(s1, o1) := rle_encode s c in
              let '(s2, o2) := rle_encode_calls s1 t in (s2, o1 ++ o2)
  end.
Definition rle_write_session (calls : list (list Z)) : list Z :=
  let '(s, o) := rle_encode_calls rle_enc_init calls in
  o ++ (if re_state s =? RLE_INIT then [] else snd (rle_term s)).

(** ** decoder (HCIcrle_decode); the compressed element is the list of bytes still unread *)
Record rle_dec := mk_rle_dec {
  rd_state : Z;
  rd_len : Z;              (* buf_length: bytes left in the current run / mix *)
  rd_last : Z;             (* run byte                                        *)
  rd_buf : list Z;         (* &buffer[buf_pos]: mix bytes not yet delivered   *)
  rd_in : list Z;          (* unread part of the compressed element           *)
  rd_off : Z }.            (* offset (uncompressed bytes delivered so far)    *)

Definition rle_dec_init (stream : list Z) : rle_dec := mk_rle_dec RLE_INIT 0 RLE_NIL [] stream 0.

(** the "if state == INIT" block at the top of the loop body: fetch a control byte; None = read error *)
Definition rle_dec_fetch (d : rle_dec) : option rle_dec :=
  if rd_state d =? RLE_INIT then
    match rd_in d with
    | [] => None
    | c :: t =>
        if negb (rle_dec_is_run c =? 0) then
          match t with
          | [] => None
          | v :: t' => Some (mk_rle_dec RLE_RUN (rle_dec_run_len c) v (rd_buf d) t' (rd_off d))
          end
        else
          let n := rle_dec_mix_len c in
          if zlen t <? n then None
          else Some (mk_rle_dec RLE_MIX n (rd_last d) (ztake n t) (zdrop n t) (rd_off d))
    end
  else Some d.

(** one iteration of the while loop with [length] bytes still wanted: delivers dec_len bytes *)
Definition rle_dec_iter (d : rle_dec) (length : Z) : option (rle_dec * list Z) :=
  match rle_dec_fetch d with
  | None => None
  | Some d1 =>
      let dec_len := if rd_len d1 <? length then rd_len d1 else length in
      let out := if rd_state d1 =? RLE_RUN then repeat (rd_last d1) (Z.to_nat dec_len)
                 else ztake dec_len (rd_buf d1) in
      let buf' := if rd_state d1 =? RLE_RUN then rd_buf d1 else zdrop dec_len (rd_buf d1) in
      let len' := rd_len d1 - dec_len in
      Some (mk_rle_dec (if len' <=? 0 then RLE_INIT else rd_state d1) len' (rd_last d1) buf' (rd_in d1) (rd_off d1),
            out)
  end.

(** the loop: fuel = number of bytes wanted (every iteration delivers at least one byte on well-formed
    streams); running out of fuel is reported as an error, never as a normal value *)
Fixpoint rle_dec_loop (fuel : nat) (d : rle_dec) (length : Z) : option (rle_dec * list Z) :=
  if length <=? 0 then Some (d, []) else
  match fuel with
  | O => None
  | S f =>
      match rle_dec_iter d length with
      | None => None
      | Some (d1, o1) =>
          if zlen o1 =? 0 then None else
          match rle_dec_loop f d1 (length - zlen o1) with
          | None => None
          | Some (d2, o2) => Some (d2, o1 ++ o2)
          end
      end
  end.

Definition rle_decode (d : rle_dec) (length : Z) : option (rle_dec * list Z) :=
  match rle_dec_loop (Z.to_nat length) d length with
  | None => None
  | Some (d', o) => Some (mk_rle_dec (rd_state d') (rd_len d') (rd_last d') (rd_buf d') (rd_in d') (rd_off d' + length), o)
  end.

(** HCPcrle_seek on a read access: restart when going backwards, then decode and discard in chunks of
    TMP_BUF_SIZE, then the remainder *)
Fixpoint rle_skip_chunks (fuel : nat) (d : rle_dec) (offset : Z) : option rle_dec :=
  match fuel with
  | O => Some d
  | S f => if rd_off d + TMP_BUF_SIZE <? offset
           then match rle_decode d TMP_BUF_SIZE with None => None | Some (d', _) => rle_skip_chunks f d' offset end
           else Some d
  end.
Definition rle_seek (stream : list Z) (d : rle_dec) (offset : Z) : option rle_dec :=
  let d0 := if negb (rle_seek_restarts offset (rd_off d) =? 0) then rle_dec_init stream else d in   (* test regenerated from HCPcrle_seek *)
  match rle_skip_chunks (Z.to_nat (offset / TMP_BUF_SIZE + 1)) d0 offset with
  | None => None
  | Some d1 => if rd_off d1 <? offset
               then match rle_decode d1 (offset - rd_off d1) with None => None | Some (d2, _) => Some d2 end
               else Some d1
  end.

(** read-side operations on one access id *)
Inductive rop := RRead (n : Z) | RSeek (off : Z).
Fixpoint rle_run_reads (stream : list Z) (d : rle_dec) (ops : list rop) : option (list (list Z)) :=
  match ops with
  | [] => Some []
  | RRead n :: t =>
      match rle_decode d n with
      | None => None
      | Some (d', o) => match rle_run_reads stream d' t with None => None | Some r => Some (o :: r) end
      end
  | RSeek off :: t =>
      match rle_seek stream d off with
      | None => None
      | Some d' => match rle_run_reads stream d' t with None => None | Some r => Some ([] :: r) end
      end
  end.

(** the same operations on the specification (a byte array with a position) *)
Fixpoint spec_run_reads (data : list Z) (pos : Z) (ops : list rop) : list (list Z) :=
  match ops with
  | [] => []
  | RRead n :: t => ztake n (zdrop pos data) :: spec_run_reads data (pos + n) t
  | RSeek off :: t => [] :: spec_run_reads data off t
  end.
Fixpoint reads_in_range (len pos : Z) (ops : list rop) : bool :=
  match ops with
  | [] => true
  | RRead n :: t => (0 <=? n) && (pos + n <=? len) && reads_in_range len (pos + n) t
  | RSeek off :: t => (0 <=? off) && (off <=? len) && reads_in_range len off t
  end.

(** whole-stream decoder used by the check on raw DFTAG_COMPRESSED bytes written by the library *)
Definition rle_decode_all (stream : list Z) (n : Z) : option (list Z) :=
  match rle_decode (rle_dec_init stream) n with None => None | Some (_, o) => Some o end.
