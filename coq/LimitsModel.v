(** C20 -- format limits: the implementation model M (arithmetic of the anchored sites with explicit C widths).
    No proofs in this file. *)
From Coq Require Import ZArith List Bool.
Require Import H4.gen.Gen_Limits.
Import ListNotations.
Local Open Scope Z_scope.

(** C integer conversions *)
Definition wrap32 (z : Z) : Z := ((z + 2147483648) mod 4294967296) - 2147483648.
Definition u16 (z : Z) : Z := z mod 65536.
Definition u32 (z : Z) : Z := z mod 4294967296.

(** hfile.c HPgetdiskblock(file_rec, block_size, moveto): returns (offset | FAIL, new f_end_off) *)
Definition m_getdiskblock (f_end_off block_size : Z) : option Z * Z :=
  if block_size <? 0 then (None, f_end_off)
  else if wrap32 (2147483647 - f_end_off) <? block_size then (None, f_end_off)
  else (Some f_end_off, wrap32 (f_end_off + block_size)).

(** vgp.c vinsertpair: returns (new count | FAIL, nvelt) ; nvelt is uint16 *)
Definition m_vinsertpair (nvelt : Z) : option Z * Z :=
  if 65535 <=? nvelt then (None, nvelt) else
  let n' := u16 (nvelt + 1) in (Some n', n').

(** hfiledd.c HTPstart: end_off after reading one DD block at [myoffset] holding [dds] = (offset, length) pairs *)
Definition m_endoff (myoffset ndds : Z) (dds : list (Z * Z)) : Z :=
  let e0 := 0 in
  let blk := wrap32 (myoffset + (NDDS_SZ + OFFSET_SZ) + ndds * DD_SZ) in
  let e1 := if e0 <? blk then blk else e0 in
  fold_left (fun e p => let s := wrap32 (fst p + snd p) in if e <? s then s else e) dds e1.
