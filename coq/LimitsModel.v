(** C20 -- format limits: the implementation model M.

    Each function below is the arithmetic of one anchored site as the C code performs it: the guard conditions and
    the width-relevant expressions are the definitions regenerated from the current sources into gen/Gen_Limits.v
    (evaluated with wrapping 32-bit / 16-bit operations, see LimitsWidth.v); this file only adds the control
    skeleton around them (which guard is tested first, what is stored where).  No proofs in this file. *)
From Coq Require Import ZArith List Bool.
Require Import H4.LimitsWidth H4.gen.Gen_Limits.
Import ListNotations.
Local Open Scope Z_scope.

Definition truth (z : Z) : bool := negb (z =? 0).

(** hfile.c HPgetdiskblock(file_rec, block_size, moveto): (offset | FAIL, f_end_off afterwards) *)
Definition m_getdiskblock (f_end_off block_size : Z) : option Z * Z :=
  if truth (getdiskblock_bad_size block_size) then (None, f_end_off)
  else if truth (getdiskblock_too_far block_size f_end_off) then (None, f_end_off)
  else (Some f_end_off, add32 f_end_off (getdiskblock_incr block_size)).

(** the same without the end-of-file guard (the code before the repair): kept for the refutation witness *)
Definition m_getdiskblock_unguarded (f_end_off block_size : Z) : option Z * Z :=
  if truth (getdiskblock_bad_size block_size) then (None, f_end_off)
  else (Some f_end_off, add32 f_end_off (getdiskblock_incr block_size)).

(** hfile.c Hwrite, ordinary (non-special) element.  State: position, element length, end of file.
    [at_eof]: the element is the last thing in the file (data_len + data_off == f_end_off).
    Result: None = FAIL (state unchanged); Some (posn', data_len', f_end_off'). *)
Inductive hw_result := HwFail | HwConvert | HwOk (posn data_len f_end_off : Z).
Definition m_hwrite (appendable : bool) (posn length data_off data_len f_end_off : Z) : hw_result :=
  let app := if appendable then 1 else 0 in
  if truth (hwrite_past_elem_max length posn) then HwFail
  else if truth (hwrite_bad_request length app posn data_len) then HwFail
  else
    if truth (hwrite_extends app length posn data_len) then
      if negb (add32 data_len data_off =? f_end_off) then HwConvert    (* promoted to linked blocks: HLPwrite *)
      else if truth (hwrite_past_file_max posn length data_off) then HwFail
      else
        let len' := add32 posn length in                 (* HTPupdate(ddid, -2, posn + length) *)
        let cur := add32 (add32 posn data_off) length in (* HPseek(posn + data_off); HP_write(length) *)
        HwOk (add32 posn length) len' (if f_end_off <? cur then cur else f_end_off)
    else
      let cur := add32 (add32 posn data_off) length in
      HwOk (add32 posn length) data_len (if f_end_off <? cur then cur else f_end_off).

(** hblocks.c HLPwrite bookkeeping after [bytes_written] bytes went out (reached only through Hwrite's guard) *)
Definition m_hlpwrite_length (posn bytes_written info_length : Z) : Z * Z :=
  let tmp := add32 bytes_written posn in
  (add32 posn bytes_written, if info_length <? tmp then tmp else info_length).

(** hfiledd.c HTPstart: end_off after reading one DD block at [myoffset] holding [dds] = (offset, length) pairs *)
Definition m_endoff (myoffset ndds : Z) (dds : list (Z * Z)) : Z :=
  let blk := htpstart_blk_end myoffset ndds in
  let e1 := if 0 <? blk then blk else 0 in
  fold_left (fun e p => let s := htpstart_dd_end (fst p) (snd p) in if e <? s then s else e) dds e1.

(** hfiledd.c HTIupdate_dd: f_end_off after a descriptor changed *)
Definition m_update_dd_eof (offset length f_end_off : Z) : Z :=
  if negb (offset =? INVALID_OFFSET) && negb (length =? INVALID_LENGTH) && (f_end_off <? htiupdate_dd_end offset length)
  then htiupdate_dd_end offset length else f_end_off.

(** vgp.c vinsertpair: (new count | FAIL, nvelt afterwards); nvelt is a uint16 field *)
Definition m_vinsertpair (nvelt : Z) : option Z * Z :=
  if truth (vinsertpair_full nvelt) then (None, nvelt)
  else let n' := u16 (vinsertpair_counter nvelt + 1) in (Some n', n').
Definition m_vinsertpair_unguarded (nvelt : Z) : option Z * Z :=
  let n' := u16 (vinsertpair_counter nvelt + 1) in (Some n', n').

(** vgp.c Vsetname / Vsetclass followed by vpackvg: the 16-bit length field written for a name of [len] characters *)
Definition m_vsetname (len : Z) : option Z :=
  if truth (vsetname_too_long len) then None else Some (vpackvg_len16 len).
Definition m_vsetclass (len : Z) : option Z :=
  if truth (vsetclass_too_long len) then None else Some (vpackvg_len16 len).

(** vg.c VSsetname / VSsetclass: number of characters stored in the fixed buffer *)
Definition m_vssetname (slen : Z) : Z := if vssetname_limit <? slen then vssetname_copied else slen.
Definition m_vssetclass (slen : Z) : Z := if vssetclass_limit <? slen then vssetclass_copied else slen.

(** vsfld.c VSfdefine: the stored (isize, order), both uint16 fields; [ntsize] = DFKNTsize(localtype) as int16 *)
Definition m_vsfdefine (ntsize order : Z) : option (Z * Z) :=
  if truth (vsfdefine_bad_order order) then None
  else if (ntsize =? -1) || truth (vsfdefine_too_big ntsize order) then None
  else Some (u16 ntsize, u16 order).

(** vsfld.c VSsetfields, building the write list: fields are (order, isize) of user-defined fields, or [None] for a
    predefined field (order 1, isize SIZE_FLOAT32).  Result: (n, ivsize) -- (0, 0) with [false] when refused. *)
Fixpoint m_setfields_loop (fs : list (option (Z * Z))) (n ivsize : Z) : option (Z * Z) :=
  match fs with
  | [] => Some (n, ivsize)
  | f :: t =>
      let '(order, isz) := match f with Some p => p | None => (1, SIZE_FLOAT32) end in
      let value := vssetfields_isize order isz in
      if truth (vssetfields_too_big value) then None
      else
        let isize := u16 value in
        let value2 := vssetfields_sum ivsize isize in
        if truth (vssetfields_too_big value2) then None
        else m_setfields_loop t (n + 1) (vssetfields_store value2)
  end.
Definition m_vssetfields (fs : list (option (Z * Z))) : bool * (Z * Z) :=
  let ac := Z.of_nat (length fs) in
  if truth (scanattrs_full (ac - 1)) then (false, (0, 0))        (* scanattrs: the last token does not fit *)
  else if truth (vssetfields_too_many ac) then (false, (0, 0))
  else match m_setfields_loop fs 0 0 with
       | Some r => (true, r)
       | None => (false, (0, 0))                                   (* the half-built list is released *)
       end.

(** vrw.c VSseek: byte offset handed to Hseek *)
Definition m_vsseek (ivsize eltpos : Z) : option Z :=
  if eltpos <? 0 then None
  else if truth (vsseek_too_far ivsize eltpos) then None
  else Some (vsseek_offset eltpos ivsize).
Definition m_vsseek_unguarded (ivsize eltpos : Z) : option Z :=
  if eltpos <? 0 then None else Some (vsseek_offset eltpos ivsize).

(** vrw.c VSwrite / VSread: total_bytes *)
Definition m_vswrite_total (hdf_size nelt : Z) : option Z :=
  if nelt <=? 0 then None
  else if truth (vswrite_too_many hdf_size nelt) then None
  else Some (vswrite_total hdf_size nelt).
Definition m_vsread_total (hsize nelt : Z) : option Z :=
  if truth (vsread_too_many hsize nelt) then None
  else Some (vsread_total hsize nelt).

(** hfiledd.c Hnewref, fast path: the next ref (uint16 ++maxref) while maxref < MAX_REF; [None] = search / exhausted *)
Definition m_newref_next (maxref : Z) : option Z :=
  if truth (hnewref_has_next maxref) then Some (u16 (maxref + 1)) else None.
(** hfiledd.c Htagnewref: [next] = bv_find_next_zero of the tag's bit vector (-1 = FAIL) *)
Definition m_tagnewref (next : Z) : option Z :=
  if (next =? -1) || truth (htagnewref_none_left next) then None else Some (u16 next).

(** mfsd.c SDcreate / string.c NC_new_string: accepted rank, accepted name length *)
Definition m_sdcreate_ok (rank namelen : Z) : bool :=
  negb (truth (sdcreate_bad_rank rank)) && negb (truth (ncstring_too_long namelen)).

(** file.c NC_reset_maxopenfiles on an allocated list: (returned size, list afterwards).  [slots] = the list of
    positions, [Some k] = file k is open there. *)
Fixpoint highest (l : list (option Z)) (i hi : Z) : Z :=
  match l with [] => hi | Some _ :: t => highest t (i + 1) i | None :: t => highest t (i + 1) hi end.
Fixpoint resize (l : list (option Z)) (n : nat) : list (option Z) :=
  match n with
  | O => []
  | S m => match l with [] => None :: resize [] m | x :: t => x :: resize t m end
  end.
Definition m_reset_maxopen (req_max sys_limit curr_opened : Z) (slots : list (option Z)) : Z * list (option Z) :=
  let size := Z.of_nat (length slots) in
  if req_max <? 0 then (-1, slots)
  else if truth (resetmax_keeps req_max curr_opened) then (size, slots)
  else
    let alloc := if truth (resetmax_caps req_max sys_limit) then sys_limit else req_max in
    if truth (resetmax_too_small alloc (highest slots 0 (-1))) then (size, slots)
    else (alloc, resize slots (Z.to_nat alloc)).
(** the list compaction of the code before the repair *)
Definition m_reset_compacting (alloc : Z) (slots : list (option Z)) : list (option Z) :=
  resize (filter (fun o => match o with Some _ => true | None => false end) slots) (Z.to_nat alloc).

(** hfile.c Hseek (ordinary element): the new position, or FAIL.  The origin arithmetic [offset += posn] /
    [offset += data_len] is int32. *)
Definition m_hseek (appendable : bool) (origin offset posn data_len : Z) : option Z :=
  let app := if appendable then 1 else 0 in
  let off1 := if origin =? DF_CURRENT then hseek_from_current offset posn
              else if origin =? DF_END then hseek_from_end offset data_len else offset in
  if truth (hseek_stays off1 posn) then Some posn
  else if truth (hseek_out_of_range off1 app data_len) then None
  else Some off1.

(** hchunks.c HMCPchunkwrite: the ref of a new chunk comes from Htagnewref(DFTAG_CHUNK); 0 = DFE_NOREF *)
Definition m_chunk_ref (next : Z) : option Z :=
  let r := match m_tagnewref next with Some r => r | None => 0 end in
  if truth (chunkwrite_no_ref r) then None else Some r.

(** vio.c vpackvs (no attributes): number of bytes packed; every name is preceded by its length as int16 and the
    buffer pointer advances by that int16 value *)
Definition m_vpackvs_size (fnames : list Z) (namelen classlen : Z) : Z :=
  let n := Z.of_nat (length fnames) in
  2 + 4 + 2 + 2
  + (if 0 <? n then 4 * (2 * n) + fold_right (fun l acc => acc + (2 + vpackvs_fieldname_len16 l)) 0 fnames else 0)
  + (2 + vpackvs_name_len16 namelen) + (2 + vpackvs_class_len16 classlen) + (2 + 2) + (2 + 2) + (2 + 2) + 1.

(** mfsd.c SDsetattr / mfgr.c GRsetattr: an attribute of [count] values of [sz] bytes is accepted (then handed to the
    attribute list, new name or replacement alike) *)
Definition m_sdsetattr (sz count : Z) : bool :=
  negb (truth (sdsetattr_no_values count)) && negb (truth (sdsetattr_too_big count sz)).
Definition m_grsetattr (sz count : Z) : bool :=
  negb (truth (grsetattr_too_big count sz)) && (0 <? count).
