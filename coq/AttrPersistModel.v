(** C10 -- implementation model, part 2: persistence of the SD metadata and the whole-file model.
    No proofs here (AttrPersistProofs.v).

    [store]  = cdf.c hdf_write_xdr_cdf with hdf_write_dim / hdf_write_var / hdf_write_attr, at the level of the HDF
               objects they emit: one Vgroup of class CDF0.0 whose members are the dimension Vgroups (class Dim0.0 /
               UDim0.0, holding a DimVal0.1 Vdata with the size), the variable Vgroups (class Var0.0: dimension
               Vgroups, attribute Vdatas, the SDSVar / CoordVar marker Vdata, the data element, NT, SDD, NDG) and the
               global attribute Vdatas (class Attr0.0, field VALUES).
    [reload] = hdf_read_dims / hdf_read_vars / hdf_read_attrs parsing those objects back.
    [impl_hooks]: the dimension -> coordinate variable lookup BY NAME (SDIgetcoordvar / SDdiminfo / SDgetdimstrs)
               and persistence as [reload] after [store]; [mstep] is the whole-file oracle with these in place of
               the specification's lookup by identity and [normalize].
    Modelled at this level, not below it: Vgroup / Vdata storage itself (C07, C08); refs are represented by the
    object they denote (a dimension Vgroup member of a variable is read back through its NAME, as NC_dimid does;
    the data element by its content); the backward-compatible DimVal0.0 Vdata and the numeric content of SDD / NT
    records are not represented.  Library-chosen dimension names are [DFake n] for "fakeDim<n>" (callers' names
    never start with "fakeDim": the domain of the specification). *)
From Coq Require Import ZArith List Bool.
Require Import H4.gen.Gen_Attr H4.AttrSpec H4.AttrModel.
Import ListNotations.
Local Open Scope Z_scope.

(* ---- the objects in the file ---------------------------------------------------------------------------- *)
(** the DimVal0.1 Vdata of a dimension: named after the dimension as it is called in memory *)
Record dimval := mkDV { dv_name : dname; dv_class : bytes; dv_field : bytes; dv_type : Z; dv_order : Z; dv_nrecs : Z;
                        dv_value : Z (* the one int32 it holds; its byte encoding is C06's subject *) }.
Record dimgroup := mkDG { dg_name : dname; dg_class : bytes; dg_vals : dimval }.

Inductive vmember :=
| VM_Dim (name : dname) (cls : bytes)      (* DIM_TAG: a dimension Vgroup, found again through its name and class *)
| VM_VH (v : avdata)                       (* DFTAG_VH: an attribute Vdata or the SDSVar / CoordVar marker *)
| VM_Data (d : bytes)                      (* DATA_TAG: the data element (here: the scale values) *)
| VM_NT (base cls : Z)                     (* DFTAG_NT: type code (HDFtype & 0xff) and class byte (IEEE / PC / ...) *)
| VM_SDD                                   (* DFTAG_SDD *)
| VM_NDG (ref : Z).                        (* DFTAG_NDG: the variable's reference *)
Definition vm_tag (m : vmember) : Z :=
  match m with VM_Dim _ _ => DIM_TAG | VM_VH _ => ATTR_TAG | VM_Data _ => DATA_TAG | VM_NT _ _ => DFTAG_NT
             | VM_SDD => DFTAG_SDD | VM_NDG _ => DFTAG_NDG end.
Record vargroup := mkVG { vgr_name : dname; vgr_class : bytes; vgr_members : list vmember }.
Inductive topmember := TM_Dim (d : dimgroup) | TM_Var (v : vargroup) | TM_Attr (a : avdata).
Definition tm_tag (m : topmember) : Z := match m with TM_Dim _ => DIM_TAG | TM_Var _ => VAR_TAG | TM_Attr _ => ATTR_TAG end.
Record cdfgroup := mkCDF { cg_class : bytes; cg_members : list topmember }.

(* ---- attributes: hdf_write_attr / hdf_read_attrs ---------------------------------------------------------- *)
(** VHstoredatam(file, "VALUES", values, size, type, name, "Attr0.0", order): DFNT_CHAR values as one record of
    order = count, every other type as count records of order 1; the Vdata name holds VSNAMELENMAX bytes *)
Definition encode_attr (a : attr) : avdata :=
  let ch := a_nt a =? DFNT_CHAR in
  mkAV (vs_setname (a_name a)) _HDF_ATTRIBUTE ATTR_FIELD_NAME (a_nt a)
       (if ch then a_count a else 1) (if ch then 1 else a_count a) (a_data a).
(** hdf_read_attrs: only Vdatas of class Attr0.0; count = records x order *)
Definition decode_attr (v : avdata) : option attr :=
  if beq (av_class v) _HDF_ATTRIBUTE
  then Some (mkAttr (av_name v) (av_type v) (av_nrecs v * av_order v) (av_data v))
  else None.
Fixpoint filter_map {A B} (f : A -> option B) (l : list A) : list B :=
  match l with [] => [] | x :: r => match f x with Some y => y :: filter_map f r | None => filter_map f r end end.

(* ---- dimensions: hdf_write_xdr_cdf (dimension loop) / hdf_write_dim / hdf_read_dims ------------------------- *)
(** NC_string's hash: the sum of the name's 4-byte words (little-endian host) *)
Fixpoint hash_words (fuel : nat) (b : bytes) : Z :=
  match fuel with
  | O => 0
  | S f => match b with [] => 0 | _ => le_unsigned (firstn 4 b) + hash_words f (skipn 4 b) end
  end.
Definition name_hash (n : dname) : Z :=
  match n with
  | DUser b => (hash_words (length b) b) mod 4294967296
  | DFake k => (hash_words 7 FAKE_PREFIX + Z.of_nat k) mod 4294967296     (* stand-in: the digits are not rendered *)
  end.
(** the test of the write loop, "thash == *thashptr && tsize == *tsizeptr && NC_compare_string(A->name, B->name) == 0",
    with A and B as the source has them (0 = the current entry, 1 = the earlier one; regenerated) *)
Definition pick (i : Z) (cur prev : dimo) : dimo := if i =? 0 then cur else prev.
Definition same_dim (cur prev : dimo) : bool :=
  (name_hash (d_name cur) =? name_hash (d_name prev)) && (d_size cur =? d_size prev)
  && dname_eqb (d_name (pick DEDUPE_CMP_L cur prev)) (d_name (pick DEDUPE_CMP_R cur prev)).
(** "make sure we don't duplicate dimensions": an entry equal in name and size to an earlier entry is skipped *)
Fixpoint dedupe_from (l seen : list dimo) : list dimo :=
  match l with
  | [] => []
  | d :: r => if existsb (same_dim d) seen then dedupe_from r seen else d :: dedupe_from r (d :: seen)
  end.
Definition dedupe (l : list dimo) : list dimo := dedupe_from l [].
(** the dimension objects the slots of the table denote, in table order *)
Definition slot_objs (c : sdcore) : list dimo := map (fun k => nth k (s_dims c) dim0) (s_slots c).
Definition dim_class (d : dimo) : bytes := if d_size d =? NC_UNLIMITED then _HDF_UDIMENSION else _HDF_DIMENSION.
(** hdf_write_dim: an unnamed dimension is written as "fakeDim<number of dimensions written so far>" *)
Definition write_name (d : dimo) (cnt : nat) : dname := match d_name d with DFake _ => DFake cnt | n => n end.
Fixpoint write_dims (l : list dimo) (cnt : nat) : list dimgroup :=
  match l with
  | [] => []
  | d :: r => mkDG (write_name d cnt) (dim_class d)
                   (mkDV (d_name d) DIM_VALS01 DIMVAL_FIELD DFNT_INT32 1 1 (d_size d))
              :: write_dims r (S cnt)
  end.
(** the name under which the Vgroup of dimension object [d] was written (hdf_get_ref follows its vgid) *)
Definition written_name (objs : list dimo) (d : dimo) : dname :=
  match first_idx (same_dim d) (dedupe objs) with Some j => write_name d j | None => d_name d end.

Definition read_dim (g : dimgroup) : option dimo :=
  if beq (dg_class g) _HDF_UDIMENSION then Some (mkDim (dg_name g) NC_UNLIMITED)
  else if beq (dg_class g) _HDF_DIMENSION
       then (if beq (dv_class (dg_vals g)) DIM_VALS01 then Some (mkDim (dg_name g) (dv_value (dg_vals g))) else None)
       else None.

(* ---- variables: hdf_write_var / hdf_read_vars ---------------------------------------------------------------- *)
Definition kind_marker (k : vkind) : avdata :=
  match k with
  | KSds => mkAV [] _HDF_SDSVAR SDSVAR_FIELD DFNT_FLOAT32 1 0 []
  | KCoord => mkAV [] _HDF_CRDVAR CRDVAR_FIELD DFNT_FLOAT32 1 0 []
  end.
(** hdf_write_var: the class byte of the number-type record -- DFNTF_PC when the little-endian bit is set in the field
    the source tests (0 = HDFtype, 1 = the nc_type), else DFNTF_IEEE (native types are outside the domain);
    hdf_read_vars: HDFtype = type code, with DFNT_LITEND added when the class is DFNTF_PC *)
Definition nt_class (hdftype : Z) : Z :=
  let tested := if NT_LITEND_FIELD =? 0 then hdftype else match nc_type hdftype with Some t => t | None => 0 end in
  if Z.land tested DFNT_LITEND =? 0 then DFNTF_IEEE else DFNTF_PC.
Definition nt_decode (base cls : Z) : Z := if cls =? DFNTF_PC then Z.lor base DFNT_LITEND else base.
Definition store_var (c : sdcore) (v : var) : vargroup :=
  let objs := slot_objs c in
  let obj (sl : nat) := match slot_dim c sl with Some k => nth k (s_dims c) dim0 | None => dim0 end in
  mkVG (v_name v) _HDF_VARIABLE
       (map (fun sl => VM_Dim (written_name objs (obj sl)) (dim_class (obj sl))) (v_dims v)
        ++ map (fun a => VM_VH (encode_attr a)) (v_attrs v)
        ++ [VM_VH (kind_marker (v_kind v))]
        ++ (match v_scale v with Some d => [VM_Data d] | None => [] end)
        ++ [VM_NT (Z.land (v_nt v) 255) (nt_class (v_nt v)); VM_SDD; VM_NDG (v_ref v)]).

(** NC_dimid: the first dimension of that name *)
Definition dimid (ds : list dimo) (n : dname) : nat :=
  match first_idx (fun d => dname_eqb (d_name d) n) ds with Some j => j | None => O end.
Definition dimid_opt (ds : list dimo) (n : dname) : option nat := first_idx (fun d => dname_eqb (d_name d) n) ds.

Fixpoint last_kind (ms : list vmember) (acc : vkind) : vkind :=
  match ms with
  | [] => acc
  | VM_VH v :: r => last_kind r (if beq (av_class v) _HDF_CRDVAR then KCoord else KSds)
  | _ :: r => last_kind r acc
  end.
Definition read_var (ds : list dimo) (g : vargroup) : var :=
  let ms := vgr_members g in
  let kind := last_kind ms KSds in
  mkVar (vgr_name g) kind
        (fold_right (fun m acc => match m with VM_NT b cl => nt_decode b cl | _ => acc end) 0 ms)
        (filter_map (fun m => match m with
                              | VM_Dim n cls => if beq cls _HDF_DIMENSION || beq cls _HDF_UDIMENSION then Some (dimid ds n) else None
                              | _ => None end) ms)
        (filter_map (fun m => match m with VM_VH v => decode_attr v | _ => None end) ms)
        (fold_right (fun m acc => match m with VM_Data d => Some d | _ => acc end) None ms)
        (match kind with KCoord => dimid_opt ds (vgr_name g) | KSds => None end)
        (fold_right (fun m acc => match m with VM_NDG r => r | _ => acc end) 0 ms).

(* ---- the whole metadata -------------------------------------------------------------------------------------- *)
Definition store (c : sdcore) : cdfgroup :=
  mkCDF _HDF_CDF
        (map TM_Dim (write_dims (dedupe (slot_objs c)) 0)
         ++ map (fun v => TM_Var (store_var c v)) (s_vars c)
         ++ map (fun a => TM_Attr (encode_attr a)) (s_gattrs c)).

Definition reload (g : cdfgroup) : sdcore :=
  let ms := cg_members g in
  let ds := dedupe (filter_map (fun m => match m with TM_Dim d => read_dim d | _ => None end) ms) in
  mkSd (filter_map (fun m => match m with TM_Attr a => decode_attr a | _ => None end) ms)
       (filter_map (fun m => match m with
                             | TM_Var v => if beq (vgr_class v) _HDF_VARIABLE then Some (read_var ds v) else None
                             | _ => None end) ms)
       ds
       (seq 0 (length ds)).

(* ---- the implementation's hooks and the whole-file model ---------------------------------------------------- *)
(** SDIgetcoordvar / SDdiminfo / SDgetdimstrs: a variable of rank 1, of the dimension's name, that is a
    coordinate variable *)
Definition is_coord_named (n : dname) (v : var) : bool :=
  match v_kind v with KCoord => Nat.eqb (length (v_dims v)) 1 && dname_eqb n (v_name v) | KSds => false end.
Definition coord_by_name (c : sdcore) (k : nat) : option nat :=
  match nth_error (s_dims c) k with
  | Some dm => first_idx (is_coord_named (d_name dm)) (s_vars c)
  | None => None
  end.
Definition persist (c : sdcore) : sdcore := reload (store c).
Definition impl_hooks := mkHooks coord_by_name persist.
Definition mstep := step_with impl_hooks.

(* ---- SDsetdimscale over an existing scale (finding 2): the coordinate variable's data element --------------- *)
(** the coordinate variable's type and its fixed-length data element; SDIgetcoordvar retypes first, then NCvario
    writes [count] elements of the new size into the element, which cannot grow *)
Record scalevar := mkSV { sv_nt : Z; sv_elem : option bytes }.
Definition setdimscale_model (v : scalevar) (nt : Z) (data : bytes) : scalevar * bool :=
  let v1 := mkSV nt (sv_elem v) in                              (* the type is switched before the write *)
  match sv_elem v with
  | None => (mkSV nt (Some data), true)
  | Some old => if zlen data <=? zlen old
                then (mkSV nt (Some (data ++ skipn (length data) old)), true)
                else (v1, false)                                 (* write past the end of the element: FAIL *)
  end.
