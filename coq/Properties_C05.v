(** C05 -- Lossless coders and bit-level I/O round-trip every byte stream.
    Property theorems only; each is closed by [exact] of a lemma from CompRleProofs.v / CompCodecProofs.v.

    Full strength: run-length coder (every byte list, every partition into write calls, every sequence of reads
    and forward/backward seeks, also on top of an older longer stream = rewrite from the start); compression
    header; n-bit field extraction and mask construction over their complete finite domains.
    n-bit (nbit_roundtrip) and skipping Huffman (skphuff_roundtrip) are full strength since the deepening round.
    Bit I/O (Hbitwrite / flush / Hbitread / Hbitseek bit manipulation, widths 1..32): full strength at the level of
    the byte stream (bitio_roundtrip, bitio_same_widths). *)
From Coq Require Import ZArith List Bool String Lia.
Require Import H4.gen.Gen_Comp H4.CompSpec H4.CompRleModel H4.CompRleProofs H4.CompCodecModel H4.CompCodecProofs
  H4.CompBitioProofs H4.CompBitbufModel H4.CompBitbufProofs H4.CompNbitProofs H4.CompSkpProofs H4.CompNbitFullProofs H4.CompNbitFinalProofs.
Import ListNotations.
Local Open Scope Z_scope.
Notation concat := List.concat.

(** Run-length coder: for EVERY list of write calls (any partition) over bytes, EVERY sequence of reads and
    forward/backward seeks that stays inside the element, and EVERY tail [rest] left in the compressed element
    by an earlier, longer stream (rewrite in full from the start), the reads on the stream produced by the
    encoder + HCIcrle_term return exactly what the byte-array specification returns. *)
Theorem rle_roundtrip : forall (calls : list (list Z)) (ops : list rop) (rest : list Z),
  Forall (Forall byte) calls ->
  reads_in_range (zlen (concat calls)) 0 ops = true ->
  let stream := rle_write_session calls ++ rest in
  rle_run_reads stream (rle_dec_init stream) ops = Some (spec_run_reads (concat calls) 0 ops).
Proof. exact rle_roundtrip_lemma. Qed.
Print Assumptions rle_roundtrip.

(** The compressed stream does not depend on how the writes were partitioned into calls. *)
Theorem rle_partition_irrelevant : forall calls1 calls2,
  concat calls1 = concat calls2 -> rle_write_session calls1 = rle_write_session calls2.
Proof. exact rle_partition_irrelevant_lemma. Qed.
Print Assumptions rle_partition_irrelevant.

(** Every emitted packet respects the format limits (runs 3..130, mixes 1..128) and its control byte fits a
    byte with the run bit set / clear (the 127/128 boundaries). *)
Theorem rle_run_limits : forall calls, Forall (Forall byte) calls ->
  exists ps, rle_write_session calls = flat_ser ps /\ flat_exp ps = concat calls /\
    Forall (fun p => match p with
                     | PRun n b => 3 <= n <= 130 /\ 128 <= 128 + (n - 3) <= 255
                     | PMix l => 1 <= zlen l <= 128 /\ 0 <= zlen l - 1 <= 127
                     end) ps.
Proof. exact rle_run_limits_lemma. Qed.
Print Assumptions rle_run_limits.

(** The whole-stream decoder the check runs on raw DFTAG_COMPRESSED bytes inverts the encoder. *)
Theorem rle_raw_stream_decodes : forall calls rest, Forall (Forall byte) calls ->
  rle_decode_all (rle_write_session calls ++ rest) (zlen (concat calls)) = Some (concat calls).
Proof. exact rle_decode_all_lemma. Qed.
Print Assumptions rle_raw_stream_decodes.

(** Compression header: decoding what HCPencode_header writes (layouts regenerated from hcomp.c) returns the
    model type, the coder and every parameter, and the length is what HCPquery_encode_header reports. *)
Theorem comp_header_roundtrip : forall coder p rest, params_ok coder p ->
  hdr_decode (hdr_encode COMP_MODEL_STDIO coder p ++ rest) = (COMP_MODEL_STDIO, coder, p) /\
  zlen (hdr_encode COMP_MODEL_STDIO coder p) = hdr_query_len coder.
Proof. exact hdr_roundtrip_lemma. Qed.
Print Assumptions comp_header_roundtrip.

(** n-bit, per byte (complete finite domain: offsets 0..7, lengths 1..offset+1, all 256 bytes, both fills): the
    field the encoder hands to Hbitwrite fits its width, and re-inserting it over the fill pattern gives the
    kept bits of the byte or-ed with the fill -- the documented projection of that byte. *)
Theorem nbit_byte_projection : forall off len b fill,
  0 <= off < 8 -> 1 <= len <= off + 1 -> 0 <= b < 256 -> nbit_byte_case off len b fill = true.
Proof. exact nbit_byte_roundtrip_lemma. Qed.
Print Assumptions nbit_byte_projection.

(** n-bit, FULL STRENGTH: for every configuration (number-type size 1, 2, 4, 8; every start bit and bit length; sign
    extension and fill-one on or off) and every list of whole values, decoding the stream produced by the encoder
    returns exactly the documented projection of every value (field kept, low bits filled with fill_one, high bits
    with the field's top bit when sign_ext, else with fill_one).  The proof composes the mask construction of
    HCIcnbit_init, the per-byte field extraction / re-insertion, the bit stream (bitio_roundtrip), the control
    structure of the decoder's value and byte loops and the sign-extension step. *)
Theorem nbit_roundtrip : forall size start len se fo values,
  In size [1; 2; 4; 8] -> 0 <= start < 8 * size -> 1 <= len <= start + 1 ->
  Forall (fun v => zlen v = size /\ Forall byte v) values ->
  let c := mk_nbit size start len se fo in
  nbit_decode c (nbit_encode c (concat values)) (zlen values) = Some (nbit_project size start len se fo (concat values)).
Proof. exact nbit_roundtrip_lemma. Qed.
Print Assumptions nbit_roundtrip.

(** n-bit, mask table (complete finite domain: sizes 1,2,4,8 x every start bit x every length): the table built
    by the loop of HCIcnbit_init is the big-endian byte image of the documented field mask
    [ones(len) << (start-len+1)], every entry has the per-byte shape above, the lengths add up to bit_len.
    (Formerly nbit_projection_partial; now an ingredient of nbit_roundtrip, kept for the record.) *)
Theorem nbit_mask_table : forall size start len,
  In size [1; 2; 4; 8] -> 0 <= start < 8 * size -> 1 <= len <= start + 1 -> nbit_cfg_case size start len = true.
Proof. exact nbit_masks_lemma. Qed.
Print Assumptions nbit_mask_table.

(** n-bit bit-stream lemma: for every valid configuration and every byte list, reading the stream produced by the
    n-bit encoder with the widths of the mask table returns exactly the fields the encoder extracted. *)
Theorem nbit_bitstream : forall size start len se fo bytes,
  In size [1; 2; 4; 8] -> 0 <= start < 8 * size -> 1 <= len <= start + 1 -> Forall byte bytes ->
  let c := mk_nbit size start len se fo in
  let fields := nbit_encode_fields (nbit_mask_info c) (nbit_mask_info c) bytes in
  br_run (nbit_encode c bytes) (bitr_init (nbit_encode c bytes)) (map (fun w => BOr (fst w)) fields) = Some (map snd fields).
Proof. exact nbit_bitstream_lemma. Qed.
Print Assumptions nbit_bitstream.

(** Skipping Huffman, full strength.  The tree invariant [twf] (the 512 nodes occupy the 512 child slots, [up] is the
    inverse of left/right, every node reaches ROOT along the parent pointers) holds for the initial tree and is
    preserved by the semi-splay for every symbol; in every such tree the walk down from ROOT along the code of a
    symbol reaches that symbol's leaf and consumes exactly the code (fuel 600 is never exhausted: the walk to ROOT
    visits distinct nodes, so it is shorter than 512). *)
Theorem skphuff_tree_invariant : twf tree_init /\
  forall t b suffix, twf t -> 0 <= b < 256 ->
    skp_walk_down 600 t ROOT (skp_code t b ++ suffix) = Some (b, suffix) /\ twf (skp_splay t b).
Proof. exact (conj tree_init_twf skp_code_decodes_lemma). Qed.
Print Assumptions skphuff_tree_invariant.

(** Round trip: for EVERY byte list and EVERY skip size >= 1 the decoder returns the bytes that were encoded (the
    decoder is asked for exactly that many symbols; no fuel is exhausted). *)
Theorem skphuff_roundtrip : forall skip bytes, 1 <= skip -> Forall byte bytes ->
  skp_decode skip (skp_encode skip bytes) (zlen bytes) = Some bytes.
Proof. exact skp_roundtrip_lemma. Qed.
Print Assumptions skphuff_roundtrip.

(** The same on the bit stream with anything behind it (further symbols of later write calls, padding). *)
Theorem skphuff_prefix_roundtrip : forall skip bytes more, 1 <= skip -> Forall byte bytes ->
  skp_decode_bits (List.length bytes) (repeat tree_init (Z.to_nat skip)) 0
    (skp_encode_bits (repeat tree_init (Z.to_nat skip)) 0 bytes ++ more) = Some bytes.
Proof. exact skp_prefix_lemma. Qed.
Print Assumptions skphuff_prefix_roundtrip.

(** Earlier partial results, now corollaries kept for the record: every symbol from the initial tree (finite
    sweep), and the lock-step induction step. *)
Theorem skphuff_first_symbol : forall c, 0 <= c < 256 -> skp_first_symbol_case c = true.
Proof. exact skp_first_symbol_lemma. Qed.
Print Assumptions skphuff_first_symbol.

Theorem skphuff_lockstep : forall trees pos b rest bits n,
  (forall suffix, skp_walk_down 600 (nth pos trees tree_init) ROOT (skp_code (nth pos trees tree_init) b ++ suffix)
                  = Some (b, suffix)) ->
  skp_decode_bits (S n) trees pos (skp_encode_bits trees pos (b :: rest) ++ bits) =
  match skp_decode_bits n (firstn pos trees ++ skp_splay (nth pos trees tree_init) b :: skipn (S pos) trees)
          (Nat.modulo (S pos) (List.length trees))
          (skp_encode_bits (firstn pos trees ++ skp_splay (nth pos trees tree_init) b :: skipn (S pos) trees)
             (Nat.modulo (S pos) (List.length trees)) rest ++ bits) with
  | None => None
  | Some r => Some (b :: r)
  end.
Proof. exact skp_lockstep_lemma. Qed.
Print Assumptions skphuff_lockstep.

(** Deflate: zlib is external code; under the stated hypothesis about it the session round-trips. *)
Theorem deflate_roundtrip_under_zlib :
  forall (zdeflate : Z -> list Z -> list Z) (zinflate : list Z -> option (list Z)),
  (forall lvl s, zinflate (zdeflate lvl s) = Some s) ->
  forall lvl calls, 0 <= lvl <= 9 -> zinflate (deflate_write_session zdeflate lvl calls) = Some (concat calls).
Proof. exact deflate_roundtrip_lemma. Qed.
Print Assumptions deflate_roundtrip_under_zlib.

(** Position bookkeeping of hcomp.c: where Hseek lands for each origin (DF_START / DF_CURRENT / DF_END: relative to the
    length of the UNCOMPRESSED data) and which length Hread uses (0 = to the end; beyond the end is refused) -- the
    expressions regenerated from HCPseek / HCPread equal the rules of the specification (CompSpec.seek_target, s_step). *)
Theorem seek_origin_refines : forall origin off pos len, In origin [DF_START; DF_CURRENT; DF_END] ->
  seek_target origin off pos len = Some (hcp_seek_offset origin off pos len) /\
  (hcp_seek_rejects (hcp_seek_offset origin off pos len) = true <->
   match seek_target origin off pos len with Some t => t < 0 | None => True end).
Proof. exact seek_origin_lemma. Qed.
Print Assumptions seek_origin_refines.

Theorem read_rule_refines : forall n pos len, 0 <= pos <= len -> 0 <= n ->
  let k := if n =? 0 then len - pos else n in
  hcp_read_length n pos len = k /\ hcp_read_rejects n pos len = negb ((0 <=? k) && (pos + k <=? len)).
Proof. exact read_rule_lemma. Qed.
Print Assumptions read_rule_refines.

(** A seek to the CURRENT position never restarts a stream coder (RLE, skipping Huffman, deflate: the tests are
    regenerated from the three seek routines; the RLE model uses its test), so sequential writes with such seeks in
    between are plain sequential writes. *)
Theorem seek_to_current_position_keeps_stream : forall offset cur,
  (rle_seek_restarts offset cur <> 0 <-> offset < cur) /\
  (skp_seek_restarts offset cur <> 0 <-> offset < cur) /\
  (deflate_seek_restarts offset cur <> 0 <-> offset < cur).
Proof. exact seek_restart_lemma. Qed.
Print Assumptions seek_to_current_position_keeps_stream.

(** Hbitwrite has two copies of its "buffer is full" code (partial-byte path and whole-byte loop); they are the same
    statement list, in which block_offset is advanced before the pre-read of the next block and the final Hseek back
    to it.  (The write-side block buffer is not modelled further; this ties the two copies to each other.) *)
Theorem hbitwrite_full_blocks_agree :
  hbitwrite_full_block_1 = hbitwrite_full_block_2 /\ hbitwrite_block_ok hbitwrite_full_block_1 = true.
Proof. exact hbitwrite_full_blocks_lemma. Qed.
Print Assumptions hbitwrite_full_blocks_agree.

(** Bit-granular I/O: ANY sequence of Hbitwrite(count_i, v_i) with 1 <= count_i <= 32 followed by the flush, read
    back with ANY sequence of Hbitread widths 1..32 (any re-partition) and Hbitseek(byte, bit) positions that stay
    inside the written bits, returns exactly what the bit-array specification returns (CompSpec.b_step: a read
    is [bits_value] of the next [count] bits of the concatenated written fields, a seek sets the position). *)
Theorem bitio_roundtrip : forall (ws : list (Z * Z)) (ops : list bop),
  Forall wr_ok ws -> bops_ok (stream_len ws) 0 ops = true ->
  let bytes := bw_flush (bw_writes bitw_init ws) in
  br_run bytes (bitr_init bytes) ops = Some (spec_bit_run (ws_bits ws) 0 ops).
Proof. exact bitio_roundtrip_lemma. Qed.
Print Assumptions bitio_roundtrip.

(** In particular, reading with the widths that were written returns every value modulo 2^width. *)
Theorem bitio_same_widths : forall ws, Forall wr_ok ws ->
  let bytes := bw_flush (bw_writes bitw_init ws) in
  br_run bytes (bitr_init bytes) (map (fun w => BOr (fst w)) ws) = Some (map (fun w => snd w mod 2 ^ fst w) ws).
Proof. exact bitio_same_widths_lemma. Qed.
Print Assumptions bitio_same_widths.

(** Reads and seeks over ANY stored byte list (e.g. one written by another coder) return the bit fields of the
    big-endian integer the bytes denote. *)
Theorem bitio_reads_any_bytes : forall bytes, Forall byte bytes -> forall ops s p, br_at bytes s p -> 0 <= p ->
  bops_ok (8 * zlen bytes) p ops = true ->
  br_run bytes s ops = Some (field_run (be_value bytes) (8 * zlen bytes) p ops).
Proof. exact br_run_fields. Qed.
Print Assumptions bitio_reads_any_bytes.

(** The block buffer of the bit reader (Hstartbitread pre-read, the refill inside Hbitread with its block_offset /
    buf_read bookkeeping, Hbitseek within the buffered block or into another 4096-byte block): for EVERY stored
    element of at least one byte and EVERY sequence of reads (widths 1..32) and bit seeks inside it, the values
    delivered are the bit fields of the stored bytes. *)
Theorem bitbuf_reads : forall elt ops, Forall byte elt -> 0 < zlen elt ->
  bops_ok (8 * zlen elt) 0 (map to_bop ops) = true ->
  bb_run elt (bb_start elt) ops = Some (field_run (be_value elt) (8 * zlen elt) 0 (map to_bop ops)).
Proof. exact bitbuf_reads_lemma. Qed.
Print Assumptions bitbuf_reads.

(** Non-vacuity: the hypotheses are met by concrete, non-trivial states. *)
Example bitio_domain_example :
  let ws := [(3, 5); (13, 4097); (32, 4294967295); (1, 0); (7, 200)] in
  let ops := [BOr 4; BOr 12; BOs 1 3; BOr 32; BOs 0 0; BOr 3; BOr 13; BOs 6 1; BOr 7] in
  Forall wr_ok ws /\ bops_ok (stream_len ws) 0 ops = true /\
  br_run (bw_flush (bw_writes bitw_init ws)) (bitr_init (bw_flush (bw_writes bitw_init ws))) ops
    = Some [11; 1; 268435455; 5; 4097; 72].
Proof. repeat split; try (vm_compute; reflexivity). repeat constructor; cbn; lia. Qed.

Example rle_domain_example :
  let calls := [[1; 1]; [1; 1; 2; 2; 2]; [9]] in
  let ops := [RRead 3; RSeek 6; RRead 2; RSeek 1; RRead 7] in
  Forall (Forall byte) calls /\ reads_in_range (zlen (concat calls)) 0 ops = true /\
  rle_write_session calls = [129; 1; 128; 2; 0; 9] /\
  rle_run_reads (rle_write_session calls ++ [77]) (rle_dec_init (rle_write_session calls ++ [77])) ops
    = Some [[1; 1; 1]; []; [2; 9]; []; [1; 1; 1; 2; 2; 2; 9]].
Proof. repeat split; try reflexivity. repeat constructor; unfold byte; vm_compute; intuition discriminate. Qed.

Example header_domain_example : params_ok COMP_CODE_NBIT [24; 1; 0; 7; 4] /\
  hdr_encode COMP_MODEL_STDIO COMP_CODE_NBIT [24; 1; 0; 7; 4] = [0;0; 0;2; 0;0;0;24; 0;1; 0;0; 0;0;0;7; 0;0;0;4].
Proof.
  split; [|reflexivity]. right; right; right; right. split; [reflexivity|].
  exists 24, 1, 0, 7, 4. repeat split; try reflexivity; vm_compute; intuition discriminate.
Qed.

Example nbit_example : (In 2 [1; 2; 4; 8] /\ 0 <= 9 < 8 * 2 /\ 1 <= 4 <= 9 + 1 /\
  Forall (fun v => zlen v = 2 /\ Forall byte v) [[1; 255]; [2; 64]]) /\
  nbit_encode (mk_nbit 2 9 4 true true) [1; 255; 2; 64] = [121] /\
  nbit_decode (mk_nbit 2 9 4 true true) [121] 2 = Some [1; 255; 254; 127] /\
  nbit_project 2 9 4 true true [1; 255; 2; 64] = [1; 255; 254; 127].
Proof.
  split; [|vm_compute; repeat split].
  split; [cbn; auto|]. split; [lia|]. split; [lia|].
  repeat constructor; unfold byte; lia.
Qed.

Example skphuff_example : (1 <= 2 /\ Forall byte [5; 5; 5; 200; 5; 0; 255; 255]) /\ skp_decode 2 (skp_encode 2 [5; 5; 5; 200; 5; 0; 255; 255]) 8 = Some [5; 5; 5; 200; 5; 0; 255; 255].
Proof. split; [split; [lia | repeat constructor; unfold byte; lia] | vm_compute; reflexivity]. Qed.
