(** C05 -- placeholder until the theorems are in place (replaced in a later commit). *)
From Coq Require Import ZArith List.
Require Import H4.CompSpec.
Local Open Scope Z_scope.
Theorem c05_stub : zlen (@nil Z) = 0.
Proof. reflexivity. Qed.
Print Assumptions c05_stub.
