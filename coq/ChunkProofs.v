(** C04 -- proofs about the chunk index arithmetic model (ChunkModel.v over gen/Gen_Chunk.v). *)
From Coq Require Import ZArith List Bool Lia String.
Require Import H4.gen.Gen_Chunk H4.ChunkModel.
Import ListNotations.
Local Open Scope Z_scope.

(** The loop headers the hand-written skeleton of ChunkModel.v assumes (direction and bounds of every loop). *)
Lemma skeleton_headers :
  update_chunk_indices_seek_q_loops = ["i = ndims - 1; i >= 0; i--"%string] /\
  calculate_chunk_num_q_loops = ["j = ndims - 2; j >= 0; j--"%string] /\
  calculate_seek_in_chunk_q_loops = ["j = ndims - 2; j >= 0; j--"%string] /\
  compute_array_to_seek_q_loops = ["j = ndims - 2; j >= 0; j--"%string] /\
  update_seek_pos_chunk_q_loops = ["i = ndims - 1; i >= 0; i--"%string] /\
  compute_chunk_to_array_q_loops = ["j = 0; j < ndims; j++"%string] /\
  calculate_chunk_for_chunk_q_loops = [].
Proof. repeat split; reflexivity. Qed.

Definition prod (l : list Z) : Z := fold_right Z.mul 1 l.

(** What HMCcreate establishes for every dimension. *)
Definition valid_dim (d : dimrec) : Prop :=
  1 <= d_len d /\ 1 <= c_len d /\ 1 <= n_chunks d /\
  (n_chunks d - 1) * c_len d < d_len d <= n_chunks d * c_len d /\
  last_len d = d_len d - (n_chunks d - 1) * c_len d.

Lemma mk_dim_valid : forall d c, 1 <= d -> 1 <= c -> valid_dim (mk_dim d c).
Proof.
  intros d c Hd Hc. unfold valid_dim, mk_dim; simpl.
  rewrite Z.rem_mod_nonneg by lia. rewrite Z.quot_div_nonneg by lia.
  pose proof (Z.div_mod d c ltac:(lia)) as E. pose proof (Z.mod_pos_bound d c ltac:(lia)) as B.
  assert (0 <= d / c) by (apply Z.div_pos; lia).
  destruct (d mod c =? 0) eqn:Z0.
  - apply Z.eqb_eq in Z0. rewrite Z0 in *. repeat split; try lia; nia.
  - apply Z.eqb_neq in Z0. repeat split; try lia; nia.
Qed.

Lemma wrap32_small : forall x, -2147483648 <= x < 2147483648 ->
  (x + 2147483648) mod 4294967296 - 2147483648 = x.
Proof. intros. rewrite Z.mod_small; lia. Qed.

Lemma div_self_bounds : forall x c, 0 <= x -> 1 <= c -> 0 <= x / c <= x.
Proof. intros. split. apply Z.div_pos; lia. apply Z.div_le_upper_bound; nia. Qed.

(** closed form of one step of update_chunk_indices_seek *)
Lemma ucis_step : forall c d e, 1 <= c -> 1 <= d -> 0 <= e < 2147483648 ->
  update_chunk_indices_seek_q_sbi_i_0 c d e = (e mod d) / c /\
  update_chunk_indices_seek_q_spb_i_0 c d e = (e mod d) mod c /\
  update_chunk_indices_seek_q_stmp_1 d e = e / d.
Proof.
  intros c d e Hc Hd He.
  unfold update_chunk_indices_seek_q_sbi_i_0, update_chunk_indices_seek_q_spb_i_0, update_chunk_indices_seek_q_stmp_1.
  pose proof (Z.mod_pos_bound e d ltac:(lia)) as B.
  rewrite (Z.rem_mod_nonneg e d) by lia.
  rewrite (Z.quot_div_nonneg (e mod d) c) by lia.
  rewrite (Z.rem_mod_nonneg (e mod d) c) by lia.
  rewrite (Z.quot_div_nonneg e d) by lia.
  pose proof (Z.mod_pos_bound (e mod d) c ltac:(lia)).
  assert (0 <= (e mod d) / c <= e mod d) by (apply div_self_bounds; lia).
  pose proof (Z.mod_le e d ltac:(lia) ltac:(lia)).
  pose proof (Z.mod_le (e mod d) c ltac:(lia) ltac:(lia)).
  repeat split; try reflexivity; apply wrap32_small; lia.
Qed.

Fixpoint ucis_spec (rdd : list dimrec) (e : Z) : list (Z * Z) :=
  match rdd with
  | [] => []
  | d :: r => ((e mod d_len d) / c_len d, (e mod d_len d) mod c_len d) :: ucis_spec r (e / d_len d)
  end.

Lemma ucis_rev_spec : forall rdd e, Forall valid_dim rdd -> 0 <= e < 2147483648 ->
  ucis_rev rdd e = ucis_spec rdd e.
Proof.
  induction rdd as [|d r IH]; intros e Hv He; simpl; [reflexivity|].
  inversion Hv as [|? ? Hd Hr]; subst. destruct Hd as (H1 & H2 & _).
  destruct (ucis_step (c_len d) (d_len d) e H2 H1 He) as (A & B & C).
  rewrite A, B, C. f_equal. apply IH; auto.
  split. apply Z.div_pos; lia. apply Z.div_lt_upper_bound; nia.
Qed.

(** mixed-radix (Horner) value of a digit list *)
Fixpoint horner (l : list (Z * Z)) : Z :=
  match l with
  | [] => 0
  | (v, r) :: t => v + r * horner t
  end.

Lemma acc_loop_horner : forall cs as_,
  (forall c n, cs c n = c * n) -> (forall a c v, as_ a c v = a + v * c) ->
  forall rest prev cnum acc, acc_loop cs as_ prev rest cnum acc = acc + cnum * prev * horner rest.
Proof.
  intros cs as_ Hc Ha. induction rest as [|[v r] tl IH]; intros; simpl.
  - lia.
  - rewrite IH, Hc, Ha. ring.
Qed.

Lemma accumulate_horner : forall cs as_ i0 c0 ifnd rv rr,
  (forall c n, cs c n = c * n) -> (forall a c v, as_ a c v = a + v * c) ->
  (forall v, i0 v = v) -> c0 = 1 -> (forall n, ifnd n = if 1 <? n then 1 else 0) ->
  List.length rv = List.length rr ->
  accumulate cs as_ i0 c0 ifnd rv rr = horner (combine rv rr).
Proof.
  intros cs as_ i0 c0 ifnd rv rr Hc Ha Hi H0 Hf Hl. unfold accumulate.
  destruct rv as [|v0 tv]; destruct rr as [|r0 tr]; simpl in *; try discriminate; [reflexivity|].
  rewrite Hf, Hi. destruct (1 <? Z.pos (Pos.of_succ_nat (List.length tv))) eqn:E; unfold truthy; simpl.
  - rewrite (acc_loop_horner cs as_ Hc Ha). subst c0. ring.
  - apply Z.ltb_ge in E. destruct tv; simpl in *; [|lia]. simpl. ring.
Qed.

Lemma rev_map_rev : forall (A B : Type) (f : A -> B) l, rev (map f (rev l)) = map f l.
Proof. intros. rewrite map_rev, rev_involutive. reflexivity. Qed.

Lemma ucis_rev_length : forall rdd e, List.length (ucis_rev rdd e) = List.length rdd.
Proof. induction rdd; intros; simpl; auto. Qed.

(** chunk_locate in closed form over the reversed dimension list *)
Definition locate_spec (nt : Z) (rdd : list dimrec) (e : Z) : Z * Z :=
  let L := ucis_spec rdd e in
  (horner (combine (map fst L) (map n_chunks rdd)), horner (combine (map snd L) (map c_len rdd)) * nt).

Lemma chunk_locate_spec : forall nt dd pos, 1 <= nt -> Forall valid_dim dd -> 0 <= pos -> pos / nt < 2147483648 ->
  chunk_locate nt dd pos = locate_spec nt (rev dd) (pos / nt).
Proof.
  intros nt dd pos Hn Hv Hp Hb. unfold chunk_locate, update_chunk_indices_seek, locate_spec.
  unfold update_chunk_indices_seek_q_stmp_0. rewrite Z.quot_div_nonneg by lia.
  assert (Hv' : Forall valid_dim (rev dd)) by (apply Forall_rev; auto).
  rewrite ucis_rev_spec; auto.
  2:{ split; [apply Z.div_pos; lia | lia]. }
  set (L := ucis_spec (rev dd) (pos / nt)).
  assert (HL : List.length L = List.length (rev dd)).
  { unfold L. rewrite <- ucis_rev_spec; auto. apply ucis_rev_length. split; [apply Z.div_pos; lia | lia]. }
  unfold calculate_chunk_num, calculate_seek_in_chunk.
  rewrite !rev_map_rev. rewrite <- !map_rev.
  f_equal.
  - apply accumulate_horner; intros;
      unfold calculate_chunk_num_q_cnum_1, calculate_chunk_num_q_chunk_num_1, calculate_chunk_num_q_chunk_num_0,
        calculate_chunk_num_q_cnum_0, calculate_chunk_num_q_if_0;
      first [reflexivity | ring | (rewrite !map_length; auto)].
  - unfold calculate_seek_in_chunk_q_chunk_seek_2. f_equal.
    apply accumulate_horner; intros;
      unfold calculate_seek_in_chunk_q_cnum_1, calculate_seek_in_chunk_q_chunk_seek_1, calculate_seek_in_chunk_q_chunk_seek_0,
        calculate_seek_in_chunk_q_cnum_0, calculate_seek_in_chunk_q_if_0;
      first [reflexivity | ring | (rewrite !map_length; auto)].
Qed.

Lemma radix_unique : forall n a a' b b', 0 <= a < n -> 0 <= a' < n -> a + n * b = a' + n * b' -> a = a' /\ b = b'.
Proof.
  intros n a a' b b' Ha Ha' E.
  destruct (Z.div_mod_unique n b b' a a') as [Q R]; lia.
Qed.

Lemma digit_bounds : forall d e, valid_dim d -> 0 <= e ->
  0 <= (e mod d_len d) / c_len d < n_chunks d /\ 0 <= (e mod d_len d) mod c_len d < c_len d.
Proof.
  intros d e (H1 & H2 & H3 & (H4 & H5) & H6) He.
  pose proof (Z.mod_pos_bound e (d_len d) ltac:(lia)).
  pose proof (Z.mod_pos_bound (e mod d_len d) (c_len d) ltac:(lia)).
  split; [|lia]. split. apply Z.div_pos; lia. apply Z.div_lt_upper_bound; nia.
Qed.

Lemma locate_spec_inj : forall nt rdd e e', 1 <= nt -> Forall valid_dim rdd ->
  0 <= e < prod (map d_len rdd) -> 0 <= e' < prod (map d_len rdd) ->
  locate_spec nt rdd e = locate_spec nt rdd e' -> e = e'.
Proof.
  intros nt rdd e e' Hn Hv. unfold locate_spec.
  revert e e'. induction Hv as [|d r Hd Hr IH]; intros e e' He He' E; simpl in *.
  - unfold prod in *; simpl in *. lia.
  - unfold prod in He, He'; simpl in He, He'. fold (prod (map d_len r)) in He, He'.
    destruct (digit_bounds d e Hd ltac:(lia)) as (B1 & B2).
    destruct (digit_bounds d e' Hd ltac:(lia)) as (B1' & B2').
    destruct Hd as (H1 & H2 & H3 & H45 & H6).
    inversion E as [[E1 E2]]. apply Z.mul_reg_r in E2; [|lia].
    destruct (radix_unique _ _ _ _ _ B1 B1' E1) as (S0 & T1).
    destruct (radix_unique _ _ _ _ _ B2 B2' E2) as (P0 & T2).
    assert (Hm : e mod d_len d = e' mod d_len d).
    { rewrite (Z.div_mod (e mod d_len d) (c_len d)) by lia.
      rewrite (Z.div_mod (e' mod d_len d) (c_len d)) by lia. rewrite S0, P0. reflexivity. }
    assert (Hq : e / d_len d = e' / d_len d).
    { apply IH.
      - split. apply Z.div_pos; lia. apply Z.div_lt_upper_bound; lia.
      - split. apply Z.div_pos; lia. apply Z.div_lt_upper_bound; lia.
      - rewrite T1, T2. reflexivity. }
    rewrite (Z.div_mod e (d_len d)) by lia. rewrite (Z.div_mod e' (d_len d)) by lia. rewrite Hm, Hq. reflexivity.
Qed.

Lemma horner_bounds : forall l, Forall (fun p => 0 <= fst p < snd p) l ->
  0 <= horner l < prod (map snd l).
Proof.
  induction 1 as [|[v r] t Hp Ht IH]; unfold prod in *; simpl in *; [lia|]. nia.
Qed.

Lemma inside_arith : forall nt hs hc PN PC, 1 <= nt -> 0 <= hc < PN -> 0 <= hs < PC ->
  0 <= hc < PN /\ 0 <= hs * nt /\ hs * nt + nt <= PC * nt /\ (nt | hs * nt).
Proof. intros. repeat split; try lia; try nia. exists hs; ring. Qed.

Lemma locate_spec_inside : forall nt rdd e, 1 <= nt -> Forall valid_dim rdd -> 0 <= e ->
  0 <= fst (locate_spec nt rdd e) < prod (map n_chunks rdd) /\
  0 <= snd (locate_spec nt rdd e) /\ snd (locate_spec nt rdd e) + nt <= prod (map c_len rdd) * nt /\
  (nt | snd (locate_spec nt rdd e)).
Proof.
  intros nt rdd e Hn Hv He. unfold locate_spec; simpl.
  assert (A : Forall (fun p => 0 <= fst p < snd p) (combine (map fst (ucis_spec rdd e)) (map n_chunks rdd)) /\
              Forall (fun p => 0 <= fst p < snd p) (combine (map snd (ucis_spec rdd e)) (map c_len rdd)) /\
              map snd (combine (map fst (ucis_spec rdd e)) (map n_chunks rdd)) = map n_chunks rdd /\
              map snd (combine (map snd (ucis_spec rdd e)) (map c_len rdd)) = map c_len rdd).
  { revert e He. induction Hv as [|d r Hd Hr IH]; intros e He; simpl.
    - repeat split; constructor.
    - destruct (digit_bounds d e Hd He) as (B1 & B2).
      destruct Hd as (H1 & _).
      destruct (IH (e / d_len d) ltac:(apply Z.div_pos; lia)) as (I1 & I2 & I3 & I4).
      repeat split; try (constructor; simpl; auto); simpl; f_equal; auto. }
  destruct A as (A1 & A2 & A3 & A4).
  pose proof (horner_bounds _ A1) as B1. pose proof (horner_bounds _ A2) as B2. rewrite A3 in B1. rewrite A4 in B2.
  apply inside_arith; auto.
Qed.

Lemma prod_app : forall a b, prod (a ++ b) = prod a * prod b.
Proof.
  induction a as [|x a IH]; intros b.
  - unfold prod. cbn [app fold_right]. ring.
  - unfold prod in *. cbn [app fold_right]. rewrite IH. ring.
Qed.

Lemma prod_rev : forall l, prod (rev l) = prod l.
Proof.
  induction l as [|x l IH]; [reflexivity|]. cbn [rev]. rewrite prod_app, IH. unfold prod. cbn [fold_right]. ring.
Qed.

Lemma prod_map_rev : forall (f : dimrec -> Z) l, prod (map f (rev l)) = prod (map f l).
Proof. intros. rewrite map_rev. apply prod_rev. Qed.

(** ---- chunk_locate_inj ---- *)
Lemma chunk_locate_inj_lemma : forall nt dd p q,
  1 <= nt -> Forall valid_dim dd -> prod (map d_len dd) * nt < 2147483648 ->
  0 <= p < prod (map d_len dd) -> 0 <= q < prod (map d_len dd) ->
  (chunk_locate nt dd (p * nt) = chunk_locate nt dd (q * nt) -> p = q) /\
  (let cn := fst (chunk_locate nt dd (p * nt)) in let off := snd (chunk_locate nt dd (p * nt)) in
   0 <= cn < prod (map n_chunks dd) /\ 0 <= off /\ off + nt <= prod (map c_len dd) * nt /\ (nt | off)).
Proof.
  intros nt dd p q Hn Hv Hb Hp Hq.
  assert (Ep : p * nt / nt = p) by (apply Z.div_mul; lia).
  assert (Eq : q * nt / nt = q) by (apply Z.div_mul; lia).
  assert (Hv' : Forall valid_dim (rev dd)) by (apply Forall_rev; auto).
  rewrite (chunk_locate_spec nt dd (p * nt)) by (auto; try nia; rewrite Ep; nia).
  rewrite (chunk_locate_spec nt dd (q * nt)) by (auto; try nia; rewrite Eq; nia).
  rewrite Ep, Eq. split.
  - intro E. apply (locate_spec_inj nt (rev dd)); auto; rewrite prod_map_rev; auto.
  - cbv zeta. rewrite <- (prod_map_rev n_chunks), <- (prod_map_rev c_len).
    apply locate_spec_inside; auto; lia.
Qed.

(** ---- chunk_run_contig ---- *)
Definition row_left (rdd : list dimrec) (e : Z) : Z :=
  match rdd with
  | [] => 1
  | d :: _ => let x := e mod d_len d in Z.min (c_len d - x mod c_len d) (d_len d - x)
  end.

Lemma locate_spec_run : forall nt d r e j, 1 <= nt -> valid_dim d -> 0 <= e -> 0 <= j < row_left (d :: r) e ->
  locate_spec nt (d :: r) (e + j) = (fst (locate_spec nt (d :: r) e), snd (locate_spec nt (d :: r) e) + j * nt).
Proof.
  intros nt d r e j Hn Hd He Hj. unfold row_left in Hj. cbv zeta in Hj.
  destruct Hd as (H1 & H2 & H3 & H45 & H6).
  pose proof (Z.mod_pos_bound e (d_len d) ltac:(lia)) as Bx.
  pose proof (Z.mod_pos_bound (e mod d_len d) (c_len d) ltac:(lia)) as Bs.
  assert (M : (e + j) mod d_len d = e mod d_len d + j /\ (e + j) / d_len d = e / d_len d).
  { destruct (Z.div_mod_unique (d_len d) ((e + j) / d_len d) (e / d_len d) ((e + j) mod d_len d) (e mod d_len d + j)) as [Q R].
    - left. apply Z.mod_pos_bound; lia.
    - left. lia.
    - rewrite <- (Z.div_mod (e + j)) by lia. pose proof (Z.div_mod e (d_len d) ltac:(lia)). lia.
    - auto. }
  destruct M as (M1 & M2).
  assert (N : (e mod d_len d + j) / c_len d = (e mod d_len d) / c_len d /\
              (e mod d_len d + j) mod c_len d = (e mod d_len d) mod c_len d + j).
  { destruct (Z.div_mod_unique (c_len d) ((e mod d_len d + j) / c_len d) ((e mod d_len d) / c_len d)
                 ((e mod d_len d + j) mod c_len d) ((e mod d_len d) mod c_len d + j)) as [Q R].
    - left. apply Z.mod_pos_bound; lia.
    - left. lia.
    - rewrite <- (Z.div_mod (e mod d_len d + j)) by lia.
      pose proof (Z.div_mod (e mod d_len d) (c_len d) ltac:(lia)). lia.
    - auto. }
  destruct N as (N1 & N2).
  unfold locate_spec; simpl. rewrite M1, M2, N1, N2. f_equal. ring.
Qed.

Lemma last_rev_hd : forall (A : Type) (l : list A) d, last (rev l) d = hd d l.
Proof. intros A l d. destruct l; simpl; auto. rewrite last_last. reflexivity. Qed.

Lemma chunk_piece_closed : forall nt dd e r, 1 <= nt -> dd <> [] -> Forall valid_dim dd ->
  0 <= e -> e < 2147483648 -> 1 <= r ->
  chunk_piece nt dd (e * nt) (r * nt) = Z.min r (row_left (rev dd) e) * nt.
Proof.
  intros nt dd e r Hn Hne Hv He Hb Hr. unfold chunk_piece, update_chunk_indices_seek.
  unfold update_chunk_indices_seek_q_stmp_0. rewrite Z.quot_div_nonneg by nia. rewrite Z.div_mul by lia.
  assert (Hv' : Forall valid_dim (rev dd)) by (apply Forall_rev; auto).
  rewrite ucis_rev_spec by (auto; lia).
  unfold calculate_chunk_for_chunk.
  rewrite !map_rev, !last_rev_hd.
  assert (Hl : last dd (mkdim 0 0 0 0) = hd (mkdim 0 0 0 0) (rev dd)).
  { rewrite <- (rev_involutive dd) at 1. apply last_rev_hd. }
  rewrite Hl.
  destruct (rev dd) as [|d tl] eqn:Erd.
  { exfalso. apply Hne. rewrite <- (rev_involutive dd), Erd. reflexivity. }
  simpl ucis_spec. simpl map. simpl hd. unfold row_left. cbv zeta.
  inversion Hv' as [|? ? Hd Htl]; subst.
  destruct Hd as (H1 & H2 & H3 & (H4 & H5) & H6).
  pose proof (Z.mod_pos_bound e (d_len d) ltac:(lia)) as Bx.
  pose proof (Z.mod_pos_bound (e mod d_len d) (c_len d) ltac:(lia)) as Bs.
  pose proof (Z.div_mod (e mod d_len d) (c_len d) ltac:(lia)) as Ex.
  assert (Bq : 0 <= (e mod d_len d) / c_len d < n_chunks d).
  { split. apply Z.div_pos; lia. apply Z.div_lt_upper_bound; nia. }
  set (x := e mod d_len d) in *. set (s := x / c_len d) in *. set (b := x mod c_len d) in *.
  unfold calculate_chunk_for_chunk_q_if_0, calculate_chunk_for_chunk_q_if_1, calculate_chunk_for_chunk_q_if_2,
    calculate_chunk_for_chunk_q_chunk_size_0, calculate_chunk_for_chunk_q_chunk_size_1,
    calculate_chunk_for_chunk_q_chunk_size_2, calculate_chunk_for_chunk_q_chunk_size_3, truthy.
  rewrite !Z.sub_0_r.
  destruct (s =? n_chunks d - 1) eqn:Es; simpl.
  - apply Z.eqb_eq in Es.
    assert (R1 : Z.min (c_len d - b) (d_len d - x) = last_len d - b) by nia.
    rewrite R1.
    destruct (r * nt <? (last_len d - b) * nt) eqn:Ec; simpl.
    + apply Z.ltb_lt in Ec. rewrite Z.min_l by nia. reflexivity.
    + apply Z.ltb_ge in Ec. rewrite Z.min_r by nia. reflexivity.
  - apply Z.eqb_neq in Es.
    assert (R1 : Z.min (c_len d - b) (d_len d - x) = c_len d - b) by nia.
    rewrite R1.
    destruct (r * nt <? (c_len d - b) * nt) eqn:Ec; simpl.
    + apply Z.ltb_lt in Ec. rewrite Z.min_l by nia. reflexivity.
    + apply Z.ltb_ge in Ec. rewrite Z.min_r by nia. reflexivity.
Qed.

Lemma chunk_run_contig_lemma : forall nt dd e r,
  1 <= nt -> dd <> [] -> Forall valid_dim dd -> prod (map d_len dd) * nt < 2147483648 ->
  0 <= e -> 1 <= r -> e + r <= prod (map d_len dd) ->
  let k := Z.min r (row_left (rev dd) e) in
  chunk_piece nt dd (e * nt) (r * nt) = k * nt /\ 1 <= k <= r /\
  forall j, 0 <= j < k ->
    chunk_locate nt dd ((e + j) * nt) =
    (fst (chunk_locate nt dd (e * nt)), snd (chunk_locate nt dd (e * nt)) + j * nt).
Proof.
  intros nt dd e r Hn Hne Hv Hb He Hr Hs k.
  assert (Hv' : Forall valid_dim (rev dd)) by (apply Forall_rev; auto).
  assert (Hk : 1 <= row_left (rev dd) e).
  { destruct (rev dd) as [|d tl] eqn:Erd; simpl; [lia|].
    inversion Hv' as [|? ? Hd Htl]; subst. destruct Hd as (H1 & H2 & _).
    pose proof (Z.mod_pos_bound e (d_len d) ltac:(lia)).
    pose proof (Z.mod_pos_bound (e mod d_len d) (c_len d) ltac:(lia)). lia. }
  split; [|split].
  - apply chunk_piece_closed; auto; nia.
  - unfold k. lia.
  - intros j Hj.
    assert (Ej : (e + j) * nt / nt = e + j) by (apply Z.div_mul; lia).
    assert (Ee : e * nt / nt = e) by (apply Z.div_mul; lia).
    rewrite (chunk_locate_spec nt dd ((e + j) * nt)) by (auto; try nia; rewrite Ej; nia).
    rewrite (chunk_locate_spec nt dd (e * nt)) by (auto; try nia; rewrite Ee; nia).
    rewrite Ej, Ee.
    destruct (rev dd) as [|d tl] eqn:Erd.
    { exfalso. apply Hne. rewrite <- (rev_involutive dd), Erd. reflexivity. }
    inversion Hv' as [|? ? Hd Htl]; subst.
    apply locate_spec_run; auto. unfold k in Hj. lia.
Qed.

(** ---- chunked_refines_stream (element-granular) ---- *)
(** the stream specification: a total map position -> value, initially the fill value *)
Definition stream := Z -> Z.
Definition st_set (s : stream) (p v : Z) : stream := fun q => if q =? p then v else s q.

Fixpoint chunk_writes (nt : Z) (dd : list dimrec) (t : ctable) (ws : list (Z * Z)) : ctable :=
  match ws with
  | [] => t
  | (p, v) :: r => chunk_writes nt dd (chunk_write_elem nt dd t (p * nt) v) r
  end.
Fixpoint stream_writes (s : stream) (ws : list (Z * Z)) : stream :=
  match ws with
  | [] => s
  | (p, v) :: r => stream_writes (st_set s p v) r
  end.

Lemma chunked_refines_stream_lemma : forall nt dd fill ws,
  1 <= nt -> Forall valid_dim dd -> prod (map d_len dd) * nt < 2147483648 ->
  Forall (fun w => 0 <= fst w < prod (map d_len dd)) ws ->
  forall q, 0 <= q < prod (map d_len dd) ->
    chunk_read_elem nt dd (chunk_writes nt dd (fun _ _ => fill) ws) (q * nt) =
    stream_writes (fun _ => fill) ws q.
Proof.
  intros nt dd fill ws Hn Hv Hb Hws.
  assert (G : forall t s, (forall q, 0 <= q < prod (map d_len dd) -> chunk_read_elem nt dd t (q * nt) = s q) ->
              forall q, 0 <= q < prod (map d_len dd) ->
              chunk_read_elem nt dd (chunk_writes nt dd t ws) (q * nt) = stream_writes s ws q).
  { induction Hws as [|[p v] r Hp Hr IH]; intros t s Hts q Hq; simpl; [auto|].
    apply IH; auto. intros q' Hq'. simpl in Hp.
    unfold chunk_read_elem, chunk_write_elem, st_set.
    destruct (chunk_locate nt dd (p * nt)) as [cn off] eqn:Ep.
    destruct (chunk_locate nt dd (q' * nt)) as [cn' off'] eqn:Eq'.
    unfold ct_set.
    destruct (Z.eq_dec q' p) as [->|Hne].
    - rewrite Ep in Eq'. inversion Eq'; subst. rewrite !Z.eqb_refl. reflexivity.
    - destruct (Z.eqb_spec q' p); [contradiction|].
      destruct ((cn' =? cn) && (off' =? off)) eqn:Ec.
      + exfalso. apply andb_true_iff in Ec. destruct Ec as [E1 E2]. apply Z.eqb_eq in E1, E2. subst.
        apply Hne. apply (proj1 (chunk_locate_inj_lemma nt dd q' p Hn Hv Hb Hq' Hp)). congruence.
      + specialize (Hts q' Hq'). unfold chunk_read_elem in Hts. rewrite Eq' in Hts. exact Hts. }
  intros q Hq. apply G; auto.
Qed.
