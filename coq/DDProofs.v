(** C12 -- proofs about the DD directory model (DDModel.v) against the finite-map specification (DDSpec.v). *)
From Coq Require Import ZArith List Bool Lia Permutation.
Require Import H4.gen.Gen_DD H4.DDBvModel H4.DDBvProofs H4.DDSpec H4.DDModel.
Import ListNotations.
Local Open Scope Z_scope.

(** * Abstraction: the live descriptors of the DD table, as specification entries *)
Definition live (d : dd) : bool := negb (d_tag d =? DFTAG_NULL).
Definition entry_of (d : dd) : entry := mkentry (d_tag d) (d_ref d) (d_len d).
Definition abs (st : mst) : smap := map entry_of (filter live (m_slots st)).

(* ------------------------------------------------------------------------------------------ *)
(** * Counting (HTIcount_dd / Hnumber) *)

Lemma count_simple_cons : forall f d l, count_simple f (d :: l) = b2z (f d) + count_simple f l.
Proof. reflexivity. Qed.

Lemma count_simple_filter : forall f l, count_simple f l = Z.of_nat (length (filter f l)).
Proof.
  induction l as [|d l IH]; [reflexivity|]. rewrite count_simple_cons, IH. cbn [filter].
  destruct (f d); cbn [length]; unfold b2z; lia.
Qed.

Lemma count_simple_app : forall f a b, count_simple f (a ++ b) = count_simple f a + count_simple f b.
Proof. intros. rewrite !count_simple_filter, filter_app, app_length. lia. Qed.

Lemma count_pairs_even : forall n f l, length l = (2 * n)%nat -> count_pairs f l = Some (count_simple f l).
Proof.
  induction n as [|n IH]; intros f l Hl.
  - destruct l; [reflexivity|simpl in Hl; lia].
  - destruct l as [|a [|b l]]; simpl in Hl; try lia.
    cbn [count_pairs]. rewrite (IH f l) by lia. rewrite !count_simple_cons. f_equal. lia.
Qed.

(** the odd/even unrolled loop of HTIcount_dd counts exactly, for every block length *)
Lemma count_unrolled_exact : forall f blk, count_unrolled f blk = Some (count_simple f blk).
Proof.
  intros f blk. unfold count_unrolled.
  destruct (Nat.Even_or_Odd (length blk)) as [[n Hn]|[n Hn]].
  - replace (Nat.odd (length blk)) with false.
    + apply (count_pairs_even n); auto.
    + symmetry. rewrite <- Nat.negb_even. rewrite Hn. rewrite Nat.even_mul. reflexivity.
  - replace (Nat.odd (length blk)) with true.
    + destruct blk as [|a blk]; [simpl in Hn; lia|]. simpl in Hn.
      rewrite (count_pairs_even n) by lia. rewrite count_simple_cons. reflexivity.
    + symmetry. rewrite Hn. rewrite Nat.add_1_r. rewrite Nat.odd_succ. rewrite Nat.even_mul. reflexivity.
Qed.

Lemma blocks_of_concat : forall fuel n l, (0 < n)%nat -> (length l <= fuel)%nat -> concat (blocks_of fuel n l) = l.
Proof.
  induction fuel as [|fuel IH]; intros n l Hn Hl.
  - destruct l; [reflexivity|simpl in Hl; lia].
  - destruct l as [|d l]; [reflexivity|].
    cbn [blocks_of concat]. rewrite IH; auto.
    + apply firstn_skipn.
    + rewrite skipn_length. cbn [length] in *. lia.
Qed.

Lemma sum_opt_simple : forall f blks,
  sum_opt (map (fun b => Some (count_simple f b)) blks) = Some (count_simple f (concat blks)).
Proof.
  induction blks as [|b blks IH]; [reflexivity|].
  cbn [map sum_opt fold_right concat]. unfold sum_opt in IH. rewrite IH. rewrite count_simple_app. reflexivity.
Qed.

Lemma sum_opt_unrolled : forall f blks,
  sum_opt (map (count_unrolled f) blks) = Some (count_simple f (concat blks)).
Proof.
  intros f blks. rewrite <- sum_opt_simple. f_equal. apply map_ext. intros. apply count_unrolled_exact.
Qed.

Lemma filter_map_filter_length : forall (g : entry -> bool) l,
  length (filter g (map entry_of (filter live l))) = length (filter (fun d => live d && g (entry_of d)) l).
Proof.
  induction l as [|d l IH]; [reflexivity|]. simpl. destruct (live d); simpl; [|exact IH].
  destruct (g (entry_of d)); simpl; rewrite IH; reflexivity.
Qed.

Ltac dd_crush :=
  repeat match goal with |- context [Z.eqb ?a ?b] => destruct (Z.eqb_spec a b) end;
  cbn [orb andb negb]; try reflexivity; exfalso; try lia; try congruence.

Definition no_free_tags (st : mst) : Prop := forall d, In d (m_slots st) -> d_tag d <> DFTAG_FREE.

Lemma hnumber_exact_lemma : forall st t,
  (0 < nddsn st)%nat -> obs_tag t = true -> no_free_tags st ->
  hticount_dd st t DFREF_WILDCARD = Some (Z.of_nat (length (filter (tag_matches t) (abs st)))).
Proof.
  intros st t Hn Hobs Hnf. unfold abs. rewrite filter_map_filter_length.
  unfold obs_tag in Hobs. repeat rewrite andb_true_iff in Hobs. destruct Hobs as [[[Hu H1] H2] H3].
  apply negb_true_iff in H1. apply negb_true_iff in H2. apply Z.eqb_neq in H1. apply Z.eqb_neq in H2.
  assert (Ht1 : t <> DFTAG_NULL) by (intros ->; apply H1; reflexivity).
  assert (Ht2 : t <> DFTAG_FREE) by (intros ->; apply H2; reflexivity).
  unfold hticount_dd.
  assert (Hcat : concat (blocks_of (length (m_slots st)) (nddsn st) (m_slots st)) = m_slots st)
    by (apply blocks_of_concat; auto).
  assert (Hfin : forall f g, (forall d, In d (m_slots st) -> f d = g d) ->
            Some (count_simple f (m_slots st)) = Some (Z.of_nat (length (filter g (m_slots st))))).
  { intros f g Hfg. rewrite count_simple_filter. do 3 f_equal. apply filter_ext_in. exact Hfg. }
  unfold tag_matches, live, entry_of, DFREF_WILDCARD, DFTAG_WILDCARD in *. cbn [e_tag].
  set (sp := MKSPECIALTAG t) in *. clearbody sp.
  unfold DFTAG_NULL, DFTAG_FREE in *.
  destruct (Z.eqb_spec t 0) as [Ht0|Ht0].
  - rewrite sum_opt_simple, Hcat. apply Hfin. intros d Hd. pose proof (Hnf d Hd) as Hf. unfold DFTAG_FREE in Hf. dd_crush.
  - destruct (Z.eqb_spec t 1); [contradiction|]. destruct (Z.eqb_spec t 108); [contradiction|].
    cbn [orb]. destruct (Z.eqb_spec sp 1) as [Hsp|Hsp].
    + rewrite sum_opt_simple, Hcat. apply Hfin. intros d Hd. dd_crush.
    + rewrite sum_opt_unrolled, Hcat. apply Hfin. intros d Hd. dd_crush.
Qed.

(* ------------------------------------------------------------------------------------------ *)
(** * Searching (HTIfind_dd / Hfind) *)

Section Find.
Variable f : dd -> bool.

Lemma find_fwd_start_le : forall l i s s', (s <= i)%nat -> (s' <= i)%nat -> find_fwd f l i s = find_fwd f l i s'.
Proof.
  induction l as [|d l IH]; intros i s s' Hs Hs'; [reflexivity|]. cbn [find_fwd].
  replace (s <=? i)%nat with true by (symmetry; apply Nat.leb_le; lia).
  replace (s' <=? i)%nat with true by (symmetry; apply Nat.leb_le; lia).
  destruct (f d); cbn [andb]; auto; try (apply IH; lia).
Qed.

Lemma find_fwd_skip : forall l i s, (i <= s)%nat -> find_fwd f l i s = find_fwd f (skipn (s - i) l) s s.
Proof.
  induction l as [|d l IH]; intros i s Hs.
  - rewrite skipn_nil. reflexivity.
  - destruct (Nat.eq_dec i s) as [->|Hne].
    + rewrite Nat.sub_diag. reflexivity.
    + cbn [find_fwd]. replace (s <=? i)%nat with false by (symmetry; apply Nat.leb_gt; lia). cbn [andb].
      rewrite IH by lia. replace (s - i)%nat with (S (s - S i)) by lia. reflexivity.
Qed.

Lemma find_first : forall l i,
  match find_fwd f l i i with
  | Some q => (i <= q < i + length l)%nat /\ f (nth (q - i) l nil_dd) = true /\
              filter f l = nth (q - i) l nil_dd :: filter f (skipn (S (q - i)) l)
  | None => filter f l = []
  end.
Proof.
  induction l as [|d l IH]; intros i; [reflexivity|]. cbn [find_fwd]. rewrite Nat.leb_refl. cbn [andb filter].
  destruct (f d) eqn:E.
  - rewrite Nat.sub_diag. cbn [nth skipn length]. repeat split; auto; lia.
  - rewrite (find_fwd_start_le l (S i) i (S i)) by lia. specialize (IH (S i)).
    destruct (find_fwd f l (S i) (S i)) as [q|]; auto.
    destruct IH as (Hq & Hf & Hfl). replace (q - i)%nat with (S (q - S i)) by lia.
    cbn [nth skipn length]. repeat split; auto; lia.
Qed.

Lemma nth_skipn_dd : forall (l : list dd) a k, nth k (skipn a l) nil_dd = nth (a + k) l nil_dd.
Proof. induction l as [|x l IH]; intros [|a] k; simpl; auto. destruct k; reflexivity. Qed.

Lemma skipn_skipn_dd : forall (l : list dd) a b, skipn a (skipn b l) = skipn (a + b) l.
Proof.
  induction l as [|x l IH]; intros a b.
  - rewrite !skipn_nil. reflexivity.
  - destruct b. + rewrite Nat.add_0_r. reflexivity.
    + rewrite Nat.add_succ_r. cbn [skipn]. apply IH.
Qed.

Lemma find_from : forall l s,
  match find_fwd f l 0 s with
  | Some q => (s <= q < length l)%nat /\ f (nth q l nil_dd) = true /\
              filter f (skipn s l) = nth q l nil_dd :: filter f (skipn (S q) l)
  | None => filter f (skipn s l) = []
  end.
Proof.
  intros l s. rewrite find_fwd_skip by lia. rewrite Nat.sub_0_r.
  pose proof (find_first (skipn s l) s) as H. destruct (find_fwd f (skipn s l) s s) as [q|]; auto.
  destruct H as (Hq & Hf & Hfl). rewrite skipn_length in Hq.
  rewrite nth_skipn_dd in Hf, Hfl. rewrite skipn_skipn_dd in Hfl.
  replace (s + (q - s))%nat with q in * by lia. replace (S (q - s) + s)%nat with (S q) in Hfl by lia.
  repeat split; auto; lia.
Qed.

(** iterating "next match after the cursor" from the start enumerates the matching entries, each once, in order *)
Definition cstart (cur : option nat) : nat := match cur with None => O | Some q => S q end.
Fixpoint iter (L : list dd) (fuel : nat) (cur : option nat) : list dd :=
  match fuel with
  | O => []
  | S k => match find_fwd f L 0 (cstart cur) with
           | None => []
           | Some q => nth q L nil_dd :: iter L k (Some q)
           end
  end.

Lemma iter_filter : forall L fuel cur, (length L - cstart cur < fuel)%nat ->
  iter L fuel cur = filter f (skipn (cstart cur) L).
Proof.
  induction fuel as [|k IH]; intros cur Hf; [lia|]. cbn [iter].
  pose proof (find_from L (cstart cur)) as H. destruct (find_fwd f L 0 (cstart cur)) as [q|]; auto.
  destruct H as (Hq & _ & Hfl). rewrite Hfl. f_equal. apply (IH (Some q)). cbn [cstart]. lia.
Qed.
End Find.

Lemma find_fwd_ext_gen : forall f g, (forall d, f d = g d) -> forall l i s, find_fwd f l i s = find_fwd g l i s.
Proof. intros f g H. induction l as [|d l IH]; intros i s; [reflexivity|]. cbn [find_fwd]. rewrite H, IH. reflexivity. Qed.

(** the per-descriptor tests of the C loops, in both directions, are the specification's match *)
Definition spec_match (t r : Z) (d : dd) : bool :=
  live d && tag_matches t (entry_of d) && ref_matches r (entry_of d).

Lemma match_fwd_spec : forall t r d, t <> DFTAG_NULL -> (t = DFTAG_WILDCARD \/ r = DFREF_WILDCARD) ->
  match_fwd t r d = spec_match t r d.
Proof.
  intros t r d Ht Hw. unfold match_fwd, spec_match, live, tag_matches, ref_matches, entry_of. cbn [e_tag e_ref].
  set (sp := MKSPECIALTAG t). clearbody sp. unfold DFTAG_WILDCARD, DFREF_WILDCARD, DFTAG_NULL in *.
  destruct Hw as [-> | ->]; dd_crush.
Qed.

Lemma match_bwd_spec : forall t r d, t <> DFTAG_NULL -> match_bwd t r d = spec_match t r d.
Proof.
  intros t r d Ht. unfold match_bwd, spec_match, live, tag_matches, ref_matches, entry_of. cbn [e_tag e_ref].
  set (sp := MKSPECIALTAG t). clearbody sp. unfold DFTAG_WILDCARD, DFREF_WILDCARD, DFTAG_NULL in *.
  dd_crush.
Qed.

Lemma spec_match_live : forall t r d, spec_match t r d = true -> live d = true.
Proof. unfold spec_match. intros t r d H. repeat rewrite andb_true_iff in H. tauto. Qed.

(** the tag tree locates every live descriptor (established for all reachable states by [inv_index]) *)
Definition index_ok (st : mst) : Prop :=
  forall p, (p < length (m_slots st))%nat -> live (slot st p) = true ->
    find_exact st (d_tag (slot st p)) (d_ref (slot st p)) = Some p /\
    d_tag (slot st p) <> 0 /\ d_ref (slot st p) <> 0.

Definition cur_tag (st : mst) (cur : option nat) : Z := match cur with None => 0 | Some q => d_tag (slot st q) end.
Definition cur_ref (st : mst) (cur : option nat) : Z := match cur with None => 0 | Some q => d_ref (slot st q) end.
Definition cur_ok (st : mst) (cur : option nat) : Prop :=
  match cur with None => True | Some q => (q < length (m_slots st))%nat /\ live (slot st q) = true end.

Lemma hfind_cursor : forall st t r cur dir, index_ok st -> cur_ok st cur ->
  (t = DFTAG_WILDCARD \/ r = DFREF_WILDCARD) ->
  hfind st t r (cur_tag st cur) (cur_ref st cur) dir = find_wild st t r cur dir.
Proof.
  intros st t r cur dir Hidx Hc Hw. unfold hfind.
  assert (Hwild : htifind_dd st t r cur dir = find_wild st t r cur dir).
  { unfold htifind_dd, DFTAG_WILDCARD, DFREF_WILDCARD in *. destruct Hw as [-> | ->]; cbn [Z.eqb negb andb]; auto.
    rewrite andb_false_r. reflexivity. }
  destruct cur as [q|]; cbn [cur_tag cur_ref].
  - destruct Hc as [Hq Hl]. destruct (Hidx q Hq Hl) as (Hfe & Ht0 & Hr0).
    destruct (Z.eqb_spec (d_ref (slot st q)) 0); [contradiction|]. cbn [negb orb].
    unfold htifind_dd at 1. unfold DFTAG_WILDCARD.
    destruct (Z.eqb_spec (d_tag (slot st q)) 0); [contradiction|].
    destruct (Z.eqb_spec (d_ref (slot st q)) 0); [contradiction|]. cbn [negb andb].
    rewrite Hfe. exact Hwild.
  - cbn [Z.eqb negb orb]. exact Hwild.
Qed.

Lemma find_wild_fwd : forall st t r cur,
  find_wild st t r cur DF_FORWARD = find_fwd (match_fwd t r) (m_slots st) 0 (cstart cur).
Proof. intros. destruct cur; reflexivity. Qed.

Lemma find_wild_bwd : forall st t r cur,
  find_wild st t r cur DF_BACKWARD =
  find_bwd (match_bwd t r) (m_slots st) (match cur with None => length (m_slots st) | Some p => p end).
Proof. intros. destruct cur; reflexivity. Qed.

Lemma findall_fwd : forall st t r, index_ok st -> t <> DFTAG_NULL -> (t = DFTAG_WILDCARD \/ r = DFREF_WILDCARD) ->
  forall fuel cur, cur_ok st cur ->
  findall st fuel t r (cur_tag st cur) (cur_ref st cur) DF_FORWARD =
  map dd_triple (iter (spec_match t r) (m_slots st) fuel cur).
Proof.
  intros st t r Hidx Ht Hw. induction fuel as [|k IH]; intros cur Hc; [reflexivity|].
  cbn [findall iter]. rewrite hfind_cursor by auto. rewrite find_wild_fwd.
  rewrite (find_fwd_ext_gen _ _ (fun d => match_fwd_spec t r d Ht Hw)).
  pose proof (find_from (spec_match t r) (m_slots st) (cstart cur)) as H.
  destruct (find_fwd (spec_match t r) (m_slots st) 0 (cstart cur)) as [q|]; [|reflexivity].
  destruct H as (Hq & Hf & _). cbn [map]. f_equal.
  replace (negb (t =? 0) && negb (r =? 0)) with false.
  - apply (IH (Some q)). split; [lia|]. eapply spec_match_live. exact Hf.
  - unfold DFTAG_WILDCARD, DFREF_WILDCARD in Hw. destruct Hw as [-> | ->]; cbn; auto. rewrite andb_false_r. reflexivity.
Qed.

Lemma findall_bwd : forall st t r, index_ok st -> t <> DFTAG_NULL -> (t = DFTAG_WILDCARD \/ r = DFREF_WILDCARD) ->
  forall fuel cur',
  let n := length (m_slots st) in
  let cur := match cur' with None => None | Some j => Some (n - 1 - j)%nat end in
  (match cur' with None => True | Some j => (j < n)%nat /\ live (nth j (rev (m_slots st)) nil_dd) = true end) ->
  findall st fuel t r (cur_tag st cur) (cur_ref st cur) DF_BACKWARD =
  map dd_triple (iter (spec_match t r) (rev (m_slots st)) fuel cur').
Proof.
  intros st t r Hidx Ht Hw. induction fuel as [|k IH]; intros cur' n cur Hc; [reflexivity|].
  assert (Hmir : forall j, (j < n)%nat -> slot st (n - 1 - j) = nth j (rev (m_slots st)) nil_dd).
  { intros j Hj. unfold slot. rewrite rev_nth by exact Hj. f_equal. unfold n. lia. }
  assert (Hcok : cur_ok st cur).
  { unfold cur. destruct cur' as [j|]; cbn [cur_ok]; auto. destruct Hc as [Hj Hl]. split; [fold n; lia|].
    rewrite Hmir by auto. exact Hl. }
  cbn [findall iter]. rewrite hfind_cursor by auto. rewrite find_wild_bwd. unfold find_bwd. fold n.
  rewrite (find_fwd_ext_gen _ _ (fun d => match_bwd_spec t r d Ht)).
  replace (n - match cur with None => n | Some p => p end)%nat with (cstart cur').
  2:{ unfold cur. destruct cur' as [j|]; cbn [cstart]; [destruct Hc; lia|lia]. }
  pose proof (find_from (spec_match t r) (rev (m_slots st)) (cstart cur')) as H.
  destruct (find_fwd (spec_match t r) (rev (m_slots st)) 0 (cstart cur')) as [q|]; [|reflexivity].
  destruct H as (Hq & Hf & _). rewrite rev_length in Hq. fold n in Hq.
  rewrite Hmir by lia. cbn [map]. f_equal.
  replace (negb (t =? 0) && negb (r =? 0)) with false.
  - rewrite <- (Hmir q) by lia. apply (IH (Some q)). split; [fold n; lia|]. eapply spec_match_live. exact Hf.
  - unfold DFTAG_WILDCARD, DFREF_WILDCARD in Hw. destruct Hw as [-> | ->]; cbn; auto. rewrite andb_false_r. reflexivity.
Qed.

Lemma filter_rev_dd : forall (f : dd -> bool) l, filter f (rev l) = rev (filter f l).
Proof.
  induction l as [|d l IH]; [reflexivity|]. cbn [rev filter]. rewrite filter_app, IH. cbn [filter].
  destruct (f d); cbn [rev]; [reflexivity|apply app_nil_r].
Qed.

Lemma abs_select : forall t r l,
  map dd_triple (filter (spec_match t r) l) =
  map triple (filter (fun e => tag_matches t e && ref_matches r e) (map entry_of (filter live l))).
Proof.
  induction l as [|d l IH]; [reflexivity|]. cbn [filter]. unfold spec_match at 1.
  destruct (live d); cbn [andb map filter]; [|exact IH].
  destruct (tag_matches t (entry_of d) && ref_matches r (entry_of d)); cbn [map]; rewrite IH; reflexivity.
Qed.

(** wildcard searches enumerate each live entry designated by the search exactly once: forward in table order,
    backward in the reverse order *)
Lemma find_enumerates_once_lemma : forall st t r,
  index_ok st -> t <> DFTAG_NULL -> (t = DFTAG_WILDCARD \/ r = DFREF_WILDCARD) ->
  let sel := map triple (filter (fun e => tag_matches t e && ref_matches r e) (abs st)) in
  findall st (S (length (m_slots st))) t r 0 0 DF_FORWARD = sel /\
  findall st (S (length (m_slots st))) t r 0 0 DF_BACKWARD = rev sel.
Proof.
  intros st t r Hidx Ht Hw sel. unfold sel, abs. rewrite <- abs_select. split.
  - rewrite (findall_fwd st t r Hidx Ht Hw _ None I). rewrite iter_filter by (cbn [cstart]; lia). reflexivity.
  - rewrite (findall_bwd st t r Hidx Ht Hw _ None I). rewrite iter_filter by (cbn [cstart]; rewrite rev_length; lia).
    cbn [cstart skipn]. rewrite filter_rev_dd, map_rev. reflexivity.
Qed.

(* ------------------------------------------------------------------------------------------ *)
(** * Reference allocation *)

Definition ref_in_use (st : mst) (r : Z) : Prop := exists d, In d (m_slots st) /\ live d = true /\ d_ref d = r.

Definition maxref_ok (st : mst) : Prop :=
  0 <= m_maxref st <= MAX_REF /\
  forall d, In d (m_slots st) -> live d = true -> 1 <= d_ref d <= m_maxref st.

Lemma find_none_no_ref : forall st r, r <> 0 ->
  htifind_dd st DFTAG_WILDCARD r None DF_FORWARD = None -> ~ ref_in_use st r.
Proof.
  intros st r Hr H [d (Hin & Hl & Hd)]. unfold htifind_dd in H. cbn [DFTAG_WILDCARD Z.eqb negb andb] in H.
  rewrite find_wild_fwd in H. cbn [cstart] in H.
  rewrite (find_fwd_ext_gen _ _ (fun d => match_fwd_spec DFTAG_WILDCARD r d ltac:(discriminate) ltac:(auto))) in H.
  pose proof (find_from (spec_match DFTAG_WILDCARD r) (m_slots st) 0) as Hf. rewrite H in Hf. cbn [skipn] in Hf.
  assert (Hin' : In d (filter (spec_match DFTAG_WILDCARD r) (m_slots st))).
  { apply filter_In. split; auto. unfold spec_match, tag_matches, ref_matches, entry_of. cbn [e_tag e_ref].
    rewrite Hl, Hd. cbn. rewrite Z.eqb_refl. apply orb_true_r. }
  rewrite Hf in Hin'. exact Hin'.
Qed.

Lemma find_some_ref : forall st r p, r <> 0 ->
  htifind_dd st DFTAG_WILDCARD r None DF_FORWARD = Some p -> ref_in_use st r.
Proof.
  intros st r p Hr H. unfold htifind_dd in H. cbn [DFTAG_WILDCARD Z.eqb negb andb] in H.
  rewrite find_wild_fwd in H. cbn [cstart] in H.
  rewrite (find_fwd_ext_gen _ _ (fun d => match_fwd_spec DFTAG_WILDCARD r d ltac:(discriminate) ltac:(auto))) in H.
  pose proof (find_from (spec_match DFTAG_WILDCARD r) (m_slots st) 0) as Hf. rewrite H in Hf.
  destruct Hf as (Hp & Hm & _). exists (nth p (m_slots st) nil_dd). split; [apply nth_In; lia|].
  unfold spec_match, ref_matches, entry_of in Hm. cbn [e_ref] in Hm. repeat rewrite andb_true_iff in Hm.
  destruct Hm as [[Hl _] Hrm]. split; auto.
  unfold DFREF_WILDCARD in Hrm. destruct (Z.eqb_spec r 0); [contradiction|]. cbn [orb] in Hrm. apply Z.eqb_eq. exact Hrm.
Qed.

Lemma first_free_ref_spec : forall st fuel r, 1 <= r ->
  let v := first_free_ref st fuel r in
  (v <> 0 -> r <= v < r + Z.of_nat fuel /\ ~ ref_in_use st v) /\
  (v = 0 -> forall x, r <= x < r + Z.of_nat fuel -> ref_in_use st x).
Proof.
  induction fuel as [|k IH]; intros r Hr; cbn [first_free_ref].
  - split; [congruence|]. intros; lia.
  - destruct (htifind_dd st DFTAG_WILDCARD r None DF_FORWARD) as [p|] eqn:E.
    + destruct (IH (r + 1) ltac:(lia)) as [H1 H2]. split.
      * intros Hv. destruct (H1 Hv). split; auto. lia.
      * intros Hv x Hx. destruct (Z.eq_dec x r) as [->|]; [eapply find_some_ref; eauto; lia|]. apply H2; auto. lia.
    + split; [|lia]. intros _. split; [lia|]. apply find_none_no_ref; auto. lia.
Qed.

(** Hnewref: the reference handed out is unused by every tag in the file, also after the 16-bit counter is
    exhausted; 0 is returned only when all 65535 references are in use *)
Lemma hnewref_fresh_lemma : forall st st' v, maxref_ok st -> hnewref st = (st', v) ->
  (v <> 0 -> 1 <= v <= MAX_REF /\ ~ ref_in_use st v) /\
  (v = 0 -> forall x, 1 <= x <= MAX_REF -> ref_in_use st x) /\
  m_slots st' = m_slots st /\ maxref_ok st'.
Proof.
  intros st st' v [Hm Hl] H. unfold hnewref in H. destruct (Z.ltb_spec (m_maxref st) MAX_REF) as [Hlt|Hge].
  - apply pair_equal_spec in H. destruct H as [<- <-]. cbn [set_maxref m_slots m_maxref]. split; [|split; [lia|split; [reflexivity|]]].
    + intros _. split; [lia|]. intros [d (Hin & Hlv & Hd)]. specialize (Hl d Hin Hlv). lia.
    + split; cbn [set_maxref m_maxref m_slots]; [lia|]. intros d Hin Hlv. specialize (Hl d Hin Hlv). lia.
  - apply pair_equal_spec in H. destruct H as [<- <-].
    pose proof (first_free_ref_spec st (Z.to_nat MAX_REF) 1 ltac:(lia)) as [H1 H2].
    set (v := first_free_ref st (Z.to_nat MAX_REF) 1) in *. clearbody v.
    rewrite Z2Nat.id in H1, H2 by (unfold MAX_REF; lia).
    split; [|split; [|split; [reflexivity|split; assumption]]].
    + intros Hv. destruct (H1 Hv). split; auto. lia.
    + intros Hv x Hx. apply H2; auto. lia.
Qed.

Definition tagref_in_use (st : mst) (base r : Z) : Prop :=
  exists d, In d (m_slots st) /\ live d = true /\ BASETAG (d_tag d) = base /\ d_ref d = r.

(** the per-tag bit-vectors mirror the live descriptors (bit 0 is the "ref 0 cannot be stored" kludge) *)
Definition tree_bits_ok (st : mst) : Prop :=
  forall base,
    match tt_find (m_tree st) base with
    | None => forall r, ~ tagref_in_use st base r
    | Some ti => bv_wf (ti_bv ti) /\ bv_bit (ti_bv ti) 0 = true /\
                 forall r, 1 <= r -> (bv_bit (ti_bv ti) r = true <-> tagref_in_use st base r)
    end.

(** Htagnewref: the reference handed out is unused for the (base) tag; 0 only when all 65535 are in use *)
Lemma htagnewref_fresh_lemma : forall st t st' v, tree_bits_ok st -> htagnewref st t = (st', v) ->
  (v <> 0 -> 1 <= v <= MAX_REF /\ ~ tagref_in_use st (BASETAG t) v) /\
  (v = 0 -> forall x, 1 <= x <= MAX_REF -> tagref_in_use st (BASETAG t) x) /\
  m_slots st' = m_slots st.
Proof.
  intros st t st' v Hok H. unfold htagnewref in H. specialize (Hok (BASETAG t)).
  destruct (tt_find (m_tree st) (BASETAG t)) as [ti|].
  - destruct Hok as (Wf & H0 & Hbits).
    destruct (bv_find_next_zero_spec _ Wf) as (b' & r & Hz & _ & _ & Hr0 & Hclr & Hlow).
    rewrite Hz in H.
    assert (Hr1 : 1 <= r). { destruct (Z.eq_dec r 0) as [->|]; [congruence|lia]. }
    destruct (Z.ltb_spec MAX_REF r) as [Hbig|Hsmall]; apply pair_equal_spec in H; destruct H as [<- <-];
      cbn [set_tree m_slots].
    + split; [congruence|]. split; [|reflexivity]. intros _ x Hx. apply Hbits; [lia|]. apply Hlow. lia.
    + split; [|split; [|reflexivity]].
      * intros _. split; [lia|]. intros Hu. apply Hbits in Hu; [|lia]. congruence.
      * intros ->. lia.
  - apply pair_equal_spec in H. destruct H as [<- <-]. split; [|split; [discriminate|reflexivity]].
    intros _. split; [unfold MAX_REF; lia|]. apply Hok.
Qed.

(* ------------------------------------------------------------------------------------------ *)
(** * The observers of the model against the specification map *)

Definition inv (st : mst) : Prop :=
  (0 < nddsn st)%nat /\ index_ok st /\ maxref_ok st /\ tree_bits_ok st /\ no_free_tags st.

Lemma ref_used_iff : forall st s v, Permutation (abs st) s -> (ref_used s v = true <-> ref_in_use st v).
Proof.
  intros st s v Hp. unfold ref_used. rewrite existsb_exists. split.
  - intros (e & Hin & He). apply (Permutation_in _ (Permutation_sym Hp)) in Hin. unfold abs in Hin.
    apply in_map_iff in Hin. destruct Hin as (d & <- & Hd). apply filter_In in Hd. destruct Hd.
    exists d. repeat split; auto. apply Z.eqb_eq. exact He.
  - intros (d & Hin & Hl & Hd). exists (entry_of d). split.
    + apply (Permutation_in _ Hp). unfold abs. apply in_map. apply filter_In. auto.
    + cbn [entry_of e_ref]. apply Z.eqb_eq. exact Hd.
Qed.

Lemma tagref_used_iff : forall st s t v, Permutation (abs st) s ->
  (tagref_used s t v = true <-> tagref_in_use st (BASETAG t) v).
Proof.
  intros st s t v Hp. unfold tagref_used, key_eq. rewrite existsb_exists. split.
  - intros (e & Hin & He). apply (Permutation_in _ (Permutation_sym Hp)) in Hin. unfold abs in Hin.
    apply in_map_iff in Hin. destruct Hin as (d & <- & Hd). apply filter_In in Hd. destruct Hd.
    apply andb_true_iff in He. destruct He as [Ha Hb]. apply Z.eqb_eq in Ha. apply Z.eqb_eq in Hb.
    exists d. repeat split; auto.
  - intros (d & Hin & Hl & Hb & Hd). exists (entry_of d). split.
    + apply (Permutation_in _ Hp). unfold abs. apply in_map. apply filter_In. auto.
    + cbn [entry_of e_tag e_ref]. rewrite Hb, Hd, !Z.eqb_refl. reflexivity.
Qed.

Lemma all_used_spec : forall used fuel r,
  all_used used fuel r = true <-> forall x, r <= x < r + Z.of_nat fuel -> used x = true.
Proof.
  induction fuel as [|k IH]; intros r; cbn [all_used].
  - split; auto. intros; lia.
  - rewrite andb_true_iff, IH. split.
    + intros [H1 H2] x Hx. destruct (Z.eq_dec x r) as [->|]; auto. apply H2. lia.
    + intros H. split; [apply H; lia|]. intros x Hx. apply H. lia.
Qed.

Lemma newref_ok_spec : forall (used : Z -> bool) (P : Z -> Prop) v,
  (forall x, used x = true <-> P x) ->
  (v <> 0 -> 1 <= v <= MAX_REF /\ ~ P v) -> (v = 0 -> forall x, 1 <= x <= MAX_REF -> P x) ->
  newref_ok used v = true.
Proof.
  intros used P v Hu H1 H2. unfold newref_ok. destruct (Z.eqb_spec v 0) as [->|Hv].
  - apply all_used_spec. intros x Hx. apply Hu. apply H2; auto. rewrite Z2Nat.id in Hx by (unfold MAX_REF; lia). lia.
  - destruct (H1 Hv) as [Hr Hn]. unfold mut_ref. apply andb_true_iff. split.
    + apply andb_true_iff. split; apply Z.leb_le; lia.
    + apply negb_true_iff. destruct (used v) eqn:E; auto. exfalso. apply Hn. apply Hu. exact E.
Qed.

Lemma filter_perm_length : forall (g : entry -> bool) a b, Permutation a b -> length (filter g a) = length (filter g b).
Proof. intros g a b H. induction H; cbn [filter]; auto; try congruence; repeat destruct (g _); cbn [length]; congruence. Qed.

(** In every state satisfying the invariants and representing the map [s], each observing operation of the
    model returns what the specification returns from [s] (counts exactly, enumerations as the same list of
    entries in table order / reverse table order, fresh references that the specification accepts), and
    leaves the represented map unchanged. *)
Lemma observers_refine_lemma : forall st s, inv st -> Permutation (abs st) s ->
  (forall t, obs_tag t = true -> m_step st (ONumber t) = (st, snd (s_step s (ONumber t)))) /\
  (forall t r, t <> DFTAG_NULL -> (t = DFTAG_WILDCARD \/ r = DFREF_WILDCARD) ->
     snd (m_step st (OFindall t r DF_FORWARD)) =
       RList (map triple (filter (fun e => tag_matches t e && ref_matches r e) (abs st))) /\
     snd (m_step st (OFindall t r DF_BACKWARD)) =
       RList (rev (map triple (filter (fun e => tag_matches t e && ref_matches r e) (abs st))))) /\
  (forall x st' v, m_step st (ONewref x) = (st', RVal v) ->
     snd (s_step s (ONewref v)) = ROk /\ abs st' = abs st) /\
  (forall t x st' v, mut_tag t = true -> m_step st (OTagnewref t x) = (st', RVal v) ->
     snd (s_step s (OTagnewref t v)) = ROk /\ abs st' = abs st).
Proof.
  intros st s (Hn & Hidx & Hmax & Htree & Hnf) Hp. split; [|split; [|split]].
  - intros t Ht. cbn [m_step s_step]. rewrite Ht. cbn [negb snd].
    rewrite hnumber_exact_lemma by auto. rewrite (filter_perm_length _ _ _ Hp). reflexivity.
  - intros t r Ht Hw. destruct (find_enumerates_once_lemma st t r Hidx Ht Hw) as [Hf Hb].
    cbn [m_step snd]. rewrite Hf, Hb. split; reflexivity.
  - intros x st' v H. cbn [m_step] in H. destruct (hnewref st) as [st1 v1] eqn:E.
    apply pair_equal_spec in H. destruct H as [<- Hv]. injection Hv as <-.
    destruct (hnewref_fresh_lemma _ _ _ Hmax E) as (H1 & H2 & Hsl & _).
    cbn [s_step snd]. split; [|unfold abs; rewrite Hsl; reflexivity].
    rewrite (newref_ok_spec _ (ref_in_use st) v1 (fun x => ref_used_iff st s x Hp) H1 H2). reflexivity.
  - intros t x st' v Hmt H. cbn [m_step] in H. destruct (htagnewref st t) as [st1 v1] eqn:E.
    apply pair_equal_spec in H. destruct H as [<- Hv]. injection Hv as <-.
    destruct (htagnewref_fresh_lemma _ _ _ _ Htree E) as (H1 & H2 & Hsl).
    cbn [s_step snd]. rewrite Hmt. cbn [orb negb]. split; [|unfold abs; rewrite Hsl; reflexivity].
    rewrite (newref_ok_spec _ (tagref_in_use st (BASETAG t)) v1 (fun x => tagref_used_iff st s t x Hp) H1 H2). reflexivity.
Qed.

(* ------------------------------------------------------------------------------------------ *)
(** * Disk image of the DD blocks: re-parsing what a full flush writes gives back the table *)

Definition image_hdrs (i m nblk : nat) : list (option bool) :=
  map (fun k => Some (negb (S k =? nblk)%nat)) (seq i m).

Lemma unwrap_firstn_some : forall n (l : list dd),
  map (fun o => match o with Some d => d | None => zero_dd end) (firstn n (map Some l)) = firstn n l.
Proof. intros n l. rewrite firstn_map, map_map. apply map_id. Qed.

Lemma read_image : forall n m i nblk slots, (nblk - i = S m)%nat -> length slots = (S m * n)%nat ->
  read_blocks n (image_hdrs i (S m) nblk) (map Some slots) = Some (slots, S m).
Proof.
  intros n. induction m as [|m IH]; intros i nblk slots Hi Hl.
  - unfold image_hdrs. cbn [seq map read_blocks]. replace (S i =? nblk)%nat with true by (symmetry; apply Nat.eqb_eq; lia).
    cbn [negb]. rewrite unwrap_firstn_some. rewrite firstn_all2 by lia. reflexivity.
  - unfold image_hdrs. change (seq i (S (S m))) with (i :: seq (S i) (S m)). cbn [map].
    change (map (fun k => Some (negb (S k =? nblk)%nat)) (seq (S i) (S m))) with (image_hdrs (S i) (S m) nblk).
    cbn [read_blocks].
    replace (S i =? nblk)%nat with false by (symmetry; apply Nat.eqb_neq; lia). cbn [negb].
    rewrite unwrap_firstn_some. rewrite skipn_map.
    rewrite (IH (S i) nblk (skipn n slots)); [|lia|rewrite skipn_length; lia].
    rewrite firstn_skipn. reflexivity.
Qed.

(** HTPsync with every block dirty writes exactly that image *)
Lemma sync_all_dirty : forall n m k nblk slots dhdr dslots,
  length dhdr = m -> (k + m = nblk)%nat -> length slots = (m * n)%nat -> length dslots = (m * n)%nat ->
  sync_blocks n k nblk (repeat true m) slots dhdr dslots = (image_hdrs k m nblk, map Some slots).
Proof.
  intros n. induction m as [|m IH]; intros k nblk slots dhdr dslots Hh Hk Hs Hd.
  - destruct slots; [|simpl in Hs; lia]. destruct dhdr; [|simpl in Hh; lia]. reflexivity.
  - destruct dhdr as [|h dhdr]; [simpl in Hh; lia|]. cbn [repeat sync_blocks].
    rewrite (IH (S k) nblk (skipn n slots) dhdr (skipn n dslots)); try lia;
      try (rewrite skipn_length; lia); [|simpl in Hh; lia].
    unfold image_hdrs. change (seq k (S m)) with (k :: seq (S k) m). cbn [map]. f_equal.
    rewrite <- map_app, firstn_skipn. reflexivity.
Qed.

(* ------------------------------------------------------------------------------------------ *)
(** * HTPdelete with caching off: what reaches the disk (depends on the generated call order) *)

Lemma nth_upd_same : forall A (l : list A) p v d, (p < length l)%nat -> nth p (upd l p v) d = v.
Proof. induction l as [|x l IH]; intros [|p] v d H; simpl in *; try lia; auto. apply IH. lia. Qed.

Lemma htpdelete_writes_null_lemma : forall st p st',
  m_cache st = false -> (p < length (m_slots st))%nat -> (p < length (m_dslots st))%nat ->
  htpdelete st p = Some st' ->
  d_tag (slot st' p) = DFTAG_NULL /\ nth p (m_dslots st') None = Some (slot st' p).
Proof.
  intros st p st' Hc Hp Hd H. unfold htpdelete in H. unfold HTPdelete_calls in H. cbn [fold_left htpdelete_step] in H.
  change (0 =? 1) with false in H. change (0 =? 2) with false in H. change (2 =? 1) with false in H.
  change (2 =? 2) with true in H. change (1 =? 1) with true in H. change (3 =? 1) with false in H.
  change (3 =? 2) with false in H. cbv iota in H.
  set (st0 := set_null st None) in *. cbn [htpdelete_step] in H.
  change (2 =? 1) with false in H. change (2 =? 2) with true in H. change (1 =? 1) with true in H. cbv iota in H.
  destruct (unregister_tag_ref (m_tree st0) (d_tag (slot st0 p)) (d_ref (slot st0 p))) as [tr|]; [|discriminate].
  injection H as <-. unfold update_dd, set_dd, set_tree, set_slots, slot, st0, set_null. cbn [m_cache m_slots m_dslots].
  rewrite Hc. cbn [m_slots m_dslots]. rewrite !nth_upd_same by auto. split; reflexivity.
Qed.

Lemma reopen_parse_serialize_lemma : forall n m slots dhdr dslots,
  length dhdr = S m -> length slots = (S m * n)%nat -> length dslots = (S m * n)%nat ->
  let '(hs, ds) := sync_blocks n 0 (S m) (repeat true (S m)) slots dhdr dslots in
  read_blocks n hs ds = Some (slots, S m).
Proof.
  intros n m slots dhdr dslots Hh Hs Hd.
  rewrite (sync_all_dirty n (S m) 0 (S m) slots dhdr dslots Hh eq_refl Hs Hd).
  apply read_image; auto.
Qed.
