(** C03 -- proofs about the hyperslab specification (SlabSpec.v) and the implementation model (SlabModel.v). *)
From Coq Require Import ZArith List Bool Lia.
Require Import H4.SlabSpec H4.gen.Gen_Slab H4.SlabModel.
Import ListNotations.
Local Open Scope Z_scope.

Lemma zrange_length : forall n s t, length (zrange s t n) = n.
Proof. induction n; simpl; intros; auto. Qed.
