(** C03 -- proofs about the hyperslab specification (SlabSpec.v) and the implementation model (SlabModel.v). *)
From Coq Require Import ZArith List Bool Lia.
Require Import H4.SlabSpec H4.gen.Gen_Slab H4.SlabModel.
Import ListNotations.
Local Open Scope Z_scope.

(* ---- basic list facts ------------------------------------------------------------------------ *)
Lemma zrange_length : forall n s t, length (zrange s t n) = n.
Proof. induction n; simpl; intros; auto. Qed.

Lemma zrange_app : forall a b s t, zrange s t (a + b) = zrange s t a ++ zrange (s + Z.of_nat a * t) t b.
Proof.
  induction a; intros.
  - simpl. replace (s + 0) with s by lia. reflexivity.
  - cbn [Nat.add zrange app]. f_equal. rewrite IHa. f_equal. f_equal. lia.
Qed.

Lemma zrange_map_add : forall n s t k, map (fun x => x + k) (zrange s t n) = zrange (s + k) t n.
Proof. induction n; intros; simpl; auto. f_equal. rewrite IHn. f_equal. lia. Qed.

Lemma flat_map_ext' : forall {A B} (f g : A -> list B) l, (forall x, In x l -> f x = g x) -> flat_map f l = flat_map g l.
Proof. induction l; simpl; intros; auto. rewrite H by auto. f_equal. apply IHl. auto. Qed.

Lemma flat_map_map' : forall {A B C} (f : A -> B) (g : B -> list C) l, flat_map g (map f l) = flat_map (fun x => g (f x)) l.
Proof. induction l; simpl; auto. rewrite IHl. auto. Qed.

Lemma map_flat_map : forall {A B C} (f : B -> C) (g : A -> list B) l, map f (flat_map g l) = flat_map (fun x => map f (g x)) l.
Proof. induction l; simpl; auto. rewrite map_app, IHl. auto. Qed.

Lemma flat_map_flat_map : forall {A B C} (f : A -> list B) (g : B -> list C) l,
  flat_map g (flat_map f l) = flat_map (fun x => flat_map g (f x)) l.
Proof. induction l; simpl; auto. rewrite flat_map_app, IHl. auto. Qed.

(* ---- NC_var_shape / NC_varoffset ------------------------------------------------------------ *)
Lemma var_shape_fst_indep : forall shape esz b, fst (var_shape shape esz b) = fst (var_shape shape esz false).
Proof. destruct shape; simpl; intros; auto. destruct (var_shape shape esz false). auto. Qed.

Lemma var_shape_false : forall shape esz, snd (var_shape shape esz false) = esz * prod shape.
Proof.
  induction shape; simpl; intros. lia.
  destruct (var_shape shape esz false) eqn:E. simpl. specialize (IHshape esz). rewrite E in IHshape. simpl in IHshape.
  subst. unfold prod. simpl. fold (prod shape). lia.
Qed.

Lemma lin_acc_spec : forall shape c acc, length c = length shape ->
  lin_acc shape c acc = acc * prod shape + lin_acc shape c 0.
Proof.
  induction shape; destruct c; simpl; intros; try discriminate. unfold prod; simpl; lia.
  rewrite IHshape by lia. rewrite (IHshape c z) by lia.
  unfold prod. simpl. fold (prod shape). lia.
Qed.

Lemma lin_cons : forall d ds x xs, length xs = length ds -> lin (d :: ds) (x :: xs) = x * prod ds + lin ds xs.
Proof. intros. unfold lin. simpl. rewrite lin_acc_spec by auto. reflexivity. Qed.

Lemma dot_dsizes : forall shape esz c, length c = length shape ->
  dot (fst (var_shape shape esz false)) c = esz * lin shape c.
Proof.
  induction shape; destruct c; simpl; intros; try discriminate. unfold lin; simpl; lia.
  destruct (var_shape shape esz false) eqn:E. simpl.
  rewrite lin_cons by lia.
  specialize (IHshape esz c). rewrite E in IHshape. simpl in IHshape. rewrite IHshape by lia.
  pose proof (var_shape_false shape esz) as V. rewrite E in V. simpl in V. subst. lia.
Qed.

(** NC_varoffset is element size times the row-major linear index *)
Lemma varoffset_rowmajor_lemma : forall m c, length c = length (m_shape m) ->
  varoffset m c = m_esz m * lin (m_shape m) c.
Proof. intros. unfold varoffset, dsizes. rewrite var_shape_fst_indep. apply dot_dsizes. auto. Qed.

(* ---- NCgenio's odometer ---------------------------------------------------------------------- *)
Lemma truth_carry : forall p stop, truth (genio_carry p stop) = (stop <=? p).
Proof. intros. unfold truth, genio_carry. destruct (stop <=? p); reflexivity. Qed.

Lemma axis_from_spec : forall n p t, 1 <= t ->
  axis_from (S n) p t (p + (Z.of_nat n + 1) * t) = zrange (p + t) t n.
Proof.
  induction n; intros.
  - cbn [axis_from zrange]. rewrite truth_carry.
    replace (p + (Z.of_nat 0 + 1) * t <=? p + t) with true by (symmetry; apply Z.leb_le; simpl Z.of_nat; lia).
    reflexivity.
  - cbn [axis_from]. rewrite truth_carry.
    replace (p + (Z.of_nat (S n) + 1) * t <=? p + t) with false by (symmetry; apply Z.leb_gt; nia).
    cbn [zrange]. f_equal.
    replace (p + (Z.of_nat (S n) + 1) * t) with ((p + t) + (Z.of_nat n + 1) * t) by lia.
    apply IHn. auto.
Qed.

Lemma genio_axis_spec : forall s c t, 1 <= c -> 1 <= t -> genio_axis s c t = zrange s t (Z.to_nat c).
Proof.
  intros. unfold genio_axis, genio_stop.
  destruct (Z.to_nat c) eqn:E. lia.
  cbn [zrange]. f_equal.
  replace (s + c * t) with (s + (Z.of_nat n + 1) * t) by (f_equal; f_equal; lia).
  apply axis_from_spec. auto.
Qed.

(** the positions visited by NCgenio's odometer are the slab's cells, in row-major order *)
Lemma genio_positions : forall start count stride,
  length count = length start -> length stride = length start ->
  Forall (fun c => 1 <= c) count -> Forall (fun t => 1 <= t) stride ->
  cartesian (map3 genio_axis start count stride) = slab_cells start stride count.
Proof.
  induction start; destruct count, stride; intros; try discriminate; auto.
  cbn [length] in *.
  inversion H1; inversion H2; subst.
  cbn [map3 cartesian slab_cells].
  rewrite genio_axis_spec by auto.
  rewrite IHstart by (auto; lia). reflexivity.
Qed.

(* ---- validation kernels ----------------------------------------------------------------------- *)
(** the SDreaddata stride check rejects exactly the requests whose last index reaches the extent *)
Lemma stride_check_spec0 : forall t c d s, truth (sdread_stride_bad0 t c d s) = (d <=? reach s t c).
Proof.
  intros. unfold truth, sdread_stride_bad0, reach.
  destruct (d - s <=? t * (c - 1)) eqn:E; simpl; symmetry.
  - apply Z.leb_le. apply Z.leb_le in E. lia.
  - apply Z.leb_gt. apply Z.leb_gt in E. lia.
Qed.
Lemma stride_check_speci : forall t c d s, truth (sdread_stride_badi t c d s) = (d <=? reach s t c).
Proof. exact stride_check_spec0. Qed.

(** NCcoordck's bound test on one coordinate *)
Lemma coordck_bad_spec : forall x d, truth (coordck_bad x d) = negb ((0 <=? x) && (x <? d)).
Proof.
  intros. unfold truth, coordck_bad.
  destruct (x <? 0) eqn:A, (d <=? x) eqn:B, (0 <=? x) eqn:C, (x <? d) eqn:D; simpl; auto;
    repeat match goal with
           | H : (_ <? _) = true |- _ => apply Z.ltb_lt in H
           | H : (_ <? _) = false |- _ => apply Z.ltb_ge in H
           | H : (_ <=? _) = true |- _ => apply Z.leb_le in H
           | H : (_ <=? _) = false |- _ => apply Z.leb_gt in H
           end; lia.
Qed.

Lemma any2_coordck : forall c shape, length c = length shape ->
  any2 coordck_bad c shape = negb (all3 (fun x d _ => (0 <=? x) && (x <? d)) c shape c).
Proof.
  induction c; destruct shape; simpl; intros; try discriminate; auto.
  rewrite coordck_bad_spec, IHc by lia.
  destruct ((0 <=? a) && (a <? z)); simpl; reflexivity.
Qed.

(** NCvcmaxcontig's edge test: an edge is accepted iff 0 <= edge <= shape - origin; the scan stops at
    the first edge shorter than the dimension *)
Lemma maxcontig_bad_spec : forall e s o, truth (maxcontig_bad e s o) = negb ((0 <=? e) && (e <=? s - o)).
Proof.
  intros. unfold truth, maxcontig_bad.
  destruct (s - o <? e) eqn:A, (e <? 0) eqn:B, (0 <=? e) eqn:C, (e <=? s - o) eqn:D; simpl; auto;
    repeat match goal with
           | H : (_ <? _) = true |- _ => apply Z.ltb_lt in H
           | H : (_ <? _) = false |- _ => apply Z.ltb_ge in H
           | H : (_ <=? _) = true |- _ => apply Z.leb_le in H
           | H : (_ <=? _) = false |- _ => apply Z.leb_gt in H
           end; lia.
Qed.
Lemma maxcontig_break_spec : forall e s, truth (maxcontig_break e s) = (e <? s).
Proof. intros. unfold truth, maxcontig_break. destruct (e <? s); reflexivity. Qed.

(** a well-formed strided read that reaches outside a fixed extent is rejected before any transfer *)
Lemma sd_read_stride_rejected : forall m start stride count,
  is_recvar m = false -> (0 < length (m_shape m))%nat ->
  (hd 0 (m_shape m) <=? reach (hd 0 start) (hd 1 stride) (hd 1 count)) = true ->
  sd_read m true start stride count = (m, MRead (-1) [] []).
Proof.
  intros. unfold sd_read. rewrite H.
  destruct (0 <? length (m_shape m))%nat eqn:E; [| apply Nat.ltb_ge in E; lia].
  simpl. rewrite stride_check_spec0, H1. reflexivity.
Qed.

(* ---- record growth (NCcoordck) and first-write fill (hdf_xdr_NCvdata) ------------------------ *)
Lemma fill_iters_neg : forall n, fill_iters n (-1) = 0.
Proof. destruct n; reflexivity. Qed.

Lemma fill_iters_spec : forall n u, 0 <= u -> (Z.to_nat u < n)%nat -> fill_iters n u = u + 1.
Proof.
  induction n; intros. lia.
  cbn [fill_iters]. unfold coordck_fill_more, truth.
  replace (0 <=? u) with true by (symmetry; apply Z.leb_le; auto). simpl negb. cbv iota.
  destruct (Z.eq_dec u 0).
  - subst. simpl. rewrite fill_iters_neg. reflexivity.
  - rewrite IHn by lia. lia.
Qed.

Lemma write_cells_end : forall st idx vals, idx = Z.of_nat (length st) -> write_cells st idx vals = st ++ vals.
Proof.
  intros. unfold write_cells. subst. rewrite Nat2Z.id.
  rewrite firstn_all. rewrite Nat.sub_diag. simpl.
  rewrite skipn_all2 by lia. rewrite app_nil_r. reflexivity.
Qed.

Lemma new_numrecs_spec : forall n c, n = c + 1 -> coordck_new_numrecs n c = c + 1.
Proof.
  intros. unfold coordck_new_numrecs. subst.
  replace (c + 1 <? c + 1) with false by (symmetry; apply Z.ltb_ge; lia). reflexivity.
Qed.

(** writing at record r >= numrecs of an unlimited dataset in fill mode: NCcoordck appends records
    numrecs..r filled with the fill value and sets numrecs to r+1 *)
Lemma unlimited_growth_lemma : forall m coords rc,
  is_recvar m = true -> m_nofill m = false ->
  any2 coordck_bad (tl coords) (tl (m_shape m)) = false ->
  0 <= m_numrecs m <= hd 0 coords ->
  0 < m_esz m -> 0 <= rc -> var_len m = rc * m_esz m ->
  Z.of_nat (length (m_store m)) = m_numrecs m * rc ->
  exists m' tr,
    coordck m true coords = Some (m', tr) /\
    m_numrecs m' = hd 0 coords + 1 /\
    m_store m' = m_store m ++ repeat (Val (fill_of m)) (Z.to_nat ((hd 0 coords + 1 - m_numrecs m) * rc)) /\
    length tr = Z.to_nat (hd 0 coords + 1 - m_numrecs m).
Proof.
  intros m coords rc Hrec Hnf Hin Hnr Hesz Hrc Hlen Hst.
  unfold coordck. rewrite Hrec, Hin.
  assert (Hb : truth (coordck_bad_rec (hd 0 coords)) = false).
  { unfold truth, coordck_bad_rec. replace (hd 0 coords <? 0) with false; auto.
    symmetry. apply Z.ltb_ge. lia. }
  rewrite Hb. simpl orb. cbv iota.
  replace (hd 0 coords - m_numrecs m <? 0) with false by (symmetry; apply Z.ltb_ge; lia).
  simpl negb. cbv iota. rewrite Hnf.
  rewrite fill_iters_spec by lia.
  replace (var_len m / m_esz m) with rc by (rewrite Hlen; symmetry; apply Z.div_mul; lia).
  eexists. eexists. split; [reflexivity|].
  cbn [m_numrecs m_store set_store].
  split; [| split].
  - apply new_numrecs_spec. lia.
  - rewrite write_cells_end by lia. f_equal. f_equal. f_equal. lia.
  - rewrite map_length. unfold zseq. rewrite zrange_length. f_equal. lia.
Qed.

(* ---- the chunked fill loops of hdf_xdr_NCvdata ------------------------------------------------ *)
Lemma min_macro : forall a b, (if Z.eqb (if Z.ltb a b then 1 else 0) 0 then b else a) = Z.min a b.
Proof. intros. destruct (a <? b) eqn:E; simpl; [apply Z.ltb_lt in E | apply Z.ltb_ge in E]; lia. Qed.

Lemma lead_step_spec : forall b c, vdata_lead_loop_step b c = (b - c, Z.min c (b - c)).
Proof. intros. unfold vdata_lead_loop_step. cbv zeta. rewrite min_macro. reflexivity. Qed.
Lemma trail_step_spec : forall b c, vdata_trail_loop_step b c = (b - c, Z.min c (b - c)).
Proof. intros. unfold vdata_trail_loop_step. cbv zeta. rewrite min_macro. reflexivity. Qed.
Lemma lead_more_spec : forall b c, truth (vdata_lead_loop_more b c) = (0 <? b).
Proof. intros. unfold truth, vdata_lead_loop_more. destruct (0 <? b); reflexivity. Qed.
Lemma trail_more_spec : forall b c, truth (vdata_trail_loop_more b c) = (0 <? b).
Proof. intros. unfold truth, vdata_trail_loop_more. destruct (0 <? b); reflexivity. Qed.
Lemma lead_init_spec : forall b, vdata_lead_loop_init b = Z.min b MAX_SIZE.
Proof. intros. unfold vdata_lead_loop_init, MAX_SIZE. apply min_macro. Qed.
Lemma trail_init_spec : forall b, vdata_trail_loop_init b = Z.min b MAX_SIZE.
Proof. intros. unfold vdata_trail_loop_init, MAX_SIZE. apply min_macro. Qed.

(** the loop as the code performs it (first piece min(buf, MAX_SIZE); then "buf -= chunk; chunk = min(chunk, buf)"
    while buf > 0) writes pieces of at most MAX_SIZE bytes whose sizes add up to exactly buf, for EVERY buf > 0 *)
Lemma fill_chunks_sum : forall step more,
  (forall b c, step b c = (b - c, Z.min c (b - c))) -> (forall b c, truth (more b c) = (0 <? b)) ->
  forall fuel buf, 0 < buf -> buf <= Z.of_nat fuel * MAX_SIZE ->
  exists l, fill_chunks step more fuel buf (Z.min buf MAX_SIZE) = Some l /\ sumZ l = buf /\
            Forall (fun c => 0 < c <= MAX_SIZE) l.
Proof.
  intros step more Hs Hm. induction fuel; intros buf Hb Hf. simpl in Hf; lia.
  cbn [fill_chunks]. rewrite Hs, Hm.
  assert (HM : MAX_SIZE = 1000000) by reflexivity.
  destruct (Z_le_gt_dec buf MAX_SIZE).
  - rewrite Z.min_l by lia. replace (buf - buf) with 0 by lia. simpl (0 <? 0).
    exists [buf]. split; auto. split. simpl; lia. constructor; [lia | constructor].
  - rewrite Z.min_r by lia.
    replace (0 <? buf - MAX_SIZE) with true by (symmetry; apply Z.ltb_lt; lia).
    rewrite (Z.min_comm MAX_SIZE).
    destruct (IHfuel (buf - MAX_SIZE)) as [l [E [S F]]]; [lia | lia |].
    rewrite E. exists (MAX_SIZE :: l). split; auto. split. unfold sumZ in *. cbn [fold_right]. lia.
    constructor; [lia | auto].
Qed.

Lemma chunk_fuel_enough : forall b, 0 <= b -> b <= Z.of_nat (chunk_fuel b) * MAX_SIZE.
Proof.
  intros. unfold chunk_fuel. assert (HM : MAX_SIZE = 1000000) by reflexivity.
  pose proof (Z.div_mod b MAX_SIZE ltac:(lia)). pose proof (Z.mod_pos_bound b MAX_SIZE ltac:(lia)).
  assert (0 <= b / MAX_SIZE) by (apply Z.div_pos; lia).
  rewrite Z2Nat.id by lia. nia.
Qed.

Lemma lead_chunks : forall b, 0 < b ->
  exists l, fill_chunks vdata_lead_loop_step vdata_lead_loop_more (chunk_fuel b) b (vdata_lead_loop_init b) = Some l /\
            sumZ l = b /\ Forall (fun c => 0 < c <= MAX_SIZE) l.
Proof.
  intros. rewrite lead_init_spec.
  apply (fill_chunks_sum _ _ lead_step_spec lead_more_spec); auto. apply chunk_fuel_enough. lia.
Qed.
Lemma trail_chunks : forall b, 0 < b ->
  exists l, fill_chunks vdata_trail_loop_step vdata_trail_loop_more (chunk_fuel b) b (vdata_trail_loop_init b) = Some l /\
            sumZ l = b /\ Forall (fun c => 0 < c <= MAX_SIZE) l.
Proof.
  intros. rewrite trail_init_spec.
  apply (fill_chunks_sum _ _ trail_step_spec trail_more_spec); auto. apply chunk_fuel_enough. lia.
Qed.

(** the first write to a new fixed-size dataset in fill mode, through the chunked fill loops the code performs,
    for every offset and length: everything before and after the transfer is written with the fill value in
    pieces of at most MAX_SIZE bytes, the data are transferred at exactly w * esz, and the element gets its
    full length *)
Lemma first_write_fills_explicit : forall m w L count vals,
  m_store m = [] -> m_nofill m = false -> 0 < m_esz m ->
  0 <= w -> 0 <= count -> w + count <= L -> var_len m = L * m_esz m ->
  length vals = Z.to_nat count ->
  exists lc tc,
    xdr_vdata m true (w * m_esz m) count vals =
      Some (set_store m (repeat (Val (fill_of m)) (Z.to_nat w) ++ vals ++
                         repeat (Val (fill_of m)) (Z.to_nat (L - w - count))) (m_numrecs m),
            chunk_transfers 0 lc ++ [TWrite (w * m_esz m) (count * m_esz m)] ++
                chunk_transfers (w * m_esz m + count * m_esz m) tc, []) /\
    sumZ lc = w * m_esz m /\ sumZ tc = (L - w - count) * m_esz m /\
    Forall (fun c => 0 < c <= MAX_SIZE) (lc ++ tc) /\
    Z.of_nat (length (repeat (Val (fill_of m)) (Z.to_nat w) ++ vals ++
                      repeat (Val (fill_of m)) (Z.to_nat (L - w - count)))) * m_esz m = var_len m.
Proof.
  intros m w L count vals Hst Hnf Hesz Hw Hc HL Hlen Hv.
  unfold xdr_vdata, elem_length. cbv zeta. rewrite Hst, Hnf. cbn [length Z.of_nat].
  replace (m_esz m * 0) with 0 by lia. simpl andb. cbv iota.
  set (f := Val (fill_of m)).
  (* leading fill *)
  assert (LEAD : exists lc,
     (if truth (vdata_lead_fill 0 (w * m_esz m)) && true
      then fill_chunks vdata_lead_loop_step vdata_lead_loop_more (chunk_fuel (w * m_esz m)) (w * m_esz m)
                       (vdata_lead_loop_init (w * m_esz m)) else Some []) = Some lc /\
     sumZ lc = w * m_esz m /\ Forall (fun c => 0 < c <= MAX_SIZE) lc /\
     (if truth (vdata_lead_fill 0 (w * m_esz m)) && true then sumZ lc else w * m_esz m) = w * m_esz m /\
     (if truth (vdata_lead_fill 0 (w * m_esz m)) && true then repeat f (Z.to_nat (w * m_esz m / m_esz m)) else [])
       = repeat f (Z.to_nat w)).
  { unfold truth, vdata_lead_fill. simpl (0 <=? 0). cbv iota. simpl (1 =? 0). simpl negb. simpl andb.
    destruct (0 <? w * m_esz m) eqn:E; simpl negb; simpl andb; cbv iota.
    - apply Z.ltb_lt in E. destruct (lead_chunks _ E) as [l [A [B C]]]. exists l.
      repeat split; auto. rewrite Z.div_mul by lia. reflexivity.
    - apply Z.ltb_ge in E. assert (w = 0) by nia. subst. exists []. repeat split; auto. }
  destruct LEAD as [lc [E1 [S1 [F1 [P1 R1]]]]]. rewrite E1.
  rewrite !P1. rewrite R1.
  replace (w * m_esz m / m_esz m) with w by (symmetry; apply Z.div_mul; lia).
  rewrite (write_cells_end (repeat f (Z.to_nat w)) w vals) by (rewrite repeat_length; lia).
  unfold vdata_bytes_left. rewrite Hlen.
  replace (L * m_esz m - (w * m_esz m + count * m_esz m)) with ((L - w - count) * m_esz m) by lia.
  replace ((w * m_esz m + count * m_esz m) / m_esz m) with (w + count)
    by (replace (w * m_esz m + count * m_esz m) with ((w + count) * m_esz m) by lia; symmetry; apply Z.div_mul; lia).
  set (bl := (L - w - count) * m_esz m).
  assert (TRAIL : exists tc,
     (if truth (vdata_trail_fill 0 bl) && true
      then fill_chunks vdata_trail_loop_step vdata_trail_loop_more (chunk_fuel bl) bl (vdata_trail_loop_init bl)
      else Some []) = Some tc /\
     sumZ tc = bl /\ Forall (fun c => 0 < c <= MAX_SIZE) tc /\
     forall st, Z.of_nat (length st) = w + count ->
       (if truth (vdata_trail_fill 0 bl) && true
        then write_cells st (w + count) (repeat f (Z.to_nat (sumZ tc / m_esz m))) else st)
       = st ++ repeat f (Z.to_nat (L - w - count))).
  { unfold truth, vdata_trail_fill. simpl (0 <=? 0). cbv iota. simpl (1 =? 0). simpl negb. simpl andb.
    destruct (0 <? bl) eqn:E; simpl negb; simpl andb; cbv iota.
    - apply Z.ltb_lt in E. destruct (trail_chunks _ E) as [l [A [B C]]]. exists l.
      repeat split; auto. intros st Hl. rewrite B. unfold bl. rewrite Z.div_mul by lia.
      apply write_cells_end. lia.
    - apply Z.ltb_ge in E. unfold bl in *. assert (L - w - count = 0) by nia. exists [].
      repeat split; auto. simpl; lia. intros. rewrite H. simpl. rewrite app_nil_r. reflexivity. }
  destruct TRAIL as [tc [E2 [S2 [F2 W2]]]]. rewrite E2.
  exists lc, tc.
  rewrite W2 by (rewrite app_length, repeat_length; lia).
  rewrite <- app_assoc.
  split; [reflexivity|]. split; auto. split; auto. split. apply Forall_app; auto.
  rewrite !app_length, !repeat_length. nia.
Qed.

Lemma first_write_fills_lemma : forall m w L count vals,
  m_store m = [] -> m_nofill m = false -> 0 < m_esz m ->
  0 <= w -> 0 <= count -> w + count <= L -> var_len m = L * m_esz m ->
  length vals = Z.to_nat count ->
  exists m' lc tc,
    xdr_vdata m true (w * m_esz m) count vals =
      Some (m', chunk_transfers 0 lc ++ [TWrite (w * m_esz m) (count * m_esz m)] ++
                chunk_transfers (w * m_esz m + count * m_esz m) tc, []) /\
    sumZ lc = w * m_esz m /\ sumZ tc = (L - w - count) * m_esz m /\
    Forall (fun c => 0 < c <= MAX_SIZE) (lc ++ tc) /\
    m_store m' = repeat (Val (fill_of m)) (Z.to_nat w) ++ vals ++
                 repeat (Val (fill_of m)) (Z.to_nat (L - w - count)) /\
    Z.of_nat (length (m_store m')) * m_esz m = var_len m.
Proof.
  intros m w L count vals H1 H2 H3 H4 H5 H6 H7 H8.
  destruct (first_write_fills_explicit m w L count vals H1 H2 H3 H4 H5 H6 H7 H8) as [lc [tc [E [A [B [C D]]]]]].
  eexists. exists lc, tc. split. exact E. repeat split; auto.
Qed.

(* ---- the contiguous-run decomposition of NCvario --------------------------------------------- *)
Definition zeros (l : list Z) : list Z := map (fun _ => 0) l.

Lemma slab_cells_len : forall a t c q, length t = length a -> length c = length a ->
  In q (slab_cells a t c) -> length q = length a.
Proof.
  induction a; destruct t, c; simpl; intros; try discriminate.
  - destruct H1; subst; auto. contradiction.
  - apply in_flat_map in H1. destruct H1 as [i [_ H1]]. apply in_map_iff in H1. destruct H1 as [q' [E H1]].
    subst. simpl. f_equal. simpl in H, H0. eapply (IHa t c); [lia | lia | exact H1].
Qed.

Lemma odometer_slab : forall a c, odometer a c = slab_cells a (ones a) c.
Proof.
  induction a; destruct c; simpl; auto.
  apply flat_map_ext'. intros. rewrite IHa. reflexivity.
Qed.

Lemma ranges_concat : forall n s P,
  flat_map (fun i => zrange (i * Z.of_nat P) 1 P) (zrange s 1 n) = zrange (s * Z.of_nat P) 1 (n * P).
Proof.
  induction n; intros; simpl; auto.
  rewrite IHn. rewrite zrange_app.
  replace ((s + 1) * Z.of_nat P) with (s * Z.of_nat P + Z.of_nat P * 1) by lia. reflexivity.
Qed.

Lemma lin_zeros : forall post, lin post (zeros post) = 0.
Proof.
  induction post; simpl; auto.
Qed.

Lemma prod_nonneg : forall l, Forall (fun d => 0 <= d) l -> 0 <= prod l.
Proof. induction 1; unfold prod in *; simpl. lia. fold (prod l) in *. nia. Qed.

(** a slab covering whole trailing dimensions enumerates consecutive linear indices *)
Lemma full_consecutive : forall post, Forall (fun d => 0 <= d) post ->
  map (lin post) (slab_cells (zeros post) (ones post) post) = zrange 0 1 (Z.to_nat (prod post)).
Proof.
  induction 1 as [| d ds Hd Hds IH].
  - reflexivity.
  - unfold zeros, ones in *. cbn [map slab_cells].
    rewrite map_flat_map.
    erewrite flat_map_ext'.
    2:{ intros i _. rewrite map_map.
        erewrite map_ext_in.
        2:{ intros q Hq. apply slab_cells_len in Hq; [| rewrite !map_length; auto | rewrite map_length; auto].
            rewrite map_length in Hq. rewrite lin_cons by auto. reflexivity. }
        rewrite <- (map_map (lin ds) (fun x => i * prod ds + x)). rewrite IH.
        erewrite map_ext. 2:{ intros. rewrite Z.add_comm. reflexivity. }
        rewrite zrange_map_add. replace (0 + i * prod ds) with (i * Z.of_nat (Z.to_nat (prod ds))).
        reflexivity. rewrite Z2Nat.id by (apply prod_nonneg; auto). lia. }
    rewrite ranges_concat. unfold prod. cbn [fold_right]. fold (prod ds).
    pose proof (prod_nonneg ds Hds). f_equal.
    all: try lia.
    all: try (rewrite Z2Nat.inj_mul by lia; reflexivity).
Qed.

Lemma lin_acc_app : forall pre p post q acc, length p = length pre ->
  lin_acc (pre ++ post) (p ++ q) acc = lin_acc post q (lin_acc pre p acc).
Proof. induction pre; destruct p; simpl; intros; try discriminate; auto. Qed.

Lemma lin_app : forall pre post p q, length p = length pre -> length q = length post ->
  lin (pre ++ post) (p ++ q) = lin pre p * prod post + lin post q.
Proof. intros. unfold lin. rewrite lin_acc_app by auto. rewrite lin_acc_spec by auto. reflexivity. Qed.

Lemma slab_app : forall a ta c b tb d, length ta = length a -> length c = length a ->
  slab_cells (a ++ b) (ta ++ tb) (c ++ d) =
  flat_map (fun p => map (app p) (slab_cells b tb d)) (slab_cells a ta c).
Proof.
  induction a; destruct ta, c; intros; try discriminate.
  - simpl. rewrite map_id, app_nil_r. reflexivity.
  - cbn [app slab_cells]. rewrite flat_map_flat_map. apply flat_map_ext'. intros i _.
    rewrite IHa by (simpl in *; lia). rewrite map_flat_map, flat_map_map'.
    apply flat_map_ext'. intros p _. rewrite map_map. reflexivity.
Qed.

(** one I/O of NCvario: start index sk, ek rows of whole trailing dimensions = consecutive indices *)
Lemma block_consecutive : forall dk post sk ek, Forall (fun d => 0 <= d) post -> 0 <= ek ->
  map (lin (dk :: post)) (slab_cells (sk :: zeros post) (1 :: ones post) (ek :: post)) =
  zrange (sk * prod post) 1 (Z.to_nat (ek * prod post)).
Proof.
  intros. cbn [slab_cells]. rewrite map_flat_map.
  erewrite flat_map_ext'.
  2:{ intros i _. rewrite map_map. erewrite map_ext_in.
      2:{ intros q Hq. apply slab_cells_len in Hq; [| unfold zeros, ones; rewrite !map_length; auto | unfold zeros; rewrite map_length; auto].
          unfold zeros in Hq. rewrite map_length in Hq. rewrite lin_cons by auto. reflexivity. }
      rewrite <- (map_map (lin post) (fun x => i * prod post + x)).
      replace (ones post) with (ones (zeros post)) by (unfold ones, zeros; rewrite map_map; reflexivity).
      replace (ones (zeros post)) with (ones post) by (unfold ones, zeros; rewrite map_map; reflexivity).
      rewrite full_consecutive by auto.
      erewrite map_ext. 2:{ intros. rewrite Z.add_comm. reflexivity. }
      rewrite zrange_map_add.
      replace (0 + i * prod post) with (i * Z.of_nat (Z.to_nat (prod post)))
        by (rewrite Z2Nat.id by (apply prod_nonneg; auto); lia).
      reflexivity. }
  rewrite ranges_concat. pose proof (prod_nonneg post H).
  rewrite Z2Nat.id by auto. rewrite Z2Nat.inj_mul by lia. reflexivity.
Qed.

(** The contiguous-run decomposition: with whole trailing dimensions [post] (start 0, edge = extent) and
    an arbitrary edge ek at dimension k, issuing at every odometer position p of the leading dimensions
    one transfer of ek * prod post elements starting at p ++ [sk;0..0] touches exactly the slab's cells,
    in row-major order. *)
Lemma vario_blocks_rowmajor_lemma : forall pre post dk spre sk epre ek,
  length spre = length pre -> length epre = length pre ->
  Forall (fun d => 0 <= d) post -> 0 <= ek ->
  flat_map (fun p => zrange (lin (pre ++ dk :: post) (p ++ sk :: zeros post)) 1 (Z.to_nat (ek * prod post)))
           (odometer spre epre)
  = map (lin (pre ++ dk :: post))
        (slab_cells (spre ++ sk :: zeros post) (ones (spre ++ sk :: zeros post)) (epre ++ ek :: post)).
Proof.
  intros pre post dk spre sk epre ek Hs He Hpost Hek.
  rewrite odometer_slab.
  replace (ones (spre ++ sk :: zeros post)) with (ones spre ++ 1 :: ones post)
    by (unfold ones, zeros; rewrite map_app; cbn [map]; rewrite map_map; reflexivity).
  rewrite slab_app by (unfold ones; rewrite ?map_length; lia).
  rewrite map_flat_map. apply flat_map_ext'. intros p Hp.
  apply slab_cells_len in Hp; [| unfold ones; rewrite map_length; auto | lia].
  rewrite map_map.
  erewrite map_ext_in.
  2:{ intros q Hq. apply slab_cells_len in Hq;
        [| unfold ones, zeros; cbn [length]; rewrite !map_length; auto | unfold zeros; cbn [length]; rewrite map_length; auto].
      rewrite lin_app by (unfold zeros in Hq; cbn [length] in *; rewrite ?map_length in Hq; lia). reflexivity. }
  rewrite <- (map_map (lin (dk :: post)) (fun x => lin pre p * prod (dk :: post) + x)).
  rewrite block_consecutive by auto.
  rewrite lin_app by (unfold zeros; cbn [length]; rewrite ?map_length; lia).
  rewrite lin_cons by (unfold zeros; rewrite map_length; auto). rewrite lin_zeros.
  erewrite map_ext. 2:{ intros. rewrite Z.add_comm. reflexivity. }
  rewrite zrange_map_add. f_equal. lia.
Qed.

(* ---- NCvcmaxcontig returns k  ==>  the dimensions after k are taken whole ---------------------- *)
Definition tri_ok (x : Z * Z * Z) : Prop := let '(e, s, o) := x in 0 <= e <= s - o.
Definition tri_whole (x : Z * Z * Z) : Prop := let '(e, s, o) := x in 0 <= e <= s - o /\ s <= e.

Lemma scan_struct : forall l i b k,
  maxcontig_scan l i b = Some k -> l <> [] -> (i + 1 = b + length l)%nat ->
  exists after xk before,
    l = after ++ xk :: before /\ (length before + b = k)%nat /\ Forall tri_whole after /\ tri_ok xk.
Proof.
  induction l as [| x r IH]; intros i b k H Hne Hi. congruence.
  destruct x as [[e s] o]. cbn [maxcontig_scan] in H.
  rewrite maxcontig_bad_spec, maxcontig_break_spec in H.
  destruct ((0 <=? e) && (e <=? s - o)) eqn:A; simpl negb in H; cbv iota in H; [| discriminate].
  apply andb_prop in A. destruct A as [A1 A2]. apply Z.leb_le in A1. apply Z.leb_le in A2.
  destruct (e <? s) eqn:B.
  - inversion H; subst. exists [], (e, s, o), r. simpl in *. repeat split; auto; lia.
  - apply Z.ltb_ge in B. destruct r as [| y r'].
    + simpl in H. inversion H; subst. exists [], (e, s, o), []. simpl. repeat split; auto; lia.
    + destruct (IH (Nat.pred i) b k H) as [after [xk [before [E [L [W O]]]]]]. congruence.
      simpl in *. lia.
      exists ((e, s, o) :: after), xk, before. rewrite E. repeat split; auto.
      constructor; auto. simpl. lia.
Qed.

Lemma combine3_split : forall (A : list (Z * Z * Z)) E S O x B,
  length S = length E -> length O = length E ->
  combine (combine E S) O = A ++ x :: B ->
  exists E1 e E2 S1 s S2 O1 o O2,
    E = E1 ++ e :: E2 /\ S = S1 ++ s :: S2 /\ O = O1 ++ o :: O2 /\ x = (e, s, o) /\
    length E1 = length A /\ length S1 = length A /\ length O1 = length A /\
    length S2 = length E2 /\ length O2 = length E2 /\
    B = combine (combine E2 S2) O2.
Proof.
  induction A as [| a A IH]; intros E S O x B HS HO H.
  - destruct E as [| e E], S as [| s S], O as [| o O]; simpl in *; try discriminate.
    inversion H; subst. exists [], e, E, [], s, S, [], o, O. simpl. repeat split; auto; lia.
  - destruct E as [| e E], S as [| s S], O as [| o O]; simpl in *; try discriminate.
    inversion H; subst.
    destruct (IH E S O x B) as [E1 [e' [E2 [S1 [s' [S2 [O1 [o' [O2 P]]]]]]]]]; try lia; auto.
    destruct P as [P1 [P2 [P3 [P4 [P5 [P6 [P7 [P8 [P9 P10]]]]]]]]].
    exists (e :: E1), e', E2, (s :: S1), s', S2, (o :: O1), o', O2. subst. simpl. repeat split; auto; lia.
Qed.

Lemma whole_combine : forall E2 S2 O2, length S2 = length E2 -> length O2 = length E2 ->
  Forall (fun o => 0 <= o) O2 -> Forall tri_whole (combine (combine E2 S2) O2) ->
  E2 = S2 /\ O2 = zeros S2.
Proof.
  induction E2; destruct S2, O2; simpl; intros; try discriminate; auto.
  inversion H1; inversion H2; subst. simpl in H9. 
  destruct (IHE2 S2 O2) as [P Q]; auto; try lia. subst.
  split; [f_equal; lia | unfold zeros in *; simpl; f_equal; auto; lia].
Qed.

Lemma vcmaxcontig_sound : forall m origin edges k,
  length origin = length (m_shape m) -> length edges = length (m_shape m) ->
  ((if is_recvar m then 1 else 0) < length (m_shape m))%nat ->
  Forall (fun o => 0 <= o) origin ->
  vcmaxcontig m origin edges = Some k ->
  exists pre dk post spre sk epre ek,
    m_shape m = pre ++ dk :: post /\ origin = spre ++ sk :: zeros post /\ edges = epre ++ ek :: post /\
    length pre = k /\ length spre = k /\ length epre = k /\ 0 <= ek <= dk - sk.
Proof.
  intros m origin edges k Ho He Hb Hpos H.
  unfold vcmaxcontig in H.
  set (b := if is_recvar m then 1%nat else 0%nat) in *.
  set (tr := combine (combine (skipn b edges) (skipn b (m_shape m))) (skipn b origin)) in *.
  assert (Ltr : length tr = (length (m_shape m) - b)%nat).
  { unfold tr. rewrite !combine_length, !skipn_length. lia. }
  destruct (scan_struct (rev tr) (Nat.pred (length (m_shape m))) b k H) as [after [xk [before [E [L [W O]]]]]].
  - intro C. apply (f_equal (@length _)) in C. rewrite rev_length in C. simpl in C. lia.
  - rewrite rev_length. lia.
  - assert (T : tr = rev before ++ xk :: rev after).
    { rewrite <- (rev_involutive tr), E. rewrite rev_app_distr. simpl. rewrite <- app_assoc. reflexivity. }
    unfold tr in T.
    assert (L1 : length (skipn b (m_shape m)) = length (skipn b edges)) by (rewrite !skipn_length; lia).
    assert (L2 : length (skipn b origin) = length (skipn b edges)) by (rewrite !skipn_length; lia).
    destruct (combine3_split (rev before) (skipn b edges) (skipn b (m_shape m)) (skipn b origin) xk (rev after) L1 L2 T)
      as [E1 [ek [E2 [S1 [dk [S2 [O1 [sk [O2 P]]]]]]]]].
    destruct P as [P1 [P2 [P3 [P4 [P5 [P6 [P7 [P8 [P9 P10]]]]]]]]].
    assert (Hpos2 : Forall (fun o => 0 <= o) O2).
    { assert (F : Forall (fun o => 0 <= o) (skipn b origin)).
      { rewrite <- (firstn_skipn b origin) in Hpos. apply Forall_app in Hpos. tauto. }
      rewrite P3 in F. apply Forall_app in F. destruct F as [_ F]. inversion F; auto. }
    assert (Wr : Forall tri_whole (combine (combine E2 S2) O2)).
    { rewrite <- P10. apply Forall_rev. auto. }
    destruct (whole_combine E2 S2 O2 P8 P9 Hpos2 Wr) as [Q1 Q2]. subst E2 O2.
    rewrite rev_length in P5, P6, P7.
    exists (firstn b (m_shape m) ++ S1), dk, S2, (firstn b origin ++ O1), sk, (firstn b edges ++ E1), ek.
    repeat split.
    + rewrite <- app_assoc, <- P2. symmetry. apply firstn_skipn.
    + rewrite <- app_assoc, <- P3. symmetry. apply firstn_skipn.
    + rewrite <- app_assoc, <- P1. symmetry. apply firstn_skipn.
    + rewrite app_length, firstn_length. lia.
    + rewrite app_length, firstn_length. lia.
    + rewrite app_length, firstn_length. lia.
    + subst xk. simpl in O. lia.
    + subst xk. simpl in O. lia.
Qed.

Lemma firstn_exact : forall {A} (l r : list A) k, length l = k -> firstn k (l ++ r) = l.
Proof. induction l; intros; subst; simpl; auto. f_equal. auto. Qed.
Lemma skipn_exact : forall {A} (l r : list A) k, length l = k -> skipn k (l ++ r) = r.
Proof. induction l; intros; subst; simpl; auto. Qed.

Lemma block_lin : forall m n p, length p = length (m_shape m) ->
  block m n p = map (fun i => m_esz m * i) (zrange (lin (m_shape m) p) 1 (Z.to_nat n)).
Proof.
  intros. unfold block, zseq. rewrite varoffset_rowmajor_lemma by auto.
  replace (zrange (lin (m_shape m) p) 1 (Z.to_nat n))
    with (map (fun x => x + lin (m_shape m) p) (zrange 0 1 (Z.to_nat n))) by (rewrite zrange_map_add; reflexivity).
  rewrite map_map. apply map_ext. intros. lia.
Qed.

(** NCvario's transfer plan, at full strength: for every variable (fixed-size or record, rank >= 1 resp. 2),
    every non-negative start and every edge vector that NCvcmaxcontig accepts, the element offsets of the
    transfers, concatenated in the order the ripple counter issues them, are exactly the offsets of the slab's
    cells in row-major order. *)
Lemma vario_plan_correct_lemma : forall m start edges ps n,
  length start = length (m_shape m) -> length edges = length (m_shape m) ->
  ((if is_recvar m then 1 else 0) < length (m_shape m))%nat ->
  Forall (fun o => 0 <= o) start -> Forall (fun d => 0 <= d) (m_shape m) ->
  vario_plan m start edges = Some (ps, n) ->
  flat_map (block m n) ps = map (varoffset m) (slab_cells start (ones start) edges).
Proof.
  intros m start edges ps n Hs He Hb Hpos Hsh H.
  unfold vario_plan in H. destruct (vcmaxcontig m start edges) as [k|] eqn:V; [| discriminate].
  destruct (vcmaxcontig_sound m start edges k Hs He Hb Hpos V)
    as [pre [dk [post [spre [sk [epre [ek [S1 [S2 [S3 [L1 [L2 [L3 [Hek Hek2]]]]]]]]]]]]]].
  assert (N : prod (skipn k edges) = ek * prod post).
  { rewrite S3. rewrite (skipn_exact epre (ek :: post) k L3). unfold prod. simpl. reflexivity. }
  assert (P : ps = map (fun p => p ++ skipn k start) (odometer (firstn k start) (firstn k edges)) /\
              n = ek * prod post).
  { inversion H. split; [destruct k; auto | congruence]. }
  clear H. destruct P; subst ps n.
  assert (F1 : firstn k start = spre) by (rewrite S2; apply firstn_exact; auto).
  assert (F2 : skipn k start = sk :: zeros post) by (rewrite S2; apply skipn_exact; auto).
  assert (F3 : firstn k edges = epre) by (rewrite S3; apply firstn_exact; auto).
  rewrite F1, F2, F3.
  assert (Hpost : Forall (fun d => 0 <= d) post).
  { rewrite S1 in Hsh. apply Forall_app in Hsh. destruct Hsh as [_ F]. inversion F; auto. }
  rewrite flat_map_map'.
  erewrite flat_map_ext'.
  2:{ intros p Hp. rewrite odometer_slab in Hp.
      apply slab_cells_len in Hp; [| unfold ones; rewrite map_length; auto | lia].
      rewrite block_lin.
      2:{ rewrite S1, !app_length. simpl. unfold zeros. rewrite map_length. lia. }
      rewrite S1. reflexivity. }
  rewrite <- map_flat_map.
  rewrite vario_blocks_rowmajor_lemma by (auto; lia).
  rewrite map_map. rewrite <- S2, <- S3, <- S1.
  apply map_ext_in. intros c Hc.
  apply slab_cells_len in Hc; [| unfold ones; rewrite map_length; auto | lia].
  rewrite varoffset_rowmajor_lemma by lia. reflexivity.
Qed.

(* ---- requests reaching outside the extent are rejected ----------------------------------------- *)
Lemma coordck_fixed : forall m w p, is_recvar m = false ->
  coordck m w p = if any2 coordck_bad p (m_shape m) then None else Some (m, []).
Proof. intros. unfold coordck. rewrite H. destruct (any2 coordck_bad p (m_shape m)); reflexivity. Qed.

Lemma xdr_vdata_shape : forall m w wh c v m2 tr cs,
  xdr_vdata m w wh c v = Some (m2, tr, cs) -> m_shape m2 = m_shape m.
Proof.
  intros m w wh c v m2 tr cs H. unfold xdr_vdata in H. cbv zeta in H.
  destruct ((elem_length m <=? 0) && negb w); [inversion H; reflexivity |].
  destruct w.
  - match type of H with (match ?x with _ => _ end) = _ => destruct x; [| discriminate] end.
    match type of H with (match ?x with _ => _ end) = _ => destruct x; [| discriminate] end.
    inversion H. reflexivity.
  - match type of H with (if ?x then _ else _) = _ => destruct x; [discriminate |] end.
    inversion H. reflexivity.
Qed.

Lemma is_recvar_shape : forall m m', m_shape m' = m_shape m -> is_recvar m' = is_recvar m.
Proof. intros. unfold is_recvar. rewrite H. reflexivity. Qed.

(** the ripple counter fails as soon as one of its positions is outside the shape *)
Lemma vario_loop_false : forall w n positions a,
  is_recvar (acc_m a) = false ->
  (exists p, In p positions /\ any2 coordck_bad p (m_shape (acc_m a)) = true) ->
  fst (vario_loop w n positions a) = false.
Proof.
  induction positions as [| p0 rest IH]; intros a Hr [p [Hin Hbad]]. contradiction.
  cbn [vario_loop]. rewrite coordck_fixed by auto.
  destruct (any2 coordck_bad p0 (m_shape (acc_m a))) eqn:B0; [reflexivity |].
  destruct Hin as [-> | Hin]; [congruence |].
  destruct (xdr_vdata (acc_m a) w (varoffset (acc_m a) p0) n (firstn (Z.to_nat n) (acc_vals a)))
    as [[[m2 tr2] cs] |] eqn:X; [| reflexivity].
  pose proof (xdr_vdata_shape _ _ _ _ _ _ _ _ X) as Sh.
  apply IH; cbn [acc_m].
  - rewrite (is_recvar_shape _ _ Sh). auto.
  - exists p. rewrite Sh. auto.
Qed.

Lemma all4_app : forall f a1 b1 c1 d1 a2 b2 c2 d2,
  length b1 = length a1 -> length c1 = length a1 -> length d1 = length a1 ->
  all4 f (a1 ++ a2) (b1 ++ b2) (c1 ++ c2) (d1 ++ d2) = all4 f a1 b1 c1 d1 && all4 f a2 b2 c2 d2.
Proof.
  induction a1; destruct b1, c1, d1; simpl; intros; try discriminate; auto.
  rewrite IHa1 by lia. rewrite andb_assoc. reflexivity.
Qed.

Lemma any2_app_l : forall f p d q e, length p = length d -> any2 f p d = true -> any2 f (p ++ q) (d ++ e) = true.
Proof.
  induction p; destruct d; simpl; intros; try discriminate.
  destruct (truth (f a z)); simpl in *; auto.
Qed.

Lemma in_zrange1 : forall n s x, s <= x < s + Z.of_nat n -> In x (zrange s 1 n).
Proof.
  induction n; intros; simpl in *. lia.
  destruct (Z.eq_dec s x); [left; auto | right; apply IHn; lia].
Qed.

Lemma odometer_start : forall s e, length e = length s -> Forall (fun c => 1 <= c) e -> In s (odometer s e).
Proof.
  induction s; destruct e; simpl; intros; try discriminate; auto.
  inversion H0; subst. apply in_flat_map. exists a. split.
  - apply in_zrange1. lia.
  - apply in_map. apply IHs; auto.
Qed.

Lemma odometer_len : forall s e p, length e = length s -> In p (odometer s e) -> length p = length s.
Proof.
  intros. rewrite odometer_slab in H0.
  apply (slab_cells_len s (ones s) e p); [unfold ones; apply map_length | auto | auto].
Qed.

(** if a unit-stride request with positive edges leaves the shape somewhere, the odometer contains a position
    that lies outside the shape *)
Lemma oob_bad_position : forall s e d, length e = length s -> length d = length s ->
  Forall (fun c => 1 <= c) e -> all4 dim_in s (ones s) e d = false ->
  exists p, In p (odometer s e) /\ any2 coordck_bad p d = true.
Proof.
  induction s as [| s0 s IH]; destruct e as [| e0 e], d as [| d0 d]; intros He Hd Hf H; try discriminate.
  inversion Hf as [| ? ? He0 Hf']; subst.
  cbn [ones map all4] in H. unfold ones in IH.
  cbn [odometer].
  destruct (dim_in s0 1 e0 d0) eqn:D.
  - simpl in H. destruct (IH e d) as [p [Pin Pbad]]; auto.
    exists (s0 :: p). split.
    + apply in_flat_map. exists s0. split. apply in_zrange1; lia. apply in_map; auto.
    + cbn [any2]. rewrite Pbad. apply orb_true_r.
  - unfold dim_in, reach in D.
    assert (St : In s (odometer s e)) by (apply odometer_start; auto).
    destruct (Z_lt_dec s0 0) as [N | N]; [| destruct (Z_le_dec d0 s0) as [G | G]].
    + exists (s0 :: s). split.
      * apply in_flat_map. exists s0. split. apply in_zrange1; lia. apply in_map; auto.
      * cbn [any2]. rewrite coordck_bad_spec. replace (0 <=? s0) with false by (symmetry; apply Z.leb_gt; lia). reflexivity.
    + exists (s0 :: s). split.
      * apply in_flat_map. exists s0. split. apply in_zrange1; lia. apply in_map; auto.
      * cbn [any2]. rewrite coordck_bad_spec. replace (s0 <? d0) with false by (symmetry; apply Z.ltb_ge; lia).
        rewrite andb_false_r. reflexivity.
    + replace (0 <=? s0) with true in D by (symmetry; apply Z.leb_le; lia). simpl in D. apply Z.ltb_ge in D.
      exists (d0 :: s). split.
      * apply in_flat_map. exists d0. split. apply in_zrange1; lia. apply in_map; auto.
      * cbn [any2]. rewrite coordck_bad_spec. replace (d0 <? d0) with false by (symmetry; apply Z.ltb_ge; lia).
        rewrite andb_false_r. reflexivity.
Qed.

Lemma any2_false_nonneg : forall p d, length p = length d -> any2 coordck_bad p d = false -> Forall (fun o => 0 <= o) p.
Proof.
  induction p; destruct d; simpl; intros; try discriminate; auto.
  apply orb_false_elim in H0. destruct H0 as [A B]. rewrite coordck_bad_spec in A.
  apply negb_false_iff in A. apply andb_prop in A. destruct A as [A _]. apply Z.leb_le in A.
  constructor; auto. apply IHp with d; auto.
Qed.

Lemma whole_in_range : forall post, all4 dim_in (zeros post) (ones post) post post = true.
Proof.
  induction post; auto. unfold zeros, ones in *. cbn [map all4]. rewrite IHpost.
  unfold dim_in, reach. rewrite andb_true_r. apply andb_true_intro. split.
  apply Z.leb_le; lia. apply Z.ltb_lt; lia.
Qed.

Lemma prod_pos : forall l, Forall (fun c => 1 <= c) l -> 1 <= prod l.
Proof. induction 1; unfold prod in *; simpl. lia. fold (prod l) in *. nia. Qed.

(** NCvario on a fixed-size variable: a unit-stride request with positive edges that reaches outside the shape
    in any dimension returns -1 -- either NCcoordck rejects the start, or NCvcmaxcontig rejects an edge, or the
    ripple counter reaches a position NCcoordck rejects. *)
Lemma vario_oob_fails : forall w a start edges,
  is_recvar (acc_m a) = false -> (0 < length (m_shape (acc_m a)))%nat ->
  length start = length (m_shape (acc_m a)) -> length edges = length (m_shape (acc_m a)) ->
  Forall (fun c => 1 <= c) edges ->
  all4 dim_in start (ones start) edges (m_shape (acc_m a)) = false ->
  fst (vario w start edges a) = false.
Proof.
  intros w a start edges Hr Hn Hs He Hpos Hout.
  unfold vario. destruct (m_shape (acc_m a)) as [| d0 dr] eqn:Sh. simpl in Hn; lia.
  rewrite <- Sh in *. rewrite coordck_fixed by auto.
  destruct (any2 coordck_bad start (m_shape (acc_m a))) eqn:B; [reflexivity |].
  cbn [acc_m]. rewrite Hr. cbn [andb].
  destruct (vario_plan (acc_m a) start edges) as [[ps n] |] eqn:P; [| reflexivity].
  pose proof (any2_false_nonneg _ _ Hs B) as Hnn.
  unfold vario_plan in P. destruct (vcmaxcontig (acc_m a) start edges) as [k|] eqn:V; [| discriminate].
  assert (Hb : ((if is_recvar (acc_m a) then 1 else 0) < length (m_shape (acc_m a)))%nat) by (rewrite Hr; lia).
  destruct (vcmaxcontig_sound _ _ _ _ Hs He Hb Hnn V)
    as [pre [dk [post [spre [sk [epre [ek [S1 [S2 [S3 [L1 [L2 [L3 [Hek Hek2]]]]]]]]]]]]]].
  assert (F1 : firstn k start = spre) by (rewrite S2; apply firstn_exact; auto).
  assert (F2 : skipn k start = sk :: zeros post) by (rewrite S2; apply skipn_exact; auto).
  assert (F3 : firstn k edges = epre) by (rewrite S3; apply firstn_exact; auto).
  assert (F4 : skipn k edges = ek :: post) by (rewrite S3; apply skipn_exact; auto).
  assert (Pps : ps = map (fun p => p ++ sk :: zeros post) (odometer spre epre) /\ n = prod (ek :: post)).
  { inversion P. rewrite F4. split; auto. destruct k; rewrite ?F1, ?F2, ?F3; auto.
    simpl in *. destruct spre, epre; try discriminate. simpl. rewrite F2. reflexivity. }
  destruct Pps as [-> ->]. clear P.
  assert (Hep : Forall (fun c => 1 <= c) (ek :: post)).
  { rewrite S3 in Hpos. apply Forall_app in Hpos. tauto. }
  pose proof (prod_pos _ Hep) as Hp1.
  replace (prod (ek :: post) =? 0) with false by (symmetry; apply Z.eqb_neq; lia).
  (* the leading part of the request is out of range *)
  assert (Hpre : all4 dim_in spre (ones spre) epre pre = false).
  { rewrite S1, S2, S3 in Hout.
    replace (ones (spre ++ sk :: zeros post)) with (ones spre ++ 1 :: ones post) in Hout
      by (unfold ones, zeros; rewrite map_app; cbn [map]; rewrite map_map; reflexivity).
    rewrite all4_app in Hout by (unfold ones; rewrite ?map_length; lia).
    cbn [all4] in Hout. rewrite whole_in_range in Hout.
    assert (Hsk : 0 <= sk).
    { rewrite S2 in Hnn. apply Forall_app in Hnn. destruct Hnn as [_ F]. inversion F; auto. }
    inversion Hep; subst.
    assert (D : dim_in sk 1 ek dk = true).
    { unfold dim_in, reach. apply andb_true_intro. split. apply Z.leb_le; auto. apply Z.ltb_lt. lia. }
    rewrite D in Hout. simpl in Hout. rewrite andb_true_r in Hout. exact Hout. }
  assert (Hepre : Forall (fun c => 1 <= c) epre).
  { rewrite S3 in Hpos. apply Forall_app in Hpos. tauto. }
  destruct (oob_bad_position spre epre pre ltac:(lia) ltac:(lia) Hepre Hpre) as [p' [Pin Pbad]].
  match goal with |- fst (let (ok, a2) := ?L in _) = false =>
    assert (LF : fst L = false); [| destruct L as [ok a2]; simpl in LF; subst ok; reflexivity] end.
  apply vario_loop_false; cbn [acc_m]; auto.
  exists (p' ++ sk :: zeros post). split.
  - apply in_map_iff. exists p'. auto.
  - rewrite S1. apply any2_app_l; auto. rewrite (odometer_len spre epre p') by (auto; lia). lia.
Qed.

Definition reach_in (s t c d : Z) : bool := reach s t c <? d.

Lemma stride_bad_rest_spec : forall ts cs ds ss,
  length cs = length ts -> length ds = length ts -> length ss = length ts ->
  stride_bad_rest ts cs ds ss = negb (all4 reach_in ss ts cs ds).
Proof.
  induction ts; destruct cs, ds, ss; simpl; intros; try discriminate; auto.
  rewrite stride_check_speci, IHts by lia. unfold reach_in.
  rewrite negb_andb. f_equal. rewrite Z.leb_antisym. reflexivity.
Qed.

(** SDreaddata with a stride array on a fixed-size dataset: whenever the last index start+(count-1)*stride reaches
    the extent in ANY dimension, the call returns FAIL before any transfer and without touching the dataset *)
Lemma sd_read_strided_rejected : forall m start stride count,
  is_recvar m = false -> (0 < length (m_shape m))%nat ->
  length start = length (m_shape m) -> length stride = length (m_shape m) -> length count = length (m_shape m) ->
  all4 reach_in start stride count (m_shape m) = false ->
  sd_read m true start stride count = (m, MRead (-1) [] []).
Proof.
  intros m start stride count Hr Hn Hs Ht Hc H.
  unfold sd_read. rewrite Hr.
  destruct (0 <? length (m_shape m))%nat eqn:E; [| apply Nat.ltb_ge in E; lia].
  destruct (m_shape m) as [| d ds]; [simpl in Hn; lia |].
  destruct start as [| s ss], stride as [| t ts], count as [| c cs]; try discriminate.
  cbn [hd tl andb]. rewrite stride_check_spec0.
  rewrite stride_bad_rest_spec by (simpl in *; lia).
  cbn [all4] in H. unfold reach_in at 1 in H. rewrite Z.leb_antisym.
  destruct (reach s t c <? d); simpl in *; [rewrite H; reflexivity | reflexivity].
Qed.

(** SDreaddata / SDwritedata without strides (stride NULL, or for writes all strides 1) on a fixed-size dataset:
    a request with positive counts reaching outside the shape in any dimension returns FAIL *)
Lemma sd_read_unit_rejected : forall m start stride count,
  is_recvar m = false -> (0 < length (m_shape m))%nat ->
  length start = length (m_shape m) -> length count = length (m_shape m) ->
  Forall (fun c => 1 <= c) count ->
  all4 dim_in start (ones start) count (m_shape m) = false ->
  exists m' cells tr, sd_read m false start stride count = (m', MRead (-1) cells tr).
Proof.
  intros. unfold sd_read. cbn [andb].
  pose proof (vario_oob_fails false (mkAcc m [] [] []) start count H H0 H1 H2 H3 H4) as F.
  destruct (vario false start count (mkAcc m [] [] [])) as [ok a']. simpl in F. subst ok.
  eexists. eexists. eexists. reflexivity.
Qed.

Lemma sd_write_unit_rejected : forall m us start stride count vals,
  is_recvar m = false -> (0 < length (m_shape m))%nat ->
  length start = length (m_shape m) -> length count = length (m_shape m) ->
  Forall (fun c => 1 <= c) count ->
  us = false \/ forallb (fun t => t =? 1) stride = true ->
  all4 dim_in start (ones start) count (m_shape m) = false ->
  exists m' tr, sd_write m us start stride count vals = (m', MRet (-1) tr).
Proof.
  intros m us start stride count vals Hr Hn Hs Hc Hp Hu Hout. unfold sd_write.
  assert (E : us && negb (forallb (fun t => t =? 1) stride) = false).
  { destruct Hu as [-> | ->]; auto. apply andb_false_r. }
  rewrite E.
  pose proof (vario_oob_fails true (mkAcc m [] [] (map Val vals)) start count Hr Hn Hs Hc Hp Hout) as F.
  destruct (vario true start count (mkAcc m [] [] (map Val vals))) as [ok a']. simpl in F. subst ok.
  eexists. eexists. reflexivity.
Qed.

(* ---- NCgenio: strided requests reaching outside the extent ------------------------------------- *)
Lemma vario_loop_shape : forall w n positions a,
  is_recvar (acc_m a) = false ->
  m_shape (acc_m (snd (vario_loop w n positions a))) = m_shape (acc_m a).
Proof.
  induction positions as [| p0 rest IH]; intros a Hr; auto.
  cbn [vario_loop]. rewrite coordck_fixed by auto.
  destruct (any2 coordck_bad p0 (m_shape (acc_m a))); auto.
  destruct (xdr_vdata (acc_m a) w (varoffset (acc_m a) p0) n (firstn (Z.to_nat n) (acc_vals a)))
    as [[[m2 tr2] cs] |] eqn:X; auto.
  pose proof (xdr_vdata_shape _ _ _ _ _ _ _ _ X) as Sh.
  rewrite IH; cbn [acc_m]; auto. rewrite (is_recvar_shape _ _ Sh). auto.
Qed.

Lemma vario_shape : forall w start edges a,
  is_recvar (acc_m a) = false -> (0 < length (m_shape (acc_m a)))%nat ->
  m_shape (acc_m (snd (vario w start edges a))) = m_shape (acc_m a).
Proof.
  intros w start edges a Hr Hn. unfold vario.
  destruct (m_shape (acc_m a)) as [| d0 dr] eqn:Sh. simpl in Hn; lia.
  rewrite <- Sh. rewrite coordck_fixed by auto.
  destruct (any2 coordck_bad start (m_shape (acc_m a))); auto.
  cbn [acc_m]. rewrite Hr. cbn [andb].
  destruct (vario_plan (acc_m a) start edges) as [[ps n] |]; auto.
  destruct (n =? 0); auto.
  pose proof (vario_loop_shape w n ps (mkAcc (acc_m a) (acc_tr a ++ []) (acc_cells a) (acc_vals a)) Hr) as L.
  destruct (vario_loop w n ps (mkAcc (acc_m a) (acc_tr a ++ []) (acc_cells a) (acc_vals a))) as [ok a2].
  cbn [snd acc_m] in *. destruct ok; cbn [snd acc_m]; auto.
  destruct (m_numrecs (acc_m a2) <? hd 0 start + hd 0 edges); cbn [acc_m set_store m_shape]; auto.
Qed.

Lemma genio_loop_false : forall w io positions a,
  is_recvar (acc_m a) = false -> (0 < length (m_shape (acc_m a)))%nat ->
  length io = length (m_shape (acc_m a)) -> Forall (fun c => 1 <= c) io ->
  (exists p, In p positions /\ length p = length (m_shape (acc_m a)) /\
             all4 dim_in p (ones p) io (m_shape (acc_m a)) = false) ->
  fst (genio_loop w io positions a) = false.
Proof.
  induction positions as [| p0 rest IH]; intros a Hr Hn Hio Hpos [p [Hin [Hl Hbad]]]. contradiction.
  cbn [genio_loop].
  pose proof (vario_shape w p0 io a Hr Hn) as Sh.
  destruct Hin as [-> | Hin].
  - pose proof (vario_oob_fails w a p io Hr Hn Hl Hio Hpos Hbad) as F.
    destruct (vario w p io a) as [ok a1]. simpl in F. subst ok. reflexivity.
  - destruct (vario w p0 io a) as [ok a1]. cbn [snd] in Sh. destruct ok; [| reflexivity].
    apply IH; try rewrite Sh; auto.
    + rewrite (is_recvar_shape _ _ Sh). auto.
    + exists p. auto.
Qed.

Lemma in_zrange : forall n s t j, (j < n)%nat -> In (s + Z.of_nat j * t) (zrange s t n).
Proof.
  induction n; intros. lia.
  destruct j; simpl zrange.
  - left. simpl. lia.
  - right. replace (s + Z.of_nat (S j) * t) with ((s + t) + Z.of_nat j * t) by lia. apply IHn. lia.
Qed.

Lemma slab_start_in : forall s t c, length t = length s -> length c = length s ->
  Forall (fun x => 1 <= x) c -> In s (slab_cells s t c).
Proof.
  induction s; destruct t, c; simpl; intros; try discriminate; auto.
  inversion H1; subst. apply in_flat_map. exists a. split.
  - replace a with (a + Z.of_nat 0 * z) at 1 by (simpl; lia). apply in_zrange. lia.
  - apply in_map. apply IHs; auto.
Qed.

(** a strided request with positive counts and strides that leaves the shape selects a cell outside the shape *)
Lemma strided_oob_cell : forall s t c d,
  length t = length s -> length c = length s -> length d = length s ->
  Forall (fun x => 1 <= x) c -> Forall (fun x => 1 <= x) t ->
  all4 dim_in s t c d = false ->
  exists p, In p (slab_cells s t c) /\ any2 coordck_bad p d = true.
Proof.
  induction s as [| s0 s IH]; destruct t as [| t0 t], c as [| c0 c], d as [| d0 d];
    intros Ht Hc Hd Fc Ft H; try discriminate.
  inversion Fc as [| ? ? Hc0 Fc']; inversion Ft as [| ? ? Ht0 Ft']; subst.
  cbn [all4] in H. cbn [slab_cells].
  assert (St : In s (slab_cells s t c)) by (apply slab_start_in; simpl in *; auto; lia).
  assert (I0 : In s0 (zrange s0 t0 (Z.to_nat c0))).
  { replace s0 with (s0 + Z.of_nat 0 * t0) at 1 by (simpl; lia). apply in_zrange. lia. }
  destruct (dim_in s0 t0 c0 d0) eqn:D.
  - simpl in H. destruct (IH t c d) as [p [Pin Pbad]]; simpl in *; auto; try lia.
    exists (s0 :: p). split.
    + apply in_flat_map. exists s0. split; auto. apply in_map; auto.
    + cbn [any2]. rewrite Pbad. apply orb_true_r.
  - unfold dim_in in D.
    destruct (0 <=? s0) eqn:Z0.
    + simpl in D. apply Z.ltb_ge in D. unfold reach in D.
      exists ((s0 + (c0 - 1) * t0) :: s). split.
      * apply in_flat_map. exists (s0 + (c0 - 1) * t0). split.
        -- replace (c0 - 1) with (Z.of_nat (Z.to_nat (c0 - 1))) by lia. apply in_zrange. lia.
        -- apply in_map; auto.
      * cbn [any2]. rewrite coordck_bad_spec.
        replace (s0 + (c0 - 1) * t0 <? d0) with false by (symmetry; apply Z.ltb_ge; lia).
        rewrite andb_false_r. reflexivity.
    + exists (s0 :: s). split.
      * apply in_flat_map. exists s0. split; auto. apply in_map; auto.
      * cbn [any2]. rewrite coordck_bad_spec. rewrite Z0. reflexivity.
Qed.

Lemma bad_cell_all4 : forall p d io, length p = length d -> length io = length d ->
  Forall (fun c => 1 <= c) io -> any2 coordck_bad p d = true -> all4 dim_in p (ones p) io d = false.
Proof.
  induction p; destruct d, io; simpl; intros; try discriminate.
  inversion H1; subst. rewrite coordck_bad_spec in H2.
  destruct ((0 <=? a) && (a <? z)) eqn:E; simpl in H2.
  - rewrite (IHp d io) by (auto; lia). apply andb_false_r.
  - unfold dim_in, reach. apply andb_false_iff. left.
    apply andb_false_iff in E. apply andb_false_iff. destruct E as [E | E]; [left; auto | right].
    apply Z.ltb_ge in E. apply Z.ltb_ge. lia.
Qed.

Lemma unit_last_spec : forall t e, truth (genio_unit_last t e e) = (t =? 1).
Proof. intros. unfold truth, genio_unit_last. rewrite Z.eqb_refl. destruct (t =? 1); reflexivity. Qed.

Lemma cartesian_snoc : forall A x, cartesian (A ++ [[x]]) = map (fun p => p ++ [x]) (cartesian A).
Proof.
  induction A as [| ax A IH]; intros; simpl; auto.
  rewrite map_flat_map. apply flat_map_ext'. intros i _. rewrite IH, !map_map. reflexivity.
Qed.

Lemma map3_snoc : forall {A} (f : Z -> Z -> Z -> A) a b c x y z, length b = length a -> length c = length a ->
  map3 f (a ++ [x]) (b ++ [y]) (c ++ [z]) = map3 f a b c ++ [f x y z].
Proof. induction a; destruct b, c; simpl; intros; try discriminate; auto. f_equal. apply IHa; lia. Qed.

Lemma map3_length : forall {A} (f : Z -> Z -> Z -> A) a b c, length b = length a -> length c = length a ->
  length (map3 f a b c) = length a.
Proof. induction a; destruct b, c; simpl; intros; try discriminate; auto. Qed.

Lemma ones_repeat : forall p, ones p = repeat 1 (length p).
Proof. induction p; simpl; auto. f_equal. auto. Qed.

Lemma existsb_false_ge1 : forall (f : Z -> bool) l, (forall x, 1 <= x -> f x = false) ->
  Forall (fun x => 1 <= x) l -> existsb f l = false.
Proof. induction 2; simpl; auto. rewrite H by auto. auto. Qed.

Lemma repeat1_ge1 : forall n, Forall (fun c => 1 <= c) (repeat 1 n).
Proof. induction n; simpl; constructor; auto. lia. Qed.

Lemma snoc_split : forall (l : list Z), l <> [] -> exists l' x, l = l' ++ [x].
Proof. intros. destruct (exists_last H) as [l' [x E]]. eauto. Qed.

(** NCgenio on a fixed-size variable: a request with positive counts and strides that reaches outside the shape
    in any dimension returns -1 (each odometer position is an NCvario call; one of them is rejected) *)
Lemma genio_oob_fails : forall w a start count stride,
  is_recvar (acc_m a) = false -> (0 < length (m_shape (acc_m a)))%nat ->
  length start = length (m_shape (acc_m a)) -> length count = length (m_shape (acc_m a)) ->
  length stride = length (m_shape (acc_m a)) ->
  Forall (fun c => 1 <= c) count -> Forall (fun t => 1 <= t) stride ->
  all4 dim_in start stride count (m_shape (acc_m a)) = false ->
  fst (genio w start count stride a) = false.
Proof.
  intros w a start count stride Hr Hn Hs Hc Ht Fc Ft Hout.
  unfold genio. destruct (m_shape (acc_m a)) as [| d0 dr] eqn:Sh. simpl in Hn; lia.
  rewrite <- Sh in *.
  rewrite (existsb_false_ge1 (fun t => truth (genio_bad_stride t)) stride); auto.
  2:{ intros x Hx. unfold truth, genio_bad_stride. replace (x <? 1) with false by (symmetry; apply Z.ltb_ge; lia). reflexivity. }
  rewrite (existsb_false_ge1 (fun c => c <? 0) count); auto. 2:{ intros; apply Z.ltb_ge; lia. }
  rewrite (existsb_false_ge1 (fun c => c =? 0) count); auto. 2:{ intros; apply Z.eqb_neq; lia. }
  destruct (snoc_split start) as [sl [sx Es]]. { intro; subst; simpl in *; lia. }
  destruct (snoc_split count) as [cl [cx Ec]]. { intro; subst; simpl in *; lia. }
  destruct (snoc_split stride) as [tl [tx Et]]. { intro; subst; simpl in *; lia. }
  destruct (snoc_split (m_shape (acc_m a))) as [dl [dx Ed]]. { intro E; rewrite E in Hn; simpl in Hn; lia. }
  rewrite Es, Ec, Et, Ed in *. rewrite !app_length in *. cbn [length] in *.
  assert (Ll : length cl = length sl /\ length tl = length sl /\ length dl = length sl) by lia.
  destruct Ll as [Lc [Lt Ld]].
  rewrite !last_last. replace (Nat.pred (length sl + 1)) with (length sl) by lia.
  rewrite unit_last_spec.
  apply Forall_app in Fc. destruct Fc as [Fcl Fcx]. inversion Fcx as [| ? ? Hcx _]; subst.
  apply Forall_app in Ft. destruct Ft as [Ftl Ftx]. inversion Ftx as [| ? ? Htx _]; subst.
  rewrite all4_app in Hout by lia. cbn [all4] in Hout. rewrite andb_true_r in Hout.
  rewrite map3_snoc by lia.
  apply genio_loop_false; auto.
  1: rewrite Ed, app_length; cbn [length]; lia.
  1: rewrite Ed, app_length; cbn [length];
     destruct (tx =? 1); rewrite ?app_length, ?repeat_length; simpl; lia.
  1: destruct (tx =? 1); [apply Forall_app; split; [apply repeat1_ge1 | constructor; auto] | apply repeat1_ge1].
  rewrite Ed, app_length; cbn [length].
  - destruct (tx =? 1) eqn:U.
    + (* unity stride in the last dimension: the odometer runs over the leading dimensions only *)
      apply Z.eqb_eq in U. subst tx.
      rewrite firstn_exact by (apply map3_length; lia).
      rewrite cartesian_snoc, genio_positions by (auto; lia).
      destruct (all4 dim_in sl tl cl dl) eqn:Lead.
      * simpl in Hout.
        exists (sl ++ [sx]). split; [| split].
        -- apply in_map_iff. exists sl. split; auto. apply slab_start_in; auto; lia.
        -- rewrite !app_length. simpl. lia.
        -- replace (ones (sl ++ [sx])) with (ones sl ++ [1]) by (unfold ones; rewrite map_app; reflexivity).
           rewrite all4_app by (unfold ones; rewrite ?map_length, ?repeat_length; lia).
           cbn [all4]. rewrite Hout. rewrite andb_false_r. reflexivity.
      * destruct (strided_oob_cell sl tl cl dl) as [p [Pin Pbad]]; auto; try lia.
        assert (Lp : length p = length sl) by (apply (slab_cells_len sl tl cl p); auto).
        exists (p ++ [sx]). split; [| split].
        -- apply in_map_iff. exists p. auto.
        -- rewrite !app_length. simpl. lia.
        -- replace (ones (p ++ [sx])) with (ones p ++ [1]) by (unfold ones; rewrite map_app; reflexivity).
           rewrite all4_app by (unfold ones; rewrite ?map_length, ?repeat_length; lia).
           rewrite (bad_cell_all4 p dl (repeat 1 (length sl))); auto; try lia.
           rewrite repeat_length; lia. apply repeat1_ge1.
    + rewrite <- map3_snoc by lia. rewrite genio_positions by (rewrite ?app_length; simpl; auto; try lia; apply Forall_app; auto).
      destruct (strided_oob_cell (sl ++ [sx]) (tl ++ [tx]) (cl ++ [cx]) (dl ++ [dx])) as [p [Pin Pbad]];
        rewrite ?app_length; simpl; auto; try lia; try (apply Forall_app; auto).
      { rewrite all4_app by lia. cbn [all4]. rewrite andb_true_r. exact Hout. }
      assert (Lp : length p = length (sl ++ [sx])).
      { apply (slab_cells_len _ (tl ++ [tx]) (cl ++ [cx]) p); rewrite ?app_length; simpl; auto; lia. }
      rewrite app_length in Lp. simpl in Lp.
      exists p. split; [auto | split; [lia |]].
      apply bad_cell_all4; rewrite ?app_length, ?repeat_length; simpl; auto; try lia. apply repeat1_ge1.
Qed.

Lemma forallb_ones : forall stride (start : list Z), forallb (fun t => t =? 1) stride = true ->
  length stride = length start -> stride = ones start.
Proof.
  induction stride; destruct start; simpl; intros; try discriminate; auto.
  apply andb_prop in H. destruct H as [A B]. apply Z.eqb_eq in A. subst. f_equal. apply IHstride; auto.
Qed.

(** SDwritedata on a fixed-size dataset, any rank/shape, stride NULL or any strides >= 1, positive counts:
    a request reaching outside the shape in any dimension returns FAIL *)
Lemma sd_write_rejected : forall m us start stride count vals,
  is_recvar m = false -> (0 < length (m_shape m))%nat ->
  length start = length (m_shape m) -> length count = length (m_shape m) ->
  (us = true -> length stride = length (m_shape m) /\ Forall (fun t => 1 <= t) stride) ->
  Forall (fun c => 1 <= c) count ->
  all4 dim_in start (if us then stride else ones start) count (m_shape m) = false ->
  exists m' tr, sd_write m us start stride count vals = (m', MRet (-1) tr).
Proof.
  intros m us start stride count vals Hr Hn Hs Hc Hu Fc Hout. unfold sd_write.
  destruct us.
  - destruct (Hu eq_refl) as [Ht Ft]. cbn [andb].
    destruct (forallb (fun t => t =? 1) stride) eqn:A1; cbn [negb].
    + rewrite (forallb_ones stride start A1) in Hout by lia.
      pose proof (vario_oob_fails true (mkAcc m [] [] (map Val vals)) start count Hr Hn Hs Hc Fc Hout) as F.
      destruct (vario true start count (mkAcc m [] [] (map Val vals))) as [ok a']. simpl in F. subst ok.
      eexists. eexists. reflexivity.
    + pose proof (genio_oob_fails true (mkAcc m [] [] (map Val vals)) start count stride Hr Hn Hs Hc Ht Fc Ft Hout) as F.
      destruct (genio true start count stride (mkAcc m [] [] (map Val vals))) as [ok a']. simpl in F. subst ok.
      eexists. eexists. reflexivity.
  - cbn [andb].
    pose proof (vario_oob_fails true (mkAcc m [] [] (map Val vals)) start count Hr Hn Hs Hc Fc Hout) as F.
    destruct (vario true start count (mkAcc m [] [] (map Val vals))) as [ok a']. simpl in F. subst ok.
    eexists. eexists. reflexivity.
Qed.

(** SDreaddata, same statement (the stride check rejects most such requests before any transfer; the rest --
    negative starts -- are rejected by NCcoordck inside NCgenio/NCvario) *)
Lemma sd_read_rejected : forall m us start stride count,
  is_recvar m = false -> (0 < length (m_shape m))%nat ->
  length start = length (m_shape m) -> length count = length (m_shape m) ->
  (us = true -> length stride = length (m_shape m) /\ Forall (fun t => 1 <= t) stride) ->
  Forall (fun c => 1 <= c) count ->
  all4 dim_in start (if us then stride else ones start) count (m_shape m) = false ->
  exists m' cells tr, sd_read m us start stride count = (m', MRead (-1) cells tr).
Proof.
  intros m us start stride count Hr Hn Hs Hc Hu Fc Hout. unfold sd_read.
  match goal with |- context [if ?b then (m, MRead (-1) [] []) else _] => destruct b end.
  - eexists. eexists. eexists. reflexivity.
  - destruct us.
    + destruct (Hu eq_refl) as [Ht Ft].
      pose proof (genio_oob_fails false (mkAcc m [] [] []) start count stride Hr Hn Hs Hc Ht Fc Ft Hout) as F.
      destruct (genio false start count stride (mkAcc m [] [] [])) as [ok a']. simpl in F. subst ok.
      eexists. eexists. eexists. reflexivity.
    + pose proof (vario_oob_fails false (mkAcc m [] [] []) start count Hr Hn Hs Hc Fc Hout) as F.
      destruct (vario false start count (mkAcc m [] [] [])) as [ok a']. simpl in F. subst ok.
      eexists. eexists. eexists. reflexivity.
Qed.

(* ---- frame: a write changes no cell outside the requested region --------------------------------- *)
Lemma nth_repeat_same : forall {A} (d : A) n j, nth j (repeat d n) d = d.
Proof. induction n; destruct j; simpl; auto. Qed.

Lemma nth_firstn_lt : forall {A} (l : list A) i j d, (j < i)%nat -> nth j (firstn i l) d = nth j l d.
Proof. induction l; destruct i, j; simpl; intros; auto; try lia. apply IHl. lia. Qed.

Lemma nth_skipn' : forall {A} (l : list A) i j d, nth j (skipn i l) d = nth (i + j) l d.
Proof. induction l; destruct i; simpl; intros; auto. destruct j; auto. Qed.

Lemma write_cells_frame : forall st i vals j,
  (j < Z.to_nat i)%nat \/ (Z.to_nat i + length vals <= j)%nat ->
  nth j (write_cells st i vals) Undef = nth j st Undef.
Proof.
  intros st i vals j H. unfold write_cells.
  set (k := Z.to_nat i) in *. set (n := length vals).
  assert (L1 : length (firstn k st) = Nat.min k (length st)) by apply firstn_length.
  destruct H as [H | H].
  - destruct (Nat.lt_ge_cases j (length st)).
    + rewrite app_nth1 by lia. apply nth_firstn_lt. auto.
    + rewrite app_nth2 by lia. rewrite app_nth1 by (rewrite repeat_length; lia).
      rewrite nth_repeat_same. symmetry. apply nth_overflow. lia.
  - rewrite app_nth2 by lia. rewrite app_nth2 by (rewrite repeat_length; lia).
    rewrite app_nth2 by (rewrite repeat_length; fold n; lia).
    rewrite nth_skipn'. rewrite repeat_length. fold n. f_equal. lia.
Qed.

Lemma write_cells_nonempty : forall st i vals, st <> [] -> write_cells st i vals <> [].
Proof.
  intros st i vals H C. apply (f_equal (@length _)) in C. unfold write_cells in C.
  rewrite !app_length, firstn_length, repeat_length, skipn_length in C.
  destruct st as [| c st]; [congruence |]. cbn [length] in C.
  set (k := Z.to_nat i) in *. set (n := length vals) in *. set (l := length st) in *. lia.
Qed.

(** hdf_xdr_NCvdata writing into an element that already has data: one seek + one Hwrite, no fill *)
Lemma xdr_vdata_write_existing : forall m wh c vals, m_store m <> [] -> 0 < m_esz m ->
  xdr_vdata m true wh c vals =
    Some (set_store m (write_cells (m_store m) (wh / m_esz m) vals) (m_numrecs m), [TWrite wh (c * m_esz m)], []).
Proof.
  intros m wh c vals Hs He. unfold xdr_vdata. cbv zeta.
  assert (El : 0 < elem_length m).
  { unfold elem_length. destruct (m_store m); [congruence | simpl length; lia]. }
  replace (elem_length m <=? 0) with false by (symmetry; apply Z.leb_gt; auto). cbn [andb].
  unfold vdata_lead_fill, vdata_trail_fill, truth.
  replace (elem_length m <=? 0) with false by (symmetry; apply Z.leb_gt; auto).
  simpl. reflexivity.
Qed.

Lemma varoffset_ext : forall m m' p, m_shape m' = m_shape m -> m_esz m' = m_esz m -> varoffset m' p = varoffset m p.
Proof. intros. unfold varoffset, dsizes. rewrite H, H0. reflexivity. Qed.

Definition outside (lo n : Z) (j : nat) : Prop := (j < Z.to_nat lo)%nat \/ (Z.to_nat lo + Z.to_nat n <= j)%nat.

(** the ripple counter, whether it completes or fails on the way, changes no cell outside the blocks at the
    positions NCcoordck accepted *)
Lemma vario_loop_frame : forall n ps a j,
  is_recvar (acc_m a) = false -> 0 < m_esz (acc_m a) -> m_store (acc_m a) <> [] ->
  (forall p, In p ps -> any2 coordck_bad p (m_shape (acc_m a)) = false ->
             outside (varoffset (acc_m a) p / m_esz (acc_m a)) n j) ->
  nth j (m_store (acc_m (snd (vario_loop true n ps a)))) Undef = nth j (m_store (acc_m a)) Undef.
Proof.
  induction ps as [| p0 rest IH]; intros a j Hr He Hs Hout; auto.
  cbn [vario_loop]. rewrite coordck_fixed by auto.
  destruct (any2 coordck_bad p0 (m_shape (acc_m a))) eqn:B0; auto.
  rewrite xdr_vdata_write_existing by auto.
  rewrite IH; cbn [acc_m set_store m_store m_shape m_esz]; auto.
  - apply write_cells_frame. destruct (Hout p0 (or_introl eq_refl) B0) as [A | A]; [left; auto | right].
    rewrite firstn_length. lia.
  - apply write_cells_nonempty. auto.
  - intros p Hp Bp. rewrite (varoffset_ext (acc_m a)) by reflexivity. apply Hout; auto. right. auto.
Qed.

Lemma lin_acc_nonneg : forall shape c acc, 0 <= acc -> Forall (fun d => 0 <= d) shape -> Forall (fun x => 0 <= x) c ->
  0 <= lin_acc shape c acc.
Proof.
  induction shape; destruct c; simpl; intros; auto.
  inversion H0; inversion H1; subst. apply IHshape; auto. nia.
Qed.

Lemma vario_plan_struct : forall m start edges ps n,
  length start = length (m_shape m) -> length edges = length (m_shape m) ->
  ((if is_recvar m then 1 else 0) < length (m_shape m))%nat ->
  Forall (fun o => 0 <= o) start -> Forall (fun d => 0 <= d) (m_shape m) ->
  vario_plan m start edges = Some (ps, n) ->
  0 <= n /\ forall p, In p ps -> length p = length (m_shape m).
Proof.
  intros m start edges ps n Hs He Hb Hpos Hsh H.
  unfold vario_plan in H. destruct (vcmaxcontig m start edges) as [k|] eqn:V; [| discriminate].
  destruct (vcmaxcontig_sound m start edges k Hs He Hb Hpos V)
    as [pre [dk [post [spre [sk [epre [ek [S1 [S2 [S3 [L1 [L2 [L3 [Hek Hek2]]]]]]]]]]]]]].
  assert (F1 : firstn k start = spre) by (rewrite S2; apply firstn_exact; auto).
  assert (F2 : skipn k start = sk :: zeros post) by (rewrite S2; apply skipn_exact; auto).
  assert (F3 : firstn k edges = epre) by (rewrite S3; apply firstn_exact; auto).
  assert (F4 : skipn k edges = ek :: post) by (rewrite S3; apply skipn_exact; auto).
  assert (Hpost : Forall (fun d => 0 <= d) post).
  { rewrite S1 in Hsh. apply Forall_app in Hsh. destruct Hsh as [_ F]. inversion F; auto. }
  assert (P : ps = map (fun p => p ++ sk :: zeros post) (odometer spre epre) /\ n = ek * prod post).
  { inversion H. rewrite F4. split; [| unfold prod; reflexivity].
    destruct k; rewrite ?F1, ?F2, ?F3; auto.
    simpl in *. destruct spre, epre; try discriminate. simpl. rewrite F2. reflexivity. }
  destruct P as [-> ->]. split.
  - pose proof (prod_nonneg post Hpost). nia.
  - intros p Hp. apply in_map_iff in Hp. destruct Hp as [p' [<- Hp']].
    rewrite (app_length p'), (odometer_len spre epre p') by (auto; lia).
    rewrite S1, app_length. simpl. unfold zeros. rewrite map_length. lia.
Qed.

(** NCvario writing into a fixed-size dataset that already has storage -- whether the request is valid or
    reaches outside the shape, whether the call returns 0 or -1 -- changes no cell outside the requested region *)
Lemma vario_frame : forall a start edges j,
  is_recvar (acc_m a) = false -> (0 < length (m_shape (acc_m a)))%nat ->
  0 < m_esz (acc_m a) -> m_store (acc_m a) <> [] ->
  length start = length (m_shape (acc_m a)) -> length edges = length (m_shape (acc_m a)) ->
  Forall (fun d => 0 <= d) (m_shape (acc_m a)) ->
  ~ In (Z.of_nat j * m_esz (acc_m a)) (map (varoffset (acc_m a)) (slab_cells start (ones start) edges)) ->
  nth j (m_store (acc_m (snd (vario true start edges a)))) Undef = nth j (m_store (acc_m a)) Undef.
Proof.
  intros a start edges j Hr Hn He Hst Hs Hc Hsh Hnot.
  unfold vario. destruct (m_shape (acc_m a)) as [| d0 dr] eqn:Sh. simpl in Hn; lia.
  rewrite <- Sh in *. rewrite coordck_fixed by auto.
  destruct (any2 coordck_bad start (m_shape (acc_m a))) eqn:B; auto.
  cbn [acc_m]. rewrite Hr. cbn [andb].
  destruct (vario_plan (acc_m a) start edges) as [[ps n] |] eqn:P; auto.
  destruct (n =? 0); auto.
  pose proof (any2_false_nonneg _ _ Hs B) as Hnn.
  assert (Hb : ((if is_recvar (acc_m a) then 1 else 0) < length (m_shape (acc_m a)))%nat) by (rewrite Hr; lia).
  destruct (vario_plan_struct _ _ _ _ _ Hs Hc Hb Hnn Hsh P) as [Hn0 Hlen].
  pose proof (vario_plan_correct_lemma _ _ _ _ _ Hs Hc Hb Hnn Hsh P) as PC.
  set (a1 := mkAcc (acc_m a) (acc_tr a ++ []) (acc_cells a) (acc_vals a)).
  assert (FR : nth j (m_store (acc_m (snd (vario_loop true n ps a1)))) Undef = nth j (m_store (acc_m a)) Undef).
  { apply (vario_loop_frame n ps a1 j); auto.
    intros p Hp Bp. cbn [a1 acc_m].
    rewrite varoffset_rowmajor_lemma by (apply Hlen; auto).
    replace (m_esz (acc_m a) * lin (m_shape (acc_m a)) p / m_esz (acc_m a)) with (lin (m_shape (acc_m a)) p)
      by (rewrite Z.mul_comm, Z.div_mul by lia; reflexivity).
    assert (L0 : 0 <= lin (m_shape (acc_m a)) p).
    { apply lin_acc_nonneg; auto. lia. apply (any2_false_nonneg p (m_shape (acc_m a))); auto. }
    unfold outside.
    destruct (Nat.lt_ge_cases j (Z.to_nat (lin (m_shape (acc_m a)) p))); [left; auto |].
    destruct (Nat.le_gt_cases (Z.to_nat (lin (m_shape (acc_m a)) p) + Z.to_nat n) j); [right; auto |].
    exfalso. apply Hnot. rewrite <- PC. apply in_flat_map. exists p. split; auto.
    unfold block. apply in_map_iff. exists (Z.of_nat j - lin (m_shape (acc_m a)) p). split.
    - rewrite varoffset_rowmajor_lemma by (apply Hlen; auto). lia.
    - unfold zseq. apply in_zrange1. lia. }
  destruct (vario_loop true n ps a1) as [ok a2]. cbn [snd] in FR.
  destruct ok; cbn [snd acc_m]; auto.
  destruct (m_numrecs (acc_m a2) <? hd 0 start + hd 0 edges); cbn [acc_m set_store m_store]; auto.
Qed.

Definition same_var (m m' : mstate) : Prop :=
  m_shape m' = m_shape m /\ m_esz m' = m_esz m /\ (m_store m <> [] -> m_store m' <> []).

Lemma vario_loop_inv : forall n ps a, is_recvar (acc_m a) = false -> 0 < m_esz (acc_m a) -> m_store (acc_m a) <> [] ->
  same_var (acc_m a) (acc_m (snd (vario_loop true n ps a))).
Proof.
  induction ps as [| p0 rest IH]; intros a Hr He Hs. repeat split; auto.
  cbn [vario_loop]. rewrite coordck_fixed by auto.
  destruct (any2 coordck_bad p0 (m_shape (acc_m a))). repeat split; auto.
  rewrite xdr_vdata_write_existing by auto.
  destruct (IH (mkAcc (set_store (acc_m a) (write_cells (m_store (acc_m a)) (varoffset (acc_m a) p0 / m_esz (acc_m a))
                                                      (firstn (Z.to_nat n) (acc_vals a))) (m_numrecs (acc_m a)))
                      (acc_tr a ++ [] ++ [TWrite (varoffset (acc_m a) p0) (n * m_esz (acc_m a))])
                      (acc_cells a ++ []) (skipn (Z.to_nat n) (acc_vals a)))) as [A [B C]];
    cbn [acc_m set_store m_shape m_esz m_store]; auto.
  apply write_cells_nonempty; auto.
  cbn [acc_m set_store m_shape m_esz m_store] in *.
  repeat split; auto. intros _. apply C. apply write_cells_nonempty; auto.
Qed.

Lemma vario_inv : forall start edges a,
  is_recvar (acc_m a) = false -> (0 < length (m_shape (acc_m a)))%nat ->
  0 < m_esz (acc_m a) -> m_store (acc_m a) <> [] ->
  same_var (acc_m a) (acc_m (snd (vario true start edges a))).
Proof.
  intros start edges a Hr Hn He Hs. unfold vario.
  destruct (m_shape (acc_m a)) as [| d0 dr] eqn:Sh. simpl in Hn; lia.
  rewrite coordck_fixed by auto.
  destruct (any2 coordck_bad start (m_shape (acc_m a))). repeat split; auto.
  cbn [acc_m]. rewrite Hr. cbn [andb].
  destruct (vario_plan (acc_m a) start edges) as [[ps n] |]. 2: repeat split; auto.
  destruct (n =? 0). repeat split; auto.
  pose proof (vario_loop_inv n ps (mkAcc (acc_m a) (acc_tr a ++ []) (acc_cells a) (acc_vals a)) Hr He Hs) as L.
  destruct (vario_loop true n ps (mkAcc (acc_m a) (acc_tr a ++ []) (acc_cells a) (acc_vals a))) as [ok a2].
  cbn [snd acc_m] in *. destruct ok; cbn [snd acc_m]; auto.
  destruct (m_numrecs (acc_m a2) <? hd 0 start + hd 0 edges); cbn [acc_m set_store m_shape m_esz m_store]; auto.
Qed.

(** NCgenio writing: no cell outside the sub-slabs of the visited positions changes *)
Lemma genio_loop_frame : forall io positions a j,
  is_recvar (acc_m a) = false -> (0 < length (m_shape (acc_m a)))%nat ->
  0 < m_esz (acc_m a) -> m_store (acc_m a) <> [] ->
  length io = length (m_shape (acc_m a)) -> Forall (fun d => 0 <= d) (m_shape (acc_m a)) ->
  (forall p, In p positions -> length p = length (m_shape (acc_m a)) /\
     ~ In (Z.of_nat j * m_esz (acc_m a)) (map (varoffset (acc_m a)) (slab_cells p (ones p) io))) ->
  nth j (m_store (acc_m (snd (genio_loop true io positions a)))) Undef = nth j (m_store (acc_m a)) Undef.
Proof.
  induction positions as [| p0 rest IH]; intros a j Hr Hn He Hs Hio Hsh Hout; auto.
  cbn [genio_loop].
  destruct (Hout p0 (or_introl eq_refl)) as [Lp Np].
  pose proof (vario_frame a p0 io j Hr Hn He Hs Lp Hio Hsh Np) as F.
  destruct (vario_inv p0 io a Hr Hn He Hs) as [I1 [I2 I3]].
  destruct (vario true p0 io a) as [ok a1]. cbn [snd] in *.
  destruct ok; cbn [snd]; auto.
  rewrite IH; auto; try (rewrite ?I1, ?I2; auto).
  - rewrite (is_recvar_shape _ _ I1). auto.
  - intros p Hp. destruct (Hout p (or_intror Hp)) as [A B]. split; auto.
    intro C. apply B. erewrite map_ext. exact C. intros c. symmetry. apply varoffset_ext; auto.
Qed.

Lemma slab_ones_single : forall p, slab_cells p (ones p) (repeat 1 (length p)) = [p].
Proof. induction p; simpl; auto. rewrite IHp. reflexivity. Qed.

Lemma existsb_false_Forall : forall (f : Z -> bool) l, existsb f l = false -> Forall (fun x => f x = false) l.
Proof. induction l; simpl; intros; constructor; apply orb_false_elim in H; tauto. Qed.

(** NCgenio writing into a fixed-size dataset that has storage: no cell outside the strided slab changes,
    whatever the outcome of the call *)
Lemma genio_frame : forall a start count stride j,
  is_recvar (acc_m a) = false -> (0 < length (m_shape (acc_m a)))%nat ->
  0 < m_esz (acc_m a) -> m_store (acc_m a) <> [] ->
  length start = length (m_shape (acc_m a)) -> length count = length (m_shape (acc_m a)) ->
  length stride = length (m_shape (acc_m a)) -> Forall (fun d => 0 <= d) (m_shape (acc_m a)) ->
  ~ In (Z.of_nat j * m_esz (acc_m a)) (map (varoffset (acc_m a)) (slab_cells start stride count)) ->
  nth j (m_store (acc_m (snd (genio true start count stride a)))) Undef = nth j (m_store (acc_m a)) Undef.
Proof.
  intros a start count stride j Hr Hn He Hst Hs Hc Ht Hsh Hnot.
  unfold genio. destruct (m_shape (acc_m a)) as [| d0 dr] eqn:Sh. simpl in Hn; lia.
  rewrite <- Sh in *.
  destruct (existsb (fun t => truth (genio_bad_stride t)) stride) eqn:X1; auto.
  destruct (existsb (fun c => c <? 0) count) eqn:X2; auto.
  destruct (existsb (fun c => c =? 0) count) eqn:X3; auto.
  assert (Ft : Forall (fun t => 1 <= t) stride).
  { apply existsb_false_Forall in X1. eapply Forall_impl; [| exact X1]. intros t Ht1. cbv beta in Ht1.
    unfold truth, genio_bad_stride in Ht1. destruct (t <? 1) eqn:E; [discriminate | apply Z.ltb_ge in E; lia]. }
  assert (Fc : Forall (fun c => 1 <= c) count).
  { apply existsb_false_Forall in X2. apply existsb_false_Forall in X3.
    rewrite Forall_forall in *. intros c Hin. specialize (X2 c Hin). specialize (X3 c Hin). cbv beta in *.
    apply Z.ltb_ge in X2. apply Z.eqb_neq in X3. lia. }
  destruct (snoc_split start) as [sl [sx Es]]. { intro; subst; simpl in *; lia. }
  destruct (snoc_split count) as [cl [cx Ec]]. { intro; subst; simpl in *; lia. }
  destruct (snoc_split stride) as [tl [tx Et]]. { intro; subst; simpl in *; lia. }
  subst start count stride. rewrite !app_length in *. cbn [length] in *.
  rewrite !last_last. replace (Nat.pred (length sl + 1)) with (length sl) by lia.
  rewrite unit_last_spec. rewrite map3_snoc by lia.
  apply Forall_app in Fc. destruct Fc as [Fcl Fcx]. apply Forall_app in Ft. destruct Ft as [Ftl Ftx].
  apply genio_loop_frame; auto.
  { destruct (tx =? 1); rewrite ?app_length, ?repeat_length; simpl; lia. }
  destruct (tx =? 1) eqn:U.
  - apply Z.eqb_eq in U. subst tx.
    rewrite firstn_exact by (apply map3_length; lia).
    rewrite cartesian_snoc, genio_positions by (auto; lia).
    intros p Hp. apply in_map_iff in Hp. destruct Hp as [p' [<- Hp']].
    assert (Lp : length p' = length sl) by (apply (slab_cells_len sl tl cl p'); auto; lia).
    split. rewrite app_length. simpl. lia.
    intro C. apply Hnot. apply in_map_iff in C. destruct C as [c [Ec Hc']]. apply in_map_iff. exists c. split; auto.
    rewrite slab_app by lia. apply in_flat_map. exists p'. split; auto.
    replace (ones (p' ++ [sx])) with (ones p' ++ [1]) in Hc' by (unfold ones; rewrite map_app; reflexivity).
    rewrite <- Lp in Hc'. rewrite slab_app in Hc' by (unfold ones; rewrite ?map_length, ?repeat_length; lia).
    rewrite slab_ones_single in Hc'. simpl in Hc'. rewrite app_nil_r in Hc'. exact Hc'.
  - rewrite <- map3_snoc by lia.
    rewrite genio_positions by (rewrite ?app_length; simpl; auto; try lia; apply Forall_app; auto).
    intros p Hp.
    assert (Lp : length p = (length sl + 1)%nat).
    { rewrite (slab_cells_len (sl ++ [sx]) (tl ++ [tx]) (cl ++ [cx]) p); rewrite ?app_length; simpl; auto; lia. }
    split. lia.
    rewrite <- Lp. rewrite slab_ones_single. simpl. intros [C | []]. apply Hnot.
    rewrite <- C. apply in_map. auto.
Qed.

(** SDwritedata on a fixed-size dataset that has storage (i.e. after its first write), any stride mode, valid or
    not, returning SUCCEED or FAIL: no cell outside the requested region is modified *)
Lemma sd_write_frame : forall m us start stride count vals j,
  is_recvar m = false -> (0 < length (m_shape m))%nat -> 0 < m_esz m -> m_store m <> [] ->
  length start = length (m_shape m) -> length count = length (m_shape m) ->
  (us = true -> length stride = length (m_shape m)) -> Forall (fun d => 0 <= d) (m_shape m) ->
  ~ In (Z.of_nat j * m_esz m) (map (varoffset m) (slab_cells start (if us then stride else ones start) count)) ->
  nth j (m_store (fst (sd_write m us start stride count vals))) Undef = nth j (m_store m) Undef.
Proof.
  intros m us start stride count vals j Hr Hn He Hst Hs Hc Hu Hsh Hnot. unfold sd_write.
  set (a := mkAcc m [] [] (map Val vals)).
  destruct us; cbn [andb].
  - specialize (Hu eq_refl). destruct (forallb (fun t => t =? 1) stride) eqn:A1; cbn [negb].
    + rewrite (forallb_ones stride start A1) in Hnot by lia.
      pose proof (vario_frame a start count j Hr Hn He Hst Hs Hc Hsh Hnot) as F.
      destruct (vario true start count a) as [ok a']. exact F.
    + pose proof (genio_frame a start count stride j Hr Hn He Hst Hs Hc Hu Hsh Hnot) as F.
      destruct (genio true start count stride a) as [ok a']. exact F.
  - pose proof (vario_frame a start count j Hr Hn He Hst Hs Hc Hsh Hnot) as F.
    destruct (vario true start count a) as [ok a']. exact F.
Qed.
