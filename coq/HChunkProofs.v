(** C04 -- the transfer loops of hchunks.c over the cache refine the byte stream; whole-chunk I/O addresses the
    slab of the same region. *)
From Coq Require Import ZArith List Bool Lia.
Require Import H4.gen.Gen_Chunk H4.ChunkModel H4.MCacheModel H4.HChunkModel H4.ChunkProofs H4.MCacheProofs.
Import ListNotations.
Local Open Scope Z_scope.

Definition znth (l : list Z) (i : Z) : Z := nth (Z.to_nat i) l 0.

(** ---- memcpy on pages ---- *)
Lemma nth_skipn_z : forall (l : list Z) (n i : nat), nth i (skipn n l) 0 = nth (n + i) l 0.
Proof. induction l as [|x l IH]; intros [|n] i; simpl; auto. destruct i; auto. Qed.

Lemma nth_firstn_z : forall (l : list Z) (n i : nat), nth i (firstn n l) 0 = if (i <? n)%nat then nth i l 0 else 0.
Proof.
  induction l as [|x l IH]; intros [|n] [|i]; simpl; auto.
  - destruct (S i <? S n)%nat; reflexivity.
  - rewrite IH. reflexivity.
Qed.

Lemma nth_splice_nat : forall (pg : list Z) (o : nat) (d : list Z) (i : nat),
  (o + List.length d <= List.length pg)%nat ->
  nth i (firstn o pg ++ d ++ skipn (o + List.length d) pg) 0 =
  if (o <=? i)%nat && (i <? o + List.length d)%nat then nth (i - o) d 0 else nth i pg 0.
Proof.
  intros pg o d i H.
  assert (Lf : List.length (firstn o pg) = o) by (rewrite firstn_length; lia).
  destruct (Nat.leb_spec o i); simpl.
  - rewrite app_nth2 by lia. rewrite Lf.
    destruct (Nat.ltb_spec i (o + List.length d)).
    + rewrite app_nth1 by lia. reflexivity.
    + rewrite app_nth2 by lia. rewrite nth_skipn_z. f_equal. lia.
  - rewrite app_nth1 by lia. rewrite nth_firstn_z. destruct (Nat.ltb_spec i o); [reflexivity|lia].
Qed.

Lemma length_splice_nat : forall (pg : list Z) (o : nat) (d : list Z),
  (o + List.length d <= List.length pg)%nat ->
  List.length (firstn o pg ++ d ++ skipn (o + List.length d) pg) = List.length pg.
Proof. intros. rewrite !app_length, firstn_length, skipn_length. lia. Qed.

Lemma znth_splice : forall pg off d i, 0 <= off -> 0 <= i -> off + Z.of_nat (List.length d) <= Z.of_nat (List.length pg) ->
  znth (splice pg off d) i = if (off <=? i) && (i <? off + Z.of_nat (List.length d)) then znth d (i - off) else znth pg i.
Proof.
  intros pg off d i Ho Hi H. unfold znth, splice. rewrite nth_splice_nat by lia.
  destruct (Z.leb_spec off i); destruct (Nat.leb_spec (Z.to_nat off) (Z.to_nat i)); try lia; simpl; auto.
  destruct (Z.ltb_spec i (off + Z.of_nat (List.length d)));
    destruct (Nat.ltb_spec (Z.to_nat i) (Z.to_nat off + List.length d)); try lia; auto.
  f_equal. lia.
Qed.

Lemma length_splice : forall pg off d, 0 <= off -> off + Z.of_nat (List.length d) <= Z.of_nat (List.length pg) ->
  List.length (splice pg off d) = List.length pg.
Proof. intros. unfold splice. apply length_splice_nat. lia. Qed.

Lemma znth_firstn : forall (l : list Z) n i, 0 <= i < n -> znth (firstn (Z.to_nat n) l) i = znth l i.
Proof. intros. unfold znth. rewrite nth_firstn_z. destruct (Nat.ltb_spec (Z.to_nat i) (Z.to_nat n)); [reflexivity|lia]. Qed.

Lemma znth_skipn : forall (l : list Z) n i, 0 <= i -> 0 <= n -> znth (skipn (Z.to_nat n) l) i = znth l (n + i).
Proof. intros. unfold znth. rewrite nth_skipn_z. f_equal. lia. Qed.

Lemma znth_app : forall (a b : list Z) i, 0 <= i ->
  znth (a ++ b) i = if i <? Z.of_nat (List.length a) then znth a i else znth b (i - Z.of_nat (List.length a)).
Proof.
  intros. unfold znth. destruct (Z.ltb_spec i (Z.of_nat (List.length a))).
  - rewrite app_nth1 by lia. reflexivity.
  - rewrite app_nth2 by lia. f_equal. lia.
Qed.

Lemma znth_slice : forall pg off len i, 0 <= off -> 0 <= i < len -> znth (slice pg off len) i = znth pg (off + i).
Proof. intros. unfold slice. rewrite znth_firstn by lia. apply znth_skipn; lia. Qed.

Lemma length_slice : forall (pg : list Z) off len, 0 <= off -> 0 <= len -> off + len <= Z.of_nat (List.length pg) ->
  Z.of_nat (List.length (slice pg off len)) = len.
Proof. intros. unfold slice. rewrite firstn_length, skipn_length. lia. Qed.

Lemma map_fst_combine_len : forall (A B : Type) (a : list A) (b : list B), List.length a = List.length b ->
  map fst (combine a b) = a.
Proof. induction a as [|x a IH]; intros [|y b] H; simpl in *; try discriminate; auto. f_equal. apply IH. lia. Qed.

Lemma map_snd_combine_len : forall (A B : Type) (a : list A) (b : list B), List.length a = List.length b ->
  map snd (combine a b) = b.
Proof. induction a as [|x a IH]; intros [|y b] H; simpl in *; try discriminate; auto. f_equal. apply IH. lia. Qed.

Section Stream.
  Variable nt : Z.
  Variable dd : list dimrec.
  Hypothesis Hnt : 1 <= nt.
  Hypothesis Hne : dd <> [].
  Hypothesis Hv : Forall valid_dim dd.
  Hypothesis Hb : prod (map d_len dd) * nt < 2147483648.

  Definition total := prod (map d_len dd).
  Definition csize := prod (map c_len dd) * nt.
  Definition npg := prod (map n_chunks dd).
  Definition loc (e : Z) : Z * Z := chunk_locate nt dd (e * nt).

  (** the byte stream an application sees through a page map: byte q = element q/nt, byte q mod nt of it *)
  Definition stream_of (v : Z -> page) (q : Z) : Z :=
    znth (v (fst (loc (q / nt)))) (snd (loc (q / nt)) + q mod nt).

  Definition pages_ok (v : Z -> page) : Prop := forall cn, 0 <= cn < npg -> Z.of_nat (List.length (v cn)) = csize.

  Definition st_ok (st : cstate) : Prop :=
    inv (fst st) (snd st) /\ npages (fst st) = npg /\ pages_ok (view (fst st) (snd st)).

  Lemma loc_facts : forall e, 0 <= e < total ->
    0 <= fst (loc e) < npg /\ 0 <= snd (loc e) /\ snd (loc e) + nt <= csize /\ (nt | snd (loc e)).
  Proof.
    intros e He. unfold loc, npg, csize.
    exact (proj2 (chunk_locate_inj_lemma nt dd e e Hnt Hv Hb He He)).
  Qed.

  Lemma loc_inj : forall p q, 0 <= p < total -> 0 <= q < total -> loc p = loc q -> p = q.
  Proof. intros p q Hp Hq. exact (proj1 (chunk_locate_inj_lemma nt dd p q Hnt Hv Hb Hp Hq)). Qed.

  Lemma q_decomp : forall q, 0 <= q < total * nt ->
    q = nt * (q / nt) + q mod nt /\ 0 <= q mod nt < nt /\ 0 <= q / nt < total.
  Proof.
    intros q Hq. pose proof (Z.div_mod q nt ltac:(lia)). pose proof (Z.mod_pos_bound q nt ltac:(lia)).
    repeat split; try lia. apply Z.div_pos; lia. apply Z.div_lt_upper_bound; lia.
  Qed.

  (** one piece of HMCPwrite: [k] elements starting at element [e], all in chunk [cn] at consecutive offsets *)
  Lemma piece_write : forall (v v1 : Z -> page) e k chunk,
    pages_ok v -> 0 <= e -> 1 <= k -> e + k <= total ->
    Z.of_nat (List.length chunk) = k * nt ->
    (forall j, 0 <= j < k -> loc (e + j) = (fst (loc e), snd (loc e) + j * nt)) ->
    (forall n, v1 n = if n =? fst (loc e) then splice (v (fst (loc e))) (snd (loc e)) chunk else v n) ->
    forall q, 0 <= q < total * nt ->
      stream_of v1 q = if (e * nt <=? q) && (q <? e * nt + k * nt) then znth chunk (q - e * nt) else stream_of v q.
  Proof.
    intros v v1 e k chunk Hpg He Hk Hek Hlen Hrun Hv1 q Hq.
    destruct (q_decomp q Hq) as (Dq & Bb & Be).
    set (e' := q / nt) in *. set (b' := q mod nt) in *.
    destruct (loc_facts e ltac:(lia)) as (C1 & O1 & O2 & (a & Da)).
    destruct (loc_facts e' Be) as (C1' & O1' & O2' & (a' & Da')).
    destruct (loc_facts (e + (k - 1)) ltac:(lia)) as (_ & _ & O3 & _).
    rewrite (Hrun (k - 1)) in O3 by lia. cbn [snd] in O3.
    assert (Hlenpg : Z.of_nat (List.length (v (fst (loc e)))) = csize) by (apply Hpg; lia).
    unfold stream_of. fold e'. fold b'. rewrite Hv1.
    destruct (Z_le_dec e e') as [L1|L1]; [destruct (Z_lt_dec e' (e + k)) as [L2|L2]|].
    - (* inside the piece *)
      assert (El : loc e' = (fst (loc e), snd (loc e) + (e' - e) * nt)).
      { replace e' with (e + (e' - e)) at 1 by lia. apply Hrun. lia. }
      rewrite El. cbn [fst snd]. rewrite Z.eqb_refl.
      rewrite znth_splice by nia.
      replace ((e * nt <=? q) && (q <? e * nt + k * nt)) with true
        by (symmetry; apply andb_true_iff; split; [apply Z.leb_le | apply Z.ltb_lt]; nia).
      replace ((snd (loc e) <=? snd (loc e) + (e' - e) * nt + b') &&
               (snd (loc e) + (e' - e) * nt + b' <? snd (loc e) + Z.of_nat (List.length chunk))) with true
        by (symmetry; apply andb_true_iff; split; [apply Z.leb_le | apply Z.ltb_lt]; nia).
      f_equal. nia.
    - (* after the piece *)
      replace ((e * nt <=? q) && (q <? e * nt + k * nt)) with false
        by (symmetry; apply andb_false_iff; right; apply Z.ltb_ge; nia).
      destruct (Z.eqb_spec (fst (loc e')) (fst (loc e))) as [Ec|Ec]; [|reflexivity].
      rewrite znth_splice by nia. rewrite <- Ec.
      assert (Hout : snd (loc e') + b' < snd (loc e) \/ snd (loc e) + k * nt <= snd (loc e') + b').
      { destruct (Z_lt_dec (a' - a) 0); [left; nia|].
        destruct (Z_lt_dec (a' - a) k); [|right; nia].
        exfalso. assert (e + (a' - a) = e').
        { apply loc_inj; try lia. rewrite Hrun by lia. rewrite (surjective_pairing (loc e')). f_equal; [auto|nia]. }
        lia. }
      destruct ((snd (loc e) <=? snd (loc e') + b') && (snd (loc e') + b' <? snd (loc e) + Z.of_nat (List.length chunk))) eqn:Ein;
        [|reflexivity].
      apply andb_true_iff in Ein. destruct Ein as [I1 I2]. apply Z.leb_le in I1. apply Z.ltb_lt in I2. lia.
    - (* before the piece *)
      replace ((e * nt <=? q) && (q <? e * nt + k * nt)) with false
        by (symmetry; apply andb_false_iff; left; apply Z.leb_gt; nia).
      destruct (Z.eqb_spec (fst (loc e')) (fst (loc e))) as [Ec|Ec]; [|reflexivity].
      rewrite znth_splice by nia. rewrite <- Ec.
      assert (Hout : snd (loc e') + b' < snd (loc e) \/ snd (loc e) + k * nt <= snd (loc e') + b').
      { destruct (Z_lt_dec (a' - a) 0); [left; nia|].
        destruct (Z_lt_dec (a' - a) k); [|right; nia].
        exfalso. assert (e + (a' - a) = e').
        { apply loc_inj; try lia. rewrite Hrun by lia. rewrite (surjective_pairing (loc e')). f_equal; [auto|nia]. }
        lia. }
      destruct ((snd (loc e) <=? snd (loc e') + b') && (snd (loc e') + b' <? snd (loc e) + Z.of_nat (List.length chunk))) eqn:Ein;
        [|reflexivity].
      apply andb_true_iff in Ein. destruct Ein as [I1 I2]. apply Z.leb_le in I1. apply Z.ltb_lt in I2. lia.
  Qed.

  Lemma run_at : forall e r, 0 <= e -> 1 <= r -> e + r <= total ->
    exists k, chunk_piece nt dd (e * nt) (r * nt) = k * nt /\ 1 <= k <= r /\
      forall j, 0 <= j < k -> loc (e + j) = (fst (loc e), snd (loc e) + j * nt).
  Proof.
    intros e r He Hr Her.
    destruct (chunk_run_contig_lemma nt dd e r Hnt Hne Hv Hb He Hr Her) as (A & B & C).
    eexists. split; [exact A|]. split; [exact B|]. exact C.
  Qed.

  Lemma stream_ext : forall v1 v, (forall n, v1 n = v n) -> forall q, stream_of v1 q = stream_of v q.
  Proof. intros v1 v E q. unfold stream_of. rewrite E. reflexivity. Qed.

  Lemma dirty_not_zero : MCACHE_DIRTY = 0 -> False.
  Proof. vm_compute. discriminate. Qed.

  (** ---- HMCPwrite refines "overwrite [e*nt, (e+r)*nt) of the byte stream" ---- *)
  Lemma hmcp_write_refines : forall fuel data st e r,
    st_ok st -> 0 <= e -> Z.of_nat (List.length data) = r * nt -> e + r <= total -> (List.length data <= fuel)%nat ->
    exists st', hmcp_write nt dd fuel st (e * nt) data = Some st' /\ st_ok st' /\
      forall q, 0 <= q < total * nt ->
        stream_of (view (fst st') (snd st')) q =
        if (e * nt <=? q) && (q <? e * nt + r * nt) then znth data (q - e * nt)
        else stream_of (view (fst st) (snd st)) q.
  Proof.
    induction fuel as [|f IH]; intros data st e r Hst He Hlen Her Hfuel.
    - destruct data; [|simpl in Hfuel; lia]. simpl in Hlen. exists st. simpl. split; [reflexivity|]. split; [exact Hst|].
      intros q Hq. replace ((e * nt <=? q) && (q <? e * nt + r * nt)) with false; [reflexivity|].
      symmetry. destruct (Z.leb_spec (e * nt) q); simpl; auto. apply Z.ltb_ge. nia.
    - destruct data as [|x tl] eqn:Ed.
      { simpl in Hlen. exists st. simpl. split; [reflexivity|]. split; [exact Hst|].
        intros q Hq. replace ((e * nt <=? q) && (q <? e * nt + r * nt)) with false; [reflexivity|].
        symmetry. destruct (Z.leb_spec (e * nt) q); simpl; auto. apply Z.ltb_ge. nia. }
      rewrite <- Ed in *. assert (Hr : 1 <= r) by (rewrite Ed in Hlen; simpl in Hlen; nia).
      destruct (run_at e r He Hr Her) as (k & Hpiece & Hk & Hrun).
      destruct Hst as (Hinv & Hnp & Hpg).
      destruct (loc_facts e ltac:(lia)) as (C1 & O1 & O2 & Dv).
      destruct (loc_facts (e + (k - 1)) ltac:(lia)) as (_ & _ & O3 & _).
      rewrite (Hrun (k - 1)) in O3 by lia. cbn [snd] in O3.
      set (chunk := firstn (Z.to_nat (k * nt)) data).
      assert (Hlc : Z.of_nat (List.length chunk) = k * nt) by (unfold chunk; rewrite firstn_length; nia).
      destruct (access_step (fst st) (snd st) (fst (loc e) + 1)
                  (fun pg => splice pg (snd (loc e)) chunk) MCACHE_DIRTY Hinv ltac:(lia) ltac:(right; reflexivity))
        as (mp1 & s1 & Eacc & Hinv1 & Hnp1 & Hview1).
      { intros Z0. exfalso. exact (dirty_not_zero Z0). }
      replace (fst (loc e) + 1 - 1) with (fst (loc e)) in * by lia.
      assert (Hst1 : st_ok (mp1, s1)).
      { split; [exact Hinv1|]. split; [simpl; lia|]. intros cn Hcn. simpl. rewrite Hview1.
        destruct (Z.eqb_spec cn (fst (loc e))); [|apply Hpg; auto].
        rewrite length_splice; [apply Hpg; lia| lia |]. rewrite (Hpg (fst (loc e))) by lia. lia. }
      assert (Hl' : Z.of_nat (List.length (skipn (Z.to_nat (k * nt)) data)) = (r - k) * nt) by (rewrite skipn_length; nia).
      destruct (IH (skipn (Z.to_nat (k * nt)) data) (mp1, s1) (e + k) (r - k) Hst1 ltac:(lia) Hl' ltac:(lia))
        as (st2 & Ew & Hst2 & Hs2).
      { rewrite skipn_length. nia. }
      exists st2. split; [|split; [exact Hst2|]].
      + rewrite Ed. cbn [hmcp_write]. rewrite <- Ed. rewrite Hlen, Hpiece.
        destruct (Z.leb_spec (k * nt) 0); [nia|]. fold (loc e). fold chunk.
        rewrite Eacc. replace (e * nt + k * nt) with ((e + k) * nt) by ring. exact Ew.
      + intros q Hq. rewrite (Hs2 q Hq). cbn [fst snd].
        rewrite (piece_write (view (fst st) (snd st)) (view mp1 s1) e k chunk Hpg He ltac:(lia) ltac:(lia) Hlc Hrun Hview1 q Hq).
        destruct (Z.leb_spec ((e + k) * nt) q); destruct (Z.ltb_spec q ((e + k) * nt + (r - k) * nt));
          destruct (Z.leb_spec (e * nt) q); destruct (Z.ltb_spec q (e * nt + k * nt));
          destruct (Z.ltb_spec q (e * nt + r * nt)); cbn [andb]; try nia; try reflexivity.
        * rewrite znth_skipn by nia. f_equal. nia.
        * unfold chunk. rewrite znth_firstn by nia. reflexivity.
  Qed.

  (** ---- HMCPread returns the bytes [e*nt, (e+r)*nt) of the stream and changes nothing ---- *)
  Lemma hmcp_read_refines : forall fuel st e r,
    st_ok st -> 0 <= e -> 0 <= r -> e + r <= total -> (Z.to_nat r <= fuel)%nat ->
    exists st' out, hmcp_read nt dd fuel st (e * nt) (r * nt) = Some (st', out) /\ st_ok st' /\
      (forall n, view (fst st') (snd st') n = view (fst st) (snd st) n) /\
      Z.of_nat (List.length out) = r * nt /\
      forall i, 0 <= i < r * nt -> znth out i = stream_of (view (fst st) (snd st)) (e * nt + i).
  Proof.
    induction fuel as [|f IH]; intros st e r Hst He Hr Her Hfuel.
    - assert (r = 0) by lia. subst r. exists st, [].
      split; [reflexivity|]. split; [exact Hst|]. split; [reflexivity|]. split; [reflexivity|]. intros i Hi. lia.
    - destruct (Z.eq_dec r 0) as [->|Hr0].
      { exists st, []. split; [reflexivity|]. split; [exact Hst|]. split; [reflexivity|]. split; [reflexivity|]. intros i Hi. lia. }
      assert (Hr1 : 1 <= r) by lia.
      destruct (run_at e r He Hr1 Her) as (k & Hpiece & Hk & Hrun).
      destruct Hst as (Hinv & Hnp & Hpg).
      destruct (loc_facts e ltac:(lia)) as (C1 & O1 & O2 & Dv).
      destruct (loc_facts (e + (k - 1)) ltac:(lia)) as (_ & _ & O3 & _).
      rewrite (Hrun (k - 1)) in O3 by lia. cbn [snd] in O3.
      destruct (access_step (fst st) (snd st) (fst (loc e) + 1) (fun pg => pg) 0 Hinv ltac:(lia) ltac:(left; reflexivity))
        as (mp1 & s1 & Eacc & Hinv1 & Hnp1 & Hview1).
      { intros _. reflexivity. }
      replace (fst (loc e) + 1 - 1) with (fst (loc e)) in * by lia.
      assert (Hsame : forall n, view mp1 s1 n = view (fst st) (snd st) n).
      { intros n. rewrite Hview1. destruct (Z.eqb_spec n (fst (loc e))); subst; reflexivity. }
      assert (Hst1 : st_ok (mp1, s1)).
      { split; [exact Hinv1|]. split; [simpl; lia|]. intros cn Hcn. simpl. rewrite Hsame. apply Hpg; auto. }
      destruct (IH (mp1, s1) (e + k) (r - k) Hst1 ltac:(lia) ltac:(lia) ltac:(lia) ltac:(lia))
        as (st2 & rest & Er & Hst2 & Hv2 & Hl2 & Hn2).
      exists st2, (slice (view (fst st) (snd st) (fst (loc e))) (snd (loc e)) (k * nt) ++ rest).
      assert (Hls : Z.of_nat (List.length (slice (view (fst st) (snd st) (fst (loc e))) (snd (loc e)) (k * nt))) = k * nt).
      { apply length_slice; try nia. rewrite (Hpg (fst (loc e))) by lia. lia. }
      split; [|split; [exact Hst2|split; [|split]]].
      + cbn [hmcp_read]. destruct (Z.leb_spec (r * nt) 0); [nia|]. rewrite Hpiece.
        destruct (Z.leb_spec (k * nt) 0); [nia|]. fold (loc e). rewrite Eacc.
        replace (e * nt + k * nt) with ((e + k) * nt) by ring.
        replace (r * nt - k * nt) with ((r - k) * nt) by ring. rewrite Er. reflexivity.
      + intros n. rewrite Hv2. cbn [fst snd]. apply Hsame.
      + rewrite app_length, Nat2Z.inj_add, Hls, Hl2. ring.
      + intros i Hi. rewrite znth_app by lia. rewrite Hls.
        destruct (Z.ltb_spec i (k * nt)).
        * rewrite znth_slice by lia. unfold stream_of.
          assert (Ei : (e * nt + i) / nt = e + i / nt) by (rewrite Z.div_add_l by lia; reflexivity).
          assert (Em : (e * nt + i) mod nt = i mod nt) by (rewrite Z.add_comm, Z.mod_add by lia; reflexivity).
          rewrite Ei, Em.
          pose proof (Z.div_mod i nt ltac:(lia)). pose proof (Z.mod_pos_bound i nt ltac:(lia)).
          assert (0 <= i / nt < k) by (split; [apply Z.div_pos; lia | apply Z.div_lt_upper_bound; lia]).
          rewrite (Hrun (i / nt)) by lia. cbn [fst snd]. f_equal. nia.
        * rewrite (Hn2 (i - k * nt)) by lia. cbn [fst snd].
          rewrite (stream_ext _ _ Hsame). f_equal. ring.
  Qed.

  (** ---- whole-chunk I/O addresses the slab of the same region ---- *)
  Lemma combine_app_eq : forall (A B : Type) (a a' : list A) (b b' : list B), List.length a = List.length b ->
    combine (a ++ a') (b ++ b') = combine a b ++ combine a' b'.
  Proof.
    induction a as [|x a IH]; intros a' [|y b] b' H; simpl in *; try discriminate; auto.
    f_equal. apply IH. lia.
  Qed.

  Lemma rev_combine : forall (A B : Type) (a : list A) (b : list B), List.length a = List.length b ->
    rev (combine a b) = combine (rev a) (rev b).
  Proof.
    induction a as [|x a IH]; intros [|y b] H; simpl in *; try discriminate; auto.
    rewrite combine_app_eq by (rewrite !rev_length; lia). simpl. rewrite IH by lia. reflexivity.
  Qed.

  (** array coordinate of chunk-relative coordinate [r] in chunk [o]: origin * chunk_length + r, per dimension *)
  Definition region_coord (p : (Z * Z) * dimrec) : Z := fst (fst p) * c_len (snd p) + snd (fst p).
  Definition region_ok (p : (Z * Z) * dimrec) : Prop :=
    0 <= fst (fst p) /\ 0 <= snd (fst p) < c_len (snd p) /\ region_coord p < d_len (snd p).

  Lemma locate_spec_region : forall rdd ror, List.length ror = List.length rdd -> Forall valid_dim rdd ->
    Forall region_ok (combine ror rdd) ->
    locate_spec nt rdd (horner (combine (map region_coord (combine ror rdd)) (map d_len rdd))) =
    (horner (combine (map fst ror) (map n_chunks rdd)), horner (combine (map snd ror) (map c_len rdd)) * nt).
  Proof.
    unfold locate_spec.
    induction rdd as [|d rdd IH]; intros [|[o r] ror] Hl Hvd Hok; simpl in *; try discriminate; [reflexivity|].
    inversion Hvd as [|? ? Hd Hvr]; subst. inversion Hok as [|? ? Hp Hokr]; subst.
    destruct Hp as (P1 & P2 & P3). unfold region_coord in P3. simpl in P1, P2, P3.
    destruct Hd as (D1 & D2 & _).
    set (E := horner (combine (map region_coord (combine ror rdd)) (map d_len rdd))).
    assert (M : (o * c_len d + r + d_len d * E) mod d_len d = o * c_len d + r).
    { replace (o * c_len d + r + d_len d * E) with ((o * c_len d + r) + E * d_len d) by ring.
      rewrite Z.mod_add by lia. apply Z.mod_small. nia. }
    assert (Q : (o * c_len d + r + d_len d * E) / d_len d = E).
    { replace (o * c_len d + r + d_len d * E) with ((o * c_len d + r) + E * d_len d) by ring.
      rewrite Z.div_add by lia. rewrite Z.div_small by nia. lia. }
    change (region_coord (o, r, d)) with (o * c_len d + r).
    rewrite M, Q.
    assert (X1 : (o * c_len d + r) / c_len d = o) by (rewrite Z.div_add_l by lia; rewrite Z.div_small by lia; lia).
    assert (X2 : (o * c_len d + r) mod c_len d = r)
      by (replace (o * c_len d + r) with (r + o * c_len d) by ring; rewrite Z.mod_add by lia; apply Z.mod_small; lia).
    rewrite X1, X2.
    specialize (IH ror ltac:(lia) Hvr Hokr). fold E in IH. inversion IH as [[I1 I2]].
    rewrite I1. apply Z.mul_reg_r in I2; [|lia]. rewrite I2. f_equal.
  Qed.

  Lemma region_elem_bound : forall rdd ror, List.length ror = List.length rdd -> Forall valid_dim rdd ->
    Forall region_ok (combine ror rdd) ->
    0 <= horner (combine (map region_coord (combine ror rdd)) (map d_len rdd)) < prod (map d_len rdd).
  Proof.
    intros rdd ror Hl Hvd Hok.
    assert (G : Forall (fun p => 0 <= fst p < snd p) (combine (map region_coord (combine ror rdd)) (map d_len rdd)) /\
                map snd (combine (map region_coord (combine ror rdd)) (map d_len rdd)) = map d_len rdd).
    { revert ror Hl Hok. induction rdd as [|d rdd IH]; intros [|[o r] ror] Hl Hok; simpl in *; try discriminate.
      - split; constructor.
      - inversion Hvd; subst. inversion Hok as [|? ? Hp Hokr]; subst.
        destruct (IH H2 ror ltac:(lia) Hokr) as (A & B). destruct Hp as (P1 & P2 & P3). unfold region_coord in *. simpl in *.
        split; [constructor; simpl; auto; nia | f_equal; auto]. }
    destruct G as (G1 & G2). pose proof (horner_bounds _ G1) as HB. rewrite G2 in HB. exact HB.
  Qed.

  Definition region_coords (o r : list Z) : list Z := map region_coord (combine (combine o r) dd).

  Lemma whole_chunk_region_lemma : forall o r,
    List.length o = List.length dd -> List.length r = List.length dd ->
    Forall region_ok (combine (combine o r) dd) ->
    chunk_locate nt dd (compute_array_to_seek nt (region_coords o r) dd) =
    (calculate_chunk_num o dd, calculate_seek_in_chunk nt r dd).
  Proof.
    intros o r Ho Hr Hok.
    assert (Hv' : Forall valid_dim (rev dd)) by (apply Forall_rev; auto).
    assert (Lc : List.length (combine o r) = List.length dd) by (rewrite combine_length; lia).
    assert (Hok' : Forall region_ok (combine (rev (combine o r)) (rev dd))).
    { rewrite <- rev_combine by lia. apply Forall_rev. exact Hok. }
    assert (Ecs : compute_array_to_seek nt (region_coords o r) dd =
                  horner (combine (map region_coord (combine (rev (combine o r)) (rev dd))) (map d_len (rev dd))) * nt).
    { unfold compute_array_to_seek, compute_array_to_seek_q_user_seek_2. f_equal.
      replace (map region_coord (combine (rev (combine o r)) (rev dd))) with (rev (region_coords o r))
        by (unfold region_coords; rewrite <- map_rev, rev_combine by lia; reflexivity).
      rewrite <- map_rev.
      apply accumulate_horner; intros;
        unfold compute_array_to_seek_q_cnum_1, compute_array_to_seek_q_user_seek_1, compute_array_to_seek_q_user_seek_0,
          compute_array_to_seek_q_cnum_0, compute_array_to_seek_q_if_0;
        first [reflexivity | ring | (unfold region_coords; repeat (rewrite ?rev_length, ?map_length, ?combine_length); lia)]. }
    pose proof (region_elem_bound (rev dd) (rev (combine o r)) ltac:(rewrite !rev_length; lia) Hv' Hok') as HB.
    rewrite prod_map_rev in HB. rewrite Ecs.
    set (E := horner (combine (map region_coord (combine (rev (combine o r)) (rev dd))) (map d_len (rev dd)))) in *.
    rewrite (chunk_locate_spec nt dd (E * nt)) by (auto; try nia; rewrite Z.div_mul by lia; nia).
    rewrite Z.div_mul by lia. unfold E.
    rewrite locate_spec_region by (auto; rewrite !rev_length; lia).
    rewrite rev_combine by lia. rewrite map_fst_combine_len, map_snd_combine_len by (rewrite !rev_length; lia).
    f_equal.
    - unfold calculate_chunk_num. rewrite <- map_rev. symmetry.
      apply accumulate_horner; intros;
        unfold calculate_chunk_num_q_cnum_1, calculate_chunk_num_q_chunk_num_1, calculate_chunk_num_q_chunk_num_0,
          calculate_chunk_num_q_cnum_0, calculate_chunk_num_q_if_0;
        first [reflexivity | ring | (repeat (rewrite ?rev_length, ?map_length); lia)].
    - unfold calculate_seek_in_chunk, calculate_seek_in_chunk_q_chunk_seek_2. f_equal. rewrite <- map_rev. symmetry.
      apply accumulate_horner; intros;
        unfold calculate_seek_in_chunk_q_cnum_1, calculate_seek_in_chunk_q_chunk_seek_1, calculate_seek_in_chunk_q_chunk_seek_0,
          calculate_seek_in_chunk_q_cnum_0, calculate_seek_in_chunk_q_if_0;
        first [reflexivity | ring | (repeat (rewrite ?rev_length, ?map_length); lia)].
  Qed.

  Definition origin_ok (p : Z * dimrec) : Prop := 0 <= fst p < n_chunks (snd p).

  Lemma origin_digits : forall (a : list Z) (l : list dimrec), List.length a = List.length l ->
    Forall origin_ok (combine a l) ->
    Forall (fun p => 0 <= fst p < snd p) (combine a (map n_chunks l)) /\
    map snd (combine a (map n_chunks l)) = map n_chunks l.
  Proof.
    induction a as [|x a IH]; intros [|d l] Hl Hok; simpl in *; try discriminate.
    - split; constructor.
    - inversion Hok as [|? ? Hp Hr]; subst. destruct (IH l ltac:(lia) Hr) as (A & B).
      split; [constructor; auto | f_equal; auto].
  Qed.

  Lemma chunk_num_range : forall o, List.length o = List.length dd -> Forall origin_ok (combine o dd) ->
    0 <= calculate_chunk_num o dd < npg.
  Proof.
    intros o Ho Hok.
    assert (Hok' : Forall origin_ok (combine (rev o) (rev dd))) by (rewrite <- rev_combine by lia; apply Forall_rev; exact Hok).
    destruct (origin_digits (rev o) (rev dd) ltac:(rewrite !rev_length; lia) Hok') as (A & B).
    pose proof (horner_bounds _ A) as HB. rewrite B in HB. rewrite prod_map_rev in HB.
    assert (E : calculate_chunk_num o dd = horner (combine (rev o) (map n_chunks (rev dd)))).
    { unfold calculate_chunk_num. rewrite <- map_rev.
      apply accumulate_horner; intros;
        unfold calculate_chunk_num_q_cnum_1, calculate_chunk_num_q_chunk_num_1, calculate_chunk_num_q_chunk_num_0,
          calculate_chunk_num_q_cnum_0, calculate_chunk_num_q_if_0;
        first [reflexivity | ring | (repeat (rewrite ?rev_length, ?map_length); lia)]. }
    rewrite E. exact HB.
  Qed.

  (** HMCreadChunk: the buffer is the page of the origin's chunk; nothing changes *)
  Lemma hmc_readchunk_refines : forall st o, st_ok st -> List.length o = List.length dd -> Forall origin_ok (combine o dd) ->
    exists st', hmc_readchunk dd st o = Some (st', view (fst st) (snd st) (calculate_chunk_num o dd)) /\ st_ok st' /\
      forall n, view (fst st') (snd st') n = view (fst st) (snd st) n.
  Proof.
    intros st o (Hinv & Hnp & Hpg) Ho Hok. pose proof (chunk_num_range o Ho Hok) as Hc.
    destruct (access_step (fst st) (snd st) (calculate_chunk_num o dd + 1) (fun pg => pg) 0 Hinv ltac:(lia) ltac:(left; reflexivity))
      as (mp1 & s1 & Eacc & Hinv1 & Hnp1 & Hview1).
    { intros _. reflexivity. }
    replace (calculate_chunk_num o dd + 1 - 1) with (calculate_chunk_num o dd) in * by lia.
    assert (Hsame : forall n, view mp1 s1 n = view (fst st) (snd st) n).
    { intros n. rewrite Hview1. destruct (Z.eqb_spec n (calculate_chunk_num o dd)); subst; reflexivity. }
    exists (mp1, s1). unfold hmc_readchunk. rewrite Eacc. split; [reflexivity|]. split; [|exact Hsame].
    split; [exact Hinv1|]. split; [simpl; lia|]. intros cn Hcn. simpl. rewrite Hsame. apply Hpg; auto.
  Qed.

  (** HMCwriteChunk: the page of the origin's chunk becomes the buffer; every other page is untouched *)
  Lemma hmc_writechunk_refines : forall st o data, st_ok st -> List.length o = List.length dd ->
    Forall origin_ok (combine o dd) -> Z.of_nat (List.length data) = csize ->
    exists st', hmc_writechunk dd st o data = Some st' /\ st_ok st' /\
      forall n, view (fst st') (snd st') n = if n =? calculate_chunk_num o dd then data else view (fst st) (snd st) n.
  Proof.
    intros st o data (Hinv & Hnp & Hpg) Ho Hok Hlen. pose proof (chunk_num_range o Ho Hok) as Hc.
    destruct (access_step (fst st) (snd st) (calculate_chunk_num o dd + 1) (fun _ => data) MCACHE_DIRTY Hinv ltac:(lia)
                ltac:(right; reflexivity)) as (mp1 & s1 & Eacc & Hinv1 & Hnp1 & Hview1).
    { intros Z0. exfalso. exact (dirty_not_zero Z0). }
    replace (calculate_chunk_num o dd + 1 - 1) with (calculate_chunk_num o dd) in * by lia.
    exists (mp1, s1). unfold hmc_writechunk. rewrite Eacc. split; [reflexivity|]. split; [|exact Hview1].
    split; [exact Hinv1|]. split; [simpl; lia|]. intros cn Hcn. simpl. rewrite Hview1.
    destruct (Z.eqb_spec cn (calculate_chunk_num o dd)); [exact Hlen | apply Hpg; auto].
  Qed.

  (** the stream byte of array coordinate origin*chunk_length + r is byte (position of r in the chunk) of the
      origin's page *)
  Lemma stream_at_region : forall v o r b, List.length o = List.length dd -> List.length r = List.length dd ->
    Forall region_ok (combine (combine o r) dd) -> 0 <= b < nt ->
    stream_of v (compute_array_to_seek nt (region_coords o r) dd + b) =
    znth (v (calculate_chunk_num o dd)) (calculate_seek_in_chunk nt r dd + b).
  Proof.
    intros v o r b Ho Hr Hok Hbb.
    pose proof (whole_chunk_region_lemma o r Ho Hr Hok) as W.
    assert (exists E, compute_array_to_seek nt (region_coords o r) dd = E * nt) as (E & HE).
    { unfold compute_array_to_seek, compute_array_to_seek_q_user_seek_2. eexists. reflexivity. }
    rewrite HE in *. unfold stream_of, loc.
    assert (Ei : (E * nt + b) / nt = E) by (rewrite Z.div_add_l by lia; rewrite Z.div_small by lia; lia).
    assert (Em : (E * nt + b) mod nt = b) by (rewrite Z.add_comm, Z.mod_add by lia; apply Z.mod_small; lia).
    rewrite Ei, Em, W. reflexivity.
  Qed.

  (** "unwritten chunks read as the fill value": a page map whose pages all repeat the fill element *)
  Lemma fill_stream : forall (v : Z -> page) (fe : list Z),
    (forall cn off b, 0 <= cn < npg -> 0 <= off -> off + nt <= csize -> (nt | off) -> 0 <= b < nt ->
        znth (v cn) (off + b) = znth fe b) ->
    forall q, 0 <= q < total * nt -> stream_of v q = znth fe (q mod nt).
  Proof.
    intros v fe Hf q Hq. destruct (q_decomp q Hq) as (_ & Bb & Be).
    destruct (loc_facts (q / nt) Be) as (C1 & O1 & O2 & Dv). unfold stream_of. apply Hf; auto.
  Qed.
End Stream.

Lemma prod_n_chunks_nonneg : forall dd, Forall valid_dim dd -> 0 <= prod (map n_chunks dd).
Proof.
  induction 1 as [|d l Hd Hl IH]; unfold prod in *; simpl; [lia|]. destruct Hd as (_ & _ & H3 & _). nia.
Qed.

Lemma open_st_ok : forall nt dd maxc (s0 : fstore), Forall valid_dim dd -> pages_ok nt dd s0 ->
  st_ok nt dd (mcache_open maxc (npg dd), s0).
Proof.
  intros nt dd maxc s0 Hv Hpg. split; [|split].
  - apply open_inv. apply prod_n_chunks_nonneg; auto.
  - reflexivity.
  - exact Hpg.
Qed.

(** ---- statements as they appear in Properties_C04.v ---- *)
Definition geometry_ok (nt : Z) (dd : list dimrec) : Prop :=
  1 <= nt /\ dd <> [] /\ Forall valid_dim dd /\ prod (map d_len dd) * nt < 2147483648.

Lemma chunked_refines_stream_lemma2 : forall nt dd, geometry_ok nt dd ->
  (* initial state: cache just opened over a store of full-size pages *)
  (forall maxc s0, pages_ok nt dd s0 -> st_ok nt dd (mcache_open maxc (npg dd), s0)) /\
  (* HMCPwrite of r elements at element e = overwrite of bytes [e*nt, (e+r)*nt) of the stream *)
  (forall fuel data st e r,
     st_ok nt dd st -> 0 <= e -> Z.of_nat (List.length data) = r * nt -> e + r <= total dd -> (List.length data <= fuel)%nat ->
     exists st', hmcp_write nt dd fuel st (e * nt) data = Some st' /\ st_ok nt dd st' /\
       forall q, 0 <= q < total dd * nt ->
         stream_of nt dd (view (fst st') (snd st')) q =
         if (e * nt <=? q) && (q <? e * nt + r * nt) then znth data (q - e * nt)
         else stream_of nt dd (view (fst st) (snd st)) q) /\
  (* HMCPread returns bytes [e*nt, (e+r)*nt) of the stream and leaves every page as it was *)
  (forall fuel st e r,
     st_ok nt dd st -> 0 <= e -> 0 <= r -> e + r <= total dd -> (Z.to_nat r <= fuel)%nat ->
     exists st' out, hmcp_read nt dd fuel st (e * nt) (r * nt) = Some (st', out) /\ st_ok nt dd st' /\
       (forall n, view (fst st') (snd st') n = view (fst st) (snd st) n) /\
       Z.of_nat (List.length out) = r * nt /\
       forall i, 0 <= i < r * nt -> znth out i = stream_of nt dd (view (fst st) (snd st)) (e * nt + i)) /\
  (* unwritten chunks read as the fill value: pages that repeat the fill element give a stream that repeats it *)
  (forall (v : Z -> page) (fe : list Z),
     (forall cn off b, 0 <= cn < npg dd -> 0 <= off -> off + nt <= csize nt dd -> (nt | off) -> 0 <= b < nt ->
        znth (v cn) (off + b) = znth fe b) ->
     forall q, 0 <= q < total dd * nt -> stream_of nt dd v q = znth fe (q mod nt)).
Proof.
  intros nt dd (Hnt & Hne & Hv & Hb). split; [|split; [|split]].
  - intros. apply open_st_ok; auto.
  - intros. apply hmcp_write_refines; auto.
  - intros. apply hmcp_read_refines; auto.
  - intros v fe Hf q Hq. apply fill_stream; auto.
Qed.

Lemma whole_chunk_is_slab_lemma : forall nt dd, geometry_ok nt dd ->
  forall o, List.length o = List.length dd -> Forall origin_ok (combine o dd) ->
  (* geometry: the element at array coordinates origin*chunk_length + r lives in the origin's chunk at r's position *)
  (forall r, List.length r = List.length dd -> Forall region_ok (combine (combine o r) dd) ->
     chunk_locate nt dd (compute_array_to_seek nt (region_coords dd o r) dd) =
     (calculate_chunk_num o dd, calculate_seek_in_chunk nt r dd)) /\
  (* HMCreadChunk: the buffer holds, at r's position, the stream bytes of that element; nothing changes *)
  (forall st, st_ok nt dd st ->
     exists st' buf, hmc_readchunk dd st o = Some (st', buf) /\ st_ok nt dd st' /\
       (forall n, view (fst st') (snd st') n = view (fst st) (snd st) n) /\
       forall r b, List.length r = List.length dd -> Forall region_ok (combine (combine o r) dd) -> 0 <= b < nt ->
         znth buf (calculate_seek_in_chunk nt r dd + b) =
         stream_of nt dd (view (fst st) (snd st)) (compute_array_to_seek nt (region_coords dd o r) dd + b)) /\
  (* HMCwriteChunk: afterwards the stream bytes of those elements are the buffer's; bytes of other chunks keep their value *)
  (forall st data, st_ok nt dd st -> Z.of_nat (List.length data) = csize nt dd ->
     exists st', hmc_writechunk dd st o data = Some st' /\ st_ok nt dd st' /\
       (forall r b, List.length r = List.length dd -> Forall region_ok (combine (combine o r) dd) -> 0 <= b < nt ->
          stream_of nt dd (view (fst st') (snd st')) (compute_array_to_seek nt (region_coords dd o r) dd + b) =
          znth data (calculate_seek_in_chunk nt r dd + b)) /\
       (forall q, fst (chunk_locate nt dd (q / nt * nt)) <> calculate_chunk_num o dd ->
          stream_of nt dd (view (fst st') (snd st')) q = stream_of nt dd (view (fst st) (snd st)) q)).
Proof.
  intros nt dd (Hnt & Hne & Hv & Hb) o Ho Hok. split; [|split].
  - intros r Hr Hrk. apply whole_chunk_region_lemma; auto.
  - intros st Hst. destruct (hmc_readchunk_refines nt dd st o Hst Ho Hok) as (st' & E & Hst' & Hsame).
    exists st', (view (fst st) (snd st) (calculate_chunk_num o dd)). repeat split; auto; try apply Hst'.
    intros r b Hr Hrk Hbb. symmetry. apply stream_at_region; auto.
  - intros st data Hst Hlen. destruct (hmc_writechunk_refines nt dd st o data Hst Ho Hok Hlen) as (st' & E & Hst' & Hview).
    exists st'. split; [exact E|]. split; [exact Hst'|]. split.
    + intros r b Hr Hrk Hbb. rewrite (stream_at_region nt dd Hnt Hv Hb _ o r b Ho Hr Hrk Hbb).
      rewrite Hview, Z.eqb_refl. reflexivity.
    + intros q Hq. unfold stream_of, loc. rewrite Hview.
      destruct (Z.eqb_spec (fst (chunk_locate nt dd (q / nt * nt))) (calculate_chunk_num o dd)); [contradiction|reflexivity].
Qed.
