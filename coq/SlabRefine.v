(** C03 -- refinement proofs: the implementation model (SlabModel.v) simulates the array specification
    (SlabSpec.v) on whole operation histories.  Builds on SlabProofs.v. *)
From Coq Require Import ZArith List Bool Lia.
Require Import H4.SlabSpec H4.gen.Gen_Slab H4.SlabModel H4.SlabProofs.
Import ListNotations.
Local Open Scope Z_scope.

(* ---- linear index bounds -------------------------------------------------------------------- *)
Lemma prod_cons : forall d ds, prod (d :: ds) = d * prod ds.
Proof. reflexivity. Qed.

Lemma prod_app : forall a b, prod (a ++ b) = prod a * prod b.
Proof.
  induction a; intros; simpl app.
  - replace (prod []) with 1 by reflexivity. lia.
  - rewrite !prod_cons, IHa. lia.
Qed.

Lemma lin_bound : forall d p, length p = length d -> Forall (fun x => 0 <= x) d ->
  any2 coordck_bad p d = false -> 0 <= lin d p < prod d.
Proof.
  induction d; destruct p; intros H H0 H1; cbn [length any2] in *; try discriminate.
  - unfold lin, prod. simpl. lia.
  - inversion H0; subst. apply orb_false_elim in H1. destruct H1 as [A B].
    rewrite coordck_bad_spec in A. apply negb_false_iff in A. apply andb_prop in A. destruct A as [A1 A2].
    apply Z.leb_le in A1. apply Z.ltb_lt in A2.
    rewrite lin_cons by lia. rewrite prod_cons.
    destruct (IHd p) as [L1 L2]; auto. pose proof (prod_nonneg d H5). nia.
Qed.

Lemma any2_app : forall f p d q e, length p = length d ->
  any2 f (p ++ q) (d ++ e) = any2 f p d || any2 f q e.
Proof.
  induction p; destruct d; simpl; intros; try discriminate; auto.
  rewrite IHp by lia. rewrite orb_assoc. reflexivity.
Qed.

(* ---- the plan of NCvario, decomposed ----------------------------------------------------------- *)
Lemma plan_decomp : forall m start edges ps n,
  length start = length (m_shape m) -> length edges = length (m_shape m) ->
  ((if is_recvar m then 1 else 0) < length (m_shape m))%nat ->
  Forall (fun o => 0 <= o) start ->
  vario_plan m start edges = Some (ps, n) ->
  exists pre dk post spre sk epre ek,
    m_shape m = pre ++ dk :: post /\ start = spre ++ sk :: zeros post /\ edges = epre ++ ek :: post /\
    length spre = length pre /\ length epre = length pre /\ 0 <= ek <= dk - sk /\
    ps = map (fun p => p ++ sk :: zeros post) (odometer spre epre) /\ n = ek * prod post.
Proof.
  intros m start edges ps n Hs He Hb Hpos H.
  unfold vario_plan in H. destruct (vcmaxcontig m start edges) as [k|] eqn:V; [| discriminate].
  destruct (vcmaxcontig_sound m start edges k Hs He Hb Hpos V)
    as [pre [dk [post [spre [sk [epre [ek [S1 [S2 [S3 [L1 [L2 [L3 Hek]]]]]]]]]]]]].
  assert (F1 : firstn k start = spre) by (rewrite S2; apply firstn_exact; auto).
  assert (F2 : skipn k start = sk :: zeros post) by (rewrite S2; apply skipn_exact; auto).
  assert (F3 : firstn k edges = epre) by (rewrite S3; apply firstn_exact; auto).
  assert (F4 : skipn k edges = ek :: post) by (rewrite S3; apply skipn_exact; auto).
  exists pre, dk, post, spre, sk, epre, ek. repeat split; auto; try lia.
  - inversion H. destruct k; rewrite ?F1, ?F2, ?F3; auto.
    simpl in *. destruct spre, epre; try discriminate. simpl. rewrite F2. reflexivity.
  - inversion H. rewrite F4. reflexivity.
Qed.

(** a position the ripple counter hands to NCcoordck and that is accepted: its block lies inside the variable *)
Lemma block_in_var : forall pre dk post p' sk ek,
  length p' = length pre -> Forall (fun d => 0 <= d) (pre ++ dk :: post) ->
  any2 coordck_bad (p' ++ sk :: zeros post) (pre ++ dk :: post) = false ->
  0 <= ek <= dk - sk ->
  0 <= lin (pre ++ dk :: post) (p' ++ sk :: zeros post) /\
  lin (pre ++ dk :: post) (p' ++ sk :: zeros post) + ek * prod post <= prod (pre ++ dk :: post).
Proof.
  intros pre dk post p' sk ek Hl Hsh Hacc Hek.
  rewrite any2_app in Hacc by auto. apply orb_false_elim in Hacc. destruct Hacc as [A B].
  apply Forall_app in Hsh. destruct Hsh as [Hpre Hrest]. inversion Hrest as [| ? ? Hdk Hpost]; subst.
  destruct (lin_bound pre p' Hl Hpre A) as [L1 L2].
  cbn [any2] in B. apply orb_false_elim in B. destruct B as [B _].
  rewrite coordck_bad_spec in B. apply negb_false_iff in B. apply andb_prop in B. destruct B as [B1 B2].
  apply Z.leb_le in B1. apply Z.ltb_lt in B2.
  rewrite lin_app by (auto; unfold zeros; simpl; rewrite map_length; auto).
  rewrite lin_cons by (unfold zeros; rewrite map_length; auto). rewrite lin_zeros.
  rewrite prod_app, !prod_cons.
  pose proof (prod_nonneg post Hpost) as P0. pose proof (prod_nonneg pre Hpre) as P1.
  split. nia.
  assert (E1 : (sk + ek) * prod post <= dk * prod post) by nia.
  assert (E2 : (lin pre p' + 1) * (dk * prod post) <= prod pre * (dk * prod post)) by nia.
  nia.
Qed.

(* ---- NC_var_shape: the length of a fixed-size variable ---------------------------------------------- *)
Lemma var_len_fixed : forall m, is_recvar m = false -> var_len m = m_esz m * prod (m_shape m).
Proof.
  intros m H. unfold var_len, is_recvar in *. destruct (m_shape m) as [| d ds].
  - unfold prod; simpl; lia.
  - cbn [var_shape]. pose proof (var_shape_false ds (m_esz m)) as V.
    destruct (var_shape ds (m_esz m) false) as [l len]. cbn [snd fst] in *.
    unfold NC_UNLIMITED in H. cbn [andb]. rewrite H. subst. rewrite prod_cons. lia.
Qed.

Definition Ncells (m : mstate) : nat := Z.to_nat (prod (m_shape m)).
Definition fullfill (m : mstate) : list cell := repeat (Val (fill_of m)) (Ncells m).
Definition base (m : mstate) : list cell := match m_store m with [] => fullfill m | st => st end.

Lemma write_cells_fullfill : forall (x : cell) N w vals, (w + length vals <= N)%nat ->
  write_cells (repeat x N) (Z.of_nat w) vals = repeat x w ++ vals ++ repeat x (N - w - length vals).
Proof.
  intros. unfold write_cells. rewrite Nat2Z.id.
  replace N with (w + (length vals + (N - w - length vals)))%nat at 1 2 3 by lia.
  rewrite !repeat_app.
  rewrite firstn_exact by apply repeat_length.
  rewrite !app_length, !repeat_length.
  replace (w - (w + (length vals + (N - w - length vals))))%nat with 0%nat by lia. simpl.
  f_equal. f_equal.
  rewrite app_assoc. apply skipn_exact. rewrite app_length, !repeat_length. reflexivity.
Qed.

(** hdf_xdr_NCvdata, writing count numbers at element index w of a fixed-size variable, block inside the variable:
    whether the element is still empty (first write: chunked leading and trailing fill) or has data, the new
    content is the old content -- all fill values for an empty element -- with the numbers stored at w *)
Lemma xdr_write_block : forall m w count vals,
  is_recvar m = false -> m_nofill m = false -> 0 < m_esz m ->
  (m_store m = [] \/ length (m_store m) = Ncells m) -> Forall (fun d => 0 <= d) (m_shape m) ->
  0 <= w -> 0 <= count -> w + count <= prod (m_shape m) -> length vals = Z.to_nat count ->
  exists tr, xdr_vdata m true (w * m_esz m) count vals =
             Some (set_store m (write_cells (base m) w vals) (m_numrecs m), tr, []) /\
             length (write_cells (base m) w vals) = Ncells m.
Proof.
  intros m w count vals Hr Hnf He Hst Hsh Hw Hc Hb Hv.
  pose proof (prod_nonneg _ Hsh) as HP.
  unfold base. destruct (m_store m) as [| c0 st] eqn:St.
  - destruct (first_write_fills_explicit m w (prod (m_shape m)) count vals St Hnf He Hw Hc Hb) as [lc [tc [E _]]]; auto.
    { rewrite var_len_fixed by auto. lia. }
    unfold fullfill, Ncells.
    replace (write_cells (repeat (Val (fill_of m)) (Z.to_nat (prod (m_shape m)))) w vals)
      with (write_cells (repeat (Val (fill_of m)) (Z.to_nat (prod (m_shape m)))) (Z.of_nat (Z.to_nat w)) vals)
      by (f_equal; lia).
    rewrite write_cells_fullfill by lia.
    eexists. split.
    + rewrite E. repeat f_equal. lia.
    + rewrite !app_length, !repeat_length. lia.
  - destruct Hst as [C | Hl]; [discriminate |].
    eexists. split.
    + rewrite xdr_vdata_write_existing by (rewrite ?St; auto; discriminate).
      rewrite St. rewrite Z.div_mul by lia. reflexivity.
    + unfold write_cells. rewrite !app_length, firstn_length, repeat_length, skipn_length.
      unfold Ncells in *. lia.
Qed.

(** the fill calls that serve a read of a dataset without data reach exactly the count elements requested:
    HDmemfill gets the element count, NC_arrayfill the byte length count * szof (arguments regenerated from putget.c) *)
Lemma empty_read_fills_all : forall m count, 0 < m_esz m ->
  match m_fillattr m with
  | Some _ => if m_rdonly m then vdata_rdonly_memfill_count count (m_esz m)
              else vdata_template_memfill_count count (m_esz m)
  | None => (if m_rdonly m then vdata_rdonly_arrayfill_bytes count (m_esz m)
             else vdata_template_arrayfill_bytes count (m_esz m)) / m_esz m
  end = count.
Proof.
  intros m count He.
  unfold vdata_rdonly_memfill_count, vdata_template_memfill_count,
         vdata_rdonly_arrayfill_bytes, vdata_template_arrayfill_bytes.
  destruct (m_fillattr m); destruct (m_rdonly m); auto; apply Z.div_mul; lia.
Qed.

(** reading count numbers at element index w *)
Lemma xdr_read_block : forall m w count,
  is_recvar m = false -> 0 < m_esz m ->
  (m_store m = [] \/ length (m_store m) = Ncells m) -> Forall (fun d => 0 <= d) (m_shape m) ->
  0 <= w -> 0 <= count -> w + count <= prod (m_shape m) ->
  exists tr, xdr_vdata m false (w * m_esz m) count [] =
             Some (m, tr, firstn (Z.to_nat count) (skipn (Z.to_nat w) (base m))).
Proof.
  intros m w count Hr He Hst Hsh Hw Hc Hb.
  pose proof (prod_nonneg _ Hsh) as HP.
  unfold xdr_vdata, base, elem_length. cbv zeta. destruct (m_store m) as [| c0 st] eqn:St.
  - simpl length. replace (m_esz m * Z.of_nat 0) with 0 by lia. simpl.
    rewrite (empty_read_fills_all m count He). rewrite Z.min_id, Z.sub_diag. simpl repeat. rewrite app_nil_r.
    eexists. f_equal. f_equal.
    unfold fullfill, Ncells.
    replace (Z.to_nat (prod (m_shape m))) with (Z.to_nat w + (Z.to_nat count + (Z.to_nat (prod (m_shape m)) - Z.to_nat w - Z.to_nat count)))%nat by lia.
    rewrite !repeat_app. rewrite skipn_exact by apply repeat_length.
    rewrite firstn_exact by apply repeat_length. reflexivity.
  - destruct Hst as [C | Hl]; [discriminate |]. unfold Ncells in Hl.
    replace (m_esz m * Z.of_nat (length (c0 :: st)) <=? 0) with false by (symmetry; apply Z.leb_gt; simpl length; lia).
    cbn [andb negb].
    replace (m_esz m * Z.of_nat (length (c0 :: st)) <? w * m_esz m + count * m_esz m) with false
      by (symmetry; apply Z.ltb_ge; rewrite Hl; nia).
    rewrite Z.div_mul by lia. eexists. reflexivity.
Qed.

(* ---- the ripple counter as a pure function on the element content ------------------------------------- *)
Definition okvar (m : mstate) : Prop :=
  is_recvar m = false /\ m_nofill m = false /\ 0 < m_esz m /\ Forall (fun d => 1 <= d) (m_shape m) /\
  (m_store m = [] \/ length (m_store m) = Ncells m).

Definition same_meta (m m' : mstate) : Prop :=
  m_shape m' = m_shape m /\ m_esz m' = m_esz m /\ m_fillattr m' = m_fillattr m /\ m_dfill m' = m_dfill m /\
  m_nofill m' = m_nofill m /\ m_recsize m' = m_recsize m.

Lemma same_meta_refl : forall m, same_meta m m.
Proof. intros; repeat split. Qed.

Lemma shape_nonneg : forall l, Forall (fun d => 1 <= d) l -> Forall (fun d => 0 <= d) l.
Proof. intros. eapply Forall_impl; [| exact H]. simpl. intros. lia. Qed.

Lemma Ncells_pos : forall m, Forall (fun d => 1 <= d) (m_shape m) -> (1 <= Ncells m)%nat.
Proof. intros. unfold Ncells. pose proof (prod_pos _ H). lia. Qed.

Lemma base_full : forall m st nr, length st = Ncells m -> (1 <= Ncells m)%nat -> base (set_store m st nr) = st.
Proof. intros. unfold base. cbn [set_store m_store]. destruct st; auto. simpl in H. lia. Qed.

Lemma base_length : forall m, (m_store m = [] \/ length (m_store m) = Ncells m) -> length (base m) = Ncells m.
Proof.
  intros m [E | E]; unfold base.
  - rewrite E. unfold fullfill. apply repeat_length.
  - destruct (m_store m); auto. simpl in *. unfold fullfill. rewrite repeat_length. lia.
Qed.

(** what the ripple counter does to the content, given the positions, the block size and the user's values *)
Fixpoint loop_store (shape : list Z) (n : Z) (ps : list (list Z)) (st vals : list cell) : bool * list cell * list cell :=
  match ps with
  | [] => (true, st, vals)
  | p :: rest =>
      if any2 coordck_bad p shape then (false, st, vals)
      else loop_store shape n rest (write_cells st (lin shape p) (firstn (Z.to_nat n) vals)) (skipn (Z.to_nat n) vals)
  end.

Lemma loop_write : forall n ps a,
  okvar (acc_m a) -> 0 <= n ->
  (forall p, In p ps -> any2 coordck_bad p (m_shape (acc_m a)) = false ->
     length p = length (m_shape (acc_m a)) /\ 0 <= lin (m_shape (acc_m a)) p /\
     lin (m_shape (acc_m a)) p + n <= prod (m_shape (acc_m a))) ->
  (Z.to_nat n * length ps <= length (acc_vals a))%nat ->
  let r := loop_store (m_shape (acc_m a)) n ps (base (acc_m a)) (acc_vals a) in
  let a' := snd (vario_loop true n ps a) in
  fst (vario_loop true n ps a) = fst (fst r) /\ base (acc_m a') = snd (fst r) /\ acc_vals a' = snd r /\
  okvar (acc_m a') /\ same_meta (acc_m a) (acc_m a') /\
  (m_store (acc_m a) <> [] -> m_store (acc_m a') <> []) /\
  (forall p0 rest, ps = p0 :: rest -> any2 coordck_bad p0 (m_shape (acc_m a)) = false -> m_store (acc_m a') <> []).
Proof.
  intros n ps. induction ps as [| p0 rest IH]; intros a Hok Hn Hb Hv.
  - simpl. repeat split; auto; try apply Hok. intros; discriminate.
  - destruct Hok as [Hr [Hnf [He [Hsh Hst]]]].
    cbn [vario_loop loop_store]. rewrite coordck_fixed by auto.
    destruct (any2 coordck_bad p0 (m_shape (acc_m a))) eqn:B0.
    + simpl. repeat split; auto. intros q r E. inversion E; subst. congruence.
    + destruct (Hb p0 (or_introl eq_refl) B0) as [Lp [L0 L1]].
      assert (Hv0 : length (firstn (Z.to_nat n) (acc_vals a)) = Z.to_nat n).
      { rewrite firstn_length. simpl length in Hv. lia. }
      rewrite varoffset_rowmajor_lemma by auto.
      rewrite (Z.mul_comm (m_esz (acc_m a))).
      destruct (xdr_write_block (acc_m a) (lin (m_shape (acc_m a)) p0) n (firstn (Z.to_nat n) (acc_vals a)))
        as [tr [E Lw]]; auto. apply shape_nonneg; auto.
      rewrite E.
      pose proof (Ncells_pos (acc_m a) Hsh) as NP.
      set (m1 := set_store (acc_m a) (write_cells (base (acc_m a)) (lin (m_shape (acc_m a)) p0)
                                      (firstn (Z.to_nat n) (acc_vals a))) (m_numrecs (acc_m a))).
      set (a1 := mkAcc m1 (acc_tr a ++ [] ++ tr) (acc_cells a ++ []) (skipn (Z.to_nat n) (acc_vals a))).
      assert (Ok1 : okvar (acc_m a1)).
      { cbn [a1 acc_m]. unfold m1, okvar. cbn [set_store m_shape m_esz m_nofill m_store].
        repeat split; auto; try (right; rewrite Lw; reflexivity). }
      destruct (IH a1 Ok1 Hn) as [I1 [I2 [I3 [I4 [I5 [I6 I7]]]]]].
      * intros p Hp Bp. apply (Hb p (or_intror Hp) Bp).
      * cbn [a1 acc_vals]. rewrite skipn_length. simpl length in Hv. lia.
      * cbn [a1 acc_m acc_vals] in I1, I2, I3, I4, I5.
        assert (Bm1 : base m1 = write_cells (base (acc_m a)) (lin (m_shape (acc_m a)) p0) (firstn (Z.to_nat n) (acc_vals a))).
        { unfold m1. apply base_full; auto. }
        rewrite Bm1 in I1, I2, I3. unfold m1 in I1, I2, I3. cbn [set_store m_shape] in I1, I2, I3.
        fold m1 a1.
        assert (NE : m_store m1 <> []).
        { unfold m1. cbn [set_store m_store]. intro C. rewrite C in Lw. simpl in Lw. lia. }
        split; [exact I1 | split; [exact I2 | split; [exact I3 | split; [exact I4 |]]]].
        split; [| split; [intros _; apply I6; exact NE | intros q r _ _; apply I6; exact NE]].
        unfold same_meta in *. unfold m1 in I5. cbn [set_store m_shape m_esz m_fillattr m_dfill m_nofill m_recsize] in I5.
        exact I5.
Qed.

(* ---- NCvario, writing, as a pure function on the content ------------------------------------------------ *)
Definition vario_pure (m : mstate) (start edges : list Z) (vals : list cell) : bool * list cell :=
  if any2 coordck_bad start (m_shape m) then (false, base m)
  else match vario_plan m start edges with
       | None => (false, base m)
       | Some (ps, n) =>
           if n =? 0 then (true, base m)
           else let r := loop_store (m_shape m) n ps (base m) vals in (fst (fst r), snd (fst r))
       end.

Lemma okvar_numrecs : forall m nr, okvar m -> okvar (set_store m (m_store m) nr).
Proof. intros m nr H. exact H. Qed.

Lemma base_numrecs : forall m nr, base (set_store m (m_store m) nr) = base m.
Proof. intros. reflexivity. Qed.

Lemma plan_bounds : forall m start edges ps n,
  okvar m -> (0 < length (m_shape m))%nat ->
  length start = length (m_shape m) -> length edges = length (m_shape m) ->
  any2 coordck_bad start (m_shape m) = false ->
  vario_plan m start edges = Some (ps, n) ->
  0 <= n /\
  forall p, In p ps -> any2 coordck_bad p (m_shape m) = false ->
    length p = length (m_shape m) /\ 0 <= lin (m_shape m) p /\ lin (m_shape m) p + n <= prod (m_shape m).
Proof.
  intros m start edges ps n [Hr [Hnf [He [Hsh Hst]]]] Hn Hs Hc B P.
  pose proof (any2_false_nonneg _ _ Hs B) as Hnn.
  assert (Hb : ((if is_recvar m then 1 else 0) < length (m_shape m))%nat) by (rewrite Hr; lia).
  destruct (plan_decomp _ _ _ _ _ Hs Hc Hb Hnn P)
    as [pre [dk [post [spre [sk [epre [ek [S1 [S2 [S3 [L2 [L3 [Hek [Pp Pn]]]]]]]]]]]]]].
  pose proof (shape_nonneg _ Hsh) as Hsh0.
  assert (Hpost : Forall (fun d => 0 <= d) post).
  { rewrite S1 in Hsh0. apply Forall_app in Hsh0. destruct Hsh0 as [_ F]. inversion F; auto. }
  split. { subst n. pose proof (prod_nonneg post Hpost). nia. }
  intros p Hp Bp. subst ps n. apply in_map_iff in Hp. destruct Hp as [p' [<- Hp']].
  assert (Lp' : length p' = length pre) by (rewrite (odometer_len spre epre p'); auto; lia).
  rewrite S1 in *.
  destruct (block_in_var pre dk post p' sk ek Lp' Hsh0 Bp Hek) as [A1 A2].
  repeat split; auto. rewrite !app_length. simpl. unfold zeros. rewrite map_length. lia.
Qed.

Lemma vario_write_pure : forall m start edges tr0 cs0 vals,
  okvar m -> (0 < length (m_shape m))%nat ->
  length start = length (m_shape m) -> length edges = length (m_shape m) ->
  (any2 coordck_bad start (m_shape m) = false ->
   forall ps n, vario_plan m start edges = Some (ps, n) -> n <> 0 -> (Z.to_nat n * length ps <= length vals)%nat) ->
  let a' := snd (vario true start edges (mkAcc m tr0 cs0 vals)) in
  fst (vario true start edges (mkAcc m tr0 cs0 vals)) = fst (vario_pure m start edges vals) /\
  base (acc_m a') = snd (vario_pure m start edges vals) /\ okvar (acc_m a') /\ same_meta m (acc_m a') /\
  (m_store m <> [] -> m_store (acc_m a') <> []) /\
  (any2 coordck_bad start (m_shape m) = false ->
   forall p0 rest n, vario_plan m start edges = Some (p0 :: rest, n) -> n <> 0 ->
     any2 coordck_bad p0 (m_shape m) = false -> m_store (acc_m a') <> []).
Proof.
  intros m start edges tr0 cs0 vals Hok Hn Hs Hc Hv.
  pose proof Hok as [Hr [Hnf [He [Hsh Hst]]]].
  unfold vario, vario_pure. cbn [acc_m].
  destruct (m_shape m) as [| d0 dr] eqn:Sh. simpl in Hn; lia.
  rewrite <- Sh in *. rewrite coordck_fixed by auto.
  destruct (any2 coordck_bad start (m_shape m)) eqn:B.
  { cbn. repeat split; auto. intros C; discriminate. }
  cbn [acc_m acc_tr acc_cells acc_vals]. rewrite Hr. cbn [andb].
  destruct (vario_plan m start edges) as [[ps n] |] eqn:P.
  2:{ cbn. repeat split; auto. intros _ q r k C; discriminate. }
  destruct (n =? 0) eqn:N0.
  { cbn. repeat split; auto. intros _ q r k C Hk. inversion C; subst. apply Z.eqb_eq in N0. congruence. }
  apply Z.eqb_neq in N0.
  destruct (plan_bounds m start edges ps n Hok Hn Hs Hc B P) as [Hn0 Hb].
  pose proof (loop_write n ps (mkAcc m (tr0 ++ []) cs0 vals) Hok Hn0 Hb (Hv eq_refl ps n eq_refl N0)) as L.
  cbn [acc_m acc_vals] in L. cbv zeta in L.
  destruct (vario_loop true n ps (mkAcc m (tr0 ++ []) cs0 vals)) as [ok a2].
  cbn [fst snd] in L. destruct L as [L1 [L2 [L3 [L4 [L5 [L6 L7]]]]]].
  assert (G : forall m2, m_store m2 = m_store (acc_m a2) ->
            (m_store m <> [] -> m_store m2 <> []) /\
            (false = false -> forall p0 rest k, Some (ps, n) = Some (p0 :: rest, k) -> k <> 0 ->
               any2 coordck_bad p0 (m_shape m) = false -> m_store m2 <> [])).
  { intros m2 E2. rewrite E2. split; auto. intros _ q r k C Hk Bq. inversion C; subst. apply (L7 q r); auto. }
  destruct ok; cbn [fst snd acc_m].
  - destruct (m_numrecs (acc_m a2) <? hd 0 start + hd 0 edges); cbn [acc_m];
      (split; [auto | split; [auto | split; [apply L4 | split; [apply L5 | apply G; reflexivity]]]]).
  - split; [auto | split; [auto | split; [apply L4 | split; [apply L5 | apply G; reflexivity]]]].
Qed.

(* ---- block writes as single-cell updates ------------------------------------------------------------- *)
Definition updf (acc : list cell) (kv : nat * cell) : list cell := upd_nth (fst kv) (snd kv) acc.

Lemma upd_nth_length : forall {A} k (v : A) l, length (upd_nth k v l) = length l.
Proof. induction k; destruct l; simpl; auto. Qed.

Lemma firstn_upd : forall {A} (l : list A) i c, (i < length l)%nat -> firstn (S i) (upd_nth i c l) = firstn i l ++ [c].
Proof. induction l; destruct i; simpl; intros; try lia; auto. f_equal. apply IHl. lia. Qed.

Lemma skipn_upd : forall {A} (l : list A) i k c, (i < k)%nat -> skipn k (upd_nth i c l) = skipn k l.
Proof. induction l; destruct i, k; simpl; intros; try lia; auto. apply IHl. lia. Qed.

Lemma write_cells_in : forall st i vals, (i + length vals <= length st)%nat ->
  write_cells st (Z.of_nat i) vals = firstn i st ++ vals ++ skipn (i + length vals) st.
Proof.
  intros. unfold write_cells. rewrite Nat2Z.id.
  replace (i - length st)%nat with 0%nat by lia. reflexivity.
Qed.

Lemma write_cells_as_updates : forall chunk st i, (i + length chunk <= length st)%nat ->
  write_cells st (Z.of_nat i) chunk = fold_left updf (combine (seq i (length chunk)) chunk) st.
Proof.
  induction chunk as [| c cs IH]; intros st i H.
  - rewrite write_cells_in by auto. simpl. rewrite Nat.add_0_r. apply firstn_skipn.
  - cbn [length seq combine fold_left]. unfold updf at 2. cbn [fst snd].
    rewrite <- IH by (rewrite upd_nth_length; simpl in H; lia).
    rewrite !write_cells_in by (rewrite ?upd_nth_length; simpl in *; lia).
    simpl in H. rewrite firstn_upd by lia. rewrite skipn_upd by lia.
    rewrite <- app_assoc. cbn [length app].
    replace (i + S (length cs))%nat with (S i + length cs)%nat by lia. reflexivity.
Qed.

Lemma combine_app_l : forall {A B} (l1 l2 : list A) (v : list B),
  combine (l1 ++ l2) v = combine l1 (firstn (length l1) v) ++ combine l2 (skipn (length l1) v).
Proof.
  induction l1; intros; simpl. reflexivity.
  destruct v; simpl. destruct l2; reflexivity. f_equal. apply IHl1.
Qed.

(** when every position is accepted the ripple counter is a sequence of single-cell updates at the block indices *)
Lemma loop_store_accepted : forall shape n ps st vals,
  0 <= n -> Forall (fun p => any2 coordck_bad p shape = false /\ 0 <= lin shape p /\
                             (Z.to_nat (lin shape p) + Z.to_nat n <= length st)%nat) ps ->
  (Z.to_nat n * length ps <= length vals)%nat ->
  fst (loop_store shape n ps st vals) =
    (true, fold_left updf (combine (flat_map (fun p => seq (Z.to_nat (lin shape p)) (Z.to_nat n)) ps) vals) st).
Proof.
  intros shape n ps. induction ps as [| p0 rest IH]; intros st vals Hn Hf Hv.
  - reflexivity.
  - inversion Hf as [| ? ? [A [L0 L1]] Hf']; subst. cbn [loop_store flat_map]. rewrite A.
    simpl length in Hv.
    assert (Lf : length (firstn (Z.to_nat n) vals) = Z.to_nat n) by (rewrite firstn_length; lia).
    rewrite IH; auto.
    + f_equal. rewrite combine_app_l, fold_left_app. rewrite seq_length.
      replace (lin shape p0) with (Z.of_nat (Z.to_nat (lin shape p0))) at 1 by lia.
      rewrite write_cells_as_updates by lia. rewrite Lf. reflexivity.
    + eapply Forall_impl; [| exact Hf']. intros p [B [C D]]. repeat split; auto.
      unfold write_cells. rewrite !app_length, firstn_length, repeat_length, skipn_length. lia.
    + rewrite skipn_length. lia.
Qed.

Lemma upd_nth_nth : forall {A} k (v : A) l i d,
  nth i (upd_nth k v l) d = if (i =? k)%nat && (k <? length l)%nat then v else nth i l d.
Proof.
  induction k; destruct l; intros; simpl.
  - rewrite andb_false_r. reflexivity.
  - destruct i; simpl; auto.
  - rewrite andb_false_r. reflexivity.
  - destruct i; simpl; auto. rewrite IHk. reflexivity.
Qed.

(** the content changes only inside the blocks of accepted positions *)
Lemma loop_store_changed : forall shape n ps st vals i,
  nth i (snd (fst (loop_store shape n ps st vals))) Undef = nth i st Undef \/
  exists p, In p ps /\ any2 coordck_bad p shape = false /\
            (Z.to_nat (lin shape p) <= i < Z.to_nat (lin shape p) + Z.to_nat n)%nat.
Proof.
  intros shape n ps. induction ps as [| p0 rest IH]; intros st vals i. left; reflexivity.
  cbn [loop_store]. destruct (any2 coordck_bad p0 shape) eqn:B. left; reflexivity.
  destruct (IH (write_cells st (lin shape p0) (firstn (Z.to_nat n) vals)) (skipn (Z.to_nat n) vals) i) as [E | [p [Hp [Bp R]]]].
  - destruct (Nat.lt_ge_cases i (Z.to_nat (lin shape p0))) as [C | C].
    + left. rewrite E. apply write_cells_frame. left. auto.
    + destruct (Nat.le_gt_cases (Z.to_nat (lin shape p0) + Z.to_nat n) i) as [D | D].
      * left. rewrite E. apply write_cells_frame. right. rewrite firstn_length. lia.
      * right. exists p0. split; [left; auto | split; auto].
  - right. exists p. split; [right; auto | split; auto].
Qed.

(* ---- valid requests: everything is accepted ---------------------------------------------------------- *)
Lemma in_zrange_inv : forall n s t x, In x (zrange s t n) -> exists j, (j < n)%nat /\ x = s + Z.of_nat j * t.
Proof.
  induction n; simpl; intros. contradiction.
  destruct H as [<- | H]. exists 0%nat. split; [lia | simpl; lia].
  destruct (IHn _ _ _ H) as [j [A B]]. exists (S j). split; [lia | lia].
Qed.

Lemma slab_in_bounds : forall s t c d,
  length t = length s -> length c = length s -> length d = length s ->
  Forall (fun x => 0 <= x) t -> all4 dim_in s t c d = true ->
  forall q, In q (slab_cells s t c) -> any2 coordck_bad q d = false.
Proof.
  induction s as [| s0 s IH]; destruct t as [| t0 t], c as [| c0 c], d as [| d0 d]; intros Ht Hc Hd Ft H q Hq;
    try discriminate.
  - simpl in Hq. destruct Hq as [<- | []]. reflexivity.
  - cbn [all4] in H. apply andb_prop in H. destruct H as [D H]. inversion Ft; subst.
    cbn [slab_cells] in Hq. apply in_flat_map in Hq. destruct Hq as [x [Hx Hq]].
    apply in_map_iff in Hq. destruct Hq as [q' [<- Hq']].
    cbn [any2]. rewrite (IH t c d) by (simpl in *; auto; lia). rewrite orb_false_r.
    rewrite coordck_bad_spec. apply negb_false_iff.
    destruct (in_zrange_inv _ _ _ _ Hx) as [j [J1 J2]].
    unfold dim_in, reach in D. apply andb_prop in D. destruct D as [D1 D2].
    apply Z.leb_le in D1. apply Z.ltb_lt in D2.
    apply andb_true_intro. split; [apply Z.leb_le | apply Z.ltb_lt]; nia.
Qed.

Lemma valid_start_ok : forall s e d, length e = length s -> length d = length s ->
  Forall (fun c => 1 <= c) e -> all4 dim_in s (ones s) e d = true -> any2 coordck_bad s d = false.
Proof.
  intros. apply (slab_in_bounds s (ones s) e d); auto.
  - unfold ones. apply map_length.
  - unfold ones. clear. induction s; simpl; constructor; auto. lia.
  - apply slab_start_in; auto. unfold ones. apply map_length.
Qed.

Lemma scan_total : forall l i b, Forall tri_ok l -> exists k, maxcontig_scan l i b = Some k.
Proof.
  induction l as [| [[e s] o] r IH]; intros i b H. eexists; reflexivity.
  inversion H as [| ? ? T H']; subst. cbn [maxcontig_scan]. rewrite maxcontig_bad_spec.
  simpl in T. replace ((0 <=? e) && (e <=? s - o)) with true
    by (symmetry; apply andb_true_intro; split; apply Z.leb_le; lia).
  simpl negb. cbv iota. destruct (truth (maxcontig_break e s)). eexists; reflexivity. apply IH. auto.
Qed.

Lemma valid_tri_ok : forall s e d, length e = length s -> length d = length s ->
  Forall (fun c => 1 <= c) e -> all4 dim_in s (ones s) e d = true -> Forall tri_ok (combine (combine e d) s).
Proof.
  induction s as [| s0 s IH]; destruct e as [| e0 e], d as [| d0 d]; intros; try discriminate; simpl; auto.
  cbn [ones map all4] in H2. apply andb_prop in H2. destruct H2 as [D H2]. inversion H1; subst.
  constructor. 2: apply IH; simpl in *; auto; lia.
  unfold dim_in, reach in D. apply andb_prop in D. destruct D as [D1 D2].
  apply Z.leb_le in D1. apply Z.ltb_lt in D2. simpl. lia.
Qed.

Lemma valid_plan_some : forall m start edges,
  is_recvar m = false -> length start = length (m_shape m) -> length edges = length (m_shape m) ->
  Forall (fun c => 1 <= c) edges -> all4 dim_in start (ones start) edges (m_shape m) = true ->
  exists ps n, vario_plan m start edges = Some (ps, n).
Proof.
  intros m start edges Hr Hs He Hf Hin. unfold vario_plan, vcmaxcontig. rewrite Hr. cbn [skipn].
  destruct (scan_total (rev (combine (combine edges (m_shape m)) start)) (Nat.pred (length (m_shape m))) 0) as [k E].
  { apply Forall_rev. apply valid_tri_ok; auto; lia. }
  rewrite E. eexists. eexists. reflexivity.
Qed.

Lemma odometer_length : forall s e, length e = length s -> Forall (fun c => 0 <= c) e ->
  length (odometer s e) = Z.to_nat (prod e).
Proof.
  induction s as [| s0 s IH]; destruct e as [| e0 e]; intros; try discriminate. reflexivity.
  inversion H0; subst. cbn [odometer]. rewrite prod_cons.
  rewrite Z2Nat.inj_mul by (auto; apply prod_nonneg; auto).
  rewrite <- (IH e) by (simpl in *; auto; lia).
  generalize (odometer s e) as L. intro L.
  assert (G : forall n st, length (flat_map (fun i => map (cons i) L) (zrange st 1 n)) = (n * length L)%nat).
  { induction n; intros; simpl; auto. rewrite app_length, map_length, IHn. reflexivity. }
  apply G.
Qed.

Lemma map_to_nat_zrange : forall k L, 0 <= L -> map Z.to_nat (zrange L 1 k) = seq (Z.to_nat L) k.
Proof.
  induction k; intros; simpl; auto. f_equal. rewrite IHk by lia. f_equal. lia.
Qed.

Definition idx (shape : list Z) (c : list Z) : nat := Z.to_nat (lin shape c).

(** NCvario on a valid unit-stride request: success, and the new content is the old content (all fill for a
    still empty element) updated cell by cell at the slab's row-major indices, in slab order *)
Lemma valid_write_pure : forall m start edges vals,
  okvar m -> (0 < length (m_shape m))%nat ->
  length start = length (m_shape m) -> length edges = length (m_shape m) ->
  Forall (fun c => 1 <= c) edges -> all4 dim_in start (ones start) edges (m_shape m) = true ->
  length vals = Z.to_nat (prod edges) ->
  vario_pure m start edges vals =
    (true, fold_left updf (combine (map (idx (m_shape m)) (slab_cells start (ones start) edges)) vals) (base m)) /\
  (forall ps n, vario_plan m start edges = Some (ps, n) -> (Z.to_nat n * length ps <= length vals)%nat) /\
  (exists p0 rest n, vario_plan m start edges = Some (p0 :: rest, n) /\ n <> 0 /\
                     any2 coordck_bad p0 (m_shape m) = false) /\
  any2 coordck_bad start (m_shape m) = false.
Proof.
  intros m start edges vals Hok Hn Hs He Hf Hin Hv.
  pose proof Hok as [Hr [Hnf [Hesz [Hsh Hst]]]].
  pose proof (valid_start_ok start edges (m_shape m) ltac:(lia) ltac:(lia) Hf Hin) as B.
  destruct (valid_plan_some m start edges Hr Hs He Hf Hin) as [ps [n P]].
  pose proof (any2_false_nonneg _ _ Hs B) as Hnn.
  assert (Hb : ((if is_recvar m then 1 else 0) < length (m_shape m))%nat) by (rewrite Hr; lia).
  destruct (plan_decomp _ _ _ _ _ Hs He Hb Hnn P)
    as [pre [dk [post [spre [sk [epre [ek [S1 [S2 [S3 [L2 [L3 [Hek [Pp Pn]]]]]]]]]]]]]].
  pose proof (shape_nonneg _ Hsh) as Hsh0.
  assert (Hpost : Forall (fun d => 0 <= d) post).
  { rewrite S1 in Hsh0. apply Forall_app in Hsh0. destruct Hsh0 as [_ F]. inversion F; auto. }
  assert (Hpost1 : Forall (fun d => 1 <= d) post).
  { rewrite S1 in Hsh. apply Forall_app in Hsh. destruct Hsh as [_ F]. inversion F; auto. }
  assert (Hepre : Forall (fun c => 1 <= c) epre /\ 1 <= ek).
  { rewrite S3 in Hf. apply Forall_app in Hf. destruct Hf as [F1 F2]. inversion F2; auto. }
  destruct Hepre as [Hepre Hek1].
  pose proof (prod_pos _ Hpost1) as PP.
  assert (N1 : 1 <= n) by (subst n; nia).
  (* the leading part of the request lies inside the shape: every odometer position is accepted *)
  assert (Hlead : all4 dim_in spre (ones spre) epre pre = true).
  { rewrite S1, S2, S3 in Hin.
    replace (ones (spre ++ sk :: zeros post)) with (ones spre ++ 1 :: ones post) in Hin
      by (unfold ones, zeros; rewrite map_app; cbn [map]; rewrite map_map; reflexivity).
    rewrite all4_app in Hin by (unfold ones; rewrite ?map_length; lia).
    apply andb_prop in Hin. tauto. }
  assert (Hacc : forall p', In p' (odometer spre epre) ->
            any2 coordck_bad (p' ++ sk :: zeros post) (m_shape m) = false).
  { intros p' Hp'. rewrite S1. rewrite any2_app by (rewrite (odometer_len spre epre p'); auto; lia).
    rewrite odometer_slab in Hp'.
    rewrite (slab_in_bounds spre (ones spre) epre pre) by
      (auto; try lia; unfold ones; try apply map_length; clear; induction spre; simpl; constructor; auto; lia).
    rewrite S1, S2 in B. rewrite any2_app in B by lia. apply orb_false_elim in B. tauto. }
  pose proof (plan_bounds m start edges ps n Hok Hn Hs He B P) as [Hn0 Hbd].
  assert (Lps : length ps = Z.to_nat (prod epre)).
  { subst ps. rewrite map_length. apply odometer_length. lia. eapply Forall_impl; [| exact Hepre]. simpl; intros; lia. }
  assert (Hcount : (Z.to_nat n * length ps = length vals)%nat).
  { rewrite Lps, Hv, S3, prod_app, prod_cons, Pn.
    pose proof (prod_pos _ Hepre). rewrite <- Z2Nat.inj_mul by lia. f_equal. lia. }
  split.
  2:{ split. { intros ps' n' P'. rewrite P in P'. inversion P'; subst ps' n'. lia. }
      split; auto.
      pose proof (odometer_start spre epre ltac:(lia) Hepre) as St.
      destruct ps as [| p0 rest] eqn:Eps.
      { symmetry in Pp. apply map_eq_nil in Pp. rewrite Pp in St. contradiction. }
      exists p0, rest, n. split; auto. split. lia.
      assert (Hin0 : In p0 (map (fun p => p ++ sk :: zeros post) (odometer spre epre))) by (rewrite <- Pp; left; auto).
      apply in_map_iff in Hin0. destruct Hin0 as [p' [<- Hp']]. apply Hacc. auto. }
  unfold vario_pure. rewrite B, P.
  replace (n =? 0) with false by (symmetry; apply Z.eqb_neq; lia).
  assert (LB : length (base m) = Ncells m) by (apply base_length; auto).
  rewrite loop_store_accepted; auto; try lia.
  2:{ rewrite Forall_forall. intros p Hp. pose proof Hp as Hp2. rewrite Pp in Hp2.
      apply in_map_iff in Hp2. destruct Hp2 as [p' [<- Hp']].
      pose proof (Hacc p' Hp') as A. destruct (Hbd _ Hp A) as [_ [A1 A2]].
      repeat split; auto. rewrite LB. unfold Ncells. lia. }
  cbn [fst snd]. f_equal. f_equal. f_equal.
  (* the block indices are the slab's row-major indices *)
  rewrite Pp, flat_map_map'.
  erewrite flat_map_ext'.
  2:{ intros p' Hp'. rewrite <- map_to_nat_zrange.
      2:{ pose proof (Hacc p' Hp') as A.
          assert (In (p' ++ sk :: zeros post) ps)
            by (rewrite Pp; apply (in_map (fun p => p ++ sk :: zeros post)); auto).
          destruct (Hbd _ H A) as [_ [A1 _]]. exact A1. }
      reflexivity. }
  rewrite <- map_flat_map. rewrite S1. rewrite Pn.
  rewrite vario_blocks_rowmajor_lemma by (auto; lia).
  rewrite map_map. rewrite <- S2, <- S3. reflexivity.
Qed.

(* ---- any request: what can change lies in the requested region, inside the shape -------------------- *)
Definition inb (shape c : list Z) : bool := all3 (fun x d _ => (0 <=? x) && (x <? d)) c shape c.

Lemma inb_any2 : forall shape c, length c = length shape -> inb shape c = negb (any2 coordck_bad c shape).
Proof. intros. unfold inb. rewrite any2_coordck by auto. rewrite negb_involutive. reflexivity. Qed.

Lemma accepted_block_in_region : forall pre dk post spre sk epre ek p' i,
  length spre = length pre -> length epre = length pre ->
  Forall (fun d => 0 <= d) (pre ++ dk :: post) -> 0 <= ek <= dk - sk -> 0 <= sk ->
  In p' (odometer spre epre) ->
  any2 coordck_bad (p' ++ sk :: zeros post) (pre ++ dk :: post) = false ->
  (Z.to_nat (lin (pre ++ dk :: post) (p' ++ sk :: zeros post)) <= i <
   Z.to_nat (lin (pre ++ dk :: post) (p' ++ sk :: zeros post)) + Z.to_nat (ek * prod post))%nat ->
  In i (map (idx (pre ++ dk :: post))
            (filter (inb (pre ++ dk :: post))
                    (slab_cells (spre ++ sk :: zeros post) (ones (spre ++ sk :: zeros post)) (epre ++ ek :: post)))).
Proof.
  intros pre dk post spre sk epre ek p' i L2 L3 Hsh Hek Hsk Hp' Hacc Hi.
  assert (Lp' : length p' = length pre) by (rewrite (odometer_len spre epre p'); auto; lia).
  destruct (block_in_var pre dk post p' sk ek Lp' Hsh Hacc Hek) as [A1 A2].
  pose proof Hsh as Hsh'. apply Forall_app in Hsh'. destruct Hsh' as [Hpre Hrest]. inversion Hrest as [| ? ? Hdk Hpost]; subst.
  pose proof (prod_nonneg post Hpost) as P0.
  set (Lp := lin (pre ++ dk :: post) (p' ++ sk :: zeros post)) in *.
  set (r := Z.of_nat i - Lp).
  assert (Hr : 0 <= r < ek * prod post) by (unfold r; lia).
  (* the r-th element of the block is the linear index of a cell q of the sub-slab *)
  assert (Hin : In (sk * prod post + r) (map (lin (dk :: post)) (slab_cells (sk :: zeros post) (1 :: ones post) (ek :: post)))).
  { rewrite block_consecutive by (auto; lia). apply in_zrange1. lia. }
  apply in_map_iff in Hin. destruct Hin as [q [Eq Hq]].
  assert (Lq : length q = length (dk :: post)).
  { rewrite (slab_cells_len (sk :: zeros post) (1 :: ones post) (ek :: post) q); auto;
      unfold zeros, ones; simpl; rewrite ?map_length; auto. }
  assert (ELp : Lp = lin pre p' * prod (dk :: post) + sk * prod post).
  { unfold Lp. rewrite lin_app by (auto; unfold zeros; simpl; rewrite map_length; auto).
    rewrite lin_cons by (unfold zeros; rewrite map_length; auto). rewrite lin_zeros. lia. }
  apply in_map_iff. exists (p' ++ q). split.
  - unfold idx. rewrite lin_app by auto. rewrite Eq. unfold r. lia.
  - apply filter_In. split.
    + replace (ones (spre ++ sk :: zeros post)) with (ones spre ++ 1 :: ones post)
        by (unfold ones, zeros; rewrite map_app; cbn [map]; rewrite map_map; reflexivity).
      rewrite slab_app by (unfold ones; rewrite ?map_length; lia).
      apply in_flat_map. exists p'. split. rewrite <- odometer_slab. auto. apply in_map. auto.
    + rewrite inb_any2 by (rewrite !app_length; simpl in *; lia).
      apply negb_true_iff. rewrite any2_app by auto.
      rewrite any2_app in Hacc by auto. apply orb_false_elim in Hacc. destruct Hacc as [Ha _]. rewrite Ha. simpl.
      apply (slab_in_bounds (sk :: zeros post) (1 :: ones post) (ek :: post) (dk :: post)); auto;
        unfold zeros, ones; simpl; rewrite ?map_length; auto.
      * constructor. lia. clear. induction post; simpl; constructor; auto. lia.
      * fold (zeros post). fold (ones post). rewrite whole_in_range. rewrite andb_true_r.
        unfold dim_in, reach. apply andb_true_intro. split; [apply Z.leb_le | apply Z.ltb_lt]; lia.
Qed.

Lemma write_changed : forall m start edges vals i,
  okvar m -> (0 < length (m_shape m))%nat ->
  length start = length (m_shape m) -> length edges = length (m_shape m) ->
  nth i (snd (vario_pure m start edges vals)) Undef = nth i (base m) Undef \/
  In i (map (idx (m_shape m)) (filter (inb (m_shape m)) (slab_cells start (ones start) edges))).
Proof.
  intros m start edges vals i Hok Hn Hs He.
  pose proof Hok as [Hr [Hnf [Hesz [Hsh Hst]]]].
  unfold vario_pure.
  destruct (any2 coordck_bad start (m_shape m)) eqn:B. left; reflexivity.
  destruct (vario_plan m start edges) as [[ps n] |] eqn:P. 2: left; reflexivity.
  destruct (n =? 0). left; reflexivity.
  cbn [snd].
  destruct (loop_store_changed (m_shape m) n ps (base m) vals i) as [E | [p [Hp [Bp R]]]]. left; exact E.
  right.
  pose proof (any2_false_nonneg _ _ Hs B) as Hnn.
  assert (Hb : ((if is_recvar m then 1 else 0) < length (m_shape m))%nat) by (rewrite Hr; lia).
  destruct (plan_decomp _ _ _ _ _ Hs He Hb Hnn P)
    as [pre [dk [post [spre [sk [epre [ek [S1 [S2 [S3 [L2 [L3 [Hek [Pp Pn]]]]]]]]]]]]]].
  subst ps n. apply in_map_iff in Hp. destruct Hp as [p' [<- Hp']].
  rewrite S1 in *. rewrite S2, S3.
  apply (accepted_block_in_region pre dk post spre sk epre ek p' i); auto.
  - apply shape_nonneg; auto.
  - rewrite S2 in Hnn. apply Forall_app in Hnn. destruct Hnn as [_ F]. inversion F; auto.
Qed.

Lemma flat_map_nil : forall {A B} (l : list A), flat_map (fun _ => @nil B) l = [].
Proof. induction l; simpl; auto. Qed.

Lemma slab_empty : forall s t c, length t = length s -> length c = length s ->
  forallb (fun x => 1 <=? x) c = false -> slab_cells s t c = [].
Proof.
  induction s as [| s0 s IH]; destruct t as [| t0 t], c as [| c0 c]; intros; try discriminate.
  cbn [forallb] in H1. cbn [slab_cells]. destruct (1 <=? c0) eqn:E.
  - simpl in H1. rewrite (IH t c) by (simpl in *; auto; lia). simpl. apply flat_map_nil.
  - apply Z.leb_gt in E. replace (Z.to_nat c0) with 0%nat by lia. reflexivity.
Qed.

(* ---- reading ------------------------------------------------------------------------------------------- *)
Lemma xdr_read_same : forall m wh c v m2 tr cs, xdr_vdata m false wh c v = Some (m2, tr, cs) -> m2 = m.
Proof.
  intros m wh c v m2 tr cs H. unfold xdr_vdata in H. cbv zeta in H.
  destruct ((elem_length m <=? 0) && negb false); [inversion H; reflexivity |].
  match type of H with (if ?x then _ else _) = _ => destruct x; [discriminate |] end.
  inversion H. reflexivity.
Qed.

Lemma vario_loop_read_state : forall n ps a, is_recvar (acc_m a) = false ->
  acc_m (snd (vario_loop false n ps a)) = acc_m a.
Proof.
  induction ps as [| p0 rest IH]; intros a Hr; auto.
  cbn [vario_loop]. rewrite coordck_fixed by auto.
  destruct (any2 coordck_bad p0 (m_shape (acc_m a))); auto.
  destruct (xdr_vdata (acc_m a) false (varoffset (acc_m a) p0) n (firstn (Z.to_nat n) (acc_vals a)))
    as [[[m2 tr2] cs] |] eqn:X; auto.
  apply xdr_read_same in X. subst m2. rewrite IH; auto.
Qed.

Lemma vario_read_state : forall start edges a, is_recvar (acc_m a) = false -> (0 < length (m_shape (acc_m a)))%nat ->
  let m' := acc_m (snd (vario false start edges a)) in
  m_store m' = m_store (acc_m a) /\ same_meta (acc_m a) m'.
Proof.
  intros start edges a Hr Hn. unfold vario.
  destruct (m_shape (acc_m a)) as [| d0 dr] eqn:Sh. simpl in Hn; lia.
  rewrite coordck_fixed by auto.
  destruct (any2 coordck_bad start (m_shape (acc_m a))). split; [reflexivity | apply same_meta_refl].
  cbn [acc_m]. rewrite Hr. cbn [andb].
  destruct (vario_plan (acc_m a) start edges) as [[ps n] |]. 2: split; [reflexivity | apply same_meta_refl].
  destruct (n =? 0). split; [reflexivity | apply same_meta_refl].
  pose proof (vario_loop_read_state n ps (mkAcc (acc_m a) (acc_tr a ++ []) (acc_cells a) (acc_vals a)) Hr) as L.
  destruct (vario_loop false n ps (mkAcc (acc_m a) (acc_tr a ++ []) (acc_cells a) (acc_vals a))) as [ok a2].
  cbn [snd acc_m] in *.
  destruct ok; cbn [snd acc_m].
  - destruct (m_numrecs (acc_m a2) <? hd 0 start + hd 0 edges); cbn [acc_m]; unfold same_meta;
      cbn [set_store m_store m_shape m_esz m_fillattr m_dfill m_nofill m_recsize]; rewrite L; repeat split.
  - rewrite L. split; [reflexivity | apply same_meta_refl].
Qed.

Lemma skipn_S_skipn : forall {A} (l : list A) L, skipn 1 (skipn L l) = skipn (S L) l.
Proof. intros A l L. revert l. induction L; intros; [reflexivity |]. destruct l; [reflexivity |]. exact (IHL l). Qed.

Lemma firstn_skipn_nth : forall (l : list cell) L n, (L + n <= length l)%nat ->
  firstn n (skipn L l) = map (fun j => nth j l Undef) (seq L n).
Proof.
  intros l L n. revert l L. induction n; intros; simpl. reflexivity.
  destruct (skipn L l) as [| x r] eqn:E.
  - apply (f_equal (@length _)) in E. rewrite skipn_length in E. simpl in E. lia.
  - f_equal.
    + replace x with (nth 0 (skipn L l) Undef) by (rewrite E; reflexivity). rewrite nth_skipn'. f_equal. lia.
    + rewrite <- IHn by lia. replace r with (skipn 1 (skipn L l)) by (rewrite E; reflexivity).
      rewrite skipn_S_skipn. reflexivity.
Qed.

Lemma loop_read : forall n ps a,
  okvar (acc_m a) -> 0 <= n ->
  Forall (fun p => any2 coordck_bad p (m_shape (acc_m a)) = false /\ length p = length (m_shape (acc_m a)) /\
                   0 <= lin (m_shape (acc_m a)) p /\ lin (m_shape (acc_m a)) p + n <= prod (m_shape (acc_m a))) ps ->
  fst (vario_loop false n ps a) = true /\
  acc_cells (snd (vario_loop false n ps a)) =
    acc_cells a ++ map (fun j => nth j (base (acc_m a)) Undef)
                       (flat_map (fun p => seq (Z.to_nat (lin (m_shape (acc_m a)) p)) (Z.to_nat n)) ps).
Proof.
  intros n ps. induction ps as [| p0 rest IH]; intros a Hok Hn Hf.
  - simpl. rewrite app_nil_r. auto.
  - pose proof Hok as [Hr [Hnf [He [Hsh Hst]]]].
    inversion Hf as [| ? ? [B [Lp [L0 L1]]] Hf']; subst.
    cbn [vario_loop]. rewrite coordck_fixed by auto. rewrite B.
    rewrite varoffset_rowmajor_lemma by auto. rewrite (Z.mul_comm (m_esz (acc_m a))).
    assert (X : exists tr, xdr_vdata (acc_m a) false (lin (m_shape (acc_m a)) p0 * m_esz (acc_m a)) n
                                     (firstn (Z.to_nat n) (acc_vals a)) =
                           Some (acc_m a, tr, firstn (Z.to_nat n) (skipn (Z.to_nat (lin (m_shape (acc_m a)) p0)) (base (acc_m a))))).
    { destruct (xdr_read_block (acc_m a) (lin (m_shape (acc_m a)) p0) n) as [tr E]; auto.
      apply shape_nonneg; auto.
      exists tr. rewrite <- E. unfold xdr_vdata. cbv zeta. destruct ((elem_length (acc_m a) <=? 0) && negb false); reflexivity. }
    destruct X as [tr X]. rewrite X.
    set (a1 := mkAcc (acc_m a) (acc_tr a ++ [] ++ tr)
                     (acc_cells a ++ firstn (Z.to_nat n) (skipn (Z.to_nat (lin (m_shape (acc_m a)) p0)) (base (acc_m a))))
                     (skipn (Z.to_nat n) (acc_vals a))).
    destruct (IH a1) as [I1 I2]; auto.
    split; auto. rewrite I2. cbn [a1 acc_cells acc_m flat_map]. rewrite <- app_assoc. f_equal.
    rewrite map_app. f_equal. apply firstn_skipn_nth.
    rewrite (base_length (acc_m a) Hst). unfold Ncells. pose proof (prod_nonneg _ (shape_nonneg _ Hsh)). lia.
Qed.

(* ---- the simulation relation ------------------------------------------------------------------------- *)
Definition agree (f : Z) (c x : cell) : Prop :=
  match c with Val v => x = Val v | Fill | Unwr => x = Val f | Undef => True end.

Lemma updf_length : forall l st, length (fold_left updf l st) = length st.
Proof. induction l; simpl; intros; auto. rewrite IHl. unfold updf. apply upd_nth_length. Qed.

Lemma assign_as_updates : forall shape coords vals cs,
  assign shape cs coords vals = fold_left updf (combine (map (idx shape) coords) vals) cs.
Proof.
  intros shape coords. unfold assign. induction coords as [| c coords IH]; intros vals cs. reflexivity.
  destruct vals as [| v vals]. reflexivity. cbn [map combine fold_left]. rewrite IH. reflexivity.
Qed.

(** the same updates with written values keep two contents in agreement *)
Lemma fold_agree : forall f l cs st, length cs = length st ->
  Forall (fun kv => exists v, snd kv = Val v) l ->
  (forall i, agree f (nth i cs Undef) (nth i st Undef)) ->
  forall i, agree f (nth i (fold_left updf l cs) Undef) (nth i (fold_left updf l st) Undef).
Proof.
  intros f l. induction l as [| [k x] l IH]; intros cs st Hl Hf Ha i. apply Ha.
  inversion Hf as [| ? ? [v Hv] Hf']; subst. simpl in Hv. subst x.
  cbn [fold_left]. apply IH; auto.
  - unfold updf. cbn [fst snd]. rewrite !upd_nth_length. auto.
  - intros j. unfold updf. cbn [fst snd]. rewrite !upd_nth_nth. rewrite Hl.
    destruct ((j =? k)%nat && (k <? length st)%nat). reflexivity. apply Ha.
Qed.

Lemma fold_undef_keep : forall l cs i, Forall (fun kv => snd kv = Undef) l ->
  nth i cs Undef = Undef -> nth i (fold_left updf l cs) Undef = Undef.
Proof.
  induction l as [| [k x] l IH]; intros cs i Hf H; auto.
  inversion Hf; subst. simpl in H2. subst x. cbn [fold_left]. apply IH; auto.
  unfold updf. cbn [fst snd]. rewrite upd_nth_nth. destruct ((i =? k)%nat && (k <? length cs)%nat); auto.
Qed.

Lemma fold_undef_in : forall l cs i, Forall (fun kv => snd kv = Undef) l ->
  In i (map fst l) -> nth i (fold_left updf l cs) Undef = Undef.
Proof.
  induction l as [| [k x] l IH]; intros cs i Hf Hin. contradiction.
  inversion Hf; subst. simpl in H1. subst x. cbn [fold_left map fst] in *.
  destruct (Nat.eq_dec k i) as [-> | Ne].
  - apply fold_undef_keep; auto. unfold updf. cbn [fst snd]. rewrite upd_nth_nth. rewrite Nat.eqb_refl.
    destruct (i <? length cs)%nat eqn:E; simpl; auto. apply Nat.ltb_ge in E. apply nth_overflow. lia.
  - destruct Hin as [C | Hin]; [congruence |]. apply IH; auto.
Qed.

Lemma fold_notin : forall l cs i, ~ In i (map fst l) -> nth i (fold_left updf l cs) Undef = nth i cs Undef.
Proof.
  induction l as [| [k x] l IH]; intros cs i Hn; auto.
  cbn [fold_left map fst] in *. rewrite IH by (intro C; apply Hn; right; exact C).
  unfold updf. cbn [fst snd]. rewrite upd_nth_nth.
  destruct (i =? k)%nat eqn:E; auto. apply Nat.eqb_eq in E. subst. exfalso. apply Hn. left. reflexivity.
Qed.

Lemma combine_undef : forall (ks : list nat) (r : list (list Z)),
  length r = length ks ->
  Forall (fun kv : nat * cell => snd kv = Undef) (combine ks (map (fun _ => Undef) r)) /\
  map fst (combine ks (map (fun _ => Undef) r)) = ks.
Proof.
  induction ks; destruct r; simpl; intros; try discriminate; auto.
  destruct (IHks r) as [A B]; auto. split. constructor; auto. f_equal. auto.
Qed.

Lemma nth_map_cell : forall (g : cell -> cell) l i, g Undef = Undef -> nth i (map g l) Undef = g (nth i l Undef).
Proof. intros. rewrite <- H at 1. apply map_nth. Qed.

Lemma nth_not_default : forall (l : list cell) i, nth i l Undef <> Undef -> (i < length l)%nat.
Proof. intros. destruct (Nat.lt_ge_cases i (length l)); auto. rewrite nth_overflow in H by lia. congruence. Qed.

Lemma nth_repeat_lt : forall {A} (x d : A) n i, (i < n)%nat -> nth i (repeat x n) d = x.
Proof. induction n; intros; [lia |]. destruct i; simpl; auto. apply IHn. lia. Qed.

Record sim (a : arr) (m : mstate) : Prop := mkSim {
  sim_shape : a_shape a = m_shape m;
  sim_fixed : a_unlim a = false;
  sim_fmode : a_fillmode a = true;
  sim_ufill : a_userfill a = m_fillattr m;
  sim_dfill : a_dfill a = m_dfill m;
  sim_ok : okvar m;
  sim_rank : (0 < length (m_shape m))%nat;
  sim_len : length (a_cells a) = Ncells m;
  sim_cells : forall i, agree (fill_of m) (nth i (a_cells a) Undef) (nth i (base m) Undef);
  sim_fresh : a_touched a = false -> m_store m = [];
  sim_empty : m_store m = [] -> Forall (fun c => c = Unwr \/ c = Undef) (a_cells a)
}.

Lemma fillval_fill_of : forall a m, a_userfill a = m_fillattr m -> a_dfill a = m_dfill m -> fillval a = fill_of m.
Proof. intros. unfold fillval, fill_of. rewrite H, H0. reflexivity. Qed.

(** established by SDcreate *)
Lemma sim_init : forall shape nt, (0 < length shape)%nat -> Forall (fun d => 1 <= d) shape ->
  (exists s, nt_size nt = Some s /\ 0 < s) ->
  sim (s_init shape false (default_fill nt)) (m_init shape false nt).
Proof.
  intros shape nt Hn Hsh [s [Es Hs]].
  assert (Hr : is_recvar (m_init shape false nt) = false).
  { unfold is_recvar, m_init. cbn [m_shape]. destruct shape as [| d ds]; auto. inversion Hsh; subst.
    unfold NC_UNLIMITED. apply Z.eqb_neq. lia. }
  constructor; auto.
  - unfold okvar, m_init. cbn [m_nofill m_esz m_shape m_store]. rewrite Es. repeat split; auto.
  - unfold s_init, m_init, Ncells. cbn [a_cells m_shape]. unfold repeatZ. apply repeat_length.
  - intros i. unfold s_init. cbn [a_cells]. unfold repeatZ.
    destruct (Nat.lt_ge_cases i (Z.to_nat (prod shape))).
    + rewrite nth_repeat_lt by auto. unfold agree, base, m_init, fullfill, Ncells. cbn [m_store m_shape].
      rewrite nth_repeat_lt by auto. reflexivity.
    + rewrite nth_overflow by (rewrite repeat_length; lia). exact I.
  - intros _. unfold s_init. cbn [a_cells]. unfold repeatZ. apply Forall_forall. intros c Hc.
    apply repeat_spec in Hc. left. auto.
Qed.

(* ---- SDwritedata preserves the relation ---------------------------------------------------------------- *)
Lemma forallb_ones_true : forall (l : list Z), forallb (fun t => 1 <=? t) (ones l) = true.
Proof. induction l; simpl; auto. Qed.

Lemma fill_of_meta : forall m m', same_meta m m' -> fill_of m' = fill_of m.
Proof. intros m m' [_ [_ [A [B _]]]]. unfold fill_of. rewrite A, B. reflexivity. Qed.

Lemma Ncells_meta : forall m m', same_meta m m' -> Ncells m' = Ncells m.
Proof. intros m m' [A _]. unfold Ncells. rewrite A. reflexivity. Qed.

Lemma illformed_no_positions : forall m start count ps n,
  okvar m -> (0 < length (m_shape m))%nat ->
  length start = length (m_shape m) -> length count = length (m_shape m) ->
  any2 coordck_bad start (m_shape m) = false ->
  vario_plan m start count = Some (ps, n) -> n <> 0 ->
  forallb (fun c => 1 <=? c) count = false -> ps = [].
Proof.
  intros m start count ps n Hok Hn Hs Hc B P N0 Hf.
  pose proof Hok as [Hr [Hnf [He [Hsh Hst]]]].
  pose proof (any2_false_nonneg _ _ Hs B) as Hnn.
  assert (Hb : ((if is_recvar m then 1 else 0) < length (m_shape m))%nat) by (rewrite Hr; lia).
  destruct (plan_decomp _ _ _ _ _ Hs Hc Hb Hnn P)
    as [pre [dk [post [spre [sk [epre [ek [S1 [S2 [S3 [L2 [L3 [Hek [Pp Pn]]]]]]]]]]]]]].
  assert (Hpost1 : Forall (fun d => 1 <= d) post).
  { rewrite S1 in Hsh. apply Forall_app in Hsh. destruct Hsh as [_ F]. inversion F; auto. }
  rewrite S3, forallb_app in Hf. cbn [forallb] in Hf.
  assert (E1 : (1 <=? ek) = true) by (apply Z.leb_le; destruct (Z.eq_dec ek 0); [subst; lia | lia]).
  assert (E2 : forallb (fun c => 1 <=? c) post = true).
  { apply forallb_forall. intros x Hx. rewrite Forall_forall in Hpost1. apply Z.leb_le. auto. }
  rewrite E1, E2 in Hf. simpl in Hf. rewrite andb_true_r in Hf.
  rewrite Pp, odometer_slab, slab_empty; auto. unfold ones. rewrite map_length. auto. lia.
Qed.

Lemma vals_are_written : forall (ks : list nat) vals,
  Forall (fun kv : nat * cell => exists v, snd kv = Val v) (combine ks (map Val vals)).
Proof.
  induction ks; destruct vals; simpl; auto. constructor; [eexists; reflexivity | apply IHks].
Qed.

Definition ret_ok (r : res) (rc : Z) : Prop := (r = ROk -> rc = 0) /\ (r = RFail -> rc = -1).

Lemma sim_write : forall a m start stride count vals,
  sim a m -> length start = length (m_shape m) -> length count = length (m_shape m) ->
  length vals = Z.to_nat (prod count) ->
  sim (snd (s_write a start (ones start) count vals)) (fst (sd_write m false start stride count vals)) /\
  exists rc tr, snd (sd_write m false start stride count vals) = MRet rc tr /\
                ret_ok (fst (s_write a start (ones start) count vals)) rc.
Proof.
  intros a m start stride count vals S Hs Hc Hv.
  destruct S as [Sshape Sfix Sfm Suf Sdf Sok Srank Slen Scells Sfresh Sempty].
  pose proof Sok as [Hr [Hnf [He [Hsh Hst]]]].
  unfold sd_write. cbn [andb].
  set (acc := mkAcc m [] [] (map Val vals)).
  unfold s_write. unfold well_formed. rewrite forallb_ones_true, andb_true_r.
  unfold inner_in. rewrite Sfix. rewrite Sshape.
  destruct (forallb (fun c => 1 <=? c) count) eqn:WF; cbn [negb].
  2:{ (* empty / ill-formed request *)
    destruct (vario_write_pure m start count [] [] (map Val vals) Sok Srank Hs Hc) as [P1 [P2 [P3 [P4 [P5 P6]]]]].
    { intros B ps n P N0. rewrite (illformed_no_positions m start count ps n Sok Srank Hs Hc B P N0 WF). simpl. lia. }
    fold acc in P1, P2, P3, P4, P5, P6.
    destruct (vario true start count acc) as [ok a'] eqn:EV. cbn [fst snd] in *.
    split.
    - unfold set_cells, nofill_unwr. rewrite Sfm. rewrite Sfix. cbn [andb].
      constructor; cbn [a_shape a_unlim a_fillmode a_userfill a_dfill a_cells a_touched]; auto.
      + rewrite Sshape. symmetry. apply P4.
      + rewrite Suf. symmetry. apply P4.
      + rewrite Sdf. symmetry. apply P4.
      + destruct P4 as [E _]. rewrite E. auto.
      + rewrite (Ncells_meta _ _ P4). auto.
      + intros i. rewrite (fill_of_meta _ _ P4). rewrite P2.
        destruct (write_changed m start count (map Val vals) i Sok Srank Hs Hc) as [E | E].
        * rewrite E. apply Scells.
        * rewrite (slab_empty start (ones start) count) in E; [| unfold ones; apply map_length | lia | exact WF].
          simpl in E. contradiction.
      + intros C. discriminate.
      + intros E. apply Sempty. destruct (m_store m) eqn:St; auto. exfalso. apply P5; auto. discriminate.
    - eexists. eexists. split. reflexivity. split; intros C; discriminate. }
  assert (Hf : Forall (fun c => 1 <= c) count).
  { apply Forall_forall. intros x Hx. rewrite forallb_forall in WF. apply Z.leb_le. auto. }
  destruct (all4 dim_in start (ones start) count (m_shape m)) eqn:IN.
  - (* valid request *)
    destruct (valid_write_pure m start count (map Val vals) Sok Srank Hs Hc Hf IN) as [V1 [V2 [V3 V4]]].
    { rewrite map_length. auto. }
    destruct (vario_write_pure m start count [] [] (map Val vals) Sok Srank Hs Hc) as [P1 [P2 [P3 [P4 [P5 P6]]]]].
    { intros B ps n P N0. apply V2. auto. }
    fold acc in P1, P2, P3, P4, P5, P6.
    destruct (vario true start count acc) as [ok a'] eqn:EV. cbn [fst snd] in *.
    rewrite V1 in P1, P2. cbn [fst snd] in P1, P2. subst ok.
    split.
    + unfold set_cells. rewrite Sfix.
      constructor; cbn [a_shape a_unlim a_fillmode a_userfill a_dfill a_cells a_touched]; auto.
      * rewrite Sshape. symmetry. apply P4.
      * rewrite Suf. symmetry. apply P4.
      * rewrite Sdf. symmetry. apply P4.
      * destruct P4 as [E _]. rewrite E. auto.
      * rewrite app_nil_r, assign_as_updates, updf_length. unfold create_storage. rewrite map_length.
        rewrite (Ncells_meta _ _ P4). auto.
      * intros i. rewrite (fill_of_meta _ _ P4). rewrite P2. rewrite app_nil_r, assign_as_updates.
        apply fold_agree.
        -- unfold create_storage. rewrite map_length. rewrite (base_length m Hst). auto.
        -- apply vals_are_written.
        -- intros j. unfold create_storage. rewrite Sfm.
           rewrite (nth_map_cell (fun x => match x with Unwr => Fill | y => y end)) by reflexivity.
           specialize (Scells j). destruct (nth j (a_cells a) Undef); auto.
      * intros C; discriminate.
      * intros E. exfalso. destruct V3 as [p0 [rest [n [Q1 [Q2 Q3]]]]]. apply (P6 V4 p0 rest n Q1 Q2 Q3). auto.
    + eexists. eexists. split. reflexivity. split; intros C; [reflexivity | discriminate].
  - (* request reaching outside the shape *)
    destruct (vario_write_pure m start count [] [] (map Val vals) Sok Srank Hs Hc) as [P1 [P2 [P3 [P4 [P5 P6]]]]].
    { intros B ps n P N0.
      (* enough values: the plan's positions times the block size is the number of selected cells *)
      pose proof (any2_false_nonneg _ _ Hs B) as Hnn.
      assert (Hb : ((if is_recvar m then 1 else 0) < length (m_shape m))%nat) by (rewrite Hr; lia).
      destruct (plan_decomp _ _ _ _ _ Hs Hc Hb Hnn P)
        as [pre [dk [post [spre [sk [epre [ek [S1 [S2 [S3 [L2 [L3 [Hek [Pp Pn]]]]]]]]]]]]]].
      rewrite map_length, Hv, Pp, map_length, S3, prod_app, prod_cons, Pn.
      rewrite S3 in Hf. apply Forall_app in Hf. destruct Hf as [F1 F2].
      rewrite odometer_length; [| lia | eapply Forall_impl; [| exact F1]; simpl; intros; lia].
      pose proof (prod_pos _ F1). inversion F2; subst. pose proof (prod_pos _ H3).
      rewrite <- Z2Nat.inj_mul by nia. apply Nat.eq_le_incl. f_equal. lia. }
    fold acc in P1, P2, P3, P4, P5, P6.
    pose proof (vario_oob_fails true acc start count Hr Srank Hs Hc Hf IN) as OF.
    destruct (vario true start count acc) as [ok a'] eqn:EV. cbn [fst snd] in *. subst ok.
    set (region := filter (in_extent a) (slab_cells start (ones start) count)).
    assert (Reg : region = filter (inb (m_shape m)) (slab_cells start (ones start) count)).
    { unfold region. apply filter_ext. intros c. unfold in_extent, inb. rewrite Sfix, Sshape. reflexivity. }
    destruct (combine_undef (map (idx (m_shape m)) region) region ltac:(rewrite map_length; auto)) as [CU1 CU2].
    split.
    + unfold set_cells, nofill_unwr. rewrite Sfm, Sfix.
      constructor; cbn [a_shape a_unlim a_fillmode a_userfill a_dfill a_cells a_touched]; auto.
      * rewrite Sshape. symmetry. apply P4.
      * rewrite Suf. symmetry. apply P4.
      * rewrite Sdf. symmetry. apply P4.
      * destruct P4 as [E _]. rewrite E. auto.
      * rewrite assign_as_updates, updf_length. rewrite (Ncells_meta _ _ P4). auto.
      * intros i. rewrite (fill_of_meta _ _ P4). rewrite P2. rewrite assign_as_updates.
        destruct (in_dec Nat.eq_dec i (map (idx (m_shape m)) region)) as [Hi | Hi].
        -- rewrite fold_undef_in; [exact Logic.I | exact CU1 | rewrite CU2; exact Hi].
        -- rewrite fold_notin by (rewrite CU2; auto).
           destruct (write_changed m start count (map Val vals) i Sok Srank Hs Hc) as [E | E].
           ++ rewrite E. apply Scells.
           ++ rewrite <- Reg in E. contradiction.
      * intros C; discriminate.
      * intros E. assert (St : m_store m = []).
        { destruct (m_store m) eqn:St; auto. exfalso. apply P5; auto. discriminate. }
        specialize (Sempty St). rewrite assign_as_updates.
        apply Forall_forall. intros c Hc'. apply In_nth with (d := Undef) in Hc'. destruct Hc' as [j [_ Hj]].
        destruct (in_dec Nat.eq_dec j (map (idx (m_shape m)) region)) as [Hi | Hi].
        -- rewrite fold_undef_in in Hj; auto. rewrite CU2. auto.
        -- rewrite fold_notin in Hj by (rewrite CU2; auto). subst c.
           destruct (Nat.lt_ge_cases j (length (a_cells a))).
           ++ rewrite Forall_forall in Sempty. apply Sempty. apply nth_In. auto.
           ++ rewrite nth_overflow by lia. auto.
    + eexists. eexists. split. reflexivity. split; intros C; [discriminate | rewrite OF; reflexivity].
Qed.

(* ---- SDreaddata ------------------------------------------------------------------------------------------ *)
Lemma valid_plan_facts : forall m start edges,
  okvar m -> (0 < length (m_shape m))%nat ->
  length start = length (m_shape m) -> length edges = length (m_shape m) ->
  Forall (fun c => 1 <= c) edges -> all4 dim_in start (ones start) edges (m_shape m) = true ->
  any2 coordck_bad start (m_shape m) = false /\
  exists ps n, vario_plan m start edges = Some (ps, n) /\ 1 <= n /\
    Forall (fun p => any2 coordck_bad p (m_shape m) = false /\ length p = length (m_shape m) /\
                     0 <= lin (m_shape m) p /\ lin (m_shape m) p + n <= prod (m_shape m)) ps /\
    flat_map (fun p => seq (Z.to_nat (lin (m_shape m) p)) (Z.to_nat n)) ps =
      map (idx (m_shape m)) (slab_cells start (ones start) edges).
Proof.
  intros m start edges Hok Hn Hs He Hf Hin.
  pose proof Hok as [Hr [Hnf [Hesz [Hsh Hst]]]].
  pose proof (valid_start_ok start edges (m_shape m) ltac:(lia) ltac:(lia) Hf Hin) as B.
  split; auto.
  destruct (valid_plan_some m start edges Hr Hs He Hf Hin) as [ps [n P]].
  exists ps, n. split; auto.
  pose proof (any2_false_nonneg _ _ Hs B) as Hnn.
  assert (Hb : ((if is_recvar m then 1 else 0) < length (m_shape m))%nat) by (rewrite Hr; lia).
  destruct (plan_decomp _ _ _ _ _ Hs He Hb Hnn P)
    as [pre [dk [post [spre [sk [epre [ek [S1 [S2 [S3 [L2 [L3 [Hek [Pp Pn]]]]]]]]]]]]]].
  pose proof (shape_nonneg _ Hsh) as Hsh0.
  assert (Hpost : Forall (fun d => 0 <= d) post).
  { rewrite S1 in Hsh0. apply Forall_app in Hsh0. destruct Hsh0 as [_ F]. inversion F; auto. }
  assert (Hpost1 : Forall (fun d => 1 <= d) post).
  { rewrite S1 in Hsh. apply Forall_app in Hsh. destruct Hsh as [_ F]. inversion F; auto. }
  assert (Hepre : Forall (fun c => 1 <= c) epre /\ 1 <= ek).
  { rewrite S3 in Hf. apply Forall_app in Hf. destruct Hf as [F1 F2]. inversion F2; auto. }
  destruct Hepre as [Hepre Hek1].
  pose proof (prod_pos _ Hpost1) as PP.
  assert (N1 : 1 <= n) by (subst n; nia).
  assert (Hlead : all4 dim_in spre (ones spre) epre pre = true).
  { rewrite S1, S2, S3 in Hin.
    replace (ones (spre ++ sk :: zeros post)) with (ones spre ++ 1 :: ones post) in Hin
      by (unfold ones, zeros; rewrite map_app; cbn [map]; rewrite map_map; reflexivity).
    rewrite all4_app in Hin by (unfold ones; rewrite ?map_length; lia).
    apply andb_prop in Hin. tauto. }
  assert (Hacc : forall p', In p' (odometer spre epre) ->
            any2 coordck_bad (p' ++ sk :: zeros post) (m_shape m) = false).
  { intros p' Hp'. rewrite S1. rewrite any2_app by (rewrite (odometer_len spre epre p'); auto; lia).
    rewrite odometer_slab in Hp'.
    rewrite (slab_in_bounds spre (ones spre) epre pre) by
      (auto; try lia; unfold ones; try apply map_length; clear; induction spre; simpl; constructor; auto; lia).
    rewrite S1, S2 in B. rewrite any2_app in B by lia. apply orb_false_elim in B. tauto. }
  pose proof (plan_bounds m start edges ps n Hok Hn Hs He B P) as [Hn0 Hbd].
  split; auto. split.
  - rewrite Forall_forall. intros p Hp. pose proof Hp as Hp2. rewrite Pp in Hp2.
    apply in_map_iff in Hp2. destruct Hp2 as [p' [<- Hp']].
    pose proof (Hacc p' Hp') as A. destruct (Hbd _ Hp A) as [A0 [A1 A2]]. repeat split; auto.
  - rewrite Pp, flat_map_map'.
    erewrite flat_map_ext'.
    2:{ intros p' Hp'. rewrite <- map_to_nat_zrange.
        2:{ pose proof (Hacc p' Hp') as A.
            assert (In (p' ++ sk :: zeros post) ps)
              by (rewrite Pp; apply (in_map (fun p => p ++ sk :: zeros post)); auto).
            destruct (Hbd _ H A) as [_ [A1 _]]. exact A1. }
        reflexivity. }
    rewrite <- map_flat_map. rewrite S1. rewrite Pn.
    rewrite vario_blocks_rowmajor_lemma by (auto; lia).
    rewrite map_map. rewrite <- S2, <- S3. reflexivity.
Qed.

Definition out_agree (c x : cell) : Prop := match c with Val v => x = Val v | _ => True end.

Lemma base_same : forall m m', m_store m' = m_store m -> same_meta m m' -> base m' = base m.
Proof.
  intros m m' E S. unfold base, fullfill. rewrite E, (fill_of_meta _ _ S), (Ncells_meta _ _ S). reflexivity.
Qed.

Lemma sim_state_same : forall a m m', sim a m -> m_store m' = m_store m -> same_meta m m' -> sim a m'.
Proof.
  intros a m m' S E M. destruct S as [Sshape Sfix Sfm Suf Sdf Sok Srank Slen Scells Sfresh Sempty].
  pose proof M as [M1 [M2 [M3 [M4 [M5 M6]]]]].
  assert (F1 : a_shape a = m_shape m') by congruence.
  assert (F4 : a_userfill a = m_fillattr m') by congruence.
  assert (F5 : a_dfill a = m_dfill m') by congruence.
  assert (F6 : okvar m').
  { destruct Sok as [Hr [Hnf [He [Hsh Hst]]]]. unfold okvar. rewrite (is_recvar_shape _ _ M1), M5, M2, M1, E.
    rewrite (Ncells_meta _ _ M). repeat split; auto. }
  assert (F7 : (0 < length (m_shape m'))%nat) by (rewrite M1; auto).
  assert (F8 : length (a_cells a) = Ncells m') by (rewrite (Ncells_meta _ _ M); auto).
  assert (F9 : forall i, agree (fill_of m') (nth i (a_cells a) Undef) (nth i (base m') Undef)).
  { intros i. rewrite (fill_of_meta _ _ M), (base_same _ _ E M). apply Scells. }
  assert (F10 : a_touched a = false -> m_store m' = []) by (rewrite E; auto).
  assert (F11 : m_store m' = [] -> Forall (fun c => c = Unwr \/ c = Undef) (a_cells a)) by (rewrite E; auto).
  constructor; assumption.
Qed.

Lemma sim_read : forall a m start stride count,
  sim a m -> length start = length (m_shape m) -> length count = length (m_shape m) ->
  sim a (fst (sd_read m false start stride count)) /\
  exists rc cells tr, snd (sd_read m false start stride count) = MRead rc cells tr /\
    ret_ok (fst (s_read a start (ones start) count)) rc /\
    (fst (s_read a start (ones start) count) = ROk ->
     Forall2 out_agree (snd (s_read a start (ones start) count)) cells).
Proof.
  intros a m start stride count S Hs Hc.
  pose proof S as [Sshape Sfix Sfm Suf Sdf Sok Srank Slen Scells Sfresh Sempty].
  pose proof Sok as [Hr [Hnf [He [Hsh Hst]]]].
  unfold sd_read. cbn [andb].
  set (acc := mkAcc m [] [] []).
  pose proof (vario_read_state start count acc Hr Srank) as RS. cbv zeta in RS. cbn [acc acc_m] in RS. fold acc in RS.
  destruct RS as [RS1 RS2].
  split.
  { destruct (vario false start count acc) as [ok a']. cbn [fst snd] in *. apply (sim_state_same a m); auto. }
  unfold s_read, well_formed. rewrite forallb_ones_true, andb_true_r.
  unfold inner_in. rewrite Sfix, Sshape. cbn [andb].
  destruct (forallb (fun c => 1 <=? c) count) eqn:WF; cbn [negb].
  2:{ destruct (vario false start count acc) as [ok a']. eexists. eexists. eexists. split. reflexivity.
      cbn [fst snd]. split. split; intros C; discriminate. intros C; discriminate. }
  assert (Hf : Forall (fun c => 1 <= c) count).
  { apply Forall_forall. intros x Hx. rewrite forallb_forall in WF. apply Z.leb_le. auto. }
  destruct (all4 dim_in start (ones start) count (m_shape m)) eqn:IN; cbn [negb fst snd].
  2:{ pose proof (vario_oob_fails false acc start count Hr Srank Hs Hc Hf IN) as OF.
      destruct (vario false start count acc) as [ok a']. cbn [fst] in OF. subst ok.
      eexists. eexists. eexists. split. reflexivity. split. split; intros C; [discriminate | reflexivity].
      intros C; discriminate. }
  (* valid read *)
  destruct (valid_plan_facts m start count Sok Srank Hs Hc Hf IN) as [B [ps [n [P [N1 [FA IDX]]]]]].
  assert (V : exists a', vario false start count acc = (true, a') /\
              acc_cells a' = map (fun j => nth j (base m) Undef) (map (idx (m_shape m)) (slab_cells start (ones start) count))).
  { unfold vario, acc. cbn [acc_m acc_tr acc_cells acc_vals]. destruct (m_shape m) as [| d0 dr] eqn:Sh. simpl in Srank; lia.
    rewrite <- Sh in *. rewrite coordck_fixed by auto. rewrite B.
    cbn [acc_m acc_tr acc_cells acc_vals]. rewrite Hr. cbn [andb]. rewrite P.
    replace (n =? 0) with false by (symmetry; apply Z.eqb_neq; lia).
    destruct (loop_read n ps (mkAcc m ([] ++ []) [] []) Sok ltac:(lia) FA) as [L1 L2].
    destruct (vario_loop false n ps (mkAcc m ([] ++ []) [] [])) as [ok a2]. cbn [fst snd] in L1, L2. subst ok.
    cbn [acc_cells acc_m app] in L2. rewrite IDX in L2.
    destruct (m_numrecs (acc_m a2) <? hd 0 start + hd 0 count);
      (eexists; split; [reflexivity | cbn [acc_cells]; exact L2]). }
  destruct V as [a' [EV EC]]. rewrite EV. cbn [fst snd].
  eexists. eexists. eexists. split. reflexivity. split. split; intros C; [reflexivity | discriminate].
  intros _. rewrite EC. rewrite map_map.
  pose proof (fillval_fill_of a m Suf Sdf) as FV. clear IDX EC.
  induction (slab_cells start (ones start) count) as [| c l IHl]; simpl; [constructor |]. constructor; [| exact IHl].
  fold (idx (m_shape m) c).
  pose proof (Scells (idx (m_shape m) c)) as Sc. unfold resolve. rewrite Sfm, FV.
  destruct (nth (idx (m_shape m) c) (a_cells a) Undef); simpl in *; auto.
Qed.

(* ---- every operation preserves the relation; histories ------------------------------------------------- *)
Definition op_dom (rank : nat) (o : op) : Prop :=
  match o with
  | OpMode md => md <> NC_NOFILL
  | OpWrite us st sd ct vals =>
      us = false /\ length st = rank /\ length ct = rank /\ length vals = Z.to_nat (prod ct)
  | OpRead us st sd ct => us = false /\ length st = rank /\ length ct = rank
  | _ => True
  end.

Definition out_sim (so : sout) (mo : mout) : Prop :=
  match so, mo with
  | SNone, MNone => True
  | SRet r, MRet rc _ => ret_ok r rc
  | SRead r cs, MRead rc cells _ => ret_ok r rc /\ (r = ROk -> Forall2 out_agree cs cells)
  | SInfo dims fv, MInfo mdims mfv => Forall2 (fun iv d => fst iv <= d <= snd iv) dims mdims /\ fv = mfv
  | _, _ => False
  end.

Lemma sim_step : forall a m o, sim a m -> op_dom (length (m_shape m)) o ->
  sim (fst (s_step a o)) (fst (m_step m o)) /\ out_sim (snd (s_step a o)) (snd (m_step m o)).
Proof.
  intros a m o S D. destruct o as [md | v | b | us st sd ct vals | us st sd ct | | |]; cbn [s_step m_step op_dom] in *.
  - (* SDsetfillmode, not NOFILL *)
    pose proof S as [Sshape Sfix Sfm Suf Sdf Sok Srank Slen Scells Sfresh Sempty].
    pose proof Sok as [Hr [Hnf [He [Hsh Hst]]]].
    assert (E1 : (if md =? 0 then true else if md =? 256 then false else a_fillmode a) = true).
    { rewrite Sfm. destruct (md =? 0); auto. destruct (md =? 256) eqn:E; auto. apply Z.eqb_eq in E.
      unfold NC_NOFILL in D. congruence. }
    assert (E2 : (if m_rdonly m then m_nofill m
                  else if md =? NC_NOFILL then true
                  else if md =? NC_FILL then
                    (if m_nofill m then negb (truth ncsetfill_back_to_fill_clears_nofill) else false)
                  else m_nofill m) = false).
    { rewrite Hnf. destruct (m_rdonly m); auto.
      destruct (md =? NC_NOFILL) eqn:E; [apply Z.eqb_eq in E; congruence |]. destruct (md =? NC_FILL); auto. }
    rewrite E1, E2. cbn [fst snd]. split; [| exact I].
    apply (sim_state_same _ m); [| reflexivity | repeat split; auto].
    rewrite <- Sfm. destruct a; exact S.
  - (* SDsetfillvalue *)
    pose proof S as [Sshape Sfix Sfm Suf Sdf Sok Srank Slen Scells Sfresh Sempty].
    pose proof Sok as [Hr [Hnf [He [Hsh Hst]]]].
    cbn [fst snd]. split; [| exact I].
    set (m' := mkM (m_shape m) (m_esz m) (m_numrecs m) (Some v) (m_dfill m) (m_nofill m) (m_store m) (m_recsize m) (m_rdonly m)).
    assert (Fo : fill_of m' = v) by reflexivity.
    assert (Nc : Ncells m' = Ncells m) by reflexivity.
    assert (Bs : m_store m <> [] -> base m' = base m).
    { intros NE. unfold base, m'. cbn [m_store]. destruct (m_store m); [congruence | reflexivity]. }
    constructor; cbn [a_shape a_unlim a_fillmode a_userfill a_dfill a_cells a_touched m_shape m_fillattr m_dfill m_store]; auto.
    + destruct (a_touched a); [rewrite map_length |]; rewrite Nc; auto.
    + intros i. rewrite Fo. destruct (a_touched a) eqn:T.
      * rewrite (nth_map_cell (fun x => match x with Fill | Unwr => Undef | y => y end)) by reflexivity.
        pose proof (Scells i) as Sc. destruct (nth i (a_cells a) Undef) eqn:Ec; simpl; auto.
        (* a written value: the element has data, its content does not depend on the fill value *)
        assert (NE : m_store m <> []).
        { intro E0. specialize (Sempty E0). rewrite Forall_forall in Sempty.
          assert (Li : (i < length (a_cells a))%nat) by (apply nth_not_default; rewrite Ec; discriminate).
          destruct (Sempty (nth i (a_cells a) Undef) (nth_In _ _ Li)) as [C | C]; rewrite Ec in C; discriminate. }
        rewrite (Bs NE). exact Sc.
      * specialize (Sfresh eq_refl). specialize (Sempty Sfresh). rewrite Forall_forall in Sempty.
        destruct (Nat.lt_ge_cases i (length (a_cells a))) as [Li | Li].
        -- destruct (Sempty (nth i (a_cells a) Undef) (nth_In _ _ Li)) as [C | C]; rewrite C; simpl; auto.
           unfold base, m'. cbn [m_store]. rewrite Sfresh. unfold fullfill. rewrite nth_repeat_lt by (change (Ncells (mkM (m_shape m) (m_esz m) (m_numrecs m) (Some v) (m_dfill m) (m_nofill m) [] (m_recsize m) (m_rdonly m))) with (Ncells m); rewrite <- Slen; auto).
           reflexivity.
        -- rewrite nth_overflow by lia. exact I.
    + intros E. destruct (a_touched a) eqn:T; auto.
      apply Forall_forall. intros c Hc. apply in_map_iff in Hc. destruct Hc as [x [<- Hx]].
      specialize (Sempty E). rewrite Forall_forall in Sempty. destruct (Sempty x Hx) as [-> | ->]; auto.
  - (* SDsetblocksize *)
    cbn [fst snd]. split; [exact S | exact I].
  - (* SDwritedata *)
    destruct D as [-> [D1 [D2 D3]]].
    destruct (sim_write a m st sd ct vals S D1 D2 D3) as [W1 [rc [tr [W2 W3]]]].
    destruct (s_write a st (ones st) ct vals) as [r a']. cbn [fst snd] in *.
    split; auto. rewrite W2. exact W3.
  - (* SDreaddata *)
    destruct D as [-> [D1 D2]].
    destruct (sim_read a m st sd ct S D1 D2) as [R1 [rc [cells [tr [R2 [R3 R4]]]]]].
    destruct (s_read a st (ones st) ct) as [r cs]. cbn [fst snd] in *.
    split; auto. rewrite R2. split; auto.
  - (* SDgetinfo + SDgetfillvalue *)
    pose proof S as [Sshape Sfix Sfm Suf Sdf Sok Srank Slen Scells Sfresh Sempty].
    pose proof Sok as [Hr _].
    cbn [fst snd]. split; [exact S |]. rewrite Sshape, Sfix, Hr. split; auto.
    destruct (m_shape m) as [| d ds]; constructor. simpl; lia.
    clear. induction ds; simpl; constructor; auto. simpl; lia.
  - (* SDend + SDstart *)
    pose proof S as [Sshape Sfix Sfm Suf Sdf Sok Srank Slen Scells Sfresh Sempty].
    pose proof Sok as [Hr [Hnf [He [Hsh Hst]]]].
    cbn [fst snd]. split; [| exact I]. rewrite Hr.
    apply (sim_state_same _ m); [| reflexivity | repeat split; auto].
    rewrite <- Sfm. destruct a; exact S.
  - (* SDend + SDstart(DFACC_READ) *)
    pose proof S as [Sshape Sfix Sfm Suf Sdf Sok Srank Slen Scells Sfresh Sempty].
    pose proof Sok as [Hr [Hnf [He [Hsh Hst]]]].
    cbn [fst snd]. split; [| exact I]. rewrite Hr.
    apply (sim_state_same _ m); [| reflexivity | repeat split; auto].
    rewrite <- Sfm. destruct a; exact S.
Qed.

Lemma s_step_shape : forall a o, a_shape (fst (s_step a o)) = a_shape a.
Proof.
  intros a o. destruct o; cbn [s_step fst a_shape]; auto.
  - unfold s_write.
    destruct (negb (well_formed (if us then stride else ones start) count)); [reflexivity |].
    destruct (inner_in a start (if us then stride else ones start) count); reflexivity.
  - destruct (s_read a start (if us then stride else ones start) count). reflexivity.
Qed.

Lemma run_sim : forall ops a m, sim a m -> Forall (op_dom (length (m_shape m))) ops ->
  Forall2 out_sim (s_run a ops) (m_run m ops).
Proof.
  induction ops as [| o ops IH]; intros a m S D. constructor.
  inversion D as [| ? ? Do Dr]; subst. cbn [s_run m_run].
  destruct (sim_step a m o S Do) as [S' O'].
  pose proof (s_step_shape a o) as Ea.
  destruct (s_step a o) as [a' so]. destruct (m_step m o) as [m' mo]. cbn [fst snd] in *.
  constructor; auto. apply IH; auto.
  replace (m_shape m') with (m_shape m); auto.
  rewrite <- (sim_shape _ _ S), <- (sim_shape _ _ S'). auto.
Qed.

(** The implementation model refines the array specification on whole histories (fixed-size dataset, fill mode,
    unit-stride requests): every return code, every defined cell read and every extent agree. *)
Lemma sd_refines_array_lemma : forall shape nt ops,
  (0 < length shape)%nat -> Forall (fun d => 1 <= d) shape ->
  (exists s, nt_size nt = Some s /\ 0 < s) ->
  Forall (op_dom (length shape)) ops ->
  Forall2 out_sim (s_run (s_init shape false (default_fill nt)) ops) (m_run (m_init shape false nt) ops).
Proof.
  intros shape nt ops Hn Hsh Hnt D. apply run_sim. apply sim_init; auto. exact D.
Qed.

(* ---- the frame of SDwritedata relative to the content, first write included ----------------------------- *)
Lemma enough_vals : forall m start count (vals : list cell),
  okvar m -> (0 < length (m_shape m))%nat ->
  length start = length (m_shape m) -> length count = length (m_shape m) ->
  length vals = Z.to_nat (prod count) ->
  any2 coordck_bad start (m_shape m) = false ->
  forall ps n, vario_plan m start count = Some (ps, n) -> n <> 0 -> (Z.to_nat n * length ps <= length vals)%nat.
Proof.
  intros m start count vals Hok Hn Hs Hc Hv B ps n P N0.
  pose proof Hok as [Hr [Hnf [He [Hsh Hst]]]].
  destruct (forallb (fun c => 1 <=? c) count) eqn:WF.
  2:{ rewrite (illformed_no_positions m start count ps n Hok Hn Hs Hc B P N0 WF). simpl. lia. }
  assert (Hf : Forall (fun c => 1 <= c) count).
  { apply Forall_forall. intros x Hx. rewrite forallb_forall in WF. apply Z.leb_le. auto. }
  pose proof (any2_false_nonneg _ _ Hs B) as Hnn.
  assert (Hb : ((if is_recvar m then 1 else 0) < length (m_shape m))%nat) by (rewrite Hr; lia).
  destruct (plan_decomp _ _ _ _ _ Hs Hc Hb Hnn P)
    as [pre [dk [post [spre [sk [epre [ek [S1 [S2 [S3 [L2 [L3 [Hek [Pp Pn]]]]]]]]]]]]]].
  rewrite Hv, Pp, map_length, S3, prod_app, prod_cons, Pn.
  rewrite S3 in Hf. apply Forall_app in Hf. destruct Hf as [F1 F2].
  rewrite odometer_length; [| lia | eapply Forall_impl; [| exact F1]; simpl; intros; lia].
  pose proof (prod_pos _ F1). inversion F2; subst. pose proof (prod_pos _ H3).
  rewrite <- Z2Nat.inj_mul by nia. apply Nat.eq_le_incl. f_equal. lia.
Qed.

(** SDwritedata with stride NULL on a fixed-size dataset in fill mode -- valid or not, SUCCEED or FAIL, FIRST write
    (empty element: its content counts as all fill values) or later write: the only cells whose content changes are
    cells of the requested region that lie inside the shape.  In particular after a first write every cell
    outside the region holds the fill value, and a failing request never touches a cell outside its region. *)
Lemma sd_write_frame_base : forall m start stride count vals i,
  okvar m -> (0 < length (m_shape m))%nat ->
  length start = length (m_shape m) -> length count = length (m_shape m) ->
  length vals = Z.to_nat (prod count) ->
  let m' := fst (sd_write m false start stride count vals) in
  okvar m' /\ m_shape m' = m_shape m /\
  (nth i (base m') Undef = nth i (base m) Undef \/
   In i (map (idx (m_shape m)) (filter (inb (m_shape m)) (slab_cells start (ones start) count)))).
Proof.
  intros m start stride count vals i Hok Hn Hs Hc Hv. unfold sd_write. cbn [andb].
  destruct (vario_write_pure m start count [] [] (map Val vals) Hok Hn Hs Hc) as [P1 [P2 [P3 [P4 _]]]].
  { apply enough_vals; auto. rewrite map_length. auto. }
  destruct (vario true start count (mkAcc m [] [] (map Val vals))) as [ok a']. cbn [fst snd] in *.
  split; auto. split. apply P4. rewrite P2. apply write_changed; auto.
Qed.

(** SDsetfillmode: in a writable session, NOFILL then FILL leaves the file in fill mode (ncsetfill reaches the
    statement that clears NC_NOFILL: regenerated from file.c), and NOFILL sets it *)
Lemma fill_mode_restored_lemma : forall m, m_rdonly m = false ->
  m_nofill (fst (m_step m (OpMode NC_NOFILL))) = true /\
  m_nofill (fst (m_step (fst (m_step m (OpMode NC_NOFILL))) (OpMode NC_FILL))) = false /\
  m_nofill (fst (m_step m (OpMode NC_FILL))) = false.
Proof.
  intros m H. cbn [m_step fst m_nofill m_rdonly]. rewrite H.
  unfold NC_NOFILL, NC_FILL, ncsetfill_back_to_fill_clears_nofill, truth. simpl.
  destruct (m_nofill m); auto.
Qed.
