(** C20 -- the limit machine: the guarded sites composed into ONE state machine over the C-typed counters.

    State = the counters and fields the property talks about (end-of-file offset, Vgroup member count, one data
    element with its offset / length / access position, highest ref, the Vdata symbol table / field count / record
    size / seek offset, a Vgroup name-length field, an attribute count, the number of data sets, the open-file list).
    [m_step] applies the site models of LimitsModel.v (regenerated guards, wrapping arithmetic) and stores what the C
    code stores -- also when it refuses; [s_step] is the same machine over unbounded integers with the format limits
    as its only tests (site specifications of LimitsSpec.v).  No proofs in this file. *)
From Coq Require Import ZArith List Bool.
Require Import H4.LimitsWidth H4.gen.Gen_Limits H4.LimitsSpec H4.LimitsModel.
Import ListNotations.
Local Open Scope Z_scope.

Record mst := mkM {
  q_eof : Z;                      (* file_rec->f_end_off, int32 *)
  q_nvelt : Z;                    (* vg->nvelt, uint16 *)
  q_app : bool; q_off : Z; q_elen : Z; q_posn : Z;   (* one ordinary element: appendable, offset, length; access position *)
  q_maxref : Z;                   (* file_rec->maxref, uint16 *)
  q_defs : list (Z * Z);          (* vs->usym: (order, isize) as stored, both uint16 *)
  q_nf : Z; q_iv : Z;             (* wlist.n, wlist.ivsize (uint16) *)
  q_vpos : Z;                     (* byte offset handed to Hseek by VSseek, int32 *)
  q_namelen : Z;                  (* the 16-bit name-length field vpackvg writes *)
  q_attr : Z;                     (* count of the attribute last set *)
  q_nsets : Z;                    (* handle->vars->count *)
  q_slots : list (option Z) }.    (* _cdfs *)

Inductive mop :=
| MAlloc (size : Z)                         (* HPgetdiskblock *)
| MInsert                                   (* vinsertpair *)
| MFdefine (sz order : Z)                   (* VSfdefine, sz = DFKNTsize(type) as int16 *)
| MSetFields (l : list (option nat))        (* VSsetfields: indices into the symbol table, None = predefined field *)
| MSeekRec (p : Z)                          (* VSseek *)
| MWriteRecs (n : Z)                        (* VSwrite: total_bytes *)
| MWrite (len : Z)                          (* Hwrite *)
| MSeek (origin offset : Z)                 (* Hseek *)
| MNewRef                                   (* Hnewref, fast path *)
| MSetName (len : Z)                        (* Vsetname + vpackvg *)
| MSetAttr (sz count : Z)                   (* SDsetattr *)
| MSdCreate (rank namelen : Z)              (* SDcreate *)
| MResetMax (req sys : Z).                  (* NC_reset_maxopenfiles *)

(** MRefused: the call returned its failure value.  MOther: the call leaves the modelled fragment (promotion to linked
    blocks, exhaustive ref search); the machine does not follow it and keeps its state. *)
Inductive mres := MOk (v : Z) | MRefused | MOther.

Definition set_eof (st : mst) (e : Z) : mst :=
  mkM e (q_nvelt st) (q_app st) (q_off st) (q_elen st) (q_posn st) (q_maxref st) (q_defs st) (q_nf st) (q_iv st) (q_vpos st)
      (q_namelen st) (q_attr st) (q_nsets st) (q_slots st).
Definition set_nvelt (st : mst) (n : Z) : mst :=
  mkM (q_eof st) n (q_app st) (q_off st) (q_elen st) (q_posn st) (q_maxref st) (q_defs st) (q_nf st) (q_iv st) (q_vpos st)
      (q_namelen st) (q_attr st) (q_nsets st) (q_slots st).
Definition set_elem_state (st : mst) (posn elen eof : Z) : mst :=
  mkM eof (q_nvelt st) (q_app st) (q_off st) elen posn (q_maxref st) (q_defs st) (q_nf st) (q_iv st) (q_vpos st)
      (q_namelen st) (q_attr st) (q_nsets st) (q_slots st).
Definition set_maxref (st : mst) (r : Z) : mst :=
  mkM (q_eof st) (q_nvelt st) (q_app st) (q_off st) (q_elen st) (q_posn st) r (q_defs st) (q_nf st) (q_iv st) (q_vpos st)
      (q_namelen st) (q_attr st) (q_nsets st) (q_slots st).
Definition set_defs (st : mst) (d : list (Z * Z)) : mst :=
  mkM (q_eof st) (q_nvelt st) (q_app st) (q_off st) (q_elen st) (q_posn st) (q_maxref st) d (q_nf st) (q_iv st) (q_vpos st)
      (q_namelen st) (q_attr st) (q_nsets st) (q_slots st).
Definition set_fields (st : mst) (n iv : Z) : mst :=
  mkM (q_eof st) (q_nvelt st) (q_app st) (q_off st) (q_elen st) (q_posn st) (q_maxref st) (q_defs st) n iv (q_vpos st)
      (q_namelen st) (q_attr st) (q_nsets st) (q_slots st).
Definition set_vpos (st : mst) (p : Z) : mst :=
  mkM (q_eof st) (q_nvelt st) (q_app st) (q_off st) (q_elen st) (q_posn st) (q_maxref st) (q_defs st) (q_nf st) (q_iv st) p
      (q_namelen st) (q_attr st) (q_nsets st) (q_slots st).
Definition set_namelen (st : mst) (l : Z) : mst :=
  mkM (q_eof st) (q_nvelt st) (q_app st) (q_off st) (q_elen st) (q_posn st) (q_maxref st) (q_defs st) (q_nf st) (q_iv st) (q_vpos st)
      l (q_attr st) (q_nsets st) (q_slots st).
Definition set_attr (st : mst) (c : Z) : mst :=
  mkM (q_eof st) (q_nvelt st) (q_app st) (q_off st) (q_elen st) (q_posn st) (q_maxref st) (q_defs st) (q_nf st) (q_iv st) (q_vpos st)
      (q_namelen st) c (q_nsets st) (q_slots st).
Definition set_nsets (st : mst) (n : Z) : mst :=
  mkM (q_eof st) (q_nvelt st) (q_app st) (q_off st) (q_elen st) (q_posn st) (q_maxref st) (q_defs st) (q_nf st) (q_iv st) (q_vpos st)
      (q_namelen st) (q_attr st) n (q_slots st).
Definition set_slots (st : mst) (s : list (option Z)) : mst :=
  mkM (q_eof st) (q_nvelt st) (q_app st) (q_off st) (q_elen st) (q_posn st) (q_maxref st) (q_defs st) (q_nf st) (q_iv st) (q_vpos st)
      (q_namelen st) (q_attr st) (q_nsets st) s.

(** the fields a VSsetfields call names, looked up in the symbol table; None when one is not defined *)
Fixpoint lookup_fields (defs : list (Z * Z)) (l : list (option nat)) : option (list (option (Z * Z))) :=
  match l with
  | [] => Some []
  | i :: t =>
      match lookup_fields defs t with
      | None => None
      | Some r => match i with
                  | None => Some (None :: r)
                  | Some k => match nth_error defs k with Some d => Some (Some d :: r) | None => None end
                  end
      end
  end.
Definition open_count (l : list (option Z)) : Z := Z.of_nat (length (filter (fun o => match o with Some _ => true | None => false end) l)).

(** what Hwrite must do, in unbounded integers (promotion to linked blocks is outside the modelled fragment) *)
Definition hwrite_expected_s (appendable : bool) (pos len off elen eof : Z) : hw_result :=
  match s_hwrite appendable (off + elen =? eof) pos len off elen eof with
  | Some (p, l, e) => HwOk p l e
  | None => if appendable && (0 <? len) && (pos + len <=? INT32_MAX) && (elen <? pos + len) && negb (off + elen =? eof)
            then HwConvert else HwFail
  end.

(** the machine as the C code computes *)
Definition m_step (st : mst) (o : mop) : mst * mres :=
  match o with
  | MAlloc size =>
      match m_getdiskblock (q_eof st) size with
      | (Some off, e) => (set_eof st e, MOk off)
      | (None, e) => (set_eof st e, MRefused)
      end
  | MInsert =>
      match m_vinsertpair (q_nvelt st) with
      | (Some r, n) => (set_nvelt st n, MOk r)
      | (None, n) => (set_nvelt st n, MRefused)
      end
  | MFdefine sz order =>
      match m_vsfdefine sz order with
      | Some (s, od) => (set_defs st (q_defs st ++ [(od, s)]), MOk 0)
      | None => (st, MRefused)
      end
  | MSetFields l =>
      if negb (q_nf st =? 0) then (st, MRefused)                 (* fields already set: not re-set, FAIL *)
      else match lookup_fields (q_defs st) l with
           | None => (set_fields st 0 0, MRefused)                (* unknown field: the half-built list is released *)
           | Some fs => match m_vssetfields fs with
                        | (true, (n, iv)) => (set_fields st n iv, MOk iv)
                        | (false, (n, iv)) => (set_fields st n iv, MRefused)
                        end
           end
  | MSeekRec p =>
      if q_nf st <=? 0 then (st, MRefused)
      else match m_vsseek (q_iv st) p with
           | Some off => (set_vpos st off, MOk off)
           | None => (st, MRefused)
           end
  | MWriteRecs n =>
      if q_nf st <=? 0 then (st, MRefused)
      else match m_vswrite_total (q_iv st) n with Some t => (st, MOk t) | None => (st, MRefused) end
  | MWrite len =>
      match m_hwrite (q_app st) (q_posn st) len (q_off st) (q_elen st) (q_eof st) with
      | HwOk p l e => (set_elem_state st p l e, MOk len)
      | HwFail => (st, MRefused)
      | HwConvert => (st, MOther)
      end
  | MSeek origin offset =>
      match m_hseek (q_app st) origin offset (q_posn st) (q_elen st) with
      | Some p =>
          if q_app st && (q_elen st <=? p) && negb (p =? q_posn st) && negb (add32 (q_elen st) (q_off st) =? q_eof st)
          then (st, MOther)                                       (* promoted to linked blocks *)
          else (set_elem_state st p (q_elen st) (q_eof st), MOk p)
      | None => (st, MRefused)
      end
  | MNewRef =>
      match m_newref_next (q_maxref st) with
      | Some r => (set_maxref st r, MOk r)
      | None => (st, MOther)                                      (* exhaustive search over the descriptors *)
      end
  | MSetName len =>
      match m_vsetname len with
      | Some l16 => (set_namelen st l16, MOk l16)
      | None => (st, MRefused)
      end
  | MSetAttr sz count => if m_sdsetattr sz count then (set_attr st count, MOk count) else (st, MRefused)
  | MSdCreate rank namelen =>
      if m_sdcreate_ok rank namelen && negb (truth (sdcreate_too_many_vars (q_nsets st))) then (set_nsets st (q_nsets st + 1), MOk (q_nsets st))
      else (st, MRefused)
  | MResetMax req sys =>
      match m_reset_maxopen req sys (open_count (q_slots st)) (q_slots st) with
      | (r, slots) => if r <? 0 then (set_slots st slots, MRefused) else (set_slots st slots, MOk r)
      end
  end.

(** the same machine over unbounded integers: the format limits are the only tests *)
Definition s_step (st : mst) (o : mop) : mst * mres :=
  match o with
  | MAlloc size =>
      match s_getdiskblock (q_eof st) size with
      | Some (off, e) => (set_eof st e, MOk off)
      | None => (st, MRefused)
      end
  | MInsert =>
      match s_vinsertpair (q_nvelt st) with
      | Some n => (set_nvelt st n, MOk n)
      | None => (st, MRefused)
      end
  | MFdefine sz order =>
      match s_vsfdefine sz order with
      | Some (s, od) => (set_defs st (q_defs st ++ [(od, s)]), MOk 0)
      | None => (st, MRefused)
      end
  | MSetFields l =>
      if negb (q_nf st =? 0) then (st, MRefused)
      else match lookup_fields (q_defs st) l with
           | None => (st, MRefused)
           | Some fs => match s_vssetfields fs with
                        | Some (n, iv) => (set_fields st n iv, MOk iv)
                        | None => (st, MRefused)
                        end
           end
  | MSeekRec p =>
      if (q_nf st <=? 0) || (p <? 0) then (st, MRefused)
      else match s_product p (q_iv st) with
           | Some off => (set_vpos st off, MOk off)
           | None => (st, MRefused)
           end
  | MWriteRecs n =>
      if (q_nf st <=? 0) || (n <=? 0) then (st, MRefused)
      else match s_product (q_iv st) n with Some t => (st, MOk t) | None => (st, MRefused) end
  | MWrite len =>
      match hwrite_expected_s (q_app st) (q_posn st) len (q_off st) (q_elen st) (q_eof st) with
      | HwOk p l e => (set_elem_state st p l e, MOk len)
      | HwFail => (st, MRefused)
      | HwConvert => (st, MOther)
      end
  | MSeek origin offset =>
      match s_hseek (q_app st) origin offset (q_posn st) (q_elen st) with
      | Some p =>
          if q_app st && (q_elen st <=? p) && negb (p =? q_posn st) && negb (q_elen st + q_off st =? q_eof st)
          then (st, MOther)
          else (set_elem_state st p (q_elen st) (q_eof st), MOk p)
      | None => (st, MRefused)
      end
  | MNewRef =>
      match s_newref_next (q_maxref st) with
      | Some r => (set_maxref st r, MOk r)
      | None => (st, MOther)
      end
  | MSetName len =>
      match s_vsetname len with
      | Some l => (set_namelen st l, MOk l)
      | None => (st, MRefused)
      end
  | MSetAttr sz count => if s_setattr sz count then (set_attr st count, MOk count) else (st, MRefused)
  | MSdCreate rank namelen =>
      if s_sdcreate_ok rank namelen && (q_nsets st <? H4_MAX_NC_VARS) then (set_nsets st (q_nsets st + 1), MOk (q_nsets st))
      else (st, MRefused)
  | MResetMax req sys =>
      match m_reset_maxopen req sys (open_count (q_slots st)) (q_slots st) with
      | (r, slots) => if r <? 0 then (st, MRefused) else (set_slots st slots, MOk r)
      end
  end.

Fixpoint m_run (st : mst) (ops : list mop) : mst * list mres :=
  match ops with
  | [] => (st, [])
  | o :: t => let (st1, r) := m_step st o in let (st2, rs) := m_run st1 t in (st2, r :: rs)
  end.
Fixpoint s_run (st : mst) (ops : list mop) : mst * list mres :=
  match ops with
  | [] => (st, [])
  | o :: t => let (st1, r) := s_step st o in let (st2, rs) := s_run st1 t in (st2, r :: rs)
  end.

(** a fresh file / Vgroup / Vdata / attribute list / file table *)
Definition m_init (eof0 : Z) (appendable : bool) (off elen : Z) : mst :=
  mkM eof0 0 appendable off elen 0 1 [] 0 0 0 0 0 0 [].
