(** C08 -- Vgroup membership, naming and hierarchy persist exactly as edited.
    Property theorems only (each closed by [exact]); proofs in VGProofs.v.

    S = VGraphSpec (graph: ref -> {name, class, ordered member list}, set of Vdatas, lone = not a member of any
    Vgroup); M = VGModel (the algorithms of vgp.c / vg.c as the C code performs them).
    PROVED here, for all inputs: (1) any history of Vaddtagref / Vinsert / Vdeletetagref / Vntagrefs / Vgettagrefs /
    Vgettagref / Vinqtagref on the member arrays (capacity doubling from MAXNVELT, shift-down delete, 16-bit counter)
    is the same history on a list; (2) vunpackvg (vpackvg g) = g for every member count <= 65535, every name length
    <= 65535, attribute lists, versions <= 4, with the historic extra byte; (3) hence what Vdetach writes and
    Load_vfile reads back is the same abstract vgroup; (4) the flag-array algorithm of Vlone / VSlone returns
    exactly the objects no Vgroup lists as a member; (5) the Vgetid / VSgetid iteration visits every object of the
    table exactly once; (6) the source statements the model was written against are the ones in vgp.c now.
    (7) vg_graph_refines_spec: for EVERY history of the whole operation language (Vattach(-1)/Vattach r|w/Vdetach,
    Vsetname/Vsetclass, Vaddtagref, Vinsert, Vdeletetagref, Vdelete/VSdelete, reopen, all observers incl. Vlone/VSlone,
    Vgetid, Vfind*, Vgetvgroups) the model's results are the specification's, up to the first operation outside the
    property's domain -- including the access mode shared by all handles of a vgroup (nattach, MAX of the requested
    modes) and the write-back / reload of records.
    NOT proved (correspondence only): the element store under Vdetach (a finite map here), Vdata record persistence. *)
From Coq Require Import String ZArith List Bool Lia Sorted.
Require Import H4.gen.Gen_VG H4.VGraphSpec H4.VGModel H4.VGProofs H4.VGSimProofs.
Import ListNotations.
Local Open Scope Z_scope.

(** (1) the member arrays are the member list *)
Theorem vg_members_refine_list : forall g ops l' xs,
  WF g -> l_run (members g) ops = Some (l', xs) ->
  WF (fst (m_run g ops)) /\ members (fst (m_run g ops)) = l' /\ snd (m_run g ops) = xs.
Proof. exact (fun g ops l' xs => m_run_refines ops g l' xs). Qed.
Print Assumptions vg_members_refine_list.

(** ... in particular from a vgroup just created by Vattach(f, -1, "w") *)
Theorem vg_members_refine_list_new : forall r ops l' xs,
  l_run [] ops = Some (l', xs) ->
  members (fst (m_run (new_vgroup r) ops)) = l' /\ snd (m_run (new_vgroup r) ops) = xs.
Proof.
  intros r ops l' xs H.
  exact (proj2 (m_run_refines ops (new_vgroup r) l' xs (WF_new r) H)).
Qed.
Print Assumptions vg_members_refine_list_new.

(** (2) the record codec *)
Theorem vg_pack_roundtrip : forall g, WFpack g ->
  vunpackvg (oref g) (snd (vpackvg g)) = Some (reloaded g) /\
  members (reloaded g) = members g /\ nvelt (reloaded g) = nvelt g /\
  vgname (reloaded g) = norm (vgname g) /\ vgclass (reloaded g) = norm (vgclass g) /\
  (extag (reloaded g), exref (reloaded g), more (reloaded g)) = (extag g, exref g, more g) /\
  (flags (reloaded g), nattrs (reloaded g), alist (reloaded g)) = (flags g, nattrs g, alist g) /\
  version (reloaded g) = fst (vpackvg g) /\ WF (reloaded g).
Proof.
  intros g P. split; [exact (pack_roundtrip_lemma g P)|].
  split; [exact (reloaded_members g (wp_wf g P))|].
  repeat (split; [reflexivity|]). exact (reloaded_WF g (wp_wf g P)).
Qed.
Print Assumptions vg_pack_roundtrip.

(** (3) detach + reopen: the same abstract vgroup *)
Theorem vg_reopen_agrees : forall g, WFpack g ->
  exists g', vunpackvg (oref g) (snd (vpackvg g)) = Some g' /\ core g' = core g /\ WFpack g' /\
             oref g' = oref g /\ marked g' = false.
Proof. exact reopen_agrees_lemma. Qed.
Print Assumptions vg_reopen_agrees.

(** (4) lone *)
Theorem lone_correct : forall s, table_ok (m_vg s) -> table_ok (m_vs s) ->
  (forall k g, In (k, g) (m_vg s) -> WF g /\ refs_ok g) ->
  Vlone s = lone_vgroups (abs_state s) /\ VSlone s = lone_vdatas (abs_state s).
Proof. exact lone_correct_lemma. Qed.
Print Assumptions lone_correct.

(** (5) iteration *)
Theorem enumeration_exact : forall A (t : list (Z * A)), table_ok t ->
  all_ids t = keys t /\ NoDup (all_ids t) /\ (forall k, In k (all_ids t) <-> exists v, tget k t = Some v).
Proof. exact enumeration_exact_lemma. Qed.
Print Assumptions enumeration_exact.

(** (7) the whole operation language: one step from any reachable state ... *)
Theorem vg_step_refines : forall m o, Inv m ->
  snd (step (abs_state m) o) = RUnspec \/
  (Inv (fst (mstep m o)) /\ abs_state (fst (mstep m o)) = fst (step (abs_state m) o) /\
   res_agree (snd (step (abs_state m) o)) (snd (mstep m o))).
Proof. exact step_sim. Qed.
Print Assumptions vg_step_refines.

(** ... and every history from the empty file *)
Theorem vg_graph_refines_spec : forall ops, traces_agree (s_trace init ops) (m_trace minit ops).
Proof. exact (fun ops => graph_refines_from ops minit Inv_init). Qed.
Print Assumptions vg_graph_refines_spec.

(** (8) the element under a vgroup record.  Hputelement sizes only a new (or invalidated) element ... *)
Theorem hputelement_in_place : forall o b, (length b <= length o)%nat ->
  exists e, Hputelement (Some o) b = Some e /\ length e = length o /\ firstn (length b) e = b /\
            skipn (length b) e = skipn (length b) o.
Proof. exact put_in_place. Qed.
Print Assumptions hputelement_in_place.

Theorem hputelement_longer_fails : forall o b, (length o < length b)%nat -> Hputelement (Some o) b = None.
Proof. exact put_longer_fails. Qed.
Print Assumptions hputelement_longer_fails.

(** ... the size vpackvg reports is the length of what it wrote, for every storable vgroup ... *)
Theorem vpackvg_reports_length : forall g, WFpack g -> length (snd (vpackvg g)) = packed_size g.
Proof. exact vpackvg_length. Qed.
Print Assumptions vpackvg_reports_length.

(** ... so Vdetach of a marked vgroup -- whatever the element held before: nothing, a shorter or a longer record --
    cannot fail and leaves exactly the packed record, which Load_vfile decodes to the same vgroup *)
Theorem detach_leaves_exact_record : forall file g r, WFpack g -> oref g = r -> StronglySorted Z.lt (keys file) ->
  marked g = true -> (new_vg g = true -> tget r file = None) ->
  write_fails file g = false /\
  tget r (fst (write_back file g)) = Some (snd (vpackvg g)) /\
  length (snd (vpackvg g)) = packed_size g /\
  vunpackvg r (snd (vpackvg g)) = Some (reloaded g) /\
  core (reloaded g) = core g /\
  (forall k, k <> r -> tget k (fst (write_back file g)) = tget k file).
Proof. exact detach_exact_lemma. Qed.
Print Assumptions detach_leaves_exact_record.

(** the same along EVERY history inside the domain: each vgroup not being edited is in the file as exactly the packed
    record of a storable vgroup with its name, class and members, and reloading gives them back.  (The side
    condition of the previous theorem -- a vgroup created in this session has no element yet -- is part of the
    invariant.) *)
Theorem vg_store_exact_on_histories : forall ops, in_domain (s_trace init ops) ->
  forall k g, tget k (m_vg (m_final minit ops)) = Some g -> marked g = false ->
  exists g0, WFpack g0 /\ oref g0 = k /\ core g0 = core g /\
             tget k (m_file (m_final minit ops)) = Some (snd (vpackvg g0)) /\
             length (snd (vpackvg g0)) = packed_size g0 /\
             vunpackvg k (snd (vpackvg g0)) = Some (reloaded g0) /\ core (reloaded g0) = core g.
Proof. exact store_exact_on_histories. Qed.
Print Assumptions vg_store_exact_on_histories.

(** without the invalidation (HDreuse_tagref) the property would fail: the faithful in-place write of a record one
    byte shorter keeps the old length and the vgroup does not decode *)
Theorem in_place_write_refuted :
  exists g0 g, WFpack g0 /\ WFpack g /\ oref g0 = oref g /\
    match Hputelement (Some (snd (vpackvg g0))) (snd (vpackvg g)) with
    | Some e => length e = length (snd (vpackvg g0)) /\ vunpackvg (oref g) e <> Some (reloaded g)
    | None => False
    end.
Proof. exact in_place_write_refuted_lemma. Qed.
Print Assumptions in_place_write_refuted.

(** the statements of Vdetach / Hstartwrite / Hwrite / VPgetinfo / vpackvg this rests on *)
Theorem source_store_pinned :
  vdetach_reuse =
    "if(!vg->new_vg){switch(HDcheck_tagref(vg->f,DFTAG_VG,vg->oref)){case0:break;case1:if(HDreuse_tagref(vg->f,DFTAG_VG,vg->oref)==FAIL)HGOTO_ERROR(DFE_INTERNAL,FAIL);break;"%string /\
  vdetach_put =
    "if(Hputelement(vg->f,DFTAG_VG,vg->oref,Vgbuf,vgpacksize)==FAIL){HERROR(DFE_WRITEERROR);ret_value=FAIL;}else{vg->marked=0;vg->new_vg=0;}"%string /\
  hstartwrite_setlength = "if(access_rec->new_elem&&(Hsetlength(ret,length)==FAIL))"%string /\
  hwrite_bound =
    "if(length<=0||(!access_rec->appendable&&length+access_rec->posn>data_len))HGOTO_ERROR(DFE_BADSEEK,FAIL);"%string /\
  vpgetinfo_length = "if((len=Hlength(f,DFTAG_VG,(uint16)ref))==FAIL)"%string /\
  vpackvg_size = "*size=(int32)(bb-buf)+1;"%string.
Proof. exact Layout.source_store_pinned_lemma. Qed.
Print Assumptions source_store_pinned.

(** (9) a refused call changes nothing: in the specification, and therefore in what any reachable model state stands for *)
Theorem spec_refused_changes_nothing : forall s o,
  snd (VGraphSpec.step s o) = RFail -> fst (VGraphSpec.step s o) = s.
Proof. exact spec_refused_changes_nothing_lemma. Qed.
Print Assumptions spec_refused_changes_nothing.

Theorem model_refused_changes_nothing : forall m o, Inv m -> snd (VGraphSpec.step (abs_state m) o) = RFail ->
  abs_state (fst (mstep m o)) = abs_state m /\ snd (mstep m o) = RFail /\ Inv (fst (mstep m o)).
Proof. exact model_refused_changes_nothing_lemma. Qed.
Print Assumptions model_refused_changes_nothing.

(** refused calls change nothing, and the tree keeps its threads: the statements behind that *)
Theorem source_errors_tree_pinned :
  vsetname_order = "name_len=strlen(vgname);if(name_len>UINT16_MAX)HGOTO_ERROR(DFE_EXCEEDMAX,FAIL);free(vg->vgname);vg->vgname=(char*)malloc(name_len+1);if(vg->vgname==NULL)HGOTO_ERROR(DFE_NOSPACE,FAIL);HIstrncpy(vg->vgname,vgname,(int)name_len+1);vg->marked=TRUE;"%string /\
  vsetclass_order = "classname_len=strlen(vgclass);if(classname_len>UINT16_MAX)HGOTO_ERROR(DFE_EXCEEDMAX,FAIL);free(vg->vgclass);vg->vgclass=(char*)malloc(classname_len+1);if(vg->vgclass==NULL)HGOTO_ERROR(DFE_NOSPACE,FAIL);HIstrncpy(vg->vgclass,vgclass,(int)classname_len+1);vg->marked=TRUE;"%string /\
  tbbtrem_thread_same = "n=leaf->Link[side];par->Link[side]=n;n->Parent=par;if(HasChild(n,Other(side)))while(HasChild(n,Other(side)))n=n->Link[Other(side)];n->Link[Other(side)]=par;"%string /\
  tbbtrem_thread_zigzag = "n=leaf->Link[Other(side)];par->Link[side]=n;n->Parent=par;if(HasChild(n,side))while(HasChild(n,side))n=n->Link[side];n->Link[side]=next;"%string /\
  vdelete_order = "if((v=tbbtrem((TBBT_NODE**)vf->vgtree,(TBBT_NODE*)t,NULL))!=NULL)vdestroynode((void*)v);if(Hdeldd(f,DFTAG_VG,(uint16)vgid)==FAIL)"%string.
Proof. exact Layout.source_errors_tree_pinned_lemma. Qed.
Print Assumptions source_errors_tree_pinned.

(** (6) tie to the source text: this obligation breaks when a statement of vpackvg / vunpackvg / vinsertpair /
    Vdeletetagref, a constant or the internal class-name table changes in vgp.c *)
Theorem source_layout_pinned :
  vinsertpair_grow_cond = "(int)vg->nvelt>=vg->msize"%string /\
  vinsertpair_grow_step = "vg->msize*=2;"%string /\
  vunpackvg_tail = "bb=&buf[len-5];"%string /\
  List.length vpackvg_layout = 28%nat /\ List.length vunpackvg_layout = 28%nat /\
  (MAXNVELT, MAX_REF, DFTAG_VG, DFTAG_VH) = (64, 65535, 1965, 1962).
Proof.
  destruct Layout.source_layout_pinned_lemma as (P & U & A & B & _ & _ & _ & _ & T & _).
  rewrite P, U. repeat split; assumption.
Qed.
Print Assumptions source_layout_pinned.

(** ... and the loop bounds / bodies of VSIgetvdatas, Vgetvgroups, VHmakegroup, Vgettagrefs, Vlone, VSlone, Vinsert and
    the shared-mode statement of Vattach *)
Theorem source_loops_pinned :
  vsigetvdatas_count = "int32n_elements=Vntagrefs(id);"%string /\
  vgetvgroups_count = "int32n_elements=Vntagrefs(id);"%string /\
  vhmakegroup_loop =
    "for(i=0;i<n;i++){if(Vaddtagref(vg,tagarray[i],refarray[i])==FAIL)HGOTO_ERROR(DFE_CANTADDELEM,FAIL);}ref=VQueryref(vg);"%string /\
  vgettagrefs_clamp = "if(n>(int32)vg->nvelt)n=(int32)vg->nvelt;"%string /\
  vattach_shared_mode = "v->vg->access=MAX(v->vg->access,acc_mode);v->nattach++;"%string /\
  vlone_member_loop = "for(i=0;i<Vntagrefs(vkey);i++){Vgettagref(vkey,i,&vstag,&id);"%string /\
  vslone_member_loop = "for(i=0;i<Vntagrefs(vkey);i++){Vgettagref(vkey,i,&vstag,&vsid);"%string /\
  vinsert_dup_scan =
    "for(u=0;u<(unsigned)vg->nvelt;u++){if((vg->ref[u]==newref)&&(vg->tag[u]==newtag))HGOTO_ERROR(DFE_DUPDD,FAIL);}"%string /\
  Z.of_nat (List.length HDF_INTERNAL_VDS) = HDF_NUM_INTERNAL_VDS /\
  List.length _HDF_CHK_TBL_CLASS = 13%nat.
Proof. exact Layout.source_loops_pinned_lemma. Qed.
Print Assumptions source_loops_pinned.

(** ... and the string comparisons of the lookups *)
Theorem source_compares_pinned :
  vscheckclass_compare =
    "if(strncmp(vsclass,_HDF_CHK_TBL_CLASS,len))ret_value=strcmp(vsclass,vs->vsclass)?FALSE:TRUE;elseret_value=strncmp(vsclass,vs->vsclass,len)?FALSE:TRUE;"%string /\
  vscheckclass_user = "if(vsclass==NULL){if(VSisinternal(vs->vsclass)==FALSE)ret_value=TRUE;}"%string /\
  vsisinternal_test =
    "if(strncmp(HDF_INTERNAL_VDS[i],classname,strlen(HDF_INTERNAL_VDS[i]))==0){ret_value=TRUE;break;}"%string /\
  visinternal_test =
    "if(strncmp(HDF_INTERNAL_VGS[i],classname,strlen(HDF_INTERNAL_VGS[i]))==0){ret_value=TRUE;break;}"%string /\
  vfind_test = "if(vg->vgname!=NULL)if(!strcmp(vgname,vg->vgname))HGOTO_DONE((int32)(vg->oref));"%string /\
  vfindclass_test = "if(vg->vgclass!=NULL)if(!strcmp(vgclass,vg->vgclass))HGOTO_DONE((int32)(vg->oref));"%string /\
  vsfind_test = "if(!strcmp(vsname,vs->vsname))HGOTO_DONE((int32)(vs->oref));"%string /\
  vsfindclass_test = "if(!strcmp(vsclass,vs->vsclass))HGOTO_DONE((int32)(vs->oref));"%string.
Proof. exact Layout.source_compares_pinned_lemma. Qed.
Print Assumptions source_compares_pinned.

(** the class lookup of VSofclass (vscheckclass) with an ordinary class name is exact: no prefix matching *)
Theorem class_lookup_exact : forall t r q, is_prefix _HDF_CHK_TBL_CLASS q = false ->
  (vscheckclass t r (Some q) = true <-> exists v, tget r t = Some v /\ s_class v = q /\ q <> []).
Proof. exact class_lookup_exact_lemma. Qed.
Print Assumptions class_lookup_exact.

(** every entry point of the three source files is driven, reached, or assigned elsewhere *)
Theorem api_accounted :
  forallb (fun f => existsb (String.eqb f) (Layout.api_driven ++ Layout.api_indirect ++ Layout.api_elsewhere))
          vg_api_functions = true.
Proof. exact Layout.api_accounted_lemma. Qed.
Print Assumptions api_accounted.

(* ---- non-vacuity ------------------------------------------------------------------------------------ *)
(** a vgroup grown past its first capacity step, with a duplicate and a delete in the middle *)
Definition ex_ops : list mop :=
  [MAdd 1965 7; MAdd 1962 3; MAdd 1965 7; MInsert 1962 3; MDel 1965 7; MGetAll 10; MInq 1965 7; MCount].
Example ex_run : l_run [] ex_ops =
  Some ([(1962, 3); (1965, 7)],
        [MNum 1; MNum 2; MNum 3; MFail; MNum 0; MPairs [(1962, 3); (1965, 7)]; MBool true; MNum 2]).
Proof. vm_compute. reflexivity. Qed.
Example ex_run_model : snd (m_run (new_vgroup 2) ex_ops) =
  [MNum 1; MNum 2; MNum 3; MFail; MNum 0; MPairs [(1962, 3); (1965, 7)]; MBool true; MNum 2].
Proof. vm_compute. reflexivity. Qed.
Example ex_grown_capacity :
  match addmany_loop (new_vgroup 2) 1965 1 1 65%nat (-1) with
  | Some (g, n) => (nvelt g, msize g, n) = (65, 128, 65) | None => False end.
Proof. vm_compute. reflexivity. Qed.

(** a record with a long name, an attribute list and version 4 satisfies WFpack and really round-trips *)
Definition ex_vg : VGROUP :=
  mkVG 9 3 64 ([1965; 1962; 720] ++ repeat 0 61) ([2; 3; 65535] ++ repeat 0 61)
       (Some (repeat 97 70)) (Some [67; 68; 70]) 0 0 1 2 [(1962, 11); (1962, 12)] 3 0 true false true.
Example ex_vg_wf : WFpack ex_vg.
Proof.
  constructor; cbn.
  - constructor; cbn; lia.
  - repeat constructor; cbn; lia.
  - intros s E. inversion E; subst. split; [repeat constructor; unfold is_char; lia | vm_compute; discriminate].
  - intros s E. inversion E; subst. split; [repeat constructor; unfold is_char; lia | vm_compute; discriminate].
  - unfold is_u16; lia.
  - lia.
  - split; [lia|]. split; [reflexivity|]. repeat constructor; cbn; unfold is_u16; lia.
  - intro H. vm_compute in H. discriminate.
  - split; [lia|]. intro H; discriminate.
Qed.
Example ex_vg_roundtrip :
  match vunpackvg 9 (snd (vpackvg ex_vg)) with
  | Some g' => members g' = [(1965, 2); (1962, 3); (720, 65535)] /\ version g' = 4 /\ nattrs g' = 2 /\
               length (snd (vpackvg ex_vg)) = 116%nat
  | None => False
  end.
Proof. vm_compute. repeat split. Qed.

(** a file with three vgroups (one nested, one referencing a deleted one) and two vdatas *)
Definition ex_g (r n : Z) (tg rf : list Z) : VGROUP :=
  mkVG r n 64 (tg ++ repeat 0 (64 - length tg)) (rf ++ repeat 0 (64 - length rf)) None None 0 0 0 0 [] 3 0 true true true.
Definition ex_state : mstate :=
  mkm [] [(2, ex_g 2 2 [1965; 1962] [5; 4]); (5, ex_g 5 0 [] []); (9, ex_g 9 1 [1965] [77])]
      [(4, mkvs [118] [] []); (6, mkvs [119] [] [[102]])] [] [].
Example ex_state_ok : table_ok (m_vg ex_state) /\ table_ok (m_vs ex_state) /\
  (forall k g, In (k, g) (m_vg ex_state) -> WF g /\ refs_ok g).
Proof.
  split; [|split].
  - split; cbn; repeat constructor; unfold MAX_REF; lia.
  - split; cbn; repeat constructor; unfold MAX_REF; lia.
  - intros k g H. cbn [m_vg ex_state In] in H.
    destruct H as [H|[H|[H|[]]]]; inversion H; subst; clear H;
      (split; [constructor; cbn; lia | unfold refs_ok; cbn; repeat constructor; cbn; lia]).
Qed.
Example ex_state_lone : Vlone ex_state = [2; 9] /\ VSlone ex_state = [6] /\ all_ids (m_vg ex_state) = [2; 5; 9].
Proof. vm_compute. repeat split. Qed.

(** a history inside the domain that exercises the shared access mode: a vgroup attached "w" and then "r" stays
    writable through the read handle after the write handle is detached and after Vlone; attached "r" alone it
    refuses edits; everything survives the reopen *)
Definition ex_hist : list op :=
  [OOpen; OVgNew 0 2; OAddTagRef 0 1965 7; OVgDetach 0;
   OVgAttach 1 2 true; OVgAttach 2 2 false; OVgDetach 1; OLone 4;
   OAddTagRef 2 1962 3; OSetName 2 [110]; OVgDetach 2;
   OVgAttach 3 2 false; OAddTagRef 3 720 1; OGetTagRefs 3 5; OVgDetach 3;
   OReopen; OVgAttach 4 2 false; OGetTagRefs 4 5; OGetName 4; OFind [110]; OIter;
   OVsNew 3 [118] [99] [[102]]; OVHMakeGroup 5 (Some [109]) None [(1962, 3); (1965, 2); (1962, 3)];
   OVgAttach 6 5 true; OGetTagRefs 6 9; OGetVdatasG 6 None 0 9; OAddTagRef 6 1962 3; OGetVdatasG 6 (Some [99]) 0 0;
   OFlocate 6 [102]; OGetVgroupsG 6 0 9; OVentries 5].
Example ex_hist_spec : s_trace init ex_hist =
  [ROk [] None; ROk [2] None; ROk [1] None; ROk [] None;
   ROk [] None; ROk [] None; ROk [] None; ROk [1; 2] None;
   ROk [2] None; ROk [] None; ROk [] None;
   ROk [] None; RFail; ROk [2; 1965; 7; 1962; 3] None; ROk [] None;
   ROk [] None; ROk [] None; ROk [2; 1965; 7; 1962; 3] None; ROk [] (Some [110]); ROk [2] None; ROk [2] None;
   ROk [3] None; ROk [5] None;
   ROk [] None; ROk [3; 1962; 3; 1965; 2; 1962; 3] None; ROk [2; 3; 3] None; ROk [4] None; ROk [3] None;
   ROk [3] None; ROk [1; 2] None; ROk [4] None].
Proof. vm_compute. reflexivity. Qed.
Example ex_hist_model : m_trace minit ex_hist = s_trace init ex_hist.
Proof. vm_compute. reflexivity. Qed.

(** two vdata classes that agree in their first 13 characters: the lookup tells them apart; a chunk-table query does not *)
Example ex_class_lookup :
  let t := [(3, mkvs [97] [84;101;109;112;101;114;97;116;117;114;101;95;50;109;95;109;105;110] []);
            (4, mkvs [98] [84;101;109;112;101;114;97;116;117;114;101;95;50;109;95;109;97;120] []);
            (5, mkvs [99] (_HDF_CHK_TBL_CLASS ++ [49]) [])] in
  let q := [84;101;109;112;101;114;97;116;117;114;101;95;50;109;95;109;105;110] in
  (vscheckclass t 3 (Some q), vscheckclass t 4 (Some q), vscheckclass t 5 (Some (_HDF_CHK_TBL_CLASS ++ [48]))) =
  (true, false, true) /\ is_prefix _HDF_CHK_TBL_CLASS q = false.
Proof. vm_compute. split; reflexivity. Qed.

(** the store: a vgroup read from the file whose record shrinks by one byte -- Vdetach still leaves exactly the new
    record (Hputelement alone, in place, would keep the 29 bytes of the old one) *)
Definition ex_old : VGROUP := ex_station ex_name_a1.
Definition ex_new : VGROUP :=
  set_name (mkVG 9 0 64 (repeat 0 64) (repeat 0 64) (Some ex_name_a1) None 0 0 0 0 [] 3 0 false false true)
           (set_string ex_name_b).
Example ex_detach_shrinks :
  let file := [(9, snd (vpackvg ex_old))] in
  (length (snd (vpackvg ex_old)), length (snd (vpackvg ex_new))) = (25%nat, 24%nat) /\
  write_fails file ex_new = false /\
  tget 9 (fst (write_back file ex_new)) = Some (snd (vpackvg ex_new)) /\
  match Hputelement (Some (snd (vpackvg ex_old))) (snd (vpackvg ex_new)) with
  | Some e => length e = 25%nat | None => False end /\
  Hputelement (Some (snd (vpackvg ex_new))) (snd (vpackvg ex_old)) = None.
Proof. vm_compute. repeat split. Qed.
(** the history of ex_hist stays inside the domain, and its final state holds unmarked vgroups *)
Example ex_hist_in_domain : in_domain (s_trace init ex_hist) /\
  map (fun e => (fst e, marked (snd e))) (m_vg (m_final minit ex_hist)) = [(2, false); (5, true)].
Proof. vm_compute. split; [exact I|reflexivity]. Qed.

(** a refused rename (65536 bytes) on a named vgroup: FAIL, and the name is still there *)
Example ex_refused_rename :
  let ops := [OOpen; OVgNew 0 2; OSetName 0 [110; 49]; OSetName 0 (repeat 97 (Z.to_nat 65536)); OGetName 0; OFind [110; 49]] in
  s_trace init ops = [ROk [] None; ROk [2] None; ROk [] None; RFail; ROk [] (Some [110; 49]); ROk [2] None] /\
  m_trace minit ops = s_trace init ops.
Proof. vm_compute. split; reflexivity. Qed.
