(** C08 -- placeholder while the model is being built *)
From Coq Require Import ZArith List Bool.
Require Import H4.VGraphSpec.
Import ListNotations.
Local Open Scope Z_scope.
Theorem spec_init_empty : vgs init = [].
Proof. reflexivity. Qed.
Print Assumptions spec_init_empty.
