(** Extraction of the C18 specification and model (ExtrOcamlBasic only; Z stays the extracted datatype). *)
Require Import H4.gen.Gen_Repack H4.RepackSpec H4.RepackModel.
Require Extraction.
Require ExtrOcamlBasic.
Extraction "../extract/gen/repack_model.ml"
  parse_comp parse_chunk parse_number print_comp print_chunk build options_consistent names_ok decisions_ok repack
  decide expect_comp expect_chunk meets content_of str_eqb get_info step options_init strips strip_walk sm_sizes one_piece copy_sds_start copy_sds_edge strip_mined zprod.
