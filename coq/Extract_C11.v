(** Extraction of the C11 specification and implementation model (ExtrOcamlBasic only; Z stays inductive). *)
Require Import H4.gen.Gen_AN H4.ANSpec H4.ANModel.
Require Extraction.
Require ExtrOcamlBasic.
Extraction "../extract/gen/an_spec.ml" ANSpec.xstep ANSpec.xinit.
Extraction "../extract/gen/an_model.ml" ANModel.gstep ANModel.ginit ANModel.gfile ANModel.g_gettagref ANModel.g_fann_len ANModel.g_fann_get ANModel.g_lablist_page ANModel.g_restart ANModel.m_atype2tag ANModel.m_tag2atype
  Gen_AN.AN_CREATE_KEY Gen_AN.AN_KEY2TYPE Gen_AN.AN_KEY2REF Gen_AN.ANIanncmp
  Gen_AN.UINT16ENCODE_b0 Gen_AN.UINT16ENCODE_b1 Gen_AN.UINT16DECODE.
