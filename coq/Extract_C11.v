(** Extraction of the C11 specification and implementation model (ExtrOcamlBasic only; Z stays inductive). *)
Require Import H4.ANSpec.
Require Extraction.
Require ExtrOcamlBasic.
Extraction "../extract/gen/an_spec.ml" ANSpec.step ANSpec.init.
