(** Extraction of the C11 specification and implementation model (ExtrOcamlBasic only; Z stays inductive). *)
Require Import H4.ANSpec H4.ANModel.
Require Extraction.
Require ExtrOcamlBasic.
Extraction "../extract/gen/an_spec.ml" ANSpec.step ANSpec.init.
Extraction "../extract/gen/an_model.ml" ANModel.mstep ANModel.hinit ANModel.m_gettagref ANModel.m_atype2tag ANModel.m_tag2atype.
