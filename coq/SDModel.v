(** C14 -- the SD layer as a guard-structure model on top of the L1 effect model (ROModel).

    State: the NC handle's flags (NC_RDWR, NC_INDEF, NC_NDIRTY, NC_HDIRTY, NC_NOFILL), a version counter of the
    in-memory header (dimensions, variables, attributes: every successful mutator changes it), and the L1 file record
    the handle's HDF file was opened with (cdf.c NC_new_cdf: Hopen(name, hdf_mode)).  Whatever an SD function does to
    the file it does through L1 calls, so every SD operation CARRIES the list of L1 operations it issues (arbitrary:
    the theorems quantify over them); the device writes of an SD operation are the device writes of those L1 calls.

    Regenerated from the current sources (gen/Gen_RO.v): the mode computation of SDstart, the flags NC_new_cdf gives
    the handle, the switch that maps the netCDF mode to the HDF access mode (fall-through followed), the sixteen
    mutator guards, ncsetfill's guard, the conditions of SDend / ncclose / hdf_close, and which SD functions touch
    handle->flags at all.  No proofs in this file. *)
From Coq Require Import ZArith List Bool.
Import ListNotations.
Require Import H4.gen.Gen_RO H4.ROModel.
Local Open Scope Z_scope.

Record sd := { s_open : bool; s_flags : Z; s_header : Z; s_l1 : frec }.

(** cdf.c NC_new_cdf: switch (mode) { ... hdf_mode = ... } *)
Definition nc_hdf_mode (mode : Z) : Z :=
  match find (fun p => Z.eqb (fst p) mode) nc_new_cdf_hdf_mode with
  | Some p => snd p
  | None => nc_new_cdf_hdf_mode_default
  end.

(** SDstart on an existing HDF file (no DFACC_CREATE): NCmode, ncopen -> NC_new_cdf (flags := mode, Hopen with the HDF
    mode of the switch), then the define-mode bit is cleared *)
Definition sd_ncmode (HDFmode : Z) : Z := if nz (sdstart_wants_write HDFmode) then sdstart_ncmode_write else sdstart_ncmode_read.
Definition sdstart (HDFmode : Z) (dds : list dd) (fend : Z) (diskver : Z * Z * Z) : sd :=
  let ncmode := sd_ncmode HDFmode in
  {| s_open := true;
     s_flags := Z.land (nc_new_cdf_flags ncmode) sdstart_flag_mask;
     s_header := 0;
     s_l1 := hopen_existing (nc_hdf_mode ncmode) dds fend diskver |}.

(** the sixteen public mutators of mfsd.c, in the order of their guards in Gen_RO *)
Definition sd_guards : list (Z -> Z) :=
  [sdcreate_denied; sdsetdimname_denied; sdsetrange_denied; sdsetattr_denied; sdsetdatastrs_denied; sdsetcal_denied;
   sdsetfillvalue_denied; sdsetdimstrs_denied; sdsetdimscale_denied; sdsetdimval_comp_denied; sdwritedata_denied;
   sdsetexternalfile_denied; sdsetcompress_denied; sdsetchunk_denied; sdsetnbitdataset_denied; sdwritechunk_denied].
Definition sd_guard (k : nat) (flags : Z) : Z := nth k sd_guards (fun _ => 1) flags.
(** which of them mark the header dirty: by an assignment of their own (handle->flags |= NC_HDIRTY), or by calling the
    helper SDIregister_data_ref, which does it for them (both counted per function by the translator; nothing is
    hard-coded here).  SDwritedata / SDwritechunk leave it to the lower layers. *)
Definition marks (own calls_helper : Z) : bool :=
  nz own || (nz calls_helper && nz sd_helper_marks_hdirty_sdiregister_data_ref).
Definition sd_marks_header (k : nat) : bool :=
  nth k
      [marks sd_marks_hdirty_itself_sdcreate sd_registers_data_ref_sdcreate;
       marks sd_marks_hdirty_itself_sdsetdimname sd_registers_data_ref_sdsetdimname;
       marks sd_marks_hdirty_itself_sdsetrange sd_registers_data_ref_sdsetrange;
       marks sd_marks_hdirty_itself_sdsetattr sd_registers_data_ref_sdsetattr;
       marks sd_marks_hdirty_itself_sdsetdatastrs sd_registers_data_ref_sdsetdatastrs;
       marks sd_marks_hdirty_itself_sdsetcal sd_registers_data_ref_sdsetcal;
       marks sd_marks_hdirty_itself_sdsetfillvalue sd_registers_data_ref_sdsetfillvalue;
       marks sd_marks_hdirty_itself_sdsetdimstrs sd_registers_data_ref_sdsetdimstrs;
       marks sd_marks_hdirty_itself_sdsetdimscale sd_registers_data_ref_sdsetdimscale;
       marks sd_marks_hdirty_itself_sdsetdimval_comp sd_registers_data_ref_sdsetdimval_comp;
       marks sd_marks_hdirty_itself_sdwritedata sd_registers_data_ref_sdwritedata;
       marks sd_marks_hdirty_itself_sdsetexternalfile sd_registers_data_ref_sdsetexternalfile;
       marks sd_marks_hdirty_itself_sdsetcompress sd_registers_data_ref_sdsetcompress;
       marks sd_marks_hdirty_itself_sdsetchunk sd_registers_data_ref_sdsetchunk;
       marks sd_marks_hdirty_itself_sdsetnbitdataset sd_registers_data_ref_sdsetnbitdataset;
       marks sd_marks_hdirty_itself_sdwritechunk sd_registers_data_ref_sdwritechunk] false.

Definition run_l1 (s : sd) (ops : list op) : sd * list dev :=
  let '(f', l) := run (s_l1 s) ops in
  ({| s_open := s_open s; s_flags := s_flags s; s_header := s_header s; s_l1 := f' |}, writes_of l).
Definition set_flags (s : sd) (fl : Z) : sd := {| s_open := s_open s; s_flags := fl; s_header := s_header s; s_l1 := s_l1 s |}.
Definition bump_header (s : sd) : sd := {| s_open := s_open s; s_flags := s_flags s; s_header := s_header s + 1; s_l1 := s_l1 s |}.

Inductive sdop :=
| SMut (k : nat) (l1 : list op)          (* one of the sixteen mutators and the L1 calls it issues when it goes ahead *)
| SSetFill (l1 : list op)                (* SDsetfillmode -> ncsetfill *)
| SGetDimScale (l1 : list op)            (* a reader that marks the header dirty (mfsd.c SDgetdimscale) *)
| SRead (l1 : list op)                   (* every other reader / inquiry: SDreaddata, SDgetinfo, SDselect ... *)
| SEnd (l1_header l1_numrecs l1_close_numrecs : list op).   (* SDend + ncclose + hdf_close + Hclose *)

Definition sd_step (s : sd) (o : sdop) : sd * Z * list dev :=
  if negb (s_open s) then (s, FAIL, []) else
  match o with
  | SMut k l1 =>
    if nz (sd_guard k (s_flags s)) then (s, FAIL, [])
    else let '(s1, w) := run_l1 s l1 in
         let s2 := bump_header s1 in
         ((if sd_marks_header k then set_flags s2 (Z.lor (s_flags s2) NC_HDIRTY) else s2), 0, w)
  | SSetFill l1 =>
    if nz (ncsetfill_denied (s_flags s)) then (s, FAIL, [])
    else let '(s1, w) := run_l1 s l1 in (set_flags s1 (Z.lxor (s_flags s1) NC_NOFILL), 0, w)
  | SGetDimScale l1 =>
    let '(s1, w) := run_l1 s l1 in (set_flags s1 (Z.lor (s_flags s1) NC_HDIRTY), 0, w)
  | SRead l1 => let '(s1, w) := run_l1 s l1 in (s1, 0, w)
  | SEnd lh ln lc =>
    (* SDend: rewrite the header / the record count when the handle may write *)
    let '(s1, w1) :=
      if nz (sdend_may_write (s_flags s)) then
        if nz (sdend_header_dirty (s_flags s)) then
          let '(s', w) := run_l1 s lh in (set_flags s' (Z.land (s_flags s') (Z.lnot (Z.lor NC_NDIRTY NC_HDIRTY))), w)
        else if nz (sdend_numrecs_dirty (s_flags s)) then run_l1 s ln
        else (s, [])
      else (s, []) in
    (* ncclose: the same once more for a handle that may write *)
    let '(s2, w2) :=
      if nz (ncclose_may_write (s_flags s1)) then
        if nz (sdend_header_dirty (s_flags s1)) then run_l1 s1 lh
        else if nz (sdend_numrecs_dirty (s_flags s1)) then run_l1 s1 ln else (s1, [])
      else (s1, []) in
    (* hdf_close: the record count of unlimited dimensions (VSattach "w" ...), NOT guarded by NC_RDWR; then Hclose *)
    let '(s3, w3) := if nz (hdf_close_numrecs_dirty (s_flags s2)) then run_l1 s2 lc else (s2, []) in
    let '(s4, w4) := run_l1 s3 [OClose] in
    ({| s_open := false; s_flags := s_flags s4; s_header := s_header s4; s_l1 := s_l1 s4 |}, 0, w1 ++ w2 ++ w3 ++ w4)
  end.

Fixpoint sd_run (s : sd) (ops : list sdop) : sd * list (Z * list dev) :=
  match ops with
  | [] => (s, [])
  | o :: r => let '(s1, res, w) := sd_step s o in let '(s2, l) := sd_run s1 r in (s2, (res, w) :: l)
  end.

Definition sd_mutating (o : sdop) : bool := match o with SMut _ _ | SSetFill _ => true | _ => false end.
