(** C01 -- proofs about the contiguous element model (HFileModel.v):
    space is handed out only at the end of the file, live elements never overlap unless deliberately
    aliased, and a write through one element changes no byte of any other. *)
From Coq Require Import ZArith List Bool Lia.
Require Import H4.HFileModel.
Import ListNotations.
Local Open Scope Z_scope.

Lemma key_eqb_eq a b : key_eqb a b = true <-> a = b.
Proof.
  destruct a as [a1 a2], b as [b1 b2]. unfold key_eqb. cbn.
  rewrite andb_true_iff, !Z.eqb_eq. split; [intros [-> ->]; reflexivity | intros H; inversion H; auto].
Qed.

Lemma key_eqb_refl a : key_eqb a a = true.
Proof. now apply key_eqb_eq. Qed.

Lemma dfind_in k l d : dfind k l = Some d -> In d l /\ dk d = k.
Proof.
  induction l as [|x l IH]; cbn; [discriminate|].
  destruct (key_eqb k (dk x)) eqn:E.
  - intros Hinj. injection Hinj as <-. apply key_eqb_eq in E. auto.
  - intros H. destruct (IH H). auto.
Qed.

Lemma in_dremove k l d : In d (dremove k l) -> In d l /\ dk d <> k.
Proof.
  induction l as [|x l IH]; cbn; [contradiction|].
  destruct (key_eqb k (dk x)) eqn:E.
  - intros H. destruct (IH H). auto.
  - intros [->|H].
    + split; [auto|]. intros C. rewrite C, key_eqb_refl in E. discriminate.
    + destruct (IH H). auto.
Qed.

Lemma in_dset d' l d : In d (dset d' l) -> d = d' \/ (In d l /\ dk d <> dk d').
Proof. unfold dset. intros [<-|H]; [auto|]. right. now apply in_dremove. Qed.

(** ---- image lemmas ---------------------------------------------------------- *)

Lemma poke_outside bytes : forall m a x, ~ (a <= x < a + zlen bytes) -> poke m a bytes x = m x.
Proof.
  induction bytes as [|b t IH]; intros m a x H; cbn; [reflexivity|].
  unfold zlen in *. cbn [length] in H.
  rewrite IH by lia. destruct (Z.eqb_spec x a); [lia|reflexivity].
Qed.

Lemma poke_inside bytes : forall m a i, (i < length bytes)%nat -> poke m a bytes (a + Z.of_nat i) = nth i bytes 0.
Proof.
  induction bytes as [|b t IH]; intros m a i Hi; cbn in *; [lia|].
  destruct i as [|i].
  - rewrite poke_outside by (unfold zlen; lia). rewrite Z.add_0_r, Z.eqb_refl. reflexivity.
  - replace (a + Z.of_nat (S i)) with (a + 1 + Z.of_nat i) by lia. apply IH. lia.
Qed.

Lemma peek_poke bytes m a : peek (poke m a bytes) a (length bytes) = bytes.
Proof.
  unfold peek. apply nth_ext with (d := 0) (d' := 0).
  - now rewrite map_length, seq_length.
  - intros i Hi. rewrite map_length, seq_length in Hi.
    rewrite (nth_indep _ 0 (poke m a bytes (a + Z.of_nat 0))) by (rewrite map_length, seq_length; exact Hi).
    rewrite (map_nth (fun i => poke m a bytes (a + Z.of_nat i)) (seq 0 (length bytes)) 0%nat i).
    rewrite seq_nth by exact Hi. cbn [Nat.add]. now apply poke_inside.
Qed.

Lemma peek_ext m1 m2 a n : (forall x, a <= x < a + Z.of_nat n -> m1 x = m2 x) -> peek m1 a n = peek m2 a n.
Proof.
  intros H. unfold peek. apply map_ext_in. intros i Hi. apply in_seq in Hi. apply H. lia.
Qed.

(** ---- the invariant --------------------------------------------------------- *)

Definition region_ok (s : fs) (d : ddrec) : Prop := 0 <= doff d /\ 0 <= dlen d /\ doff d + dlen d <= fend s.

(** two descriptors share no byte, unless they start at the same offset (aliases made by Hdupdd) *)
Definition overlap_free (d1 d2 : ddrec) : Prop :=
  doff d1 = doff d2 \/ dlen d1 = 0 \/ dlen d2 = 0 \/
  doff d1 + dlen d1 <= doff d2 \/ doff d2 + dlen d2 <= doff d1.

Definition Inv (s : fs) : Prop :=
  0 <= fend s /\
  (forall d, In d (dds s) -> region_ok s d) /\
  (forall d1 d2, In d1 (dds s) -> In d2 (dds s) -> overlap_free d1 d2).

Lemma overlap_free_sym d1 d2 : overlap_free d1 d2 -> overlap_free d2 d1.
Proof. unfold overlap_free. intuition lia. Qed.

Lemma Inv_init e : 0 <= e -> Inv (finit e).
Proof.
  intros H. split; [cbn; lia|]. split; cbn.
  - intros d Hd. contradiction.
  - intros d1 d2 H1. contradiction.
Qed.

(** every block handed out by HPgetdiskblock starts at the old end of file, so it is disjoint from
    everything that is live *)
Lemma alloc_fresh s n : Inv s -> 0 <= n ->
  let '(s', off) := alloc s n in
  off = fend s /\ fend s' = fend s + n /\ Inv s' /\
  forall d, In d (dds s) -> doff d + dlen d <= off.
Proof.
  intros (He & Hr & Ho) Hn. cbn. split; [reflexivity|]. split; [reflexivity|]. split.
  - split; [cbn; lia|]. split; cbn.
    + intros d Hd. destruct (Hr d Hd) as (? & ? & ?). unfold region_ok. cbn. lia.
    + exact Ho.
  - intros d Hd. destruct (Hr d Hd) as (? & ? & ?). lia.
Qed.

Lemma Inv_create s k len s' : Inv s -> hcreate s k len = Some s' -> Inv s'.
Proof.
  intros (He & Hr & Ho). unfold hcreate.
  destruct (dfind k (dds s)); [discriminate|].
  destruct (Z.ltb_spec len 0); [discriminate|]. cbn. intros Hinj. injection Hinj as <-.
  split; [cbn; lia|]. split; cbn.
  - intros d Hd. apply in_dset in Hd. destruct Hd as [->|[Hd _]].
    + unfold region_ok. cbn. lia.
    + destruct (Hr d Hd) as (? & ? & ?). unfold region_ok. cbn. lia.
  - intros d1 d2 H1 H2. apply in_dset in H1, H2.
    destruct H1 as [->|[H1 _]], H2 as [->|[H2 _]].
    + left. reflexivity.
    + destruct (Hr d2 H2) as (? & ? & ?). unfold overlap_free. cbn. lia.
    + destruct (Hr d1 H1) as (? & ? & ?). unfold overlap_free. cbn. lia.
    + now apply Ho.
Qed.

Lemma Inv_write s k pos app bytes s' r : Inv s -> 0 <= pos -> hwrite s k pos app bytes = (s', r) -> Inv s'.
Proof.
  intros (He & Hr & Ho) Hp. unfold hwrite.
  destruct (dfind k (dds s)) as [d|] eqn:Ef; [|intros Hinj; injection Hinj as <- _; exact (conj He (conj Hr Ho))].
  destruct (dfind_in _ _ _ Ef) as [Hd Hk].
  destruct (Hr d Hd) as (R1 & R2 & R3).
  destruct ((zlen bytes <=? 0) || (negb app && (dlen d <? zlen bytes + pos))) eqn:E1;
    [intros Hinj; injection Hinj as <- _; exact (conj He (conj Hr Ho))|].
  apply orb_false_iff in E1. destruct E1 as [En E1]. apply Z.leb_gt in En.
  destruct (app && (dlen d <? zlen bytes + pos)) eqn:E2.
  - apply andb_true_iff in E2. destruct E2 as [-> E2]. apply Z.ltb_lt in E2.
    destruct (Z.eqb_spec (dlen d + doff d) (fend s)) as [Eend|Nend]; cbn [negb];
      [|intros Hinj; injection Hinj as <- _; exact (conj He (conj Hr Ho))].
    intros Hinj. injection Hinj as <- _.
    split; [cbn; lia|]. split; cbn.
    + intros x Hx. apply in_dset in Hx. destruct Hx as [->|[Hx _]].
      * unfold region_ok. cbn. lia.
      * destruct (Hr x Hx) as (? & ? & ?). unfold region_ok. cbn. lia.
    + assert (Hnew : forall x, In x (dds s) -> overlap_free (mkdd k (doff d) (pos + zlen bytes)) x).
      { intros x Hx. destruct (Hr x Hx) as (X1 & X2 & X3).
        pose proof (Ho d x Hd Hx) as Hdx. unfold overlap_free in *. cbn. lia. }
      intros d1 d2 H1 H2. apply in_dset in H1, H2.
      destruct H1 as [->|[H1 _]], H2 as [->|[H2 _]].
      * left. reflexivity.
      * now apply Hnew.
      * apply overlap_free_sym. now apply Hnew.
      * now apply Ho.
  - (* write inside the current extent *)
    assert (Hin : pos + zlen bytes <= dlen d).
    { destruct app; cbn in E1, E2; [apply Z.ltb_ge in E2; lia | apply Z.ltb_ge in E1; lia]. }
    intros Hinj. injection Hinj as <- _.
    split; [cbn; lia|]. split; cbn.
    + intros x Hx. destruct (Hr x Hx) as (? & ? & ?). unfold region_ok. cbn. lia.
    + exact Ho.
Qed.

Lemma Inv_trunc s k len s' : Inv s -> htrunc s k len = Some s' -> Inv s'.
Proof.
  intros (He & Hr & Ho). unfold htrunc.
  destruct (dfind k (dds s)) as [d|] eqn:Ef; [|discriminate].
  destruct (dfind_in _ _ _ Ef) as [Hd Hk]. destruct (Hr d Hd) as (R1 & R2 & R3).
  destruct ((len <? dlen d) && (0 <=? len)) eqn:E; [|discriminate].
  apply andb_true_iff in E. destruct E as [E1 E2]. apply Z.ltb_lt in E1. apply Z.leb_le in E2.
  intros Hinj. injection Hinj as <-. split; [cbn; lia|]. split; cbn.
  - intros x Hx. apply in_dset in Hx. destruct Hx as [->|[Hx _]].
    + unfold region_ok. cbn. lia.
    + exact (Hr x Hx).
  - assert (Hnew : forall x, In x (dds s) -> overlap_free (mkdd k (doff d) len) x).
    { intros x Hx. pose proof (Ho d x Hd Hx) as Hdx. unfold overlap_free in *. cbn. lia. }
    intros d1 d2 H1 H2. apply in_dset in H1, H2.
    destruct H1 as [->|[H1 _]], H2 as [->|[H2 _]].
    + left. reflexivity.
    + now apply Hnew.
    + apply overlap_free_sym. now apply Hnew.
    + now apply Ho.
Qed.

Lemma Inv_dup s nk ok s' : Inv s -> hdup s nk ok = Some s' -> Inv s'.
Proof.
  intros (He & Hr & Ho). unfold hdup.
  destruct (dfind nk (dds s)); [discriminate|].
  destruct (dfind ok (dds s)) as [d|] eqn:Ef; [|discriminate].
  destruct (dfind_in _ _ _ Ef) as [Hd Hk].
  intros Hinj. injection Hinj as <-. split; [cbn; lia|]. split; cbn.
  - intros x Hx. apply in_dset in Hx. destruct Hx as [->|[Hx _]]; [exact (Hr d Hd) | exact (Hr x Hx)].
  - assert (Hnew : forall x, In x (dds s) -> overlap_free (mkdd nk (doff d) (dlen d)) x).
    { intros x Hx. pose proof (Ho d x Hd Hx) as Hdx. unfold overlap_free in *. cbn. lia. }
    intros d1 d2 H1 H2. apply in_dset in H1, H2.
    destruct H1 as [->|[H1 _]], H2 as [->|[H2 _]].
    + left. reflexivity.
    + now apply Hnew.
    + apply overlap_free_sym. now apply Hnew.
    + now apply Ho.
Qed.

Lemma Inv_del s k s' : Inv s -> hdel s k = Some s' -> Inv s'.
Proof.
  intros (He & Hr & Ho). unfold hdel. destruct (dfind k (dds s)); [|discriminate].
  intros Hinj. injection Hinj as <-. split; [cbn; lia|]. split; cbn.
  - intros x Hx. apply in_dremove in Hx. exact (Hr x (proj1 Hx)).
  - intros d1 d2 H1 H2. apply in_dremove in H1, H2. apply Ho; tauto.
Qed.

Lemma Inv_step s o : Inv s -> Inv (fstep s o).
Proof.
  intros HI. destruct o as [k len | n | k pos app bytes | k len | nk ok | k]; cbn.
  - destruct (hcreate s k len) eqn:E; [eapply Inv_create; eauto | assumption].
  - destruct (Z.ltb_spec n 0) as [Hneg|Hpos]; [assumption|].
    pose proof (alloc_fresh s n HI ltac:(lia)) as Haf. unfold alloc in *. cbn in *. tauto.
  - destruct (Z.ltb_spec pos 0); [assumption|].
    destruct (hwrite s k pos app bytes) as [s' r] eqn:E. cbn. eapply Inv_write; eauto.
  - destruct (htrunc s k len) eqn:E; [eapply Inv_trunc; eauto | assumption].
  - destruct (hdup s nk ok) eqn:E; [eapply Inv_dup; eauto | assumption].
  - destruct (hdel s k) eqn:E; [eapply Inv_del; eauto | assumption].
Qed.

Theorem alloc_disjoint_lemma : forall ops e, 0 <= e -> Inv (fold_left fstep ops (finit e)).
Proof.
  intros ops e He. assert (H : Inv (finit e)) by now apply Inv_init.
  revert H. generalize (finit e). induction ops as [|o ops IH]; intros s H; cbn; [assumption|].
  apply IH. now apply Inv_step.
Qed.

(** ---- a write changes its own element, exactly, and no other ------------------- *)

Lemma dfind_dset_other d' l k : dk d' <> k -> dfind k (dset d' l) = dfind k l.
Proof.
  intros Hne. unfold dset. cbn.
  destruct (key_eqb k (dk d')) eqn:E; [apply key_eqb_eq in E; congruence|].
  induction l as [|x l IH]; cbn; [reflexivity|].
  destruct (key_eqb (dk d') (dk x)) eqn:E2.
  - rewrite IH. destruct (key_eqb k (dk x)) eqn:E3; [|reflexivity].
    apply key_eqb_eq in E2, E3. congruence.
  - cbn. now rewrite IH.
Qed.

Theorem write_frame_lemma : forall s k pos app bytes s' n d k2 d2,
  Inv s -> 0 <= pos -> hwrite s k pos app bytes = (s', WOk n) ->
  dfind k (dds s) = Some d -> dfind k2 (dds s) = Some d2 -> k2 <> k -> doff d2 <> doff d ->
  content s' k2 = content s k2.
Proof.
  intros s k pos app bytes s' n d k2 d2 (He & Hr & Ho) Hp Hw Hd Hd2 Hne Hoff.
  destruct (dfind_in _ _ _ Hd) as [Hin Hk]. destruct (dfind_in _ _ _ Hd2) as [Hin2 Hk2].
  destruct (Hr d Hin) as (R1 & R2 & R3). destruct (Hr d2 Hin2) as (S1 & S2 & S3).
  pose proof (Ho d d2 Hin Hin2) as Hov.
  unfold hwrite in Hw. rewrite Hd in Hw.
  destruct ((zlen bytes <=? 0) || (negb app && (dlen d <? zlen bytes + pos))) eqn:E1; [discriminate|].
  apply orb_false_iff in E1. destruct E1 as [En E1]. apply Z.leb_gt in En.
  unfold content.
  destruct (app && (dlen d <? zlen bytes + pos)) eqn:E2.
  - apply andb_true_iff in E2. destruct E2 as [-> E2]. apply Z.ltb_lt in E2.
    destruct (Z.eqb_spec (dlen d + doff d) (fend s)) as [Eend|]; cbn [negb] in Hw; [|discriminate].
    injection Hw as <- _. cbn [dds img].
    rewrite dfind_dset_other by (cbn; congruence). rewrite Hd2.
    f_equal. apply peek_ext. intros x Hx.
    rewrite poke_outside by (unfold overlap_free in Hov; lia).
    apply poke_outside. unfold zlen. rewrite repeat_length. unfold overlap_free in Hov. lia.
  - assert (Hfit : pos + zlen bytes <= dlen d).
    { destruct app; cbn in E1, E2; [apply Z.ltb_ge in E2; lia | apply Z.ltb_ge in E1; lia]. }
    injection Hw as <- _. cbn [dds img]. rewrite Hd2.
    f_equal. apply peek_ext. intros x Hx. apply poke_outside. unfold overlap_free in Hov. lia.
Qed.

Theorem read_after_write_contig_lemma : forall s k pos app bytes s' n,
  0 <= pos -> hwrite s k pos app bytes = (s', WOk n) ->
  n = zlen bytes /\ hread s' k pos n = Some bytes.
Proof.
  intros s k pos app bytes s' n Hp Hw. unfold hwrite in Hw.
  destruct (dfind k (dds s)) as [d|] eqn:Hd; [|discriminate].
  destruct ((zlen bytes <=? 0) || (negb app && (dlen d <? zlen bytes + pos))) eqn:E1; [discriminate|].
  apply orb_false_iff in E1. destruct E1 as [En E1]. apply Z.leb_gt in En.
  destruct (app && (dlen d <? zlen bytes + pos)) eqn:E2.
  - apply andb_true_iff in E2. destruct E2 as [-> E2]. apply Z.ltb_lt in E2.
    destruct (Z.eqb_spec (dlen d + doff d) (fend s)); cbn [negb] in Hw; [|discriminate].
    injection Hw as <- <-. split; [reflexivity|].
    unfold hread. cbn [dds img]. unfold dset. cbn [dfind dk]. rewrite key_eqb_refl. cbn [dlen doff].
    destruct (Z.ltb_spec (zlen bytes) 0); [lia|].
    destruct (Z.eqb_spec (zlen bytes) 0); [lia|]. cbn [orb].
    destruct (Z.ltb_spec (pos + zlen bytes) (zlen bytes + pos)); [lia|].
    f_equal. rewrite Z.max_r by lia. unfold zlen. rewrite Nat2Z.id. apply peek_poke.
  - assert (Hfit : pos + zlen bytes <= dlen d).
    { destruct app; cbn in E1, E2; [apply Z.ltb_ge in E2; lia | apply Z.ltb_ge in E1; lia]. }
    injection Hw as <- <-. split; [reflexivity|].
    unfold hread. cbn [dds img]. rewrite Hd.
    destruct (Z.ltb_spec (zlen bytes) 0); [lia|].
    destruct (Z.eqb_spec (zlen bytes) 0); [lia|]. cbn [orb].
    destruct (Z.ltb_spec (dlen d) (zlen bytes + pos)); [lia|].
    f_equal. rewrite Z.max_r by lia. unfold zlen. rewrite Nat2Z.id. apply peek_poke.
Qed.
