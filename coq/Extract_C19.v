(** Extraction of the C19 specification and model (ExtrOcamlBasic only; Z stays the extracted datatype). *)
Require Import H4.ToolsSpec H4.ToolsModel.
Require Extraction.
Require ExtrOcamlBasic.
Extraction "../extract/gen/tools_model.ml"
  same_content spec_exit spec_diff_positions spec_count spec_index spec_offset spec_import
  array_diff_m ad_count cmatch hdiff_m hdiff_exit_m match_wanted print_pos_m dump_sds_m hdp_print fmt_dec import_m opts0 table_tags hdiff_tab_m hdiff_tab_exit_m dumpvd_m fields_walk.
