(** C01 -- abstract specification S: every data element is a growable byte array.
    No proofs here.  A byte is a Z in 0..255; [-1] marks a gap skipped over by seeking (unspecified while
    the session lasts, reads as 0 once the file has been closed and reopened); [-2] marks reserved space that
    was never written (its value is unspecified, but reading it succeeds: the library extends the file over
    reserved space before reading). *)
From Coq Require Import ZArith List Bool.
Require Import H4.gen.Gen_HBlocks.
Import ListNotations.
Local Open Scope Z_scope.

Definition key := (Z * Z)%type.            (* base tag, ref *)
Definition key_eqb (a b : key) : bool := (fst a =? fst b) && (snd a =? snd b).

Record elem := mkelem {
  e_key : key;
  e_data : list Z;          (* logical content; its length is the element length *)
  e_linked : bool;          (* stored as linked blocks: unbounded seeks, always extendable *)
  e_new : bool;             (* descriptor exists but no length was ever set *)
  e_alias : bool            (* shares storage with another descriptor (Hdupdd) *)
}.

Record hnd := mkhnd {
  h_file : Z; h_key : key; h_pos : Z; h_app : bool; h_wr : bool
}.

Record state := mkstate {
  files : list (Z * list elem);      (* open files: slot -> elements *)
  hnds : list (Z * hnd);             (* open access handles: slot -> handle *)
  mayprom : list (Z * key)           (* elements that were extended through an appendable handle: the library may
                                        have promoted them to linked blocks (depends on file layout, invisible here) *)
}.

Definition init : state := mkstate [] [] [].

Inductive op :=
| OOpen (f : Z)
| OReopen (f : Z)
| OStartWrite (h f tag ref len : Z)
| OStartAccess (h f tag ref flags : Z)
| OHLcreate (h f tag ref bl nb : Z)
| OHXcreate (h f tag ref len : Z)
| OAppendable (h : Z)
| OWrite (h : Z) (bytes : list Z)
| ORead (h n : Z)
| OSeek (h off origin : Z)
| OTell (h : Z)
| OTrunc (h len : Z)
| OInquire (h : Z)
| OEnd (h : Z)
| OLength (f tag ref : Z)
| OGetElement (f tag ref : Z)
| OPutElement (f tag ref : Z) (bytes : list Z)
| ODup (f tag ref otag oref : Z)
| ODel (f tag ref : Z)
| OExist (f tag ref : Z)
| OHBconvert (h : Z).               (* HBconvert: the handle's element is buffered in memory until the handle is closed *)

(** [RUnspec]: the operation lies outside the property's domain (listed in DESIGN.md / checks/C01.py
    ASSUMPTIONS); nothing is claimed about it or about anything later in the same history. *)
Inductive res := RFail | RUnspec | ROk (vals : list Z) (bytes : option (list Z)).

(* ---- association-list helpers ------------------------------------------- *)
Fixpoint zlookup {A} (k : Z) (l : list (Z * A)) : option A :=
  match l with [] => None | (k', v) :: t => if k =? k' then Some v else zlookup k t end.
Fixpoint zremove {A} (k : Z) (l : list (Z * A)) : list (Z * A) :=
  match l with [] => [] | (k', v) :: t => if k =? k' then zremove k t else (k', v) :: zremove k t end.
Definition zset {A} (k : Z) (v : A) (l : list (Z * A)) : list (Z * A) := (k, v) :: zremove k l.

Fixpoint efind (k : key) (l : list elem) : option elem :=
  match l with [] => None | e :: t => if key_eqb k (e_key e) then Some e else efind k t end.
Fixpoint eremove (k : key) (l : list elem) : list elem :=
  match l with [] => [] | e :: t => if key_eqb k (e_key e) then eremove k t else e :: eremove k t end.
Definition eset (e : elem) (l : list elem) : list elem := e :: eremove (e_key e) l.

Definition zlen {A} (l : list A) : Z := Z.of_nat (length l).

(* ---- the byte array ------------------------------------------------------ *)
(** write [bytes] at position [pos]; a gap between the old end and [pos] is filled with -1 *)
Definition write_at (data : list Z) (pos : Z) (bytes : list Z) : list Z :=
  let p := Z.to_nat pos in
  let padded := data ++ repeat (-1) (p - length data) in
  firstn p padded ++ bytes ++ skipn (p + length bytes) padded.

Definition read_at (data : list Z) (pos n : Z) : list Z :=
  firstn (Z.to_nat n) (skipn (Z.to_nat pos) data).

(** after close + reopen a gap made by seeking ([-1]) reads as zero; space that was reserved but never
    written ([-2]) stays unspecified ([-3]: unspecified value, but physically present in the file) *)
Definition settle (data : list Z) : list Z := map (fun b => if b =? -1 then 0 else if b =? -2 then -3 else b) data.

(* ---- operations ---------------------------------------------------------- *)
Definition file_elems (s : state) (f : Z) : option (list elem) := zlookup f (files s).
Definition set_elems (s : state) (f : Z) (es : list elem) : state := mkstate (zset f es (files s)) (hnds s) (mayprom s).
Definition set_hnd (s : state) (h : Z) (x : hnd) : state := mkstate (files s) (zset h x (hnds s)) (mayprom s).
Definition mark_prom (s : state) (f : Z) (k : key) : state := mkstate (files s) (hnds s) ((f, k) :: mayprom s).
Definition is_mayprom (s : state) (f : Z) (k : key) : bool :=
  existsb (fun p => (fst p =? f) && key_eqb (snd p) k) (mayprom s).
Definition has_handle_on_file (s : state) (f : Z) : bool :=
  existsb (fun p => h_file (snd p) =? f) (hnds s).
Definition has_handle_on (s : state) (f : Z) (k : key) : bool :=
  existsb (fun p => (h_file (snd p) =? f) && key_eqb (h_key (snd p)) k) (hnds s).
Definition has_other_handle_on (s : state) (h f : Z) (k : key) : bool :=
  existsb (fun p => negb (fst p =? h) && (h_file (snd p) =? f) && key_eqb (h_key (snd p)) k) (hnds s).
Definition touches_reserved (l : list Z) : bool := existsb (fun b => b =? -2) l.


Definition with_handle (s : state) (h : Z) (k : hnd -> elem -> list elem -> state * res) : state * res :=
  match zlookup h (hnds s) with
  | None => (s, RFail)
  | Some x =>
      match file_elems s (h_file x) with
      | None => (s, RFail)
      | Some es => match efind (h_key x) es with None => (s, RFail) | Some e => k x e es end
      end
  end.

Definition opens_slot (o : op) : option Z :=
  match o with
  | OStartWrite h _ _ _ _ | OStartAccess h _ _ _ _ | OHLcreate h _ _ _ _ _ | OHXcreate h _ _ _ _ => Some h
  | _ => None
  end.

Definition step1 (s : state) (o : op) : state * res :=
  match o with
  | OOpen f => (mkstate (zset f [] (files s)) (hnds s) (mayprom s), ROk [] None)
  | OReopen f =>
      match file_elems s f with
      | None => (s, RFail)
      | Some es =>
          if has_handle_on_file s f then (s, RFail)
          else (set_elems s f (map (fun e => mkelem (e_key e) (settle (e_data e)) (e_linked e) (e_new e) (e_alias e)) es),
                ROk [] None)
      end
  | OStartWrite h f tag ref len =>
      match file_elems s f with
      | None => (s, RFail)
      | Some es =>
          let k := (tag, ref) in
          match efind k es with
          | None =>
              let e := mkelem k (repeat (-2) (Z.to_nat len)) false false false in
              (set_hnd (set_elems s f (eset e es)) h (mkhnd f k 0 false true), ROk [] None)
          | Some e =>
              if e_new e && has_handle_on s f k then (s, RUnspec) else
              let e' := if e_new e then mkelem k (repeat (-2) (Z.to_nat len)) false false false else e in
              (set_hnd (set_elems s f (eset e' es)) h (mkhnd f k 0 false true), ROk [] None)
          end
      end
  | OStartAccess h f tag ref flags =>
      match file_elems s f with
      | None => (s, RFail)
      | Some es =>
          let k := (tag, ref) in
          let wr := negb (Z.land flags DFACC_WRITE =? 0) in
          let app := negb (Z.land flags DFACC_APPENDABLE =? 0) in
          match efind k es with
          | None =>
              if wr then
                let e := mkelem k [] false true false in
                (set_hnd (set_elems s f (eset e es)) h (mkhnd f k 0 app wr), ROk [] None)
              else (s, RFail)
          | Some e =>
              if e_new e && has_handle_on s f k then (s, RUnspec) else
              if e_new e && negb wr then (s, RUnspec) else
              (set_hnd s h (mkhnd f k 0 (if e_linked e then false else app) wr), ROk [] None)
          end
      end
  | OHLcreate h f tag ref bl nb =>
      match file_elems s f with
      | None => (s, RFail)
      | Some es =>
          let k := (tag, ref) in
          match efind k es with
          | None =>
              let e := mkelem k [] true false false in
              (set_hnd (set_elems s f (eset e es)) h (mkhnd f k 0 false true), ROk [] None)
          | Some e =>
              if has_handle_on s f k || e_alias e || is_mayprom s f k then (s, RUnspec) else
              if e_linked e then (s, RFail)
              else
                let e' := mkelem k (if e_new e then [] else e_data e) true false (e_alias e) in
                (set_hnd (set_elems s f (eset e' es)) h (mkhnd f k 0 false true), ROk [] None)
          end
      end
  | OHXcreate h f tag ref len =>
      (* an external element behaves like a linked-block one: always extendable, unbounded seeks *)
      match file_elems s f with
      | None => (s, RFail)
      | Some es =>
          let k := (tag, ref) in
          match efind k es with
          | None =>
              let e := mkelem k (repeat (-2) (Z.to_nat len)) true false false in
              (set_hnd (set_elems s f (eset e es)) h (mkhnd f k 0 false true), ROk [] None)
          | Some e =>
              if has_handle_on s f k || e_alias e || is_mayprom s f k || e_linked e || e_new e then (s, RUnspec)
              else
                let e' := mkelem k (e_data e) true false false in
                (set_hnd (set_elems s f (eset e' es)) h (mkhnd f k 0 false true), ROk [] None)
          end
      end
  | OAppendable h =>
      match zlookup h (hnds s) with
      | None => (s, RFail)
      | Some x => (set_hnd s h (mkhnd (h_file x) (h_key x) (h_pos x) true (h_wr x)), ROk [] None)
      end
  | OWrite h bytes =>
      with_handle s h (fun x e es =>
        let n := zlen bytes in
        if negb (h_wr x) || (n <=? 0) then (s, RFail) else
        if e_alias e then (s, RUnspec) else
        if e_new e then
          (* first write to an element created without a length: the write defines it; handle becomes appendable *)
          let e' := mkelem (e_key e) bytes false false false in
          (set_hnd (set_elems s (h_file x) (eset e' es)) h (mkhnd (h_file x) (h_key x) n true true), ROk [n] None)
        else
          let len := zlen (e_data e) in
          if negb (e_linked e) && negb (h_app x) && (len <? h_pos x + n) then
            (* a plain element refuses this; one that was silently promoted earlier accepts it *)
            (s, if is_mayprom s (h_file x) (h_key x) then RUnspec else RFail) else
          let e' := mkelem (e_key e) (write_at (e_data e) (h_pos x) bytes) (e_linked e) false (e_alias e) in
          let s1 := if negb (e_linked e) && (len <? h_pos x + n) then mark_prom s (h_file x) (h_key x) else s in
          (set_hnd (set_elems s1 (h_file x) (eset e' es)) h
                   (mkhnd (h_file x) (h_key x) (h_pos x + n) (h_app x) (h_wr x)), ROk [n] None))
  | ORead h n =>
      with_handle s h (fun x e es =>
        if e_new e || (n <? 0) then (s, RFail) else
        let len := zlen (e_data e) in
        let n' := if (n =? 0) || (len <? n + h_pos x) then len - h_pos x else n in
        let n'' := Z.max 0 n' in
        (set_hnd s h (mkhnd (h_file x) (h_key x) (h_pos x + n'') (h_app x) (h_wr x)),
         ROk [n''] (Some (read_at (e_data e) (h_pos x) n''))))
  | OSeek h off origin =>
      with_handle s h (fun x e es =>
        if e_new e then
          (* an element that has no data yet (position 0): measuring from its end is not specified; a seek that
             does not move is accepted; moving forward needs an extendable element, which then starts its life
             as an (empty) linked-block element, since it has no place in the file to grow from *)
          if origin =? DF_END then (s, RUnspec) else
          if negb ((origin =? DF_START) || (origin =? DF_CURRENT)) then (s, RFail) else
          let t := off + (if origin =? DF_CURRENT then h_pos x else 0) in
          if t =? h_pos x then (s, ROk [] None) else
          if (t <? 0) || negb (h_app x) then (s, RFail) else
          if has_other_handle_on s h (h_file x) (h_key x) then (s, RUnspec) else
          let e' := mkelem (e_key e) [] true false (e_alias e) in
          (set_hnd (set_elems s (h_file x) (eset e' es)) h (mkhnd (h_file x) (h_key x) t (h_app x) (h_wr x)), ROk [] None)
        else
        if negb ((origin =? DF_START) || (origin =? DF_CURRENT) || (origin =? DF_END)) then (s, RFail) else
        let len := zlen (e_data e) in
        let t := off + (if origin =? DF_CURRENT then h_pos x else if origin =? DF_END then len else 0) in
        let ok := if e_linked e then 0 <=? t
                  else (t =? h_pos x) || ((0 <=? t) && (h_app x || (t <=? len))) in
        let s1 := if negb (e_linked e) && h_app x && (len <=? t) && negb (t =? h_pos x)
                  then mark_prom s (h_file x) (h_key x) else s in
        if ok then (set_hnd s1 h (mkhnd (h_file x) (h_key x) t (h_app x) (h_wr x)), ROk [] None)
        else (s, if (0 <=? t) && is_mayprom s (h_file x) (h_key x) then RUnspec else RFail))
  | OTell h =>
      match zlookup h (hnds s) with None => (s, RFail) | Some x => (s, ROk [h_pos x] None) end
  | OTrunc h len =>
      with_handle s h (fun x e es =>
        if negb (h_wr x) then (s, RFail) else
        if e_new e || e_linked e then (s, RUnspec) else
        (* truncating through one of several descriptors that share storage (Hdupdd) shortens that descriptor
           only; the others keep their length and content *)
        let cur := zlen (e_data e) in
        if (len <? cur) && (0 <=? len) then
          let e' := mkelem (e_key e) (firstn (Z.to_nat len) (e_data e)) (e_linked e) (e_new e) (e_alias e) in
          (set_hnd (set_elems s (h_file x) (eset e' es)) h
                   (mkhnd (h_file x) (h_key x) (Z.min (h_pos x) len) (h_app x) (h_wr x)), ROk [len] None)
        else (s, RFail))
  | OInquire h =>
      with_handle s h (fun x e es =>
        if e_new e then (s, RUnspec) else
        (s, ROk [fst (h_key x); snd (h_key x); zlen (e_data e); h_pos x] None))
  | OEnd h =>
      match zlookup h (hnds s) with
      | None => (s, RFail)
      | Some _ => (mkstate (files s) (zremove h (hnds s)) (mayprom s), ROk [] None)
      end
  | OLength f tag ref =>
      match file_elems s f with
      | None => (s, RFail)
      | Some es => match efind (tag, ref) es with
                   | Some e => if e_new e then (s, RUnspec) else (s, ROk [zlen (e_data e)] None)
                   | None => (s, RFail) end
      end
  | OGetElement f tag ref =>
      match file_elems s f with
      | None => (s, RFail)
      | Some es => match efind (tag, ref) es with
                   | Some e => if e_new e then (s, RUnspec)
                               else (s, ROk [zlen (e_data e)] (Some (e_data e)))
                   | None => (s, RFail) end
      end
  | OPutElement f tag ref bytes =>
      match file_elems s f with
      | None => (s, RFail)
      | Some es =>
          let k := (tag, ref) in
          let n := zlen bytes in
          match efind k es with
          | None =>
              if n <=? 0 then (s, RFail) else
              (set_elems s f (eset (mkelem k bytes false false false) es), ROk [n] None)
          | Some e =>
              if e_alias e || has_handle_on s f k then (s, RUnspec) else
              if (n <=? 0) then (s, RFail) else
              if e_new e then (set_elems s f (eset (mkelem k bytes false false false) es), ROk [n] None) else
              if negb (e_linked e) && (zlen (e_data e) <? n) then (s, RFail) else
              (set_elems s f (eset (mkelem k (write_at (e_data e) 0 bytes) (e_linked e) false (e_alias e)) es), ROk [n] None)
          end
      end
  | ODup f tag ref otag oref =>
      match file_elems s f with
      | None => (s, RFail)
      | Some es =>
          match efind (tag, ref) es, efind (otag, oref) es with
          | None, Some o =>
              if has_handle_on s f (otag, oref) || e_new o || e_linked o then (s, RUnspec) else
              let o' := mkelem (e_key o) (e_data o) (e_linked o) (e_new o) true in
              let n := mkelem (tag, ref) (e_data o) (e_linked o) (e_new o) true in
              let s1 := if is_mayprom s f (otag, oref) then mark_prom s f (tag, ref) else s in
              (set_elems s1 f (eset n (eset o' es)), ROk [] None)
          | _, _ => (s, RFail)
          end
      end
  | ODel f tag ref =>
      match file_elems s f with
      | None => (s, RFail)
      | Some es => match efind (tag, ref) es with
                   | Some e => if has_handle_on s f (tag, ref) || e_linked e then (s, RUnspec)
                               else (set_elems s f (eremove (tag, ref) es), ROk [] None)
                   | None => (s, RFail) end
      end
  | OExist f tag ref =>
      match file_elems s f with
      | None => (s, RFail)
      | Some es => match efind (tag, ref) es with Some _ => (s, ROk [] None) | None => (s, RFail) end
      end
  | OHBconvert _ => (s, RUnspec)       (* see [bstep] *)
  end.

(** opening into a slot that still holds a handle is a harness-level misuse, not an API behaviour *)
Definition step (s : state) (o : op) : state * res :=
  match opens_slot o with
  | Some h => match zlookup h (hnds s) with Some _ => (s, RUnspec) | None => step1 s o end
  | None => step1 s o
  end.

Fixpoint run (s : state) (ops : list op) : list res :=
  match ops with [] => [] | o :: t => let '(s', r) := step s o in r :: run s' t end.

(* ---- buffered access (hbuffer.c) -------------------------------------------------------------------- *)
(** HBconvert makes the handle work on a copy of the element in memory; the copy is written back when the handle is
    closed.  For the handle itself nothing changes (a buffered element is "transparent"): it is the same byte array,
    it can grow exactly when the element underneath can (linked-block / external elements and extendable handles),
    a gap skipped over by seeking reads as zeros.  Until the handle is closed the file does not show its writes, so
    every other use of that element is outside the domain. *)
Record bstate := mkb { b_st : state; b_buf : list Z }.
Definition binit : bstate := mkb init [].

Definition buffered_by (b : bstate) (f : Z) (k : key) : list Z :=
  filter (fun h => match zlookup h (hnds (b_st b)) with
                   | Some x => (h_file x =? f) && key_eqb (h_key x) k | None => false end) (b_buf b).

(** the elements an operation names directly (not through a handle) *)
Definition op_targets (o : op) : list (Z * key) :=
  match o with
  | OStartWrite _ f tag ref _ | OStartAccess _ f tag ref _ | OHLcreate _ f tag ref _ _ | OHXcreate _ f tag ref _
  | OLength f tag ref | OGetElement f tag ref | OPutElement f tag ref _ | ODel f tag ref | OExist f tag ref => [(f, (tag, ref))]
  | ODup f tag ref otag oref => [(f, (tag, ref)); (f, (otag, oref))]
  | _ => []
  end.
Definition op_handle (o : op) : option Z :=
  match o with
  | OAppendable h | OWrite h _ | ORead h _ | OSeek h _ _ | OTell h | OTrunc h _ | OInquire h | OEnd h | OHBconvert h => Some h
  | _ => None
  end.
Definition zmem (h : Z) (l : list Z) : bool := existsb (Z.eqb h) l.

Definition bstep (b : bstate) (o : op) : bstate * res :=
  let s := b_st b in
  if existsb (fun fk => negb (match buffered_by b (fst fk) (snd fk) with [] => true | _ => false end)) (op_targets o)
  then (b, RUnspec) else
  match o with
  | OHBconvert h =>
      let '(s', r) := with_handle s h (fun x e es =>
        if has_other_handle_on s h (h_file x) (h_key x) || e_alias e || zmem h (b_buf b) then (s, RUnspec) else
        if e_new e then
          (* no data yet: the element gets length 0 and can grow, as when it is written directly *)
          let e' := mkelem (e_key e) [] false false false in
          (set_hnd (set_elems s (h_file x) (eset e' es)) h (mkhnd (h_file x) (h_key x) 0 true (h_wr x)), ROk [] None)
        else (s, ROk [] None)) in
      (mkb s' (match r with ROk _ _ => h :: b_buf b | _ => b_buf b end), r)
  | OReopen f =>
      let '(s', r) := step s o in (mkb s' (b_buf b), r)
  | _ =>
      match op_handle o with
      | Some h =>
          if zmem h (b_buf b) then
            match o with
            | OTrunc _ _ | OAppendable _ => (b, RUnspec)
            | OSeek _ off origin =>
                let '(s', r) := with_handle s h (fun x e es =>
                  if negb ((origin =? DF_START) || (origin =? DF_CURRENT) || (origin =? DF_END)) then (s, RUnspec) else
                  let len := zlen (e_data e) in
                  let t := off + (if origin =? DF_CURRENT then h_pos x else if origin =? DF_END then len else 0) in
                  if t <? 0 then (s, RFail) else
                  if (len <? t) && negb (e_linked e || h_app x) then (s, RUnspec) else
                  (set_hnd s h (mkhnd (h_file x) (h_key x) t (h_app x) (h_wr x)), ROk [] None)) in
                (mkb s' (b_buf b), r)
            | OEnd _ =>
                let '(s', r) := step s o in
                (mkb s' (filter (fun h' => negb (h' =? h)) (b_buf b)), r)
            | _ => let '(s', r) := step s o in (mkb s' (b_buf b), r)
            end
          else let '(s', r) := step s o in (mkb s' (b_buf b), r)
      | None => let '(s', r) := step s o in (mkb s' (b_buf b), r)
      end
  end.
