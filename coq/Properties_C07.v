(** C07 -- Vdata tables return exactly the records written, for any schema and access.
    (placeholder while the model and proofs are being built) *)
From Coq Require Import ZArith List Bool.
Require Import H4.VTableSpec.
Import ListNotations.
