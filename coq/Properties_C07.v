(** C07 -- Vdata tables return exactly the records written, for any schema and access.
    Property theorems only (each closed by [exact]); proofs in VSProofs.v / VSCodecProofs.v.

    S = VTableSpec.v (table of records; read = projection; two buffer layouts).
    M = VSModel.v (VSfdefine / VSsetfields / VSseek / VSwrite / VSread cases A-E with the transfer-buffer plan /
        vpackvs / vunpackvs / VSfpack as the C code performs them, over the C06 specification of DFKconvert).

    What is PROVED here, for ALL inputs:
    (1) vs_pack_roundtrip (full): vunpackvs (vpackvs h) = h for every header within the 16/32-bit fields.
    (2) vsfpack_inverse (full): unpacking what was packed returns the field buffers, any record count, any
        set of non-overlapping selected fields.
    (3) vs_counts_consistent (full): record count after VSwrite in M (max of old count and position / ivsize + n)
        and in S (length of the table), the offsets VSsetfields stores, and S's read-after-write on tables.
    (4) vsread_after_vswrite_partial: cases C/C (user and file FULL_INTERLACE, the chunked path) for one pass
        through the transfer buffer: every schema, every record count, every field subset and permutation on
        read; the bytes VSread delivers are the bytes VSwrite was given.  See the comment at the theorem for the
        full statement and what is missing.
    (5) gather_scatter_generic (full): the lemma every case reduces to -- any sequence of DFKconvert calls whose
        destination cells do not overlap moves exactly the cells it names and nothing else.
    (6) model_follows_source: the conversion-call / pointer-update skeleton of VSread and VSwrite and the field
        order of the header codec in the CURRENT vrw.c / vio.c are the ones the model was written from. *)
From Coq Require Import ZArith List Bool Lia.
Require Import H4.gen.Gen_VS H4.VSModel H4.VTableSpec H4.VSProofs H4.VSCodecProofs.
Import ListNotations.
Local Open Scope Z_scope.

(** (1) header codec *)
Theorem vs_pack_roundtrip : forall h, hdr_ok h ->
  m_vunpackvs (m_vpackvs h) =
  Some (mkvh (h_interlace h) (h_nvertices h) (h_ivsize h) (map renorm (h_fields h)) (h_vsname h) (h_vsclass h)
             (h_extag h) (h_exref h) (h_version h) (h_more h)).
Proof. exact vs_pack_roundtrip_lemma. Qed.
Print Assumptions vs_pack_roundtrip.

(** (2) VSfpack *)
Theorem vsfpack_inverse : forall n brs sel buf cols,
  sel_ok brs sel -> length buf = (n * brs)%nat -> length cols = length sel ->
  Forall2 (fun c os => length c = (n * Z.to_nat (snd os))%nat) cols sel ->
  m_unpack n brs sel (m_pack n brs sel buf cols) = cols.
Proof. exact vsfpack_inverse_lemma. Qed.
Print Assumptions vsfpack_inverse.

(** (3) counts *)
Theorem vs_counts_consistent :
  (forall w fil uil nelt vtb position nvert m vt r,
      m_vswrite_mem w fil uil nelt vtb position nvert m vt = Some r ->
      wr_nvert r = Z.max nvert (Z.quot position (wl_ivsize w) + nelt)) /\
  (forall (t : table) pos new, (pos <= length t)%nat ->
      length (put_rows t pos new) = Nat.max (length t) (pos + length new)) /\
  (forall (t : table) pos new i d, (pos <= length t)%nat ->
      nth i (put_rows t pos new) d =
      if (i <? pos)%nat then nth i t d else if (i <? pos + length new)%nat then nth (i - pos) new d else nth i t d) /\
  (forall (t : table) pos new fl full, (pos <= length t)%nat ->
      read_buf full fl (put_rows t pos new) pos (length new) = layout full (length fl) (project fl new)) /\
  (forall fl uj, 0 <= uj -> Forall (fun f => 0 <= w_isize f) fl -> uj + isum fl < 65536 ->
      offs_ok uj (set_offsets uj fl)).
Proof.
  exact (conj vswrite_nvert (conj put_rows_length (conj put_rows_nth (conj project_rows_put_rows set_offsets_ok)))).
Qed.
Print Assumptions vs_counts_consistent.

(** (4) read after write.
    FULL statement of the property at model level (not yet proved in this generality):
      for every well-formed write list fl (fld_ok, offs_ok), both file interlaces fil (with whole-table transfers
      when fil = NO_INTERLACE), both user interlaces uw (write) and ur (read), every read list rl of distinct valid
      indices, every nelt > 0, every transfer-buffer size before either call, and every caller buffer ubuf of
      nelt * isum fl bytes:
        m_vswrite w fil uw nelt vtb 0 nv ubuf = Some r ->
        m_vsread w rl fil ur nelt vtb' (concat (wr_chunks r)) = Some (_, _, out) ->
        out = read_buf (ur = FULL) rl' (parse (uw = FULL) sizes nelt ubuf) 0 nelt.
    PROVED: the case uw = ur = fil = FULL_INTERLACE with more than one field (cases C/C), for one pass through
    Vtbuf (one iteration of the while loops of VSwrite / VSread, any chunk size n), cell by cell: the byte at
    (record i, selected field f, component j, byte b) of the buffer VSread fills is the byte at (record i, field f,
    component j, byte b) of the buffer VSwrite was given -- for every schema, subset and permutation.
    MISSING: (a) induction over the chunk lists of [wr_ec_chunks] / [rd_ec_chunks] (the passes use disjoint record
    ranges; needs the frame clauses of [wr_c_spec] / [rd_c_spec], which are proved); (b) the same reduction to
    [run_comps_spec] for [wr_a_fields], [wr_b_fields], [wr_d_fields], [rd_a_fields], [rd_b_fields], [rd_d_fields]
    (field-major layouts: blocks of common stride) and the single conversion of case E; for case D this needs the
    hypothesis isize = esize, which [fld_ok] carries; (c) the list-level link from cells to [read_buf] / [parse]
    (nth of concat of equal-size blocks).  The correspondence check compares R with S on all of these. *)
Theorem vsread_after_vswrite_partial : forall fl rl n mu vtW mw mr0 vtR mr,
  Forall fld_ok fl -> offs_ok 0 fl -> rl_ok fl rl -> 0 < n ->
  n * isum fl <= vtW -> n * rsum fl rl <= vtR ->
  wr_ec_fields fl mu vtW 0 0 n (isum fl) (isum fl) = Some mw ->
  rd_c_fields fl rl (load mr0 vtR (mem_slice mw vtW (isum fl * n))) vtR 0 0 n (isum fl) (rsum fl rl) = Some mr ->
  forall f eo uo, In (f, eo) (foffs 0 fl) -> In (f, uo) (roffs fl rl 0) ->
  forall j i b, 0 <= j < w_order f -> 0 <= i < n -> 0 <= b < fw f ->
    mr (uo + j * fw f + i * rsum fl rl + b) = mu (eo + j * fw f + i * isum fl + b).
Proof. exact rw_c_pass. Qed.
Print Assumptions vsread_after_vswrite_partial.

(** the two halves separately, with existence of the results and the frame (nothing else is touched) *)
Theorem vswrite_pass_fills_records : forall fl m vt P n isz hs,
  Forall fld_ok fl -> offs_ok 0 fl -> isum fl <= isz -> isum fl <= hs -> 0 < n ->
  (P + n * isz <= vt \/ vt + n * hs <= P) ->
  exists m', wr_ec_fields fl m vt P 0 n isz hs = Some m' /\
    (forall f eo, In (f, eo) (foffs 0 fl) -> forall j i b, 0 <= j < w_order f -> 0 <= i < n -> 0 <= b < fw f ->
       m' (vt + w_off f + j * fw f + i * hs + b) =
       m (P + eo + j * fw f + i * isz + ConvModel.perm (fw f) (swap_of (w_type f) (fw f)) b)) /\
    (forall a, (a < vt \/ vt + n * hs <= a) -> m' a = m a).
Proof. exact wr_c_spec. Qed.
Print Assumptions vswrite_pass_fills_records.

Theorem vsread_pass_projects : forall fl rl m vt P n hs uv,
  Forall fld_ok fl -> offs_ok 0 fl -> rl_ok fl rl -> rsum fl rl <= uv -> isum fl <= hs -> 0 < n ->
  (vt + n * hs <= P \/ P + n * uv <= vt) ->
  exists m', rd_c_fields fl rl m vt P 0 n hs uv = Some m' /\
    (forall f uo, In (f, uo) (roffs fl rl 0) -> forall j i b, 0 <= j < w_order f -> 0 <= i < n -> 0 <= b < fw f ->
       m' (P + uo + j * fw f + i * uv + b) =
       m (vt + w_off f + j * fw f + i * hs + ConvModel.perm (fw f) (swap_of (w_type f) (fw f)) b)) /\
    (forall a, (a < P \/ P + n * uv <= a) -> m' a = m a).
Proof. exact rd_c_spec. Qed.
Print Assumptions vsread_pass_projects.

(** (5) the generic gather / scatter lemma *)
Theorem gather_scatter_generic : forall cs m n slo shi dlo dhi,
  0 < n -> (shi <= dlo \/ dhi <= slo) ->
  Forall (comp_ok n slo shi dlo dhi) cs -> no_overlap n cs ->
  exists m', run_comps m cs n = Some m' /\
    (forall c, In c cs -> forall i b, 0 <= i < n -> 0 <= b < kw c ->
        m' (k_q c + i * k_sq c + b) = m (k_p c + i * k_sp c + ConvModel.perm (kw c) (swap_of (k_nt c) (kw c)) b)) /\
    (forall a, (forall c, In c cs -> ~ dst_cell c n a) -> m' a = m a).
Proof. exact run_comps_spec. Qed.
Print Assumptions gather_scatter_generic.

(** (6) the model follows the current source *)
Theorem model_follows_source :
  VSwrite_skeleton = VSwrite_skeleton_modelled /\ VSread_skeleton = VSread_skeleton_modelled /\
  vpackvs_order = vpackvs_order_modelled /\ vunpackvs_order = vunpackvs_order_modelled.
Proof. exact model_follows_source_lemma. Qed.
Print Assumptions model_follows_source.

(** Non-vacuity: concrete, non-trivial states meeting the hypotheses *)
Definition ex_fl : list wfield :=
  [mkwf [65] DFNT_INT32 4 4 1 0; mkwf [66] DFNT_INT16 4 4 2 4; mkwf [67] (Z.lor DFNT_LITEND DFNT_FLOAT64) 8 8 1 8].
Example ex_fl_ok : Forall fld_ok ex_fl /\ offs_ok 0 ex_fl /\ rl_ok ex_fl [2; 0] /\ isum ex_fl = 16 /\ rsum ex_fl [2; 0] = 12.
Proof.
  split; [|split; [|split; [|split]]]; try (vm_compute; tauto).
  - repeat constructor; [exists 4|exists 2|exists 8]; vm_compute; intuition discriminate.
  - repeat constructor; eexists; vm_compute; reflexivity.
Qed.
(** the model run on a 2-record buffer: 16-byte records in (case C), fields C and A out field-major (case A) *)
Example ex_write_read :
  let w := mkwl ex_fl 16 in
  let ubuf := map Z.of_nat (seq 1 32) in
  match m_vswrite w FULL_INTERLACE FULL_INTERLACE 2 0 0 0 ubuf with
  | Some r => wr_nvert r = 2 /\ wr_vtb r = 48 /\
              concat (wr_chunks r) = [4;3;2;1; 6;5;8;7; 9;10;11;12;13;14;15;16; 20;19;18;17; 22;21;24;23; 25;26;27;28;29;30;31;32] /\
              m_vsread w [2; 0] FULL_INTERLACE NO_INTERLACE 2 48 (concat (wr_chunks r)) =
                Some (48, [32], [9;10;11;12;13;14;15;16; 25;26;27;28;29;30;31;32; 1;2;3;4; 17;18;19;20])
  | None => False
  end.
Proof. vm_compute. repeat split. Qed.
(** ... and the specification says the same *)
Example ex_spec_agrees :
  let sz := [4; 4; 8]%nat in
  let ubuf := map Z.of_nat (seq 1 32) in
  read_buf true [2; 0]%nat (put_rows [] 0 (parse true sz 2 ubuf)) 0 2 =
    [9;10;11;12;13;14;15;16; 1;2;3;4; 25;26;27;28;29;30;31;32; 17;18;19;20] /\
  read_buf false [2; 0]%nat (put_rows [] 0 (parse true sz 2 ubuf)) 0 2 =
    [9;10;11;12;13;14;15;16; 25;26;27;28;29;30;31;32; 1;2;3;4; 17;18;19;20].
Proof. vm_compute. split; reflexivity. Qed.
Example ex_hdr_ok : hdr_ok (mkvh 0 2 16 ex_fl [86] [] 0 0 VSET_VERSION 0).
Proof.
  unfold hdr_ok, ex_fl. cbn.
  repeat split; try (vm_compute; intuition discriminate); try lia;
  repeat constructor; cbn; try lia; try (vm_compute; intuition discriminate).
Qed.
Example ex_sel_ok : sel_ok 6 [(0, 2); (2, 4)].
Proof. exact sel_ok_two_fields. Qed.
Example ex_comps_nonempty : length (wr_c_comps ex_fl 100 0 0 16 16) = 4%nat /\ length (rd_c_comps ex_fl [2; 0] 100 0 0 16 12) = 2%nat.
Proof. vm_compute. split; reflexivity. Qed.
