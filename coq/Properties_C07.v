(** C07 -- Vdata tables return exactly the records written, for any schema and access.
    Property theorems only (each closed by [exact]); proofs in VSProofs.v / VSCodecProofs.v.

    S = VTableSpec.v (table of records; read = projection; two buffer layouts).
    M = VSModel.v (VSfdefine / VSsetfields / VSseek / VSwrite / VSread cases A-E with the transfer-buffer plan /
        vpackvs / vunpackvs / VSfpack as the C code performs them, over the C06 specification of DFKconvert).

    What is PROVED here, for ALL inputs:
    (1) vs_pack_roundtrip (full): vunpackvs (vpackvs h) = h for every header within the 16/32-bit fields.
    (2) vsfpack_inverse (full): unpacking what was packed returns the field buffers, any record count, any
        set of non-overlapping selected fields.
    (3) vs_counts_consistent (full): record count after VSwrite in M (max of old count and position / ivsize + n)
        and in S (length of the table), the offsets VSsetfields stores, and S's read-after-write on tables.
    (4) vsread_after_vswrite (two or more fields) and vsread_after_vswrite_single_field: through the model's entry
        points m_vswrite / m_vsread, for BOTH file interlaces, BOTH user interlaces on the write side and on the
        read side (cases A, B, C, D, and E for a single field), every schema, every record count, every
        transfer-buffer size before either call (any number of passes, split differently by the two calls), every
        read list (subsets, permutations): the byte VSread delivers at (record, selected field, component, byte) of
        the caller's layout is the byte VSwrite was given at (record, field, component, byte) of its caller's
        layout.  The halves are theorems of their own: vswrite_lays_out_records (the stream VSwrite produces is the
        file layout of the records) and vsread_projects_stream (VSread of ANY stream of nelt records -- hence any
        record range -- delivers the selected cells).  spec_table_cells: the table S parses from a buffer has its
        cells at the same addresses.  See the comment at the theorem for what is not mechanised.
    (5) gather_scatter_generic (full): the lemma every case reduces to -- any sequence of DFKconvert calls whose
        destination cells do not overlap moves exactly the cells it names and nothing else.
    (6) model_follows_source: the conversion-call / pointer-update skeleton of VSread and VSwrite, the field
        order of the header codec and the length bookkeeping of VSsetname / VSsetclass in the CURRENT vrw.c / vio.c /
        vg.c are the ones the model was written from.
    (7) header_size_change_is_flagged (full).
    (8) vssizeof_is_read_size, vssizeof_order_independent, vssizeof_all_fields_is_record_size (full).
    (9) spec_read_cells, spec_read_length, addresses_cover_buffer (full; S at list level, both interlaces).
    (10) vsread_after_vswrite_is_projection (full, two or more fields): the list VSread delivers = read_buf (parse ...).
    (11) vsfexist_iff_setfields, vsfexist_all_names (full).  (12) fdefine_stores_definition (full). *)
From Coq Require Import ZArith List Bool Lia.
Require Import H4.gen.Gen_VS H4.VSModel H4.VTableSpec H4.VSProofs H4.VSCodecProofs H4.VSChunkProofs H4.VSLayoutProofs H4.VSFullProofs H4.VSDeepProofs.
Import ListNotations.
Local Open Scope Z_scope.

(** (1) header codec *)
Theorem vs_pack_roundtrip : forall h, hdr_ok h ->
  m_vunpackvs (m_vpackvs h) =
  Some (mkvh (h_interlace h) (h_nvertices h) (h_ivsize h) (map renorm (h_fields h)) (h_vsname h) (h_vsclass h)
             (h_extag h) (h_exref h) (h_version h) (h_more h)).
Proof. exact vs_pack_roundtrip_lemma. Qed.
Print Assumptions vs_pack_roundtrip.

(** (2) VSfpack *)
Theorem vsfpack_inverse : forall n brs sel buf cols,
  sel_ok brs sel -> length buf = (n * brs)%nat -> length cols = length sel ->
  Forall2 (fun c os => length c = (n * Z.to_nat (snd os))%nat) cols sel ->
  m_unpack n brs sel (m_pack n brs sel buf cols) = cols.
Proof. exact vsfpack_inverse_lemma. Qed.
Print Assumptions vsfpack_inverse.

(** (3) counts *)
Theorem vs_counts_consistent :
  (forall w fil uil nelt vtb position nvert m vt r,
      m_vswrite_mem w fil uil nelt vtb position nvert m vt = Some r ->
      wr_nvert r = Z.max nvert (Z.quot position (wl_ivsize w) + nelt)) /\
  (forall (t : table) pos new, (pos <= length t)%nat ->
      length (put_rows t pos new) = Nat.max (length t) (pos + length new)) /\
  (forall (t : table) pos new i d, (pos <= length t)%nat ->
      nth i (put_rows t pos new) d =
      if (i <? pos)%nat then nth i t d else if (i <? pos + length new)%nat then nth (i - pos) new d else nth i t d) /\
  (forall (t : table) pos new fl full, (pos <= length t)%nat ->
      read_buf full fl (put_rows t pos new) pos (length new) = layout full (length fl) (project fl new)) /\
  (forall fl uj, 0 <= uj -> Forall (fun f => 0 <= w_isize f) fl -> uj + isum fl < 65536 ->
      offs_ok uj (set_offsets uj fl)).
Proof.
  exact (conj vswrite_nvert (conj put_rows_length (conj put_rows_nth (conj project_rows_put_rows set_offsets_ok)))).
Qed.
Print Assumptions vs_counts_consistent.

(** (4) read after write.
    The addresses: [saddr sd n o sz j w i b] is the address of byte b of component j (width w) of the field at
    offset o (size sz) of record i in a buffer of n records laid out as [sd] says (FULL_INTERLACE: base + o + j*w +
    i*recsize + b; NO_INTERLACE: base + n*o + j*w + i*sz + b); [buf_side il tot] is a buffer at address 0 in
    interlace il.  [foffs 0 fl] pairs every field of the schema with its offset in the writer's record, [roffs fl rl 0]
    every selected field with its offset in the reader's record.
    The list-level form -- the delivered buffer IS the specification's read_buf of the table parsed from the writer's
    buffer -- is [vsread_after_vswrite_is_projection] below (10).  Reads of a record range other than the whole of what
    one VSwrite wrote follow from [vsread_projects_stream], which holds for an arbitrary stream. *)
Theorem vsread_after_vswrite : forall w rl fil uw ur nelt vtbW pos nv ubuf r vtbR vtbR' lens out,
  Forall fld_ok (wl_fields w) -> offs_ok 0 (wl_fields w) -> wl_ivsize w = isum (wl_fields w) ->
  (2 <= length (wl_fields w))%nat -> rl_ok (wl_fields w) rl ->
  (fil = 0 \/ fil = 1) -> (uw = 0 \/ uw = 1) -> (ur = 0 \/ ur = 1) -> 0 < nelt ->
  Z.of_nat (length ubuf) = nelt * isum (wl_fields w) ->
  m_vswrite w fil uw nelt vtbW pos nv ubuf = Some r ->
  m_vsread w rl fil ur nelt vtbR (concat (wr_chunks r)) = Some (vtbR', lens, out) ->
  forall f eo uo, In (f, eo) (foffs 0 (wl_fields w)) -> In (f, uo) (roffs (wl_fields w) rl 0) ->
  forall j I b, 0 <= j < w_order f -> 0 <= I < nelt -> 0 <= b < fw f ->
    nth (Z.to_nat (saddr (buf_side ur (rsum (wl_fields w) rl)) nelt uo (w_esize f) j (fw f) I b)) out 0 =
    nth (Z.to_nat (saddr (buf_side uw (isum (wl_fields w))) nelt eo (w_esize f) j (fw f) I b)) ubuf 0.
Proof. exact vsread_after_vswrite_lemma. Qed.
Print Assumptions vsread_after_vswrite.

(** a single-field Vdata (case E on the read side; both layouts coincide): any interlace arguments *)
Theorem vsread_after_vswrite_single_field : forall w f rl fil uw ur nelt vtbW pos nv ubuf r vtbR vtbR' lens out,
  wl_fields w = [f] -> fld_ok f -> w_off f = 0 -> wl_ivsize w = w_isize f -> rl_ok [f] rl ->
  (uw = 0 \/ uw = 1) -> (ur = 0 \/ ur = 1) -> 0 < nelt -> Z.of_nat (length ubuf) = nelt * w_esize f ->
  m_vswrite w fil uw nelt vtbW pos nv ubuf = Some r ->
  m_vsread w rl fil ur nelt vtbR (concat (wr_chunks r)) = Some (vtbR', lens, out) ->
  forall j I b, 0 <= j < w_order f -> 0 <= I < nelt -> 0 <= b < fw f ->
    nth (Z.to_nat (I * w_esize f + j * fw f + b)) out 0 = nth (Z.to_nat (I * w_esize f + j * fw f + b)) ubuf 0.
Proof. exact vsread_after_vswrite_single_lemma. Qed.
Print Assumptions vsread_after_vswrite_single_field.

(** the write half: the byte strings handed to Hwrite, concatenated, are the records in the file's layout *)
Theorem vswrite_lays_out_records : forall w fil uw nelt vtb pos nv ubuf r,
  Forall fld_ok (wl_fields w) -> offs_ok 0 (wl_fields w) -> wl_ivsize w = isum (wl_fields w) ->
  (2 <= length (wl_fields w))%nat -> (fil = 0 \/ fil = 1) -> (uw = 0 \/ uw = 1) -> 0 < nelt ->
  Z.of_nat (length ubuf) = nelt * isum (wl_fields w) ->
  m_vswrite w fil uw nelt vtb pos nv ubuf = Some r ->
  length (concat (wr_chunks r)) = Z.to_nat (nelt * isum (wl_fields w)) /\
  forall f eo, In (f, eo) (foffs 0 (wl_fields w)) -> forall j I b, 0 <= j < w_order f -> 0 <= I < nelt -> 0 <= b < fw f ->
    nth (Z.to_nat (saddr (buf_side fil (isum (wl_fields w))) nelt (w_off f) (w_esize f) j (fw f) I b)) (concat (wr_chunks r)) 0 =
    nth (Z.to_nat (saddr (buf_side uw (isum (wl_fields w))) nelt eo (w_esize f) j (fw f) I
                         (ConvModel.perm (fw f) (swap_of (w_type f) (fw f)) b))) ubuf 0.
Proof. exact vswrite_image_multi. Qed.
Print Assumptions vswrite_lays_out_records.

(** the read half, for an arbitrary stream of nelt records (so: for every record range of a Vdata) *)
Theorem vsread_projects_stream : forall w rl fil ur nelt vtb data vtb' lens out,
  Forall fld_ok (wl_fields w) -> offs_ok 0 (wl_fields w) -> wl_ivsize w = isum (wl_fields w) ->
  (2 <= length (wl_fields w))%nat -> rl_ok (wl_fields w) rl -> (fil = 0 \/ fil = 1) -> (ur = 0 \/ ur = 1) -> 0 < nelt ->
  length data = Z.to_nat (nelt * isum (wl_fields w)) ->
  m_vsread w rl fil ur nelt vtb data = Some (vtb', lens, out) ->
  forall f uo, In (f, uo) (roffs (wl_fields w) rl 0) -> forall j I b, 0 <= j < w_order f -> 0 <= I < nelt -> 0 <= b < fw f ->
    nth (Z.to_nat (saddr (buf_side ur (rsum (wl_fields w) rl)) nelt uo (w_esize f) j (fw f) I b)) out 0 =
    nth (Z.to_nat (saddr (buf_side fil (isum (wl_fields w))) nelt (w_off f) (w_esize f) j (fw f) I
                         (ConvModel.perm (fw f) (swap_of (w_type f) (fw f)) b))) data 0.
Proof. exact vsread_projects_multi. Qed.
Print Assumptions vsread_projects_stream.

(** S: where the cells of the parsed table come from *)
Theorem spec_table_cells : forall full sz n buf I p k, (I < n)%nat -> (p < length sz)%nat -> (k < nth p sz 0)%nat ->
  nth k (nth p (nth I (parse full sz n buf) []) []) 0 =
  nth ((if full then I * VTableSpec.sum sz + VTableSpec.sum (firstn p sz)
        else n * VTableSpec.sum (firstn p sz) + I * nth p sz 0) + k)%nat buf 0.
Proof. exact spec_parse_cell. Qed.
Print Assumptions spec_table_cells.

(** the transfer plans: the chunk sizes both calls use are positive and add up to the record count *)
Theorem transfer_plans_cover_all_records : forall hsize nelt vtb, 0 < hsize -> 0 < nelt ->
  Forall (fun c => 0 < c) (p_chunks (write_plan hsize nelt vtb)) /\ zsum (p_chunks (write_plan hsize nelt vtb)) = nelt /\
  Forall (fun c => 0 < c) (p_chunks (read_plan hsize nelt vtb)) /\ zsum (p_chunks (read_plan hsize nelt vtb)) = nelt.
Proof.
  intros hsize nelt vtb H1 H2.
  exact (conj (proj1 (write_plan_ok hsize nelt vtb H1 H2)) (conj (proj2 (write_plan_ok hsize nelt vtb H1 H2)) (read_plan_ok hsize nelt vtb H1 H2))).
Qed.
Print Assumptions transfer_plans_cover_all_records.

(** one pass, cases C/C, at the level of the field loops *)
Theorem vsread_after_vswrite_one_pass : forall fl rl n mu vtW mw mr0 vtR mr,
  Forall fld_ok fl -> offs_ok 0 fl -> rl_ok fl rl -> 0 < n ->
  n * isum fl <= vtW -> n * rsum fl rl <= vtR ->
  wr_ec_fields fl mu vtW 0 0 n (isum fl) (isum fl) = Some mw ->
  rd_c_fields fl rl (load mr0 vtR (mem_slice mw vtW (isum fl * n))) vtR 0 0 n (isum fl) (rsum fl rl) = Some mr ->
  forall f eo uo, In (f, eo) (foffs 0 fl) -> In (f, uo) (roffs fl rl 0) ->
  forall j i b, 0 <= j < w_order f -> 0 <= i < n -> 0 <= b < fw f ->
    mr (uo + j * fw f + i * rsum fl rl + b) = mu (eo + j * fw f + i * isum fl + b).
Proof. exact rw_c_pass. Qed.
Print Assumptions vsread_after_vswrite_one_pass.

(** one pass, cases E/E: a single-field Vdata (VSread converts the whole chunk with one contiguous call) *)
Theorem vsread_after_vswrite_single_field_pass : forall f n mu vtW mw mr0 vtR mr,
  fld_ok f -> w_off f = 0 -> 0 < n ->
  n * w_isize f <= vtW -> n * w_esize f <= vtR ->
  wr_ec_fields [f] mu vtW 0 0 n (w_isize f) (w_isize f) = Some mw ->
  ConvModel.spec_convert (load mr0 vtR (mem_slice mw vtW (w_isize f * n))) vtR 0 (w_type f) (w_order f * n) 0 0 = Some mr ->
  forall j i b, 0 <= j < w_order f -> 0 <= i < n -> 0 <= b < fw f ->
    mr (j * fw f + i * w_esize f + b) = mu (j * fw f + i * w_isize f + b).
Proof. exact rw_e_pass. Qed.
Print Assumptions vsread_after_vswrite_single_field_pass.

(** the two halves separately, with existence of the results and the frame (nothing else is touched) *)
Theorem vswrite_pass_fills_records : forall fl m vt P n isz hs,
  Forall fld_ok fl -> offs_ok 0 fl -> isum fl <= isz -> isum fl <= hs -> 0 < n ->
  (P + n * isz <= vt \/ vt + n * hs <= P) ->
  exists m', wr_ec_fields fl m vt P 0 n isz hs = Some m' /\
    (forall f eo, In (f, eo) (foffs 0 fl) -> forall j i b, 0 <= j < w_order f -> 0 <= i < n -> 0 <= b < fw f ->
       m' (vt + w_off f + j * fw f + i * hs + b) =
       m (P + eo + j * fw f + i * isz + ConvModel.perm (fw f) (swap_of (w_type f) (fw f)) b)) /\
    (forall a, (a < vt \/ vt + n * hs <= a) -> m' a = m a).
Proof. exact wr_c_spec. Qed.
Print Assumptions vswrite_pass_fills_records.

Theorem vsread_pass_projects : forall fl rl m vt P n hs uv,
  Forall fld_ok fl -> offs_ok 0 fl -> rl_ok fl rl -> rsum fl rl <= uv -> isum fl <= hs -> 0 < n ->
  (vt + n * hs <= P \/ P + n * uv <= vt) ->
  exists m', rd_c_fields fl rl m vt P 0 n hs uv = Some m' /\
    (forall f uo, In (f, uo) (roffs fl rl 0) -> forall j i b, 0 <= j < w_order f -> 0 <= i < n -> 0 <= b < fw f ->
       m' (P + uo + j * fw f + i * uv + b) =
       m (vt + w_off f + j * fw f + i * hs + ConvModel.perm (fw f) (swap_of (w_type f) (fw f)) b)) /\
    (forall a, (a < P \/ P + n * uv <= a) -> m' a = m a).
Proof. exact rd_c_spec. Qed.
Print Assumptions vsread_pass_projects.

(** (5) the generic gather / scatter lemma *)
Theorem gather_scatter_generic : forall cs m n slo shi dlo dhi,
  0 < n -> (shi <= dlo \/ dhi <= slo) ->
  Forall (comp_ok n slo shi dlo dhi) cs -> no_overlap n cs ->
  exists m', run_comps m cs n = Some m' /\
    (forall c, In c cs -> forall i b, 0 <= i < n -> 0 <= b < kw c ->
        m' (k_q c + i * k_sq c + b) = m (k_p c + i * k_sp c + ConvModel.perm (kw c) (swap_of (k_nt c) (kw c)) b)) /\
    (forall a, (forall c, In c cs -> ~ dst_cell c n a) -> m' a = m a).
Proof. exact run_comps_spec. Qed.
Print Assumptions gather_scatter_generic.

(** (6) the model follows the current source *)
Theorem model_follows_source :
  VSwrite_skeleton = VSwrite_skeleton_modelled /\ VSread_skeleton = VSread_skeleton_modelled /\
  vpackvs_order = vpackvs_order_modelled /\ vunpackvs_order = vunpackvs_order_modelled /\
  VSsetname_len_stmts = VSsetname_len_stmts_modelled /\ VSsetclass_len_stmts = VSsetclass_len_stmts_modelled /\
  VSsizeof_stmts = VSsizeof_stmts_modelled /\ VSfexist_stmts = VSfexist_stmts_modelled /\
  VSfdefine_stmts = VSfdefine_stmts_modelled.
Proof. exact model_follows_source_lemma. Qed.
Print Assumptions model_follows_source.

(** (7) header size: whenever VSsetclass / VSsetname change the size of the packed header (vpackvs) -- longer OR shorter --
    they leave the flag set that makes VSdetach release the old header element before writing the new one (the header is
    decoded from both ends of the element: vunpackvs reads version / more at len - 5, so a longer old element must not
    be rewritten in place); the comparison is with the CURRENT string of the same kind (statements of vg.c tied by
    model_follows_source, condition regenerated) *)
Theorem header_size_change_is_flagged :
  (forall il nv ivs fl nm c et er v mo c' flag, Z.of_nat (length c) <= VSNAMELENMAX ->
     length (m_vpackvs (mkvh il nv ivs fl nm c et er v mo)) <>
     length (m_vpackvs (mkvh il nv ivs fl nm (fst (m_setclass c c' flag)) et er v mo)) ->
     snd (m_setclass c c' flag) = true) /\
  (forall il nv ivs fl nm c et er v mo n' flag, Z.of_nat (length nm) <= VSNAMELENMAX ->
     length (m_vpackvs (mkvh il nv ivs fl nm c et er v mo)) <>
     length (m_vpackvs (mkvh il nv ivs fl (fst (m_setname nm n' flag)) c et er v mo)) ->
     snd (m_setname nm n' flag) = true) /\
  (forall grow cur new flag, Z.of_nat (length (fst (m_setstr grow cur new flag))) <= VSNAMELENMAX).
Proof. exact (conj setclass_flags_change (conj setname_flags_change setstr_bounded)). Qed.
Print Assumptions header_size_change_is_flagged.
Example ex_header_grows : snd (m_setclass [114;97;119] [99;97;108;105;98] false) = true /\
  snd (m_setclass [99;97;108;105;98] [114;97;119] false) = true /\ snd (m_setclass [114;97;119] [99;97;108] false) = false /\ fst (m_setname [] (repeat 65 70) false) = repeat 65 64.
Proof. vm_compute. repeat split. Qed.

(** Non-vacuity: concrete, non-trivial states meeting the hypotheses *)
Definition ex_fl : list wfield :=
  [mkwf [65] DFNT_INT32 4 4 1 0; mkwf [66] DFNT_INT16 4 4 2 4; mkwf [67] (Z.lor DFNT_LITEND DFNT_FLOAT64) 8 8 1 8].
Example ex_fl_ok : Forall fld_ok ex_fl /\ offs_ok 0 ex_fl /\ rl_ok ex_fl [2; 0] /\ isum ex_fl = 16 /\ rsum ex_fl [2; 0] = 12.
Proof.
  split; [|split; [|split; [|split]]]; try (vm_compute; tauto).
  - repeat constructor; [exists 4|exists 2|exists 8]; vm_compute; intuition discriminate.
  - repeat constructor; eexists; vm_compute; reflexivity.
Qed.
(** the model run on a 2-record buffer: 16-byte records in (case C), fields C and A out record-major (case C, the
    proved case) and field-major (case A) *)
Example ex_write_read :
  let w := mkwl ex_fl 16 in
  let ubuf := map Z.of_nat (seq 1 32) in
  match m_vswrite w FULL_INTERLACE FULL_INTERLACE 2 0 0 0 ubuf with
  | Some r => wr_nvert r = 2 /\ wr_vtb r = 48 /\
              concat (wr_chunks r) = [4;3;2;1; 6;5;8;7; 9;10;11;12;13;14;15;16; 20;19;18;17; 22;21;24;23; 25;26;27;28;29;30;31;32] /\
              m_vsread w [2; 0] FULL_INTERLACE FULL_INTERLACE 2 48 (concat (wr_chunks r)) =
                Some (48, [32], [9;10;11;12;13;14;15;16; 1;2;3;4; 25;26;27;28;29;30;31;32; 17;18;19;20]) /\
              m_vsread w [2; 0] FULL_INTERLACE NO_INTERLACE 2 48 (concat (wr_chunks r)) =
                Some (48, [32], [9;10;11;12;13;14;15;16; 25;26;27;28;29;30;31;32; 1;2;3;4; 17;18;19;20])
  | None => False
  end.
Proof. vm_compute. repeat split. Qed.
(** ... and the specification says the same *)
Example ex_spec_agrees :
  let sz := [4; 4; 8]%nat in
  let ubuf := map Z.of_nat (seq 1 32) in
  read_buf true [2; 0]%nat (put_rows [] 0 (parse true sz 2 ubuf)) 0 2 =
    [9;10;11;12;13;14;15;16; 1;2;3;4; 25;26;27;28;29;30;31;32; 17;18;19;20] /\
  read_buf false [2; 0]%nat (put_rows [] 0 (parse true sz 2 ubuf)) 0 2 =
    [9;10;11;12;13;14;15;16; 25;26;27;28;29;30;31;32; 1;2;3;4; 17;18;19;20].
Proof. vm_compute. split; reflexivity. Qed.
Example ex_hdr_ok : hdr_ok (mkvh 0 2 16 ex_fl [86] [] 0 0 VSET_VERSION 0).
Proof.
  unfold hdr_ok, ex_fl. cbn.
  repeat split; try (vm_compute; intuition discriminate); try lia;
  repeat constructor; cbn; try lia; try (vm_compute; intuition discriminate).
Qed.
Example ex_sel_ok : sel_ok 6 [(0, 2); (2, 4)].
Proof. exact sel_ok_two_fields. Qed.
(** file NO_INTERLACE: written from a record-major buffer (case D), read back field-major (case B) and record-major (case D) *)
Example ex_write_read_file_none :
  let w := mkwl ex_fl 16 in
  let ubuf := map Z.of_nat (seq 1 32) in
  match m_vswrite w NO_INTERLACE FULL_INTERLACE 2 0 0 0 ubuf with
  | Some r => concat (wr_chunks r) = [4;3;2;1; 20;19;18;17; 6;5;8;7; 22;21;24;23; 9;10;11;12;13;14;15;16; 25;26;27;28;29;30;31;32] /\
              m_vsread w [2; 0] NO_INTERLACE NO_INTERLACE 2 0 (concat (wr_chunks r)) =
                Some (32, [32], [9;10;11;12;13;14;15;16; 25;26;27;28;29;30;31;32; 1;2;3;4; 17;18;19;20]) /\
              m_vsread w [2; 0] NO_INTERLACE FULL_INTERLACE 2 0 (concat (wr_chunks r)) =
                Some (32, [32], [9;10;11;12;13;14;15;16; 1;2;3;4; 25;26;27;28;29;30;31;32; 17;18;19;20])
  | None => False
  end.
Proof. vm_compute. repeat split. Qed.
Example ex_plans : p_chunks (write_plan 60000 40 0) = [17; 17; 6] /\ p_chunks (read_plan 60000 40 1020000) = [17; 17; 6] /\
  p_chunks (read_plan 16 3 64) = [3].
Proof. vm_compute. repeat split. Qed.
Example ex_comps_nonempty : length (wr_c_comps ex_fl 100 0 0 16 16) = 4%nat /\ length (rd_c_comps ex_fl [2; 0] 100 0 0 16 12) = 2%nat.
Proof. vm_compute. split; reflexivity. Qed.

(** (8) VSsizeof: for EVERY field list (subsets, permutations, repetitions, unknown names) VSsizeof(fields) is the size of one
    record of the buffer VSread fills after VSsetfields(fields) -- both fail together --; it does not depend on the order
    of the names; for the NULL list it is the whole record.  (The size added for a name is that of the MATCHING field:
    statement [totalsize += vs->wlist.esize[j]] tied by model_follows_source.) *)
Theorem vssizeof_is_read_size : forall fl names,
  m_vssizeof fl (Some names) =
  match m_setfields_r (map w_name fl) names with Some rl => uvsize_of fl rl | None => None end.
Proof. exact vssizeof_is_read_size_lemma. Qed.
Print Assumptions vssizeof_is_read_size.
Theorem vssizeof_order_independent : forall fl rl rl', Permutation.Permutation rl rl' -> rl_ok fl rl -> rsum fl rl = rsum fl rl'.
Proof. exact rsum_perm. Qed.
Print Assumptions vssizeof_order_independent.
Theorem vssizeof_all_fields_is_record_size : forall fl, Forall fld_ok fl -> m_vssizeof fl None = Some (isum fl).
Proof. exact vssizeof_all_fields. Qed.
Print Assumptions vssizeof_all_fields_is_record_size.
Example ex_sizeof : m_vssizeof ex_fl (Some [[67]; [65]]) = Some 12 /\ m_vssizeof ex_fl (Some [[65]; [67]]) = Some 12 /\
  m_vssizeof ex_fl (Some [[66]; [66]]) = Some 8 /\ m_vssizeof ex_fl (Some [[65]; [90]]) = None /\ m_vssizeof ex_fl None = Some 16.
Proof. vm_compute. repeat split. Qed.

(** (9) S, list level: what read_buf delivers, cell by cell and in total, for BOTH buffer interlaces, every table of n
    records whose selected values have the sizes ss, every read list rl (subsets, permutations, repetitions): byte k of
    the p-th selected field of record I sits at address
        I * recsize + off_p + k   (FULL_INTERLACE)      n * off_p + I * size_p + k   (NO_INTERLACE),   off_p = sum of the sizes before p,
    the delivered buffer has n * recsize bytes, and every position of it is such an address -- so these cells determine the
    whole list (used by (10)). *)
Theorem spec_read_cells : forall full T n rl ss I p k, shaped T n rl ss -> (I < n)%nat -> (p < length rl)%nat -> (k < nth p ss 0)%nat ->
  nth (addrN full (VTableSpec.sum ss) n (VTableSpec.sum (firstn p ss)) (nth p ss 0%nat) I k) (read_buf full rl T 0 n) 0 =
  nth k (nth (nth p rl 0%nat) (nth I T []) []) 0.
Proof. exact read_buf_cell. Qed.
Print Assumptions spec_read_cells.
Theorem spec_read_length : forall full T n rl ss, shaped T n rl ss -> length (read_buf full rl T 0 n) = (n * VTableSpec.sum ss)%nat.
Proof. exact read_buf_length. Qed.
Print Assumptions spec_read_length.
Theorem addresses_cover_buffer : forall full ss n a, (a < n * VTableSpec.sum ss)%nat ->
  exists I p k, (I < n)%nat /\ (p < length ss)%nat /\ (k < nth p ss 0)%nat /\
                a = addrN full (VTableSpec.sum ss) n (VTableSpec.sum (firstn p ss)) (nth p ss 0%nat) I k.
Proof. exact addrN_onto. Qed.
Print Assumptions addresses_cover_buffer.
Example ex_shaped : shaped (parse false [4; 4; 8]%nat 2 (map Z.of_nat (seq 1 32))) 2 [2; 0]%nat [8; 4]%nat /\
  nth (addrN false 12 2 8 4 1 2) (read_buf false [2; 0]%nat (parse false [4; 4; 8]%nat 2 (map Z.of_nat (seq 1 32))) 0 2) 0 = 7.
Proof.
  split; [|vm_compute; reflexivity].
  split; [reflexivity|]. split; [reflexivity|].
  intros I p HI Hp. destruct I as [|[|I]]; [| |lia]; destruct p as [|[|p]]; try (cbn in Hp; lia); vm_compute; reflexivity.
Qed.

(** (10) READ AFTER WRITE AGAINST THE SPECIFICATION, full strength for Vdatas of two or more fields: for every well-formed
    write list, both file interlaces, both user interlaces on the write side and on the read side, every read list of valid
    indices (subsets, permutations, repetitions), every record count, every transfer-buffer size before either call:
    the list VSread delivers is exactly  read_buf ur rl (parse uw sizes nelt ubuf) 0 nelt  of VTableSpec.v -- the
    projection of the table the specification reads out of the writer's buffer. *)
Theorem vsread_after_vswrite_is_projection : forall w rl fil uw ur nelt vtbW pos nv ubuf r vtbR vtbR' lens out,
  Forall fld_ok (wl_fields w) -> offs_ok 0 (wl_fields w) -> wl_ivsize w = isum (wl_fields w) ->
  (2 <= length (wl_fields w))%nat -> rl_ok (wl_fields w) rl ->
  (fil = 0 \/ fil = 1) -> (uw = 0 \/ uw = 1) -> (ur = 0 \/ ur = 1) -> 0 < nelt ->
  Z.of_nat (length ubuf) = nelt * isum (wl_fields w) ->
  m_vswrite w fil uw nelt vtbW pos nv ubuf = Some r ->
  m_vsread w rl fil ur nelt vtbR (concat (wr_chunks r)) = Some (vtbR', lens, out) ->
  out = read_buf (ur =? FULL_INTERLACE) (rlN_of rl)
                 (parse (uw =? FULL_INTERLACE) (szs_of (wl_fields w)) (Z.to_nat nelt) ubuf) 0 (Z.to_nat nelt).
Proof. exact vsread_after_vswrite_lists_lemma. Qed.
Print Assumptions vsread_after_vswrite_is_projection.
(** the instance of ex_write_read_file_none / ex_spec_agrees: hypotheses met, both sides computed *)
Example ex_projection :
  let w := mkwl ex_fl 16 in
  let ubuf := map Z.of_nat (seq 1 32) in
  rlN_of [2; 0] = [2; 0]%nat /\ szs_of ex_fl = [4; 4; 8]%nat /\ Z.of_nat (length ubuf) = 2 * isum ex_fl /\
  read_buf (1 =? FULL_INTERLACE) (rlN_of [2; 0]) (parse (0 =? FULL_INTERLACE) (szs_of ex_fl) (Z.to_nat 2) ubuf) 0 (Z.to_nat 2) =
    [9;10;11;12;13;14;15;16; 25;26;27;28;29;30;31;32; 1;2;3;4; 17;18;19;20].
Proof. vm_compute. repeat split. Qed.

(** (11) VSfexist: for every list of names the answer "all exist" is given exactly when VSsetfields accepts the same list for
    reading, and then EVERY name of the list is the name of a field (not only the last one searched). *)
Theorem vsfexist_iff_setfields : forall fl names,
  m_vsfexist fl names = match m_setfields_r (map w_name fl) names with Some _ => true | None => false end.
Proof. exact vsfexist_iff_setfields_lemma. Qed.
Print Assumptions vsfexist_iff_setfields.
Theorem vsfexist_all_names : forall fl names, m_vsfexist fl names = true ->
  forall nm, In nm names -> exists f, In f fl /\ VSModel.name_eqb (VSModel.cut_name nm) (w_name f) = true.
Proof. exact vsfexist_all_names_lemma. Qed.
Print Assumptions vsfexist_all_names.
Example ex_fexist : m_vsfexist ex_fl [[67]; [65]] = true /\ m_vsfexist ex_fl [[90]; [65]] = false /\ m_vsfexist ex_fl [[65]; [90]] = false.
Proof. vm_compute. repeat split. Qed.

(** (12) VSfdefine: whether the name is new or defined again, the symbol table afterwards holds under that name exactly the
    new definition -- number type, order AND the stored element size of the NEW type (so VSsetfields computes isize,
    offsets and record size from the new type) *)
Theorem fdefine_stores_definition : forall usym name t order usym',
  m_fdefine usym name t order = Some usym' ->
  exists sz, dfkntsize t = Some sz /\
    find_sym (VSModel.cut_name name) usym' = Some (mksym (VSModel.cut_name name) (s16 t) (u16 (s16 sz)) (u16 order)).
Proof. exact fdefine_stores_definition_lemma. Qed.
Print Assumptions fdefine_stores_definition.
Example ex_redefine :
  match m_fdefine [mksym [97] DFNT_INT8 1 1; mksym [98] DFNT_INT16 2 1] [97] DFNT_INT32 2 with
  | Some u => u = [mksym [97] DFNT_INT32 4 2; mksym [98] DFNT_INT16 2 1] /\
              option_map (fun w => (wl_ivsize w, map w_isize (wl_fields w), map w_off (wl_fields w))) (m_setfields_w u [[97]; [98]]) = Some (10, [8; 2], [0; 8])
  | None => False end.
Proof. vm_compute. repeat split. Qed.
