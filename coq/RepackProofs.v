(** C18 -- proofs about the hrepack model (RepackModel.v) and specification (RepackSpec.v). *)
From Coq Require Import ZArith List Bool Lia.
Require Import H4.gen.Gen_Repack H4.RepackSpec H4.RepackModel.
Import ListNotations.
Local Open Scope Z_scope.

(** * Induction over content trees (nested through [list]) *)
Section node_induction.
  Variable P : node -> Prop.
  Hypothesis H : forall k n c i ch, Forall P ch -> P (Node k n c i ch).
  Fixpoint node_ind' (t : node) : P t :=
    match t with
    | Node k n c i ch =>
        H k n c i ch ((fix go (l : list node) : Forall P l :=
                         match l with
                         | [] => Forall_nil P
                         | x :: r => Forall_cons x (node_ind' x) (go r)
                         end) ch)
    end.
End node_induction.

(** * Content preservation: any re-assignment of layouts keeps the content tree *)
Lemma map_layout_content : forall f t prefix, content_of (map_layout f prefix t) = content_of t.
Proof.
  intros f t. induction t as [k n c i ch IH] using node_ind'. intro prefix.
  assert (E : forall pf, map content_of (map (map_layout f pf) ch) = map content_of ch).
  { intro pf. rewrite map_map. apply map_ext_in. intros a Ha.
    rewrite Forall_forall in IH. apply IH. exact Ha. }
  destruct k; simpl; rewrite E; reflexivity.
Qed.

Lemma repack_preserves_content_lemma : forall o t t', repack o t = Some t' -> content_of t' = content_of t.
Proof.
  intros o t t' Hr. unfold repack in Hr.
  destruct (options_consistent o && names_ok o t && decisions_ok o None t); [|discriminate].
  inversion Hr; subst. apply map_layout_content.
Qed.

Lemma repack_idempotent_content_lemma : forall o1 o2 t t1 t2,
  repack o1 t = Some t1 -> repack o2 t1 = Some t2 -> content_of t2 = content_of t.
Proof.
  intros. rewrite (repack_preserves_content_lemma _ _ _ H0). apply (repack_preserves_content_lemma _ _ _ H).
Qed.

(** * The layout decision: the request is honoured whenever it is applicable *)
Definition tbl_req_comp (o : options) (p : str) : option compinfo :=
  if all_comp o then Some (comp_g o)
  else match lookup p (tbl o) with Some e => Some (p_comp e) | None => None end.

Ltac zb :=
  repeat match goal with
  | H : (_ =? _) = true |- _ => apply Z.eqb_eq in H
  | H : (_ =? _) = false |- _ => apply Z.eqb_neq in H
  | H : (_ <? _) = true |- _ => apply Z.ltb_lt in H
  | H : (_ <? _) = false |- _ => apply Z.ltb_ge in H
  | H : (_ <=? _) = true |- _ => apply Z.leb_le in H
  | H : (_ <=? _) = false |- _ => apply Z.leb_gt in H
  | H : _ && _ = true |- _ => apply andb_true_iff in H; destruct H
  | H : _ || _ = false |- _ => apply orb_false_iff in H; destruct H
  | H : negb _ = true |- _ => apply negb_true_iff in H
  | H : negb _ = false |- _ => apply negb_false_iff in H
  end.

Lemma str_eqb_refl : forall a, str_eqb a a = true.
Proof. induction a; simpl; [reflexivity|]. rewrite Z.eqb_refl. exact IHa. Qed.

Definition flags_std (f : Z) : Prop := f = 0 \/ f = 1 \/ f = 3.

Lemma flags_of_std : forall l, flags_std (flags_of l).
Proof. intro l. unfold flags_of, flags_std. destruct (l_chunk l); [destruct (0 <? l_comp l)|]; vm_compute; auto. Qed.

(** the state after "the compression goes into the chunk definition" *)
Definition comp_applied (c : compinfo) (g1 g' : gstate) : Prop :=
  g_comp g' = c_type c /\ g_info g' = c_info c /\ g_lens g' = g_lens g1 /\
  (flags_chunked (g_flags g1) = true ->
     g_flags g' = 3 /\ g_ctype g' = c_type c /\ (has_param (c_type c) = true -> g_cinfo g' = c_info c)) /\
  (flags_chunked (g_flags g1) = false -> g_flags g' = g_flags g1).

Lemma cic_applied : forall g1 c, comp_applied c g1 (comp_into_chunk (set_comp g1 c)).
Proof.
  intros g1 c. unfold comp_applied, comp_into_chunk, set_comp. simpl.
  destruct (flags_chunked (g_flags g1)) eqn:E; simpl.
  - split; [reflexivity|]. split; [reflexivity|]. split; [reflexivity|]. split.
    + intros _. split; [reflexivity|]. split; [reflexivity|]. intro Hp. rewrite Hp. reflexivity.
    + intro; discriminate.
  - split; [reflexivity|]. split; [reflexivity|]. split; [reflexivity|]. split.
    + intro; discriminate.
    + intros _. reflexivity.
Qed.

Definition chunk_stage (g g1 : gstate) : Prop :=
  (g_flags g1 = 0 \/ g_flags g1 = 1 \/ g_flags g1 = g_flags g).

Lemma global_chunk_stage : forall o rank g, chunk_stage g (global_chunk o rank g).
Proof.
  intros. unfold chunk_stage, global_chunk, set_flags, set_chunk.
  destruct (k_rank (chunk_g o) =? -2); simpl; auto.
  destruct (negb (k_rank (chunk_g o) =? rank)); simpl; auto.
Qed.

Lemma entry_chunk_stage : forall e rank g g1, entry_chunk e rank g = Some g1 -> chunk_stage g g1.
Proof.
  intros e rank g g1. unfold entry_chunk, chunk_stage, set_flags, set_chunk.
  destruct ((0 <? k_rank (p_chunk e)) && negb (k_rank (p_chunk e) =? rank)); [discriminate|].
  intro H; inversion H; subst; clear H.
  destruct (k_rank (p_chunk e) =? -2); simpl; auto.
  destruct (0 <? k_rank (p_chunk e)); simpl; auto.
Qed.

(** options_get_info with a compression request in force: the request is in the state, and in the chunk definition
    whenever the object is (or is going to be) chunked *)
Lemma get_info_comp : forall o rank p g c g' have,
  tbl_req_comp o p = Some c -> 0 <= c_type c ->
  get_info o rank p g = Some (g', have) ->
  exists g1, chunk_stage g g1 /\ comp_applied c g1 g'.
Proof.
  intros o rank p g c g' have Hreq Hc Hg.
  unfold tbl_req_comp in Hreq. unfold get_info in Hg.
  destruct (all_chunk o) eqn:Eck; destruct (all_comp o) eqn:Ecp; simpl in Hg.
  - (* case 4 *) inversion Hreq; subst. inversion Hg; subst.
    eexists; split; [apply global_chunk_stage | apply cic_applied].
  - (* case 1 *) destruct (lookup p (tbl o)) as [e|] eqn:El; [|discriminate].
    inversion Hreq; subst. inversion Hg; subst.
    eexists; split; [apply global_chunk_stage | apply cic_applied].
  - (* case 3 *) inversion Hreq; subst.
    destruct (lookup p (tbl o)) as [e|] eqn:El.
    + destruct (entry_chunk e rank g) as [g1|] eqn:Ee; [|discriminate]. inversion Hg; subst.
      eexists; split; [eapply entry_chunk_stage; eauto | apply cic_applied].
    + inversion Hg; subst. exists g. split; [unfold chunk_stage; auto | apply cic_applied].
  - (* case 2 *) destruct (lookup p (tbl o)) as [e|] eqn:El; [|discriminate].
    inversion Hreq; subst.
    destruct (entry_chunk e rank g) as [g1|] eqn:Ee; [|discriminate].
    assert (E : (0 <=? c_type (p_comp e)) = true) by (apply Z.leb_le; exact Hc).
    rewrite E in Hg. inversion Hg; subst.
    eexists; split; [eapply entry_chunk_stage; eauto | apply cic_applied].
Qed.

Lemma lossless_cases : forall t, lossless_request t = true -> t = 0 \/ t = 1 \/ t = 3 \/ t = 4.
Proof.
  intros t H. unfold lossless_request in H.
  unfold COMP_CODE_NONE, COMP_CODE_RLE, COMP_CODE_SKPHUFF, COMP_CODE_DEFLATE in H.
  destruct (t =? 0) eqn:E0; zb; auto. destruct (t =? 1) eqn:E1; zb; auto.
  destruct (t =? 3) eqn:E3; zb; auto. destruct (t =? 4) eqn:E4; zb; auto. discriminate.
Qed.

Lemma sds_finish_comp : forall o i g g1 g' have c l,
  flags_std (g_flags g) -> chunk_stage g g1 -> comp_applied c g1 g' ->
  lossless_request (c_type c) = true -> threshold o <= o_bytes i ->
  sds_finish o i g' have = Some l ->
  l_comp l = c_type c /\ l_info l = obs_info (c_type c) (c_info c).
Proof.
  intros o i g g1 g' have c l Hstd Hst [Hc [Hi [Hl [Hch Hnc]]]] Hll Hth Hf.
  apply lossless_cases in Hll.
  unfold sds_finish in Hf.
  assert (Hr : truth (sds_restore_cond (b2z have) 1 (o_bytes i) 1 (threshold o)) = false).
  { unfold sds_restore_cond, truth. rewrite Z.mul_1_r.
    assert (E : (o_bytes i <? threshold o) = false) by (apply Z.ltb_ge; lia). rewrite E.
    destruct have; vm_compute; reflexivity. }
  rewrite Hr in Hf.
  assert (Hsm : truth (sds_small_cond (o_bytes i) 1 (threshold o)) = false).
  { unfold sds_small_cond, truth. rewrite Z.mul_1_r.
    assert (E : (o_bytes i <? threshold o) = false) by (apply Z.ltb_ge; lia). rewrite E. reflexivity. }
  rewrite Hsm in Hf.
  assert (Hfl : flags_std (g_flags g1)).
  { unfold chunk_stage in Hst. unfold flags_std in *. intuition lia. }
  unfold flags_chunked in Hch, Hnc. unfold HDF_CHUNK, HDF_COMP in *.
  replace (Z.lor 1 3) with 3 in * by reflexivity.
  unfold sds_chunk_branch, sds_comp_branch, sds_record_cond, truth, chunked_layout, none_layout, obs_info in *.
  unfold COMP_CODE_NONE, COMP_CODE_SKPHUFF, COMP_CODE_DEFLATE, COMP_CODE_JPEG, COMP_CODE_NBIT, HDF_CHUNK in *.
  replace (Z.lor 1 3) with 3 in * by reflexivity.
  rewrite Hc, Hi in Hf.
  destruct Hfl as [F|[F|F]]; rewrite F in *; simpl in Hch, Hnc.
  - (* not chunked *) specialize (Hnc eq_refl). rewrite Hnc in Hf. simpl in Hf.
    destruct Hll as [T|[T|[T|T]]]; rewrite T in *; simpl in Hf;
      destruct (b2z (l_rec (o_lay i)) =? 0); simpl in Hf; inversion Hf; subst; simpl; auto.
  - destruct (Hch eq_refl) as [F3 [Ht Hp]]. rewrite F3 in Hf. simpl in Hf.
    destruct Hll as [T|[T|[T|T]]]; rewrite T in *; simpl in Hf;
      destruct (b2z (l_rec (o_lay i)) =? 0); simpl in Hf; inversion Hf; subst; simpl; rewrite ?Ht; simpl; auto;
      split; auto; rewrite Hp; auto.
  - destruct (Hch eq_refl) as [F3 [Ht Hp]]. rewrite F3 in Hf. simpl in Hf.
    destruct Hll as [T|[T|[T|T]]]; rewrite T in *; simpl in Hf;
      destruct (b2z (l_rec (o_lay i)) =? 0); simpl in Hf; inversion Hf; subst; simpl; rewrite ?Ht; simpl; auto;
      split; auto; rewrite Hp; auto.
Qed.

Lemma gr_finish_comp : forall o i g g1 g' have c l,
  flags_std (g_flags g) -> chunk_stage g g1 -> comp_applied c g1 g' ->
  lossless_request (c_type c) = true -> threshold o <= o_bytes i ->
  gr_finish o i g' have = Some l ->
  l_comp l = c_type c /\ l_info l = obs_info (c_type c) (c_info c).
Proof.
  intros o i g g1 g' have c l Hstd Hst [Hc [Hi [Hl [Hch Hnc]]]] Hll Hth Hf.
  apply lossless_cases in Hll.
  unfold gr_finish in Hf.
  assert (Hr : truth (gr_restore_cond (b2z have) 1 (o_bytes i) 1 (threshold o)) = false).
  { unfold gr_restore_cond, truth. rewrite Z.mul_1_r.
    assert (E : (o_bytes i <? threshold o) = false) by (apply Z.ltb_ge; lia). rewrite E.
    destruct have; vm_compute; reflexivity. }
  rewrite Hr in Hf.
  assert (Hsm : truth (gr_small_cond (b2z have) 1 (o_bytes i) 1 (threshold o)) = false).
  { unfold gr_small_cond, truth. rewrite Z.mul_1_r.
    assert (E : (o_bytes i <? threshold o) = false) by (apply Z.ltb_ge; lia). rewrite E.
    destruct have; vm_compute; reflexivity. }
  rewrite Hsm in Hf.
  assert (Hfl : flags_std (g_flags g1)).
  { unfold chunk_stage in Hst. unfold flags_std in *. intuition lia. }
  unfold flags_chunked in *. unfold HDF_CHUNK, HDF_COMP in *.
  replace (Z.lor 1 3) with 3 in * by reflexivity.
  unfold gr_comp_branch, truth, chunked_layout, none_layout, obs_info in *.
  unfold COMP_CODE_NONE, COMP_CODE_SKPHUFF, COMP_CODE_DEFLATE, HDF_CHUNK in *.
  rewrite Hc, Hi in Hf.
  destruct Hfl as [F|[F|F]]; rewrite F in *; simpl in Hch, Hnc.
  - specialize (Hnc eq_refl). rewrite Hnc in Hf. simpl in Hf.
    destruct Hll as [T|[T|[T|T]]]; rewrite T in *; simpl in Hf; inversion Hf; subst; simpl; auto.
  - destruct (Hch eq_refl) as [F3 [Ht Hp]]. rewrite F3 in Hf. simpl in Hf.
    destruct Hll as [T|[T|[T|T]]]; rewrite T in *; simpl in Hf; inversion Hf; subst; simpl; rewrite ?Ht; simpl; auto;
      split; auto; rewrite Hp; auto.
  - destruct (Hch eq_refl) as [F3 [Ht Hp]]. rewrite F3 in Hf. simpl in Hf.
    destruct Hll as [T|[T|[T|T]]]; rewrite T in *; simpl in Hf; inversion Hf; subst; simpl; rewrite ?Ht; simpl; auto;
      split; auto; rewrite Hp; auto.
Qed.

Lemma gstate_of_std : forall l, flags_std (g_flags (gstate_of l)).
Proof. intro l. simpl. apply flags_of_std. Qed.

Lemma decide_requested_comp_lemma : forall o k p i c l,
  (k = KSds \/ k = KGr) ->
  tbl_req_comp o p = Some c -> lossless_request (c_type c) = true ->
  o_empty i = false -> threshold o <= o_bytes i ->
  decide o k p i = Some l ->
  l_comp l = c_type c /\ l_info l = obs_info (c_type c) (c_info c).
Proof.
  intros o k p i c l Hk Hreq Hll Hne Hth Hd.
  assert (Hc0 : 0 <= c_type c) by (apply lossless_cases in Hll; lia).
  destruct Hk; subst k; simpl in Hd.
  - unfold decide_sds in Hd. rewrite Hne in Hd.
    destruct (get_info o (o_rank i) p (gstate_of (o_lay i))) as [[g' have]|] eqn:Eg; [|discriminate].
    destruct (get_info_comp _ _ _ _ _ _ _ Hreq Hc0 Eg) as [g1 [Hst Hap]].
    eapply sds_finish_comp; eauto. apply gstate_of_std.
  - unfold decide_gr in Hd.
    destruct (get_info o 2 p (gstate_of (o_lay i))) as [[g' have]|] eqn:Eg; [|discriminate].
    destruct (get_info_comp _ _ _ _ _ _ _ Hreq Hc0 Eg) as [g1 [Hst Hap]].
    eapply gr_finish_comp; eauto. apply gstate_of_std.
Qed.

(** * Chunking requests *)
Definition tbl_req_chunk (o : options) (p : str) : option chunkinfo :=
  if all_chunk o then Some (chunk_g o)
  else match lookup p (tbl o) with Some e => Some (p_chunk e) | None => None end.

Definition tbl_named (o : options) (p : str) : bool :=
  match lookup p (tbl o) with Some _ => true | None => false end.

Definition chunk_applied (kq : chunkinfo) (rank : Z) (g' : gstate) : Prop :=
  (k_rank kq = -2 -> g_flags g' = 0) /\
  (k_rank kq = rank -> 0 < rank ->
     flags_chunked (g_flags g') = true /\ g_lens g' = firstn (Z.to_nat rank) (k_lens kq)).

Lemma cic_keeps_chunk : forall kq rank g1 c,
  chunk_applied kq rank g1 -> chunk_applied kq rank (comp_into_chunk (set_comp g1 c)).
Proof.
  intros kq rank g1 c [H1 H2]. unfold chunk_applied, comp_into_chunk, set_comp. simpl.
  destruct (flags_chunked (g_flags g1)) eqn:E; simpl.
  - split.
    + intro Hk. specialize (H1 Hk). rewrite H1 in E. vm_compute in E. discriminate.
    + intros Hk Hr. destruct (H2 Hk Hr) as [_ Hl]. split; [reflexivity | exact Hl].
  - split; [exact H1|]. intros Hk Hr. destruct (H2 Hk Hr) as [Hf _]. rewrite Hf in E. discriminate.
Qed.

Lemma global_chunk_applied : forall o rank g, chunk_applied (chunk_g o) rank (global_chunk o rank g).
Proof.
  intros. unfold chunk_applied, global_chunk. split.
  - intro Hk. rewrite Hk. reflexivity.
  - intros Hk Hr. rewrite Hk.
    assert (E1 : (rank =? -2) = false) by (apply Z.eqb_neq; lia). rewrite E1.
    rewrite Z.eqb_refl. simpl. split; reflexivity.
Qed.

Lemma entry_chunk_applied : forall e rank g g1, entry_chunk e rank g = Some g1 -> chunk_applied (p_chunk e) rank g1.
Proof.
  intros e rank g g1. unfold entry_chunk, chunk_applied.
  destruct ((0 <? k_rank (p_chunk e)) && negb (k_rank (p_chunk e) =? rank)) eqn:E; [discriminate|].
  intro H; inversion H; subst; clear H. split.
  - intro Hk. rewrite Hk. reflexivity.
  - intros Hk Hr. rewrite Hk.
    assert (E1 : (rank =? -2) = false) by (apply Z.eqb_neq; lia). rewrite E1.
    assert (E2 : (0 <? rank) = true) by (apply Z.ltb_lt; lia). rewrite E2. simpl. split; reflexivity.
Qed.

Lemma get_info_chunk : forall o rank p g kq g' have,
  tbl_req_chunk o p = Some kq ->
  get_info o rank p g = Some (g', have) ->
  (have = true -> tbl_named o p = true) /\ chunk_applied kq rank g'.
Proof.
  intros o rank p g kq g' have Hreq Hg.
  unfold tbl_req_chunk in Hreq. unfold get_info in Hg. unfold tbl_named.
  destruct (all_chunk o) eqn:Eck; destruct (all_comp o) eqn:Ecp; simpl in Hg.
  - inversion Hreq; subst. inversion Hg; subst. split; [discriminate|].
    apply cic_keeps_chunk. apply global_chunk_applied.
  - inversion Hreq; subst. destruct (lookup p (tbl o)) as [e|]; inversion Hg; subst; (split; [auto|]).
    + apply cic_keeps_chunk. apply global_chunk_applied.
    + apply global_chunk_applied.
  - destruct (lookup p (tbl o)) as [e|] eqn:El; [|discriminate]. inversion Hreq; subst.
    destruct (entry_chunk e rank g) as [g1|] eqn:Ee; [|discriminate]. inversion Hg; subst.
    split; [auto|]. apply cic_keeps_chunk. eapply entry_chunk_applied; eauto.
  - destruct (lookup p (tbl o)) as [e|] eqn:El; [|discriminate]. inversion Hreq; subst.
    destruct (entry_chunk e rank g) as [g1|] eqn:Ee; [|discriminate].
    destruct (0 <=? c_type (p_comp e)); inversion Hg; subst; (split; [auto|]).
    + apply cic_keeps_chunk. eapply entry_chunk_applied; eauto.
    + eapply entry_chunk_applied; eauto.
Qed.

Lemma restore_off : forall have bytes th, (have = true -> th <= bytes) ->
  truth (sds_restore_cond (b2z have) 1 bytes 1 th) = false /\ truth (gr_restore_cond (b2z have) 1 bytes 1 th) = false.
Proof.
  intros have bytes th H. unfold sds_restore_cond, gr_restore_cond, truth. rewrite Z.mul_1_r.
  destruct have.
  - assert (E : (bytes <? th) = false) by (apply Z.ltb_ge; apply H; reflexivity). rewrite E. vm_compute. auto.
  - destruct (bytes <? th); vm_compute; auto.
Qed.

Lemma finish_unchunk : forall o k i g' have l,
  (k = KSds \/ k = KGr) -> g_flags g' = 0 -> (have = true -> threshold o <= o_bytes i) ->
  (if match k with KSds => true | _ => false end then sds_finish o i g' have else gr_finish o i g' have) = Some l ->
  l_chunk l = None.
Proof.
  intros o k i g' have l Hk Hf Hbig Hd.
  destruct (restore_off have (o_bytes i) (threshold o) Hbig) as [R1 R2].
  destruct Hk; subst k.
  - unfold sds_finish in Hd. rewrite R1 in Hd. rewrite Hf in Hd.
    unfold sds_chunk_branch, truth, HDF_CHUNK, HDF_COMP in Hd. simpl in Hd.
    destruct (g_comp g' =? COMP_CODE_JPEG); [discriminate|].
    destruct (negb (sds_comp_branch 0 (g_comp g') =? 0)).
    + destruct (negb (sds_small_cond (o_bytes i) 1 (threshold o) =? 0)); [inversion Hd; reflexivity|].
      destruct (g_comp g' =? COMP_CODE_NBIT); inversion Hd; reflexivity.
    + inversion Hd; reflexivity.
  - unfold gr_finish in Hd. rewrite R2 in Hd. rewrite Hf in Hd.
    unfold flags_chunked, HDF_CHUNK, HDF_COMP in Hd. simpl in Hd.
    destruct (truth (gr_comp_branch 0 (g_comp g'))).
    + destruct (truth (gr_small_cond (b2z have) 1 (o_bytes i) 1 (threshold o))); inversion Hd; reflexivity.
    + inversion Hd; reflexivity.
Qed.

Lemma chunked_layout_lens : forall g, l_chunk (chunked_layout g) = Some (g_lens g).
Proof. intro g. unfold chunked_layout. destruct (g_flags g =? HDF_CHUNK); reflexivity. Qed.

Lemma finish_chunk : forall o k i g' have l,
  (k = KSds \/ k = KGr) -> flags_chunked (g_flags g') = true -> (have = true -> threshold o <= o_bytes i) ->
  (l_rec (o_lay i) = false \/ 0 < g_comp g') ->
  (if match k with KSds => true | _ => false end then sds_finish o i g' have else gr_finish o i g' have) = Some l ->
  l_chunk l = Some (g_lens g').
Proof.
  intros o k i g' have l Hk Hf Hbig Hrec Hd.
  destruct (restore_off have (o_bytes i) (threshold o) Hbig) as [R1 R2].
  destruct Hk; subst k.
  - unfold sds_finish in Hd. rewrite R1 in Hd.
    destruct (g_comp g' =? COMP_CODE_JPEG); [discriminate|].
    assert (B : truth (sds_chunk_branch (g_flags g')) = true).
    { unfold flags_chunked in Hf. unfold sds_chunk_branch, truth.
      unfold HDF_CHUNK, HDF_COMP in Hf.
      replace (Z.lor 1 3) with 3 in * by reflexivity.
      destruct (g_flags g' =? 1); [reflexivity|]. simpl in Hf. rewrite Hf. reflexivity. }
    rewrite B in Hd.
    assert (R : truth (sds_record_cond (b2z (l_rec (o_lay i))) (g_comp g')) = false).
    { unfold sds_record_cond, truth, COMP_CODE_NONE. destruct Hrec as [Hrec|Hrec].
      - rewrite Hrec. reflexivity.
      - assert (E : (g_comp g' <=? 0) = false) by (apply Z.leb_gt; lia). rewrite E.
        destruct (b2z (l_rec (o_lay i)) =? 0); reflexivity. }
    rewrite R in Hd. inversion Hd. apply chunked_layout_lens.
  - unfold gr_finish in Hd. rewrite R2 in Hd. rewrite Hf in Hd. inversion Hd. apply chunked_layout_lens.
Qed.

Definition rank_of (k : kind) (i : objinfo) : Z := match k with KGr => 2 | _ => o_rank i end.

Lemma decide_unfold : forall o k p i l, (k = KSds \/ k = KGr) -> o_empty i = false -> decide o k p i = Some l ->
  exists g' have, get_info o (rank_of k i) p (gstate_of (o_lay i)) = Some (g', have) /\
    (if match k with KSds => true | _ => false end then sds_finish o i g' have else gr_finish o i g' have) = Some l.
Proof.
  intros o k p i l Hk Hne Hd. destruct Hk; subst k; simpl in Hd; simpl.
  - unfold decide_sds in Hd. rewrite Hne in Hd.
    destruct (get_info o (o_rank i) p (gstate_of (o_lay i))) as [[g' have]|]; [|discriminate]. eauto.
  - unfold decide_gr in Hd.
    destruct (get_info o 2 p (gstate_of (o_lay i))) as [[g' have]|]; [|discriminate]. eauto.
Qed.

Lemma decide_requested_chunk_lemma : forall o k p i kq l,
  (k = KSds \/ k = KGr) ->
  tbl_req_chunk o p = Some kq -> o_empty i = false ->
  (tbl_named o p = true -> threshold o <= o_bytes i) ->
  decide o k p i = Some l ->
  (k_rank kq = -2 -> l_chunk l = None) /\
  (k_rank kq = rank_of k i -> 0 < rank_of k i ->
     (l_rec (o_lay i) = false \/ exists c, tbl_req_comp o p = Some c /\ 0 < c_type c) ->
     l_chunk l = Some (firstn (Z.to_nat (rank_of k i)) (k_lens kq))).
Proof.
  intros o k p i kq l Hk Hreq Hne Hbig Hd.
  destruct (decide_unfold _ _ _ _ _ Hk Hne Hd) as [g' [have [Hg Hf]]].
  destruct (get_info_chunk _ _ _ _ _ _ _ Hreq Hg) as [Hh [H1 H2]].
  assert (Hbig' : have = true -> threshold o <= o_bytes i) by (intro X; apply Hbig; apply Hh; exact X).
  split.
  - intro Hr. eapply finish_unchunk; eauto.
  - intros Hr Hpos Hrec. destruct (H2 Hr Hpos) as [Hfc Hl]. rewrite <- Hl. eapply finish_chunk; eauto.
    destruct Hrec as [Hrec|[c [Hc Hpc]]]; [left; exact Hrec|right].
    assert (Hc0 : 0 <= c_type c) by lia.
    destruct (get_info_comp _ _ _ _ _ _ _ Hc Hc0 Hg) as [g1 [_ [Hgc _]]]. rewrite Hgc. exact Hpc.
Qed.


(** * The specification's demands are met by the model's decision, when the option table reflects the requests *)
Definition reflects (o : options) (es : list entry) (th : Z) : Prop :=
  threshold o = th /\
  forall p,
    (forall t i, req_comp es p None = Some (t, i) -> tbl_req_comp o p = Some {| c_type := t; c_info := i |}) /\
    (forall r lens, req_chunk es p None = Some (r, lens) -> tbl_req_chunk o p = Some {| k_rank := r; k_lens := lens |}) /\
    (tbl_named o p = true -> named es p = true).

Lemma decide_meets_spec_lemma : forall o es th k p i l,
  reflects o es th -> (k = KSds \/ k = KGr) -> o_rank i = rank_of k i ->
  decide o k p i = Some l -> meets es th k p i l = true.
Proof.
  intros o es th k p i l [Hth Hrf] Hk Hrk Hd. destruct (Hrf p) as [Hrc [Hrk' Hnm]].
  unfold meets. apply andb_true_iff. split.
  - unfold expect_comp. destruct (req_comp es p None) as [[t x]|] eqn:Erc; [|reflexivity].
    destruct (comp_applicable th k i t) eqn:Eap; [|reflexivity].
    unfold comp_applicable in Eap.
    assert (Eap' : negb (o_empty i) && negb (o_bytes i <? th) && lossless_request t = true)
      by (destruct Hk; subst k; exact Eap).
    apply andb_true_iff in Eap'. destruct Eap' as [Eap' Hll]. apply andb_true_iff in Eap'. destruct Eap' as [Hne Hbig].
    apply negb_true_iff in Hne. apply negb_true_iff in Hbig. apply Z.ltb_ge in Hbig.
    destruct (decide_requested_comp_lemma o k p i _ l Hk (Hrc _ _ eq_refl) Hll Hne ltac:(rewrite Hth; exact Hbig) Hd)
      as [H1 H2]. simpl in H1, H2. rewrite H1, H2. rewrite !Z.eqb_refl. reflexivity.
  - unfold expect_chunk.
    assert (Hk2 : match k with KSds | KGr => True | _ => False end) by (destruct Hk; subst k; exact I).
    destruct k; try contradiction.
    all: destruct (o_empty i) eqn:Hne; [reflexivity|].
    all: destruct (req_chunk es p None) as [[r lens]|] eqn:Erk; [|reflexivity].
    all: destruct (named es p && (o_bytes i <? th)) eqn:Esm; [reflexivity|].
    all: assert (Hbig : tbl_named o p = true -> threshold o <= o_bytes i)
           by (intro Hn; apply Hnm in Hn; rewrite Hn in Esm; simpl in Esm; apply Z.ltb_ge in Esm; lia).
    all: match goal with |- context [decide] => idtac | _ => idtac end.
    all: destruct (decide_requested_chunk_lemma o _ p i _ l Hk (Hrk' _ _ eq_refl) Hne Hbig Hd) as [HN HS]; unfold rank_of in HN, HS.
    all: destruct (r =? -2) eqn:Er2; [apply Z.eqb_eq in Er2; rewrite (HN Er2); reflexivity|].
    all: destruct (negb ((r =? o_rank i) && (0 <? r))) eqn:Err; [reflexivity|].
    all: apply negb_false_iff in Err; apply andb_true_iff in Err; destruct Err as [Err Hpos].
    all: apply Z.eqb_eq in Err; apply Z.ltb_lt in Hpos.
    all: assert (Hpos' : 0 < o_rank i) by lia.
    all: simpl in Hrk; try rewrite <- Hrk in HS.
    all: unfold stays_record.
    all: destruct (negb (l_rec (o_lay i))) eqn:Erec.
    all: try (apply negb_true_iff in Erec;
              rewrite (HS Err Hpos' (or_introl Erec)); rewrite Err; apply str_eqb_refl).
    all: destruct (req_comp es p None) as [[t x]|] eqn:Erc; [|reflexivity].
    all: match goal with |- context [comp_applicable ?a ?b ?c ?d] => destruct (comp_applicable a b c d) end; [|reflexivity].
    all: destruct (t <=? COMP_CODE_NONE) eqn:Et; [reflexivity|].
    all: apply Z.leb_gt in Et; unfold COMP_CODE_NONE in Et.
    all: rewrite (HS Err Hpos' (or_intror (ex_intro _ _ (conj (Hrc _ _ eq_refl) Et)))); rewrite Err; apply str_eqb_refl.
Qed.

(** * Totality: the only ways the decision can fail *)
Lemma get_info_comp_origin : forall o rank p g g' have,
  get_info o rank p g = Some (g', have) ->
  g_comp g' = g_comp g \/ exists c, tbl_req_comp o p = Some c /\ g_comp g' = c_type c.
Proof.
  intros o rank p g g' have Hg. unfold get_info in Hg. unfold tbl_req_comp.
  assert (CIC : forall g1 c, g_comp (comp_into_chunk (set_comp g1 c)) = c_type c).
  { intros. unfold comp_into_chunk, set_comp. simpl. destruct (flags_chunked (g_flags g1)); reflexivity. }
  assert (GC : forall g0, g_comp (global_chunk o rank g0) = g_comp g0).
  { intros. unfold global_chunk, set_flags, set_chunk.
    destruct (k_rank (chunk_g o) =? -2); [reflexivity|]. destruct (negb (k_rank (chunk_g o) =? rank)); reflexivity. }
  assert (EC : forall e g0 g1, entry_chunk e rank g0 = Some g1 -> g_comp g1 = g_comp g0).
  { intros e g0 g1. unfold entry_chunk, set_flags, set_chunk.
    destruct ((0 <? k_rank (p_chunk e)) && negb (k_rank (p_chunk e) =? rank)); [discriminate|].
    intro H; inversion H. destruct (k_rank (p_chunk e) =? -2); [reflexivity|].
    destruct (0 <? k_rank (p_chunk e)); reflexivity. }
  destruct (all_chunk o); destruct (all_comp o); simpl in Hg.
  - inversion Hg; subst. right. eexists; split; [reflexivity | apply CIC].
  - destruct (lookup p (tbl o)) as [e|]; inversion Hg; subst.
    + right. eexists; split; [reflexivity | apply CIC].
    + left. apply GC.
  - destruct (lookup p (tbl o)) as [e|].
    + destruct (entry_chunk e rank g) as [g1|]; [|discriminate]. inversion Hg; subst.
      right. eexists; split; [reflexivity | apply CIC].
    + inversion Hg; subst. right. eexists; split; [reflexivity | apply CIC].
  - destruct (lookup p (tbl o)) as [e|].
    + destruct (entry_chunk e rank g) as [g1|] eqn:Ee; [|discriminate].
      destruct (0 <=? c_type (p_comp e)); inversion Hg; subst.
      * right. eexists; split; [reflexivity | apply CIC].
      * left. eapply EC; eauto.
    + inversion Hg; subst. left. reflexivity.
Qed.

Lemma get_info_fail : forall o rank p g,
  get_info o rank p g = None ->
  exists e, all_chunk o = false /\ lookup p (tbl o) = Some e /\ 0 < k_rank (p_chunk e) /\ k_rank (p_chunk e) <> rank.
Proof.
  intros o rank p g Hg. unfold get_info in Hg.
  assert (EC : forall e, entry_chunk e rank g = None -> 0 < k_rank (p_chunk e) /\ k_rank (p_chunk e) <> rank).
  { intro e. unfold entry_chunk.
    destruct ((0 <? k_rank (p_chunk e)) && negb (k_rank (p_chunk e) =? rank)) eqn:E; [|discriminate].
    intros _. apply andb_true_iff in E. destruct E as [E1 E2]. apply Z.ltb_lt in E1.
    apply negb_true_iff in E2. apply Z.eqb_neq in E2. auto. }
  destruct (all_chunk o); destruct (all_comp o); simpl in Hg; try discriminate.
  - destruct (lookup p (tbl o)) as [e|]; discriminate.
  - destruct (lookup p (tbl o)) as [e|] eqn:El; [|discriminate].
    destruct (entry_chunk e rank g) as [g1|] eqn:Ee; [discriminate|].
    exists e. destruct (EC e Ee). auto.
  - destruct (lookup p (tbl o)) as [e|] eqn:El; [|discriminate].
    destruct (entry_chunk e rank g) as [g1|] eqn:Ee.
    + destruct (0 <=? c_type (p_comp e)); discriminate.
    + exists e. destruct (EC e Ee). auto.
Qed.

Lemma decide_total_lemma : forall o k p i,
  decide o k p i = None ->
  (k = KSds \/ k = KGr) /\
  ((exists e, all_chunk o = false /\ lookup p (tbl o) = Some e /\ 0 < k_rank (p_chunk e) /\
              k_rank (p_chunk e) <> rank_of k i)
   \/ (k = KSds /\ o_empty i = false /\
       (l_comp (o_lay i) = COMP_CODE_JPEG \/ exists c, tbl_req_comp o p = Some c /\ c_type c = COMP_CODE_JPEG))).
Proof.
  intros o k p i Hd. destruct k; simpl in Hd; try discriminate.
  - split; [auto|]. unfold decide_sds in Hd. destruct (o_empty i) eqn:Hne; [discriminate|].
    destruct (get_info o (o_rank i) p (gstate_of (o_lay i))) as [[g' have]|] eqn:Eg.
    + right. split; [reflexivity|]. split; [reflexivity|].
      unfold sds_finish in Hd.
      destruct (truth (sds_restore_cond (b2z have) 1 (o_bytes i) 1 (threshold o))).
      * simpl in Hd. destruct (l_comp (o_lay i) =? COMP_CODE_JPEG) eqn:EJ.
        -- left. apply Z.eqb_eq. exact EJ.
        -- exfalso.
           destruct (truth (sds_chunk_branch (flags_of (o_lay i)))).
           ++ destruct (truth (sds_record_cond (b2z (l_rec (o_lay i))) (l_comp (o_lay i)))); discriminate.
           ++ destruct (truth (sds_comp_branch (flags_of (o_lay i)) (l_comp (o_lay i)))); [|discriminate].
              destruct (truth (sds_small_cond (o_bytes i) 1 (threshold o))); [discriminate|].
              destruct (l_comp (o_lay i) =? COMP_CODE_NBIT); discriminate.
      * destruct (g_comp g' =? COMP_CODE_JPEG) eqn:EJ.
        -- apply Z.eqb_eq in EJ.
           destruct (get_info_comp_origin _ _ _ _ _ _ Eg) as [H|[c [H1 H2]]].
           ++ left. rewrite <- EJ. rewrite H. reflexivity.
           ++ right. exists c. split; [exact H1|]. rewrite <- H2. exact EJ.
        -- exfalso.
           destruct (truth (sds_chunk_branch (g_flags g'))).
           ++ destruct (truth (sds_record_cond (b2z (l_rec (o_lay i))) (g_comp g'))); discriminate.
           ++ destruct (truth (sds_comp_branch (g_flags g') (g_comp g'))); [|discriminate].
              destruct (truth (sds_small_cond (o_bytes i) 1 (threshold o))); [discriminate|].
              destruct (g_comp g' =? COMP_CODE_NBIT); discriminate.
    + left. exact (get_info_fail _ _ _ _ Eg).
  - split; [auto|]. unfold decide_gr in Hd.
    destruct (get_info o 2 p (gstate_of (o_lay i))) as [[g' have]|] eqn:Eg.
    + exfalso. unfold gr_finish in Hd.
      destruct (truth (gr_restore_cond (b2z have) 1 (o_bytes i) 1 (threshold o))).
      * destruct (flags_chunked (g_flags (restore_small (o_lay i) g'))); [discriminate|].
        destruct (truth (gr_comp_branch (g_flags (restore_small (o_lay i) g')) (g_comp (restore_small (o_lay i) g')))); [|discriminate].
        destruct (truth (gr_small_cond (b2z have) 1 (o_bytes i) 1 (threshold o))); discriminate.
      * destruct (flags_chunked (g_flags g')); [discriminate|].
        destruct (truth (gr_comp_branch (g_flags g') (g_comp g'))); [|discriminate].
        destruct (truth (gr_small_cond (b2z have) 1 (o_bytes i) 1 (threshold o))); discriminate.
    + left. exact (get_info_fail _ _ _ _ Eg).
Qed.

(** * Printing then parsing the options gives the options back *)
Lemma split_first_app : forall c a b, ~ In c a -> split_first c (a ++ c :: b) = Some (a, b).
Proof.
  intros c a b. induction a as [|x a IH]; intro Hn; simpl.
  - rewrite Z.eqb_refl. reflexivity.
  - destruct (x =? c) eqn:E.
    + apply Z.eqb_eq in E. exfalso. apply Hn. left. exact E.
    + rewrite IH; [reflexivity|]. intro H. apply Hn. right. exact H.
Qed.

Lemma split_last_app : forall c a b, ~ In c b -> split_last c (a ++ c :: b) = Some (a, b).
Proof.
  intros c a b Hn. unfold split_last.
  rewrite rev_app_distr. simpl. rewrite <- app_assoc. simpl.
  rewrite split_first_app.
  - rewrite !rev_involutive. reflexivity.
  - intro H. apply Hn. apply in_rev. exact H.
Qed.

Lemma split_all_app : forall c n s cur, ~ In c n -> split_all c (n ++ s) cur = split_all c s (rev n ++ cur).
Proof.
  intros c n. induction n as [|x n IH]; intros s cur Hn; simpl; [reflexivity|].
  destruct (x =? c) eqn:E.
  - apply Z.eqb_eq in E. exfalso. apply Hn. left. exact E.
  - rewrite IH.
    + rewrite <- app_assoc. reflexivity.
    + intro H. apply Hn. right. exact H.
Qed.

Lemma split_all_join : forall c names, names <> [] -> Forall (fun n => ~ In c n) names ->
  split_all c (join c names) [] = names.
Proof.
  intros c names. induction names as [|n r IH]; intros Hne Hf; [contradiction|].
  inversion Hf as [|? ? Hn Hr]; subst.
  destruct r as [|n2 r'].
  - simpl. rewrite <- (app_nil_r n) at 1. rewrite split_all_app by exact Hn. simpl.
    rewrite app_nil_r. rewrite rev_involutive. reflexivity.
  - change (join c (n :: n2 :: r')) with (n ++ c :: join c (n2 :: r')).
    rewrite split_all_app by exact Hn. simpl. rewrite Z.eqb_refl.
    rewrite app_nil_r. rewrite rev_involutive. f_equal. apply IH; [discriminate | exact Hr].
Qed.

Definition wf_name (n : str) : Prop :=
  n <> [] /\ ~ In ch_colon n /\ ~ In ch_comma n /\ zlen n < H4_MAX_NC_NAME.

Lemma join_no_colon : forall names, Forall wf_name names -> ~ In ch_colon (join ch_comma names).
Proof.
  induction names as [|n r IH]; intro Hf; simpl; [auto|].
  inversion Hf as [|? ? [_ [Hc _]] Hr]; subst.
  destruct r; [exact Hc|].
  intro H. apply in_app_or in H. destruct H as [H|H]; [exact (Hc H)|].
  simpl in H. destruct H as [H|H]; [discriminate|]. exact (IH Hr H).
Qed.

Lemma parse_names_join : forall names, names <> [] -> Forall wf_name names ->
  parse_names (join ch_comma names) = ROk names.
Proof.
  intros names Hne Hf. unfold parse_names.
  rewrite split_all_join; [|exact Hne|].
  - assert (L : str_eqb (last names []) [] = false).
    { assert (Hl : wf_name (last names [])).
      { rewrite Forall_forall in Hf. apply Hf. destruct names; [contradiction|].
        apply (@exists_last _ (s :: names)) in Hne. destruct Hne as [l' [a E]]. rewrite E.
        rewrite last_last. apply in_or_app. right. left. reflexivity. }
      destruct Hl as [Hl _]. destruct (last names []); [contradiction|reflexivity]. }
    rewrite L.
    assert (X : existsb (fun n => H4_MAX_NC_NAME <=? zlen n) names = false).
    { apply not_true_is_false. intro H. apply existsb_exists in H. destruct H as [n [Hin Hb]].
      rewrite Forall_forall in Hf. destruct (Hf n Hin) as [_ [_ [_ Hlen]]]. apply Z.leb_le in Hb. lia. }
    rewrite X. reflexivity.
  - eapply Forall_impl; [|exact Hf]. intros n [_ [_ [Hc _]]]. exact Hc.
Qed.

(** every (type, parameter) the parser can accept within its buffers: NONE and RLE without parameter,
    HUFF 1..9999, GZIP 0..9 *)
Definition zrange (lo : Z) (n : nat) : list Z := map (fun k => lo + Z.of_nat k) (seq 0 n).
Definition comp_domain : list (Z * Z) :=
  [(COMP_CODE_NONE, -1); (COMP_CODE_RLE, -1)] ++ map (fun i => (COMP_CODE_SKPHUFF, i)) (zrange 1 (Z.to_nat 9999)) ++
  map (fun i => (COMP_CODE_DEFLATE, i)) (zrange 0 (Z.to_nat 10)).

Definition comp_tail (t i : Z) : str :=
  find_scomp t scomp_table ++ (if has_param t then ch_space :: print_nat i else []).

Definition tail_ok (ti : Z * Z) : bool :=
  let '(t, i) := ti in
  negb (existsb (Z.eqb ch_colon) (comp_tail t i)) &&
  match parse_comp_tail [] (comp_tail t i) with
  | ROk e => (ce_type e =? t) && (ce_info e =? i)
  | _ => false
  end.

Lemma comp_domain_ok : forallb tail_ok comp_domain = true.
Proof. vm_compute. reflexivity. Qed.

Lemma parse_comp_tail_names : forall names tail e,
  parse_comp_tail [] tail = ROk e ->
  parse_comp_tail names tail = ROk {| ce_names := names; ce_type := ce_type e; ce_info := ce_info e |}.
Proof.
  intros names tail e. unfold parse_comp_tail.
  destruct (str_eqb tail []); [discriminate|].
  destruct (split_first ch_space tail) as [[w pp]|].
  - destruct (9 <? zlen w); [discriminate|]. destruct (str_eqb w kw_SZIP); [discriminate|].
    destruct (negb (forallb is_digit pp)); [discriminate|]. destruct (4 <? zlen pp); [discriminate|].
    destruct (find_kw w comp_keywords) as [[code rule]|]; [|discriminate].
    destruct ((rule =? 2) && (0 <? zlen pp)); [discriminate|].
    destruct (comp_param_bad code (atoi pp)); [discriminate|]. intro H; inversion H; reflexivity.
  - destruct (9 <? zlen tail); [discriminate|]. destruct (str_eqb tail kw_SZIP); [discriminate|].
    destruct (find_kw tail comp_keywords) as [[code rule]|]; [|discriminate].
    destruct (rule =? 1); [discriminate|]. destruct (comp_param_bad code (-1)); [discriminate|].
    intro H; inversion H; reflexivity.
Qed.

Lemma existsb_eqb_In : forall c l, existsb (Z.eqb c) l = false -> ~ In c l.
Proof.
  intros c l H Hin. assert (existsb (Z.eqb c) l = true).
  { apply existsb_exists. exists c. split; [exact Hin | apply Z.eqb_refl]. }
  congruence.
Qed.

Lemma parse_print_comp_lemma : forall names t i,
  names <> [] -> Forall wf_name names -> In (t, i) comp_domain ->
  parse_comp (print_comp {| ce_names := names; ce_type := t; ce_info := i |}) =
  ROk {| ce_names := names; ce_type := t; ce_info := i |}.
Proof.
  intros names t i Hne Hf Hin.
  pose proof comp_domain_ok as D. rewrite forallb_forall in D. specialize (D _ Hin). clear Hin.
  unfold tail_ok in D. apply andb_true_iff in D. destruct D as [Dc Dp].
  apply negb_true_iff in Dc. apply existsb_eqb_In in Dc.
  unfold parse_comp, print_comp. cbn [ce_names ce_type ce_info].
  change (find_scomp t scomp_table ++ (if has_param t then ch_space :: print_nat i else [])) with (comp_tail t i).
  rewrite split_last_app by exact Dc.
  rewrite parse_names_join by assumption.
  destruct (parse_comp_tail [] (comp_tail t i)) as [e'| |] eqn:Ep; try discriminate.
  rewrite (parse_comp_tail_names names _ _ Ep).
  apply andb_true_iff in Dp. destruct Dp as [D1 D2]. apply Z.eqb_eq in D1. apply Z.eqb_eq in D2.
  rewrite D1, D2. reflexivity.
Qed.

Lemma str_eqb_eq : forall a b, str_eqb a b = true -> a = b.
Proof.
  induction a as [|x a IH]; destruct b as [|y b]; simpl; intro H; try discriminate; [reflexivity|].
  apply andb_true_iff in H. destruct H as [H1 H2]. apply Z.eqb_eq in H1. subst. f_equal. apply IH. exact H2.
Qed.


(** * Decimal printing and atoi *)
Lemma is_digit_spec : forall c, is_digit c = true <-> 48 <= c <= 57.
Proof. intro c. unfold is_digit. rewrite andb_true_iff, !Z.leb_le. tauto. Qed.

Lemma atoi_acc_app : forall ds a rest, Forall (fun c => is_digit c = true) ds ->
  atoi_acc a (ds ++ rest) = atoi_acc (fold_left (fun x c => x * 10 + (c - 48)) ds a) rest.
Proof.
  induction ds as [|c ds IH]; intros a rest Hf; simpl; [reflexivity|].
  inversion Hf; subst. rewrite H1. apply IH. assumption.
Qed.

(** digits_acc produces the decimal digits of n in front of the accumulator *)
Lemma digits_acc_spec : forall f n acc, 0 <= n < 10 ^ Z.of_nat f -> (0 < f)%nat ->
  exists ds, digits_acc f n acc = ds ++ acc /\ Forall (fun c => is_digit c = true) ds /\ ds <> [] /\
             (length ds <= f)%nat /\ (forall a, fold_left (fun x c => x * 10 + (c - 48)) ds a = a * 10 ^ Z.of_nat (length ds) + n) /\
             (0 < n -> hd 0 ds <> 48).
Proof.
  induction f as [|f IH]; intros n acc Hn Hf; [inversion Hf|].
  cbn [digits_acc]. destruct (n <? 10) eqn:E.
  - apply Z.ltb_lt in E. exists [48 + n]. split; [reflexivity|]. split.
    { constructor; [|constructor]. apply is_digit_spec. lia. }
    split; [discriminate|]. split; [simpl; lia|]. split.
    { intro a. cbn [fold_left length]. change (Z.of_nat 1) with 1. rewrite Z.pow_1_r. lia. }
    { intro Hp. cbn [hd]. lia. }
  - apply Z.ltb_ge in E.
    assert (Hf' : (0 < f)%nat).
    { destruct f; [|lia]. simpl in Hn. lia. }
    assert (Hq : 0 <= n / 10 < 10 ^ Z.of_nat f).
    { split; [apply Z.div_pos; lia|]. apply Z.div_lt_upper_bound; [lia|].
      rewrite Nat2Z.inj_succ, Z.pow_succ_r in Hn by lia. lia. }
    destruct (IH (n / 10) ((48 + n mod 10) :: acc) Hq Hf') as [ds [H1 [H2 [H3 [H4 [H5 H6]]]]]].
    exists (ds ++ [48 + n mod 10]). split; [rewrite H1, <- app_assoc; reflexivity|]. split.
    { apply Forall_app. split; [exact H2|]. constructor; [|constructor]. apply is_digit_spec.
      pose proof (Z.mod_pos_bound n 10 ltac:(lia)). lia. }
    split; [destruct ds; discriminate|]. split; [rewrite app_length; cbn [length]; lia|]. split.
    { intro a. rewrite fold_left_app. cbn [fold_left]. rewrite H5. rewrite app_length. cbn [length].
      rewrite Nat2Z.inj_add. change (Z.of_nat 1) with 1. rewrite Z.pow_add_r by lia. rewrite Z.pow_1_r.
      pose proof (Z.div_mod n 10 ltac:(lia)). set (P := 10 ^ Z.of_nat (length ds)). nia. }
    { intro Hp. destruct ds as [|d ds']; [contradiction|]. cbn [hd app]. cbn [hd] in H6. apply H6.
      apply Z.div_str_pos. lia. }
Qed.

Lemma print_nat_spec : forall n, 0 <= n < 10 ^ 9 ->
  Forall (fun c => is_digit c = true) (print_nat n) /\ print_nat n <> [] /\ zlen (print_nat n) <= 9 /\
  atoi (print_nat n) = n /\ (0 < n -> hd 0 (print_nat n) <> 48).
Proof.
  intros n Hn. unfold print_nat.
  destruct (digits_acc_spec 9 n [] ltac:(simpl Z.of_nat; lia) ltac:(lia)) as [ds [H1 [H2 [H3 [H4 [H5 H6]]]]]].
  rewrite app_nil_r in H1. rewrite H1.
  split; [exact H2|]. split; [exact H3|]. split; [unfold zlen; lia|]. split; [|exact H6].
  unfold atoi. rewrite <- (app_nil_r ds). rewrite atoi_acc_app by exact H2. cbn [atoi_acc]. rewrite H5. lia.
Qed.

(** * parse_chunk on a printed shape *)
Lemma digit_not_x : forall c, is_digit c = true -> (c =? ch_x) = false.
Proof. intros c H. apply is_digit_spec in H. apply Z.eqb_neq. unfold ch_x. lia. Qed.

Lemma chunk_loop_digits : forall ds rest seg lens0,
  Forall (fun c => is_digit c = true) ds -> zlen seg + zlen ds <= 9 -> rest <> [] ->
  chunk_loop (ds ++ rest) seg lens0 = chunk_loop rest (rev ds ++ seg) lens0.
Proof.
  induction ds as [|c ds IH]; intros rest seg lens0 Hf Hlen Hr; [reflexivity|].
  inversion Hf as [|? ? Hc Hds]; subst.
  cbn [app chunk_loop]. rewrite Hc. cbn [orb negb]. rewrite (digit_not_x _ Hc). cbn [negb andb].
  assert (E : (9 <? zlen seg + 1) = false).
  { apply Z.ltb_ge. unfold zlen in *. cbn [length] in Hlen. lia. }
  rewrite E.
  destruct (ds ++ rest) as [|y ys] eqn:Eapp.
  { destruct ds; [cbn [app] in Eapp; contradiction | discriminate]. }
  rewrite <- Eapp. rewrite IH; [|assumption| |assumption].
  - cbn [rev]. rewrite <- app_assoc. reflexivity.
  - unfold zlen in *. cbn [length] in *. lia.
Qed.

Lemma x_in_alphabet : existsb (Z.eqb ch_x) chunk_alphabet = true.
Proof. vm_compute. reflexivity. Qed.

Lemma chunk_loop_x : forall rest seg lens0,
  rest <> [] -> atoi (rev seg) <> 0 -> zlen lens0 < H4_MAX_VAR_DIMS ->
  chunk_loop (ch_x :: rest) seg lens0 = chunk_loop rest [] (atoi (rev seg) :: lens0).
Proof.
  intros rest seg lens0 Hr Ha Hl. cbn [chunk_loop]. rewrite x_in_alphabet. rewrite orb_true_r. cbn [negb].
  rewrite Z.eqb_refl. cbn [negb andb].
  destruct rest as [|y ys]; [contradiction|].
  assert (E1 : (atoi (rev seg) =? 0) = false) by (apply Z.eqb_neq; exact Ha). rewrite E1.
  assert (E2 : (H4_MAX_VAR_DIMS <=? zlen lens0) = false) by (apply Z.leb_gt; exact Hl). rewrite E2.
  reflexivity.
Qed.

Lemma chunk_loop_last : forall ds lens0,
  Forall (fun c => is_digit c = true) ds -> ds <> [] -> zlen ds <= 9 -> atoi ds <> 0 ->
  zlen lens0 < H4_MAX_VAR_DIMS ->
  chunk_loop ds [] lens0 = ROk {| ke_names := []; ke_rank := zlen lens0 + 1; ke_lens := rev (atoi ds :: lens0) |}.
Proof.
  intros ds lens0 Hf Hne Hlen Hn Hl.
  destruct (exists_last Hne) as [ds' [c E]]. subst ds.
  apply Forall_app in Hf. destruct Hf as [Hf' Hc]. inversion Hc as [|? ? Hc' _]; subst.
  rewrite chunk_loop_digits; [|exact Hf'| |discriminate].
  2:{ unfold zlen in *. rewrite app_length in Hlen. cbn [length] in *. lia. }
  cbn [chunk_loop]. rewrite Hc'. cbn [orb negb]. rewrite (digit_not_x _ Hc'). cbn [negb andb].
  assert (E : (9 <? zlen (rev ds' ++ []) + 1) = false).
  { apply Z.ltb_ge. unfold zlen in *. rewrite app_nil_r, rev_length. rewrite app_length in Hlen. cbn [length] in Hlen. lia. }
  rewrite E. rewrite app_nil_r. cbn [rev]. rewrite rev_involutive.
  assert (EN : str_eqb (ds' ++ [c]) kw_NONE = false).
  { destruct ds' as [|d ds'']; cbn [app str_eqb kw_NONE].
    - apply is_digit_spec in Hc'. assert (X : (c =? 78) = false) by (apply Z.eqb_neq; lia). rewrite X. reflexivity.
    - inversion Hf'; subst. apply is_digit_spec in H1. assert (X : (d =? 78) = false) by (apply Z.eqb_neq; lia).
      rewrite X. reflexivity. }
  rewrite EN.
  assert (E1 : (atoi (ds' ++ [c]) =? 0) = false) by (apply Z.eqb_neq; exact Hn). rewrite E1.
  assert (E2 : (H4_MAX_VAR_DIMS <=? zlen lens0) = false) by (apply Z.leb_gt; exact Hl). rewrite E2.
  reflexivity.
Qed.

Definition wf_len (l : Z) : Prop := 1 <= l < 10 ^ 9.

Lemma join_x_nonempty : forall ls, ls <> [] -> Forall wf_len ls -> join ch_x (map print_nat ls) <> [].
Proof.
  intros ls Hne Hf. destruct ls as [|l ls]; [contradiction|]. inversion Hf; subst.
  destruct (print_nat_spec l ltac:(unfold wf_len in *; lia)) as [_ [Hp _]].
  cbn [map join]. destruct (map print_nat ls).
  - exact Hp.
  - intro H. apply app_eq_nil in H. destruct H. contradiction.
Qed.

Lemma chunk_loop_shape : forall ls acc, ls <> [] -> Forall wf_len ls ->
  zlen acc + zlen ls <= H4_MAX_VAR_DIMS ->
  chunk_loop (join ch_x (map print_nat ls)) [] acc =
  ROk {| ke_names := []; ke_rank := zlen acc + zlen ls; ke_lens := rev acc ++ ls |}.
Proof.
  induction ls as [|l ls IH]; intros acc Hne Hf Hlen; [contradiction|].
  inversion Hf as [|? ? Hl Hls]; subst.
  destruct (print_nat_spec l ltac:(unfold wf_len in *; lia)) as [Hd [Hp [Hz [Ha _]]]].
  destruct ls as [|l2 ls'].
  - cbn [map join]. rewrite (chunk_loop_last _ acc Hd Hp Hz).
    + rewrite Ha. unfold zlen. cbn [length rev]. f_equal.
    + rewrite Ha. unfold wf_len in Hl. lia.
    + unfold zlen in *. cbn [length] in Hlen. lia.
  - change (join ch_x (map print_nat (l :: l2 :: ls'))) with
      (print_nat l ++ ch_x :: join ch_x (map print_nat (l2 :: ls'))).
    rewrite chunk_loop_digits; [|exact Hd|unfold zlen in *; cbn [length]; lia|discriminate].
    rewrite app_nil_r.
    rewrite chunk_loop_x.
    + rewrite rev_involutive, Ha. rewrite IH; [|discriminate|exact Hls|].
      * replace (zlen (l :: acc) + zlen (l2 :: ls')) with (zlen acc + zlen (l :: l2 :: ls')) by (unfold zlen; cbn [length]; lia).
        cbn [rev]. rewrite <- app_assoc. reflexivity.
      * unfold zlen in *. cbn [length] in *. lia.
    + apply join_x_nonempty; [discriminate|exact Hls].
    + rewrite rev_involutive, Ha. unfold wf_len in Hl. lia.
    + unfold zlen in *. cbn [length] in *. lia.
Qed.

Lemma no_colon_digits : forall ds, Forall (fun c => is_digit c = true) ds -> ~ In ch_colon ds.
Proof.
  intros ds Hf Hin. rewrite Forall_forall in Hf. specialize (Hf _ Hin). apply is_digit_spec in Hf. unfold ch_colon in Hf. lia.
Qed.

Lemma join_x_no_colon : forall ls, Forall wf_len ls -> ~ In ch_colon (join ch_x (map print_nat ls)).
Proof.
  induction ls as [|l ls IH]; intro Hf; [simpl; auto|].
  inversion Hf as [|? ? Hl Hls]; subst.
  destruct (print_nat_spec l ltac:(unfold wf_len in *; lia)) as [Hd _].
  destruct ls as [|l2 ls'].
  - cbn [map join]. apply no_colon_digits. exact Hd.
  - change (join ch_x (map print_nat (l :: l2 :: ls'))) with (print_nat l ++ ch_x :: join ch_x (map print_nat (l2 :: ls'))).
    intro H. apply in_app_or in H. destruct H as [H|H]; [exact (no_colon_digits _ Hd H)|].
    destruct H as [H|H]; [unfold ch_x, ch_colon in H; discriminate|].
    exact (IH Hls H).
Qed.

(** parse_print_chunk, full: any non-empty list of well-formed names with NONE, or with a shape of 1 to
    H4_MAX_VAR_DIMS lengths between 1 and 10^9 - 1 (nine digits: all the parser's buffer takes) *)
Lemma parse_print_chunk_lemma : forall names r lens,
  names <> [] -> Forall wf_name names ->
  (r = -2 /\ lens = [] \/ r = zlen lens /\ lens <> [] /\ zlen lens <= H4_MAX_VAR_DIMS /\ Forall wf_len lens) ->
  parse_chunk (print_chunk {| ke_names := names; ke_rank := r; ke_lens := lens |}) =
  ROk {| ke_names := names; ke_rank := r; ke_lens := lens |}.
Proof.
  intros names r lens Hne Hf Hd.
  unfold parse_chunk, print_chunk. cbn [ke_names ke_rank ke_lens].
  destruct Hd as [[Hr Hl]|[Hr [Hl [Hm Hw]]]].
  - subst. cbn [Z.eqb]. 
    rewrite split_last_app by (vm_compute; intuition discriminate).
    rewrite parse_names_join by assumption. vm_compute. reflexivity.
  - assert (E : (r =? -2) = false) by (apply Z.eqb_neq; unfold zlen in Hr; lia). rewrite E.
    rewrite split_last_app by (apply join_x_no_colon; exact Hw).
    rewrite parse_names_join by assumption.
    pose proof (join_x_nonempty lens Hl Hw) as Hn.
    destruct (join ch_x (map print_nat lens)) as [|c0 t0] eqn:Ej; [contradiction|].
    cbn [str_eqb]. rewrite <- Ej.
    rewrite (chunk_loop_shape lens [] Hl Hw) by (unfold zlen in *; cbn [length]; lia).
    cbn [ke_rank ke_lens rev app]. unfold zlen at 1. cbn [length]. rewrite Hr. reflexivity.
Qed.

(** * The option table answers lookups with the last request naming the object *)
Lemma str_eqb_spec : forall a b, str_eqb a b = true <-> a = b.
Proof. intros; split; [apply str_eqb_eq | intro; subst; apply str_eqb_refl]. Qed.

Lemma str_eqb_false : forall a b, str_eqb a b = false <-> a <> b.
Proof.
  intros a b. split.
  - intros H E. subst. rewrite str_eqb_refl in H. discriminate.
  - intro H. destruct (str_eqb a b) eqn:E; [apply str_eqb_eq in E; contradiction | reflexivity].
Qed.

Lemma str_dec : forall a b : str, {a = b} + {a <> b}.
Proof. intros. destruct (str_eqb a b) eqn:E; [left; apply str_eqb_eq; exact E | right; apply str_eqb_false; exact E]. Qed.

Lemma existsb_str : forall p names, existsb (str_eqb p) names = true <-> In p names.
Proof.
  intros. rewrite existsb_exists. split.
  - intros [x [Hin He]]. apply str_eqb_eq in He. subst. exact Hin.
  - intro H. exists p. split; [exact H | apply str_eqb_refl].
Qed.

Lemma lookup_app : forall p a b, lookup p (a ++ b) = match lookup p a with Some e => Some e | None => lookup p b end.
Proof. induction a as [|e a IH]; intro b; simpl; [reflexivity|]. destruct (str_eqb (p_path e) p); [reflexivity|apply IH]. Qed.

Lemma lookup_path : forall p t e, lookup p t = Some e -> p_path e = p.
Proof.
  induction t as [|x t IH]; intros e H; simpl in H; [discriminate|].
  destruct (str_eqb (p_path x) p) eqn:E; [inversion H; subst; apply str_eqb_eq; exact E | apply IH; exact H].
Qed.

Section generic_loop.
  Variables (refuse : pack -> bool) (setf : pack -> pack) (mk : str -> pack).
  Hypothesis setf_path : forall e, p_path (setf e) = p_path e.
  Hypothesis mk_path : forall n, p_path (mk n) = n.

  Lemma upd_none : forall n t, upd_entry refuse setf n t = None -> lookup n t = None.
  Proof.
    induction t as [|e t IH]; intro H; simpl in *; [reflexivity|].
    destruct (str_eqb n (p_path e)) eqn:E.
    - destruct (refuse e); discriminate.
    - assert (E' : str_eqb (p_path e) n = false).
      { apply str_eqb_false. apply str_eqb_false in E. congruence. }
      rewrite E'. apply IH. destruct (upd_entry refuse setf n t) as [[?|]|]; try discriminate. reflexivity.
  Qed.

  Lemma upd_some : forall n t t', upd_entry refuse setf n t = Some (Some t') ->
    (forall p, p <> n -> lookup p t' = lookup p t) /\
    (exists e, lookup n t = Some e /\ lookup n t' = Some (setf e)).
  Proof.
    induction t as [|e t IH]; intros t' H; simpl in H; [discriminate|].
    destruct (str_eqb n (p_path e)) eqn:E.
    - destruct (refuse e); [discriminate|]. inversion H; subst; clear H.
      apply str_eqb_eq in E. split.
      + intros p Hp. simpl. rewrite setf_path.
        assert (X : str_eqb (p_path e) p = false) by (apply str_eqb_false; congruence). rewrite X. reflexivity.
      + exists e. simpl. rewrite setf_path. rewrite <- E. rewrite str_eqb_refl. auto.
    - destruct (upd_entry refuse setf n t) as [[t''|]|] eqn:U; try discriminate.
      inversion H; subst; clear H. destruct (IH t'' eq_refl) as [I1 [e0 [I2 I3]]].
      assert (E' : str_eqb (p_path e) n = false).
      { apply str_eqb_false. apply str_eqb_false in E. congruence. }
      split.
      + intros p Hp. simpl. destruct (str_eqb (p_path e) p); [reflexivity | apply I1; exact Hp].
      + exists e0. simpl. rewrite E'. auto.
  Qed.

  (** [Q p e]: the entry found for a name of the list is either a fresh one or an updated one *)
  Definition fresh_or_set (p : str) (e : pack) : Prop := e = mk p \/ exists e0, e = setf e0.

  Lemma add_loop_spec : forall names t added T,
    add_loop refuse setf mk names t added = Some T ->
    Forall (fun e => e = mk (p_path e)) added ->
    (forall p, ~ In p names -> lookup p T = lookup p (t ++ rev added)) /\
    (forall p, In p names -> exists e, lookup p T = Some e /\ fresh_or_set p e) /\
    (forall p e, lookup p t = Some e -> exists e', lookup p T = Some e' /\ (e' = e \/ exists e0, e' = setf e0 /\ p_path e0 = p)) /\
    (forall p e, lookup p T = Some e -> (exists e1, lookup p (t ++ rev added) = Some e1) \/ In p names).
  Proof.
    induction names as [|n r IH]; intros t added T H Hadd.
    - simpl in H. inversion H; subst; clear H. split; [auto|]. split; [intros p []|]. split.
      + intros p e Hl. exists e. rewrite lookup_app, Hl. auto.
      + intros p e Hl. left. eauto.
    - simpl in H. destruct (upd_entry refuse setf n t) as [[t'|]|] eqn:U; [|discriminate|].
      + (* updated in place *)
        destruct (upd_some _ _ _ U) as [U1 [e0 [U2 U3]]].
        destruct (IH _ _ _ H Hadd) as [I1 [I2 [I3 I4]]].
        split; [|split; [|split]].
        * intros p Hp. rewrite I1 by (intro X; apply Hp; right; exact X).
          rewrite !lookup_app. rewrite U1; [reflexivity|]. intro X. apply Hp. left. congruence.
        * intros p [Hp|Hp].
          -- subst p. destruct (I3 _ _ U3) as [e' [L [Eq|[e1 [Eq _]]]]].
             ++ exists e'. split; [exact L|]. right. exists e0. exact Eq.
             ++ exists e'. split; [exact L|]. right. exists e1. exact Eq.
          -- apply I2. exact Hp.
        * intros p e Hl. destruct (str_dec p n) as [E|E].
          -- subst p. rewrite U2 in Hl. inversion Hl; subst e0.
             destruct (I3 _ _ U3) as [e' [L [Eq|[e1 [Eq Pp]]]]].
             ++ exists e'. split; [exact L|]. right. exists e. split; [exact Eq|]. eapply lookup_path; eauto.
             ++ exists e'. split; [exact L|]. right. exists e1. auto.
          -- rewrite <- (U1 p E) in Hl. apply I3. exact Hl.
        * intros p e Hl. destruct (I4 _ _ Hl) as [[e1 L]|Hin]; [|right; right; exact Hin].
          destruct (str_dec p n) as [E|E]; [right; left; congruence|].
          left. rewrite lookup_app in L. rewrite (U1 p E) in L. rewrite lookup_app. eauto.
      + (* appended *)
        pose proof (upd_none _ _ U) as N.
        assert (Hadd' : Forall (fun e => e = mk (p_path e)) (mk n :: added)).
        { constructor; [rewrite mk_path; reflexivity | exact Hadd]. }
        destruct (IH _ _ _ H Hadd') as [I1 [I2 [I3 I4]]].
        assert (LK : forall p, p <> n -> lookup p (t ++ rev (mk n :: added)) = lookup p (t ++ rev added)).
        { intros p Hp. rewrite !lookup_app. destruct (lookup p t); [reflexivity|]. simpl rev. rewrite lookup_app.
          destruct (lookup p (rev added)); [reflexivity|]. simpl. rewrite mk_path.
          assert (X : str_eqb n p = false) by (apply str_eqb_false; congruence). rewrite X. reflexivity. }
        split; [|split; [|split]].
        * intros p Hp. rewrite I1 by (intro X; apply Hp; right; exact X). apply LK. intro X. apply Hp. left. congruence.
        * intros p [Hp|Hp]; [|apply I2; exact Hp]. subst p.
          destruct (in_dec str_dec n r) as [Hin|Hnin]; [apply I2; exact Hin|].
          rewrite (I1 _ Hnin). rewrite lookup_app, N. simpl rev. rewrite lookup_app.
          destruct (lookup n (rev added)) as [e1|] eqn:L1.
          -- exists e1. split; [reflexivity|]. left.
             assert (In e1 (rev added)).
             { clear -L1. induction (rev added) as [|x l IHl]; simpl in L1; [discriminate|].
               destruct (str_eqb (p_path x) n); [inversion L1; left; reflexivity | right; apply IHl; exact L1]. }
             rewrite Forall_forall in Hadd. rewrite (Hadd e1 ltac:(apply in_rev; exact H0)).
             rewrite (lookup_path _ _ _ L1). reflexivity.
          -- exists (mk n). simpl. rewrite mk_path, str_eqb_refl. split; [reflexivity | left; reflexivity].
        * intros p e Hl. apply I3. exact Hl.
        * intros p e Hl. destruct (I4 _ _ Hl) as [[e1 L]|Hin]; [|right; right; exact Hin].
          destruct (str_dec p n) as [E|E]; [right; left; congruence|].
          left. rewrite (LK p E) in L. eauto.
  Qed.

  Lemma add_loop_nil : forall names added,
    add_loop refuse setf mk names [] added = Some (rev added ++ map mk names).
  Proof.
    induction names as [|n r IH]; intro added; simpl.
    - rewrite app_nil_r. reflexivity.
    - rewrite IH. simpl. rewrite <- app_assoc. reflexivity.
  Qed.

  (** a field the update does not touch is kept for every entry that was in the table *)
  Section kept_field.
    Variables (A : Type) (f : pack -> A).
    Hypothesis f_setf : forall e, f (setf e) = f e.
    Lemma add_loop_keeps : forall names t added T p e,
      add_loop refuse setf mk names t added = Some T -> lookup p t = Some e ->
      exists e', lookup p T = Some e' /\ f e' = f e.
    Proof.
      induction names as [|n r IH]; intros t added T p e H Hl; simpl in H.
      - inversion H; subst. exists e. rewrite lookup_app, Hl. auto.
      - destruct (upd_entry refuse setf n t) as [[t'|]|] eqn:U; [|discriminate|].
        + destruct (upd_some _ _ _ U) as [U1 [e0 [U2 U3]]].
          destruct (str_dec p n) as [E|E].
          * subst p. rewrite U2 in Hl. inversion Hl; subst e0.
            destruct (IH _ _ _ _ _ H U3) as [e' [L F]]. exists e'. split; [exact L|]. rewrite F. apply f_setf.
          * rewrite <- (U1 p E) in Hl. eapply IH; eauto.
        + eapply IH; eauto.
    Qed.
  End kept_field.
End generic_loop.


Lemma add_comp_is_loop : forall names c t, add_comp names c t = add_loop has_comp (set_comp_of c) (mk_comp c) names t [].
Proof. intros. destruct t; [|reflexivity]. simpl. rewrite add_loop_nil. reflexivity. Qed.

Lemma add_chunk_is_loop : forall names k t, add_chunk names k t = add_loop has_chunk (set_chunk_of k) (mk_chunk k) names t [].
Proof. intros. destruct t; [|reflexivity]. simpl. rewrite add_loop_nil. reflexivity. Qed.

Definition RC (o : options) (p : str) (acc : option (Z * Z)) : Prop :=
  match acc with Some (t, i) => tbl_req_comp o p = Some {| c_type := t; c_info := i |} | None => True end.
Definition RK (o : options) (p : str) (acc : option (Z * list Z)) : Prop :=
  match acc with Some (r, l) => tbl_req_chunk o p = Some {| k_rank := r; k_lens := l |} | None => True end.

Lemma mentions_star : forall p names, has_star names = true -> mentions p names = true.
Proof. intros p names H. unfold mentions. unfold has_star in H. rewrite H. apply orb_true_r. Qed.

Lemma mentions_nostar : forall p names, has_star names = false -> mentions p names = existsb (str_eqb p) names.
Proof. intros p names H. unfold mentions. unfold has_star in H. rewrite H. apply orb_false_r. Qed.

Lemma addcomp_step : forall e o o' p accc acck,
  addcomp e o = Some o' -> RC o p accc -> RK o p acck ->
  RC o' p (if mentions p (ce_names e) then Some (ce_type e, ce_info e) else accc) /\ RK o' p acck /\
  (tbl_named o' p = true -> tbl_named o p = true \/ existsb (str_eqb p) (ce_names e) = true) /\ threshold o' = threshold o.
Proof.
  intros e o o' p accc acck H HC HK. unfold addcomp in H.
  destruct (all_comp o) eqn:Eac; [discriminate|].
  destruct (has_star (ce_names e)) eqn:Es.
  - destruct (1 <? zlen (ce_names e)); [discriminate|]. inversion H; subst; clear H.
    rewrite (mentions_star _ _ Es). split; [reflexivity|]. split.
    { destruct acck as [[r l]|]; [|exact I]. exact HK. }
    split; [auto | reflexivity].
  - rewrite add_comp_is_loop in H.
    destruct (add_loop has_comp (set_comp_of (Build_compinfo (ce_type e) (ce_info e))) (mk_comp (Build_compinfo (ce_type e) (ce_info e))) (ce_names e) (tbl o) []) as [T|] eqn:L; [|discriminate].
    inversion H; subst; clear H.
    destruct (add_loop_spec has_comp (set_comp_of (Build_compinfo (ce_type e) (ce_info e))) (mk_comp (Build_compinfo (ce_type e) (ce_info e))) (fun _ => eq_refl) (fun _ => eq_refl) _ _ _ _ L (Forall_nil _)) as [I1 [I2 [_ I4]]].
    rewrite (mentions_nostar _ _ Es).
    split; [|split; [|split; [|reflexivity]]].
    + destruct (existsb (str_eqb p) (ce_names e)) eqn:Ein.
      * apply existsb_str in Ein. destruct (I2 _ Ein) as [e1 [L1 Q]].
        unfold RC, tbl_req_comp. simpl. rewrite L1. f_equal.
        destruct Q as [Q|[e0 Q]]; subst e1; reflexivity.
      * assert (Hn : ~ In p (ce_names e)) by (intro X; apply existsb_str in X; congruence).
        destruct accc as [[t i]|]; [|exact I]. unfold RC, tbl_req_comp in *. simpl. rewrite Eac in HC.
        rewrite (I1 _ Hn). rewrite app_nil_r. exact HC.
    + destruct acck as [[r l]|]; [|exact I]. unfold RK, tbl_req_chunk in *. simpl.
      destruct (all_chunk o); [exact HK|].
      destruct (lookup p (tbl o)) as [e0|] eqn:L0; [|discriminate].
      destruct (add_loop_keeps has_comp (set_comp_of (Build_compinfo (ce_type e) (ce_info e))) (mk_comp (Build_compinfo (ce_type e) (ce_info e))) (fun _ => eq_refl) _ p_chunk (fun _ => eq_refl) _ _ _ _ _ _ L L0) as [e' [L' F]].
      rewrite L'. rewrite F. exact HK.
    + unfold tbl_named. simpl. intro Hn. destruct (lookup p T) as [e1|] eqn:L1; [|discriminate].
      destruct (I4 _ _ L1) as [[e2 L2]|Hin].
      * left. rewrite app_nil_r in L2. rewrite L2. reflexivity.
      * right. apply existsb_str. exact Hin.
Qed.

Lemma addchunk_step : forall e o o' p accc acck,
  addchunk e o = Some o' -> RC o p accc -> RK o p acck ->
  RK o' p (if mentions p (ke_names e) then Some (ke_rank e, ke_lens e) else acck) /\ RC o' p accc /\
  (tbl_named o' p = true -> tbl_named o p = true \/ existsb (str_eqb p) (ke_names e) = true) /\ threshold o' = threshold o.
Proof.
  intros e o o' p accc acck H HC HK. unfold addchunk in H.
  destruct (all_chunk o) eqn:Eac; [discriminate|].
  destruct (has_star (ke_names e)) eqn:Es.
  - destruct (1 <? zlen (ke_names e)); [discriminate|]. inversion H; subst; clear H.
    rewrite (mentions_star _ _ Es). split; [reflexivity|]. split.
    { destruct accc as [[t i]|]; [|exact I]. exact HC. }
    split; [auto | reflexivity].
  - rewrite add_chunk_is_loop in H.
    destruct (add_loop has_chunk (set_chunk_of (Build_chunkinfo (ke_rank e) (ke_lens e))) (mk_chunk (Build_chunkinfo (ke_rank e) (ke_lens e))) (ke_names e) (tbl o) []) as [T|] eqn:L; [|discriminate].
    inversion H; subst; clear H.
    destruct (add_loop_spec has_chunk (set_chunk_of (Build_chunkinfo (ke_rank e) (ke_lens e))) (mk_chunk (Build_chunkinfo (ke_rank e) (ke_lens e))) (fun _ => eq_refl) (fun _ => eq_refl) _ _ _ _ L (Forall_nil _)) as [I1 [I2 [_ I4]]].
    rewrite (mentions_nostar _ _ Es).
    split; [|split; [|split; [|reflexivity]]].
    + destruct (existsb (str_eqb p) (ke_names e)) eqn:Ein.
      * apply existsb_str in Ein. destruct (I2 _ Ein) as [e1 [L1 Q]].
        unfold RK, tbl_req_chunk. simpl. rewrite L1. f_equal.
        destruct Q as [Q|[e0 Q]]; subst e1; reflexivity.
      * assert (Hn : ~ In p (ke_names e)) by (intro X; apply existsb_str in X; congruence).
        destruct acck as [[r l]|]; [|exact I]. unfold RK, tbl_req_chunk in *. simpl. rewrite Eac in HK.
        rewrite (I1 _ Hn). rewrite app_nil_r. exact HK.
    + destruct accc as [[t i]|]; [|exact I]. unfold RC, tbl_req_comp in *. simpl.
      destruct (all_comp o); [exact HC|].
      destruct (lookup p (tbl o)) as [e0|] eqn:L0; [|discriminate].
      destruct (add_loop_keeps has_chunk (set_chunk_of (Build_chunkinfo (ke_rank e) (ke_lens e))) (mk_chunk (Build_chunkinfo (ke_rank e) (ke_lens e))) (fun _ => eq_refl) _ p_comp (fun _ => eq_refl) _ _ _ _ _ _ L L0) as [e' [L' F]].
      rewrite L'. rewrite F. exact HC.
    + unfold tbl_named. simpl. intro Hn. destruct (lookup p T) as [e1|] eqn:L1; [|discriminate].
      destruct (I4 _ _ L1) as [[e2 L2]|Hin].
      * left. rewrite app_nil_r in L2. rewrite L2. reflexivity.
      * right. apply existsb_str. exact Hin.
Qed.

Lemma build_entries_invariant : forall es o o' p accc acck,
  build_entries_from o es = Some o' -> RC o p accc -> RK o p acck ->
  RC o' p (req_comp es p accc) /\ RK o' p (req_chunk es p acck) /\
  (tbl_named o' p = true -> tbl_named o p = true \/ named es p = true) /\ threshold o' = threshold o.
Proof.
  induction es as [|[e|e] es IH]; intros o o' p accc acck H HC HK; simpl in H.
  - inversion H; subst. simpl. auto.
  - destruct (addcomp e o) as [o1|] eqn:A; [|discriminate].
    destruct (addcomp_step _ _ _ p accc acck A HC HK) as [C1 [K1 [N1 T1]]].
    destruct (IH _ _ p _ _ H C1 K1) as [C2 [K2 [N2 T2]]]. simpl.
    split; [exact C2|]. split; [exact K2|]. split; [|congruence].
    intro Hn. destruct (N2 Hn) as [X|X]; [|right; rewrite X; apply orb_true_r].
    destruct (N1 X) as [Y|Y]; [left; exact Y | right; rewrite Y; reflexivity].
  - destruct (addchunk e o) as [o1|] eqn:A; [|discriminate].
    destruct (addchunk_step _ _ _ p accc acck A HC HK) as [K1 [C1 [N1 T1]]].
    destruct (IH _ _ p _ _ H C1 K1) as [C2 [K2 [N2 T2]]]. simpl.
    split; [exact C2|]. split; [exact K2|]. split; [|congruence].
    intro Hn. destruct (N2 Hn) as [X|X]; [|right; rewrite X; apply orb_true_r].
    destruct (N1 X) as [Y|Y]; [left; exact Y | right; rewrite Y; reflexivity].
Qed.

Lemma build_reflects_lemma : forall es o,
  build_entries_from options_init es = Some o -> reflects o es (threshold o).
Proof.
  intros es o H. split; [reflexivity|]. intro p.
  destruct (build_entries_invariant es options_init o p None None H I I) as [C [K [N _]]].
  split; [|split].
  - intros t i E. rewrite E in C. exact C.
  - intros r l E. rewrite E in K. exact K.
  - intro Hn. destruct (N Hn) as [X|X]; [vm_compute in X; discriminate | exact X].
Qed.

(** decide_total_and_requested at full strength: for the option table hrepack builds from any request list, every
    successful layout decision meets the specification *)
Lemma decide_total_and_requested_lemma : forall es o k p i l,
  build_entries_from options_init es = Some o -> (k = KSds \/ k = KGr) -> o_rank i = rank_of k i ->
  decide o k p i = Some l -> meets es (threshold o) k p i l = true.
Proof.
  intros es o k p i l H Hk Hr Hd. eapply decide_meets_spec_lemma; eauto. apply build_reflects_lemma. exact H.
Qed.

(** * Traversal tags and metadata plumbing (round 2) *)
Lemma covered_In : forall tags by_, covered tags by_ = true -> forall t, In t tags -> In t by_.
Proof.
  intros tags by_ H t Hin. unfold covered in H. rewrite forallb_forall in H. specialize (H _ Hin).
  apply existsb_exists in H. destruct H as [x [Hx E]]. apply Z.eqb_eq in E. subst. exact Hx.
Qed.

Lemma traversal_tags_lemma :
  (forall t, In t insert_sds_tags -> In t list_sds_search_tags /\ In t compressible_tags) /\
  (forall t, In t insert_image_tags -> In t list_gr_search_tags /\ In t compressible_tags) /\
  (forall t, In t insert_vs_tags -> In t list_vs_search_tags) /\
  (forall t, In t insert_sds_tags -> ~ In t insert_image_tags).
Proof.
  split; [|split; [|split]].
  - intros t H. split; eapply covered_In; try exact H; vm_compute; reflexivity.
  - intros t H. split; eapply covered_In; try exact H; vm_compute; reflexivity.
  - intros t H. eapply covered_In; try exact H; vm_compute; reflexivity.
  - intros t H1 H2.
    assert (C : covered insert_sds_tags (filter (fun x => negb (existsb (Z.eqb x) insert_image_tags)) insert_sds_tags) = true)
      by (vm_compute; reflexivity).
    pose proof (covered_In _ _ C t H1) as F. apply filter_In in F. destruct F as [_ F].
    apply negb_true_iff in F.
    assert (existsb (Z.eqb t) insert_image_tags = true) by (apply existsb_exists; exists t; split; [exact H2 | apply Z.eqb_refl]).
    congruence.
Qed.

Lemma copy_plumbing_lemma : copy_gr_plumbing = true /\ copy_sds_plumbing = true /\ copy_vs_plumbing = true.
Proof. vm_compute. repeat split; reflexivity. Qed.

(** * The dimension-scale copy of copy_sds (round 3) *)
Lemma copy_sds_dim_plumbing_lemma :
  copy_sds_dim_plumbing = true /\
  (forall dtype dim_size, truth (sds_scale_guard dtype dim_size) = negb (dtype =? 0)).
Proof.
  split; [vm_compute; reflexivity|].
  intros dtype dim_size. unfold sds_scale_guard, truth. destruct (dtype =? 0); reflexivity.
Qed.

(** * Calls that must be reached (round 4) *)
Lemma palette_written_lemma :
  only_guard copy_gr_writelut_guards txt_has_pal = true /\ only_guard copy_gr_readlut_guards txt_has_pal = true.
Proof. vm_compute. split; reflexivity. Qed.

Lemma gr_file_attrs_reached_lemma :
  list_glb_gr_attrs_guards = [] /\ forallb benign_exit list_glb_exits_before_gr_attrs = true.
Proof. vm_compute. split; reflexivity. Qed.

Lemma gr_started_lemma : forall ni na, 0 <= ni -> 0 <= na ->
  truth (has_gr_elems ni na) = false -> ni = 0 /\ na = 0.
Proof.
  intros ni na Hi Ha H. unfold has_gr_elems, truth in H.
  destruct (0 <? ni) eqn:E1; destruct (0 <? na) eqn:E2; simpl in H; try discriminate.
  apply Z.ltb_ge in E1. apply Z.ltb_ge in E2. lia.
Qed.
