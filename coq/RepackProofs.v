(** C18 -- proofs about the hrepack model (RepackModel.v) and specification (RepackSpec.v). *)
From Coq Require Import ZArith List Bool Lia.
Require Import H4.gen.Gen_Repack H4.RepackSpec H4.RepackModel.
Import ListNotations.
Local Open Scope Z_scope.

(** * Induction over content trees (nested through [list]) *)
Section node_induction.
  Variable P : node -> Prop.
  Hypothesis H : forall k n c i ch, Forall P ch -> P (Node k n c i ch).
  Fixpoint node_ind' (t : node) : P t :=
    match t with
    | Node k n c i ch =>
        H k n c i ch ((fix go (l : list node) : Forall P l :=
                         match l with
                         | [] => Forall_nil P
                         | x :: r => Forall_cons x (node_ind' x) (go r)
                         end) ch)
    end.
End node_induction.

(** * Content preservation: any re-assignment of layouts keeps the content tree *)
Lemma map_layout_content : forall f t prefix, content_of (map_layout f prefix t) = content_of t.
Proof.
  intros f t. induction t as [k n c i ch IH] using node_ind'. intro prefix.
  assert (E : forall pf, map content_of (map (map_layout f pf) ch) = map content_of ch).
  { intro pf. rewrite map_map. apply map_ext_in. intros a Ha.
    rewrite Forall_forall in IH. apply IH. exact Ha. }
  destruct k; simpl; rewrite E; reflexivity.
Qed.

Lemma repack_preserves_content_lemma : forall o t t', repack o t = Some t' -> content_of t' = content_of t.
Proof.
  intros o t t' Hr. unfold repack in Hr.
  destruct (options_consistent o && names_ok o t && decisions_ok o None t); [|discriminate].
  inversion Hr; subst. apply map_layout_content.
Qed.

Lemma repack_idempotent_content_lemma : forall o1 o2 t t1 t2,
  repack o1 t = Some t1 -> repack o2 t1 = Some t2 -> content_of t2 = content_of t.
Proof.
  intros. rewrite (repack_preserves_content_lemma _ _ _ H0). apply (repack_preserves_content_lemma _ _ _ H).
Qed.
