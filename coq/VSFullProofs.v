(** C07 -- VSwrite lays the caller's records out in the file layout, VSread projects the byte stream into the caller's
    layout: all interlace combinations (cases A - E), through the model's entry points; and their composition. *)
From Coq Require Import ZArith List Bool Lia Arith.
Require Import H4.gen.Gen_VS H4.VSModel H4.VTableSpec H4.VSProofs H4.VSChunkProofs H4.VSLayoutProofs.
Require H4.ConvModel H4.ConvProofs.
Import ListNotations.
Local Open Scope Z_scope.

(** a buffer of n records at address 0: FULL_INTERLACE or NO_INTERLACE *)
Definition buf_side (il tot : Z) : side := mkside (il =? FULL_INTERLACE) 0 tot.

Lemma saddr_base : forall fu B T n o sz j w i b,
  saddr (mkside fu B T) n o sz j w i b = B + saddr (mkside fu 0 T) n o sz j w i b.
Proof. intros. unfold saddr, sbase, sstride. cbn. destruct fu; ring. Qed.

Lemma saddr_bounds : forall fu T n o sz j w i b,
  0 < n -> 0 <= o -> o + sz <= T -> 0 <= j * w + b < sz -> 0 <= i < n ->
  0 <= saddr (mkside fu 0 T) n o sz j w i b < n * T.
Proof. intros fu T n o sz j w i b Hn Ho HT Hc Hi. unfold saddr, sbase, sstride. cbn. destruct fu; nia. Qed.

(** for a single field at offset 0 whose size is the record size, both layouts coincide *)
Lemma saddr_single : forall fu T n j w i b, saddr (mkside fu 0 T) n 0 T j w i b = j * w + i * T + b.
Proof. intros. unfold saddr, sbase, sstride. cbn. destruct fu; ring. Qed.

(* ---- the case conditions of vrw.c, evaluated ---------------------------------------------------------- *)
Lemma il_cases : forall il, il = FULL_INTERLACE \/ il = NO_INTERLACE -> il = 0 \/ il = 1.
Proof. intros il [H|H]; rewrite H; [left|right]; reflexivity. Qed.

Lemma w_ec_single : forall uil fil, vswrite_ec_cond 1 uil fil = 1.
Proof. intros. unfold vswrite_ec_cond. cbn. reflexivity. Qed.
Lemma r_ec_single : forall uil fil, vsread_ec_cond 1 uil fil = 1.
Proof. intros. unfold vsread_ec_cond. cbn. reflexivity. Qed.

(* ---- one-shot transfers (cases A, B, D): the image / the delivered buffer ------------------------------ *)

Lemma wr_oneshot_image : forall fl ufull ffull n m vt m',
  Forall fld_ok fl -> offs_ok 0 fl -> 0 < n -> n * isum fl <= vt ->
  run_comps m (gen_comps (mkside ufull 0 (isum fl)) (mkside ffull vt (isum fl)) n (witems 0 fl)) n = Some m' ->
  forall f eo, In (f, eo) (foffs 0 fl) -> forall j I b, 0 <= j < w_order f -> 0 <= I < n -> 0 <= b < fw f ->
    nth (Z.to_nat (saddr (mkside ffull 0 (isum fl)) n (w_off f) (w_esize f) j (fw f) I b)) (mem_slice m' vt (isum fl * n)) 0 =
    m (saddr (mkside ufull 0 (isum fl)) n eo (w_esize f) j (fw f) I (cperm (fw f) (swap_of (w_type f) (fw f)) b)).
Proof.
  intros fl ufull ffull n m vt m' Hok Hoff Hn Hvt Hrun f eo Hin j I b Hj HI Hb.
  pose proof (isum_nonneg fl Hok) as Hnn.
  destruct (wr_case_spec fl (mkside ufull 0 (isum fl)) (mkside ffull vt (isum fl)) n m Hok Hoff Hn ltac:(cbn; lia) ltac:(cbn; lia)
              ltac:(left; cbn; lia)) as [m2 [Hm2 [Hhit _]]].
  rewrite Hrun in Hm2. inversion Hm2; subst m2. clear Hm2.
  assert (Hfo : fld_ok f) by (rewrite Forall_forall in Hok; apply Hok; eapply in_foffs_in; eassumption).
  field_facts f Hfo.
  destruct (offs_in fl 0 f Hok Hoff (in_foffs_in _ _ _ _ Hin) ltac:(lia)) as [Ho1 Ho2].
  assert (Hcell : 0 <= j * fw f + b < w_esize f) by (rewrite He; nia).
  pose proof (saddr_bounds ffull (isum fl) n (w_off f) (w_esize f) j (fw f) I b Hn Ho1 ltac:(lia) Hcell HI) as Hbd.
  rewrite mem_slice_nth by lia.
  rewrite <- saddr_base. apply Hhit; assumption.
Qed.

Lemma rd_oneshot_buffer : forall fl rl ffull ufull n m0 vt data m',
  Forall fld_ok fl -> offs_ok 0 fl -> rl_ok fl rl -> 0 < n -> n * rsum fl rl <= vt ->
  length data = Z.to_nat (n * isum fl) ->
  run_comps (load m0 vt data) (gen_comps (mkside ffull vt (isum fl)) (mkside ufull 0 (rsum fl rl)) n (ritems fl rl 0)) n = Some m' ->
  forall f uo, In (f, uo) (roffs fl rl 0) -> forall j I b, 0 <= j < w_order f -> 0 <= I < n -> 0 <= b < fw f ->
    m' (saddr (mkside ufull 0 (rsum fl rl)) n uo (w_esize f) j (fw f) I b) =
    nth (Z.to_nat (saddr (mkside ffull 0 (isum fl)) n (w_off f) (w_esize f) j (fw f) I (cperm (fw f) (swap_of (w_type f) (fw f)) b))) data 0.
Proof.
  intros fl rl ffull ufull n m0 vt data m' Hok Hoff Hrl Hn Hvt Hlen Hrun f uo Hin j I b Hj HI Hb.
  pose proof (isum_nonneg fl Hok) as Hnn. pose proof (rsum_nonneg fl rl Hok) as Hrn.
  destruct (rd_case_spec fl rl (mkside ffull vt (isum fl)) (mkside ufull 0 (rsum fl rl)) n (load m0 vt data) Hok Hoff Hrl Hn
              ltac:(cbn; lia) ltac:(cbn; lia) ltac:(right; cbn; lia)) as [m2 [Hm2 [Hhit _]]].
  rewrite Hrun in Hm2. inversion Hm2; subst m2. clear Hm2.
  rewrite (Hhit f uo Hin j I b Hj HI Hb).
  assert (Hfo : fld_ok f) by (rewrite Forall_forall in Hok; apply Hok; eapply in_roffs_in; eassumption).
  field_facts f Hfo.
  destruct (offs_in fl 0 f Hok Hoff (in_roffs_in _ _ _ _ _ Hin) ltac:(lia)) as [Ho1 Ho2].
  pose proof (perm_range (fw f) (swap_of (w_type f) (fw f)) b Hb) as Hp.
  assert (Hcell : 0 <= j * fw f + cperm (fw f) (swap_of (w_type f) (fw f)) b < w_esize f) by (rewrite He; nia).
  pose proof (saddr_bounds ffull (isum fl) n (w_off f) (w_esize f) j (fw f) I _ Hn Ho1 ltac:(lia) Hcell HI) as Hbd.
  rewrite saddr_base. apply load_in. rewrite Hlen. lia.
Qed.

(* ---- VSwrite through its entry point, two or more fields ---------------------------------------------- *)

Lemma w_conds : forall wn, (wn =? 1) = false ->
  vswrite_ec_cond wn 1 0 = 0 /\ vswrite_ec_cond wn 1 1 = 0 /\ vswrite_ec_cond wn 0 1 = 0 /\ vswrite_ec_cond wn 0 0 = 1.
Proof. intros wn H. unfold vswrite_ec_cond. rewrite H. cbn. auto. Qed.
Lemma r_conds : forall wn, (wn =? 1) = false ->
  vsread_ec_cond wn 1 0 = 0 /\ vsread_ec_cond wn 1 1 = 0 /\ vsread_ec_cond wn 0 1 = 0 /\ vsread_ec_cond wn 0 0 = 1.
Proof. intros wn H. unfold vsread_ec_cond. rewrite H. cbn. auto. Qed.

Lemma wr_a_gen0 : forall fl m vt n hs T, Forall fld_ok fl ->
  wr_a_fields fl m vt 0 n hs = run_comps m (gen_comps (mkside false 0 T) (mkside true vt hs) n (witems 0 fl)) n.
Proof. intros. pose proof (wr_a_gen fl m vt 0 0 n hs T H) as G. replace (0 + n * 0) with 0 in G by ring. exact G. Qed.
Lemma wr_b_gen0 : forall fl m vt n T T', Forall fld_ok fl ->
  wr_b_fields fl m vt 0 n = run_comps m (gen_comps (mkside false 0 T) (mkside false vt T') n (witems 0 fl)) n.
Proof. intros. pose proof (wr_b_gen fl m vt 0 0 n T T' H) as G. replace (0 + n * 0) with 0 in G by ring. exact G. Qed.
Lemma rd_a_gen0 : forall rl fl m vt n hs T, Forall fld_ok fl -> rl_ok fl rl ->
  rd_a_fields fl rl m vt 0 n hs = run_comps m (gen_comps (mkside true vt hs) (mkside false 0 T) n (ritems fl rl 0)) n.
Proof. intros. pose proof (rd_a_gen rl fl m vt 0 0 n hs T H H0) as G. replace (0 + n * 0) with 0 in G by ring. exact G. Qed.
Lemma rd_b_gen0 : forall rl fl m vt n T T', Forall fld_ok fl -> rl_ok fl rl ->
  rd_b_fields fl rl m vt 0 n = run_comps m (gen_comps (mkside false vt T') (mkside false 0 T) n (ritems fl rl 0)) n.
Proof. intros. pose proof (rd_b_gen rl fl m vt 0 0 n T T' H H0) as G. replace (0 + n * 0) with 0 in G by ring. exact G. Qed.

Lemma concat_single : forall (l : list Z), concat [l] = l.
Proof. intros. cbn. apply app_nil_r. Qed.

Lemma vswrite_image_multi : forall w fil uw nelt vtb pos nv ubuf r,
  Forall fld_ok (wl_fields w) -> offs_ok 0 (wl_fields w) -> wl_ivsize w = isum (wl_fields w) ->
  (2 <= length (wl_fields w))%nat -> (fil = 0 \/ fil = 1) -> (uw = 0 \/ uw = 1) -> 0 < nelt ->
  Z.of_nat (length ubuf) = nelt * isum (wl_fields w) ->
  m_vswrite w fil uw nelt vtb pos nv ubuf = Some r ->
  length (concat (wr_chunks r)) = Z.to_nat (nelt * isum (wl_fields w)) /\
  forall f eo, In (f, eo) (foffs 0 (wl_fields w)) -> forall j I b, 0 <= j < w_order f -> 0 <= I < nelt -> 0 <= b < fw f ->
    nth (Z.to_nat (saddr (buf_side fil (isum (wl_fields w))) nelt (w_off f) (w_esize f) j (fw f) I b)) (concat (wr_chunks r)) 0 =
    nth (Z.to_nat (saddr (buf_side uw (isum (wl_fields w))) nelt eo (w_esize f) j (fw f) I (cperm (fw f) (swap_of (w_type f) (fw f)) b))) ubuf 0.
Proof.
  intros w fil uw nelt vtb pos nv ubuf r Hok Hoff Hiv H2 Hfil Huw Hn Hlen Hw.
  remember (wl_fields w) as fl eqn:Efl.
  assert (Hne : fl <> []) by (intro E; rewrite E in H2; cbn in H2; lia).
  assert (A1 : (match fl with [] => true | _ :: _ => false end) = false) by (destruct fl; [congruence|reflexivity]).
  assert (Hwn : (Z.of_nat (length fl) =? 1) = false) by (apply Z.eqb_neq; lia).
  destruct (w_conds _ Hwn) as [C10 [C11 [C01 C00]]].
  pose proof (isum_pos fl Hok Hne) as Hpos.
  (* user-side cells are inside the caller's buffer *)
  assert (Hub : forall ufull f eo j I b, In (f, eo) (foffs 0 fl) -> 0 <= j < w_order f -> 0 <= I < nelt -> 0 <= b < fw f ->
            ConvModel.mem_of_list ubuf (saddr (mkside ufull 0 (isum fl)) nelt eo (w_esize f) j (fw f) I b) =
            nth (Z.to_nat (saddr (mkside ufull 0 (isum fl)) nelt eo (w_esize f) j (fw f) I b)) ubuf 0).
  { intros ufull f eo j I b Hin Hj HI Hb. apply mem_of_list_nth.
    assert (Hfo : fld_ok f) by (rewrite Forall_forall in Hok; apply Hok; eapply in_foffs_in; eassumption). field_facts f Hfo.
    destruct (foffs_bounds fl 0 f eo Hok ltac:(lia) Hin).
    assert (Hcell : 0 <= j * fw f + b < w_esize f) by (rewrite He; nia).
    pose proof (saddr_bounds ufull (isum fl) nelt eo (w_esize f) j (fw f) I b Hn ltac:(lia) ltac:(lia) Hcell HI). lia. }
  unfold m_vswrite in Hw. rewrite <- Efl in Hw. rewrite A1 in Hw.
  replace (nelt <=? 0) with false in Hw by (symmetry; apply Z.leb_gt; lia).
  assert (Hilok : ((uw =? NO_INTERLACE) || (uw =? FULL_INTERLACE)) = true) by (destruct Huw as [->| ->]; reflexivity).
  rewrite Hilok in Hw. cbn [negb orb] in Hw.
  unfold m_vswrite_mem in Hw. rewrite <- Efl in Hw. rewrite Hiv in Hw.
  destruct Hfil as [-> | ->]; destruct Huw as [-> | ->].
  - (* C: user full, file full *)
    change (vswrite_ec_cond (Z.of_nat (length fl)) 0 0) with (vswrite_ec_cond (Z.of_nat (length fl)) 0 0) in Hw.
    rewrite C00 in Hw. cbn [Z.eqb negb] in Hw. rewrite int_size_of_isum in Hw by assumption.
    destruct (wr_ec_chunks fl (ConvModel.mem_of_list ubuf) (Z.of_nat (length ubuf)) 0
                (p_chunks (write_plan (isum fl) nelt vtb)) (isum fl) (isum fl)) as [sl|] eqn:Ew; [|discriminate].
    inversion Hw; subst r. clear Hw. cbn [wr_chunks].
    destruct (write_plan_ok (isum fl) nelt vtb Hpos Hn) as [Hwp Hws].
    destruct (wr_chunks_spec _ fl (ConvModel.mem_of_list ubuf) (Z.of_nat (length ubuf)) 0 Hok Hoff Hwp ltac:(lia) ltac:(rewrite Hws; lia))
      as [sl0 [Hsl0 [Hl Hnth]]].
    rewrite Ew in Hsl0. inversion Hsl0; subst sl0. rewrite Hws in Hl, Hnth.
    split; [exact Hl|]. intros f eo Hin j I b Hj HI Hb.
    pose proof (perm_range (fw f) (swap_of (w_type f) (fw f)) b Hb) as Hp.
    replace (saddr (buf_side 0 (isum fl)) nelt (w_off f) (w_esize f) j (fw f) I b) with (I * isum fl + w_off f + j * fw f + b)
      by (unfold saddr, sbase, sstride, buf_side; cbn; ring).
    rewrite (Hnth f eo Hin j I b Hj HI Hb).
    change (buf_side 0 (isum fl)) with (mkside true 0 (isum fl)).
    rewrite <- (Hub true f eo j I _ Hin Hj HI Hp). f_equal. unfold saddr, sbase, sstride. cbn. ring.
  - (* A: user none, file full *)
    rewrite C10 in Hw. cbn [Z.eqb negb] in Hw.
    change (vswrite_caseA_cond 1 0) with 1 in Hw. cbn [Z.eqb negb] in Hw.
    rewrite (wr_a_gen0 fl _ _ nelt (isum fl) (isum fl) Hok) in Hw.
    destruct (run_comps _ _ nelt) as [m'|] eqn:Er; [|discriminate].
    inversion Hw; subst r. clear Hw. cbn [wr_chunks]. rewrite concat_single.
    split; [rewrite mem_slice_length; f_equal; ring|].
    intros f eo Hin j I b Hj HI Hb.
    pose proof (perm_range (fw f) (swap_of (w_type f) (fw f)) b Hb) as Hp.
    change (buf_side 0 (isum fl)) with (mkside true 0 (isum fl)). change (buf_side 1 (isum fl)) with (mkside false 0 (isum fl)).
    rewrite (wr_oneshot_image fl false true nelt (ConvModel.mem_of_list ubuf) (Z.of_nat (length ubuf)) m' Hok Hoff Hn ltac:(lia) Er f eo Hin j I b Hj HI Hb).
    apply Hub; assumption.
  - (* D: user full, file none *)
    rewrite C01 in Hw. cbn [Z.eqb negb] in Hw.
    change (vswrite_caseA_cond 0 1) with 0 in Hw. change (vswrite_caseB_cond 0 1) with 0 in Hw.
    change (vswrite_caseD_cond 0 1) with 1 in Hw. cbn [Z.eqb negb] in Hw.
    rewrite int_size_of_isum in Hw by assumption.
    rewrite (wr_d_gen fl _ _ 0 nelt (isum fl) (isum fl) Hok) in Hw.
    destruct (run_comps _ _ nelt) as [m'|] eqn:Er; [|discriminate].
    inversion Hw; subst r. clear Hw. cbn [wr_chunks]. rewrite concat_single.
    split; [rewrite mem_slice_length; f_equal; ring|].
    intros f eo Hin j I b Hj HI Hb.
    pose proof (perm_range (fw f) (swap_of (w_type f) (fw f)) b Hb) as Hp.
    change (buf_side 1 (isum fl)) with (mkside false 0 (isum fl)). change (buf_side 0 (isum fl)) with (mkside true 0 (isum fl)).
    rewrite (wr_oneshot_image fl true false nelt (ConvModel.mem_of_list ubuf) (Z.of_nat (length ubuf)) m' Hok Hoff Hn ltac:(lia) Er f eo Hin j I b Hj HI Hb).
    apply Hub; assumption.
  - (* B: user none, file none *)
    rewrite C11 in Hw. cbn [Z.eqb negb] in Hw.
    change (vswrite_caseA_cond 1 1) with 0 in Hw. change (vswrite_caseB_cond 1 1) with 1 in Hw. cbn [Z.eqb negb] in Hw.
    rewrite (wr_b_gen0 fl _ _ nelt (isum fl) (isum fl) Hok) in Hw.
    destruct (run_comps _ _ nelt) as [m'|] eqn:Er; [|discriminate].
    inversion Hw; subst r. clear Hw. cbn [wr_chunks]. rewrite concat_single.
    split; [rewrite mem_slice_length; f_equal; ring|].
    intros f eo Hin j I b Hj HI Hb.
    pose proof (perm_range (fw f) (swap_of (w_type f) (fw f)) b Hb) as Hp.
    change (buf_side 1 (isum fl)) with (mkside false 0 (isum fl)).
    rewrite (wr_oneshot_image fl false false nelt (ConvModel.mem_of_list ubuf) (Z.of_nat (length ubuf)) m' Hok Hoff Hn ltac:(lia) Er f eo Hin j I b Hj HI Hb).
    apply Hub; assumption.
Qed.

(* ---- VSread through its entry point, two or more fields ------------------------------------------------ *)

Lemma roffs_bounds : forall rl fl o f uo, Forall fld_ok fl -> 0 <= o -> In (f, uo) (roffs fl rl o) ->
  o <= uo /\ uo + w_esize f <= o + rsum fl rl.
Proof.
  induction rl as [|i0 t IHt]; intros fl o f uo Hok Ho Hi; [destruct Hi|].
  cbn [roffs rsum] in *. destruct (nthf fl i0) as [f0|] eqn:E; [|destruct Hi].
  assert (Hf0 : fld_ok f0) by (rewrite Forall_forall in Hok; apply Hok; eapply nthf_in; eassumption).
  field_facts f0 Hf0. pose proof (rsum_nonneg fl t Hok).
  destruct Hi as [E'|Hi]; [inversion E'; subst; nia|].
  destruct (IHt fl (o + w_esize f0) f uo Hok ltac:(nia) Hi); nia.
Qed.

Lemma vsread_projects_multi : forall w rl fil ur nelt vtb data vtb' lens out,
  Forall fld_ok (wl_fields w) -> offs_ok 0 (wl_fields w) -> wl_ivsize w = isum (wl_fields w) ->
  (2 <= length (wl_fields w))%nat -> rl_ok (wl_fields w) rl -> (fil = 0 \/ fil = 1) -> (ur = 0 \/ ur = 1) -> 0 < nelt ->
  length data = Z.to_nat (nelt * isum (wl_fields w)) ->
  m_vsread w rl fil ur nelt vtb data = Some (vtb', lens, out) ->
  forall f uo, In (f, uo) (roffs (wl_fields w) rl 0) -> forall j I b, 0 <= j < w_order f -> 0 <= I < nelt -> 0 <= b < fw f ->
    nth (Z.to_nat (saddr (buf_side ur (rsum (wl_fields w) rl)) nelt uo (w_esize f) j (fw f) I b)) out 0 =
    nth (Z.to_nat (saddr (buf_side fil (isum (wl_fields w))) nelt (w_off f) (w_esize f) j (fw f) I
                         (cperm (fw f) (swap_of (w_type f) (fw f)) b))) data 0.
Proof.
  intros w rl fil ur nelt vtb data vtb' lens out Hok Hoff Hiv H2 Hrl Hfil Hur Hn Hlen Hr f uo Hin j I b Hj HI Hb.
  remember (wl_fields w) as fl eqn:Efl.
  assert (Hne : fl <> []) by (intro E; rewrite E in H2; cbn in H2; lia).
  assert (A1 : (match fl with [] => true | _ :: _ => false end) = false) by (destruct fl; [congruence|reflexivity]).
  assert (A2 : match fl with [f0] => w_esize f0 | _ => rsum fl rl end = rsum fl rl)
    by (destruct fl as [|f1 [|f2 t]]; cbn [length] in H2; try lia; reflexivity).
  assert (A3 : user_size w rl nelt = nelt * rsum fl rl).
  { unfold user_size. rewrite <- Efl. clear - H2 Hrl.
    destruct fl as [|f1 [|f2 t]]; cbn [length] in H2; try lia. rewrite (uvsize_of_rsum _ rl Hrl). reflexivity. }
  assert (Hwn : (Z.of_nat (length fl) =? 1) = false) by (apply Z.eqb_neq; lia).
  destruct (r_conds _ Hwn) as [C10 [C11 [C01 C00]]].
  pose proof (isum_pos fl Hok Hne) as Hpos. pose proof (rsum_nonneg fl rl Hok) as Hrn.
  assert (Hfo : fld_ok f) by (rewrite Forall_forall in Hok; apply Hok; eapply in_roffs_in; eassumption). field_facts f Hfo.
  destruct (roffs_bounds rl fl 0 f uo Hok ltac:(lia) Hin) as [Hu1 Hu2].
  assert (Hcell : 0 <= j * fw f + b < w_esize f) by (rewrite He; nia).
  (* the delivered buffer is the first nelt * rsum bytes of memory *)
  assert (Hout : forall ufull (m' : ConvModel.mem),
            nth (Z.to_nat (saddr (mkside ufull 0 (rsum fl rl)) nelt uo (w_esize f) j (fw f) I b)) (mem_slice m' 0 (nelt * rsum fl rl)) 0 =
            m' (saddr (mkside ufull 0 (rsum fl rl)) nelt uo (w_esize f) j (fw f) I b)).
  { intros ufull m'.
    pose proof (saddr_bounds ufull (rsum fl rl) nelt uo (w_esize f) j (fw f) I b Hn ltac:(lia) ltac:(lia) Hcell HI).
    rewrite mem_slice_nth by lia. f_equal. }
  unfold m_vsread in Hr. rewrite <- Efl in Hr. rewrite A1 in Hr.
  replace (nelt <=? 0) with false in Hr by (symmetry; apply Z.leb_gt; lia).
  assert (Hilok : ((ur =? NO_INTERLACE) || (ur =? FULL_INTERLACE)) = true) by (destruct Hur as [->| ->]; reflexivity).
  rewrite Hilok in Hr. cbn [negb orb] in Hr. rewrite A3 in Hr.
  unfold m_vsread_mem in Hr. rewrite <- Efl in Hr. rewrite (uvsize_of_rsum fl rl Hrl) in Hr. rewrite Hiv in Hr.
  destruct Hfil as [-> | ->]; destruct Hur as [-> | ->].
  - (* C *)
    rewrite C00 in Hr. cbn [Z.eqb negb] in Hr. rewrite A2 in Hr.
    destruct (rd_ec_chunks fl rl (fun _ : Z => 238) (nelt * rsum fl rl) 0 (p_chunks (read_plan (isum fl) nelt vtb))
                data (isum fl) (rsum fl rl)) as [mr|] eqn:Er; [|discriminate].
    inversion Hr; subst vtb' lens out. clear Hr. cbn [rr_mem].
    destruct (read_plan_ok (isum fl) nelt vtb Hpos Hn) as [Hrp Hrs].
    destruct (rd_chunks_spec _ fl rl (fun _ : Z => 238) (nelt * rsum fl rl) 0 data Hok Hoff Hrl H2 Hrp ltac:(lia)
                ltac:(rewrite Hrs; lia) ltac:(rewrite Hrs; exact Hlen)) as [mr' [Hmr' [Hhit _]]].
    rewrite Er in Hmr'. inversion Hmr'; subst mr'. rewrite Hrs in Hhit.
    change (buf_side 0 (rsum fl rl)) with (mkside true 0 (rsum fl rl)). rewrite Hout.
    replace (saddr (mkside true 0 (rsum fl rl)) nelt uo (w_esize f) j (fw f) I b) with (0 + I * rsum fl rl + uo + j * fw f + b)
      by (unfold saddr, sbase, sstride; cbn; ring).
    rewrite (Hhit f uo Hin j I b Hj HI Hb). f_equal. f_equal. unfold saddr, sbase, sstride, buf_side. cbn. ring.
  - (* A *)
    rewrite C10 in Hr. cbn [Z.eqb negb] in Hr.
    change (vsread_caseA_cond 1 0) with 1 in Hr. cbn [Z.eqb negb] in Hr.
    rewrite (rd_a_gen0 rl fl _ _ nelt (isum fl) (rsum fl rl) Hok Hrl) in Hr.
    destruct (run_comps _ _ nelt) as [m'|] eqn:Er; [|discriminate].
    inversion Hr; subst vtb' lens out. clear Hr. cbn [rr_mem].
    change (buf_side 1 (rsum fl rl)) with (mkside false 0 (rsum fl rl)). change (buf_side 0 (isum fl)) with (mkside true 0 (isum fl)).
    rewrite Hout.
    exact (rd_oneshot_buffer fl rl true false nelt (fun _ : Z => 238) (nelt * rsum fl rl) data m' Hok Hoff Hrl Hn ltac:(lia) Hlen Er
             f uo Hin j I b Hj HI Hb).
  - (* D *)
    rewrite C01 in Hr. cbn [Z.eqb negb] in Hr.
    change (vsread_caseA_cond 0 1) with 0 in Hr. change (vsread_caseB_cond 0 1) with 0 in Hr.
    change (vsread_caseD_cond 0 1) with 1 in Hr. cbn [Z.eqb negb] in Hr.
    rewrite (rd_d_gen rl fl _ _ 0 nelt (rsum fl rl) (isum fl) Hok Hrl) in Hr.
    destruct (run_comps _ _ nelt) as [m'|] eqn:Er; [|discriminate].
    inversion Hr; subst vtb' lens out. clear Hr. cbn [rr_mem].
    change (buf_side 0 (rsum fl rl)) with (mkside true 0 (rsum fl rl)). change (buf_side 1 (isum fl)) with (mkside false 0 (isum fl)).
    rewrite Hout.
    exact (rd_oneshot_buffer fl rl false true nelt (fun _ : Z => 238) (nelt * rsum fl rl) data m' Hok Hoff Hrl Hn ltac:(lia) Hlen Er
             f uo Hin j I b Hj HI Hb).
  - (* B *)
    rewrite C11 in Hr. cbn [Z.eqb negb] in Hr.
    change (vsread_caseA_cond 1 1) with 0 in Hr. change (vsread_caseB_cond 1 1) with 1 in Hr. cbn [Z.eqb negb] in Hr.
    rewrite (rd_b_gen0 rl fl _ _ nelt (rsum fl rl) (isum fl) Hok Hrl) in Hr.
    destruct (run_comps _ _ nelt) as [m'|] eqn:Er; [|discriminate].
    inversion Hr; subst vtb' lens out. clear Hr. cbn [rr_mem].
    change (buf_side 1 (rsum fl rl)) with (mkside false 0 (rsum fl rl)). change (buf_side 1 (isum fl)) with (mkside false 0 (isum fl)).
    rewrite Hout.
    exact (rd_oneshot_buffer fl rl false false nelt (fun _ : Z => 238) (nelt * rsum fl rl) data m' Hok Hoff Hrl Hn ltac:(lia) Hlen Er
             f uo Hin j I b Hj HI Hb).
Qed.

(* ---- a single field (case E): every interlace combination takes the chunked path ----------------------- *)

Lemma rd_e_chunks_spec : forall chunks f rl m vt P data,
  fld_ok f -> w_off f = 0 -> Forall (fun c => 0 < c) chunks -> 0 <= P ->
  P + zsum chunks * w_esize f <= vt -> length data = Z.to_nat (zsum chunks * w_isize f) ->
  exists m', rd_ec_chunks [f] rl m vt P chunks data (w_isize f) (w_esize f) = Some m' /\
    (forall j I b, 0 <= j < w_order f -> 0 <= I < zsum chunks -> 0 <= b < fw f ->
       m' (P + I * w_esize f + j * fw f + b) =
       nth (Z.to_nat (I * w_isize f + j * fw f + cperm (fw f) (swap_of (w_type f) (fw f)) b)) data 0) /\
    (forall a, a < P -> m' a = m a).
Proof.
  induction chunks as [|c rest IH]; intros f rl m vt P data Hf Hoff Hpos HP Hfit Hlen.
  - exists m. split; [reflexivity|]. split; [intros; cbn in *; lia|reflexivity].
  - inversion Hpos as [|? ? Hc Hrest]; subst. field_facts f Hf.
    assert (Hsz : 0 <= w_esize f) by nia.
    cbn [zsum fold_right] in Hfit, Hlen. fold (zsum rest) in Hfit, Hlen.
    assert (Hzr : 0 <= zsum rest).
    { clear - Hrest. unfold zsum. induction Hrest; cbn; lia. }
    set (bytes := Z.to_nat (w_isize f * c)).
    set (m1 := load m vt (firstn bytes data)).
    assert (Hfl' : length (firstn bytes data) = bytes).
    { rewrite firstn_length. unfold bytes. nia. }
    destruct (rd_e_spec f m1 vt P c Hf Hc ltac:(left; nia)) as [m2 [Hm2 [Hhit Hframe]]].
    destruct (IH f rl m2 vt (P + c * w_esize f) (skipn bytes data) Hf Hoff Hrest ltac:(nia) ltac:(nia))
      as [m' [Hm' [Hhit' Hframe']]].
    { rewrite skipn_length, Hlen. unfold bytes. nia. }
    exists m'. split.
    + cbn [rd_ec_chunks]. fold bytes. fold m1. rewrite Hm2. exact Hm'.
    + split.
      * intros j I b Hj HI Hb.
        assert (HI' : 0 <= I < c + zsum rest) by exact HI. clear HI.
        pose proof (perm_range (fw f) (swap_of (w_type f) (fw f)) b Hb) as Hp.
        set (pb := cperm (fw f) (swap_of (w_type f) (fw f)) b) in *.
        assert (Hcell : 0 <= j * fw f + pb < w_isize f) by nia.
        assert (Hcell2 : 0 <= j * fw f + b < w_esize f) by nia.
        destruct (Z_lt_ge_dec I c) as [Hlt|Hge].
        -- rewrite Hframe' by nia.
           replace (P + I * w_esize f + j * fw f + b) with (P + j * fw f + I * w_esize f + b) by ring.
           rewrite (Hhit j I b Hj ltac:(lia) Hb). fold pb. unfold m1.
           replace (vt + j * fw f + I * w_isize f + pb) with (vt + (I * w_isize f + j * fw f + pb)) by ring.
           rewrite load_in by (rewrite Hfl'; unfold bytes; nia).
           apply nth_firstn_lt. unfold bytes. nia.
        -- replace (P + I * w_esize f + j * fw f + b) with (P + c * w_esize f + (I - c) * w_esize f + j * fw f + b) by ring.
           rewrite (Hhit' j (I - c) b Hj ltac:(lia) Hb). fold pb.
           rewrite nth_skipn_add. f_equal. unfold bytes. nia.
      * intros a Ha. rewrite Hframe' by nia. rewrite Hframe by (left; lia).
        unfold m1. apply load_out. left. nia.
Qed.

Lemma vswrite_image_single : forall w f fil uw nelt vtb pos nv ubuf r,
  wl_fields w = [f] -> fld_ok f -> w_off f = 0 -> wl_ivsize w = w_isize f ->
  (uw = 0 \/ uw = 1) -> 0 < nelt -> Z.of_nat (length ubuf) = nelt * w_esize f ->
  m_vswrite w fil uw nelt vtb pos nv ubuf = Some r ->
  length (concat (wr_chunks r)) = Z.to_nat (nelt * w_isize f) /\
  forall j I b, 0 <= j < w_order f -> 0 <= I < nelt -> 0 <= b < fw f ->
    nth (Z.to_nat (I * w_isize f + j * fw f + b)) (concat (wr_chunks r)) 0 =
    nth (Z.to_nat (I * w_esize f + j * fw f + cperm (fw f) (swap_of (w_type f) (fw f)) b)) ubuf 0.
Proof.
  intros w f fil uw nelt vtb pos nv ubuf r Efl Hf Hoff Hiv Huw Hn Hlen Hw. field_facts f Hf.
  assert (Hok : Forall fld_ok [f]) by (constructor; [assumption|constructor]).
  assert (Hofs : offs_ok 0 [f]) by (cbn; auto).
  assert (Hsum : isum [f] = w_isize f) by (cbn; lia).
  assert (Hpos : 0 < w_isize f) by nia.
  unfold m_vswrite in Hw. rewrite Efl in Hw.
  replace (nelt <=? 0) with false in Hw by (symmetry; apply Z.leb_gt; lia).
  assert (Hilok : ((uw =? NO_INTERLACE) || (uw =? FULL_INTERLACE)) = true) by (destruct Huw as [->| ->]; reflexivity).
  rewrite Hilok in Hw. cbn [negb orb] in Hw.
  unfold m_vswrite_mem in Hw. rewrite Efl in Hw. cbn [length Z.of_nat Pos.of_succ_nat] in Hw.
  rewrite w_ec_single in Hw. cbn [Z.eqb negb] in Hw. rewrite Hiv in Hw.
  rewrite int_size_of_isum in Hw by assumption. rewrite Hsum in Hw.
  destruct (wr_ec_chunks [f] (ConvModel.mem_of_list ubuf) (Z.of_nat (length ubuf)) 0
              (p_chunks (write_plan (w_isize f) nelt vtb)) (w_isize f) (w_isize f)) as [sl|] eqn:Ew; [|discriminate].
  inversion Hw; subst r. clear Hw. cbn [wr_chunks].
  destruct (write_plan_ok (w_isize f) nelt vtb Hpos Hn) as [Hwp Hws].
  destruct (wr_chunks_spec _ [f] (ConvModel.mem_of_list ubuf) (Z.of_nat (length ubuf)) 0 Hok Hofs Hwp ltac:(lia)
              ltac:(rewrite Hws, Hsum; lia)) as [sl0 [Hsl0 [Hl Hnth]]].
  rewrite Hsum in Hsl0. rewrite Ew in Hsl0. inversion Hsl0; subst sl0. rewrite Hws, Hsum in Hl. rewrite Hws in Hnth.
  split; [exact Hl|]. intros j I b Hj HI Hb.
  pose proof (perm_range (fw f) (swap_of (w_type f) (fw f)) b Hb) as Hp.
  specialize (Hnth f 0 (or_introl eq_refl) j I b Hj HI Hb). rewrite Hsum, Hoff in Hnth.
  replace (I * w_isize f + 0 + j * fw f + b) with (I * w_isize f + j * fw f + b) in Hnth by ring.
  rewrite Hnth. rewrite mem_of_list_nth by nia. f_equal. f_equal. lia.
Qed.

Lemma vsread_projects_single : forall w f rl fil ur nelt vtb data vtb' lens out,
  wl_fields w = [f] -> fld_ok f -> w_off f = 0 -> wl_ivsize w = w_isize f -> rl_ok [f] rl ->
  (ur = 0 \/ ur = 1) -> 0 < nelt -> length data = Z.to_nat (nelt * w_isize f) ->
  m_vsread w rl fil ur nelt vtb data = Some (vtb', lens, out) ->
  forall j I b, 0 <= j < w_order f -> 0 <= I < nelt -> 0 <= b < fw f ->
    nth (Z.to_nat (I * w_esize f + j * fw f + b)) out 0 =
    nth (Z.to_nat (I * w_isize f + j * fw f + cperm (fw f) (swap_of (w_type f) (fw f)) b)) data 0.
Proof.
  intros w f rl fil ur nelt vtb data vtb' lens out Efl Hf Hoff Hiv Hrl Hur Hn Hlen Hr j I b Hj HI Hb. field_facts f Hf.
  assert (Hpos : 0 < w_isize f) by nia.
  assert (Hok : Forall fld_ok [f]) by (constructor; [assumption|constructor]).
  unfold m_vsread in Hr. rewrite Efl in Hr.
  replace (nelt <=? 0) with false in Hr by (symmetry; apply Z.leb_gt; lia).
  assert (Hilok : ((ur =? NO_INTERLACE) || (ur =? FULL_INTERLACE)) = true) by (destruct Hur as [->| ->]; reflexivity).
  rewrite Hilok in Hr. cbn [negb orb] in Hr.
  unfold user_size in Hr. rewrite Efl in Hr.
  unfold m_vsread_mem in Hr. rewrite Efl in Hr. rewrite (uvsize_of_rsum [f] rl Hrl) in Hr.
  cbn [length Z.of_nat Pos.of_succ_nat] in Hr. rewrite r_ec_single in Hr. cbn [Z.eqb negb] in Hr. rewrite Hiv in Hr.
  destruct (rd_ec_chunks [f] rl (fun _ : Z => 238) (nelt * w_esize f) 0 (p_chunks (read_plan (w_isize f) nelt vtb))
              data (w_isize f) (w_esize f)) as [mr|] eqn:Er; [|discriminate].
  inversion Hr; subst vtb' lens out. clear Hr. cbn [rr_mem].
  destruct (read_plan_ok (w_isize f) nelt vtb Hpos Hn) as [Hrp Hrs].
  destruct (rd_e_chunks_spec _ f rl (fun _ : Z => 238) (nelt * w_esize f) 0 data Hf Hoff Hrp ltac:(lia)
              ltac:(rewrite Hrs; lia) ltac:(rewrite Hrs; exact Hlen)) as [mr' [Hmr' [Hhit _]]].
  rewrite Er in Hmr'. inversion Hmr'; subst mr'. rewrite Hrs in Hhit.
  rewrite mem_slice_nth by nia.
  rewrite <- (Hhit j I b Hj HI Hb). try (f_equal; ring).
Qed.

(* ---- read after write ------------------------------------------------------------------------------ *)

Lemma vsread_after_vswrite_lemma : forall w rl fil uw ur nelt vtbW pos nv ubuf r vtbR vtbR' lens out,
  Forall fld_ok (wl_fields w) -> offs_ok 0 (wl_fields w) -> wl_ivsize w = isum (wl_fields w) ->
  (2 <= length (wl_fields w))%nat -> rl_ok (wl_fields w) rl ->
  (fil = 0 \/ fil = 1) -> (uw = 0 \/ uw = 1) -> (ur = 0 \/ ur = 1) -> 0 < nelt ->
  Z.of_nat (length ubuf) = nelt * isum (wl_fields w) ->
  m_vswrite w fil uw nelt vtbW pos nv ubuf = Some r ->
  m_vsread w rl fil ur nelt vtbR (concat (wr_chunks r)) = Some (vtbR', lens, out) ->
  forall f eo uo, In (f, eo) (foffs 0 (wl_fields w)) -> In (f, uo) (roffs (wl_fields w) rl 0) ->
  forall j I b, 0 <= j < w_order f -> 0 <= I < nelt -> 0 <= b < fw f ->
    nth (Z.to_nat (saddr (buf_side ur (rsum (wl_fields w) rl)) nelt uo (w_esize f) j (fw f) I b)) out 0 =
    nth (Z.to_nat (saddr (buf_side uw (isum (wl_fields w))) nelt eo (w_esize f) j (fw f) I b)) ubuf 0.
Proof.
  intros w rl fil uw ur nelt vtbW pos nv ubuf r vtbR vtbR' lens out Hok Hoff Hiv H2 Hrl Hfil Huw Hur Hn Hlen Hw Hr
         f eo uo Hfe Hfu j I b Hj HI Hb.
  destruct (vswrite_image_multi w fil uw nelt vtbW pos nv ubuf r Hok Hoff Hiv H2 Hfil Huw Hn Hlen Hw) as [Hl Himg].
  rewrite (vsread_projects_multi w rl fil ur nelt vtbR _ vtbR' lens out Hok Hoff Hiv H2 Hrl Hfil Hur Hn Hl Hr f uo Hfu j I b Hj HI Hb).
  pose proof (perm_range (fw f) (swap_of (w_type f) (fw f)) b Hb) as Hp.
  rewrite (Himg f eo Hfe j I _ Hj HI Hp). rewrite ConvProofs.perm_involutive. reflexivity.
Qed.

Lemma vsread_after_vswrite_single_lemma : forall w f rl fil uw ur nelt vtbW pos nv ubuf r vtbR vtbR' lens out,
  wl_fields w = [f] -> fld_ok f -> w_off f = 0 -> wl_ivsize w = w_isize f -> rl_ok [f] rl ->
  (uw = 0 \/ uw = 1) -> (ur = 0 \/ ur = 1) -> 0 < nelt -> Z.of_nat (length ubuf) = nelt * w_esize f ->
  m_vswrite w fil uw nelt vtbW pos nv ubuf = Some r ->
  m_vsread w rl fil ur nelt vtbR (concat (wr_chunks r)) = Some (vtbR', lens, out) ->
  forall j I b, 0 <= j < w_order f -> 0 <= I < nelt -> 0 <= b < fw f ->
    nth (Z.to_nat (I * w_esize f + j * fw f + b)) out 0 = nth (Z.to_nat (I * w_esize f + j * fw f + b)) ubuf 0.
Proof.
  intros w f rl fil uw ur nelt vtbW pos nv ubuf r vtbR vtbR' lens out Efl Hf Hoff Hiv Hrl Huw Hur Hn Hlen Hw Hr j I b Hj HI Hb.
  destruct (vswrite_image_single w f fil uw nelt vtbW pos nv ubuf r Efl Hf Hoff Hiv Huw Hn Hlen Hw) as [Hl Himg].
  rewrite (vsread_projects_single w f rl fil ur nelt vtbR _ vtbR' lens out Efl Hf Hoff Hiv Hrl Hur Hn Hl Hr j I b Hj HI Hb).
  pose proof (perm_range (fw f) (swap_of (w_type f) (fw f)) b Hb) as Hp.
  rewrite (Himg j I _ Hj HI Hp). rewrite ConvProofs.perm_involutive. reflexivity.
Qed.

(* ---- the specification's table uses the same cell addresses -------------------------------------------- *)

Lemma offs_from_length : forall sz o, length (offs_from o sz) = length sz.
Proof. induction sz as [|s t IH]; intros o; [reflexivity|]. cbn. f_equal. apply IH. Qed.

Lemma offs_from_nth : forall sz o p, (p < length sz)%nat -> nth p (offs_from o sz) 0%nat = (o + VTableSpec.sum (firstn p sz))%nat.
Proof.
  induction sz as [|s t IH]; intros o p Hp; [cbn in Hp; lia|].
  destruct p; cbn [offs_from nth firstn VTableSpec.sum fold_right]; [lia|].
  rewrite IH by (cbn in Hp; lia). unfold VTableSpec.sum. lia.
Qed.

Lemma slice_nth : forall (l : list Z) off len k, (k < len)%nat -> nth k (slice l off len) 0 = nth (off + k) l 0.
Proof. intros l off len k Hk. unfold slice. rewrite nth_firstn_lt by assumption. apply nth_skipn_add. Qed.

(** S: byte k of field p of record I of the table parsed from a flat buffer is the byte of the buffer at
      I * recsize + off_p + k       (FULL_INTERLACE)
      n * off_p + I * size_p + k    (NO_INTERLACE),      off_p = sum of the sizes before p
    -- the address function [saddr] of the model-level theorems. *)
Lemma spec_parse_cell : forall full sz n buf I p k, (I < n)%nat -> (p < length sz)%nat -> (k < nth p sz 0)%nat ->
  nth k (nth p (nth I (parse full sz n buf) []) []) 0 =
  nth ((if full then I * VTableSpec.sum sz + VTableSpec.sum (firstn p sz)
        else n * VTableSpec.sum (firstn p sz) + I * nth p sz 0) + k)%nat buf 0.
Proof.
  intros full sz n buf I p k HI Hp Hk. unfold parse.
  rewrite (nth_indep _ [] (map (fun os => slice buf (if full then 0 * VTableSpec.sum sz + fst os else n * fst os + 0 * snd os) (snd os))
                               (combine (offs_from 0 sz) sz))) by (rewrite map_length, seq_length; exact HI).
  rewrite (map_nth (fun i => map (fun os => slice buf (if full then i * VTableSpec.sum sz + fst os else n * fst os + i * snd os) (snd os))
                               (combine (offs_from 0 sz) sz)) (seq 0 n) 0%nat I).
  rewrite seq_nth by exact HI. cbn [Nat.add].
  assert (Hc : length (combine (offs_from 0 sz) sz) = length sz) by (rewrite combine_length, offs_from_length; lia).
  rewrite (nth_indep _ [] ((fun os => slice buf (if full then I * VTableSpec.sum sz + fst os else n * fst os + I * snd os) (snd os)) (0%nat, 0%nat)))
    by (rewrite map_length, Hc; exact Hp).
  rewrite (map_nth (fun os => slice buf (if full then I * VTableSpec.sum sz + fst os else n * fst os + I * snd os) (snd os))).
  rewrite combine_nth by apply offs_from_length. cbn [fst snd].
  rewrite offs_from_nth by exact Hp. cbn [Nat.add].
  rewrite slice_nth by exact Hk. destruct full; reflexivity.
Qed.
