(** C05 -- implementation model of the READ side of hbitio.c at the level of its 4096-byte block buffer:
    Hstartbitread (pre-read of the first block), the refill inside Hbitread with its block_offset / buf_read
    bookkeeping, and Hbitseek (same block: move bytep; other block: Hseek + Hread of the block).  No proofs here.
    The bit manipulation itself is the one of CompCodecModel.br_read; CompBitbufProofs shows that this model
    refines it.  The underlying data element is the byte list [elt]; Hread on it delivers at most what is left. *)
From Coq Require Import ZArith List Bool.
Require Import H4.gen.Gen_Comp H4.CompSpec H4.CompCodecModel.
Import ListNotations.
Local Open Scope Z_scope.

Record bbuf := mk_bbuf {
  bb_pos : Z;        (* position of the underlying access id                      *)
  bb_buf : list Z;   (* bytea[0 .. BITBUF_SIZE)                                    *)
  bb_bytep : Z;      (* bytep - bytea                                              *)
  bb_bytez : Z;      (* bytez - bytea                                              *)
  bb_block : Z;      (* block_offset                                               *)
  bb_read : Z;       (* buf_read                                                   *)
  bb_off : Z;        (* byte_offset                                                *)
  bb_max : Z;        (* max_offset                                                 *)
  bb_bits : Z;
  bb_count : Z }.

(** Hread(acc_id, n, bytea) on an ordinary element at position pos (n = 0 means "to the end") *)
Definition hread (elt : list Z) (pos n : Z) : list Z :=
  let left := zlen elt - pos in
  ztake (if (n =? 0) || (left <? n) then left else n) (zdrop pos elt).
Definition blit (buf data : list Z) : list Z := data ++ zdrop (zlen data) buf.

Definition bb_start (elt : list Z) : bbuf :=
  let max := zlen elt in
  if 0 <? max then
    let data := hread elt 0 (Z.min max BITBUF_SIZE) in
    mk_bbuf (zlen data) (blit (repeat 0 (Z.to_nat BITBUF_SIZE)) data) 0 BITBUF_SIZE 0 (zlen data) 0 max 0 0
  else mk_bbuf 0 (repeat 0 (Z.to_nat BITBUF_SIZE)) BITBUF_SIZE BITBUF_SIZE 0 0 0 max 0 0.

(** "if (bytep == bytez) { n = Hread(BITBUF_SIZE); block_offset += buf_read; bytez = bytea + n; bytep = bytea;
    buf_read = n; }  l = *bytep++;  byte_offset++;  if (byte_offset > max_offset) max_offset = byte_offset;" *)
Definition bb_fetch (elt : list Z) (s : bbuf) : bbuf * Z :=
  let s1 :=
    if bb_bytep s =? bb_bytez s then
      let data := hread elt (bb_pos s) BITBUF_SIZE in
      mk_bbuf (bb_pos s + zlen data) (blit (bb_buf s) data) 0 (zlen data) (bb_block s + bb_read s) (zlen data)
              (bb_off s) (bb_max s) (bb_bits s) (bb_count s)
    else s in
  let l := match zdrop (bb_bytep s1) (bb_buf s1) with x :: _ => x | [] => 0 end in
  let off := bb_off s1 + 1 in
  (mk_bbuf (bb_pos s1) (bb_buf s1) (bb_bytep s1 + 1) (bb_bytez s1) (bb_block s1) (bb_read s1) off
           (if bb_max s1 <? off then off else bb_max s1) (bb_bits s1) (bb_count s1), l).

Fixpoint bb_whole (fuel : nat) (elt : list Z) (s : bbuf) (b count : Z) : bbuf * Z * Z :=
  match fuel with
  | O => (s, b, count)
  | S f => if BITNUM <=? count then
             let '(s1, l) := bb_fetch elt s in
             bb_whole f elt s1 (Z.lor b (Z.shiftl l (count - BITNUM))) (count - BITNUM)
           else (s, b, count)
  end.

Definition bb_set (s : bbuf) (bits count : Z) : bbuf :=
  mk_bbuf (bb_pos s) (bb_buf s) (bb_bytep s) (bb_bytez s) (bb_block s) (bb_read s) (bb_off s) (bb_max s) bits count.

(** Hbitread in read mode *)
Definition bb_readbits (elt : list Z) (s : bbuf) (count0 : Z) : bbuf * Z :=
  let count := if DATANUM <? count0 then DATANUM else count0 in
  if count <=? bb_count s then
    (bb_set s (bb_bits s) (bb_count s - count),
     Z.land (Z.shiftr (bb_bits s) (bb_count s - count)) (tab maskc count))
  else
    let c1 := if 0 <? bb_count s then count - bb_count s else count in
    let b0 := if 0 <? bb_count s then Z.shiftl (Z.land (bb_bits s) (tab maskc (bb_count s))) c1 else 0 in
    let '(s1, b, c2) := bb_whole 4 elt s b0 c1 in
    if 0 <? c2 then
      let '(s2, l) := bb_fetch elt s1 in
      (bb_set s2 l (BITNUM - c2), Z.lor b (Z.shiftr l (BITNUM - c2)))
    else (bb_set s1 (bb_bits s1) 0, b).

(** Hbitseek in read mode *)
Definition bb_seek (elt : list Z) (s : bbuf) (byte bit : Z) : option bbuf :=
  if (byte <? 0) || (bit <? 0) || (BITNUM - 1 <? bit) || (bb_max s <? byte) then None else
  let new_block := negb (hbitseek_new_block byte (bb_block s) =? 0) in     (* the test itself is regenerated from hbitio.c *)
  let s1 :=
    if new_block then
      let seek_pos := (byte / BITBUF_SIZE) * BITBUF_SIZE in
      let data := hread elt seek_pos (Z.min (bb_max s - seek_pos) BITBUF_SIZE) in
      mk_bbuf (seek_pos + zlen data) (blit (bb_buf s) data) 0 (zlen data) seek_pos (zlen data)
              (bb_off s) (bb_max s) (bb_bits s) (bb_count s)
    else s in
  let p := byte - bb_block s1 in
  if 0 <? bit then
    let l := match zdrop p (bb_buf s1) with x :: _ => x | [] => 0 end in
    Some (mk_bbuf (bb_pos s1) (bb_buf s1) (p + 1) (bb_bytez s1) (bb_block s1) (bb_read s1) byte (bb_max s1) l (BITNUM - bit))
  else
    Some (mk_bbuf (bb_pos s1) (bb_buf s1) p (bb_bytez s1) (bb_block s1) (bb_read s1) byte (bb_max s1) (bb_bits s1) 0).

(** a read session on one bit access id *)
Inductive bbop := BBr (c : Z) | BBs (byte bit : Z).
Fixpoint bb_run (elt : list Z) (s : bbuf) (ops : list bbop) : option (list Z) :=
  match ops with
  | [] => Some []
  | BBr c :: t => let '(s', v) := bb_readbits elt s c in
                  match bb_run elt s' t with None => None | Some r => Some (v :: r) end
  | BBs by_ bi :: t => match bb_seek elt s by_ bi with None => None | Some s' => bb_run elt s' t end
  end.
