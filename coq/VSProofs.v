(** C07 -- proofs about the Vdata model (VSModel.v) and the table specification (VTableSpec.v). *)
From Coq Require Import ZArith List Bool Lia Arith.
Require Import H4.gen.Gen_VS H4.VSModel H4.VTableSpec.
Require H4.ConvModel H4.ConvProofs.
Import ListNotations.
Local Open Scope Z_scope.

Notation cperm := ConvModel.perm.
Notation cwidth := ConvModel.nt_width.
Notation cflav := ConvModel.nt_flavour_ok.
Notation cbig := ConvModel.nt_bigendian_file.

(* ------------------------------------------------------------------ *)
(** * Arithmetic of strided layouts *)

Lemma strided_inj : forall s i1 o1 i2 o2, 0 <= o1 < s -> 0 <= o2 < s -> i1 * s + o1 = i2 * s + o2 -> i1 = i2 /\ o1 = o2.
Proof.
  intros s i1 o1 i2 o2 H1 H2 H.
  assert (i1 = i2) by nia. subst. lia.
Qed.

(* ------------------------------------------------------------------ *)
(** * One DFKconvert call (C06 specification), in the form used here *)

Definition swap_of (nt w : Z) : bool := cbig nt && (1 <? w).

Lemma conv_spec : forall nt m p q n sp sq w,
  cwidth nt = Some w -> cflav nt = true -> 0 < n -> 1 <= w -> w <= sp -> w <= sq ->
  (q + (n - 1) * sq + w <= p \/ p + (n - 1) * sp + w <= q) ->
  exists m', ConvModel.spec_convert m p q nt n sp sq = Some m' /\
    (forall i b, 0 <= i < n -> 0 <= b < w -> m' (q + i * sq + b) = m (p + i * sp + cperm w (swap_of nt w) b)) /\
    (forall a, (forall i b, 0 <= i < n -> 0 <= b < w -> a <> q + i * sq + b) -> m' a = m a).
Proof.
  intros nt m p q n sp sq w Hw Hf Hn Hw1 Hsp Hsq Hdis.
  assert (Heff : ConvModel.eff w sp sq = (sp, sq)).
  { unfold ConvModel.eff. destruct (sp =? 0) eqn:E; [apply Z.eqb_eq in E; lia|]. reflexivity. }
  assert (Hdom : ConvModel.in_domain w p q n sp sq = true).
  { unfold ConvModel.in_domain. rewrite Heff.
    apply andb_true_iff; split; [apply andb_true_iff; split; [apply andb_true_iff; split|]|]; try (apply Z.leb_le; lia); try (apply Z.ltb_lt; lia).
    apply orb_true_iff. destruct Hdis as [H|H]; [left; apply orb_true_iff; right|right]; apply Z.leb_le; lia. }
  assert (Hsome : exists m', ConvModel.spec_convert m p q nt n sp sq = Some m').
  { unfold ConvModel.spec_convert. rewrite Hw, Hf. cbn [negb orb].
    destruct (n <=? 0) eqn:E; [apply Z.leb_le in E; lia|]. rewrite Heff. eexists; reflexivity. }
  destruct Hsome as [m' Hm']. exists m'. split; [exact Hm'|].
  pose proof (ConvProofs.spec_convert_elementwise_lemma nt m p q n sp sq w m' Hw Hdom Hm') as H.
  cbv zeta in H. unfold ConvProofs.eff_se, ConvProofs.eff_de in H. rewrite Heff in H. cbn [fst snd] in H.
  exact H.
Qed.

(* ------------------------------------------------------------------ *)
(** * A sequence of conversions with the same element count: the generic gather / scatter lemma *)

Record comp := mkcomp { k_nt : Z; k_p : Z; k_q : Z; k_sp : Z; k_sq : Z }.

Fixpoint run_comps (m : ConvModel.mem) (cs : list comp) (n : Z) : option ConvModel.mem :=
  match cs with
  | [] => Some m
  | c :: t => match ConvModel.spec_convert m (k_p c) (k_q c) (k_nt c) n (k_sp c) (k_sq c) with
              | None => None
              | Some m' => run_comps m' t n
              end
  end.

Definition kw (c : comp) : Z := match cwidth (k_nt c) with Some w => w | None => 0 end.

(** the destination cells of a component *)
Definition dst_cell (c : comp) (n a : Z) : Prop := exists i b, 0 <= i < n /\ 0 <= b < kw c /\ a = k_q c + i * k_sq c + b.

(** a component is well placed: supported type, strides at least the width, every source cell in [slo, shi),
    every destination cell in [dlo, dhi) *)
Definition comp_ok (n slo shi dlo dhi : Z) (c : comp) : Prop :=
  exists w, cwidth (k_nt c) = Some w /\ cflav (k_nt c) = true /\ 1 <= w /\ w <= k_sp c /\ w <= k_sq c /\
            slo <= k_p c /\ k_p c + (n - 1) * k_sp c + w <= shi /\
            dlo <= k_q c /\ k_q c + (n - 1) * k_sq c + w <= dhi.

Fixpoint no_overlap (n : Z) (cs : list comp) : Prop :=
  match cs with
  | [] => True
  | c :: t => (forall c', In c' t -> forall a, dst_cell c n a -> ~ dst_cell c' n a) /\ no_overlap n t
  end.

Lemma run_comps_spec : forall cs m n slo shi dlo dhi,
  0 < n -> (shi <= dlo \/ dhi <= slo) ->
  Forall (comp_ok n slo shi dlo dhi) cs -> no_overlap n cs ->
  exists m', run_comps m cs n = Some m' /\
    (forall c, In c cs -> forall i b, 0 <= i < n -> 0 <= b < kw c ->
        m' (k_q c + i * k_sq c + b) = m (k_p c + i * k_sp c + cperm (kw c) (swap_of (k_nt c) (kw c)) b)) /\
    (forall a, (forall c, In c cs -> ~ dst_cell c n a) -> m' a = m a).
Proof.
  induction cs as [|c t IH]; intros m n slo shi dlo dhi Hn Hreg Hok Hno.
  - exists m. split; [reflexivity|]. split; [intros c []|intros; reflexivity].
  - inversion Hok as [|? ? Hc Ht]; subst. destruct Hno as [Hno1 Hno2].
    destruct Hc as [w [Hw [Hf [Hw1 [Hsp [Hsq [Hp1 [Hp2 [Hq1 Hq2]]]]]]]]].
    assert (Hkw : kw c = w) by (unfold kw; rewrite Hw; reflexivity).
    destruct (conv_spec (k_nt c) m (k_p c) (k_q c) n (k_sp c) (k_sq c) w Hw Hf Hn Hw1 Hsp Hsq) as [m1 [Hm1 [Hhit Hmiss]]].
    { destruct Hreg; [right|left]; lia. }
    destruct (IH m1 n slo shi dlo dhi Hn Hreg Ht Hno2) as [m' [Hm' [Hhit' Hmiss']]].
    exists m'. split; [cbn; rewrite Hm1; exact Hm'|]. split.
    + intros c0 [<-|Hin] i b Hi Hb.
      * rewrite Hkw in *. rewrite Hmiss'; [apply Hhit; assumption|].
        intros c' Hc'. apply Hno1; [assumption|]. exists i, b. rewrite Hkw. auto.
      * rewrite (Hhit' c0 Hin i b Hi Hb). apply Hmiss.
        intros i' b' Hi' Hb'.
        (* a source cell of c0 lies in the source region, a destination cell of c in the destination region *)
        rewrite Forall_forall in Ht. destruct (Ht c0 Hin) as [w0 [Hw0 [_ [Hw01 [Hsp0 [_ [Hp10 [Hp20 _]]]]]]]].
        assert (kw c0 = w0) by (unfold kw; rewrite Hw0; reflexivity).
        assert (0 <= cperm (kw c0) (swap_of (k_nt c0) (kw c0)) b < w0).
        { unfold ConvModel.perm. destruct (swap_of (k_nt c0) (kw c0)); lia. }
        assert (slo <= k_p c0 + i * k_sp c0 + cperm (kw c0) (swap_of (k_nt c0) (kw c0)) b < shi) by nia.
        assert (dlo <= k_q c + i' * k_sq c + b' < dhi) by nia.
        lia.
    + intros a Ha. rewrite Hmiss'; [|intros c' Hc'; apply Ha; right; exact Hc'].
      apply Hmiss. intros i b Hi Hb Heq. apply (Ha c (or_introl eq_refl)). exists i, b. rewrite Hkw. auto.
Qed.

(* ------------------------------------------------------------------ *)
(** * The order loop is a sequence of components *)

Fixpoint order_comps (k : nat) (nt p q sp sq stepp stepq : Z) : list comp :=
  match k with
  | O => []
  | S k' => mkcomp nt p q sp sq :: order_comps k' nt (p + stepp) (q + stepq) sp sq stepp stepq
  end.

Lemma order_loop_comps : forall k m p q nt n sp sq stp stq,
  order_loop k m p q nt n sp sq stp stq =
  match run_comps m (order_comps k nt p q sp sq stp stq) n with
  | Some m' => Some (m', p + Z.of_nat k * stp, q + Z.of_nat k * stq)
  | None => None
  end.
Proof.
  induction k as [|k IH]; intros.
  - cbn. f_equal. f_equal; [f_equal|]; lia.
  - cbn [order_loop order_comps run_comps k_p k_q k_nt k_sp k_sq].
    destruct (ConvModel.spec_convert m p q nt n sp sq) as [m1|]; [|reflexivity].
    rewrite IH. destruct (run_comps m1 _ n); [|reflexivity].
    f_equal. f_equal; [f_equal|]; lia.
Qed.

Lemma run_comps_app : forall a b m n,
  run_comps m (a ++ b) n = match run_comps m a n with Some m' => run_comps m' b n | None => None end.
Proof.
  induction a as [|c a IH]; intros; [reflexivity|].
  cbn. destruct (ConvModel.spec_convert m (k_p c) (k_q c) (k_nt c) n (k_sp c) (k_sq c)); [apply IH|reflexivity].
Qed.

Lemma in_order_comps : forall k nt p q sp sq stp stq c,
  In c (order_comps k nt p q sp sq stp stq) ->
  exists j, 0 <= j < Z.of_nat k /\ c = mkcomp nt (p + j * stp) (q + j * stq) sp sq.
Proof.
  induction k as [|k IH]; intros nt p q sp sq stp stq c H; [destruct H|].
  destruct H as [<-|H].
  - exists 0. split; [lia|]. f_equal; lia.
  - destruct (IH _ _ _ _ _ _ _ _ H) as [j [Hj ->]]. exists (j + 1). split; [lia|]. f_equal; lia.
Qed.

(* ------------------------------------------------------------------ *)
(** * Well-formed write lists (what VSsetfields builds on this platform) *)

Definition fld_ok (f : wfield) : Prop :=
  exists w, cwidth (w_type f) = Some w /\ cflav (w_type f) = true /\ 1 <= w /\ 1 <= w_order f /\
            w_isize f = w_order f * w /\ w_esize f = w_order f * w.

Definition fw (f : wfield) : Z := match cwidth (w_type f) with Some w => w | None => 0 end.

Fixpoint offs_ok (o : Z) (fl : list wfield) : Prop :=
  match fl with [] => True | f :: t => w_off f = o /\ offs_ok (o + w_isize f) t end.

Definition isum (fl : list wfield) : Z := fold_right (fun f a => w_isize f + a) 0 fl.

(** fields paired with their offset in a FULL_INTERLACE user record made of exactly these fields *)
Fixpoint foffs (o : Z) (fl : list wfield) : list (wfield * Z) :=
  match fl with [] => [] | f :: t => (f, o) :: foffs (o + w_esize f) t end.

Lemma fld_ok_sizes : forall f, fld_ok f -> 1 <= fw f /\ w_isize f = w_order f * fw f /\ w_esize f = w_order f * fw f /\
  Z.quot (w_esize f) (w_order f) = fw f /\ Z.quot (w_isize f) (w_order f) = fw f /\ 1 <= w_order f /\
  cwidth (w_type f) = Some (fw f) /\ cflav (w_type f) = true.
Proof.
  intros f [w [Hw [Hf [Hw1 [Ho [Hi He]]]]]]. unfold fw. rewrite Hw.
  repeat split; try assumption; try lia.
  - rewrite He. rewrite Z.mul_comm. apply Z.quot_mul. lia.
  - rewrite Hi. rewrite Z.mul_comm. apply Z.quot_mul. lia.
Qed.

Lemma int_size_of_isum : forall fl, Forall fld_ok fl -> int_size_of fl = isum fl.
Proof.
  intros fl H. unfold int_size_of.
  assert (G : forall a, fold_left (fun a f => a + w_esize f) fl a = a + isum fl).
  { unfold isum. induction H as [|f t Hf Ht IH]; intros a; cbn; [lia|].
    rewrite IH. destruct (fld_ok_sizes f Hf) as [_ [Hi [He _]]]. lia. }
  rewrite G. unfold isum. lia.
Qed.

Lemma isum_nonneg : forall fl, Forall fld_ok fl -> 0 <= isum fl.
Proof.
  unfold isum. induction 1 as [|f t Hf Ht IH]; cbn; [lia|].
  destruct (fld_ok_sizes f Hf) as [Hw [Hi [_ [_ [_ [Ho _]]]]]]. nia.
Qed.

(* ------------------------------------------------------------------ *)
(** * Components whose destination cells are laid out in increasing, non-overlapping slots of a common stride *)

Fixpoint sorted_q (base H lo : Z) (cs : list comp) : Prop :=
  match cs with
  | [] => lo <= H
  | c :: t => k_sq c = H /\ 0 <= kw c /\ lo <= k_q c - base /\ sorted_q base H (k_q c - base + kw c) t
  end.

Lemma sorted_q_in : forall cs base H lo c, sorted_q base H lo cs -> In c cs ->
  k_sq c = H /\ lo <= k_q c - base /\ k_q c - base + kw c <= H.
Proof.
  induction cs as [|c0 t IH]; intros base H lo c Hs Hin; [destruct Hin|].
  destruct Hs as [H1 [H2 [H3 H4]]]. destruct Hin as [<-|Hin].
  - split; [assumption|]. split; [assumption|].
    clear IH. revert H4. generalize (k_q c0 - base + kw c0). induction t as [|c1 t IHt]; intros x Hx; cbn in Hx; [lia|].
    destruct Hx as [_ [Hk [Hx1 Hx2]]]. specialize (IHt _ Hx2). lia.
  - destruct (IH _ _ _ _ H4 Hin) as [G1 [G2 G3]]. repeat split; try assumption; lia.
Qed.

Lemma sorted_no_overlap : forall cs n base H lo, 0 <= lo -> sorted_q base H lo cs -> no_overlap n cs.
Proof.
  induction cs as [|c t IH]; intros n base H lo Hlo Hs; [exact I|].
  destruct Hs as [H1 [H2 [H3 H4]]]. split; [|apply (IH n base H (k_q c - base + kw c)); [lia|assumption]].
  intros c' Hc' a [i [b [Hi [Hb Ha]]]] [i' [b' [Hi' [Hb' Ha']]]].
  destruct (sorted_q_in _ _ _ _ _ H4 Hc') as [G1 [G2 G3]].
  assert (E : i * H + (k_q c - base + b) = i' * H + (k_q c' - base + b')) by (rewrite H1 in Ha; rewrite G1 in Ha'; lia).
  apply strided_inj in E; lia.
Qed.

(** [sorted_upto]: like sorted_q but without the final bound, so that lists can be concatenated *)
Fixpoint q_end (base lo : Z) (cs : list comp) : Z :=
  match cs with [] => lo | c :: t => q_end base (k_q c - base + kw c) t end.

Fixpoint sorted_upto (base H lo : Z) (cs : list comp) : Prop :=
  match cs with
  | [] => True
  | c :: t => k_sq c = H /\ 0 <= kw c /\ lo <= k_q c - base /\ sorted_upto base H (k_q c - base + kw c) t
  end.

Lemma sorted_q_app : forall a b base H lo,
  sorted_upto base H lo a -> sorted_q base H (q_end base lo a) b -> sorted_q base H lo (a ++ b).
Proof.
  induction a as [|c t IH]; intros b base H lo Ha Hb; [exact Hb|].
  destruct Ha as [H1 [H2 [H3 H4]]]. cbn. repeat split; try assumption. apply IH; assumption.
Qed.

(** the components of one field occupy consecutive slots of width w *)
Lemma order_comps_sorted : forall k nt p q sp H w base,
  cwidth nt = Some w -> 0 <= w ->
  sorted_upto base H (q - base) (order_comps k nt p q sp H w w) /\
  q_end base (q - base) (order_comps k nt p q sp H w w) = q - base + Z.of_nat k * w.
Proof.
  induction k as [|k IH]; intros nt p q sp H w base Hw Hw0.
  - cbn. split; [exact I|lia].
  - cbn [order_comps sorted_upto q_end k_sq k_q].
    assert (Hk : kw (mkcomp nt p q sp H) = w) by (unfold kw; cbn [k_nt]; rewrite Hw; reflexivity).
    rewrite Hk.
    destruct (IH nt (p + w) (q + w) sp H w base Hw Hw0) as [G1 G2].
    replace (q - base + w) with (q + w - base) by lia.
    split; [repeat split; try lia; exact G1|]. rewrite G2. lia.
Qed.

Lemma in_order_comps_conv : forall k nt p q sp sq stp stq j, 0 <= j < Z.of_nat k ->
  In (mkcomp nt (p + j * stp) (q + j * stq) sp sq) (order_comps k nt p q sp sq stp stq).
Proof.
  induction k as [|k IH]; intros nt p q sp sq stp stq j Hj; [lia|].
  cbn. destruct (Z.eq_dec j 0) as [->|Hne].
  - left. f_equal; lia.
  - right. replace (p + j * stp) with (p + stp + (j - 1) * stp) by lia.
    replace (q + j * stq) with (q + stq + (j - 1) * stq) by lia. apply IH. lia.
Qed.

(* ------------------------------------------------------------------ *)
(** * VSwrite, cases E + C: one pass through the transfer buffer *)

Fixpoint wr_c_comps (fl : list wfield) (vt P uo int_size hsize : Z) : list comp :=
  match fl with
  | [] => []
  | f :: t => order_comps (Z.to_nat (w_order f)) (w_type f) (P + uo) (vt + w_off f) int_size hsize (fw f) (fw f)
              ++ wr_c_comps t vt P (uo + w_esize f) int_size hsize
  end.

Lemma wr_ec_fields_comps : forall fl m vt P uo n isz hs, Forall fld_ok fl ->
  wr_ec_fields fl m vt P uo n isz hs = run_comps m (wr_c_comps fl vt P uo isz hs) n.
Proof.
  induction fl as [|f t IH]; intros m vt P uo n isz hs Hok; [reflexivity|].
  inversion Hok as [|? ? Hf Ht]; subst.
  destruct (fld_ok_sizes f Hf) as [_ [_ [_ [Hqe [Hqi _]]]]].
  cbn [wr_ec_fields wr_c_comps]. rewrite order_loop_comps, Hqe, Hqi, run_comps_app.
  destruct (run_comps m _ n); [apply IH; assumption|reflexivity].
Qed.

Lemma wr_c_sorted : forall fl vt P uo isz hs o, Forall fld_ok fl -> offs_ok o fl -> o + isum fl <= hs ->
  sorted_q vt hs o (wr_c_comps fl vt P uo isz hs).
Proof.
  induction fl as [|f t IH]; intros vt P uo isz hs o Hok Hoff Hsum.
  - cbn in *. lia.
  - inversion Hok as [|? ? Hf Ht]; subst. destruct Hoff as [Ho Hoff].
    destruct (fld_ok_sizes f Hf) as [Hw1 [Hi [He [_ [_ [Hord [Hcw _]]]]]]].
    cbn [wr_c_comps]. cbn [isum fold_right] in Hsum. fold (isum t) in Hsum.
    destruct (order_comps_sorted (Z.to_nat (w_order f)) (w_type f) (P + uo) (vt + w_off f) isz hs (fw f) vt Hcw) as [G1 G2]; [lia|].
    replace (vt + w_off f - vt) with o in * by lia.
    apply sorted_q_app; [exact G1|]. rewrite G2. rewrite Z2Nat.id by lia.
    replace (o + w_order f * fw f) with (o + w_isize f) by lia.
    apply IH; try assumption. lia.
Qed.

Lemma wr_c_ok : forall fl vt P uo isz hs o n, Forall fld_ok fl -> offs_ok o fl ->
  0 <= o -> 0 <= uo -> uo + isum fl <= isz -> o + isum fl <= hs -> 0 < n ->
  Forall (comp_ok n P (P + n * isz) vt (vt + n * hs)) (wr_c_comps fl vt P uo isz hs).
Proof.
  induction fl as [|f t IH]; intros vt P uo isz hs o n Hok Hoff Ho Huo Hs1 Hs2 Hn; [constructor|].
  inversion Hok as [|? ? Hf Ht]; subst. destruct Hoff as [Hof Hoff].
  destruct (fld_ok_sizes f Hf) as [Hw1 [Hi [He [_ [_ [Hord [Hcw Hfl]]]]]]].
  cbn [isum fold_right] in Hs1, Hs2. fold (isum t) in Hs1, Hs2.
  pose proof (isum_nonneg t Ht) as Hnn.
  cbn [wr_c_comps]. apply Forall_app. split.
  - apply Forall_forall. intros c Hc. apply in_order_comps in Hc. destruct Hc as [j [Hj ->]].
    rewrite Z2Nat.id in Hj by lia.
    exists (fw f). cbn [k_nt k_p k_q k_sp k_sq].
    assert (j * fw f + fw f <= w_order f * fw f) by nia.
    assert (0 <= j * fw f) by nia.
    repeat split; try assumption; try lia; nia.
  - apply (IH vt P (uo + w_esize f) isz hs (o + w_isize f) n); try assumption; try lia.
Qed.

Lemma in_wr_c_comps : forall fl vt P uo isz hs f eo j, In (f, eo) (foffs uo fl) -> 0 <= j < w_order f ->
  In (mkcomp (w_type f) (P + eo + j * fw f) (vt + w_off f + j * fw f) isz hs) (wr_c_comps fl vt P uo isz hs).
Proof.
  induction fl as [|f0 t IH]; intros vt P uo isz hs f eo j Hin Hj; [destruct Hin|].
  cbn [wr_c_comps]. apply in_or_app. destruct Hin as [E|Hin].
  - inversion E; subst. left. apply in_order_comps_conv. rewrite Z2Nat.id; lia.
  - right. apply IH; assumption.
Qed.

(** every cell of the transfer buffer that a record of the table occupies receives the corresponding
    byte of the caller's buffer (reversed within a component for big-endian file types) *)
Lemma wr_c_spec : forall fl m vt P n isz hs,
  Forall fld_ok fl -> offs_ok 0 fl -> isum fl <= isz -> isum fl <= hs -> 0 < n ->
  (P + n * isz <= vt \/ vt + n * hs <= P) ->
  exists m', wr_ec_fields fl m vt P 0 n isz hs = Some m' /\
    (forall f eo, In (f, eo) (foffs 0 fl) -> forall j i b, 0 <= j < w_order f -> 0 <= i < n -> 0 <= b < fw f ->
       m' (vt + w_off f + j * fw f + i * hs + b) = m (P + eo + j * fw f + i * isz + cperm (fw f) (swap_of (w_type f) (fw f)) b)) /\
    (forall a, (a < vt \/ vt + n * hs <= a) -> m' a = m a).
Proof.
  intros fl m vt P n isz hs Hok Hoff Hs1 Hs2 Hn Hreg.
  rewrite wr_ec_fields_comps by assumption.
  assert (Hall0 : Forall (comp_ok n P (P + n * isz) vt (vt + n * hs)) (wr_c_comps fl vt P 0 isz hs))
    by (apply (wr_c_ok fl vt P 0 isz hs 0 n); try assumption; lia).
  assert (Hno : no_overlap n (wr_c_comps fl vt P 0 isz hs))
    by (apply (sorted_no_overlap _ n vt hs 0); [lia|]; apply wr_c_sorted; try assumption; lia).
  destruct (run_comps_spec (wr_c_comps fl vt P 0 isz hs) m n P (P + n * isz) vt (vt + n * hs) Hn Hreg Hall0 Hno) as [m' [Hm' [Hhit Hmiss]]].
  - exists m'. split; [exact Hm'|]. split.
    + intros f eo Hin j i b Hj Hi Hb.
      pose proof (in_wr_c_comps fl vt P 0 isz hs f eo j Hin Hj) as Hc.
      specialize (Hhit _ Hc i b Hi). unfold kw in Hhit. cbn [k_nt k_q k_sq k_p k_sp] in Hhit.
      unfold fw in Hb, Hhit |- *. destruct (cwidth (w_type f)) as [w|]; [|lia].
      exact (Hhit Hb).
    + intros a Ha. apply Hmiss. intros c Hc [i [b [Hi [Hb Hab]]]].
      pose proof (wr_c_ok fl vt P 0 isz hs 0 n Hok Hoff ltac:(lia) ltac:(lia) ltac:(lia) ltac:(lia) Hn) as Hall.
      rewrite Forall_forall in Hall. destruct (Hall c Hc) as [w [Hcw [_ [Hw1 [_ [Hsq [_ [_ [Hq1 Hq2]]]]]]]]].
      unfold kw in Hb. rewrite Hcw in Hb. nia.
Qed.

(* ------------------------------------------------------------------ *)
(** * VSread, case C: one pass through the transfer buffer *)

Definition rl_ok (fl : list wfield) (rl : list Z) : Prop := Forall (fun i => exists f, nthf fl i = Some f) rl.

Fixpoint rd_c_comps (fl : list wfield) (rl : list Z) (vt P uo hsize uvsize : Z) : list comp :=
  match rl with
  | [] => []
  | i :: t => match nthf fl i with
              | None => []
              | Some f => order_comps (Z.to_nat (w_order f)) (w_type f) (vt + w_off f) (P + uo) hsize uvsize (fw f) (fw f)
                          ++ rd_c_comps fl t vt P (uo + w_esize f) hsize uvsize
              end
  end.

(** selected fields paired with their offset in the caller's FULL_INTERLACE record *)
Fixpoint roffs (fl : list wfield) (rl : list Z) (uo : Z) : list (wfield * Z) :=
  match rl with
  | [] => []
  | i :: t => match nthf fl i with None => [] | Some f => (f, uo) :: roffs fl t (uo + w_esize f) end
  end.

Fixpoint rsum (fl : list wfield) (rl : list Z) : Z :=
  match rl with [] => 0 | i :: t => match nthf fl i with None => 0 | Some f => w_esize f + rsum fl t end end.

Lemma nthf_in : forall fl i f, nthf fl i = Some f -> In f fl.
Proof. unfold nthf. intros fl i f. destruct (i <? 0); [discriminate|]. apply nth_error_In. Qed.

Lemma uvsize_of_rsum : forall fl rl, rl_ok fl rl -> uvsize_of fl rl = Some (rsum fl rl).
Proof.
  induction rl as [|i t IH]; intros H; [reflexivity|].
  inversion H as [|? ? [f Hf] Ht]; subst. cbn. rewrite Hf, (IH Ht). reflexivity.
Qed.

Lemma rd_c_fields_comps : forall rl fl m vt P uo n hs uv, Forall fld_ok fl -> rl_ok fl rl ->
  rd_c_fields fl rl m vt P uo n hs uv = run_comps m (rd_c_comps fl rl vt P uo hs uv) n.
Proof.
  induction rl as [|i t IH]; intros fl m vt P uo n hs uv Hok Hrl; [reflexivity|].
  inversion Hrl as [|? ? [f Hf] Ht]; subst.
  assert (Hfo : fld_ok f) by (rewrite Forall_forall in Hok; apply Hok; eapply nthf_in; eassumption).
  destruct (fld_ok_sizes f Hfo) as [_ [_ [_ [Hqe [Hqi _]]]]].
  cbn [rd_c_fields rd_c_comps]. rewrite Hf. rewrite order_loop_comps, Hqe, Hqi, run_comps_app.
  destruct (run_comps m _ n); [apply IH; assumption|reflexivity].
Qed.

Lemma offs_in : forall fl o f, Forall fld_ok fl -> offs_ok o fl -> In f fl -> 0 <= o ->
  o <= w_off f /\ w_off f + w_isize f <= o + isum fl.
Proof.
  induction fl as [|f0 t IH]; intros o f Hok Hoff Hin Ho; [destruct Hin|].
  inversion Hok as [|? ? Hf Ht]; subst. destruct Hoff as [Hof Hoff].
  pose proof (isum_nonneg t Ht) as Hnn.
  destruct (fld_ok_sizes f0 Hf) as [Hw1 [Hi [_ [_ [_ [Hord _]]]]]].
  assert (0 <= w_isize f0) by nia.
  cbn [isum fold_right]. fold (isum t).
  destruct Hin as [<-|Hin]; [lia|].
  destruct (IH (o + w_isize f0) f Ht Hoff Hin) as [G1 G2]; lia.
Qed.

Lemma rsum_nonneg : forall fl rl, Forall fld_ok fl -> 0 <= rsum fl rl.
Proof.
  induction rl as [|i t IH]; intros Hok; cbn; [lia|].
  destruct (nthf fl i) as [f|] eqn:E; [|lia].
  assert (Hfo : fld_ok f) by (rewrite Forall_forall in Hok; apply Hok; eapply nthf_in; eassumption).
  destruct (fld_ok_sizes f Hfo) as [Hw1 [_ [He [_ [_ [Hord _]]]]]]. specialize (IH Hok). nia.
Qed.

Lemma rd_c_sorted : forall rl fl vt P uo hs uv, Forall fld_ok fl -> rl_ok fl rl -> uo + rsum fl rl <= uv ->
  sorted_q P uv uo (rd_c_comps fl rl vt P uo hs uv).
Proof.
  induction rl as [|i t IH]; intros fl vt P uo hs uv Hok Hrl Hsum.
  - cbn in *. lia.
  - inversion Hrl as [|? ? [f Hf] Ht]; subst.
    assert (Hfo : fld_ok f) by (rewrite Forall_forall in Hok; apply Hok; eapply nthf_in; eassumption).
    destruct (fld_ok_sizes f Hfo) as [Hw1 [Hi [He [_ [_ [Hord [Hcw _]]]]]]].
    cbn [rd_c_comps rsum] in *. rewrite Hf in *.
    destruct (order_comps_sorted (Z.to_nat (w_order f)) (w_type f) (vt + w_off f) (P + uo) hs uv (fw f) P Hcw) as [G1 G2]; [lia|].
    replace (P + uo - P) with uo in * by lia.
    apply sorted_q_app; [exact G1|]. rewrite G2. rewrite Z2Nat.id by lia.
    replace (uo + w_order f * fw f) with (uo + w_esize f) by lia.
    apply IH; try assumption. lia.
Qed.

Lemma rd_c_ok : forall rl fl vt P uo hs uv n, Forall fld_ok fl -> offs_ok 0 fl -> rl_ok fl rl ->
  0 <= uo -> uo + rsum fl rl <= uv -> isum fl <= hs -> 0 < n ->
  Forall (comp_ok n vt (vt + n * hs) P (P + n * uv)) (rd_c_comps fl rl vt P uo hs uv).
Proof.
  induction rl as [|i t IH]; intros fl vt P uo hs uv n Hok Hoff Hrl Huo Hs1 Hs2 Hn; [constructor|].
  inversion Hrl as [|? ? [f Hf] Ht]; subst.
  assert (Hin : In f fl) by (eapply nthf_in; eassumption).
  assert (Hfo : fld_ok f) by (rewrite Forall_forall in Hok; apply Hok; assumption).
  destruct (fld_ok_sizes f Hfo) as [Hw1 [Hi [He [_ [_ [Hord [Hcw Hfl]]]]]]].
  destruct (offs_in fl 0 f Hok Hoff Hin) as [Ho1 Ho2]; [lia|].
  cbn [rd_c_comps rsum] in *. rewrite Hf in *.
  pose proof (rsum_nonneg fl t Hok) as Hnn.
  apply Forall_app. split.
  - apply Forall_forall. intros c Hc. apply in_order_comps in Hc. destruct Hc as [j [Hj ->]].
    rewrite Z2Nat.id in Hj by lia.
    exists (fw f). cbn [k_nt k_p k_q k_sp k_sq].
    assert (j * fw f + fw f <= w_order f * fw f) by nia.
    assert (0 <= j * fw f) by nia.
    repeat split; try assumption; try lia; nia.
  - apply IH; try assumption; lia.
Qed.

Lemma in_rd_c_comps : forall rl fl vt P uo hs uv f eo j, In (f, eo) (roffs fl rl uo) -> 0 <= j < w_order f ->
  In (mkcomp (w_type f) (vt + w_off f + j * fw f) (P + eo + j * fw f) hs uv) (rd_c_comps fl rl vt P uo hs uv).
Proof.
  induction rl as [|i t IH]; intros fl vt P uo hs uv f eo j Hin Hj; [destruct Hin|].
  cbn [rd_c_comps roffs] in *. destruct (nthf fl i) as [f0|]; [|destruct Hin].
  apply in_or_app. destruct Hin as [E|Hin].
  - inversion E; subst. left. apply in_order_comps_conv. rewrite Z2Nat.id; lia.
  - right. apply IH; assumption.
Qed.

Lemma rd_c_spec : forall fl rl m vt P n hs uv,
  Forall fld_ok fl -> offs_ok 0 fl -> rl_ok fl rl -> rsum fl rl <= uv -> isum fl <= hs -> 0 < n ->
  (vt + n * hs <= P \/ P + n * uv <= vt) ->
  exists m', rd_c_fields fl rl m vt P 0 n hs uv = Some m' /\
    (forall f uo, In (f, uo) (roffs fl rl 0) -> forall j i b, 0 <= j < w_order f -> 0 <= i < n -> 0 <= b < fw f ->
       m' (P + uo + j * fw f + i * uv + b) = m (vt + w_off f + j * fw f + i * hs + cperm (fw f) (swap_of (w_type f) (fw f)) b)) /\
    (forall a, (a < P \/ P + n * uv <= a) -> m' a = m a).
Proof.
  intros fl rl m vt P n hs uv Hok Hoff Hrl Hs1 Hs2 Hn Hreg.
  rewrite rd_c_fields_comps by assumption.
  assert (Hall0 : Forall (comp_ok n vt (vt + n * hs) P (P + n * uv)) (rd_c_comps fl rl vt P 0 hs uv))
    by (apply rd_c_ok; try assumption; lia).
  assert (Hno : no_overlap n (rd_c_comps fl rl vt P 0 hs uv))
    by (apply (sorted_no_overlap _ n P uv 0); [lia|]; apply rd_c_sorted; try assumption; lia).
  destruct (run_comps_spec _ m n vt (vt + n * hs) P (P + n * uv) Hn Hreg Hall0 Hno) as [m' [Hm' [Hhit Hmiss]]].
  exists m'. split; [exact Hm'|]. split.
  - intros f uo Hin j i b Hj Hi Hb.
    pose proof (in_rd_c_comps rl fl vt P 0 hs uv f uo j Hin Hj) as Hc.
    specialize (Hhit _ Hc i b Hi). unfold kw in Hhit. cbn [k_nt k_q k_sq k_p k_sp] in Hhit.
    unfold fw in Hb, Hhit |- *. destruct (cwidth (w_type f)) as [w|]; [|lia].
    exact (Hhit Hb).
  - intros a Ha. apply Hmiss. intros c Hc [i [b [Hi [Hb Hab]]]].
    rewrite Forall_forall in Hall0. destruct (Hall0 c Hc) as [w [Hcw [_ [Hw1 [_ [Hsq [_ [_ [Hq1 Hq2]]]]]]]]].
    unfold kw in Hb. rewrite Hcw in Hb. nia.
Qed.

(* ------------------------------------------------------------------ *)
(** * Buffers as lists: mem_slice, load *)

Lemma mem_slice_length : forall m base len, length (mem_slice m base len) = Z.to_nat len.
Proof. intros. unfold mem_slice. rewrite map_length, seq_length. reflexivity. Qed.

Lemma mem_slice_nth : forall m base len x, 0 <= x < len -> nth (Z.to_nat x) (mem_slice m base len) 0 = m (base + x).
Proof.
  intros m base len x Hx. unfold mem_slice.
  rewrite (nth_indep _ 0 (m (base + Z.of_nat 0))) by (rewrite map_length, seq_length; lia).
  rewrite (map_nth (fun i => m (base + Z.of_nat i))). rewrite seq_nth by lia. f_equal. lia.
Qed.

Lemma load_in : forall m base l x, 0 <= x < Z.of_nat (length l) -> load m base l (base + x) = nth (Z.to_nat x) l 0.
Proof.
  intros m base l x Hx. unfold load.
  replace ((base <=? base + x) && (base + x <? base + Z.of_nat (length l))) with true
    by (symmetry; apply andb_true_iff; split; [apply Z.leb_le|apply Z.ltb_lt]; lia).
  f_equal. f_equal. lia.
Qed.

Lemma load_out : forall m base l a, (a < base \/ base + Z.of_nat (length l) <= a) -> load m base l a = m a.
Proof.
  intros m base l a Ha. unfold load.
  destruct (base <=? a) eqn:E1; destruct (a <? base + Z.of_nat (length l)) eqn:E2; cbn; try reflexivity.
  apply Z.leb_le in E1. apply Z.ltb_lt in E2. lia.
Qed.

Lemma perm_range : forall w sw b, 0 <= b < w -> 0 <= cperm w sw b < w.
Proof. intros w sw b H. unfold ConvModel.perm. destruct sw; lia. Qed.

(* ------------------------------------------------------------------ *)
(** * Cases C/C, one pass: what VSread hands back is what VSwrite was given *)

Lemma rw_c_pass : forall fl rl n mu vtW mw mr0 vtR mr,
  Forall fld_ok fl -> offs_ok 0 fl -> rl_ok fl rl -> 0 < n ->
  n * isum fl <= vtW -> n * rsum fl rl <= vtR ->
  wr_ec_fields fl mu vtW 0 0 n (isum fl) (isum fl) = Some mw ->
  rd_c_fields fl rl (load mr0 vtR (mem_slice mw vtW (isum fl * n))) vtR 0 0 n (isum fl) (rsum fl rl) = Some mr ->
  forall f eo uo, In (f, eo) (foffs 0 fl) -> In (f, uo) (roffs fl rl 0) ->
  forall j i b, 0 <= j < w_order f -> 0 <= i < n -> 0 <= b < fw f ->
    mr (uo + j * fw f + i * rsum fl rl + b) = mu (eo + j * fw f + i * isum fl + b).
Proof.
  intros fl rl n mu vtW mw mr0 vtR mr Hok Hoff Hrl Hn HvW HvR Hw Hr f eo uo Hfe Hfu j i b Hj Hi Hb.
  pose proof (isum_nonneg fl Hok) as Hnn. pose proof (rsum_nonneg fl rl Hok) as Hrn.
  destruct (wr_c_spec fl mu vtW 0 n (isum fl) (isum fl) Hok Hoff ltac:(lia) ltac:(lia) Hn ltac:(left; lia)) as [mw' [Hw' [Hwhit _]]].
  rewrite Hw in Hw'. inversion Hw'; subst mw'. clear Hw'.
  destruct (rd_c_spec fl rl (load mr0 vtR (mem_slice mw vtW (isum fl * n))) vtR 0 n (isum fl) (rsum fl rl)
              Hok Hoff Hrl ltac:(lia) ltac:(lia) Hn ltac:(right; lia)) as [mr' [Hr' [Hrhit _]]].
  rewrite Hr in Hr'. inversion Hr'; subst mr'. clear Hr'.
  specialize (Hrhit f uo Hfu j i b Hj Hi Hb). cbn [Z.add] in Hrhit. try rewrite Z.add_0_l in Hrhit. rewrite Hrhit.
  (* the cell of Vtbuf that was read holds what VSwrite put into the same cell of its Vtbuf *)
  assert (Hin : In f fl).
  { clear - Hfe. revert Hfe. generalize 0. induction fl as [|f0 t IH]; intros o H; [destruct H|].
    destruct H as [E|H]; [inversion E; left; reflexivity|right; eapply IH; eassumption]. }
  assert (Hfo : fld_ok f) by (rewrite Forall_forall in Hok; apply Hok; assumption).
  destruct (fld_ok_sizes f Hfo) as [Hw1 [Hisz [_ [_ [_ [Hord _]]]]]].
  destruct (offs_in fl 0 f Hok Hoff Hin ltac:(lia)) as [Ho1 Ho2].
  pose proof (perm_range (fw f) (swap_of (w_type f) (fw f)) b Hb) as Hp.
  set (pb := cperm (fw f) (swap_of (w_type f) (fw f)) b) in *.
  assert (Hx : 0 <= w_off f + j * fw f + i * isum fl + pb < isum fl * n) by nia.
  replace (vtR + w_off f + j * fw f + i * isum fl + pb) with (vtR + (w_off f + j * fw f + i * isum fl + pb)) by lia.
  rewrite load_in by (rewrite mem_slice_length; lia).
  rewrite mem_slice_nth by lia.
  replace (vtW + (w_off f + j * fw f + i * isum fl + pb)) with (vtW + w_off f + j * fw f + i * isum fl + pb) by lia.
  rewrite (Hwhit f eo Hfe j i pb Hj Hi Hp). unfold pb.
  rewrite ConvProofs.perm_involutive. try (f_equal; lia).
Qed.

(* ------------------------------------------------------------------ *)
(** * Counts *)

(** S: the record count after a write *)
Lemma put_rows_length : forall (t : table) pos new, (pos <= length t)%nat ->
  length (put_rows t pos new) = Nat.max (length t) (pos + length new).
Proof.
  intros t pos new H. unfold put_rows. rewrite !app_length, firstn_length, skipn_length. lia.
Qed.

Lemma nth_firstn_lt : forall {A} (l : list A) n i d, (i < n)%nat -> nth i (firstn n l) d = nth i l d.
Proof.
  induction l as [|x t IH]; intros n i d H; [rewrite firstn_nil; reflexivity|].
  destruct n; [lia|]. destruct i; [reflexivity|]. cbn. apply IH. lia.
Qed.

Lemma nth_skipn_add : forall {A} (l : list A) n i d, nth i (skipn n l) d = nth (n + i) l d.
Proof.
  induction l as [|x t IH]; intros n i d; [rewrite skipn_nil; destruct i, n; reflexivity|].
  destruct n; [reflexivity|]. cbn. apply IH.
Qed.

(** S: records outside the written range are untouched, records inside are the new ones *)
Lemma put_rows_nth : forall (t : table) pos new i d, (pos <= length t)%nat ->
  nth i (put_rows t pos new) d =
  if (i <? pos)%nat then nth i t d else if (i <? pos + length new)%nat then nth (i - pos) new d else nth i t d.
Proof.
  intros t pos new i d H. unfold put_rows.
  destruct (i <? pos)%nat eqn:E1.
  - apply Nat.ltb_lt in E1. rewrite app_nth1 by (rewrite firstn_length; lia).
    apply nth_firstn_lt. lia.
  - apply Nat.ltb_ge in E1. rewrite app_nth2 by (rewrite firstn_length; lia). rewrite firstn_length.
    replace (Nat.min pos (length t)) with pos by lia.
    destruct (i <? pos + length new)%nat eqn:E2.
    + apply Nat.ltb_lt in E2. rewrite app_nth1 by lia. reflexivity.
    + apply Nat.ltb_ge in E2. rewrite app_nth2 by lia. rewrite nth_skipn_add. f_equal. lia.
Qed.

(** M: VSwrite's new record count (vrw.c: new_size = position / ivsize + nelt; if (new_size > nvertices) ...) *)
Lemma vswrite_nvert : forall w fil uil nelt vtb position nvert m vt r,
  m_vswrite_mem w fil uil nelt vtb position nvert m vt = Some r ->
  wr_nvert r = Z.max nvert (Z.quot position (wl_ivsize w) + nelt).
Proof.
  intros w fil uil nelt vtb position nvert m vt r H. unfold m_vswrite_mem in H.
  assert (G : (if vswrite_grow_cond (vswrite_new_size position (wl_ivsize w) nelt) nvert =? 0 then nvert
               else vswrite_new_size position (wl_ivsize w) nelt) = Z.max nvert (Z.quot position (wl_ivsize w) + nelt)).
  { unfold vswrite_grow_cond, vswrite_new_size.
    destruct (nvert <? Z.quot position (wl_ivsize w) + nelt) eqn:E; cbn.
    - apply Z.ltb_lt in E. lia.
    - apply Z.ltb_ge in E. lia. }
  destruct (negb (vswrite_ec_cond (Z.of_nat (length (wl_fields w))) uil fil =? 0)).
  - destruct (wr_ec_chunks _ _ _ _ _ _ _); inversion H; subst; cbn [wr_nvert]; exact G.
  - match type of H with match ?X with _ => _ end = _ => destruct X end; inversion H; subst; cbn [wr_nvert]; exact G.
Qed.

(** M: the offsets VSsetfields stores are the running sums of the field sizes (no 16-bit wrap below 65536) *)
Lemma set_offsets_isize : forall fl uj, map w_isize (set_offsets uj fl) = map w_isize fl.
Proof. induction fl as [|f t IH]; intros uj; [reflexivity|]. cbn. f_equal. apply IH. Qed.

Lemma isum_map : forall fl, isum fl = fold_right Z.add 0 (map w_isize fl).
Proof. induction fl as [|f t IH]; [reflexivity|]. cbn. unfold isum in IH. rewrite <- IH. reflexivity. Qed.

Lemma set_offsets_ok : forall fl uj, 0 <= uj -> Forall (fun f => 0 <= w_isize f) fl -> uj + isum fl < 65536 ->
  offs_ok uj (set_offsets uj fl).
Proof.
  induction fl as [|f t IH]; intros uj Huj Hnn Hs; [exact I|].
  inversion Hnn as [|? ? Hf Ht]; subst.
  cbn [isum fold_right] in Hs. fold (isum t) in Hs.
  assert (0 <= isum t).
  { clear - Ht. unfold isum. induction Ht; cbn; lia. }
  cbn [set_offsets offs_ok w_off w_isize]. unfold u16.
  rewrite !Z.mod_small by lia. split; [reflexivity|]. apply IH; try assumption; lia.
Qed.

(* ------------------------------------------------------------------ *)
(** * S: read after write on the table *)
Lemma rows_put_rows : forall (t : table) pos new, (pos <= length t)%nat ->
  rows (put_rows t pos new) pos (length new) = new.
Proof.
  intros t pos new H. unfold rows, put_rows.
  assert (E : length (firstn pos t) = pos) by (rewrite firstn_length; lia).
  rewrite skipn_app. rewrite (skipn_all2 (firstn pos t)) by lia. rewrite E, Nat.sub_diag. cbn [skipn app].
  rewrite firstn_app, firstn_all, Nat.sub_diag. cbn [firstn]. apply app_nil_r.
Qed.

Lemma project_rows_put_rows : forall (t : table) pos new fl full, (pos <= length t)%nat ->
  read_buf full fl (put_rows t pos new) pos (length new) = layout full (length fl) (project fl new).
Proof. intros. unfold read_buf. rewrite rows_put_rows by assumption. reflexivity. Qed.

(* ------------------------------------------------------------------ *)
(** * Header size: when VSsetname / VSsetclass make the packed header longer, they say so *)

Lemma enc16_length : forall x, length (enc16 x) = 2%nat. Proof. reflexivity. Qed.
Lemma enc32_length : forall x, length (enc32 x) = 4%nat. Proof. reflexivity. Qed.

Lemma vpack_length_names : forall il nv ivs fl n1 c1 n2 c2 et er v mo,
  (length (m_vpackvs (mkvh il nv ivs fl n1 c1 et er v mo)) + length n2 + length c2 =
   length (m_vpackvs (mkvh il nv ivs fl n2 c2 et er v mo)) + length n1 + length c1)%nat.
Proof.
  intros. unfold m_vpackvs, enc_str. cbn [h_interlace h_nvertices h_ivsize h_fields h_vsname h_vsclass h_extag h_exref h_version h_more].
  repeat rewrite app_length. repeat rewrite enc16_length. lia.
Qed.

(** the flag VSsetclass / VSsetname leave behind is set whenever the size of the packed header changed (a stored
    string is never longer than VSNAMELENMAX) *)
Lemma setstr_flags_change : forall grow cur new flag,
  (forall a b, grow a b = if negb (Z.eqb a b) then 1 else 0) ->
  Z.of_nat (length cur) <= VSNAMELENMAX ->
  length (fst (m_setstr grow cur new flag)) <> length cur -> snd (m_setstr grow cur new flag) = true.
Proof.
  intros grow cur new flag Hg Hcur H. unfold m_setstr in *. cbn [fst snd] in *. rewrite Hg.
  destruct (Z.eqb_spec (Z.of_nat (length cur)) (Z.of_nat (length new))) as [E|E]; cbn; [|apply orb_true_r].
  exfalso. apply H.
  destruct (VSNAMELENMAX <? Z.of_nat (length new)) eqn:E2; [apply Z.ltb_lt in E2; lia|lia].
Qed.

Lemma setclass_flags_change : forall il nv ivs fl nm c et er v mo c' flag, Z.of_nat (length c) <= VSNAMELENMAX ->
  length (m_vpackvs (mkvh il nv ivs fl nm c et er v mo)) <>
  length (m_vpackvs (mkvh il nv ivs fl nm (fst (m_setclass c c' flag)) et er v mo)) ->
  snd (m_setclass c c' flag) = true.
Proof.
  intros il nv ivs fl nm c et er v mo c' flag Hc H.
  pose proof (vpack_length_names il nv ivs fl nm c nm (fst (m_setclass c c' flag)) et er v mo) as E.
  apply (setstr_flags_change vssetclass_grow_cond); [reflexivity|assumption|]. fold (m_setclass c c' flag). lia.
Qed.

Lemma setname_flags_change : forall il nv ivs fl nm c et er v mo n' flag, Z.of_nat (length nm) <= VSNAMELENMAX ->
  length (m_vpackvs (mkvh il nv ivs fl nm c et er v mo)) <>
  length (m_vpackvs (mkvh il nv ivs fl (fst (m_setname nm n' flag)) c et er v mo)) ->
  snd (m_setname nm n' flag) = true.
Proof.
  intros il nv ivs fl nm c et er v mo n' flag Hc H.
  pose proof (vpack_length_names il nv ivs fl nm c (fst (m_setname nm n' flag)) c et er v mo) as E.
  apply (setstr_flags_change vssetname_grow_cond); [reflexivity|assumption|]. fold (m_setname nm n' flag). lia.
Qed.

(** and the stored string stays within VSNAMELENMAX *)
Lemma setstr_bounded : forall grow cur new flag, Z.of_nat (length (fst (m_setstr grow cur new flag))) <= VSNAMELENMAX.
Proof.
  intros. unfold m_setstr. cbn [fst]. destruct (VSNAMELENMAX <? Z.of_nat (length new)) eqn:E.
  - rewrite firstn_length. apply Z.ltb_lt in E. unfold VSNAMELENMAX in *. lia.
  - apply Z.ltb_ge in E. exact E.
Qed.

(* ------------------------------------------------------------------ *)
(** * The model follows the current source: the conversion calls / pointer updates of VSwrite and VSread and the
    field order of the header codec that VSModel.v was written from ([*_modelled], written by hand) are what the
    translator finds in the current vrw.c / vio.c ([Gen_VS.VSwrite_skeleton] ...).  An edit of those statements
    changes gen/Gen_VS.v and breaks these lemmas. *)
From Coq Require Import String.
Local Open Scope string_scope.
Definition VSwrite_skeleton_modelled : list string :=
  ["dest = (0);";
   "int_size = 0, j = 0;";
   "int_size += w->esize[j];";
   "done = 0;";
   "Src = buf;";
   "dest = Vtbuf;";
   "bytes = hdf_size * chunk;";
   "bytes = hdf_size * chunk;";
   "offset = 0;";
   "src = Src + offset;";
   "dest = Vtbuf + w->off[j];";
   "DFKconvert(src, dest, type, chunk, 2, int_size, hdf_size);";
   "dest += isize / order;";
   "src += esize / order;";
   "offset += esize;";
   "done += chunk;";
   "Src += chunk * int_size;";
   "src = buf;";
   "dest = Vtbuf + w->off[j];";
   "DFKconvert(src, dest, type, nelt, 2, esize, hdf_size);";
   "src += esize / order;";
   "dest += isize / order;";
   "src += ((nelt - 1) * esize);";
   "src = buf;";
   "dest = Vtbuf + w->off[j] * nelt;";
   "DFKconvert(src, dest, type, nelt, 2, esize, isize);";
   "dest += isize / order;";
   "src += esize / order;";
   "src += ((nelt - 1) * esize);";
   "offset = 0;";
   "src = buf + offset;";
   "dest = Vtbuf + w->off[j] * nelt;";
   "DFKconvert(src, dest, type, nelt, 2, int_size, isize);";
   "dest += isize / order;";
   "src += esize / order;";
   "offset += esize;"].
Definition VSread_skeleton_modelled : list string :=
  ["b1 = (0);";
   "b2 = (0);";
   "done = 0;";
   "Src = buf;";
   "bytes = hsize * chunk;";
   "uvsize = 0, j = 0;";
   "uvsize += w->esize[r->item[j]];";
   "bytes = hsize * chunk;";
   "DFKconvert(Vtbuf, Src, w->type[0], w->order[0] * chunk, 1, 0, 0);";
   "offset = 0;";
   "b1 = Src + offset;";
   "b2 = Vtbuf + w->off[i];";
   "DFKconvert(b2, b1, type, chunk, 1, hsize, uvsize);";
   "b1 += esize / order;";
   "b2 += isize / order;";
   "offset += esize;";
   "done += chunk;";
   "Src += chunk * uvsize;";
   "b1 = buf;";
   "b2 = Vtbuf + w->off[i];";
   "DFKconvert(b2, b1, type, nelt, 1, hsize, esize);";
   "b2 += isize / order;";
   "b1 += esize / order;";
   "b1 += ((nelt - 1) * esize);";
   "b1 = buf;";
   "b2 = Vtbuf + w->off[i] * nelt;";
   "DFKconvert(b2, b1, type, nelt, 1, isize, esize);";
   "b1 += esize / order;";
   "b2 += isize / order;";
   "b1 += ((nelt - 1) * esize);";
   "uvsize = 0, j = 0;";
   "uvsize += w->esize[r->item[j]];";
   "offset = 0;";
   "b1 = buf + offset;";
   "b2 = Vtbuf + w->off[i] * nelt;";
   "DFKconvert(b2, b1, type, nelt, 1, isize, uvsize);";
   "b1 += esize / order;";
   "b2 += isize / order;";
   "offset += isize;"].
Definition vpackvs_order_modelled : list (Z * string) :=
  [(2, "interlace"); (4, "nvertices"); (2, "ivsize"); (2, "n"); (2, "type_i"); (2, "isize_i"); (2, "off_i"); (2, "order_i"); (2, "slen"); (2, "slen"); (2, "slen"); (2, "extag"); (2, "exref"); (2, "version"); (2, "more"); (4, "flags"); (4, "nattrs"); (4, "alist_i_findex"); (2, "alist_i_atag"); (2, "alist_i_aref"); (2, "version"); (2, "more")].
Definition vunpackvs_order_modelled : list (Z * string) :=
  [(2, "uint16var"); (2, "uint16var"); (2, "interlace"); (4, "nvertices"); (2, "ivsize"); (2, "int16var"); (2, "type_i"); (2, "isize_i"); (2, "off_i"); (2, "order_i"); (2, "int16var"); (2, "int16var"); (2, "int16var"); (2, "extag"); (2, "exref"); (2, "temp"); (2, "temp"); (4, "flags"); (4, "nattrs"); (4, "alist_i_findex"); (2, "alist_i_atag"); (2, "alist_i_aref")].
Definition VSsetname_len_stmts_modelled : list string :=
  ["curr_len = 0;";
   "curr_len = (int32)strnlen(vs->vsname, 64 + 1);";
   "slen = (int32)strlen(vsname)";
   "if (curr_len != slen) vs->new_h_sz = (!0);"].
Definition VSsetclass_len_stmts_modelled : list string :=
  ["curr_len = (int)strlen(vs->vsclass);";
   "slen = (int)strlen(vsclass)";
   "if (curr_len != slen) vs->new_h_sz = (!0);"].
Definition VSsizeof_stmts_modelled : list string :=
  ["totalsize = 0;";
   "totalsize += vs->wlist.esize[j];";
   "if (!strcmp(av[i], vs->wlist.name[j]))";
   "totalsize += vs->wlist.esize[j];"].
Definition VSfexist_stmts_modelled : list string :=
  ["}";
   "}";
   "}";
   "}";
   "}";
   "for (i = 0; i < ac; i++)";
   "found = 0;";
   "for (j = 0; j < w->n; j++)";
   "found = 1;";
   "}";
   "}";
   "if (!found) do { ret_value = (-1);";
   "}";
   "}"].
Definition VSfdefine_stmts_modelled : list string :=
  ["}";
   "}";
   "}";
   "}";
   "}";
   "if (!strcmp(av[0], vs->usym[j].name)) {";
   "replacesym = 1;";
   "}";
   "if (replacesym)";
   "else {";
   "}";
   "}";
   "else {";
   "}";
   "}";
   "}";
   "vs->usym[usymid].isize = (uint16)isize;";
   "}";
   "vs->usym[usymid].type = (int16)localtype;";
   "vs->usym[usymid].order = (uint16)order;"].
Local Close Scope string_scope.
Lemma model_follows_source_lemma :
  VSwrite_skeleton = VSwrite_skeleton_modelled /\ VSread_skeleton = VSread_skeleton_modelled /\
  vpackvs_order = vpackvs_order_modelled /\ vunpackvs_order = vunpackvs_order_modelled /\
  VSsetname_len_stmts = VSsetname_len_stmts_modelled /\ VSsetclass_len_stmts = VSsetclass_len_stmts_modelled /\
  VSsizeof_stmts = VSsizeof_stmts_modelled /\ VSfexist_stmts = VSfexist_stmts_modelled /\
  VSfdefine_stmts = VSfdefine_stmts_modelled.
Proof. repeat split; reflexivity. Qed.
