(** C08 -- the history-level simulation: VGModel.mstep refines VGraphSpec.step for the whole operation language. *)
From Coq Require Import ZArith List Bool Lia Sorted.
Require Import H4.gen.Gen_VG H4.VGraphSpec H4.VGModel H4.VGProofs.
Import ListNotations.
Local Open Scope Z_scope.

(* ================================================================================================== *)
(** * Tables keyed by reference number *)

Section Tables.
Context {A : Type}.
Implicit Types t : list (Z * A).

Lemma tget_tset : forall t k r v,
  tget k (tset r v t) = if k =? r then match tget r t with Some _ => Some v | None => None end else tget k t.
Proof.
  induction t as [|[k' v'] t]; intros k r v; cbn [tset tget].
  - destruct (k =? r); reflexivity.
  - destruct (Z.eqb_spec r k') as [E|E].
    + subst k'. cbn [tget]. destruct (Z.eqb_spec k r); reflexivity.
    + cbn [tget]. rewrite IHt. destruct (Z.eqb_spec k r) as [E2|E2].
      * subst k. destruct (Z.eqb_spec r k'); [contradiction|reflexivity].
      * reflexivity.
Qed.

Lemma tget_tins_other : forall t k r v, k <> r -> tget k (tins r v t) = tget k t.
Proof.
  induction t as [|[k' v'] t]; intros k r v N; cbn [tins tget].
  - destruct (Z.eqb_spec k r); [contradiction|reflexivity].
  - destruct (r <? k'); cbn [tget].
    + destruct (Z.eqb_spec k r); [contradiction|reflexivity].
    + rewrite IHt by auto. reflexivity.
Qed.

Lemma tget_tins_same : forall t r v, tget r t = None -> tget r (tins r v t) = Some v.
Proof.
  induction t as [|[k' v'] t]; intros r v N; cbn [tins tget] in *.
  - rewrite Z.eqb_refl. reflexivity.
  - destruct (Z.eqb_spec r k'); [discriminate|]. destruct (r <? k'); cbn [tget].
    + rewrite Z.eqb_refl. reflexivity.
    + destruct (Z.eqb_spec r k'); [contradiction|]. auto.
Qed.

Lemma tget_tdel_other : forall t k r, k <> r -> tget k (tdel r t) = tget k t.
Proof.
  induction t as [|[k' v'] t]; intros k r N; cbn [tdel tget]; auto.
  destruct (Z.eqb_spec r k').
  - subst. destruct (Z.eqb_spec k k'); [contradiction|reflexivity].
  - cbn [tget]. rewrite IHt by auto. reflexivity.
Qed.

Lemma keys_tset : forall t r v, keys (tset r v t) = keys t.
Proof.
  induction t as [|[k' v'] t]; intros; cbn [tset]; auto.
  destruct (r =? k'); cbn [keys map fst]; auto. f_equal. apply IHt.
Qed.

Lemma keys_tins_In : forall t r v x, In x (keys (tins r v t)) <-> x = r \/ In x (keys t).
Proof.
  induction t as [|[k' v'] t]; intros; cbn [tins keys map fst In].
  - intuition.
  - destruct (r <? k'); cbn [keys map fst In].
    + intuition.
    + fold (keys (tins r v t)). rewrite IHt. fold (keys t). intuition.
Qed.

Lemma keys_tdel_In : forall t r x, In x (keys (tdel r t)) -> In x (keys t).
Proof.
  induction t as [|[k' v'] t]; intros r x H; cbn [tdel keys map fst In] in *; auto.
  destruct (r =? k'); cbn [keys map fst In] in *; auto. destruct H; auto. right. eapply IHt; eauto.
Qed.

Lemma tget_none_notin : forall t k, tget k t = None <-> ~ In k (keys t).
Proof.
  intros. rewrite tget_keys. split.
  - intros H [v E]. congruence.
  - intro H. destruct (tget k t) eqn:E; auto. exfalso. apply H. eauto.
Qed.

Lemma sorted_tins : forall t r v, StronglySorted Z.lt (keys t) -> tget r t = None ->
  StronglySorted Z.lt (keys (tins r v t)).
Proof.
  induction t as [|[k' v'] t]; intros r v S N; cbn [tins].
  - repeat constructor.
  - cbn [tget] in N. destruct (Z.eqb_spec r k'); [discriminate|].
    cbn [keys map fst] in S. inversion S as [|? ? S' F]; subst.
    destruct (Z.ltb_spec r k').
    + cbn [keys map fst]. constructor; [constructor; auto|].
      constructor; [lia|]. eapply Forall_impl; [|exact F]. cbn. intros; lia.
    + cbn [keys map fst]. constructor; [apply IHt; auto|].
      apply Forall_forall. intros x Hx. apply keys_tins_In in Hx. destruct Hx as [Hx|Hx]; [lia|].
      rewrite Forall_forall in F. apply F. auto.
Qed.

Lemma sorted_tdel : forall t r, StronglySorted Z.lt (keys t) -> StronglySorted Z.lt (keys (tdel r t)).
Proof.
  induction t as [|[k' v'] t]; intros r S; cbn [tdel]; auto.
  cbn [keys map fst] in S. inversion S as [|? ? S' F]; subst.
  destruct (r =? k'); auto. cbn [keys map fst]. constructor; [apply IHt; auto|].
  apply Forall_forall. intros x Hx. apply keys_tdel_In in Hx. rewrite Forall_forall in F. auto.
Qed.

Lemma tget_tdel_same : forall t r, StronglySorted Z.lt (keys t) -> tget r (tdel r t) = None.
Proof.
  induction t as [|[k' v'] t]; intros r S; cbn [tdel tget]; auto.
  cbn [keys map fst] in S. inversion S as [|? ? S' F]; subst.
  destruct (Z.eqb_spec r k').
  - subst. apply tget_none_notin. intro I. rewrite Forall_forall in F. specialize (F _ I). lia.
  - cbn [tget]. destruct (Z.eqb_spec r k'); [contradiction|]. auto.
Qed.

Lemma tget_sorted_in : forall t k v, StronglySorted Z.lt (keys t) -> (In (k, v) t <-> tget k t = Some v).
Proof.
  intros t k v S. split; [apply tget_in; apply sorted_nodup; auto|].
  induction t as [|[k' v'] t]; cbn [tget]; [discriminate|].
  cbn [keys map fst] in S. inversion S; subst.
  destruct (Z.eqb_spec k k'); intro H.
  - inversion H; subst. left; reflexivity.
  - right. auto.
Qed.

(** Vgetid's position arithmetic is "the key after k" *)
Lemma pos_of_shift : forall t k i, pos_of k t (S i) = option_map S (pos_of k t i).
Proof.
  induction t as [|[k' v'] t]; intros; cbn [pos_of]; auto. destruct (k =? k'); auto.
Qed.

Lemma m_next_tnext : forall t k,
  match pos_of k t 0 with
  | None => None
  | Some i => if (S i =? length t)%nat then None
              else match nth_error t (S i) with Some (k2, _) => Some k2 | None => None end
  end = tnext k t.
Proof.
  induction t as [|[k' v'] t]; intros k; cbn [pos_of tnext]; auto.
  destruct (k =? k').
  - cbn [length]. destruct t as [|[k2 v2] t]; reflexivity.
  - rewrite pos_of_shift. rewrite <- IHt. destruct (pos_of k t 0) as [i|]; cbn [option_map]; auto.
Qed.

Lemma m_getid_spec : forall t r,
  m_getid t r = if r =? -1 then match t with [] => None | (k, _) :: _ => Some k end
                else if r <? -1 then None else tnext r t.
Proof.
  intros. unfold m_getid. destruct (Z.ltb_spec r (-1)).
  - destruct (Z.eqb_spec r (-1)); [lia|reflexivity].
  - destruct (Z.eqb_spec r (-1)); [reflexivity|]. apply m_next_tnext.
Qed.

(** Vfind-style loops: the first hit of the iteration is the first hit of the table *)
Lemma find_loop_spec : forall (p : A -> bool) t l, NoDup (keys t) -> incl l t ->
  find_loop p t (keys l) = find_first p l.
Proof.
  induction l as [|[k v] l]; intros ND I; [reflexivity|]. cbn [keys map fst find_loop find_first].
  rewrite (tget_in A t k v) by (auto; apply I; left; auto).
  destruct (p v); auto. apply IHl; auto. intros x Hx. apply I. right. auto.
Qed.

Lemma filter_keys_tget : forall (q : A -> bool) t l, NoDup (keys t) -> incl l t ->
  filter (fun id => match tget id t with Some g => q g | None => false end) (keys l) =
  keys (filter (fun e => q (snd e)) l).
Proof.
  induction l as [|[k v] l]; intros ND I; [reflexivity|]. cbn [keys map fst filter snd].
  rewrite (tget_in A t k v) by (auto; apply I; left; auto).
  assert (IH : filter (fun id => match tget id t with Some g => q g | None => false end) (keys l) =
               keys (filter (fun e => q (snd e)) l)) by (apply IHl; auto; intros x Hx; apply I; right; auto).
  unfold keys in *. destruct (q v); cbn [map fst]; rewrite IH; reflexivity.
Qed.
End Tables.

(** tables under a key-dependent map *)
Section TMap.
Context {A B : Type} (F : Z -> A -> B).

Lemma tget_tmap : forall t k, tget k (tmap F t) = option_map (F k) (tget k t).
Proof.
  induction t as [|[k' v'] t]; intros k; cbn [tmap map fst snd tget]; auto.
  destruct (Z.eqb_spec k k'); [subst; reflexivity|]. apply IHt.
Qed.

Lemma tset_tmap : forall t k v, tset k (F k v) (tmap F t) = tmap F (tset k v t).
Proof.
  induction t as [|[k' v'] t]; intros k v; cbn [tmap map fst snd tset]; auto.
  destruct (Z.eqb_spec k k'); [subst; reflexivity|]. cbn [map fst snd]. f_equal. apply IHt.
Qed.

Lemma tins_tmap : forall t k v, tins k (F k v) (tmap F t) = tmap F (tins k v t).
Proof.
  induction t as [|[k' v'] t]; intros k v; cbn [tmap map fst snd tins]; auto.
  destruct (k <? k'); cbn [map fst snd]; [reflexivity|]. f_equal. apply IHt.
Qed.

Lemma tdel_tmap : forall t k, tdel k (tmap F t) = tmap F (tdel k t).
Proof.
  induction t as [|[k' v'] t]; intros k; cbn [tmap map fst snd tdel]; auto.
  destruct (k =? k'); cbn [map fst snd]; [reflexivity|]. f_equal. apply IHt.
Qed.

Lemma tnext_tmap : forall t k, tnext k (tmap F t) = tnext k t.
Proof.
  induction t as [|[k' v'] t]; intros k; cbn [tmap map fst snd tnext]; auto.
  destruct (k =? k'); [destruct t as [|[k2 v2] t]; reflexivity|]. apply IHt.
Qed.

Lemma find_first_tmap : forall (p : B -> bool) (q : A -> bool) t, (forall k v, p (F k v) = q v) ->
  find_first p (tmap F t) = find_first q t.
Proof.
  induction t as [|[k' v'] t]; intros H; cbn [tmap map fst snd find_first]; auto.
  rewrite H. destruct (q v'); auto.
Qed.

Lemma filter_tmap_keys : forall (p : B -> bool) (q : A -> bool) t, (forall k v, p (F k v) = q v) ->
  keys (filter (fun e => p (snd e)) (tmap F t)) = keys (filter (fun e => q (snd e)) t).
Proof.
  induction t as [|[k' v'] t]; intros H; cbn [tmap map fst snd filter]; auto.
  rewrite H. fold (tmap F t). destruct (q v'); cbn [keys map fst]; [f_equal|]; apply IHt; auto.
Qed.

Lemma tmap_head : forall t, match tmap F t with [] => None | (k, _) :: _ => Some k end =
                            match t with [] => None | (k, _) :: _ => Some k end.
Proof. destruct t as [|[k v] t]; reflexivity. Qed.
End TMap.

Lemma tmap_ext_in : forall A B (F G : Z -> A -> B) t, (forall k v, In (k, v) t -> F k v = G k v) ->
  tmap F t = tmap G t.
Proof.
  intros. unfold tmap. apply map_ext_in. intros [k v] I. cbn [fst snd]. rewrite H; auto.
Qed.

(** changing the map at one key only *)
Lemma tmap_change_at : forall A B (F F' : Z -> A -> B) t r g, NoDup (keys t) -> tget r t = Some g ->
  (forall k v, k <> r -> F' k v = F k v) ->
  tmap F' t = tset r (F' r g) (tmap F t).
Proof.
  induction t as [|[k' v'] t]; intros r g ND E H; [discriminate|].
  cbn [tmap map fst snd tset]. cbn [tget] in E. cbn [keys map fst] in ND. inversion ND as [|? ? NI ND']; subst.
  destruct (Z.eqb_spec r k').
  - subst k'. inversion E; subst. f_equal. apply tmap_ext_in. intros k v I. apply H.
    intro; subst. apply NI. apply (in_map fst) in I. auto.
  - rewrite H by auto. f_equal. apply IHt; auto.
Qed.

(* ================================================================================================== *)
(** * Observers of one vgroup record, on the member list *)

Lemma existsb_map : forall A B (f : B -> bool) (h : A -> B) l, existsb f (map h l) = existsb (fun x => f (h x)) l.
Proof. induction l; simpl; auto. rewrite IHl. reflexivity. Qed.

Lemma existsb_ext : forall A (f g : A -> bool) l, (forall x, f x = g x) -> existsb f l = existsb g l.
Proof. induction l; simpl; intros; auto. rewrite H, IHl; auto. Qed.

Lemma existsb_rev : forall A (f : A -> bool) l, existsb f (rev l) = existsb f l.
Proof.
  induction l; simpl; auto. rewrite existsb_app, IHl. simpl. rewrite orb_false_r. apply orb_comm.
Qed.

Lemma idx_existsb : forall g (P : Z -> Z -> bool), WF g ->
  existsb (fun i => P (aget (tag g) i) (aget (ref g) i)) (idx g) = existsb (fun p => P (fst p) (snd p)) (members g).
Proof.
  intros g P [Lt Lr Hn Hm Hu]. unfold idx, members.
  rewrite <- (map_idx_members (Z.to_nat (nvelt g)) (tag g) (ref g)) by lia.
  rewrite existsb_map. reflexivity.
Qed.

Lemma Visvg_spec : forall g id, WF g -> u16 id = true -> Visvg g id = has_member (DFTAG_VG, id) (members g).
Proof.
  intros g id W U. unfold Visvg. rewrite (w16_id id U).
  rewrite (idx_existsb g (fun t r => (r =? id) && (t =? DFTAG_VG)) W).
  unfold has_member. apply existsb_ext. intros [t r]. unfold pair_eqb. cbn [fst snd].
  rewrite (Z.eqb_sym r id), (Z.eqb_sym t DFTAG_VG). apply andb_comm.
Qed.

Lemma Visvs_spec : forall g id, WF g -> u16 id = true -> Visvs g id = has_member (DFTAG_VH, id) (members g).
Proof.
  intros g id W U. unfold Visvs. rewrite (w16_id id U), existsb_rev.
  rewrite (idx_existsb g (fun t r => (r =? id) && (t =? VSDESCTAG)) W).
  unfold has_member. apply existsb_ext. intros [t r]. unfold pair_eqb. cbn [fst snd].
  change VSDESCTAG with DFTAG_VH. rewrite (Z.eqb_sym r id), (Z.eqb_sym t DFTAG_VH). apply andb_comm.
Qed.

Lemma count_fold : forall (l : list (Z * Z)) t a,
  fold_left (fun acc p => if fst p =? t then acc + 1 else acc) l a = a + zlen (filter (fun p => fst p =? t) l).
Proof.
  induction l as [|[x y] l]; intros t a; cbn [fold_left filter fst].
  - unfold zlen. simpl. lia.
  - rewrite IHl. destruct (x =? t); unfold zlen; cbn [length]; lia.
Qed.

Lemma Vnrefs_spec : forall g t, WF g -> u16 t = true ->
  Vnrefs g t = zlen (filter (fun p => fst p =? t) (members g)).
Proof.
  intros g t [Lt Lr Hn Hm Hu] U. unfold Vnrefs, idx. rewrite (w16_id t U).
  rewrite (fold_left_map_arg nat (Z * Z) Z (fun acc p => if fst p =? t then acc + 1 else acc)
             (fun i => (aget (tag g) i, aget (ref g) i))).
  rewrite map_idx_members by lia. rewrite count_fold. unfold members. lia.
Qed.

Lemma flat_map_map : forall A B C (f : B -> list C) (h : A -> B) l, flat_map f (map h l) = flat_map (fun x => f (h x)) l.
Proof. induction l; simpl; auto. rewrite IHl. reflexivity. Qed.

Lemma flat_map_filter : forall (c : Z * Z -> bool) l,
  flat_map (fun p => if c p then [snd p] else []) l = map snd (filter c l).
Proof. induction l; simpl; auto. destruct (c a); simpl; rewrite IHl; reflexivity. Qed.

Lemma idx_flat_map : forall g (H : Z -> Z -> list Z), WF g ->
  flat_map (fun i => H (aget (tag g) i) (aget (ref g) i)) (idx g) = flat_map (fun p => H (fst p) (snd p)) (members g).
Proof.
  intros g H [Lt Lr Hn Hm Hu]. unfold idx, members.
  rewrite <- (map_idx_members (Z.to_nat (nvelt g)) (tag g) (ref g)) by lia.
  rewrite flat_map_map. reflexivity.
Qed.

Lemma no_internal_empty : internal_class [] = false.
Proof. reflexivity. Qed.

Lemma user_created_spec : forall hg k g, user_created g = negb (internal_class (g_class (abs_vg hg k g))).
Proof.
  intros. unfold user_created, abs_vg. cbn [g_class]. destruct (vgclass g); cbn [opt_bytes]; [reflexivity|].
  cbn [cstr]. rewrite no_internal_empty. reflexivity.
Qed.

Lemma bytes_eqb_nil_r : forall n, n <> [] -> bytes_eqb n [] = false.
Proof. destruct n; [contradiction|reflexivity]. Qed.

Lemma name_is_spec : forall n o, n <> [] -> name_is n o = bytes_eqb n (cstr (opt_bytes o)).
Proof.
  intros n o N. unfold name_is. destruct o; cbn [opt_bytes]; [reflexivity|].
  cbn [cstr]. rewrite bytes_eqb_nil_r; auto.
Qed.

(* ================================================================================================== *)
(** * Edits keep a record storable *)

Lemma name_ok_chars : forall n, name_ok n = true -> Forall is_char n.
Proof.
  intros n H. unfold name_ok in H. rewrite forallb_forall in H. apply Forall_forall. intros x Hx.
  specialize (H x Hx). apply andb_true_iff in H as [A B]. apply Z.leb_le in A. apply Z.leb_le in B.
  unfold is_char. lia.
Qed.

Lemma u16_is : forall z, u16 z = true -> is_u16 z.
Proof.
  intros z H. unfold u16 in H. apply andb_true_iff in H as [A B]. apply Z.leb_le in A. apply Z.leb_le in B.
  unfold is_u16. lia.
Qed.

Lemma WFpack_new : forall r, WFpack (new_vgroup r).
Proof.
  intro r. constructor; cbn.
  - apply WF_new.
  - constructor.
  - intros s E; discriminate.
  - intros s E; discriminate.
  - unfold is_u16; lia.
  - lia.
  - split; [lia|]. split; [reflexivity|constructor].
  - auto.
  - unfold VSET_VERSION. split; [lia|]. intros _ H; discriminate.
Qed.

(** a record that differs from a storable one only in the member arrays *)
Lemma WFpack_arrays : forall g n m tg rf, WFpack g ->
  WF (set_arrays g n m tg rf) -> Forall pair_u16 (members (set_arrays g n m tg rf)) ->
  WFpack (set_arrays g n m tg rf).
Proof. intros g n m tg rf [W Fm Wn Wc X Hf A Hno V] W' F'. constructor; auto. Qed.

Lemma WFpack_bits : forall g g', WFpack g ->
  (nvelt g', msize g', tag g', ref g') = (nvelt g, msize g, tag g, ref g) ->
  (vgname g', vgclass g', extag g', exref g', more g') = (vgname g, vgclass g, extag g, exref g, more g) ->
  (flags g', nattrs g', alist g', version g') = (flags g, nattrs g, alist g, version g) ->
  WFpack g'.
Proof.
  intros g g' [[Lt Lr Hn Hm Hu] Fm Wn Wc X Hf A Hno V] E1 E2 E3.
  inversion E1 as [[e1 e2 e3 e4]]. inversion E2 as [[e5 e6 e7 e8 e9]]. inversion E3 as [[e10 e11 e12 e13]].
  constructor.
  - constructor; congruence.
  - unfold members. rewrite e1, e3, e4. exact Fm.
  - rewrite e5. exact Wn.
  - rewrite e6. exact Wc.
  - rewrite e7, e8, e9. exact X.
  - rewrite e10. exact Hf.
  - rewrite e11, e12. exact A.
  - rewrite e10, e11, e12. exact Hno.
  - rewrite e10, e13. exact V.
Qed.

Lemma vinsertpair_pack : forall g t r, WFpack g -> nvelt g < 65535 -> is_u16 t -> is_u16 r ->
  exists g' n, vinsertpair g t r = Some (g', n) /\ WFpack g' /\ members g' = members g ++ [(t, r)] /\
    n = nvelt g + 1 /\ nvelt g' = n /\
    (vgname g', vgclass g', oref g', access g', marked g') = (vgname g, vgclass g, oref g, access g, true) /\
    new_vg g' = new_vg g.
Proof.
  intros g t r P Hlt Ut Ur.
  destruct (vinsertpair_spec g t r (wp_wf g P) Hlt) as (g' & n & E & W' & M' & N1 & N2 & Sh).
  exists g', n. split; [exact E|]. split; [|split; [exact M'|split; [exact N1|split; [exact N2|split]]]].
  - rewrite Sh. apply WFpack_arrays; auto; rewrite <- Sh; auto.
    rewrite M'. apply Forall_app. split; [apply (wp_mem g P)|]. constructor; [split; auto|constructor].
  - rewrite Sh. reflexivity.
  - rewrite Sh. reflexivity.
Qed.

Lemma remove_first_Forall : forall (P : Z * Z -> Prop) p l l', remove_first p l = Some l' -> Forall P l -> Forall P l'.
Proof.
  induction l as [|q l]; intros l' H F; cbn [remove_first] in H; [discriminate|]. inversion F; subst.
  destruct (pair_eqb p q); [inversion H; subst; auto|].
  destruct (remove_first p l) eqn:E; [|discriminate]. inversion H; subst. constructor; auto.
Qed.

Lemma Vdeletetagref_pack : forall g t r, WFpack g -> u16 t = true -> u16 r = true ->
  match Vdeletetagref g t r with
  | Some g' => WFpack g' /\ remove_first (t, r) (members g) = Some (members g') /\
               (vgname g', vgclass g', oref g', access g', marked g') = (vgname g, vgclass g, oref g, access g, true) /\
               new_vg g' = new_vg g
  | None => remove_first (t, r) (members g) = None
  end.
Proof.
  intros g t r P Ut Ur. pose proof (Vdeletetagref_spec g t r (wp_wf g P) Ut Ur) as S.
  destruct (Vdeletetagref g t r) as [g'|] eqn:E; [|exact S]. destruct S as (W' & R & N).
  unfold Vdeletetagref in E. destruct (scan _ _ _ _ _ _); [|discriminate]. inversion E as [Sh].
  split; [|split; [rewrite Sh; exact R|split; reflexivity]].
  apply WFpack_arrays; auto; rewrite Sh; auto.
  eapply remove_first_Forall; [exact R|apply (wp_mem g P)].
Qed.

Lemma set_name_pack : forall g n, WFpack g -> name_ok n = true -> zlen n <= 65535 ->
  WFpack (set_name g (set_string n)) /\ WFpack (set_class g (set_string n)) /\ cstr n = n.
Proof.
  intros g n [W Fm Wn Wc X Hf A Hno V] N L. pose proof (name_ok_chars n N) as C.
  assert (E : cstr n = n) by (apply cstr_id; auto).
  assert (NW : name_wf (set_string n)).
  { unfold set_string. rewrite E. intros s Es. inversion Es; subst. auto. }
  destruct W as [Lt Lr Hn Hm Hu].
  split; [|split; [|exact E]]; constructor; auto; constructor; auto.
Qed.

(* ================================================================================================== *)
(** * The invariant of reachable model states *)

(** the vgroup under key [k] is stored in the file as the record of some storable vgroup with the same content *)
Definition saved (file : list (Z * bytes)) (k : Z) (g : VGROUP) : Prop :=
  exists g0, WFpack g0 /\ oref g0 = k /\ tget k file = Some (snd (vpackvg g0)) /\ core g0 = core g.

Definition key_ok (k : Z) : Prop := 0 <= k <= MAX_REF.

Record Inv (m : mstate) : Prop := mkInv {
  i_sg : StronglySorted Z.lt (keys (m_vg m));
  i_rg : Forall key_ok (keys (m_vg m));
  i_ss : StronglySorted Z.lt (keys (m_vs m));
  i_rs : Forall key_ok (keys (m_vs m));
  i_sf : StronglySorted Z.lt (keys (m_file m));
  i_vg : forall k g, tget k (m_vg m) = Some g -> WFpack g /\ oref g = k;
  i_mk : forall k g, tget k (m_vg m) = Some g -> marked g = true -> attached_in k (m_hg m) = true;
  i_sv : forall k g, tget k (m_vg m) = Some g -> marked g = false -> saved (m_file m) k g;
  i_fs : forall k, tget k (m_file m) <> None -> tget k (m_vg m) <> None;
  i_hg : forall h r, In (h, r) (m_hg m) -> tget r (m_vg m) <> None;
  i_hs : forall h r, In (h, r) (m_hs m) -> tget r (m_vs m) <> None;
  i_nw : forall k g, tget k (m_vg m) = Some g -> new_vg g = true -> tget k (m_file m) = None }.

Lemma Inv_init : Inv minit.
Proof. constructor; cbn; try constructor; intros; try discriminate; try contradiction; auto. Qed.

(* ---- handle tables -------------------------------------------------------------------------------- *)
Lemma attached_of_handle : forall (t : list (Z * Z)) h r, tget h t = Some r -> attached_in r t = true.
Proof.
  induction t as [|[h' r'] t]; intros h r E; cbn [tget] in E; [discriminate|].
  unfold attached_in. cbn [existsb snd]. destruct (h =? h').
  - inversion E; subst. rewrite Z.eqb_refl. reflexivity.
  - fold (attached_in r t). rewrite (IHt h r E). apply orb_true_r.
Qed.

Lemma attached_tins : forall (t : list (Z * Z)) h r k, attached_in k (tins h r t) = (r =? k) || attached_in k t.
Proof.
  induction t as [|[h' r'] t]; intros h r k; unfold attached_in; cbn [tins existsb snd].
  - rewrite orb_false_r. reflexivity.
  - destruct (h <? h'); cbn [existsb snd]; [reflexivity|].
    fold (attached_in k (tins h r t)). fold (attached_in k t). rewrite IHt.
    destruct (r' =? k), (r =? k); reflexivity.
Qed.

Lemma attached_tdel_other : forall (t : list (Z * Z)) h r k, tget h t = Some r -> k <> r ->
  attached_in k (tdel h t) = attached_in k t.
Proof.
  induction t as [|[h' r'] t]; intros h r k E N; cbn [tget] in E; [discriminate|].
  unfold attached_in. cbn [tdel existsb snd]. destruct (h =? h').
  - inversion E; subst. destruct (Z.eqb_spec r k); [congruence|reflexivity].
  - cbn [existsb snd]. fold (attached_in k (tdel h t)). fold (attached_in k t). rewrite (IHt h r k E N). reflexivity.
Qed.

Lemma attached_tdel_imp : forall (t : list (Z * Z)) h k, attached_in k (tdel h t) = true -> attached_in k t = true.
Proof.
  induction t as [|[h' r'] t]; intros h k; unfold attached_in; cbn [tdel existsb snd]; auto.
  destruct (h =? h'); cbn [existsb snd].
  - intro H. rewrite H. apply orb_true_r.
  - fold (attached_in k (tdel h t)). fold (attached_in k t). intro H. apply orb_true_iff in H as [H|H].
    + rewrite H. reflexivity.
    + rewrite (IHt h k H). apply orb_true_r.
Qed.

Lemma tset_tset : forall A (t : list (Z * A)) r x y, tset r x (tset r y t) = tset r x t.
Proof.
  induction t as [|[k v] t]; intros; cbn [tset]; auto.
  destruct (Z.eqb_spec r k); cbn [tset].
  - subst. rewrite Z.eqb_refl. reflexivity.
  - destruct (Z.eqb_spec r k); [contradiction|]. f_equal. apply IHt.
Qed.

Lemma tset_same : forall A (t : list (Z * A)) r v, tget r t = Some v -> tset r v t = t.
Proof.
  induction t as [|[k v'] t]; intros r v E; cbn [tset tget] in *; auto.
  destruct (Z.eqb_spec r k).
  - subst. inversion E; subst. reflexivity.
  - f_equal. auto.
Qed.

Lemma tget_tput : forall A (t : list (Z * A)) k r v, tget k (tput r v t) = if k =? r then Some v else tget k t.
Proof.
  intros. unfold tput. destruct (tget r t) eqn:E.
  - rewrite tget_tset, E. reflexivity.
  - destruct (Z.eqb_spec k r).
    + subst. apply tget_tins_same. auto.
    + apply tget_tins_other. auto.
Qed.

Lemma sorted_tput : forall A (t : list (Z * A)) r v, StronglySorted Z.lt (keys t) -> StronglySorted Z.lt (keys (tput r v t)).
Proof.
  intros. unfold tput. destruct (tget r t) eqn:E.
  - rewrite keys_tset. auto.
  - apply sorted_tins; auto.
Qed.

(** the abstraction after a change at one vgroup and in the handle table *)
Lemma abs_change : forall hg hg' t r g g', NoDup (keys t) -> tget r t = Some g ->
  (forall k, k <> r -> attached_in k hg' = attached_in k hg) ->
  abs_table hg' (tset r g' t) = tset r (abs_vg hg' r g') (abs_table hg t).
Proof.
  intros hg hg' t r g g' ND E H. unfold abs_table.
  rewrite <- tset_tmap.
  rewrite (tmap_change_at _ _ (abs_vg hg) (abs_vg hg') t r g ND E).
  - apply tset_tset.
  - intros k v N. unfold abs_vg. rewrite (H k N). reflexivity.
Qed.

Lemma abs_same_hg : forall hg hg' t, (forall k, In k (keys t) -> attached_in k hg' = attached_in k hg) ->
  abs_table hg' t = abs_table hg t.
Proof.
  intros. unfold abs_table. apply tmap_ext_in. intros k v I. unfold abs_vg.
  rewrite H; auto. apply (in_map fst) in I. exact I.
Qed.

(* ================================================================================================== *)
(** * One operation: the model step refines the specification step *)

(** [RNoSpec]: the specification makes no claim about this one result *)
Definition res_agree (rs rm : res) : Prop := rs = RNoSpec \/ rm = rs.
(** either the operation is outside the property's domain, or the model's new state is again a good state,
    stands for the specification's new state, and the results agree *)
Definition sim_step (m : mstate) (o : op) : Prop :=
  snd (step (abs_state m) o) = RUnspec \/
  (Inv (fst (mstep m o)) /\ abs_state (fst (mstep m o)) = fst (step (abs_state m) o) /\
   res_agree (snd (step (abs_state m) o)) (snd (mstep m o))).

Ltac obs_start m I h :=
  unfold sim_step; cbn [mstep step]; unfold m_with, with_h; cbn [hg vgs abs_state];
  let r := fresh "r" in let g := fresh "g" in let Eh := fresh "Eh" in let Eg := fresh "Eg" in
  destruct (tget h (m_hg m)) as [r|] eqn:Eh; [|left; reflexivity];
  unfold abs_table; rewrite tget_tmap;
  destruct (tget r (m_vg m)) as [g|] eqn:Eg; cbn [option_map]; [|left; reflexivity];
  let P := fresh "P" in let Eo := fresh "Eo" in let W := fresh "W" in
  destruct (i_vg m I r g Eg) as [P Eo]; pose proof (wp_wf g P) as W;
  cbn [g_members g_name g_class abs_vg].

(** state unchanged on both sides; only the results remain *)
Ltac obs_same I :=
  right; split; [exact I|split; [reflexivity|]]; unfold res_agree, okv, mok;
  cbn [fst snd g_members g_name g_class abs_vg].

Lemma sim_ntagrefs : forall m h, Inv m -> sim_step m (ONTagRefs h).
Proof. intros m h I. obs_start m I h. obs_same I. right. rewrite members_length; auto. Qed.

Lemma sim_gettagrefs : forall m h n, Inv m -> sim_step m (OGetTagRefs h n).
Proof.
  intros m h n I. obs_start m I h. destruct (Z.ltb_spec n 0); [left; reflexivity|].
  obs_same I. right. rewrite Vgettagrefs_spec by (auto; lia). reflexivity.
Qed.

Lemma sim_gettagref : forall m h i, Inv m -> sim_step m (OGetTagRef h i).
Proof.
  intros m h i I. obs_start m I h. rewrite Vgettagref_spec by auto.
  pose proof (members_length g W) as ML.
  destruct (Z.leb_spec 0 i); cbn [andb]; [|obs_same I; right; reflexivity].
  destruct (Z.ltb_spec i (zlen (members g))).
  - destruct (nth_error (members g) (Z.to_nat i)) as [[t rf]|]; obs_same I; right; reflexivity.
  - replace (nth_error (members g) (Z.to_nat i)) with (@None (Z * Z)); [obs_same I; right; reflexivity|].
    symmetry. apply nth_error_None. unfold zlen in *. lia.
Qed.

Lemma sim_inqtagref : forall m h t r, Inv m -> sim_step m (OInqTagRef h t r).
Proof.
  intros m h t r I. obs_start m I h. destruct (u16 t && u16 r) eqn:C; [|left; reflexivity].
  apply andb_true_iff in C as [C1 C2]. obs_same I. right. rewrite Vinqtagref_spec by auto. reflexivity.
Qed.

Lemma sim_nrefs : forall m h t, Inv m -> sim_step m (ONRefs h t).
Proof.
  intros m h t I. obs_start m I h. destruct (u16 t) eqn:C; [|left; reflexivity].
  obs_same I. right. rewrite Vnrefs_spec by auto. reflexivity.
Qed.

Lemma sim_getname : forall m h, Inv m -> sim_step m (OGetName h).
Proof. intros m h I. obs_start m I h. obs_same I. right. reflexivity. Qed.

Lemma sim_getclass : forall m h, Inv m -> sim_step m (OGetClass h).
Proof. intros m h I. obs_start m I h. obs_same I. right. reflexivity. Qed.

Lemma sim_inquire : forall m h, Inv m -> sim_step m (OInquire h).
Proof. intros m h I. obs_start m I h. obs_same I. right. rewrite members_length; auto. Qed.

Lemma sim_queryref : forall m h, Inv m -> sim_step m (OQueryRef h).
Proof. intros m h I. obs_start m I h. obs_same I. right. rewrite Eo. reflexivity. Qed.

Lemma sim_isvg : forall m h id, Inv m -> sim_step m (OIsVg h id).
Proof.
  intros m h id I. obs_start m I h. destruct (u16 id) eqn:C; [|left; reflexivity].
  obs_same I. right. rewrite Visvg_spec by auto. reflexivity.
Qed.

Lemma sim_isvs : forall m h id, Inv m -> sim_step m (OIsVs h id).
Proof.
  intros m h id I. obs_start m I h. destruct (u16 id) eqn:C; [|left; reflexivity].
  obs_same I. right. rewrite Visvs_spec by auto. reflexivity.
Qed.

Lemma sim_nospec : forall m o, Inv m ->
  fst (mstep m o) = m -> step (abs_state m) o = (abs_state m, RNoSpec) -> sim_step m o.
Proof.
  intros m o I E1 E2. unfold sim_step. rewrite E1, E2. cbn [fst snd]. right.
  split; [exact I|split; [reflexivity|left; reflexivity]].
Qed.

Lemma m_with_state : forall m h (f : Z -> VGROUP -> res), fst (m_with m h (fun r g => (m, f r g))) = m.
Proof. intros. unfold m_with. destruct (tget h (m_hg m)); auto. destruct (tget z (m_vg m)); auto. Qed.

Lemma sim_getnext : forall m h id, Inv m -> sim_step m (OGetNext h id).
Proof.
  intros m h id I. apply sim_nospec; auto. cbn [mstep].
  unfold m_with. destruct (tget h (m_hg m)); auto. destruct (tget z (m_vg m)); auto.
  destruct (Vgetnext v id); reflexivity.
Qed.

Lemma sim_msize : forall m h, Inv m -> sim_step m (OMsize h).
Proof.
  intros m h I. apply sim_nospec; auto. cbn [mstep].
  unfold m_with. destruct (tget h (m_hg m)); auto. destruct (tget z (m_vg m)); auto.
Qed.

Lemma sim_rawvg : forall m r, Inv m -> sim_step m (ORawVg r).
Proof. intros m r I. apply sim_nospec; auto. cbn [mstep]. destruct (tget r (m_file m)); reflexivity. Qed.

(* ---- file-level observers -------------------------------------------------------------------------- *)
Lemma Inv_tables : forall m, Inv m ->
  NoDup (keys (m_vg m)) /\ Forall (fun x => 0 <= x) (keys (m_vg m)) /\
  NoDup (keys (m_vs m)) /\ Forall (fun x => 0 <= x) (keys (m_vs m)) /\ table_ok (m_vg m) /\ table_ok (m_vs m).
Proof.
  intros m I. assert (TG : table_ok (m_vg m)) by (split; [apply (i_sg m I)|apply (i_rg m I)]).
  assert (TS : table_ok (m_vs m)) by (split; [apply (i_ss m I)|apply (i_rs m I)]).
  destruct (table_ok_facts _ _ TG). destruct (table_ok_facts _ _ TS). auto 10.
Qed.

Ltac file_same I := right; split; [exact I|split; [reflexivity|]]; unfold res_agree, okv, mok; cbn [fst snd].

Lemma getid_sim : forall A B (F : Z -> A -> B) (t : list (Z * A)) r (m : mstate) (s : state),
  snd (getid (tmap F t) r s) = snd (match m_getid t r with Some k => mok m [k] | None => (m, RFail) end) /\
  fst (getid (tmap F t) r s) = s /\
  fst (match m_getid t r with Some k => mok m [k] | None => (m, RFail) end) = m.
Proof.
  intros. rewrite m_getid_spec. unfold getid. rewrite tnext_tmap.
  destruct (r =? -1).
  - destruct t as [|[k v] t]; cbn; auto.
  - destruct (r <? -1); [cbn; auto|]. destruct (tnext r t); cbn; auto.
Qed.

Lemma sim_getid : forall m r, Inv m -> sim_step m (OGetId r).
Proof.
  intros m r I. unfold sim_step. cbn [mstep step vgs abs_state]. unfold abs_table.
  destruct (getid_sim _ _ (abs_vg (m_hg m)) (m_vg m) r m (abs_state m)) as (E1 & E2 & E3).
  unfold abs_state in *. rewrite E1, E2, E3. right. split; [exact I|split; [reflexivity|right; reflexivity]].
Qed.

Lemma tmap_id : forall A (t : list (Z * A)), tmap (fun _ v => v) t = t.
Proof. induction t as [|[k v] t]; cbn; auto. f_equal. exact IHt. Qed.

Lemma sim_vsgetid : forall m r, Inv m -> sim_step m (OVSGetId r).
Proof.
  intros m r I. unfold sim_step. cbn [mstep step vss abs_state].
  destruct (getid_sim _ _ (fun _ v => v) (m_vs m) r m (abs_state m)) as (E1 & E2 & E3).
  rewrite tmap_id in *. unfold abs_state in *. rewrite E1, E2, E3.
  right. split; [exact I|split; [reflexivity|right; reflexivity]].
Qed.

Lemma sim_iter : forall m, Inv m -> sim_step m OIter.
Proof.
  intros m I. destruct (Inv_tables m I) as (ND & NN & _). unfold sim_step. cbn [mstep step vgs abs_state].
  file_same I. right. rewrite all_ids_keys by auto. unfold abs_table. rewrite keys_tmap. reflexivity.
Qed.

Lemma sim_vsiter : forall m, Inv m -> sim_step m OVSIter.
Proof.
  intros m I. destruct (Inv_tables m I) as (_ & _ & ND & NN & _). unfold sim_step. cbn [mstep step vss abs_state].
  file_same I. right. rewrite all_ids_keys by auto. reflexivity.
Qed.

Lemma sim_find : forall m n, Inv m -> sim_step m (OFind n).
Proof.
  intros m n I. destruct (Inv_tables m I) as (ND & NN & _). unfold sim_step. cbn [mstep step vgs abs_state].
  destruct n as [|b n]; [file_same I; left; reflexivity|]. file_same I. right.
  rewrite all_ids_keys by auto. rewrite (find_loop_spec _ (m_vg m) (m_vg m)) by (auto; apply incl_refl).
  unfold abs_table. erewrite find_first_tmap; [reflexivity|].
  intros k v. cbn [abs_vg g_name]. symmetry. apply name_is_spec. discriminate.
Qed.

Lemma sim_findclass : forall m n, Inv m -> sim_step m (OFindClass n).
Proof.
  intros m n I. destruct (Inv_tables m I) as (ND & NN & _). unfold sim_step. cbn [mstep step vgs abs_state].
  destruct n as [|b n]; [file_same I; left; reflexivity|]. file_same I. right.
  rewrite all_ids_keys by auto. rewrite (find_loop_spec _ (m_vg m) (m_vg m)) by (auto; apply incl_refl).
  unfold abs_table. erewrite find_first_tmap; [reflexivity|].
  intros k v. cbn [abs_vg g_class]. symmetry. apply name_is_spec. discriminate.
Qed.

Lemma sim_vsfind : forall m n, Inv m -> sim_step m (OVSFind n).
Proof.
  intros m n I. destruct (Inv_tables m I) as (_ & _ & ND & NN & _). unfold sim_step. cbn [mstep step vss abs_state].
  destruct n as [|b n]; [file_same I; left; reflexivity|]. file_same I. right.
  rewrite all_ids_keys by auto. rewrite (find_loop_spec _ (m_vs m) (m_vs m)) by (auto; apply incl_refl). reflexivity.
Qed.

Lemma sim_vsfindclass : forall m n, Inv m -> sim_step m (OVSFindClass n).
Proof.
  intros m n I. destruct (Inv_tables m I) as (_ & _ & ND & NN & _). unfold sim_step. cbn [mstep step vss abs_state].
  destruct n as [|b n]; [file_same I; left; reflexivity|]. file_same I. right.
  rewrite all_ids_keys by auto. rewrite (find_loop_spec _ (m_vs m) (m_vs m)) by (auto; apply incl_refl). reflexivity.
Qed.

Lemma sim_open : forall m, Inv m -> sim_step m OOpen.
Proof. intros m I. unfold sim_step. cbn [mstep step]. file_same I. right. reflexivity. Qed.

Lemma getvgroups_slice : forall users start n,
  match getvgroups_result users start n with None => None | Some l => Some (zlen l :: l) end =
  if zlen users <? start then None else Some (zlen (slice start n users) :: slice start n users).
Proof. intros. unfold getvgroups_result, slice. destruct (zlen users <? start); reflexivity. Qed.

Lemma sim_getvgroupsf : forall m start n, Inv m -> sim_step m (OGetVgroupsF start n).
Proof.
  intros m start n I. destruct (Inv_tables m I) as (ND & NN & _). unfold sim_step. cbn [mstep step vgs abs_state].
  destruct ((start <? 0) || (n <? 1)); [left; reflexivity|].
  rewrite all_ids_keys by auto.
  rewrite (filter_keys_tget user_created (m_vg m) (m_vg m)) by (auto; apply incl_refl).
  unfold abs_table.
  rewrite (filter_tmap_keys (abs_vg (m_hg m)) (fun g => negb (internal_class (g_class g))) user_created)
    by (intros; symmetry; apply user_created_spec).
  unfold getvgroups_result, slice.
  destruct (zlen (keys (filter (fun e => user_created (snd e)) (m_vg m))) <? start); file_same I; right; reflexivity.
Qed.

Lemma sim_getvgroupsg : forall m h start n, Inv m -> sim_step m (OGetVgroupsG h start n).
Proof.
  intros m h start n I. obs_start m I h.
  destruct ((start <? 0) || (n <? 1)); [left; reflexivity|].
  pose proof (idx_flat_map g (fun t r0 => if t =? DFTAG_VG
             then match tget r0 (m_vg m) with
                  | Some g2 => if user_created g2 then [r0] else []
                  | None => [] end
             else []) W) as X. cbv beta in X. rewrite X. clear X.
  assert (E : forall p : Z * Z,
            (if fst p =? DFTAG_VG
             then match tget (snd p) (m_vg m) with
                  | Some g2 => if user_created g2 then [snd p] else []
                  | None => [] end
             else []) =
            (if (fst p =? DFTAG_VG) &&
                match tget (snd p) (tmap (abs_vg (m_hg m)) (m_vg m)) with
                | Some g2 => negb (internal_class (g_class g2)) | None => false end
             then [snd p] else [])).
  { intros p. rewrite tget_tmap. destruct (fst p =? DFTAG_VG); cbn [andb]; [|reflexivity].
    destruct (tget (snd p) (m_vg m)); cbn [option_map]; [|reflexivity].
    rewrite <- user_created_spec. reflexivity. }
  rewrite (flat_map_ext _ _ E), flat_map_filter.
  unfold getvgroups_result, slice. fold (abs_table (m_hg m) (m_vg m)).
  match goal with |- context [zlen ?u <? start] => destruct (zlen u <? start) end;
    obs_same I; right; reflexivity.
Qed.

(* ---- edits of one attached vgroup ------------------------------------------------------------------- *)
Lemma tget_In : forall A (t : list (Z * A)) k v, tget k t = Some v -> In (k, v) t.
Proof.
  induction t as [|[k' v'] t]; intros k v E; cbn [tget] in E; [discriminate|].
  destruct (Z.eqb_spec k k'); [inversion E; subst; left; reflexivity|right; auto].
Qed.

Lemma In_tins : forall A (t : list (Z * A)) k v x, In x (tins k v t) -> x = (k, v) \/ In x t.
Proof.
  induction t as [|[k' v'] t]; intros k v x H; cbn [tins] in H.
  - destruct H as [H|[]]; auto.
  - destruct (k <? k').
    + destruct H as [H|H]; auto.
    + destruct H as [H|H]; [right; left; auto|]. destruct (IHt k v x H); auto. right; right; auto.
Qed.

Lemma In_tdel : forall A (t : list (Z * A)) k x, In x (tdel k t) -> In x t.
Proof.
  induction t as [|[k' v'] t]; intros k x H; cbn [tdel] in H; auto.
  destruct (k =? k'); [right; auto|]. destruct H as [H|H]; [left; auto|right; eauto].
Qed.

Lemma attached_of_In : forall (t : list (Z * Z)) h r, In (h, r) t -> attached_in r t = true.
Proof.
  intros. unfold attached_in. apply existsb_exists. exists (h, r). split; auto. cbn. apply Z.eqb_refl.
Qed.

Lemma key_ok_u16 : forall k, key_ok k -> is_u16 k.
Proof. unfold key_ok, is_u16, MAX_REF. auto. Qed.

Lemma Inv_key_vg : forall m k, Inv m -> tget k (m_vg m) <> None -> key_ok k.
Proof.
  intros m k I H. pose proof (i_rg m I) as F. rewrite Forall_forall in F. apply F.
  apply tget_keys. destruct (tget k (m_vg m)) eqn:E; [eauto|contradiction].
Qed.

Lemma Inv_key_vs : forall m k, Inv m -> tget k (m_vs m) <> None -> key_ok k.
Proof.
  intros m k I H. pose proof (i_rs m I) as F. rewrite Forall_forall in F. apply F.
  apply tget_keys. destruct (tget k (m_vs m)) eqn:E; [eauto|contradiction].
Qed.

Lemma Inv_put : forall m h r g g', Inv m -> tget h (m_hg m) = Some r -> tget r (m_vg m) = Some g ->
  WFpack g' -> oref g' = r -> marked g' = true -> new_vg g' = new_vg g -> Inv (m_put m r g').
Proof.
  intros m h r g g' I Eh Eg P' O' M' NV. unfold m_put.
  constructor; cbn [m_vg m_vs m_file m_hg m_hs]; try rewrite keys_tset; try apply I.
  - intros k gk E. rewrite tget_tset, Eg in E. destruct (Z.eqb_spec k r).
    + inversion E; subst. auto.
    + apply (i_vg m I); auto.
  - intros k gk E Mk. rewrite tget_tset, Eg in E. destruct (Z.eqb_spec k r).
    + subst. eapply attached_of_handle; eauto.
    + eapply (i_mk m I); eauto.
  - intros k gk E Mk. rewrite tget_tset, Eg in E. destruct (Z.eqb_spec k r).
    + inversion E; subst. congruence.
    + apply (i_sv m I); auto.
  - intros k H. rewrite tget_tset, Eg. destruct (k =? r); [discriminate|]. apply (i_fs m I); auto.
  - intros h' r' H. rewrite tget_tset, Eg. destruct (r' =? r); [discriminate|]. eapply (i_hg m I); eauto.
  - intros k gk E Nk. rewrite tget_tset, Eg in E. destruct (Z.eqb_spec k r).
    + subst k. injection E as E'. subst gk. apply (i_nw m I r g Eg). congruence.
    + apply (i_nw m I k gk); auto.
Qed.

Lemma abs_put : forall m r g', abs_state (m_put m r g') = put_vg (abs_state m) r (abs_vg (m_hg m) r g').
Proof.
  intros. unfold abs_state, m_put, put_vg. cbn [m_vg m_vs m_hg m_hs vgs vss hg hs].
  unfold abs_table. rewrite tset_tmap. reflexivity.
Qed.

Ltac edit_start m I h :=
  unfold sim_step; cbn [mstep step]; unfold m_insert, insert_pair, m_edit, edit_h, m_with, with_h; cbn [hg hs vgs abs_state];
  let r := fresh "r" in let g := fresh "g" in let Eh := fresh "Eh" in let Eg := fresh "Eg" in
  destruct (tget h (m_hg m)) as [r|] eqn:Eh; [|left; reflexivity];
  unfold abs_table; rewrite tget_tmap;
  destruct (tget r (m_vg m)) as [g|] eqn:Eg; cbn [option_map]; [|left; reflexivity];
  let P := fresh "P" in let Eo := fresh "Eo" in let W := fresh "W" in
  destruct (i_vg m I r g Eg) as [P Eo]; pose proof (wp_wf g P) as W;
  cbn [g_members g_name g_class g_w abs_vg]; rewrite (attached_of_handle _ _ _ Eh); cbn [andb];
  destruct (access g) eqn:Ea; [|obs_same I; right; reflexivity].

(** the model put [g'] under [r]; the specification put the matching record *)
Ltac edit_done m I h r g :=
  right; cbn [fst snd]; split; [eapply (Inv_put m h r g); eauto|split; [rewrite abs_put|]].

Lemma sim_setname : forall m h n, Inv m -> sim_step m (OSetName h n).
Proof.
  intros m h n I. edit_start m I h.
  destruct (name_ok n) eqn:N; cbn [negb]; [|left; reflexivity].
  destruct (Z.ltb_spec 65535 (zlen n)) as [L|L].
  - assert (E : cstr n = n) by (apply cstr_id, name_ok_chars; auto). rewrite E.
    replace (65535 <? zlen n) with true by (symmetry; apply Z.ltb_lt; auto). obs_same I. right. reflexivity.
  - destruct (set_name_pack g n P N L) as (P1 & _ & E). rewrite E.
    replace (65535 <? zlen n) with false by (symmetry; apply Z.ltb_ge; auto).
    edit_done m I h r g.
    + unfold put_vg, ok0. cbn [fst]. f_equal. f_equal. unfold abs_vg, set_name, set_string.
      cbn [vgname vgclass access opt_bytes]. rewrite E, E. unfold members. cbn [nvelt tag ref].
      rewrite (attached_of_handle _ _ _ Eh), Ea. reflexivity.
    + right. reflexivity.
Qed.

Lemma sim_setclass : forall m h n, Inv m -> sim_step m (OSetClass h n).
Proof.
  intros m h n I. edit_start m I h.
  destruct (name_ok n) eqn:N; cbn [negb]; [|left; reflexivity].
  destruct (Z.ltb_spec 65535 (zlen n)) as [L|L].
  - assert (E : cstr n = n) by (apply cstr_id, name_ok_chars; auto). rewrite E.
    replace (65535 <? zlen n) with true by (symmetry; apply Z.ltb_lt; auto). obs_same I. right. reflexivity.
  - destruct (set_name_pack g n P N L) as (_ & P1 & E). rewrite E.
    replace (65535 <? zlen n) with false by (symmetry; apply Z.ltb_ge; auto).
    edit_done m I h r g.
    + unfold put_vg, ok0. cbn [fst]. f_equal. f_equal. unfold abs_vg, set_class, set_string.
      cbn [vgname vgclass access opt_bytes]. rewrite E, E. unfold members. cbn [nvelt tag ref].
      rewrite (attached_of_handle _ _ _ Eh), Ea. reflexivity.
    + right. reflexivity.
Qed.

Lemma w16_is : forall z, is_u16 z -> w16 z = z.
Proof. intros z [A B]. unfold w16. apply Z.mod_small. lia. Qed.

(** the abstraction of a vgroup whose names / access are those of [g] and whose member list is [l] *)
Lemma abs_vg_members : forall hg k g g' l,
  (vgname g', vgclass g', access g') = (vgname g, vgclass g, access g) -> members g' = l ->
  abs_vg hg k g' = set_members (abs_vg hg k g) l.
Proof.
  intros hg k g g' l E M. inversion E as [[e1 e2 e3]]. unfold abs_vg, set_members.
  cbn [g_name g_class g_members g_w]. rewrite e1, e2, e3, M. reflexivity.
Qed.

Lemma sim_addtagref : forall m h t rf, Inv m -> sim_step m (OAddTagRef h t rf).
Proof.
  intros m h t rf I. edit_start m I h.
  destruct (u16 t && u16 rf) eqn:C; cbn [negb]; [|left; reflexivity].
  apply andb_true_iff in C as [C1 C2]. pose proof (members_length g W) as ML.
  unfold room, Vaddtagref. rewrite (w16_id t C1), (w16_id rf C2).
  replace (zlen (g_members (abs_vg (m_hg m) r g))) with (nvelt g) by (cbn [g_members abs_vg]; auto).
  destruct (Z.leb_spec (nvelt g + 1) 65535) as [L|L]; cbn [negb].
  - destruct (vinsertpair_pack g t rf P ltac:(lia) (u16_is t C1) (u16_is rf C2))
      as (g' & n & E & P' & M' & N1 & N2 & F & NV).
    rewrite E. inversion F as [[f1 f2 f3 f4 f5]]. edit_done m I h r g; [congruence| |].
    + unfold put_vg. cbn [fst]. f_equal. f_equal. apply abs_vg_members; auto. congruence.
    + right. cbn [g_members abs_vg]. rewrite N1, ML. reflexivity.
  - rewrite vinsertpair_full by lia. obs_same I. right. reflexivity.
Qed.

Lemma insert_sim : forall m h t r2, Inv m -> is_u16 t -> is_u16 r2 ->
  let M := m_insert m h t r2 in let S := insert_pair (abs_state m) h (t, r2) in
  snd S = RUnspec \/ (Inv (fst M) /\ abs_state (fst M) = fst S /\ res_agree (snd S) (snd M)).
Proof.
  intros m h t r2 I Ut Ur. cbv zeta.
  unfold m_insert, insert_pair, m_edit, edit_h, m_with, with_h; cbn [hg hs vgs abs_state].
  destruct (tget h (m_hg m)) as [r|] eqn:Eh; [|left; reflexivity].
  unfold abs_table; rewrite tget_tmap.
  destruct (tget r (m_vg m)) as [g|] eqn:Eg; cbn [option_map]; [|left; reflexivity].
  destruct (i_vg m I r g Eg) as [P Eo]; pose proof (wp_wf g P) as W.
  cbn [g_members g_name g_class g_w abs_vg]; rewrite (attached_of_handle _ _ _ Eh); cbn [andb].
  destruct (access g) eqn:Ea; [|obs_same I; right; reflexivity].
  pose proof (members_length g W) as ML.
  unfold Vinsert. rewrite scan_members by auto. rewrite has_member_lfind.
  destruct (lfind (t, r2) (members g)); [obs_same I; right; reflexivity|].
  unfold room. replace (zlen (g_members (abs_vg (m_hg m) r g))) with (nvelt g) by (cbn [g_members abs_vg]; auto).
  destruct (Z.leb_spec (nvelt g + 1) 65535) as [L|L]; cbn [negb].
  - destruct (vinsertpair_pack g t r2 P ltac:(lia) Ut Ur) as (g' & n & E & P' & M' & N1 & N2 & F & NV).
    rewrite E. inversion F as [[f1 f2 f3 f4 f5]]. edit_done m I h r g; [congruence| |].
    + unfold put_vg. cbn [fst]. f_equal. f_equal. apply abs_vg_members; auto. congruence.
    + right. cbn [g_members abs_vg]. rewrite N1, ML. f_equal. f_equal. lia.
  - rewrite vinsertpair_full by lia. obs_same I. right. reflexivity.
Qed.

Lemma sim_insertvg : forall m h h2, Inv m -> sim_step m (OInsertVg h h2).
Proof.
  intros m h h2 I. unfold sim_step. cbn [mstep step hg abs_state].
  destruct (tget h2 (m_hg m)) as [r2|] eqn:E2; [|left; reflexivity].
  apply insert_sim; auto; [unfold is_u16, DFTAG_VG; lia|].
  apply key_ok_u16. apply (Inv_key_vg m r2 I). eapply (i_hg m I). apply tget_In. eauto.
Qed.

Lemma sim_insertvs : forall m h h2, Inv m -> sim_step m (OInsertVs h h2).
Proof.
  intros m h h2 I. unfold sim_step. cbn [mstep step hs abs_state].
  destruct (tget h2 (m_hs m)) as [r2|] eqn:E2; [|left; reflexivity].
  apply insert_sim; auto; [unfold is_u16, DFTAG_VH; lia|].
  apply key_ok_u16. apply (Inv_key_vs m r2 I). eapply (i_hs m I). apply tget_In. eauto.
Qed.

Lemma sim_deltagref : forall m h t rf, Inv m -> sim_step m (ODelTagRef h t rf).
Proof.
  intros m h t rf I. edit_start m I h.
  destruct (u16 t && u16 rf) eqn:C; [|left; reflexivity]. apply andb_true_iff in C as [C1 C2].
  pose proof (Vdeletetagref_pack g t rf P C1 C2) as S.
  destruct (Vdeletetagref g t rf) as [g'|].
  - destruct S as (P' & R & F & NV). rewrite R. inversion F as [[f1 f2 f3 f4 f5]].
    edit_done m I h r g; [congruence| |].
    + unfold put_vg, ok0. cbn [fst]. f_equal. f_equal. apply abs_vg_members; auto. congruence.
    + right. reflexivity.
  - rewrite S. obs_same I. right. reflexivity.
Qed.

Lemma addmany_pack : forall c g t r st last, WFpack g -> nvelt g + Z.of_nat c <= 65535 -> is_u16 t ->
  (forall i, (i < c)%nat -> is_u16 (r + Z.of_nat i * st)) ->
  exists g' n, addmany_loop g t r st c last = Some (g', n) /\ WFpack g' /\
    members g' = add_many (members g) t r st c /\
    n = (if (c =? 0)%nat then last else nvelt g + Z.of_nat c) /\
    (vgname g', vgclass g', oref g', access g') = (vgname g, vgclass g, oref g, access g) /\
    (c <> O -> marked g' = true) /\ new_vg g' = new_vg g.
Proof.
  induction c; intros g t r st last P L Ut Ur.
  - exists g, last. split; [reflexivity|]. split; [exact P|]. split; [reflexivity|]. split; [reflexivity|].
    split; [reflexivity|]. split; [intro H; contradiction|reflexivity].
  - cbn [addmany_loop add_many]. unfold Vaddtagref.
    assert (U0 : is_u16 r) by (specialize (Ur O ltac:(lia)); replace (r + Z.of_nat 0 * st) with r in Ur by lia; auto).
    rewrite (w16_is t Ut), (w16_is r U0).
    destruct (vinsertpair_pack g t r P ltac:(lia) Ut U0) as (g1 & n1 & E & P1 & M1 & N1 & N2 & F & NV).
    rewrite E. injection F as f1 f2 f3 f4 f5.
    destruct (IHc g1 t (r + st) st n1 P1 ltac:(lia) Ut) as (g' & n & E' & P' & M' & N' & F' & K' & NV').
    { intros i Hi. specialize (Ur (S i) ltac:(lia)).
      replace (r + st + Z.of_nat i * st) with (r + Z.of_nat (S i) * st) by lia. auto. }
    exists g', n. split; [exact E'|]. split; [exact P'|]. split; [rewrite M', M1; reflexivity|].
    injection F' as e1 e2 e3 e4.
    split; [|split; [congruence|split; [|congruence]]].
    + rewrite N'. cbn [Nat.eqb]. rewrite Nat2Z.inj_succ. destruct (Nat.eqb_spec c 0); [subst c; cbn; lia|lia].
    + intros _. destruct c; [|apply K'; discriminate].
      cbn in E'. inversion E'; subst. exact f5.
Qed.

Lemma sim_addmany : forall m h t rf c st, Inv m -> sim_step m (OAddMany h t rf c st).
Proof.
  intros m h t rf c st I. edit_start m I h.
  pose proof (members_length g W) as ML.
  unfold room, m_room.
  replace (zlen (g_members (abs_vg (m_hg m) r g))) with (nvelt g) by (cbn [g_members abs_vg]; auto).
  destruct (u16 t && u16 rf && u16 (rf + (c - 1) * st) && (1 <=? c) && (nvelt g + c <=? 65535)) eqn:C;
    [|left; reflexivity].
  apply andb_true_iff in C as [C C5]. apply andb_true_iff in C as [C C4]. apply andb_true_iff in C as [C C3].
  apply andb_true_iff in C as [C1 C2]. apply Z.leb_le in C4. apply Z.leb_le in C5.
  pose proof (u16_is _ C1) as U1. pose proof (u16_is _ C2) as U2. pose proof (u16_is _ C3) as U3.
  destruct (addmany_pack (Z.to_nat c) g t rf st (-1) P ltac:(lia) U1) as (g' & n & E & P' & M' & N' & F & K & NV).
  { intros i Hi. unfold is_u16 in *. set (k := Z.of_nat i). assert (Hk : 0 <= k <= c - 1) by lia.
    destruct (Z.le_gt_cases 0 st).
    - assert (0 <= k * st) by (apply Z.mul_nonneg_nonneg; lia).
      assert (k * st <= (c - 1) * st) by (apply Z.mul_le_mono_nonneg_r; lia). lia.
    - assert (k * st <= 0) by (apply Z.mul_nonneg_nonpos; lia).
      assert ((c - 1) * st <= k * st) by (apply Z.mul_le_mono_nonpos_r; lia). lia. }
  rewrite E. inversion F as [[f1 f2 f3 f4]].
  edit_done m I h r g; [congruence|apply K; lia| |].
  - unfold put_vg. cbn [fst]. f_equal. f_equal. apply abs_vg_members; auto. congruence.
  - right. cbn [g_members abs_vg]. rewrite N', ML.
    destruct (Nat.eqb_spec (Z.to_nat c) 0); [lia|]. rewrite Z2Nat.id by lia. reflexivity.
Qed.

(* ---- attach / detach / create / delete -------------------------------------------------------------- *)
Lemma WFpack_access : forall g w, WFpack g -> WFpack (set_access g w) /\ WFpack (set_first_attach g w).
Proof. intros g w P. split; eapply WFpack_bits; eauto; reflexivity. Qed.

Lemma WFpack_saved : forall g, WFpack g -> WFpack (set_saved g (fst (vpackvg g))).
Proof.
  intros g P. pose proof P as [[Lt Lr Hn Hm Hu] Fm Wn Wc X Hf A Hno [V V4]].
  constructor; auto; [constructor; auto|]. cbn [version flags set_saved]. apply pack_version; auto.
Qed.

Lemma core_access : forall g w, core (set_access g w) = core g /\ core (set_first_attach g w) = core g.
Proof. intros. split; reflexivity. Qed.

Lemma saved_core : forall f k g g', saved f k g -> core g' = core g -> saved f k g'.
Proof. intros f k g g' (g0 & P & O & T & C) E. exists g0. split; [exact P|split; [exact O|split; [exact T|congruence]]]. Qed.

Lemma abs_vg_core : forall hg k g g', core g' = core g -> abs_vg hg k g' = set_w (abs_vg hg k g) (attached_in k hg && access g').
Proof.
  intros hg k g g' E. unfold core in E. injection E as e1 e2 e3. unfold abs_vg, set_w.
  cbn [g_name g_class g_members]. rewrite e1, e2, e3. reflexivity.
Qed.

Lemma sim_vgnew : forall m h r, Inv m -> sim_step m (OVgNew h r).
Proof.
  intros m h r I. unfold sim_step. cbn [mstep step hg vgs abs_state].
  destruct (tget h (m_hg m)) eqn:Eh; [left; reflexivity|].
  destruct ((1 <=? r) && (r <=? 65535)) eqn:C; cbn [negb]; [|file_same I; right; reflexivity].
  apply andb_true_iff in C as [C1 C2]. apply Z.leb_le in C1. apply Z.leb_le in C2.
  unfold abs_table. rewrite tget_tmap.
  destruct (tget r (m_vg m)) eqn:Eg; cbn [option_map]; [file_same I; right; reflexivity|].
  right. cbn [fst snd]. split; [|split; [|right; reflexivity]].
  - constructor; cbn [m_vg m_vs m_file m_hg m_hs]; try apply I.
    + apply sorted_tins; auto. apply I.
    + apply Forall_forall. intros x Hx. apply keys_tins_In in Hx. destruct Hx as [Hx|Hx].
      * subst. unfold key_ok, MAX_REF. lia.
      * pose proof (i_rg m I) as F. rewrite Forall_forall in F. auto.
    + intros k g E. destruct (Z.eq_dec k r).
      * subst. rewrite tget_tins_same in E by auto. inversion E; subst. split; [apply WFpack_new|reflexivity].
      * rewrite tget_tins_other in E by auto. apply (i_vg m I); auto.
    + intros k g E Mk. rewrite attached_tins. destruct (Z.eq_dec k r).
      * subst. rewrite Z.eqb_refl. reflexivity.
      * rewrite tget_tins_other in E by auto. rewrite (i_mk m I k g E Mk). apply orb_true_r.
    + intros k g E Mk. destruct (Z.eq_dec k r).
      * subst. rewrite tget_tins_same in E by auto. inversion E; subst. discriminate.
      * rewrite tget_tins_other in E by auto. apply (i_sv m I); auto.
    + intros k H. destruct (Z.eq_dec k r).
      * subst. rewrite tget_tins_same by auto. discriminate.
      * rewrite tget_tins_other by auto. apply (i_fs m I); auto.
    + intros h' r' H. apply In_tins in H. destruct H as [H|H].
      * inversion H; subst. rewrite tget_tins_same by auto. discriminate.
      * destruct (Z.eq_dec r' r); [subst; rewrite tget_tins_same by auto; discriminate|].
        rewrite tget_tins_other by auto. eapply (i_hg m I); eauto.
    + intros k g E Nk. destruct (Z.eq_dec k r).
      * subst. destruct (tget r (m_file m)) eqn:Ef; auto. exfalso. apply (i_fs m I r); congruence.
      * rewrite tget_tins_other in E by auto. apply (i_nw m I k g); auto.
  - unfold abs_state. cbn [m_vg m_vs m_hg m_hs]. f_equal.
    unfold abs_table. rewrite <- tins_tmap.
    replace (abs_vg (tins h r (m_hg m)) r (new_vgroup r)) with (mkvg [] [] [] true).
    + f_equal. apply tmap_ext_in. intros k v Hk. unfold abs_vg. rewrite attached_tins.
      destruct (Z.eqb_spec r k); [|reflexivity]. subst.
      apply (in_map fst) in Hk. apply tget_none_notin in Eg. contradiction.
    + unfold abs_vg. rewrite attached_tins, Z.eqb_refl. reflexivity.
Qed.

Lemma sim_vgattach : forall m h r w, Inv m -> sim_step m (OVgAttach h r w).
Proof.
  intros m h r w I. destruct (Inv_tables m I) as (ND & _). unfold sim_step. cbn [mstep step hg vgs abs_state].
  destruct (tget h (m_hg m)) eqn:Eh; [left; reflexivity|].
  unfold abs_table. rewrite tget_tmap.
  destruct (tget r (m_vg m)) as [g|] eqn:Eg; cbn [option_map]; [|file_same I; right; reflexivity].
  destruct (i_vg m I r g Eg) as [P Eo].
  unfold attached, m_attached. cbn [hg abs_state].
  set (g' := if attached_in r (m_hg m) then set_access g (access g || w) else set_first_attach g w).
  assert (Pg : WFpack g' /\ oref g' = r /\ core g' = core g /\
               access g' = (if attached_in r (m_hg m) then access g || w else w) /\
               (marked g' = true -> marked g = true)).
  { unfold g'. destruct (WFpack_access g (access g || w) P) as [Pa _]. destruct (WFpack_access g w P) as [_ Pf].
    destruct (attached_in r (m_hg m)).
    - split; [exact Pa|]. split; [exact Eo|]. split; [reflexivity|]. split; [reflexivity|]. cbn. auto.
    - split; [exact Pf|]. split; [exact Eo|]. split; [reflexivity|]. split; [reflexivity|]. cbn. intro; discriminate. }
  destruct Pg as (P' & O' & C' & A' & K').
  right. cbn [fst snd]. split; [|split; [|right; reflexivity]].
  - constructor; cbn [m_vg m_vs m_file m_hg m_hs]; try rewrite keys_tset; try apply I.
    + intros k gk E. rewrite tget_tset, Eg in E. destruct (Z.eqb_spec k r).
      * subst k. injection E as E'. subst gk. auto.
      * apply (i_vg m I); auto.
    + intros k gk E Mk. rewrite attached_tins. rewrite tget_tset, Eg in E. destruct (Z.eqb_spec k r).
      * subst. rewrite Z.eqb_refl. reflexivity.
      * rewrite (i_mk m I k gk E Mk). apply orb_true_r.
    + intros k gk E Mk. rewrite tget_tset, Eg in E. destruct (Z.eqb_spec k r).
      * subst k. injection E as E'. subst gk. apply (saved_core _ _ g); auto. apply (i_sv m I); auto.
        destruct (marked g) eqn:Mg; auto. unfold g' in Mk.
        rewrite (i_mk m I r g Eg Mg) in Mk. cbn in Mk. congruence.
      * apply (i_sv m I); auto.
    + intros k H. rewrite tget_tset, Eg. destruct (k =? r); [discriminate|]. apply (i_fs m I); auto.
    + intros h' r' H. rewrite tget_tset, Eg. destruct (r' =? r); [discriminate|].
      apply In_tins in H. destruct H as [H|H]; [inversion H; subst; congruence|eapply (i_hg m I); eauto].
    + intros k gk E Nk. rewrite tget_tset, Eg in E. destruct (Z.eqb_spec k r).
      * subst k. injection E as E'. subst gk. apply (i_nw m I r g Eg). unfold g' in Nk.
        destruct (attached_in r (m_hg m)); exact Nk.
      * apply (i_nw m I k gk); auto.
  - unfold abs_state. cbn [m_vg m_vs m_hg m_hs]. f_equal.
    rewrite (abs_change (m_hg m) (tins h r (m_hg m)) (m_vg m) r g g' ND Eg).
    + f_equal. rewrite (abs_vg_core _ _ g g' C'), A'. rewrite attached_tins, Z.eqb_refl. cbn [orb andb].
      unfold abs_vg, set_w. cbn [g_name g_class g_members g_w].
      destruct (attached_in r (m_hg m)); reflexivity.
    + intros k N. rewrite attached_tins. destruct (Z.eqb_spec r k); [congruence|reflexivity].
Qed.

(** what Vdetach's write-back leaves: an unmarked, stored vgroup with the same content *)
Lemma write_back_spec : forall file g r, WFpack g -> oref g = r -> StronglySorted Z.lt (keys file) ->
  (marked g = false -> saved file r g) -> (new_vg g = true -> tget r file = None) ->
  let '(f, g') := write_back file g in
  WFpack g' /\ oref g' = r /\ core g' = core g /\ access g' = access g /\ marked g' = false /\
  StronglySorted Z.lt (keys f) /\ saved f r g' /\
  (forall k, k <> r -> tget k f = tget k file) /\ tget r f <> None /\
  (new_vg g' = true -> tget r f = None) /\ write_fails file g = false /\
  (marked g = true -> tget r f = Some (snd (vpackvg g))).
Proof.
  intros file g r P O S Sv Nw. unfold write_back, write_fails.
  assert (EB : element_before_put file g = None).
  { unfold element_before_put. destruct (new_vg g); [rewrite O; auto|reflexivity]. }
  rewrite EB. cbn [Hputelement]. destruct (marked g) eqn:Mk.
  - destruct (vpackvg g) as [ver b] eqn:Ep.
    assert (Ev : ver = fst (vpackvg g)) by (rewrite Ep; reflexivity).
    assert (Eb : b = snd (vpackvg g)) by (rewrite Ep; reflexivity).
    split; [rewrite Ev; apply WFpack_saved; auto|]. split; [exact O|]. split; [reflexivity|].
    split; [reflexivity|]. split; [reflexivity|]. split; [apply sorted_tput; auto|].
    split; [|split; [|split; [|split; [|split]]]].
    + exists g. split; [exact P|split; [exact O|split; [|reflexivity]]].
      rewrite O, tget_tput, Z.eqb_refl, Eb. reflexivity.
    + intros k N. rewrite O, tget_tput. destruct (Z.eqb_spec k r); [contradiction|reflexivity].
    + rewrite O, tget_tput, Z.eqb_refl. discriminate.
    + cbn. intro; discriminate.
    + reflexivity.
    + intros _. rewrite O, tget_tput, Z.eqb_refl. cbn [snd]. reflexivity.
  - specialize (Sv eq_refl). split; [exact P|]. split; [exact O|]. split; [reflexivity|]. split; [reflexivity|].
    split; [exact Mk|]. split; [exact S|]. split; [exact Sv|]. split; [reflexivity|].
    split; [destruct Sv as (g0 & _ & _ & T & _); rewrite T; discriminate|].
    split; [exact Nw|]. split; [reflexivity|]. intro; discriminate.
Qed.

Lemma sim_vgdetach : forall m h, Inv m -> sim_step m (OVgDetach h).
Proof.
  intros m h I. destruct (Inv_tables m I) as (ND & _). unfold sim_step. cbn [mstep step hg vgs abs_state].
  destruct (tget h (m_hg m)) as [r|] eqn:Eh; [|file_same I; right; reflexivity].
  unfold abs_table. rewrite tget_tmap.
  destruct (tget r (m_vg m)) as [g|] eqn:Eg; cbn [option_map]; [|left; reflexivity].
  destruct (i_vg m I r g Eg) as [P Eo].
  pose proof (write_back_spec (m_file m) g r P Eo (i_sf m I) (i_sv m I r g Eg) (i_nw m I r g Eg)) as WB.
  destruct (write_back (m_file m) g) as [f g'].
  destruct WB as (P' & O' & C' & A' & M' & S' & Sv' & Fo & Fr & Nw' & WF' & _). rewrite WF'.
  right. cbn [fst snd]. split; [|split; [|right; reflexivity]].
  - constructor; cbn [m_vg m_vs m_file m_hg m_hs]; try rewrite keys_tset; try apply I; auto.
    + intros k gk E. rewrite tget_tset, Eg in E. destruct (Z.eqb_spec k r).
      * subst k. injection E as E'. subst gk. auto.
      * apply (i_vg m I); auto.
    + intros k gk E Mk. rewrite tget_tset, Eg in E. destruct (Z.eqb_spec k r).
      * subst k. injection E as E'. subst gk. congruence.
      * rewrite (attached_tdel_other _ h r k Eh) by auto. apply (i_mk m I k gk); auto.
    + intros k gk E Mk. rewrite tget_tset, Eg in E. destruct (Z.eqb_spec k r).
      * subst k. injection E as E'. subst gk. auto.
      * destruct (i_sv m I k gk E Mk) as (g0 & P0 & O0 & T0 & C0). exists g0.
        split; [exact P0|split; [exact O0|split; [rewrite Fo by auto; exact T0|exact C0]]].
    + intros k H. rewrite tget_tset, Eg. destruct (Z.eqb_spec k r); [discriminate|].
      apply (i_fs m I). rewrite <- Fo by auto. exact H.
    + intros h' r' H. rewrite tget_tset, Eg. destruct (r' =? r); [discriminate|].
      apply In_tdel in H. eapply (i_hg m I); eauto.
    + intros k gk E Nk. rewrite tget_tset, Eg in E. destruct (Z.eqb_spec k r).
      * subst k. injection E as E'. subst gk. auto.
      * rewrite Fo by auto. apply (i_nw m I k gk); auto.
  - unfold abs_state. cbn [m_vg m_vs m_hg m_hs]. f_equal.
    rewrite (abs_change (m_hg m) (tdel h (m_hg m)) (m_vg m) r g g' ND Eg)
      by (intros k N; apply (attached_tdel_other _ h r k Eh N)).
    rewrite (abs_vg_core _ _ g g' C'), A'.
    destruct (attached_in r (tdel h (m_hg m))) eqn:At; cbn [andb].
    + unfold abs_table. rewrite tset_same; [reflexivity|]. rewrite tget_tmap, Eg. cbn [option_map].
      f_equal. unfold abs_vg, set_w. cbn [g_name g_class g_members g_w].
      rewrite (attached_of_handle _ _ _ Eh). reflexivity.
    + reflexivity.
Qed.

Lemma sim_vdelete : forall m r, Inv m -> sim_step m (OVDelete r).
Proof.
  intros m r I. unfold sim_step. cbn [mstep step vgs abs_state].
  destruct (u16 r) eqn:U; cbn [negb]; [|left; reflexivity].
  unfold abs_table. rewrite tget_tmap.
  destruct (tget r (m_vg m)) as [g|] eqn:Eg; cbn [option_map]; [|file_same I; right; reflexivity].
  unfold attached, m_attached. cbn [hg abs_state].
  destruct (attached_in r (m_hg m)) eqn:At; [left; reflexivity|].
  assert (Mk : marked g = false).
  { destruct (marked g) eqn:Mg; auto. rewrite (i_mk m I r g Eg Mg) in At. discriminate. }
  destruct (i_sv m I r g Eg Mk) as (g0 & _ & _ & T0 & _). rewrite T0.
  right. cbn [fst snd]. split; [|split; [|right; reflexivity]].
  - constructor; cbn [m_vg m_vs m_file m_hg m_hs]; try apply I.
    + apply sorted_tdel. apply I.
    + apply Forall_forall. intros x Hx. apply keys_tdel_In in Hx.
      pose proof (i_rg m I) as F. rewrite Forall_forall in F. auto.
    + apply sorted_tdel. apply I.
    + intros k gk E. destruct (Z.eq_dec k r).
      * subst. rewrite tget_tdel_same in E by apply I. discriminate.
      * rewrite tget_tdel_other in E by auto. apply (i_vg m I); auto.
    + intros k gk E Mg. destruct (Z.eq_dec k r).
      * subst. rewrite tget_tdel_same in E by apply I. discriminate.
      * rewrite tget_tdel_other in E by auto. apply (i_mk m I k gk); auto.
    + intros k gk E Mg. destruct (Z.eq_dec k r).
      * subst. rewrite tget_tdel_same in E by apply I. discriminate.
      * rewrite tget_tdel_other in E by auto.
        destruct (i_sv m I k gk E Mg) as (g1 & P1 & O1 & T1 & C1). exists g1.
        split; [exact P1|split; [exact O1|split; [rewrite tget_tdel_other by auto; exact T1|exact C1]]].
    + intros k H. destruct (Z.eq_dec k r).
      * subst. rewrite tget_tdel_same in H by apply I. contradiction.
      * rewrite tget_tdel_other by auto. rewrite tget_tdel_other in H by auto. apply (i_fs m I); auto.
    + intros h' r' H. destruct (Z.eq_dec r' r).
      * subst. rewrite (attached_of_In _ _ _ H) in At. discriminate.
      * rewrite tget_tdel_other by auto. eapply (i_hg m I); eauto.
    + intros k gk E Nk. destruct (Z.eq_dec k r).
      * subst. rewrite tget_tdel_same in E by apply I. discriminate.
      * rewrite tget_tdel_other in E by auto. rewrite tget_tdel_other by auto. apply (i_nw m I k gk); auto.
  - unfold abs_state. cbn [m_vg m_vs m_hg m_hs]. f_equal. unfold abs_table. rewrite tdel_tmap. reflexivity.
Qed.

Lemma sim_putraw : forall m r b, Inv m -> sim_step m (OPutRaw r b).
Proof. intros. left. reflexivity. Qed.

(* ---- vdatas ------------------------------------------------------------------------------------------ *)
Lemma sim_vsnew : forall m r n c fl, Inv m -> sim_step m (OVsNew r n c fl).
Proof.
  intros m r n c fl I. unfold sim_step. cbn [mstep step vss abs_state].
  destruct ((1 <=? r) && (r <=? 65535)) eqn:C; cbn [negb]; [|file_same I; right; reflexivity].
  apply andb_true_iff in C as [C1 C2]. apply Z.leb_le in C1. apply Z.leb_le in C2.
  destruct (tget r (m_vs m)) eqn:Es; [file_same I; right; reflexivity|].
  destruct (name_ok n && name_ok c); [|left; reflexivity].
  right. cbn [fst snd]. split; [|split; [reflexivity|right; reflexivity]].
  constructor; cbn [m_vg m_vs m_file m_hg m_hs]; try apply I.
  - apply sorted_tins; auto. apply I.
  - apply Forall_forall. intros x Hx. apply keys_tins_In in Hx. destruct Hx as [Hx|Hx].
    + subst. unfold key_ok, MAX_REF. lia.
    + pose proof (i_rs m I) as F. rewrite Forall_forall in F. auto.
  - intros h' r' H. destruct (Z.eq_dec r' r); [subst; rewrite tget_tins_same by auto; discriminate|].
    rewrite tget_tins_other by auto. eapply (i_hs m I); eauto.
Qed.

Lemma sim_vsdelete : forall m r, Inv m -> sim_step m (OVSDelete r).
Proof.
  intros m r I. unfold sim_step. cbn [mstep step vss abs_state].
  destruct (u16 r); cbn [negb]; [|left; reflexivity].
  destruct (tget r (m_vs m)) eqn:Es; [|file_same I; right; reflexivity].
  unfold vs_attached, m_vs_attached. cbn [hs abs_state].
  destruct (attached_in r (m_hs m)) eqn:At; [left; reflexivity|].
  right. cbn [fst snd]. split; [|split; [reflexivity|right; reflexivity]].
  constructor; cbn [m_vg m_vs m_file m_hg m_hs]; try apply I.
  - apply sorted_tdel. apply I.
  - apply Forall_forall. intros x Hx. apply keys_tdel_In in Hx.
    pose proof (i_rs m I) as F. rewrite Forall_forall in F. auto.
  - intros h' r' H. destruct (Z.eq_dec r' r).
    + subst. rewrite (attached_of_In _ _ _ H) in At. discriminate.
    + rewrite tget_tdel_other by auto. eapply (i_hs m I); eauto.
Qed.

Lemma sim_vsattach : forall m h r, Inv m -> sim_step m (OVsAttach h r).
Proof.
  intros m h r I. unfold sim_step. cbn [mstep step vss hs abs_state].
  destruct (tget h (m_hs m)); [left; reflexivity|].
  destruct (tget r (m_vs m)) eqn:Es; [|file_same I; right; reflexivity].
  right. cbn [fst snd]. split; [|split; [reflexivity|right; reflexivity]].
  constructor; cbn [m_vg m_vs m_file m_hg m_hs]; try apply I.
  intros h' r' H. apply In_tins in H. destruct H as [H|H]; [inversion H; subst; congruence|eapply (i_hs m I); eauto].
Qed.

Lemma sim_vsdetach : forall m h, Inv m -> sim_step m (OVsDetach h).
Proof.
  intros m h I. unfold sim_step. cbn [mstep step hs abs_state].
  destruct (tget h (m_hs m)); [|file_same I; right; reflexivity].
  right. cbn [fst snd]. split; [|split; [reflexivity|right; reflexivity]].
  constructor; cbn [m_vg m_vs m_file m_hg m_hs]; try apply I.
  intros h' r' H. apply In_tdel in H. eapply (i_hs m I); eauto.
Qed.

(* ---- reopen ------------------------------------------------------------------------------------------- *)
Lemma reloaded_core : forall g, WFpack g -> core (reloaded g) = core g.
Proof.
  intros g P. destruct P. unfold core. rewrite reloaded_members by auto. unfold reloaded; cbn [vgname vgclass].
  rewrite !norm_view by auto. reflexivity.
Qed.

Lemma tins_head : forall A (t : list (Z * A)) k v, Forall (fun x => k < x) (keys t) -> tins k v t = (k, v) :: t.
Proof.
  intros A t k v F. destruct t as [|[k' v'] t]; [reflexivity|]. cbn [tins].
  inversion F; subst. destruct (Z.ltb_spec k k'); [reflexivity|lia].
Qed.

Lemma sorted_ext : forall l1 l2, StronglySorted Z.lt l1 -> StronglySorted Z.lt l2 ->
  (forall x, In x l1 <-> In x l2) -> l1 = l2.
Proof.
  induction l1 as [|a l1]; intros l2 S1 S2 H.
  - destruct l2 as [|b l2]; [reflexivity|]. exfalso. apply (H b). left; reflexivity.
  - destruct l2 as [|b l2]; [exfalso; apply (H a); left; reflexivity|].
    inversion S1 as [|? ? S1' F1]; inversion S2 as [|? ? S2' F2]; subst.
    rewrite Forall_forall in F1, F2.
    assert (a = b).
    { destruct (proj1 (H a) (or_introl eq_refl)) as [E|E]; [auto|].
      destruct (proj2 (H b) (or_introl eq_refl)) as [E'|E']; [auto|].
      specialize (F1 _ E'). specialize (F2 _ E). lia. }
    subst b. f_equal. apply IHl1; auto. intro x. split; intro Hx.
    + destruct (proj1 (H x) (or_intror Hx)) as [E|E]; [|auto]. subst. specialize (F1 _ Hx). lia.
    + destruct (proj2 (H x) (or_intror Hx)) as [E|E]; [|auto]. subst. specialize (F2 _ Hx). lia.
Qed.

Lemma load_vfile_spec : forall file, StronglySorted Z.lt (keys file) ->
  (forall k b, In (k, b) file -> exists g0, WFpack g0 /\ oref g0 = k /\ b = snd (vpackvg g0)) ->
  exists t, load_vfile file = Some t /\ keys t = keys file /\
    (forall k g', In (k, g') t ->
       exists g0, WFpack g0 /\ oref g0 = k /\ tget k file = Some (snd (vpackvg g0)) /\ g' = reloaded g0).
Proof.
  induction file as [|[k b] file]; intros S H.
  - exists []. split; [reflexivity|]. split; [reflexivity|]. intros k g' [].
  - cbn [keys map fst] in S. inversion S as [|? ? S' F]; subst.
    destruct (IHfile S') as (t & L & K & T). { intros k' b' I. apply H. right; auto. }
    destruct (H k b (or_introl eq_refl)) as (g0 & P0 & O0 & B0).
    cbn [load_vfile]. rewrite L. subst b.
    replace (vunpackvg k (snd (vpackvg g0))) with (vunpackvg (oref g0) (snd (vpackvg g0))) by (rewrite O0; reflexivity).
    rewrite pack_roundtrip_lemma by auto.
    assert (Fk : Forall (fun x => k < x) (keys t)) by (unfold keys in *; rewrite K; exact F).
    rewrite tins_head by auto.
    eexists. split; [reflexivity|]. split; [cbn [keys map fst]; unfold keys in *; rewrite K; reflexivity|].
    intros k' g' [I|I].
    + inversion I; subst k' g'. exists g0. cbn [tget]. rewrite Z.eqb_refl. auto.
    + destruct (T k' g' I) as (g1 & P1 & O1 & T1 & R1). exists g1.
      split; [exact P1|split; [exact O1|split; [|exact R1]]]. cbn [tget].
      assert (k < k'). { rewrite Forall_forall in Fk. apply Fk. apply (in_map fst) in I. exact I. }
      destruct (Z.eqb_spec k' k); [lia|exact T1].
Qed.

Lemma tmap_eq_keys : forall A B C (F : Z -> A -> C) (G : Z -> B -> C) (t1 : list (Z * A)) (t2 : list (Z * B)),
  keys t1 = keys t2 -> (forall k v1 v2, In (k, v1) t1 -> In (k, v2) t2 -> F k v1 = G k v2) ->
  tmap F t1 = tmap G t2.
Proof.
  induction t1 as [|[k v] t1]; intros [|[k2 v2] t2] K H; cbn [keys map fst] in K; try discriminate; [reflexivity|].
  injection K as K1 K2. subst k2. cbn [tmap map fst snd]. f_equal.
  - f_equal. apply H; left; reflexivity.
  - apply IHt1; auto. intros. apply H; right; auto.
Qed.

Lemma attached_nil : forall k, attached_in k [] = false.
Proof. reflexivity. Qed.

Lemma sim_reopen : forall m, Inv m -> sim_step m OReopen.
Proof.
  intros m I. unfold sim_step. cbn [mstep step hg hs abs_state].
  destruct (m_hg m) as [|x hgr] eqn:Ehg; [|left; reflexivity].
  destruct (m_hs m) as [|y hsr] eqn:Ehs; [|left; reflexivity].
  assert (Unm : forall k g, tget k (m_vg m) = Some g -> marked g = false).
  { intros k g E. destruct (marked g) eqn:Mk; auto. pose proof (i_mk m I k g E Mk) as A. rewrite Ehg in A. discriminate. }
  destruct (load_vfile_spec (m_file m) (i_sf m I)) as (t & L & K & T).
  { intros k b Hin. apply tget_sorted_in in Hin; [|apply I].
    assert (N : tget k (m_file m) <> None) by congruence.
    apply (i_fs m I) in N. destruct (tget k (m_vg m)) as [gk|] eqn:Eg; [|contradiction].
    destruct (i_sv m I k gk Eg (Unm k gk Eg)) as (g0 & P0 & O0 & T0 & _).
    exists g0. split; [exact P0|split; [exact O0|congruence]]. }
  rewrite L.
  assert (KK : keys (m_file m) = keys (m_vg m)).
  { apply sorted_ext; [apply I|apply I|]. intro k. split; intro Hk.
    - apply tget_keys in Hk. destruct Hk as [b Eb]. assert (N : tget k (m_file m) <> None) by congruence.
      apply (i_fs m I) in N. apply tget_keys. destruct (tget k (m_vg m)); [eauto|contradiction].
    - apply tget_keys in Hk. destruct Hk as [g Eg].
      destruct (i_sv m I k g Eg (Unm k g Eg)) as (g0 & _ & _ & T0 & _). apply tget_keys. eauto. }
  right. cbn [fst snd]. split; [|split; [|right; reflexivity]].
  - constructor; cbn [m_vg m_vs m_file m_hg m_hs]; try apply I.
    + rewrite K, KK. apply I.
    + rewrite K, KK. apply I.
    + intros k g' E. apply tget_In in E. destruct (T k g' E) as (g0 & P0 & O0 & _ & R0). subst g'.
      split; [apply reloaded_WFpack; auto|exact O0].
    + intros k g' E Mk. apply tget_In in E. destruct (T k g' E) as (g0 & _ & _ & _ & R0). subst g'. discriminate.
    + intros k g' E Mk. apply tget_In in E. destruct (T k g' E) as (g0 & P0 & O0 & T0 & R0). subst g'.
      exists g0. split; [exact P0|split; [exact O0|split; [exact T0|symmetry; apply reloaded_core; auto]]].
    + intros k N E. apply tget_none_notin in E. apply E. rewrite K. apply tget_keys.
      destruct (tget k (m_file m)); [eauto|contradiction].
    + intros h r [].
    + intros h r [].
    + intros k g' E Nk. apply tget_In in E. destruct (T k g' E) as (g0 & _ & _ & _ & R0). subst g'. discriminate.
  - unfold abs_state, ok0. cbn [m_vg m_vs m_hg m_hs fst]. rewrite Ehg, Ehs. f_equal.
    unfold abs_table. apply tmap_eq_keys; [rewrite K, KK; reflexivity|].
    intros k g' gk I1 I2. destruct (T k g' I1) as (g0 & P0 & O0 & T0 & R0). subst g'.
    apply tget_sorted_in in I2; [|apply I].
    destruct (i_sv m I k gk I2 (Unm k gk I2)) as (g1 & P1 & O1 & T1 & C1).
    assert (RR : reloaded g0 = reloaded g1).
    { pose proof (pack_roundtrip_lemma g0 P0) as R0. pose proof (pack_roundtrip_lemma g1 P1) as R1.
      rewrite O0 in R0. rewrite O1 in R1.
      assert (TT : snd (vpackvg g0) = snd (vpackvg g1)) by congruence. rewrite TT in R0. congruence. }
    assert (CC : core (reloaded g0) = core gk).
    { rewrite RR, reloaded_core by auto. exact C1. }
    rewrite (abs_vg_core [] k gk (reloaded g0) CC). reflexivity.
Qed.

(* ---- Vlone / VSlone ------------------------------------------------------------------------------------ *)
Lemma lone_visits_spec : forall hg t f,
  StronglySorted Z.lt (keys t) -> StronglySorted Z.lt (keys f) ->
  (forall k g, In (k, g) t -> WFpack g /\ oref g = k /\ (marked g = true -> attached_in k hg = true) /\
                              (marked g = false -> saved f k g) /\ (new_vg g = true -> tget k f = None)) ->
  keys (snd (lone_visits hg f t)) = keys t /\
  StronglySorted Z.lt (keys (fst (lone_visits hg f t))) /\
  tmap (abs_vg hg) (snd (lone_visits hg f t)) = tmap (abs_vg hg) t /\
  (forall k g1, In (k, g1) (snd (lone_visits hg f t)) ->
     WFpack g1 /\ oref g1 = k /\ marked g1 = false /\ saved (fst (lone_visits hg f t)) k g1 /\
     (new_vg g1 = true -> tget k (fst (lone_visits hg f t)) = None)) /\
  (forall k, ~ In k (keys t) -> tget k (fst (lone_visits hg f t)) = tget k f) /\
  (forall k, tget k (fst (lone_visits hg f t)) <> None -> tget k f <> None \/ In k (keys t)).
Proof.
  induction t as [|[k g] t]; intros f St Sf H.
  - cbn. split; [reflexivity|]. split; [exact Sf|]. split; [reflexivity|]. split; [intros k0 g1 []|].
    split; [reflexivity|]. intros k0 N. left; exact N.
  - cbn [keys map fst] in St. inversion St as [|? ? St' Fk]; subst.
    destruct (H k g (or_introl eq_refl)) as (P & O & Mk & Sv & Nw).
    cbn [lone_visits].
    (* the visit of the head *)
    assert (V : exists f1 g1, (if attached_in k hg then write_back f g else (f, set_first_attach g false)) = (f1, g1) /\
                WFpack g1 /\ oref g1 = k /\ core g1 = core g /\ marked g1 = false /\
                (attached_in k hg = true -> access g1 = access g) /\
                StronglySorted Z.lt (keys f1) /\ saved f1 k g1 /\
                (forall k', k' <> k -> tget k' f1 = tget k' f) /\ tget k f1 <> None /\
                (new_vg g1 = true -> tget k f1 = None)).
    { destruct (attached_in k hg) eqn:At.
      - pose proof (write_back_spec f g k P O Sf Sv Nw) as WB. destruct (write_back f g) as [f1 g1].
        destruct WB as (P1 & O1 & C1 & A1 & M1 & S1 & Sv1 & Fo & Fr & Nw1 & _). exists f1, g1. auto 14.
      - assert (Mg : marked g = false) by (destruct (marked g); auto; specialize (Mk eq_refl); discriminate).
        specialize (Sv Mg). exists f, (set_first_attach g false).
        split; [reflexivity|]. split; [apply WFpack_access; auto|]. split; [exact O|]. split; [reflexivity|].
        split; [reflexivity|]. split; [intro; discriminate|]. split; [exact Sf|].
        split; [apply (saved_core f k g); auto|]. split; [reflexivity|].
        split; [destruct Sv as (g0 & _ & _ & T & _); rewrite T; discriminate|exact Nw]. }
    destruct V as (f1 & g1 & EV & P1 & O1 & C1 & M1 & A1 & S1 & Sv1 & Fo & Fr & Nw1). rewrite EV.
    assert (Hk : forall k' g', In (k', g') t -> k < k').
    { intros k' g' I. rewrite Forall_forall in Fk. apply Fk. apply (in_map fst) in I. exact I. }
    destruct (IHt f1 St' S1) as (K' & Sf' & Ab' & En' & Fo' & Fr').
    { intros k' g' I. destruct (H k' g' (or_intror I)) as (P' & O' & Mk' & Sv' & Nw').
      specialize (Hk k' g' I).
      split; [exact P'|split; [exact O'|split; [exact Mk'|split]]].
      - intro Mg'. destruct (Sv' Mg') as (g0 & P0 & O0 & T0 & C0). exists g0.
        split; [exact P0|split; [exact O0|split; [|exact C0]]]. rewrite Fo; auto. lia.
      - intro N'. rewrite Fo by lia. auto. }
    destruct (lone_visits hg f1 t) as [f2 t2]. cbn [fst snd] in *.
    assert (Nk : ~ In k (keys t)).
    { intro I. rewrite Forall_forall in Fk. specialize (Fk k I). lia. }
    split; [cbn [keys map fst]; unfold keys in *; rewrite K'; reflexivity|].
    split; [exact Sf'|]. split; [|split; [|split]].
    + cbn [tmap map fst snd]. f_equal; [|exact Ab'].
      f_equal. rewrite (abs_vg_core hg k g g1 C1). unfold set_w, abs_vg. cbn [g_name g_class g_members].
      destruct (attached_in k hg) eqn:At; cbn [andb]; [rewrite A1 by auto|]; reflexivity.
    + intros k' g' [I|I].
      * injection I as I1 I2. subst k' g'. split; [exact P1|split; [exact O1|split; [exact M1|split]]].
        -- destruct Sv1 as (g0 & P0 & O0 & T0 & C0). exists g0.
           split; [exact P0|split; [exact O0|split; [|exact C0]]]. rewrite Fo'; auto.
        -- intro N'. rewrite Fo' by auto. auto.
      * apply En'; auto.
    + intros k' N. cbn [keys map fst In] in N. rewrite Fo' by tauto. apply Fo. intro; subst. apply N. left; reflexivity.
    + intros k' N. cbn [keys map fst In]. destruct (Z.eq_dec k' k); [right; left; auto|].
      destruct (Fr' k' N) as [N1|N1]; [|right; right; exact N1]. left. rewrite <- Fo by auto. exact N1.
Qed.

Lemma lone_effect : forall m, Inv m -> Inv (lone_side_effect m) /\ abs_state (lone_side_effect m) = abs_state m.
Proof.
  intros m I. unfold lone_side_effect.
  destruct (lone_visits_spec (m_hg m) (m_vg m) (m_file m) (i_sg m I) (i_sf m I)) as (K & Sf & Ab & En & Fo & Fr).
  { intros k g Hin. apply tget_sorted_in in Hin; [|apply I]. destruct (i_vg m I k g Hin) as [P O].
    split; [exact P|split; [exact O|split; [apply (i_mk m I k g Hin)|split; [apply (i_sv m I k g Hin)|apply (i_nw m I k g Hin)]]]]. }
  destruct (lone_visits (m_hg m) (m_file m) (m_vg m)) as [f t]. cbn [fst snd] in *.
  assert (TG : forall k, tget k t <> None <-> tget k (m_vg m) <> None).
  { intro k. split; intros N E; apply tget_none_notin in E; apply N; apply tget_none_notin; congruence. }
  split.
  - constructor; cbn [m_vg m_vs m_file m_hg m_hs]; try apply I; try (rewrite K; apply I); auto.
    + intros k g1 E. apply tget_In in E. destruct (En k g1 E) as (P1 & O1 & _). auto.
    + intros k g1 E Mk. apply tget_In in E. destruct (En k g1 E) as (_ & _ & M1 & _). congruence.
    + intros k g1 E Mk. apply tget_In in E. destruct (En k g1 E) as (_ & _ & _ & S1 & _). exact S1.
    + intros k N. apply TG. destruct (Fr k N) as [N1|N1]; [apply (i_fs m I); auto|].
      intro E. apply tget_none_notin in E. contradiction.
    + intros h r Hin. apply TG. eapply (i_hg m I); eauto.
    + intros k g1 E Nk. apply tget_In in E. destruct (En k g1 E) as (_ & _ & _ & _ & N1). auto.
  - unfold abs_state. cbn [m_vg m_vs m_hg m_hs]. f_equal. exact Ab.
Qed.

Lemma Inv_refs_ok : forall m, Inv m -> forall k g, In (k, g) (m_vg m) -> WF g /\ refs_ok g.
Proof.
  intros m I k g Hin. apply tget_sorted_in in Hin; [|apply I]. destruct (i_vg m I k g Hin) as [P _].
  split; [apply P|]. unfold refs_ok. eapply Forall_impl; [|apply (wp_mem g P)].
  intros p [_ [A _]]. exact A.
Qed.

Lemma sim_lone : forall m n, Inv m -> sim_step m (OLone n).
Proof.
  intros m n I. destruct (Inv_tables m I) as (_ & _ & _ & _ & TG & TS).
  unfold sim_step. cbn [mstep step]. destruct (n <? 0); [left; reflexivity|].
  destruct (lone_effect m I) as [I' A']. destruct (lone_correct_lemma m TG TS (Inv_refs_ok m I)) as [L1 L2].
  right. cbn [fst snd]. split; [exact I'|split; [exact A'|right; rewrite L1; reflexivity]].
Qed.

Lemma sim_vslone : forall m n, Inv m -> sim_step m (OVSLone n).
Proof.
  intros m n I. destruct (Inv_tables m I) as (_ & _ & _ & _ & TG & TS).
  unfold sim_step. cbn [mstep step]. destruct (n <? 0); [left; reflexivity|].
  destruct (lone_effect m I) as [I' A']. destruct (lone_correct_lemma m TG TS (Inv_refs_ok m I)) as [L1 L2].
  right. cbn [fst snd]. split; [exact I'|split; [exact A'|right; rewrite L2; reflexivity]].
Qed.

(* ---- round 2: the VSgetvdatas / VSofclass family, VHmakegroup, Ventries, VQuerytag, Vgisinternal, Vflocate ---- *)
Lemma vscheck_spec : forall t r q, vscheckclass t r q = vs_matches q r t.
Proof.
  intros. unfold vscheckclass, vs_matches, vs_class_match. destruct (tget r t) as [v|]; [|reflexivity].
  destruct (s_class v); destruct q; reflexivity.
Qed.

Lemma enum_agree : forall (m : mstate) (s : state) u start n,
  snd (enum_answer s u start n) = snd (match m_enum u start n with Some l => mok m l | None => (m, RFail) end) /\
  fst (enum_answer s u start n) = s /\
  fst (match m_enum u start n with Some l => mok m l | None => (m, RFail) end) = m.
Proof.
  intros. unfold enum_answer, m_enum, slice, mok. destruct (zlen u <? start); [auto|]. destruct (n =? 0); auto.
Qed.

Ltac enum_finish I E :=
  let E1 := fresh in let E2 := fresh in let E3 := fresh in
  destruct E as (E1 & E2 & E3); unfold abs_state in *; rewrite E1, E2, E3;
  right; split; [exact I|split; [reflexivity|right; reflexivity]].

Lemma sim_getvdatasf : forall m q start n, Inv m -> sim_step m (OGetVdatasF q start n).
Proof.
  intros m q start n I. destruct (Inv_tables m I) as (_ & _ & ND & NN & _). unfold sim_step.
  cbn [mstep step vss abs_state]. destruct ((start <? 0) || (n <? 0)); [left; reflexivity|].
  rewrite all_ids_keys by auto.
  rewrite (filter_ext (fun id => vscheckclass (m_vs m) id q)
             (fun id => match tget id (m_vs m) with Some v => vs_class_match q (s_class v) | None => false end))
    by (intro; apply vscheck_spec).
  rewrite (filter_keys_tget (fun v => vs_class_match q (s_class v)) (m_vs m) (m_vs m)) by (auto; apply incl_refl).
  pose proof (enum_agree m (abs_state m) (keys (filter (fun e => vs_class_match q (s_class (snd e))) (m_vs m))) start n) as E.
  enum_finish I E.
Qed.

Lemma sim_getvdatasg : forall m h q start n, Inv m -> sim_step m (OGetVdatasG h q start n).
Proof.
  intros m h q start n I. obs_start m I h.
  destruct ((start <? 0) || (n <? 0)); [left; reflexivity|].
  pose proof (idx_flat_map g (fun t r0 => if t =? DFTAG_VH
             then (if vscheckclass (m_vs m) r0 q then [r0] else []) else []) W) as X. cbv beta in X. rewrite X. clear X.
  assert (E : forall p : Z * Z,
            (if fst p =? DFTAG_VH then (if vscheckclass (m_vs m) (snd p) q then [snd p] else []) else []) =
            (if (fst p =? DFTAG_VH) && vs_matches q (snd p) (m_vs m) then [snd p] else [])).
  { intros p. rewrite vscheck_spec. destruct (fst p =? DFTAG_VH); reflexivity. }
  rewrite (flat_map_ext _ _ E), flat_map_filter.
  change (vss (abs_state m)) with (m_vs m).
  match goal with |- context [m_enum ?u start n] => pose proof (enum_agree m (abs_state m) u start n) as EA end.
  destruct EA as (E1 & E2 & E3). rewrite E1, E2, E3. right. split; [exact I|split; [reflexivity|right; reflexivity]].
Qed.

Lemma sim_ventries : forall m r, Inv m -> sim_step m (OVentries r).
Proof.
  intros m r I. unfold sim_step. cbn [mstep step vgs abs_state].
  destruct (r <? 1); [file_same I; right; reflexivity|].
  destruct (u16 r) eqn:U; cbn [negb]; [|left; reflexivity].
  rewrite (w16_id r U). unfold abs_table. rewrite tget_tmap.
  destruct (tget r (m_vg m)) as [g|] eqn:Eg; cbn [option_map]; [|file_same I; right; reflexivity].
  destruct (i_vg m I r g Eg) as [P _]. file_same I. right. cbn [abs_vg g_members].
  rewrite (members_length g (wp_wf g P)). reflexivity.
Qed.

Lemma sim_querytag : forall m h, Inv m -> sim_step m (OQueryTag h).
Proof. intros m h I. obs_start m I h. obs_same I. right. reflexivity. Qed.

Lemma gr_name_nil : is_prefix GR_NAME [] = false.
Proof. reflexivity. Qed.

Lemma sim_gisinternal : forall m h, Inv m -> sim_step m (OGisInternal h).
Proof.
  intros m h I. obs_start m I h. unfold Visinternal, internal_class.
  destruct (vgclass g) as [c|]; cbn [opt_bytes].
  - destruct (cstr c) eqn:Ec.
    + destruct (is_prefix GR_NAME (cstr (opt_bytes (vgname g)))); obs_same I; [left|right]; reflexivity.
    + obs_same I. right. reflexivity.
  - cbn [cstr]. destruct (vgname g) as [nm|]; cbn [opt_bytes].
    + destruct (is_prefix GR_NAME (cstr nm)); obs_same I; [left|right]; reflexivity.
    + cbn [cstr]. rewrite gr_name_nil. obs_same I. right. reflexivity.
Qed.

Lemma sim_flocate : forall m h f, Inv m -> sim_step m (OFlocate h f).
Proof.
  intros m h f I. obs_start m I h. destruct f as [|b f]; [left; reflexivity|].
  pose proof W as [Lt Lr Hn Hm Hu]. unfold idx. rewrite map_idx_members by lia. fold (members g).
  change (vss (abs_state m)) with (m_vs m).
  destruct (flocate (b :: f) (m_vs m) (members g)); obs_same I; right; reflexivity.
Qed.

Lemma file_users_spec : forall m, Inv m ->
  file_users m = keys (filter (fun e => negb (internal_class (g_class (snd e)))) (abs_table (m_hg m) (m_vg m))).
Proof.
  intros m I. destruct (Inv_tables m I) as (ND & NN & _). unfold file_users.
  rewrite all_ids_keys by auto.
  rewrite (filter_keys_tget user_created (m_vg m) (m_vg m)) by (auto; apply incl_refl).
  unfold abs_table.
  rewrite (filter_tmap_keys (abs_vg (m_hg m)) (fun g => negb (internal_class (g_class g))) user_created)
    by (intros; symmetry; apply user_created_spec). reflexivity.
Qed.

Lemma vgroup_users_spec : forall m g, WF g ->
  vgroup_users m g =
  map snd (filter (fun p => (fst p =? DFTAG_VG) &&
                            match tget (snd p) (abs_table (m_hg m) (m_vg m)) with
                            | Some g2 => negb (internal_class (g_class g2)) | None => false end) (members g)).
Proof.
  intros m g W. unfold vgroup_users.
  pose proof (idx_flat_map g (fun t r0 => if t =? DFTAG_VG
             then match tget r0 (m_vg m) with
                  | Some g2 => if user_created g2 then [r0] else []
                  | None => [] end
             else []) W) as X. cbv beta in X. rewrite X. clear X.
  rewrite <- flat_map_filter. apply flat_map_ext. intros p. unfold abs_table. rewrite tget_tmap.
  destruct (fst p =? DFTAG_VG); cbn [andb]; [|reflexivity].
  destruct (tget (snd p) (m_vg m)); cbn [option_map]; [|reflexivity].
  rewrite <- user_created_spec. reflexivity.
Qed.

Lemma zlen_map : forall A B (f : A -> B) l, zlen (map f l) = zlen l.
Proof. intros. unfold zlen. rewrite map_length. reflexivity. Qed.

Lemma sim_countvgroupsf : forall m start, Inv m -> sim_step m (OCountVgroupsF start).
Proof.
  intros m start I. unfold sim_step. cbn [mstep step vgs abs_state].
  destruct (Z.ltb_spec start 0); [left; reflexivity|].
  rewrite (file_users_spec m I).
  set (u := filter (fun e => negb (internal_class (g_class (snd e)))) (abs_table (m_hg m) (m_vg m))).
  assert (zlen (keys u) = zlen u) by (unfold keys; apply zlen_map). rewrite H0.
  destruct (Z.ltb_spec 0 start).
  - destruct (zlen u <? start); file_same I; left; reflexivity.
  - replace (zlen u <? start) with false by (symmetry; apply Z.ltb_ge; unfold zlen; lia).
    file_same I. right. reflexivity.
Qed.

Lemma sim_countvgroupsg : forall m h start, Inv m -> sim_step m (OCountVgroupsG h start).
Proof.
  intros m h start I. obs_start m I h. destruct (start <? 0); [left; reflexivity|].
  rewrite (vgroup_users_spec m g W), zlen_map. fold (abs_table (m_hg m) (m_vg m)).
  match goal with |- context [zlen ?u <? start] => destruct (zlen u <? start) end; obs_same I; right; reflexivity.
Qed.

(** VHmakegroup's loop appends the whole pair list *)
Lemma addlist_pack : forall l g, WFpack g -> nvelt g + zlen l <= 65535 -> Forall pair_u16 l ->
  exists g', addlist_loop g l = Some g' /\ WFpack g' /\ members g' = members g ++ l /\
    (vgname g', vgclass g', oref g', access g') = (vgname g, vgclass g, oref g, access g) /\
    (marked g = true -> marked g' = true) /\ new_vg g' = new_vg g.
Proof.
  induction l as [|[t r] l]; intros g P L F.
  - exists g. split; [reflexivity|]. split; [exact P|]. split; [rewrite app_nil_r; reflexivity|]. split; [reflexivity|auto].
  - inversion F as [|? ? [Ut Ur] F']; subst. cbn [fst snd] in *.
    assert (ZL : zlen ((t, r) :: l) = 1 + zlen l) by (unfold zlen; cbn [length]; lia).
    assert (0 <= zlen l) by (unfold zlen; lia).
    cbn [addlist_loop]. unfold Vaddtagref. rewrite (w16_is t Ut), (w16_is r Ur).
    destruct (vinsertpair_pack g t r P ltac:(lia) Ut Ur) as (g1 & n1 & E & P1 & M1 & N1 & N2 & F1 & NV1).
    rewrite E. injection F1 as f1 f2 f3 f4 f5.
    destruct (IHl g1 P1 ltac:(lia) F') as (g' & E' & P' & M' & F2 & K' & NV').
    exists g'. split; [exact E'|]. split; [exact P'|]. split; [rewrite M', M1, <- app_assoc; reflexivity|].
    injection F2 as e1 e2 e3 e4. split; [congruence|]. split; [intros _; apply K'; exact f5|congruence].
Qed.

Lemma opt_ok_spec : forall o, opt_ok o = true ->
  match o with Some b => name_ok b = true /\ zlen b <= 65535 | None => True end.
Proof.
  intros [b|] H; [|exact Logic.I]. unfold opt_ok in H. apply andb_true_iff in H as [A B]. apply Z.leb_le in B. auto.
Qed.

Lemma sim_vhmakegroup : forall m r n c l, Inv m -> sim_step m (OVHMakeGroup r n c l).
Proof.
  intros m r n c l I. unfold sim_step. cbn [mstep step vgs abs_state].
  destruct ((1 <=? r) && (r <=? 65535)) eqn:C; cbn [negb]; [|file_same I; right; reflexivity].
  apply andb_true_iff in C as [C1 C2]. apply Z.leb_le in C1. apply Z.leb_le in C2.
  unfold abs_table. rewrite tget_tmap.
  destruct (tget r (m_vg m)) eqn:Eg; cbn [option_map]; [file_same I; right; reflexivity|].
  destruct (opt_ok n && opt_ok c && forallb (fun p => u16 (fst p) && u16 (snd p)) l && (zlen l <=? 65535)) eqn:D;
    [|left; reflexivity].
  apply andb_true_iff in D as [D D4]. apply andb_true_iff in D as [D D3]. apply andb_true_iff in D as [D1 D2].
  apply Z.leb_le in D4. apply opt_ok_spec in D1. apply opt_ok_spec in D2.
  assert (Fl : Forall pair_u16 l).
  { rewrite forallb_forall in D3. apply Forall_forall. intros p Hp. specialize (D3 p Hp).
    apply andb_true_iff in D3 as [A B]. split; apply u16_is; auto. }
  (* the vgroup built before the loop *)
  set (g1 := match n with Some b => set_name (new_vgroup r) (set_string b) | None => new_vgroup r end).
  set (g2 := match c with Some b => set_class g1 (set_string b) | None => g1 end).
  assert (P1 : WFpack g1 /\ cstr (opt_bytes (vgname g1)) = opt_val n /\ vgclass g1 = None /\ members g1 = [] /\
               oref g1 = r /\ marked g1 = true /\ nvelt g1 = 0).
  { unfold g1. destruct n as [b|].
    - destruct D1 as [N L]. destruct (set_name_pack (new_vgroup r) b (WFpack_new r) N L) as (Pa & _ & E).
      split; [exact Pa|]. cbn. rewrite E, E. auto 10.
    - split; [apply WFpack_new|]. cbn. auto 10. }
  destruct P1 as (Pg1 & Nm1 & Cl1 & Mb1 & Or1 & Mk1 & Nv1).
  assert (P2 : WFpack g2 /\ cstr (opt_bytes (vgname g2)) = opt_val n /\ cstr (opt_bytes (vgclass g2)) = opt_val c /\
               members g2 = [] /\ oref g2 = r /\ marked g2 = true /\ nvelt g2 = 0).
  { unfold g2. destruct c as [b|].
    - destruct D2 as [N L]. destruct (set_name_pack g1 b Pg1 N L) as (_ & Pb & E).
      split; [exact Pb|]. unfold set_class, set_string, members. cbn [vgname vgclass nvelt tag ref oref marked opt_bytes].
      rewrite E, E. fold (members g1). auto 10.
    - split; [exact Pg1|]. rewrite Cl1. cbn. auto 10. }
  destruct P2 as (Pg2 & Nm2 & Cl2 & Mb2 & Or2 & Mk2 & Nv2).
  destruct (addlist_pack l g2 Pg2 ltac:(lia) Fl) as (g3 & E3 & P3 & M3 & F3 & K3 & NV3).
  rewrite E3. injection F3 as e1 e2 e3 e4. rewrite Mb2 in M3. cbn [app] in M3.
  assert (NoRec : tget r (m_file m) = None).
  { destruct (tget r (m_file m)) eqn:Ef; auto. exfalso. apply (i_fs m I r); congruence. }
  pose proof (write_back_spec (m_file m) g3 r P3 ltac:(congruence) (i_sf m I)) as WB.
  specialize (WB ltac:(intro X; rewrite (K3 Mk2) in X; discriminate) ltac:(intro; exact NoRec)).
  destruct (write_back (m_file m) g3) as [f g4].
  destruct WB as (P4 & O4 & C4 & A4 & M4 & S4 & Sv4 & Fo & Fr & Nw4 & _).
  assert (NotAtt : attached_in r (m_hg m) = false).
  { destruct (attached_in r (m_hg m)) eqn:At; auto. unfold attached_in in At. apply existsb_exists in At.
    destruct At as ([h' r'] & Hin & Er). cbn in Er. apply Z.eqb_eq in Er. subst r'.
    exfalso. apply (i_hg m I h' r Hin). exact Eg. }
  right. cbn [fst snd]. split; [|split; [|right; reflexivity]].
  - constructor; cbn [m_vg m_vs m_file m_hg m_hs]; try apply I; auto.
    + apply sorted_tins; auto. apply I.
    + apply Forall_forall. intros x Hx. apply keys_tins_In in Hx. destruct Hx as [Hx|Hx].
      * subst x. unfold key_ok, MAX_REF. lia.
      * pose proof (i_rg m I) as F. rewrite Forall_forall in F. auto.
    + intros k g E. destruct (Z.eq_dec k r).
      * subst k. rewrite tget_tins_same in E by auto. injection E as E. subst g. auto.
      * rewrite tget_tins_other in E by auto. apply (i_vg m I); auto.
    + intros k g E Mk. destruct (Z.eq_dec k r).
      * subst k. rewrite tget_tins_same in E by auto. injection E as E. subst g. congruence.
      * rewrite tget_tins_other in E by auto. apply (i_mk m I k g); auto.
    + intros k g E Mk. destruct (Z.eq_dec k r).
      * subst k. rewrite tget_tins_same in E by auto. injection E as E. subst g. exact Sv4.
      * rewrite tget_tins_other in E by auto.
        destruct (i_sv m I k g E Mk) as (g0 & P0 & O0 & T0 & C0). exists g0.
        split; [exact P0|split; [exact O0|split; [rewrite Fo by auto; exact T0|exact C0]]].
    + intros k H. destruct (Z.eq_dec k r).
      * subst k. rewrite tget_tins_same by auto. discriminate.
      * rewrite tget_tins_other by auto. apply (i_fs m I). rewrite <- Fo by auto. exact H.
    + intros h' r' H. destruct (Z.eq_dec r' r); [subst r'; rewrite tget_tins_same by auto; discriminate|].
      rewrite tget_tins_other by auto. eapply (i_hg m I); eauto.
    + intros k g E Nk. destruct (Z.eq_dec k r).
      * subst k. rewrite tget_tins_same in E by auto. injection E as E. subst g. auto.
      * rewrite tget_tins_other in E by auto. rewrite Fo by auto. apply (i_nw m I k g); auto.
  - unfold abs_state. cbn [m_vg m_vs m_hg m_hs]. f_equal.
    unfold abs_table. rewrite <- tins_tmap. f_equal.
    unfold abs_vg. rewrite NotAtt. cbn [andb].
    unfold core in C4. injection C4 as c1 c2 c3. rewrite c1, c2, c3, e1, e2, Nm2, Cl2, M3. reflexivity.
Qed.

(* ================================================================================================== *)
(** * Every operation, every history *)

Lemma step_sim : forall m o, Inv m -> sim_step m o.
Proof.
  intros m o I. destruct o.
  - apply sim_open; auto.
  - apply sim_reopen; auto.
  - apply sim_vgnew; auto.
  - apply sim_vgattach; auto.
  - apply sim_vgdetach; auto.
  - apply sim_setname; auto.
  - apply sim_setclass; auto.
  - apply sim_addtagref; auto.
  - apply sim_addmany; auto.
  - apply sim_insertvg; auto.
  - apply sim_insertvs; auto.
  - apply sim_deltagref; auto.
  - apply sim_vdelete; auto.
  - apply sim_vsdelete; auto.
  - apply sim_vsnew; auto.
  - apply sim_vsattach; auto.
  - apply sim_vsdetach; auto.
  - apply sim_ntagrefs; auto.
  - apply sim_gettagrefs; auto.
  - apply sim_gettagref; auto.
  - apply sim_inqtagref; auto.
  - apply sim_nrefs; auto.
  - apply sim_getname; auto.
  - apply sim_getclass; auto.
  - apply sim_inquire; auto.
  - apply sim_queryref; auto.
  - apply sim_isvg; auto.
  - apply sim_isvs; auto.
  - apply sim_lone; auto.
  - apply sim_vslone; auto.
  - apply sim_getid; auto.
  - apply sim_vsgetid; auto.
  - apply sim_iter; auto.
  - apply sim_vsiter; auto.
  - apply sim_find; auto.
  - apply sim_findclass; auto.
  - apply sim_vsfind; auto.
  - apply sim_vsfindclass; auto.
  - apply sim_getvgroupsf; auto.
  - apply sim_getvgroupsg; auto.
  - apply sim_getvdatasf; auto.
  - apply sim_getvdatasg; auto.
  - apply sim_vhmakegroup; auto.
  - apply sim_ventries; auto.
  - apply sim_querytag; auto.
  - apply sim_gisinternal; auto.
  - apply sim_flocate; auto.
  - apply sim_countvgroupsf; auto.
  - apply sim_countvgroupsg; auto.
  - apply sim_getnext; auto.
  - apply sim_msize; auto.
  - apply sim_rawvg; auto.
  - apply sim_putraw; auto.
Qed.

(** the results of a whole history, on the specification and on the model *)
Fixpoint s_trace (s : state) (ops : list op) : list res :=
  match ops with [] => [] | o :: r => snd (step s o) :: s_trace (fst (step s o)) r end.
Fixpoint m_trace (m : mstate) (ops : list op) : list res :=
  match ops with [] => [] | o :: r => snd (mstep m o) :: m_trace (fst (mstep m o)) r end.
(** agreement up to the first operation outside the property's domain; [RNoSpec] results are not compared *)
Fixpoint traces_agree (rs rm : list res) : Prop :=
  match rs, rm with
  | [], [] => True
  | RUnspec :: _, _ :: _ => True
  | x :: rs', y :: rm' => res_agree x y /\ traces_agree rs' rm'
  | _, _ => False
  end.

Lemma graph_refines_from : forall ops m, Inv m -> traces_agree (s_trace (abs_state m) ops) (m_trace m ops).
Proof.
  induction ops as [|o ops]; intros m I; cbn [s_trace m_trace traces_agree]; auto.
  destruct (step_sim m o I) as [U|(I' & A' & R')].
  - rewrite U. exact Logic.I.
  - destruct (snd (step (abs_state m) o)) eqn:E; try exact Logic.I;
      (split; [exact R'|rewrite <- A'; apply IHops; exact I']).
Qed.

(* ================================================================================================== *)
(** * Vdetach leaves exactly the packed record in the file *)

(** whatever the element held before -- nothing, a shorter record, a longer record -- after Vdetach of a marked
    vgroup it is exactly vpackvg's bytes (length = the size vpackvg reported), the write cannot fail, and Load_vfile
    reads the same vgroup back *)
Lemma detach_exact_lemma : forall file g r, WFpack g -> oref g = r -> StronglySorted Z.lt (keys file) ->
  marked g = true -> (new_vg g = true -> tget r file = None) ->
  write_fails file g = false /\
  tget r (fst (write_back file g)) = Some (snd (vpackvg g)) /\
  length (snd (vpackvg g)) = packed_size g /\
  vunpackvg r (snd (vpackvg g)) = Some (reloaded g) /\
  core (reloaded g) = core g /\
  (forall k, k <> r -> tget k (fst (write_back file g)) = tget k file).
Proof.
  intros file g r P O S Mk Nw.
  pose proof (write_back_spec file g r P O S ltac:(intro X; congruence) Nw) as WB.
  destruct (write_back file g) as [f g']. cbn [fst].
  destruct WB as (_ & _ & _ & _ & _ & _ & _ & Fo & _ & _ & WF & Ex).
  split; [exact WF|]. split; [exact (Ex Mk)|]. split; [apply vpackvg_length; auto|].
  split; [rewrite <- O; apply pack_roundtrip_lemma; auto|]. split; [apply reloaded_core; auto|exact Fo].
Qed.

(** the invariant travels along every history that stays inside the property's domain *)
Fixpoint m_final (m : mstate) (ops : list op) : mstate :=
  match ops with [] => m | o :: r => m_final (fst (mstep m o)) r end.
Fixpoint in_domain (rs : list res) : Prop :=
  match rs with [] => True | RUnspec :: _ => False | _ :: r => in_domain r end.

Lemma reachable_Inv : forall ops m, Inv m -> in_domain (s_trace (abs_state m) ops) -> Inv (m_final m ops).
Proof.
  induction ops as [|o ops]; intros m I D; cbn [m_final]; auto.
  cbn [s_trace in_domain] in D.
  destruct (step_sim m o I) as [U|(I' & A' & _)].
  - rewrite U in D. contradiction.
  - apply IHops; auto. rewrite A'. destruct (snd (step (abs_state m) o)); auto; contradiction.
Qed.

(** ... so in every state reached from the empty file, each vgroup that is not being edited is in the file as exactly
    the packed record of a storable vgroup with the same name, class and members, and reloading it gives them back *)
Lemma store_exact_on_histories : forall ops, in_domain (s_trace init ops) ->
  forall k g, tget k (m_vg (m_final minit ops)) = Some g -> marked g = false ->
  exists g0, WFpack g0 /\ oref g0 = k /\ core g0 = core g /\
             tget k (m_file (m_final minit ops)) = Some (snd (vpackvg g0)) /\
             length (snd (vpackvg g0)) = packed_size g0 /\
             vunpackvg k (snd (vpackvg g0)) = Some (reloaded g0) /\ core (reloaded g0) = core g.
Proof.
  intros ops D k g E Mk. pose proof (reachable_Inv ops minit Inv_init D) as I.
  destruct (i_sv _ I k g E Mk) as (g0 & P0 & O0 & T0 & C0). exists g0.
  split; [exact P0|]. split; [exact O0|]. split; [exact C0|]. split; [exact T0|].
  split; [apply vpackvg_length; auto|]. split; [rewrite <- O0; apply pack_roundtrip_lemma; auto|].
  rewrite reloaded_core by auto. exact C0.
Qed.

(** why Vdetach must invalidate the old descriptor first: written in place over the record of "station_A1", the one
    byte shorter record of "station_B" keeps the old length, Load_vfile then finds the version field one byte off
    (0x0300) and does not decode the vgroup *)
Definition ex_station (nm : bytes) : VGROUP := set_name (new_vgroup 9) (set_string nm).
Definition ex_name_a1 : bytes := [115; 116; 97; 116; 105; 111; 110; 95; 65; 49].
Definition ex_name_b : bytes := [115; 116; 97; 116; 105; 111; 110; 95; 66].

Lemma in_place_write_refuted_lemma :
  exists g0 g, WFpack g0 /\ WFpack g /\ oref g0 = oref g /\
    match Hputelement (Some (snd (vpackvg g0))) (snd (vpackvg g)) with
    | Some e => length e = length (snd (vpackvg g0)) /\ vunpackvg (oref g) e <> Some (reloaded g)
    | None => False
    end.
Proof.
  exists (ex_station ex_name_a1), (ex_station ex_name_b).
  split; [apply (set_name_pack (new_vgroup 9) ex_name_a1 (WFpack_new 9)); [reflexivity|vm_compute; discriminate]|].
  split; [apply (set_name_pack (new_vgroup 9) ex_name_b (WFpack_new 9)); [reflexivity|vm_compute; discriminate]|].
  split; [reflexivity|]. vm_compute. split; [reflexivity|discriminate].
Qed.


(** ... and so it changes nothing the model state stands for: a call the specification refuses (over-long name,
    duplicate Vinsert, absent member, 65536th member, missing object, read-only vgroup ...) leaves name, class, members
    and tables of every vgroup as they were *)
Lemma model_refused_changes_nothing_lemma : forall m o, Inv m -> snd (VGraphSpec.step (abs_state m) o) = RFail ->
  abs_state (fst (mstep m o)) = abs_state m /\ snd (mstep m o) = RFail /\ Inv (fst (mstep m o)).
Proof.
  intros m o I F. destruct (step_sim m o I) as [U|(I' & A' & R')]; [congruence|].
  split; [rewrite A'; apply spec_refused_changes_nothing_lemma; exact F|].
  split; [|exact I']. destruct R' as [R'|R']; congruence.
Qed.
