(** C06 -- proofs about ConvModel.v.  The loop bodies come from gen/Gen_Conv.v;
    [loops_canonical_*] ties each generated body to a canonical shape by
    [reflexivity], the general theorems are proved about the shapes for every
    width. *)
From Coq Require Import ZArith List Bool String Lia FinFun.
Require Import H4.ConvLang H4.gen.Gen_Conv H4.ConvModel.
Import ListNotations.
Local Open Scope Z_scope.

Definition zseq (w : Z) : list Z := map Z.of_nat (seq 0 (Z.to_nat w)).

Lemma zseq_range w k : In k (zseq w) -> 0 <= k < w.
Proof.
  unfold zseq. rewrite in_map_iff. intros [i [<- Hi]]. apply in_seq in Hi. lia.
Qed.

Lemma zseq_in w k : 0 <= k < w -> In k (zseq w).
Proof.
  intros H. unfold zseq. apply in_map_iff. exists (Z.to_nat k). split; [lia|]. apply in_seq. lia.
Qed.

Lemma upd_eq m a v : upd m a v a = v.
Proof. unfold upd. now rewrite Z.eqb_refl. Qed.
Lemma upd_neq m a v x : x <> a -> upd m a v x = m x.
Proof. unfold upd. intros H. destruct (Z.eqb_spec x a); congruence. Qed.

(** the abstract store of one element: dest byte k := m0 (s + p k) *)
Definition store_elem (p : Z -> Z) (m0 : mem) (s d : Z) (ks : list Z) (m : mem) : mem :=
  fold_left (fun mm k => upd mm (d + k) (m0 (s + p k))) ks m.

Lemma store_elem_outside p m0 s d ks : forall m a,
  (forall k, In k ks -> a <> d + k) -> store_elem p m0 s d ks m a = m a.
Proof.
  induction ks as [|k ks IH]; intros m a H; cbn; [reflexivity|].
  unfold store_elem in *. rewrite IH by (intros; apply H; now right).
  apply upd_neq. apply H. now left.
Qed.

Lemma store_elem_ext p m0 s d ks : forall m1 m2,
  (forall a, m1 a = m2 a) -> forall a, store_elem p m0 s d ks m1 a = store_elem p m0 s d ks m2 a.
Proof.
  induction ks as [|k ks IH]; intros m1 m2 H a; cbn; [apply H|].
  apply IH. intros x. unfold upd. destruct (x =? d + k); auto.
Qed.

Lemma store_elem_src_ext p m0 m0' s d ks : forall m,
  (forall k, In k ks -> m0 (s + p k) = m0' (s + p k)) ->
  forall a, store_elem p m0 s d ks m a = store_elem p m0' s d ks m a.
Proof.
  induction ks as [|k ks IH]; intros m H a; cbn; [reflexivity|].
  rewrite H by now left. apply IH. intros; apply H; now right.
Qed.

Lemma store_elem_inside p m0 s d ks : NoDup ks -> forall m k,
  In k ks -> store_elem p m0 s d ks m (d + k) = m0 (s + p k).
Proof.
  induction 1 as [|k0 ks Hn Hd IH]; intros m k Hk; [contradiction|].
  cbn. destruct Hk as [->|Hk].
  - fold (store_elem p m0 s d ks (upd m (d + k) (m0 (s + p k)))).
    rewrite store_elem_outside; [apply upd_eq|].
    intros k' Hk' E. assert (k = k') by lia. subst. contradiction.
  - apply IH; assumption.
Qed.

Lemma zseq_nodup w : NoDup (zseq w).
Proof.
  unfold zseq. apply FinFun.Injective_map_NoDup; [|apply seq_NoDup].
  intros x y H. lia.
Qed.

(** ---- canonical loop bodies --------------------------------------------- *)

Definition direct_body (w : Z) (swap : bool) (di si : option Z) : list stmt :=
  map (fun k => Asg (Dst k) (Src (perm w swap k))) (zseq w) ++ [IncD di; IncS si].
Definition buf_body (w : Z) (swap : bool) (di si : option Z) : list stmt :=
  map (fun k => Asg (Buf k) (Src (perm w swap k))) (zseq w) ++
  map (fun k => Asg (Dst k) (Buf k)) (zseq w) ++ [IncD di; IncS si].

Definition swap_loops (w : Z) : list (Z * list stmt) :=
  [(0, direct_body w true (Some w) (Some w)); (0, buf_body w true (Some w) (Some w));
   (0, direct_body w true None None); (0, buf_body w true None None)].
Definition nat_loops (w : Z) : list (Z * list stmt) :=
  [(0, direct_body w false None None); (0, buf_body w false None None)].

(** The tie to the generated code: the bodies extracted from the C source ARE the canonical ones. *)
Lemma loops_canonical_sb2b : DFKsb2b_loops = swap_loops 2. Proof. reflexivity. Qed.
Lemma loops_canonical_sb4b : DFKsb4b_loops = swap_loops 4. Proof. reflexivity. Qed.
Lemma loops_canonical_sb8b : DFKsb8b_loops = swap_loops 8. Proof. reflexivity. Qed.
Lemma loops_canonical_nb2b : DFKnb2b_loops = nat_loops 2. Proof. reflexivity. Qed.
Lemma loops_canonical_nb4b : DFKnb4b_loops = nat_loops 4. Proof. reflexivity. Qed.
Lemma loops_canonical_nb8b : DFKnb8b_loops = nat_loops 8. Proof. reflexivity. Qed.
Lemma loops_canonical_nb1b : DFKnb1b_loops = [(1, [IncD None; IncS None; Asg (Dst 0) (Src 0)])].
Proof. reflexivity. Qed.

Definition fast00 (ss ds : Z) : Z := if (ss =? 0) && (ds =? 0) then 1 else 0.
Definition fastw (w ss ds : Z) : Z :=
  if ((ss =? 0) && (ds =? 0)) || ((ss =? w) && (ds =? w)) then 1 else 0.

Lemma fast_sb2b ss ds : DFKsb2b_fastcond ss ds = fast00 ss ds.
Proof. unfold DFKsb2b_fastcond, fast00. destruct (ss =? 0), (ds =? 0); reflexivity. Qed.
Lemma fast_sb4b ss ds : DFKsb4b_fastcond ss ds = fast00 ss ds.
Proof. unfold DFKsb4b_fastcond, fast00. destruct (ss =? 0), (ds =? 0); reflexivity. Qed.
Lemma fast_sb8b ss ds : DFKsb8b_fastcond ss ds = fast00 ss ds.
Proof. unfold DFKsb8b_fastcond, fast00. destruct (ss =? 0), (ds =? 0); reflexivity. Qed.
Lemma fast_nb1b ss ds : DFKnb1b_fastcond ss ds = fastw 1 ss ds.
Proof. unfold DFKnb1b_fastcond, fastw. destruct (ss =? 0), (ds =? 0), (ss =? 1), (ds =? 1); reflexivity. Qed.
Lemma fast_nb2b ss ds : DFKnb2b_fastcond ss ds = fastw 2 ss ds.
Proof. unfold DFKnb2b_fastcond, fastw. destruct (ss =? 0), (ds =? 0), (ss =? 2), (ds =? 2); reflexivity. Qed.
Lemma fast_nb4b ss ds : DFKnb4b_fastcond ss ds = fastw 4 ss ds.
Proof. unfold DFKnb4b_fastcond, fastw. destruct (ss =? 0), (ds =? 0), (ss =? 4), (ds =? 4); reflexivity. Qed.
Lemma fast_nb8b ss ds : DFKnb8b_fastcond ss ds = fastw 8 ss ds.
Proof. unfold DFKnb8b_fastcond, fastw. destruct (ss =? 0), (ds =? 0), (ss =? 8), (ds =? 8); reflexivity. Qed.

Lemma memcpy_len_nb1b n : DFKnb1b_memcpy_len n = [n * 1].
Proof. unfold DFKnb1b_memcpy_len. now rewrite Z.mul_1_r. Qed.
Lemma memcpy_len_nb2b n : DFKnb2b_memcpy_len n = [n * 2]. Proof. reflexivity. Qed.
Lemma memcpy_len_nb4b n : DFKnb4b_memcpy_len n = [n * 4]. Proof. reflexivity. Qed.
Lemma memcpy_len_nb8b n : DFKnb8b_memcpy_len n = [n * 8]. Proof. reflexivity. Qed.

(** ---- one loop body ------------------------------------------------------ *)

Section Body.
  Variables (w : Z) (swap : bool) (ss ds : Z).
  Hypothesis Hw : 0 < w.
  Let p := perm w swap.

  Lemma perm_range k : 0 <= k < w -> 0 <= p k < w.
  Proof. unfold p, perm. destruct swap; lia. Qed.

  Definition inc (v : option Z) (dflt : Z) : Z := match v with Some n => n | None => dflt end.

  (** direct stores: sound when source and destination element do not overlap *)
  Lemma direct_stores ks : forall m b s d,
    (forall k, In k ks -> 0 <= k < w) -> (d + w <= s \/ s + w <= d) ->
    let st' := fold_left (exec1 ss ds) (map (fun k => Asg (Dst k) (Src (p k))) ks) (mkst m b s d) in
    S st' = s /\ D st' = d /\ B st' = b /\ forall a, M st' a = store_elem p m s d ks m a.
  Proof.
    induction ks as [|k ks IH]; intros m b s d Hr Hdis; cbn.
    - repeat split.
    - cbn in IH. specialize (IH (upd m (d + k) (m (s + p k))) b s d).
      destruct IH as (HS & HD & HB & HM); [intros; apply Hr; now right | assumption |].
      repeat split; try assumption.
      intros a. rewrite HM.
      fold (store_elem p m s d ks (upd m (d + k) (m (s + p k)))).
      apply store_elem_src_ext. intros k' Hk'.
      apply upd_neq. assert (0 <= k < w) by (apply Hr; now left).
      assert (0 <= p k' < w) by (apply perm_range, Hr; now right). lia.
  Qed.

  (** buffered stores: phase 1 fills the buffer *)
  Lemma buf_fill ks : forall m b s d,
    let st' := fold_left (exec1 ss ds) (map (fun k => Asg (Buf k) (Src (p k))) ks) (mkst m b s d) in
    S st' = s /\ D st' = d /\ (forall a, M st' a = m a) /\
    (forall k, In k ks -> B st' k = m (s + p k)) /\ (forall k, ~ In k ks -> B st' k = b k).
  Proof.
    induction ks as [|k ks IH]; intros m b s d; cbn.
    - repeat split; intros; contradiction.
    - cbn in IH. specialize (IH m (upd b k (m (s + p k))) s d).
      destruct IH as (HS & HD & HM & HB1 & HB2).
      repeat split; try assumption.
      + intros k' [->|Hk'].
        * destruct (in_dec Z.eq_dec k' ks) as [Hi|Hn]; [now apply HB1|].
          rewrite HB2 by assumption. apply upd_eq.
        * now apply HB1.
      + intros k' Hk'. rewrite HB2 by (intros C; apply Hk'; now right).
        apply upd_neq. intros ->. apply Hk'. now left.
  Qed.

  (** phase 2 drains it *)
  Lemma buf_drain ks : forall m b s d,
    let st' := fold_left (exec1 ss ds) (map (fun k => Asg (Dst k) (Buf k)) ks) (mkst m b s d) in
    S st' = s /\ D st' = d /\ B st' = b /\
    forall a, M st' a = fold_left (fun mm k => upd mm (d + k) (b k)) ks m a.
  Proof.
    induction ks as [|k ks IH]; intros m b s d; cbn.
    - repeat split.
    - cbn in IH. apply IH.
  Qed.

  Lemma drain_as_store ks m0 s d b : (forall k, In k ks -> b k = m0 (s + p k)) ->
    forall m a, fold_left (fun mm k => upd mm (d + k) (b k)) ks m a = store_elem p m0 s d ks m a.
  Proof.
    induction ks as [|k ks IH]; intros Hb m a; cbn; [reflexivity|].
    rewrite Hb by now left. apply IH. intros; apply Hb; now right.
  Qed.

  Definition body_ok (body : list stmt) (buffered : bool) (se de : Z) : Prop :=
    forall m b s d, (buffered = true \/ d + w <= s \/ s + w <= d) ->
      let st' := exec_body ss ds body (mkst m b s d) in
      S st' = s + se /\ D st' = d + de /\ forall a, M st' a = store_elem p m s d (zseq w) m a.

  Lemma exec_app l1 l2 st0 : exec_body ss ds (l1 ++ l2) st0 = exec_body ss ds l2 (exec_body ss ds l1 st0).
  Proof. unfold exec_body. apply fold_left_app. Qed.

  Lemma direct_body_ok di si : body_ok (direct_body w swap di si) false (inc si ss) (inc di ds).
  Proof.
    intros m b s d [H|H]; [discriminate|].
    unfold direct_body. rewrite exec_app. fold p.
    pose proof (direct_stores (zseq w) m b s d (zseq_range w) H) as HH. cbv zeta in HH.
    unfold exec_body.
    destruct (fold_left (exec1 ss ds) (map (fun k => Asg (Dst k) (Src (p k))) (zseq w)) (mkst m b s d))
      as [m1 b1 s1 d1].
    cbn in HH. destruct HH as (-> & -> & -> & HM). cbn. split; [|split].
    - destruct si; reflexivity.
    - destruct di; reflexivity.
    - exact HM.
  Qed.

  Lemma buf_body_ok di si : body_ok (buf_body w swap di si) true (inc si ss) (inc di ds).
  Proof.
    intros m b s d _.
    unfold buf_body. rewrite !exec_app. fold p.
    pose proof (buf_fill (zseq w) m b s d) as HH. cbv zeta in HH.
    unfold exec_body.
    destruct (fold_left (exec1 ss ds) (map (fun k => Asg (Buf k) (Src (p k))) (zseq w)) (mkst m b s d))
      as [m1 b1 s1 d1].
    cbn in HH. destruct HH as (-> & -> & HM & HB1 & _).
    pose proof (buf_drain (zseq w) m1 b1 s d) as HH2. cbv zeta in HH2.
    destruct (fold_left (exec1 ss ds) (map (fun k => Asg (Dst k) (Buf k)) (zseq w)) (mkst m1 b1 s d))
      as [m2 b2 s2 d2].
    cbn in HH2. destruct HH2 as (-> & -> & -> & HM2). cbn. split; [|split].
    - destruct si; reflexivity.
    - destruct di; reflexivity.
    - intros a. rewrite HM2. rewrite (drain_as_store (zseq w) m s d b1 HB1).
      apply store_elem_ext. assumption.
  Qed.
End Body.

Lemma direct_body1_ok ss ds di si :
  body_ok 1 false ss ds (direct_body 1 false di si) true (inc si ss) (inc di ds).
Proof.
  intros m b s d _. unfold direct_body, exec_body, store_elem, zseq. cbn.
  split; [|split]; try reflexivity.
Qed.

(** ---- the element loop --------------------------------------------------- *)

Section Loop.
  Variables (w : Z) (swap : bool) (ss ds se de : Z).
  Hypothesis Hw : 0 < w.
  Let p := perm w swap.

  (** later source elements are not clobbered by a write to [d, d+w) *)
  Fixpoint later_ok (n : nat) (s' d : Z) : Prop :=
    match n with O => True | Datatypes.S k => (d + w <= s' \/ s' + w <= d) /\ later_ok k (s' + se) d end.

  Fixpoint safe (n : nat) (buffered : bool) (s d : Z) : Prop :=
    match n with
    | O => True
    | Datatypes.S k => (buffered = true \/ d + w <= s \/ s + w <= d) /\ later_ok k (s + se) d /\
                       safe k buffered (s + se) (d + de)
    end.

  Fixpoint agree (n : nat) (s : Z) (m m0 : mem) : Prop :=
    match n with O => True | Datatypes.S k => (forall j, 0 <= j < w -> m (s + j) = m0 (s + j)) /\ agree k (s + se) m m0 end.

  Lemma agree_after_store n : forall s' d m m1 m0,
    later_ok n s' d -> (forall a, ~ (d <= a < d + w) -> m1 a = m a) -> agree n s' m m0 -> agree n s' m1 m0.
  Proof.
    induction n as [|n IH]; intros s' d m m1 m0 Hl Ho Ha; cbn in *; [exact I|].
    destruct Hl as [Hd Hl], Ha as [Ha1 Ha2]. split.
    - intros j Hj. rewrite Ho by lia. now apply Ha1.
    - eapply IH; eauto.
  Qed.

  Lemma spec_conv_ext n : forall m0 m1 m2 s d,
    (forall a, m1 a = m2 a) -> forall a, spec_conv n w swap m0 m1 s d se de a = spec_conv n w swap m0 m2 s d se de a.
  Proof.
    induction n as [|n IH]; intros m0 m1 m2 s d H a; cbn; [apply H|].
    apply IH. intros x. apply (store_elem_ext (perm w swap) m0 s d). assumption.
  Qed.

  Lemma loop_correct body buffered : body_ok w swap ss ds body buffered se de ->
    forall n m0 m b s d, safe n buffered s d -> agree n s m m0 ->
      forall a, M (iter n ss ds body (mkst m b s d)) a = spec_conv n w swap m0 m s d se de a.
  Proof.
    intros Hb. induction n as [|n IH]; intros m0 m b s d Hs Ha a; cbn; [reflexivity|].
    cbn in Hs, Ha. destruct Hs as (H1 & H2 & H3), Ha as (Ha1 & Ha2).
    destruct (Hb m b s d H1) as (HS & HD & HM).
    destruct (exec_body ss ds body (mkst m b s d)) as [m1 b1 s1 d1]. cbn in HS, HD, HM. subst s1 d1.
    assert (Hm1 : forall x, m1 x = store_elem (perm w swap) m0 s d (zseq w) m x).
    { intros x. rewrite HM. apply store_elem_src_ext. intros k Hk.
      apply Ha1. apply zseq_range in Hk. unfold perm. destruct swap; lia. }
    rewrite (IH m0 m1 b1 (s + se) (d + de) H3).
    - apply spec_conv_ext. exact Hm1.
    - eapply agree_after_store; [exact H2| |exact Ha2].
      intros x Hx. rewrite Hm1. apply store_elem_outside.
      intros k Hk. apply zseq_range in Hk. lia.
  Qed.

  Lemma agree_refl n : forall s m, agree n s m m.
  Proof. induction n; intros; cbn; auto. Qed.
End Loop.

(** ---- from the closed-form domain to the recursive side conditions -------- *)

Lemma later_ok_above w se n : forall s' d, 0 <= se -> d + w <= s' -> later_ok w se n s' d.
Proof. induction n as [|n IH]; intros s' d Hse H; cbn; [exact I|]. split; [lia|]. apply IH; lia. Qed.

Lemma later_ok_below w se n : forall s' d, 0 <= se ->
  s' + (Z.of_nat n - 1) * se + w <= d -> later_ok w se n s' d.
Proof.
  induction n as [|n IH]; intros s' d Hse H; cbn; [exact I|].
  assert (0 <= Z.of_nat n * se) by (apply Z.mul_nonneg_nonneg; lia).
  split; [lia|]. apply IH; lia.
Qed.

(** in place, destination stride <= source stride: the source cursor stays at or ahead of the destination *)
Lemma safe_inplace_pack w se de n : forall s d buffered, 0 < w -> w <= de -> de <= se -> buffered = true ->
  d <= s -> safe w se de n buffered s d.
Proof.
  induction n as [|n IH]; intros s d b Hw Hde Hse Hb Hds; cbn; [exact I|].
  split; [now left|]. split; [apply later_ok_above; lia|]. apply IH; try assumption. lia.
Qed.

Lemma safe_inplace w se n : forall s buffered, 0 < w -> w <= se -> buffered = true ->
  safe w se se n buffered s s.
Proof. intros s b Hw Hse Hb. apply safe_inplace_pack; try assumption; lia. Qed.

Lemma safe_dest_below w se de n : forall s d buffered, 0 < w -> w <= se -> w <= de ->
  d + (Z.of_nat n - 1) * de + w <= s -> safe w se de n buffered s d.
Proof.
  induction n as [|n IH]; intros s d b Hw Hse Hde H; cbn; [exact I|].
  assert (0 <= Z.of_nat n * de) by (apply Z.mul_nonneg_nonneg; lia).
  split; [right; left; lia|]. split; [apply later_ok_above; lia|]. apply IH; lia.
Qed.

Lemma safe_src_below w se de n : forall s d buffered, 0 < w -> w <= se -> w <= de ->
  s + (Z.of_nat n - 1) * se + w <= d -> safe w se de n buffered s d.
Proof.
  induction n as [|n IH]; intros s d b Hw Hse Hde H; cbn; [exact I|].
  assert (0 <= Z.of_nat n * se) by (apply Z.mul_nonneg_nonneg; lia).
  split; [right; right; lia|]. split; [apply later_ok_below; lia|]. apply IH; lia.
Qed.

(** ---- memcpy (native fast path) ---------------------------------------- *)

Lemma memcpy_n_spec n : forall m0 m d s a,
  memcpy_n n m0 m d s a = if (d <=? a) && (a <? d + Z.of_nat n) then m0 (s + (a - d)) else m a.
Proof.
  induction n as [|n IH]; intros m0 m d s a.
  - cbn. destruct (d <=? a) eqn:E1, (a <? d + 0) eqn:E2; try reflexivity; lia.
  - cbn [memcpy_n]. rewrite IH. unfold upd.
    destruct (Z.leb_spec (d + 1) a), (Z.ltb_spec a (d + 1 + Z.of_nat n)),
             (Z.leb_spec d a), (Z.ltb_spec a (d + Z.of_nat (Datatypes.S n))), (Z.eqb_spec a d);
      cbn; try lia; try reflexivity; try (f_equal; lia).
Qed.

Lemma elem_inside_raw w swap m0 s d m k : 0 <= k < w ->
  fold_left (fun mm k => upd mm (d + k) (m0 (s + perm w swap k))) (map Z.of_nat (seq 0 (Z.to_nat w))) m (d + k)
  = m0 (s + perm w swap k).
Proof.
  intros Hk. apply (store_elem_inside (perm w swap) m0 s d (zseq w) (zseq_nodup w)). now apply zseq_in.
Qed.

Lemma elem_outside_raw w swap m0 s d m a : ~ (d <= a < d + w) ->
  fold_left (fun mm k => upd mm (d + k) (m0 (s + perm w swap k))) (map Z.of_nat (seq 0 (Z.to_nat w))) m a = m a.
Proof.
  intros Ha. apply (store_elem_outside (perm w swap) m0 s d (zseq w)).
  intros k Hk. apply zseq_range in Hk. lia.
Qed.

(** closed form of the specification: element i, byte k *)
Lemma spec_conv_outside w swap se de n : forall m0 m s d a, 0 < w -> w <= de ->
  (a < d \/ d + (Z.of_nat n - 1) * de + w <= a) -> spec_conv n w swap m0 m s d se de a = m a.
Proof.
  induction n as [|n IH]; intros m0 m s d a Hw Hde Ha; cbn; [reflexivity|].
  assert (0 <= Z.of_nat n * de) by (apply Z.mul_nonneg_nonneg; lia).
  rewrite IH by lia.
  apply (store_elem_outside (perm w swap) m0 s d). intros k Hk. apply zseq_range in Hk. lia.
Qed.

Lemma spec_conv_elem w swap se de n : forall m0 m s d i k, 0 < w -> w <= de ->
  (i < n)%nat -> 0 <= k < w ->
  spec_conv n w swap m0 m s d se de (d + Z.of_nat i * de + k) = m0 (s + Z.of_nat i * se + perm w swap k).
Proof.
  induction n as [|n IH]; intros m0 m s d i k Hw Hde Hi Hk; [lia|]. cbn.
  destruct i as [|i].
  - rewrite spec_conv_outside by lia.
    replace (d + Z.of_nat 0 * de + k) with (d + k) by lia.
    replace (s + Z.of_nat 0 * se + perm w swap k) with (s + perm w swap k) by lia.
    apply (store_elem_inside (perm w swap) m0 s d (zseq w) (zseq_nodup w)). now apply zseq_in.
  - replace (d + Z.of_nat (Datatypes.S i) * de + k) with ((d + de) + Z.of_nat i * de + k) by lia.
    replace (s + Z.of_nat (Datatypes.S i) * se + perm w swap k) with ((s + se) + Z.of_nat i * se + perm w swap k) by lia.
    apply IH; lia.
Qed.

Lemma spec_conv_unchanged w swap se de n : forall m0 m s d a, 0 < w -> w <= de ->
  (forall i k, (i < n)%nat -> 0 <= k < w -> a <> d + Z.of_nat i * de + k) ->
  spec_conv n w swap m0 m s d se de a = m a.
Proof.
  induction n as [|n IH]; intros m0 m s d a Hw Hde Ha; cbn; [reflexivity|].
  rewrite IH; try assumption.
  - apply (store_elem_outside (perm w swap) m0 s d). intros k Hk. apply zseq_range in Hk.
    specialize (Ha O k). lia.
  - intros i k Hi Hk. specialize (Ha (Datatypes.S i) k). lia.
Qed.

(** ---- routines ---------------------------------------------------------- *)

Definition eff_se (w ss ds : Z) := fst (eff w ss ds).
Definition eff_de (w ss ds : Z) := snd (eff w ss ds).

Lemma in_domain_elim w s d n ss ds : in_domain w s d n ss ds = true ->
  let se := eff_se w ss ds in let de := eff_de w ss ds in
  w <= se /\ w <= de /\ 0 < n /\
  ((s = d /\ de <= se) \/ d + (n - 1) * de + w <= s \/ s + (n - 1) * se + w <= d).
Proof.
  unfold in_domain, eff_se, eff_de. destruct (eff w ss ds) as [se de]. cbn.
  rewrite !andb_true_iff, !orb_true_iff, !andb_true_iff. lia.
Qed.

Lemma domain_safe w s d n ss ds buffered : 0 < w -> in_domain w s d n ss ds = true ->
  (buffered = true \/ s <> d) ->
  safe w (eff_se w ss ds) (eff_de w ss ds) (Z.to_nat n) buffered s d.
Proof.
  intros Hw Hd Hb. apply in_domain_elim in Hd. cbn in Hd.
  destruct Hd as (H1 & H2 & H3 & [[-> E]|[H4|H4]]).
  - destruct Hb as [Hb|Hb]; [|congruence]. apply safe_inplace_pack; try assumption; lia.
  - apply safe_dest_below; try assumption. rewrite Z2Nat.id by lia. exact H4.
  - apply safe_src_below; try assumption. rewrite Z2Nat.id by lia. exact H4.
Qed.

Definition routine_spec (r : rid) : Prop :=
  forall m s d n ss ds, in_domain (rwidth r) s d n ss ds = true ->
    exists m', run_routine (routine_of r) m s d n ss ds = Some m' /\
      forall a, m' a = spec_conv (Z.to_nat n) (rwidth r) (rswap r) m m s d
                         (eff_se (rwidth r) ss ds) (eff_de (rwidth r) ss ds) a.

Lemma run_loop_correct w swap ss ds (buffered : bool) di si m s d n :
  0 < w ->
  inc si ss = eff_se w ss ds -> inc di ds = eff_de w ss ds ->
  in_domain w s d n ss ds = true -> (buffered = true \/ s <> d) ->
  exists m',
    run_loop (Some (0, if buffered then buf_body w swap di si else direct_body w swap di si)) m s d n ss ds = Some m' /\
    forall a, m' a = spec_conv (Z.to_nat n) w swap m m s d (eff_se w ss ds) (eff_de w ss ds) a.
Proof.
  intros Hw Es Ed Hd Hb. cbn [run_loop]. eexists. split; [reflexivity|].
  rewrite Z.sub_0_r. intros a. rewrite <- Es, <- Ed.
  pose proof (domain_safe w s d n ss ds buffered Hw Hd Hb) as Hs. rewrite <- Es, <- Ed in Hs.
  destruct buffered.
  - apply (loop_correct w swap ss ds _ _ _ true (buf_body_ok w swap ss ds di si)); [exact Hs|apply agree_refl].
  - apply (loop_correct w swap ss ds _ _ _ false (direct_body_ok w swap ss ds di si)); [exact Hs|apply agree_refl].
Qed.

Lemma in_domain_npos w s d n ss ds : in_domain w s d n ss ds = true -> 0 < n.
Proof. intros H. apply in_domain_elim in H. cbn in H. lia. Qed.

(** swap routines *)
Lemma swap_routine_correct r w :
  0 < w -> r_loops r = swap_loops w ->
  (forall ss ds, r_fast r ss ds = fast00 ss ds) ->
  forall m s d n ss ds, in_domain w s d n ss ds = true ->
    exists m', run_swap r m s d n ss ds = Some m' /\
      forall a, m' a = spec_conv (Z.to_nat n) w true m m s d (eff_se w ss ds) (eff_de w ss ds) a.
Proof.
  intros Hw Hl Hf m s d n ss ds Hd.
  pose proof (in_domain_npos _ _ _ _ _ _ Hd) as Hn.
  unfold run_swap. destruct (Z.eqb_spec n 0) as [->|_]; [lia|].
  rewrite Hf, Hl. unfold fast00.
  destruct ((ss =? 0) && (ds =? 0)) eqn:Ef; cbn [negb Z.eqb];
    destruct (Z.eqb_spec s d) as [->|Hsd]; cbn [nth_error Nat.add swap_loops].
  - apply (run_loop_correct w true ss ds true (Some w) (Some w)); auto;
      unfold eff_se, eff_de, eff; rewrite Ef; reflexivity.
  - apply (run_loop_correct w true ss ds false (Some w) (Some w)); auto;
      unfold eff_se, eff_de, eff; rewrite Ef; reflexivity.
  - apply (run_loop_correct w true ss ds true None None); auto;
      unfold eff_se, eff_de, eff; rewrite Ef; reflexivity.
  - apply (run_loop_correct w true ss ds false None None); auto;
      unfold eff_se, eff_de, eff; rewrite Ef; reflexivity.
Qed.

(** the native fast path (memcpy / nothing) agrees with the specification too *)
Lemma spec_conv_copy_pointwise w n : forall m0 m s d a, 0 < w ->
  spec_conv n w false m0 m s d w w a =
  if (d <=? a) && (a <? d + Z.of_nat n * w) then m0 (s + (a - d)) else m a.
Proof.
  induction n as [|n IH]; intros m0 m s d a Hw.
  - cbn. destruct (d <=? a) eqn:E1, (a <? d + 0) eqn:E2; try reflexivity; lia.
  - cbn [spec_conv]. rewrite IH by assumption.
    destruct (Z.leb_spec (d + w) a), (Z.ltb_spec a (d + w + Z.of_nat n * w)),
             (Z.leb_spec d a), (Z.ltb_spec a (d + Z.of_nat (Datatypes.S n) * w)); cbn [andb]; try lia.
    all: try (f_equal; lia).
    all: try (apply elem_outside_raw; lia).
    pose proof (elem_inside_raw w false m0 s d m (a - d) ltac:(lia)) as H3.
    replace (d + (a - d)) with a in H3 by lia. rewrite H3. unfold perm. reflexivity.
Qed.

Lemma fast_path_domain w s d n ss ds : 0 < w -> in_domain w s d n ss ds = true ->
  fastw w ss ds <> 0 -> eff_se w ss ds = w /\ eff_de w ss ds = w.
Proof.
  intros Hw _ Hf. unfold fastw in Hf. unfold eff_se, eff_de, eff.
  destruct (Z.eqb_spec ss 0), (Z.eqb_spec ds 0), (Z.eqb_spec ss w), (Z.eqb_spec ds w); cbn in *; try lia; auto.
Qed.

Lemma nat_fast_correct w m s d n ss ds : 0 < w -> in_domain w s d n ss ds = true ->
  fastw w ss ds <> 0 ->
  forall a, (if s =? d then m else memcpy m d s (n * w)) a =
            spec_conv (Z.to_nat n) w false m m s d (eff_se w ss ds) (eff_de w ss ds) a.
Proof.
  intros Hw Hd Hf a.
  destruct (fast_path_domain w s d n ss ds Hw Hd Hf) as [-> ->].
  pose proof (in_domain_npos _ _ _ _ _ _ Hd) as Hn.
  rewrite spec_conv_copy_pointwise by assumption. rewrite Z2Nat.id by lia.
  destruct (Z.eqb_spec s d) as [->|Hsd].
  - destruct ((d <=? a) && (a <? d + n * w)); [f_equal; lia | reflexivity].
  - unfold memcpy. rewrite memcpy_n_spec. rewrite Z2Nat.id by nia. reflexivity.
Qed.

Lemma nat_routine_correct r w :
  0 < w -> r_loops r = nat_loops w ->
  (forall ss ds, r_fast r ss ds = fastw w ss ds) ->
  (forall n, r_memcpy r n = [n * w]) ->
  forall m s d n ss ds, in_domain w s d n ss ds = true ->
    exists m', run_nat r m s d n ss ds = Some m' /\
      forall a, m' a = spec_conv (Z.to_nat n) w false m m s d (eff_se w ss ds) (eff_de w ss ds) a.
Proof.
  intros Hw Hl Hf Hmc m s d n ss ds Hd.
  pose proof (in_domain_npos _ _ _ _ _ _ Hd) as Hn.
  unfold run_nat. destruct (Z.eqb_spec n 0) as [->|_]; [lia|].
  rewrite Hf, Hl, Hmc.
  destruct (Z.eqb_spec (fastw w ss ds) 0) as [E|E]; cbn [negb].
  - (* strided *)
    assert (Ef : (ss =? 0) && (ds =? 0) = false).
    { unfold fastw in E. destruct ((ss =? 0) && (ds =? 0)); [cbn in E; lia | reflexivity]. }
    destruct (Z.eqb_spec s d) as [->|Hsd]; cbn [nth_error nat_loops].
    + apply (run_loop_correct w false ss ds true None None); auto;
        unfold eff_se, eff_de, eff; rewrite Ef; reflexivity.
    + apply (run_loop_correct w false ss ds false None None); auto;
        unfold eff_se, eff_de, eff; rewrite Ef; reflexivity.
  - pose proof (nat_fast_correct w m s d n ss ds Hw Hd E) as H.
    destruct (s =? d); eexists; (split; [reflexivity|exact H]).
Qed.

(** DFKnb1b: "advance, then store" loop after an initial store *)
Lemma incfirst_shift n : forall ss ds m b s d,
  M (iter n ss ds [IncD None; IncS None; Asg (Dst 0) (Src 0)] (mkst m b s d)) =
  M (iter n ss ds (direct_body 1 false None None) (mkst m b (s + ss) (d + ds))).
Proof.
  change (direct_body 1 false None None) with [Asg (Dst 0) (Src 0); IncD None; IncS None].
  induction n as [|n IH]; intros ss ds m b s d; [reflexivity|].
  cbn [iter]. unfold exec_body. cbn. rewrite !Z.add_0_r. apply IH.
Qed.

Lemma nb1b_routine_correct :
  forall m s d n ss ds, in_domain 1 s d n ss ds = true ->
    exists m', run_nat1 R_nb1b m s d n ss ds = Some m' /\
      forall a, m' a = spec_conv (Z.to_nat n) 1 false m m s d (eff_se 1 ss ds) (eff_de 1 ss ds) a.
Proof.
  intros m s d n ss ds Hd.
  pose proof (in_domain_npos _ _ _ _ _ _ Hd) as Hn.
  unfold run_nat1. destruct (Z.eqb_spec n 0) as [->|_]; [lia|].
  cbn [r_fast r_loops r_memcpy R_nb1b]. rewrite fast_nb1b, loops_canonical_nb1b, memcpy_len_nb1b.
  destruct (Z.eqb_spec (fastw 1 ss ds) 0) as [E|E]; cbn [negb].
  - assert (Ef : (ss =? 0) && (ds =? 0) = false).
    { unfold fastw in E. destruct ((ss =? 0) && (ds =? 0)); [cbn in E; lia | reflexivity]. }
    cbn [nth_error run_loop]. eexists. split; [reflexivity|]. intros a.
    rewrite incfirst_shift.
    pose proof (domain_safe 1 s d n ss ds true ltac:(lia) Hd (or_introl eq_refl)) as Hs.
    assert (Hse : eff_se 1 ss ds = ss /\ eff_de 1 ss ds = ds) by (unfold eff_se, eff_de, eff; now rewrite Ef).
    destruct Hse as [Es Ed]. rewrite Es, Ed in *.
    replace (Z.to_nat n) with (Datatypes.S (Z.to_nat (n - 1))) in * by lia.
    cbn [spec_conv]. change (map Z.of_nat (seq 0 (Z.to_nat 1))) with [0]. cbn [fold_left].
    unfold perm at 1. rewrite !Z.add_0_r.
    cbn [safe] in Hs. destruct Hs as (_ & Hl & Hs).
    apply (loop_correct 1 false ss ds ss ds _ true (direct_body1_ok ss ds None None)); [exact Hs|].
    eapply agree_after_store; [exact Hl| |apply agree_refl].
    intros x Hx. apply upd_neq. lia.
  - pose proof (nat_fast_correct 1 m s d n ss ds ltac:(lia) Hd E) as H.
    destruct (s =? d); eexists; (split; [reflexivity|exact H]).
Qed.

Theorem routine_correct : forall r, routine_spec r.
Proof.
  intros r m s d n ss ds Hd. unfold run_routine.
  destruct r; cbn [routine_of r_swap r_width R_sb2b R_sb4b R_sb8b R_nb1b R_nb2b R_nb4b R_nb8b rwidth rswap Z.eqb Pos.eqb] in *.
  - apply (swap_routine_correct R_sb2b 2 ltac:(lia) loops_canonical_sb2b fast_sb2b); assumption.
  - apply (swap_routine_correct R_sb4b 4 ltac:(lia) loops_canonical_sb4b fast_sb4b); assumption.
  - apply (swap_routine_correct R_sb8b 8 ltac:(lia) loops_canonical_sb8b fast_sb8b); assumption.
  - apply nb1b_routine_correct; assumption.
  - apply (nat_routine_correct R_nb2b 2 ltac:(lia) loops_canonical_nb2b fast_nb2b memcpy_len_nb2b); assumption.
  - apply (nat_routine_correct R_nb4b 4 ltac:(lia) loops_canonical_nb4b fast_nb4b memcpy_len_nb4b); assumption.
  - apply (nat_routine_correct R_nb8b 8 ltac:(lia) loops_canonical_nb8b fast_nb8b memcpy_len_nb8b); assumption.
Qed.

(** ---- dispatch ----------------------------------------------------------- *)

Definition dispatch_ok (nt : Z) : bool :=
  match nt_width nt, ntsize nt with
  | Some w, Some w' =>
      (w =? w') && nt_flavour_ok nt &&
      forallb (fun rd => match setnt nt rd with
                         | Some r => (rwidth r =? w) && Bool.eqb (rswap r) (nt_bigendian_file nt && (1 <? w))
                         | None => false end) [true; false]
  | _, _ => false
  end.

Lemma dispatch_all_ok : forallb dispatch_ok supported_nts = true.
Proof. vm_compute. reflexivity. Qed.

Lemma dispatch_total_lemma nt rd : In nt supported_nts ->
  exists w r, nt_width nt = Some w /\ ntsize nt = Some w /\ nt_flavour_ok nt = true /\ setnt nt rd = Some r /\
              rwidth r = w /\ rswap r = (nt_bigendian_file nt && (1 <? w)).
Proof.
  intros Hin. pose proof dispatch_all_ok as H. rewrite forallb_forall in H. specialize (H nt Hin).
  unfold dispatch_ok in H.
  destruct (nt_width nt) as [w|]; [|discriminate]. destruct (ntsize nt) as [w'|]; [|discriminate].
  rewrite !andb_true_iff in H. destruct H as [[Hw Hf] Hall].
  rewrite forallb_forall in Hall. specialize (Hall rd).
  assert (Hr : In rd [true; false]) by (destruct rd; cbn; auto). specialize (Hall Hr).
  destruct (setnt nt rd) as [r|]; [|discriminate].
  apply andb_true_iff in Hall. destruct Hall as [H1 H2].
  apply Z.eqb_eq in Hw, H1. apply Bool.eqb_prop in H2. subst w'.
  exists w, r. repeat split; auto.
Qed.

(** number types outside the supported list are rejected by the generated DFKsetNT switch
    (checked on every value below 2^15 that is not in the list) *)
Definition all_small_nts : list Z := map Z.of_nat (seq 0 (Z.to_nat 32768)).
Lemma dispatch_rejects_others :
  forallb (fun nt => if existsb (Z.eqb nt) supported_nts then true
                     else match setnt nt true, setnt nt false with None, None => true | _, _ => false end)
          all_small_nts = true.
Proof. vm_compute. reflexivity. Qed.

Lemma nt_width_pos nt w : nt_width nt = Some w -> 0 < w.
Proof.
  unfold nt_width. intros Hw.
  repeat match type of Hw with (if ?c then _ else _) = _ => destruct c end; inversion Hw; lia.
Qed.

(** ---- main refinement ---------------------------------------------------- *)

Theorem dfkconvert_refines_spec_lemma :
  forall nt rd m s d n ss ds w,
    In nt supported_nts -> nt_width nt = Some w -> in_domain w s d n ss ds = true ->
    exists m' msp, dfkconvert m s d nt n rd ss ds = Some m' /\
                   spec_convert m s d nt n ss ds = Some msp /\ forall a, m' a = msp a.
Proof.
  intros nt rd m s d n ss ds w Hin Hw Hd.
  destruct (dispatch_total_lemma nt rd Hin) as (w' & r & Hw' & _ & Hfl & Hset & Hrw & Hrs).
  rewrite Hw in Hw'. injection Hw' as <-.
  pose proof (in_domain_npos _ _ _ _ _ _ Hd) as Hn.
  unfold dfkconvert, spec_convert. rewrite Hset, Hw, Hfl. cbn [negb orb].
  destruct (Z.leb_spec n 0) as [|_]; [lia|].
  subst w. destruct (routine_correct r m s d n ss ds Hd) as (m' & Hrun & Hm').
  exists m'. unfold eff_se, eff_de in Hm'. destruct (eff (rwidth r) ss ds) as [se de] eqn:Ee. cbn [fst snd] in Hm'.
  eexists. split; [exact Hrun|]. split; [reflexivity|].
  intros a. rewrite Hm'. rewrite Hrs. reflexivity.
Qed.

(** closed form of what the specification says, so that the spec itself can be read:
    element i, byte k of the destination is byte perm(k) of source element i; every
    other address keeps its value *)
Theorem spec_convert_elementwise_lemma :
  forall nt m s d n ss ds w msp,
    nt_width nt = Some w -> in_domain w s d n ss ds = true ->
    spec_convert m s d nt n ss ds = Some msp ->
    let se := eff_se w ss ds in let de := eff_de w ss ds in
    let sw := nt_bigendian_file nt && (1 <? w) in
    (forall i k, 0 <= i < n -> 0 <= k < w -> msp (d + i * de + k) = m (s + i * se + perm w sw k)) /\
    (forall a, (forall i k, 0 <= i < n -> 0 <= k < w -> a <> d + i * de + k) -> msp a = m a).
Proof.
  intros nt m s d n ss ds w msp Hw Hd Hsp se de sw.
  pose proof (in_domain_elim _ _ _ _ _ _ Hd) as Hel. cbn in Hel.
  assert (Hwpos : 0 < w).
  { unfold nt_width in Hw. repeat match type of Hw with (if ?c then _ else _) = _ => destruct c end;
      inversion Hw; lia. }
  unfold spec_convert in Hsp. rewrite Hw in Hsp.
  destruct (negb (nt_flavour_ok nt) || (n <=? 0)); [discriminate|].
  subst se de. unfold eff_se, eff_de in *. destruct (eff w ss ds) as [se' de'] eqn:Ee. cbn [fst snd] in *.
  injection Hsp as <-.
  split.
  - intros i k Hi Hk. replace i with (Z.of_nat (Z.to_nat i)) by lia.
    apply spec_conv_elem; lia.
  - intros a Ha. apply spec_conv_unchanged; try lia.
    intros i k Hi Hk. apply Ha; lia.
Qed.

(** write-then-read (numout then numin) in place restores every byte *)
Lemma perm_involutive w sw k : perm w sw (perm w sw k) = k.
Proof. unfold perm. destruct sw; lia. Qed.

Theorem convert_roundtrip_lemma :
  forall nt m d n st w m1 m2,
    In nt supported_nts -> nt_width nt = Some w -> in_domain w d d n st st = true ->
    dfkconvert m d d nt n false st st = Some m1 ->
    dfkconvert m1 d d nt n true st st = Some m2 ->
    forall a, m2 a = m a.
Proof.
  intros nt m d n st w m1 m2 Hin Hw Hd H1 H2 a.
  destruct (dfkconvert_refines_spec_lemma nt false m d d n st st w Hin Hw Hd) as (m1' & sp1 & E1 & S1 & P1).
  destruct (dfkconvert_refines_spec_lemma nt true m1 d d n st st w Hin Hw Hd) as (m2' & sp2 & E2 & S2 & P2).
  rewrite H1 in E1. injection E1 as <-. rewrite H2 in E2. injection E2 as <-.
  destruct (spec_convert_elementwise_lemma nt m d d n st st w sp1 Hw Hd S1) as [A1 B1].
  destruct (spec_convert_elementwise_lemma nt m1 d d n st st w sp2 Hw Hd S2) as [A2 B2].
  pose proof (in_domain_elim _ _ _ _ _ _ Hd) as Hel. cbn in Hel.
  set (se := eff_se w st st) in *. set (de := eff_de w st st) in *.
  assert (Esd : se = de) by (unfold se, de, eff_se, eff_de, eff; destruct ((st =? 0) && (st =? 0)); reflexivity).
  set (sw := nt_bigendian_file nt && (1 <? w)) in *.
  (* either a is byte k of some element i, or it is outside *)
  destruct (Z_lt_dec a d) as [Hlt|Hge].
  - rewrite P2, B2, P1, B1; auto; intros i k Hi Hk; assert (0 <= i * de) by (apply Z.mul_nonneg_nonneg; lia); lia.
  - set (i := (a - d) / de). set (k := (a - d) mod de).
    pose proof (nt_width_pos nt w Hw) as Hwpos.
    assert (Hde : 0 < de) by lia.
    assert (Hik : a = d + i * de + k /\ 0 <= k < de /\ 0 <= i).
    { unfold i, k. pose proof (Z.div_mod (a - d) de ltac:(lia)). pose proof (Z.mod_pos_bound (a - d) de Hde).
      assert (0 <= (a - d) / de) by (apply Z.div_pos; lia). lia. }
    destruct Hik as (Ea & Hk & Hi).
    destruct (Z_lt_dec i n) as [Hin'|Hout]; [destruct (Z_lt_dec k w) as [Hkw|Hkw]|].
    + rewrite Ea, P2, A2 by lia. rewrite <- Esd.
      assert (Hp : 0 <= perm w sw k < w) by (unfold perm; destruct sw; lia).
      rewrite P1. rewrite Esd. rewrite A1 by lia. rewrite perm_involutive. rewrite Esd. reflexivity.
    + assert (Hno : forall i' k', 0 <= i' < n -> 0 <= k' < w -> a <> d + i' * de + k').
      { intros i' k' Hi' Hk' E. rewrite Ea in E.
        assert (i = i' \/ i + 1 <= i' \/ i' + 1 <= i) by lia.
        destruct H as [->|[H|H]]; [lia| |].
        - assert ((i + 1) * de <= i' * de) by (apply Z.mul_le_mono_nonneg_r; lia). lia.
        - assert ((i' + 1) * de <= i * de) by (apply Z.mul_le_mono_nonneg_r; lia). lia. }
      rewrite P2, B2, P1, B1; auto.
    + assert (Hno : forall i' k', 0 <= i' < n -> 0 <= k' < w -> a <> d + i' * de + k').
      { intros i' k' Hi' Hk' E. rewrite Ea in E.
        assert ((i' + 1) * de <= i * de) by (apply Z.mul_le_mono_nonneg_r; lia). lia. }
      rewrite P2, B2, P1, B1; auto.
Qed.

(** the file representation of a value is its big-endian (resp. little-endian) digit string *)
Definition le_value (l : list Z) : Z := fold_right (fun b acc => b + 256 * acc) 0 l.
Definition be_value (l : list Z) : Z := fold_left (fun acc b => acc * 256 + b) l 0.

Lemma be_value_app l b : be_value (l ++ [b]) = be_value l * 256 + b.
Proof. unfold be_value. rewrite fold_left_app. reflexivity. Qed.

Lemma be_rev_le l : be_value (rev l) = le_value l.
Proof.
  induction l as [|b l IH]; [reflexivity|].
  cbn [rev]. rewrite be_value_app, IH. cbn [le_value fold_right]. fold (le_value l). lia.
Qed.


Lemma rev_map_seq (f : Z -> Z) n :
  rev (map f (map Z.of_nat (seq 0 n))) = map (fun k => f (Z.of_nat n - 1 - k)) (map Z.of_nat (seq 0 n)).
Proof.
  induction n as [|n IH]; [reflexivity|].
  rewrite seq_S at 1. rewrite !map_app, rev_app_distr. cbn [map rev app Nat.add]. rewrite IH.
  cbn [seq map]. f_equal; [f_equal; lia|].
  rewrite <- seq_shift, !map_map. apply map_ext. intros j. f_equal. lia.
Qed.

Theorem file_bytes_are_digits_lemma :
  forall nt m s d n ss ds w msp i,
    nt_width nt = Some w -> in_domain w s d n ss ds = true ->
    spec_convert m s d nt n ss ds = Some msp -> 0 <= i < n ->
    let se := eff_se w ss ds in let de := eff_de w ss ds in
    let src := map (fun k => m (s + i * se + k)) (zseq w) in
    let dst := map (fun k => msp (d + i * de + k)) (zseq w) in
    if nt_bigendian_file nt && (1 <? w) then dst = rev src else dst = src.
Proof.
  intros nt m s d n ss ds w msp i Hw Hd Hsp Hi se de src dst.
  destruct (spec_convert_elementwise_lemma nt m s d n ss ds w msp Hw Hd Hsp) as [A _].
  fold se de in A.
  assert (Hdst : dst = map (fun k => m (s + i * se + perm w (nt_bigendian_file nt && (1 <? w)) k)) (zseq w)).
  { unfold dst. apply map_ext_in. intros k Hk. apply zseq_range in Hk. apply A; lia. }
  rewrite Hdst. destruct (nt_bigendian_file nt && (1 <? w)); unfold perm; [|reflexivity].
  unfold src, zseq.
  assert (Hwn : w = Z.of_nat (Z.to_nat w)).
  { unfold nt_width in Hw. repeat match type of Hw with (if ?c then _ else _) = _ => destruct c end;
      inversion Hw; lia. }
  generalize (Z.to_nat w) Hwn. intros nw ->. clear.
  symmetry. apply (rev_map_seq (fun k => m (s + i * se + k)) nw).
Qed.
