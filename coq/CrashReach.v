(** C17 -- Part 3: the state at the start of the flush is reached by every append-only session
    (run_ops_reaches_flush_state), which makes prefix_safe_flush hold at full strength.

    Working invariant [PF] before the flush: [flush_state] plus "the current disk version of every block is its
    disk version" (nothing of the flush has been written yet).  It is kept by: raising f_end_off, a write above
    everything stored so far, filling a NIL slot of a memory block, creating a new DD block at the end of file. *)
From Coq Require Import ZArith List Bool Lia.
Require Import H4.gen.Gen_Crash H4.CrashSpec H4.CrashModel H4.CrashBytes H4.CrashProofs H4.CrashFlush.
Import ListNotations.
Local Open Scope Z_scope.

(** ---- generic list update *)
Fixpoint upd_list {A} (n : nat) (g : A -> A) (l : list A) : list A :=
  match l, n with
  | [], _ => []
  | a :: r, O => g a :: r
  | a :: r, S k => a :: upd_list k g r
  end.

Lemma length_upd_list {A} n (g : A -> A) l : length (upd_list n g l) = length l.
Proof. revert n; induction l; destruct n; simpl; auto. Qed.

Lemma map_upd_list {A B} (f : A -> B) (h : A -> A) (h' : B -> B) n l :
  (forall x, f (h x) = h' (f x)) -> map f (upd_list n h l) = upd_list n h' (map f l).
Proof. intros E. revert n; induction l; destruct n; simpl; auto; f_equal; auto. Qed.

Lemma map_upd_list_same {A B} (f : A -> B) (h : A -> A) n l :
  (forall x, f (h x) = f x) -> map f (upd_list n h l) = map f l.
Proof. intros E. revert n; induction l; destruct n; simpl; auto; f_equal; auto. Qed.

Lemma Forall_upd_list {A} (P : A -> Prop) (h : A -> A) n l :
  Forall P l -> (forall x, nth_error l n = Some x -> P x -> P (h x)) -> Forall P (upd_list n h l).
Proof.
  revert n; induction l as [|a l IH]; intros n F H; [destruct n; simpl; auto|].
  inversion F; subst. destruct n; simpl; constructor; auto;
    try (apply IH; auto; intros x Hx; apply (H x); exact Hx).
Qed.

Lemma nth_error_upd_list {A} (h : A -> A) n l x :
  nth_error l n = Some x -> nth_error (upd_list n h l) n = Some (h x).
Proof. revert n; induction l; destruct n; simpl; intros; try discriminate; auto. congruence. Qed.

Lemma nth_error_upd_list_other {A} (h : A -> A) n k l : n <> k -> nth_error (upd_list n h l) k = nth_error l k.
Proof. revert n k; induction l; destruct n, k; simpl; intros; auto; try congruence. Qed.

Lemma upd_block_upd_list f n bl : upd_block n f bl = upd_list n f bl.
Proof. revert n; induction bl; destruct n; simpl; auto. f_equal; auto. Qed.

(** set_nth *)
Lemma length_set_nth {A} n (x : A) l : length (set_nth n x l) = length l.
Proof. revert n; induction l; destruct n; simpl; auto. Qed.

Lemma Forall_set_nth {A} (P : A -> Prop) n x l : Forall P l -> P x -> Forall P (set_nth n x l).
Proof. revert n; induction l; intros n F Hx; destruct n; simpl; auto; inversion F; subst; constructor; auto. Qed.

Lemma Forall2_set_nth {A B} (R : A -> B -> Prop) n x l1 l2 :
  Forall2 R l1 l2 -> (forall a, nth_error l1 n = Some a -> R a x) -> Forall2 R l1 (set_nth n x l2).
Proof.
  intros F. revert n. induction F as [|a0 b0 l1 l2 Rab F IHF]; intros n Hn; destruct n; simpl; constructor; auto;
    try (apply Hn; reflexivity); try (apply IHF; intros a Ha; apply Hn; exact Ha).
Qed.

Lemma Forall2_nth_left {A B} (R : A -> B -> Prop) l1 l2 n b :
  Forall2 R l1 l2 -> nth_error l2 n = Some b -> exists a, nth_error l1 n = Some a /\ R a b.
Proof.
  intros F. revert n. induction F as [|a0 b0 l1 l2 Rab F IHF]; intros n Hn; destruct n; simpl in *; try discriminate.
  - inversion Hn; subst. eauto.
  - eauto.
Qed.

(** ---- linked *)
Lemma linked_ext l : forall l',
  Forall2 (fun a b => b_off a = b_off b /\ b_next a = b_next b) l l' -> linked l -> linked l'.
Proof.
  induction l as [|a l IH]; intros l' F L; [destruct L|].
  inversion F as [|? b ? l2 [Ho Hn] F2]; subst. destruct l as [|a2 l3].
  - inversion F2; subst. simpl in *. congruence.
  - inversion F2 as [|? b2 ? l4 [Ho2 Hn2] F3]; subst. simpl in L. destruct L as (L1 & L2 & L3).
    change (b_next b = b_off b2 /\ b_next b <> 0 /\ linked (b2 :: l4)). repeat split; try congruence.
    apply IH; auto.
Qed.

Lemma Forall2_upd_list_refl {A} (R : A -> A -> Prop) (h : A -> A) n l :
  (forall x, R x x) -> (forall x, R x (h x)) -> Forall2 R l (upd_list n h l).
Proof. intros Rr Rh. revert n; induction l; destruct n; simpl; constructor; auto. clear IHl. induction l; constructor; auto. Qed.

Lemma linked_last l : linked l -> forall b, nth_error l (length l - 1) = Some b -> b_next b = 0.
Proof.
  induction l as [|a l IH]; intros L b H; [destruct L|].
  destruct l as [|a2 l2].
  - simpl in *. inversion H; subst. exact L.
  - simpl in L. destruct L as (_ & _ & L3). apply IH; auto.
    simpl length in *. replace (S (S (length l2)) - 1)%nat with (S (length l2 - 0)) in H by lia.
    simpl in H. replace (length l2 - 0)%nat with (length l2) in H by lia.
    replace (S (length l2) - 1)%nat with (length l2) by lia. exact H.
Qed.

Lemma linked_snoc l : forall bn e,
  linked l -> e <> 0 -> b_off bn = e -> b_next bn = 0 ->
  linked (upd_list (length l - 1) (fun m => set_next m e) l ++ [bn]).
Proof.
  induction l as [|a l IH]; intros bn e L He Ho Hn; [destruct L|].
  destruct l as [|a2 l2].
  - simpl. repeat split; auto; congruence.
  - simpl in L. destruct L as (L1 & L2 & L3).
    replace (length (a :: a2 :: l2) - 1)%nat with (S (length (a2 :: l2) - 1)) by (simpl; lia).
    change (upd_list (S (length (a2 :: l2) - 1)) (fun m => set_next m e) (a :: a2 :: l2))
      with (a :: upd_list (length (a2 :: l2) - 1) (fun m => set_next m e) (a2 :: l2)).
    pose proof (IH bn e L3 He Ho Hn) as IH'.
    remember (upd_list (length (a2 :: l2) - 1) (fun m => set_next m e) (a2 :: l2)) as u eqn:Eu.
    assert (Hu : exists u0 ur, u = u0 :: ur /\ b_off u0 = b_off a2).
    { subst u. destruct l2; simpl; eauto. }
    destruct Hu as (u0 & ur & -> & Hu0). simpl. repeat split; auto; congruence.
Qed.

(** ---- pairwise disjoint regions *)
Lemma pdisj_snoc l r : pdisj l -> Forall (fun q => disj q r) l -> pdisj (l ++ [r]).
Proof.
  induction l as [|a l IH]; intros P F; simpl; [auto|].
  destruct P as [Pa Pl]. inversion F; subst. split; [|apply IH; auto].
  apply Forall_app. split; auto.
Qed.

Lemma pdisj_nodup l : pdisj l -> Forall (fun r => fst r < snd r) l -> NoDup (map fst l).
Proof.
  induction l as [|a l IH]; intros P F; simpl; constructor.
  - destruct P as [Pa _]. inversion F as [|? ? Ha Hl]; subst. intros Hin. apply in_map_iff in Hin.
    destruct Hin as (q & Eq & Hq).
    rewrite Forall_forall in Pa, Hl. specialize (Pa q Hq). specialize (Hl q Hq). unfold disj in Pa. lia.
  - destruct P. inversion F; subst. apply IH; auto.
Qed.

(** pigeonhole: distinct offsets inside the image *)
Lemma nodup_bound (l : list Z) (n : nat) : NoDup l -> Forall (fun z => 0 <= z < Z.of_nat n) l -> (length l <= n)%nat.
Proof.
  intros ND F.
  assert (ND' : NoDup (map Z.to_nat l)).
  { induction ND; simpl; constructor.
    - intros Hin. apply in_map_iff in Hin. destruct Hin as (y & Ey & Hy). inversion F as [|? ? Hx Hl]; subst.
      rewrite Forall_forall in Hl. specialize (Hl y Hy). assert (x = y) by lia. subst. contradiction.
    - inversion F as [|? ? Hx Hl]; subst. auto. }
  assert (I : incl (map Z.to_nat l) (seq 0 n)).
  { intros k Hk. apply in_map_iff in Hk. destruct Hk as (z & <- & Hz). rewrite Forall_forall in F.
    specialize (F z Hz). apply in_seq. lia. }
  pose proof (NoDup_incl_length ND' I) as H. rewrite map_length, seq_length in H. exact H.
Qed.

(** ---- the pre-flush invariant *)
Definition Above (bl0 : list block) (T : list tri) (z : Z) : Prop :=
  Forall (fun b => block_end b <= z) (map t_d T) /\
  (forall d, In d (all_dds bl0) -> dd_live d = true -> dd_has_data d = true -> d_off d + d_len d <= z) /\
  MAGICLEN <= z.

Definition PF (img0 : image) (bl0 : list block) (img : image) (M : list block) (e : Z) (T : list tri) : Prop :=
  parse_file img0 = Some bl0 /\ Inv img T /\ (exists D2, map t_d T = bl0 ++ D2) /\
  Forall (fun b => b_next b <> 0) (removelast bl0) /\ Prot img0 bl0 img /\ map t_m T = M /\
  (forall d b, In d (all_dds bl0) -> dd_live d = true -> dd_has_data d = true -> In b (map t_d T) ->
               d_off d + d_len d <= b_off b \/ block_end b <= d_off d) /\
  Above bl0 T e /\ Forall (fun t => t_x t = t_d t) T.

Lemma PF_flush_state img0 bl0 img fr T :
  PF img0 bl0 img (map m_blk (f_blocks fr)) (f_end fr) T -> flush_state img0 bl0 img fr T.
Proof. unfold PF, Above, flush_state. tauto. Qed.

Lemma Above_mono bl0 T z z' : Above bl0 T z -> z <= z' -> Above bl0 T z'.
Proof.
  intros (A & B & C) H. repeat split; try lia.
  - rewrite Forall_forall in *. intros b Hb. specialize (A b Hb). lia.
  - intros d H1 H2 H3. specialize (B d H1 H2 H3). lia.
Qed.

Lemma PF_intro img0 bl0 img M e T :
  parse_file img0 = Some bl0 -> Inv img T -> (exists D2, map t_d T = bl0 ++ D2) ->
  Forall (fun b => b_next b <> 0) (removelast bl0) -> Prot img0 bl0 img -> map t_m T = M ->
  (forall d b, In d (all_dds bl0) -> dd_live d = true -> dd_has_data d = true -> In b (map t_d T) ->
               d_off d + d_len d <= b_off b \/ block_end b <= d_off d) ->
  Above bl0 T e -> Forall (fun t => t_x t = t_d t) T -> PF img0 bl0 img M e T.
Proof. unfold PF. tauto. Qed.

Lemma L_end img0 bl0 img M e e' T : PF img0 bl0 img M e T -> e <= e' -> PF img0 bl0 img M e' T.
Proof.
  intros (P0 & I & HD & Hnz & Hp & HM & Hdb & Hab & Hx) H. apply PF_intro; auto. eapply Above_mono; eauto.
Qed.

(** a write above everything stored so far *)
Lemma L_write img0 bl0 img M e T off bs :
  PF img0 bl0 img M e T -> Above bl0 T off -> PF img0 bl0 (write_at img off bs) M e T.
Proof.
  intros (P0 & I & HD & Hnz & Hp & HM & Hdb & Hab & Hx) (A & B & C).
  assert (0 <= off) by (unfold MAGICLEN in C; lia).
  apply PF_intro; auto.
  - apply step_above; auto; rewrite Forall_map in A; exact A.
  - apply prot_frame; auto; intros d H1 H2 H3; left; apply B; auto.
Qed.

(** the number of blocks is bounded by the image length (distinct offsets inside the image) *)
Lemma inv_len_derive img T :
  Forall tri_ok T -> Forall (fun t => agrees img (t_x t)) T -> pdisj (map region T) -> (length T <= length img)%nat.
Proof.
  intros Hok Hag Hd.
  assert (Hpos : Forall (fun r : Z * Z => fst r < snd r) (map region T)).
  { apply Forall_map. rewrite Forall_forall in *. intros t Ht. destruct (Hok t Ht) as [C _].
    destruct C as (Co & Cn & _ & _ & (R1 & _)). unfold region; simpl. unfold block_end, start_block_end. lia. }
  pose proof (pdisj_nodup _ Hd Hpos) as ND.
  assert (B : Forall (fun z => 0 <= z < Z.of_nat (length img)) (map fst (map region T))).
  { apply Forall_map. apply Forall_map. rewrite Forall_forall in *. intros t Ht.
    destruct (Hok t Ht) as [_ (Mo & _)]. specialize (Hag t Ht). unfold agrees in Hag.
    destruct (read_block_inv _ _ _ Hag) as (h & bs & Rh & _). apply read_bytes_some in Rh.
    unfold region; simpl. unfold zlen, hdr_sz, NDDS_SZ, OFFSET_SZ in Rh. rewrite <- Mo. lia. }
  pose proof (nodup_bound _ _ ND B) as L. rewrite !map_length in L. exact L.
Qed.

(** filling a NIL slot of a memory block *)
Definition upd_tm (bi : nat) (g : block -> block) (T : list tri) : list tri :=
  upd_list bi (fun t => mktri (t_d t) (g (t_m t)) (t_x t)) T.

Definition fill (i : nat) (dnew : dd) (m : block) : block := set_dds m (set_nth i dnew (b_dds m)).

Lemma L_upd img0 bl0 img M e T bi i dnew t a :
  PF img0 bl0 img M e T ->
  nth_error T bi = Some t -> nth_error (b_dds (t_d t)) i = Some a -> d_tag a = DFTAG_NULL -> dd_in_range dnew ->
  PF img0 bl0 img (upd_list bi (fill i dnew) M) e (upd_tm bi (fill i dnew) T).
Proof.
  intros (P0 & I & HD & Hnz & Hp & HM & Hdb & Hab & Hx) Ht Ha Hnil Hr.
  destruct I as [Iok Ilk Ifst Iag Idj Img Ilen].
  assert (Ed : map t_d (upd_tm bi (fill i dnew) T) = map t_d T) by (apply map_upd_list_same; reflexivity).
  assert (Er : map region (upd_tm bi (fill i dnew) T) = map region T) by (apply map_upd_list_same; reflexivity).
  assert (Em : map t_m (upd_tm bi (fill i dnew) T) = upd_list bi (fill i dnew) (map t_m T))
    by (apply map_upd_list; reflexivity).
  apply PF_intro; auto; try (rewrite Ed; auto).
  - constructor.
    + apply Forall_upd_list; auto. intros x Hx' [C Mx]. rewrite Ht in Hx'. inversion Hx'; subst x.
      assert (Hxd : t_x t = t_d t) by (rewrite Forall_forall in Hx; apply Hx; eapply nth_error_In; eauto).
      destruct C as (Co & Cn & Cx & Cd & (R1 & R2 & R3 & R4 & R5)).
      split; simpl.
      * unfold compat, fill; simpl. split; [exact Co|]. split; [exact Cn|]. split; [exact Cx|]. split.
        -- apply Forall2_set_nth; auto. intros a' Ha'. rewrite Ha in Ha'. inversion Ha'; subst. right. exact Hnil.
        -- unfold blk_in_range; simpl. split; [exact R1|]. split; [exact R2|].
           split; [apply Forall_set_nth; auto|]. split; [unfold zlen in *; rewrite length_set_nth; exact R4|exact R5].
      * unfold mixrel. rewrite Hxd. auto.
    + rewrite Em. apply (linked_ext (map t_m T)); auto.
      apply Forall2_upd_list_refl; intros; simpl; auto.
    + destruct T; [contradiction|]. destruct bi; simpl; exact Ifst.
    + apply Forall_upd_list; auto.
    + rewrite Er. exact Idj.
    + exact Img.
    + unfold upd_tm. rewrite length_upd_list. exact Ilen.
  - rewrite Em, HM. reflexivity.
  - destruct Hab as (A & B & C). unfold Above. rewrite Ed. auto.
  - apply Forall_upd_list; auto.
Qed.

(** creating a new DD block at the end of file *)
Definition new_blk (e ndds : Z) : block := mkblock e ndds 0 (repeat nil_dd (Z.to_nat ndds)).
Definition new_img (img : image) (e ndds : Z) : image :=
  write_at (write_at img e (enc_hdr ndds 0)) (e + hdr_sz) (enc_dds (repeat nil_dd (Z.to_nat ndds))).

Lemma nil_dd_in_range : dd_in_range nil_dd.
Proof. unfold dd_in_range, nil_dd; simpl. unfold DFTAG_NULL, DFREF_NONE, INVALID_OFFSET, INVALID_LENGTH. lia. Qed.

Lemma new_blk_in_range e ndds : 0 < ndds < 32768 -> 0 <= e -> blk_in_range (new_blk e ndds).
Proof.
  intros Hn He. unfold blk_in_range, new_blk; simpl. split; [exact Hn|]. split; [lia|]. split.
  - apply Forall_forall. intros x Hx. apply repeat_spec in Hx. subst. apply nil_dd_in_range.
  - split; [|exact He]. unfold zlen. rewrite repeat_length. lia.
Qed.

Lemma Forall2_refl_or (l : list dd) : Forall2 (fun a b => a = b \/ d_tag a = DFTAG_NULL) l l.
Proof. induction l; constructor; auto. Qed.

Lemma L_new img0 bl0 img M e T ndds :
  PF img0 bl0 img M e T -> 0 < ndds < 32768 -> e + 6 + ndds * 12 < 2147483648 ->
  PF img0 bl0 (new_img img e ndds)
     (upd_list (length M - 1) (fun m => set_next m e) M ++ [new_blk e ndds])
     (e + 6 + ndds * 12)
     (upd_tm (length T - 1) (fun m => set_next m e) T ++ [mktri (new_blk e ndds) (new_blk e ndds) (new_blk e ndds)]).
Proof.
  intros PF0 Hn Hb.
  assert (He : MAGICLEN <= e) by (destruct PF0 as (_ & _ & _ & _ & _ & _ & _ & (_ & _ & C) & _); exact C).
  assert (He0 : 0 <= e) by (unfold MAGICLEN in He; lia).
  assert (PF1 : PF img0 bl0 (new_img img e ndds) M e T).
  { unfold new_img. apply L_write.
    - apply L_write; auto. destruct PF0 as (_ & _ & _ & _ & _ & _ & _ & Hab & _). exact Hab.
    - destruct PF0 as (_ & _ & _ & _ & _ & _ & _ & Hab & _). eapply Above_mono; eauto.
      unfold hdr_sz, NDDS_SZ, OFFSET_SZ. lia. }
  pose proof (new_blk_in_range e ndds Hn He0) as Rnb.
  assert (Anb : agrees (new_img img e ndds) (new_blk e ndds)).
  { unfold agrees. exact (dd_block_roundtrip_lemma img (new_blk e ndds) Rnb). }
  clear PF0. destruct PF1 as (P0 & I & HD & Hnz & Hp & HM & Hdb & Hab & Hx).
  destruct I as [Iok Ilk Ifst Iag Idj Img Ilen]. destruct Hab as (A & B & C).
  set (g := fun m : block => set_next m e).
  set (nb := new_blk e ndds). set (tn := mktri nb nb nb).
  assert (Ed : map t_d (upd_tm (length T - 1) g T) = map t_d T) by (apply map_upd_list_same; reflexivity).
  assert (Er : map region (upd_tm (length T - 1) g T) = map region T) by (apply map_upd_list_same; reflexivity).
  assert (Em : map t_m (upd_tm (length T - 1) g T) = upd_list (length T - 1) g (map t_m T))
    by (apply map_upd_list; reflexivity).
  assert (HlenM : length M = length T) by (rewrite <- HM, map_length; reflexivity).
  assert (Hok' : Forall tri_ok (upd_tm (length T - 1) g T ++ [tn])).
  { apply Forall_app. split.
    - apply Forall_upd_list; auto. intros x Hx' [Cc Mx].
      assert (Hxd : t_x x = t_d x) by (rewrite Forall_forall in Hx; apply Hx; eapply nth_error_In; eauto).
      assert (Hm0 : b_next (t_m x) = 0).
      { apply (linked_last (map t_m T) Ilk). rewrite map_length. apply map_nth_error. exact Hx'. }
      destruct Cc as (Co & Cn & Cx & Cd & (R1 & R2 & R3 & R4 & R5)).
      assert (Hd0 : b_next (t_d x) = 0) by (destruct Cx; congruence).
      split; simpl.
      + unfold compat, g; simpl. split; [exact Co|]. split; [exact Cn|]. split; [right; exact Hd0|]. split; [exact Cd|].
        unfold blk_in_range; simpl. split; [exact R1|]. split; [lia|]. split; [exact R3|]. split; [exact R4|exact R5].
      + unfold mixrel. rewrite Hxd. auto.
    - constructor; [|constructor]. unfold tri_ok, tn; simpl. split.
      + unfold compat. split; [reflexivity|]. split; [reflexivity|]. split; [left; reflexivity|].
        split; [apply Forall2_refl_or|exact Rnb].
      + unfold mixrel. auto. }
  assert (Hag' : Forall (fun t => agrees (new_img img e ndds) (t_x t)) (upd_tm (length T - 1) g T ++ [tn])).
  { apply Forall_app. split; [apply Forall_upd_list; auto|]. constructor; [exact Anb|constructor]. }
  assert (Hdj' : pdisj ((0, MAGICLEN) :: map region (upd_tm (length T - 1) g T ++ [tn]))).
  { rewrite map_app, Er. simpl map.
    change ((0, MAGICLEN) :: map region T ++ [region tn]) with (((0, MAGICLEN) :: map region T) ++ [region tn]).
    apply pdisj_snoc; auto. constructor.
    - unfold disj, region, tn, nb, new_blk; simpl. left. exact He.
    - apply Forall_map. rewrite Forall_map in A. rewrite Forall_forall in *. intros t Ht.
      unfold disj, region, tn, nb, new_blk; simpl. left. apply A. exact Ht. }
  apply PF_intro; auto.
  - constructor; auto.
    + rewrite map_app, Em. simpl map. replace (length T - 1)%nat with (length (map t_m T) - 1)%nat by (rewrite map_length; reflexivity).
      apply linked_snoc; auto. unfold MAGICLEN in He. lia.
    + destruct T as [|t0 T0]; [contradiction|]. unfold upd_tm. destruct T0; simpl; exact Ifst.
    + apply inv_len_derive; auto. simpl in Hdj'. destruct Hdj' as [_ Hd']. exact Hd'.
  - destruct HD as (D2 & HD). exists (D2 ++ [nb]). rewrite map_app, Ed, HD, <- app_assoc. reflexivity.
  - rewrite map_app, Em, HM, HlenM. reflexivity.
  - intros d b H1 H2 H3 Hb'. rewrite map_app, Ed in Hb'. apply in_app_or in Hb'. destruct Hb' as [Hb'|[<-|[]]].
    + apply Hdb; auto.
    + left. simpl. apply B; auto.
  - unfold Above. rewrite map_app, Ed. split; [|split].
    + apply Forall_app. split.
      * rewrite Forall_forall in *. intros b Hb'. specialize (A b Hb'). lia.
      * constructor; [|constructor]. unfold nb, new_blk, block_end, start_block_end; simpl. lia.
    + intros d H1 H2 H3. specialize (B d H1 H2 H3). lia.
    + lia.
  - apply Forall_app. split; [apply Forall_upd_list; auto|]. constructor; [reflexivity|constructor].
Qed.

(** ---- the model's primitives, with caching on, in terms of the list updates above *)
Lemma getdiskblock_shape fr size :
  f_cache fr = true -> 0 <= size ->
  exists fr', getdiskblock fr size = (f_end fr, fr', []) /\ f_blocks fr' = f_blocks fr /\
              f_end fr' = f_end fr + size /\ f_cache fr' = true.
Proof.
  intros Hc Hs. unfold getdiskblock. rewrite Hc. unfold getdiskblock_advance.
  destruct (0 <? size); eexists; (split; [reflexivity|]); simpl; auto.
Qed.

Definition dd_valid (d : dd) : bool := negb (d_off d =? INVALID_OFFSET) && negb (d_len d =? INVALID_LENGTH).

Lemma update_dd_shape fr bi i d :
  f_cache fr = true ->
  exists fr', update_dd fr bi i d = (fr', []) /\
    map m_blk (f_blocks fr') = upd_list bi (fill i d) (map m_blk (f_blocks fr)) /\
    f_cache fr' = true /\ f_end fr <= f_end fr' /\
    (dd_valid d = true -> d_off d + d_len d <= f_end fr') /\
    (f_end fr' = f_end fr \/ (dd_valid d = true /\ f_end fr' = d_off d + d_len d)).
Proof.
  intros Hc. unfold update_dd. rewrite Hc.
  assert (E : map m_blk (upd_block bi (fun mb => mkmb (set_dds (m_blk mb) (set_nth i d (b_dds (m_blk mb)))) true) (f_blocks fr))
              = upd_list bi (fill i d) (map m_blk (f_blocks fr))).
  { rewrite upd_block_upd_list. apply map_upd_list. reflexivity. }
  unfold dd_valid.
  destruct (negb (d_off d =? INVALID_OFFSET) && negb (d_len d =? INVALID_LENGTH)) eqn:V; simpl.
  - destruct (Z.ltb_spec (f_end fr) (d_off d + d_len d)); eexists; (split; [reflexivity|]); simpl;
      repeat split; auto; try lia.
  - eexists; (split; [reflexivity|]); simpl; repeat split; auto; try lia; try discriminate.
Qed.

Lemma new_dd_block_shape fr hd tl :
  f_cache fr = true -> f_blocks fr = hd :: tl -> 0 <= b_ndds (m_blk hd) ->
  exists fr', new_dd_block fr =
      (fr', [(f_end fr, enc_hdr (b_ndds (m_blk hd)) 0);
             (f_end fr + hdr_sz, enc_dds (repeat nil_dd (Z.to_nat (b_ndds (m_blk hd)))))]) /\
    map m_blk (f_blocks fr') =
      upd_list (length (map m_blk (f_blocks fr)) - 1) (fun m => set_next m (f_end fr)) (map m_blk (f_blocks fr))
      ++ [new_blk (f_end fr) (b_ndds (m_blk hd))] /\
    f_end fr' = f_end fr + 6 + b_ndds (m_blk hd) * 12 /\ f_cache fr' = true.
Proof.
  intros Hc Hb Hn. unfold new_dd_block. rewrite Hb.
  assert (Hsz : 0 <= newblock_size (b_ndds (m_blk hd))) by (unfold newblock_size; lia).
  destruct (getdiskblock_shape fr _ Hc Hsz) as (fr1 & G & Gb & Ge & Gc). rewrite G, Hc.
  eexists. split; [reflexivity|]. simpl. rewrite ?Hc. simpl. repeat split; auto; try (unfold newblock_end; lia).
  rewrite Gb. rewrite map_app. f_equal. rewrite upd_block_upd_list.
  rewrite (map_upd_list m_blk _ (fun m => set_next m (f_end fr))) by reflexivity.
  rewrite ?Hb. simpl. rewrite ?map_length. reflexivity.
Qed.

Lemma find_null_dds_spec l i : find_null_dds l = Some i -> exists a, nth_error l i = Some a /\ d_tag a = DFTAG_NULL.
Proof.
  revert i; induction l as [|a l IH]; intros i; simpl; [discriminate|].
  destruct (Z.eqb_spec (d_tag a) DFTAG_NULL).
  - intros H; inversion H; subst. simpl. eauto.
  - destruct (find_null_dds l) as [j|]; [|discriminate]. intros H; inversion H; subst. simpl. apply IH. reflexivity.
Qed.

Lemma find_null_spec bl bi i :
  find_null bl = Some (bi, i) ->
  exists mb a, nth_error bl bi = Some mb /\ nth_error (b_dds (m_blk mb)) i = Some a /\ d_tag a = DFTAG_NULL.
Proof.
  revert bi i; induction bl as [|b bl IH]; intros bi i; simpl; [discriminate|].
  destruct (find_null_dds (b_dds (m_blk b))) as [j|] eqn:F.
  - intros H; inversion H; subst. destruct (find_null_dds_spec _ _ F) as (a & Ha & Hn). exists b, a. simpl. auto.
  - destruct (find_null bl) as [[bj j]|] eqn:F2; [|discriminate]. intros H; inversion H; subst.
    destruct (IH _ _ eq_refl) as (mb & a & H1 & H2 & H3). exists mb, a. simpl. auto.
Qed.

(** ---- the invariant attached to the model state *)
Definition PFr (img0 : image) (bl0 : list block) (img : image) (fr : frec) (T : list tri) : Prop :=
  PF img0 bl0 img (map m_blk (f_blocks fr)) (f_end fr) T /\ f_cache fr = true.

Lemma PFr_maxref img0 bl0 img fr T (c : bool) r :
  PFr img0 bl0 img fr T -> PFr img0 bl0 img (if c then set_maxref fr r else fr) T.
Proof. destruct c; auto. Qed.

Lemma f_end_maxref fr (c : bool) r : f_end (if c then set_maxref fr r else fr) = f_end fr.
Proof. destruct c; reflexivity. Qed.

Definition slot_free (T : list tri) (bi i : nat) : Prop :=
  exists t a, nth_error T bi = Some t /\ nth_error (b_dds (t_d t)) i = Some a /\ d_tag a = DFTAG_NULL.

Lemma slot_free_upd T k g bi i : slot_free T bi i -> slot_free (upd_tm k g T) bi i.
Proof.
  intros (t & a & H1 & H2 & H3). unfold upd_tm. destruct (Nat.eq_dec k bi) as [->|Hne].
  - eexists. exists a. split; [apply nth_error_upd_list; exact H1|]. simpl. auto.
  - exists t, a. rewrite nth_error_upd_list_other by exact Hne. auto.
Qed.

Lemma Above_upd bl0 T k g z : Above bl0 T z -> Above bl0 (upd_tm k g T) z.
Proof.
  intros (A & B & C). unfold Above. replace (map t_d (upd_tm k g T)) with (map t_d T); auto.
  symmetry. apply map_upd_list_same. reflexivity.
Qed.

Lemma step_update img0 bl0 img fr T bi i d :
  PFr img0 bl0 img fr T -> slot_free T bi i -> dd_in_range d ->
  exists fr', update_dd fr bi i d = (fr', []) /\ PFr img0 bl0 img fr' (upd_tm bi (fill i d) T) /\
    f_end fr <= f_end fr' /\ (dd_valid d = true -> d_off d + d_len d <= f_end fr') /\
    (f_end fr' = f_end fr \/ (dd_valid d = true /\ f_end fr' = d_off d + d_len d)).
Proof.
  intros [P Hc] (t & a & H1 & H2 & H3) Hr.
  destruct (update_dd_shape fr bi i d Hc) as (fr' & U & Ub & Uc & Ue & Uv & Ux).
  exists fr'. split; [exact U|]. split; [|auto]. split; [|exact Uc].
  rewrite Ub. apply (L_end _ _ _ _ (f_end fr)); [|exact Ue].
  eapply L_upd; eauto.
Qed.

Lemma PF_T_nonempty img0 bl0 img M e T : PF img0 bl0 img M e T -> exists t T', T = t :: T'.
Proof. intros (_ & I & _). destruct I as [_ _ Ifst _ _ _ _]. destruct T; [contradiction|eauto]. Qed.

Lemma nth_error_snoc {A} (l : list A) x : nth_error (l ++ [x]) (length l) = Some x.
Proof. induction l; simpl; auto. Qed.

(** HTPcreate *)
Lemma step_create img0 bl0 img fr T tag ref :
  PFr img0 bl0 img fr T -> 0 <= tag < 65536 -> 0 <= ref < 65536 ->
  forall slot fr' w, create_dd fr tag ref = (slot, fr', w) -> f_end fr' < 2147483648 ->
  exists T', PFr img0 bl0 (apply_log img w) fr' T' /\ slot_free T' (fst slot) (snd slot) /\ f_end fr <= f_end fr'.
Proof.
  intros PR Ht Hrf slot fr' w Hcr Hb.
  assert (Hd : dd_in_range (mkdd tag ref INVALID_OFFSET INVALID_LENGTH)).
  { unfold dd_in_range, INVALID_OFFSET, INVALID_LENGTH; simpl. lia. }
  unfold create_dd in Hcr. destruct (find_null (f_blocks fr)) as [s|] eqn:F.
  - (* a NIL slot exists *)
    destruct s as [bi i].
    assert (SF : slot_free T bi i).
    { destruct (find_null_spec _ _ _ F) as (mb & a & N1 & N2 & N3).
      destruct PR as [(P0 & I & HD & Hnz & Hp & HM & _) Hc].
      assert (N1' : nth_error (map t_m T) bi = Some (m_blk mb)) by (rewrite HM; apply map_nth_error; exact N1).
      destruct (nth_error T bi) as [t|] eqn:Nt; [|rewrite (nth_error_map t_m bi T), Nt in N1'; discriminate].
      pose proof (map_nth_error t_m bi T Nt) as Nm. rewrite Nm in N1'. inversion N1' as [Etm].
      pose proof (i_ok _ _ I) as Hok. rewrite Forall_forall in Hok.
      destruct (Hok t (nth_error_In _ _ Nt)) as [(_ & _ & _ & Cd & _) _].
      rewrite Etm in Cd. destruct (Forall2_nth_left _ _ _ _ _ Cd N2) as (a' & Ha' & [->|Hn]).
      + exists t, a. auto.
      + exists t, a'. auto. }
    destruct (step_update _ _ _ _ _ _ _ _ PR SF Hd) as (fr2 & U & PR2 & Ue & _).
    simpl in Hcr. rewrite U in Hcr. inversion Hcr; subst. simpl.
    eexists. split; [apply PFr_maxref; exact PR2|]. split; [apply slot_free_upd; exact SF|rewrite f_end_maxref; exact Ue].
  - (* a new DD block is needed *)
    destruct (new_dd_block fr) as [frn wn] eqn:N.
    destruct (update_dd frn (fst (length (f_blocks fr), 0%nat)) (snd (length (f_blocks fr), 0%nat)) _) as [fr2 w2] eqn:U.
    inversion Hcr; subst; clear Hcr. simpl in U. rewrite f_end_maxref in Hb.
    destruct PR as [P Hc].
    destruct (PF_T_nonempty _ _ _ _ _ _ P) as (t0 & T0 & ET).
    assert (HM : map t_m T = map m_blk (f_blocks fr)) by (destruct P as (_ & _ & _ & _ & _ & HM & _); exact HM).
    destruct (f_blocks fr) as [|hd tl] eqn:Hbl; [subst T; discriminate|].
    assert (Rn : 0 < b_ndds (m_blk hd) < 32768).
    { subst T. simpl in HM. inversion HM as [[E1 E2]]. destruct P as (_ & I & _).
      pose proof (i_ok _ _ I) as Hok. inversion Hok as [|? ? Hok0 _].
      destruct Hok0 as [(_ & _ & _ & _ & (R1 & _)) _]. subst x. rewrite <- ?E1. exact R1. }
    destruct (new_dd_block_shape fr hd tl Hc Hbl ltac:(lia)) as (frn' & N' & Nb & Ne & Nc).
    rewrite N in N'. inversion N'; subst frn' wn; clear N'.
    destruct (update_dd_shape frn (length (hd :: tl)) 0 (mkdd tag ref INVALID_OFFSET INVALID_LENGTH) Nc)
      as (fr2' & U' & _ & _ & Ue' & _).
    rewrite U in U'. inversion U'; subst fr2' w2; clear U'.
    assert (Hbn : f_end fr + 6 + b_ndds (m_blk hd) * 12 < 2147483648) by lia.
    pose proof (L_new _ _ _ _ _ _ _ P Rn Hbn) as PN.
    assert (PRn : PFr img0 bl0 (new_img img (f_end fr) (b_ndds (m_blk hd))) frn
               (upd_tm (length T - 1) (fun m => set_next m (f_end fr)) T ++
                [mktri (new_blk (f_end fr) (b_ndds (m_blk hd))) (new_blk (f_end fr) (b_ndds (m_blk hd)))
                       (new_blk (f_end fr) (b_ndds (m_blk hd)))])).
    { split; [|exact Nc]. rewrite Nb, Ne. rewrite Hbl. exact PN. }
    assert (HlenT : length T = length (hd :: tl)).
    { rewrite <- (map_length t_m T), HM, map_length. reflexivity. }
    assert (SF : slot_free (upd_tm (length T - 1) (fun m => set_next m (f_end fr)) T ++
                [mktri (new_blk (f_end fr) (b_ndds (m_blk hd))) (new_blk (f_end fr) (b_ndds (m_blk hd)))
                       (new_blk (f_end fr) (b_ndds (m_blk hd)))]) (length (hd :: tl)) 0).
    { eexists. exists nil_dd. split.
      - assert (EL : length (upd_tm (length T - 1) (fun m => set_next m (f_end fr)) T) = length (hd :: tl))
          by (unfold upd_tm; rewrite length_upd_list; exact HlenT).
        rewrite <- EL. apply nth_error_snoc.
      - simpl. split; [|reflexivity].
        destruct (Z.to_nat (b_ndds (m_blk hd))) eqn:Z; [lia|reflexivity]. }
    destruct (step_update _ _ _ _ _ _ _ _ PRn SF Hd) as (fr2' & U2 & PR2 & Ue2 & _).
    rewrite U in U2. inversion U2; subst fr2'; clear U2.
    eexists. split; [|split].
    + replace (apply_log img ([(f_end fr, enc_hdr (b_ndds (m_blk hd)) 0);
                (f_end fr + hdr_sz, enc_dds (repeat nil_dd (Z.to_nat (b_ndds (m_blk hd)))))] ++ []))
        with (new_img img (f_end fr) (b_ndds (m_blk hd))) by reflexivity.
      apply PFr_maxref. exact PR2.
    + simpl. apply slot_free_upd. exact SF.
    + rewrite f_end_maxref. lia.
Qed.

(** ---- whole operations *)
Lemma apply_log_app img a b : apply_log img (a ++ b) = apply_log (apply_log img a) b.
Proof. unfold apply_log. apply fold_left_app. Qed.

Lemma PFr_same_blocks img0 bl0 img fr fr' T :
  PFr img0 bl0 img fr T -> f_blocks fr' = f_blocks fr -> f_end fr <= f_end fr' -> f_cache fr' = true ->
  PFr img0 bl0 img fr' T.
Proof. intros [P _] Hb He Hc. split; auto. rewrite Hb. eapply L_end; eauto. Qed.

Lemma PFr_hd_ndds img0 bl0 img fr T : PFr img0 bl0 img fr T -> 0 <= hd_ndds fr.
Proof.
  intros [P _]. destruct (PF_T_nonempty _ _ _ _ _ _ P) as (t0 & T0 & ->).
  destruct P as (_ & I & _ & _ & _ & HM & _). unfold hd_ndds. destruct (f_blocks fr) as [|hd tl]; [lia|].
  simpl in HM. inversion HM as [[E1 E2]]. pose proof (i_ok _ _ I) as Hok. inversion Hok as [|? ? Hok0 _].
  destruct Hok0 as [(_ & _ & _ & _ & (R1 & _)) _]. subst. rewrite <- ?E1. lia.
Qed.

Lemma PFr_above img0 bl0 img fr T : PFr img0 bl0 img fr T -> Above bl0 T (f_end fr).
Proof. intros [(_ & _ & _ & _ & _ & _ & _ & A & _) _]. exact A. Qed.

Lemma step_put img0 bl0 img fr T tag ref len data :
  PFr img0 bl0 img fr T -> op_ok (OpPut tag ref len data) = true ->
  forall fr' w, op_put fr tag ref len data = (fr', w) -> f_end fr' < 2147483648 ->
  exists T', PFr img0 bl0 (apply_log img w) fr' T'.
Proof.
  intros PR Hok fr' w Hop Hb. unfold op_put in Hop.
  destruct (has_dd fr tag ref); [inversion Hop; subst; exists T; exact PR|].
  simpl in Hok. repeat (apply andb_prop in Hok; destruct Hok as [Hok ?]).
  repeat match goal with
         | X : (_ <=? _) = true |- _ => apply Z.leb_le in X
         | X : (_ <? _) = true |- _ => apply Z.ltb_lt in X
         end.
  assert (Hc : f_cache fr = true) by (destruct PR; assumption).
  destruct (create_dd fr tag ref) as [[slot fr1] w1] eqn:C.
  destruct (create_dd_mono fr tag ref (f_end fr) Hc (PFr_hd_ndds _ _ _ _ _ PR) ltac:(lia) _ _ _ C) as (C1 & C2 & _ & _).
  assert (Hc1 : f_cache fr1 = true) by congruence.
  destruct (getdiskblock_shape fr1 len Hc1 ltac:(lia)) as (fr2 & G & Gb & Ge & Gc). rewrite G in Hop.
  destruct (update_dd_shape fr2 (fst slot) (snd slot) (mkdd tag ref (f_end fr1) len) Gc)
    as (fr3 & U & Ub & Uc & Ue & Uv & Ux).
  rewrite U in Hop.
  assert (Hb3 : f_end fr3 <= f_end fr').
  { destruct data; inversion Hop; subst; try lia.
    destruct (Z.ltb_spec (f_end fr3) (f_end fr1 + zlen (z :: data))); simpl; lia. }
  destruct (step_create _ _ _ _ _ tag ref PR ltac:(lia) ltac:(lia) _ _ _ C ltac:(lia)) as (T1 & PR1 & SF & _).
  pose proof (PFr_above _ _ _ _ _ PR1) as Ab1.
  assert (He1 : 0 <= f_end fr1) by (destruct Ab1 as (_ & _ & X); unfold MAGICLEN in X; lia).
  pose proof (PFr_same_blocks _ _ _ _ fr2 _ PR1 Gb ltac:(lia) Gc) as PR2.
  assert (Hd : dd_in_range (mkdd tag ref (f_end fr1) len)) by (unfold dd_in_range; simpl; lia).
  destruct (step_update _ _ _ _ _ _ _ _ PR2 SF Hd) as (fr3' & U' & PR3 & _).
  rewrite U in U'. inversion U'; subst fr3'; clear U'.
  destruct data as [|b0 data'].
  - inversion Hop; subst. rewrite !app_nil_r. eexists. exact PR3.
  - inversion Hop; subst; clear Hop.
    rewrite ?app_nil_l. rewrite apply_log_app. simpl.
    exists (upd_tm (fst slot) (fill (snd slot) (mkdd tag ref (f_end fr1) len)) T1).
    apply (PFr_same_blocks _ _ _ fr3).
    + destruct PR3 as [P3 Hc3]. split; [|exact Hc3]. apply L_write; [exact P3|apply Above_upd; exact Ab1].
    + destruct (f_end fr3 <? _); reflexivity.
    + destruct (Z.ltb_spec (f_end fr3) (f_end fr1 + zlen (b0 :: data'))); simpl; lia.
    + destruct (f_end fr3 <? _); simpl; exact Uc.
Qed.

Lemma step_app_writes img0 bl0 chunks : forall img fr T slot tag ref off posn,
  PFr img0 bl0 img fr T -> slot_free T (fst slot) (snd slot) -> Above bl0 T off -> 0 <= posn ->
  0 <= tag < 65536 -> 0 <= ref < 65536 ->
  forall fr' w, app_writes fr slot tag ref off posn chunks = (fr', w) -> f_end fr' < 2147483648 ->
  exists T', PFr img0 bl0 (apply_log img w) fr' T'.
Proof.
  induction chunks as [|c r IH]; intros img fr T slot tag ref off posn PR SF Ab Hp Ht Hr fr' w Hop Hb; simpl in Hop.
  - inversion Hop; subst. exists T. exact PR.
  - assert (Hc : f_cache fr = true) by (destruct PR; assumption).
    assert (Hoff : MAGICLEN <= off) by (destruct Ab as (_ & _ & X); exact X).
    assert (Hz : 0 <= zlen c) by (unfold zlen; lia).
    destruct (update_dd_shape fr (fst slot) (snd slot) (mkdd tag ref off (posn + zlen c)) Hc)
      as (fr1 & U & Ub & Uc & Ue & Uv & Ux).
    rewrite U in Hop.
    set (fr2 := if f_end fr1 <? off + posn + zlen c then set_end fr1 (off + posn + zlen c) else fr1) in *.
    assert (F2 : f_blocks fr2 = f_blocks fr1 /\ f_cache fr2 = true /\ f_end fr1 <= f_end fr2).
    { unfold fr2. destruct (Z.ltb_spec (f_end fr1) (off + posn + zlen c)); simpl; repeat split; auto; lia. }
    destruct F2 as (F2b & F2c & F2e).
    destruct (app_writes fr2 slot tag ref off (posn + zlen c) r) as [fr3 w3] eqn:R.
    inversion Hop; subst; clear Hop.
    assert (Hv : dd_valid (mkdd tag ref off (posn + zlen c)) = true).
    { unfold dd_valid, INVALID_OFFSET, INVALID_LENGTH, MAGICLEN in *; simpl.
      destruct (Z.eqb_spec off (-1)); [lia|]. destruct (Z.eqb_spec (posn + zlen c) (-1)); [lia|]. reflexivity. }
    specialize (Uv Hv). simpl in Uv.
    assert (Hoe : off <= f_end fr2) by lia.
    destruct (app_writes_mono r fr2 slot tag ref off (posn + zlen c) off F2c Hoe (Z.le_refl off) ltac:(lia) _ _ R)
      as (_ & Mo2 & _ & _).
    assert (Hd : dd_in_range (mkdd tag ref off (posn + zlen c))).
    { unfold dd_in_range, MAGICLEN in *; simpl. lia. }
    destruct (step_update _ _ _ _ _ _ _ _ PR SF Hd) as (fr1' & U' & PR1 & _).
    rewrite U in U'. inversion U'; subst fr1'; clear U'.
    pose proof (PFr_same_blocks _ _ _ _ fr2 _ PR1 F2b F2e F2c) as PR2.
    assert (Ab' : Above bl0 (upd_tm (fst slot) (fill (snd slot) (mkdd tag ref off (posn + zlen c))) T) off)
      by (apply Above_upd; exact Ab).
    assert (PR2' : PFr img0 bl0 (write_at img (off + posn) c) fr2
                       (upd_tm (fst slot) (fill (snd slot) (mkdd tag ref off (posn + zlen c))) T)).
    { destruct PR2 as [P2 C2]. split; [|exact C2]. apply L_write; [exact P2|]. eapply Above_mono; [exact Ab'|lia]. }
    simpl. apply (IH _ fr2 _ slot tag ref off (posn + zlen c) PR2'); auto; try lia.
    apply slot_free_upd. exact SF.
Qed.

Lemma step_app img0 bl0 img fr T tag ref chunks :
  PFr img0 bl0 img fr T -> op_ok (OpApp tag ref chunks) = true ->
  forall fr' w, op_app fr tag ref chunks = (fr', w) -> f_end fr' < 2147483648 ->
  exists T', PFr img0 bl0 (apply_log img w) fr' T'.
Proof.
  intros PR Hok fr' w Hop Hb. unfold op_app in Hop.
  destruct (has_dd fr tag ref); [inversion Hop; subst; exists T; exact PR|].
  simpl in Hok. repeat (apply andb_prop in Hok; destruct Hok as [Hok ?]).
  repeat match goal with
         | X : (_ <=? _) = true |- _ => apply Z.leb_le in X
         | X : (_ <? _) = true |- _ => apply Z.ltb_lt in X
         end.
  assert (Hc : f_cache fr = true) by (destruct PR; assumption).
  destruct (create_dd fr tag ref) as [[slot fr1] w1] eqn:C.
  destruct (create_dd_mono fr tag ref (f_end fr) Hc (PFr_hd_ndds _ _ _ _ _ PR) ltac:(lia) _ _ _ C) as (C1 & C2 & _ & _).
  assert (Hc1 : f_cache fr1 = true) by congruence.
  destruct chunks as [|c r].
  - inversion Hop; subst.
    destruct (step_create _ _ _ _ _ tag ref PR ltac:(lia) ltac:(lia) _ _ _ C Hb) as (T1 & PR1 & _). eauto.
  - assert (Hz : 0 <= zlen c) by (unfold zlen; lia).
    destruct (getdiskblock_shape fr1 (zlen c) Hc1 Hz) as (fr2 & G & Gb & Ge & Gc). rewrite G in Hop.
    destruct (update_dd_shape fr2 (fst slot) (snd slot) (mkdd tag ref (f_end fr1) (zlen c)) Gc)
      as (fr3 & U & Ub & Uc & Ue & Uv & Ux).
    rewrite U in Hop.
    set (fr4 := if f_end fr3 <? f_end fr1 + zlen c then set_end fr3 (f_end fr1 + zlen c) else fr3) in *.
    assert (F4 : f_blocks fr4 = f_blocks fr3 /\ f_cache fr4 = true /\ f_end fr3 <= f_end fr4).
    { unfold fr4. destruct (Z.ltb_spec (f_end fr3) (f_end fr1 + zlen c)); simpl; repeat split; auto; lia. }
    destruct F4 as (F4b & F4c & F4e).
    destruct (app_writes fr4 slot tag ref (f_end fr1) (zlen c) r) as [fr5 w5] eqn:R.
    inversion Hop; subst; clear Hop.
    destruct (app_writes_mono r fr4 slot tag ref (f_end fr1) (zlen c) (f_end fr1) F4c ltac:(lia) ltac:(lia) Hz _ _ R)
      as (_ & Mo2 & _ & _).
    destruct (step_create _ _ _ _ _ tag ref PR ltac:(lia) ltac:(lia) _ _ _ C ltac:(lia)) as (T1 & PR1 & SF & _).
    pose proof (PFr_above _ _ _ _ _ PR1) as Ab1.
    assert (He1 : 0 <= f_end fr1) by (destruct Ab1 as (_ & _ & X); unfold MAGICLEN in X; lia).
    pose proof (PFr_same_blocks _ _ _ _ fr2 _ PR1 Gb ltac:(lia) Gc) as PR2.
    assert (Hd : dd_in_range (mkdd tag ref (f_end fr1) (zlen c))) by (unfold dd_in_range; simpl; lia).
    destruct (step_update _ _ _ _ _ _ _ _ PR2 SF Hd) as (fr3' & U' & PR3 & _).
    rewrite U in U'. inversion U'; subst fr3'; clear U'.
    pose proof (PFr_same_blocks _ _ _ _ fr4 _ PR3 F4b F4e F4c) as PR4.
    assert (Ab3 : Above bl0 (upd_tm (fst slot) (fill (snd slot) (mkdd tag ref (f_end fr1) (zlen c))) T1) (f_end fr1))
      by (apply Above_upd; exact Ab1).
    assert (PR4' : PFr img0 bl0 (write_at (apply_log img w1) (f_end fr1) c) fr4
                       (upd_tm (fst slot) (fill (snd slot) (mkdd tag ref (f_end fr1) (zlen c))) T1)).
    { destruct PR4 as [P4 C4]. split; [|exact C4]. apply L_write; [exact P4|exact Ab3]. }
    rewrite ?app_nil_l. rewrite apply_log_app. simpl.
    apply (step_app_writes img0 bl0 r _ fr4 _ slot tag ref (f_end fr1) (zlen c) PR4'); auto; try lia.
    apply slot_free_upd. exact SF.
Qed.

Lemma step_get img0 bl0 img fr T :
  PFr img0 bl0 img fr T -> forall fr' w, op_get fr = (fr', w) ->
  PFr img0 bl0 (apply_log img w) fr' T /\ f_end fr' = f_end fr /\ f_blocks fr' = f_blocks fr.
Proof.
  intros PR fr' w. assert (Hc : f_cache fr = true) by (destruct PR; assumption).
  unfold op_get. rewrite Hc. simpl. destruct (f_end_dirty fr); intros H; inversion H; subst; simpl.
  - split; [|split; reflexivity]. apply (PFr_same_blocks _ _ _ fr); simpl; auto; try lia.
    destruct PR as [P C]. split; [|exact C]. apply L_write; [exact P|]. exact (PFr_above _ _ _ _ _ (conj P C)).
  - split; [exact PR|split; reflexivity].
Qed.

Lemma step_copy img0 bl0 img fr T tag ref len data :
  PFr img0 bl0 img fr T -> op_ok (OpCopy tag ref len data) = true ->
  forall fr' w, op_copy fr tag ref len data = (fr', w) -> f_end fr' < 2147483648 ->
  exists T', PFr img0 bl0 (apply_log img w) fr' T'.
Proof.
  intros PR Hok fr' w Hop Hb. unfold op_copy in Hop.
  destruct (has_dd fr tag ref); [inversion Hop; subst; exists T; exact PR|].
  simpl in Hok. repeat (apply andb_prop in Hok; destruct Hok as [Hok ?]).
  repeat match goal with
         | X : (_ <=? _) = true |- _ => apply Z.leb_le in X
         | X : (_ <? _) = true |- _ => apply Z.ltb_lt in X
         end.
  assert (Hc : f_cache fr = true) by (destruct PR; assumption).
  destruct (create_dd fr tag ref) as [[slot fr1] w1] eqn:C.
  destruct (create_dd_mono fr tag ref (f_end fr) Hc (PFr_hd_ndds _ _ _ _ _ PR) ltac:(lia) _ _ _ C) as (C1 & C2 & _ & _).
  assert (Hc1 : f_cache fr1 = true) by congruence.
  destruct (getdiskblock_shape fr1 len Hc1 ltac:(lia)) as (fr2 & G & Gb & Ge & Gc). rewrite G in Hop.
  destruct (update_dd_shape fr2 (fst slot) (snd slot) (mkdd tag ref (f_end fr1) len) Gc)
    as (fr3 & U & Ub & Uc & Ue & Uv & Ux).
  rewrite U in Hop.
  destruct (op_get fr3) as [fr4 w4] eqn:Gt.
  destruct (op_get_mono fr3 (f_end fr3) Uc ltac:(lia) _ _ Gt) as ((G1 & _) & G2 & G3).
  assert (Hb3 : f_end fr3 <= f_end fr').
  { destruct data; inversion Hop; subst; try lia.
    destruct (Z.ltb_spec (f_end fr4) (f_end fr1 + zlen (z :: data))); simpl; lia. }
  destruct (step_create _ _ _ _ _ tag ref PR ltac:(lia) ltac:(lia) _ _ _ C ltac:(lia)) as (T1 & PR1 & SF & _).
  pose proof (PFr_above _ _ _ _ _ PR1) as Ab1.
  assert (He1 : 0 <= f_end fr1) by (destruct Ab1 as (_ & _ & X); unfold MAGICLEN in X; lia).
  pose proof (PFr_same_blocks _ _ _ _ fr2 _ PR1 Gb ltac:(lia) Gc) as PR2.
  assert (Hd : dd_in_range (mkdd tag ref (f_end fr1) len)) by (unfold dd_in_range; simpl; lia).
  destruct (step_update _ _ _ _ _ _ _ _ PR2 SF Hd) as (fr3' & U' & PR3 & _).
  rewrite U in U'. inversion U'; subst fr3'; clear U'.
  destruct (step_get _ _ _ _ _ PR3 _ _ Gt) as (PR4 & _ & _).
  set (T3 := upd_tm (fst slot) (fill (snd slot) (mkdd tag ref (f_end fr1) len)) T1) in *.
  assert (Elog : forall tl, apply_log img (w1 ++ w4 ++ tl) = apply_log (apply_log (apply_log img w1) w4) tl).
  { intros tl. rewrite !apply_log_app. reflexivity. }
  destruct data as [|b0 data'].
  - inversion Hop; subst. exists T3. cbn [app]. replace (w1 ++ w4) with (w1 ++ w4 ++ []) by (rewrite app_nil_r; reflexivity).
    rewrite Elog. exact PR4.
  - inversion Hop; subst; clear Hop. cbn [app]. rewrite Elog. simpl.
    exists T3. apply (PFr_same_blocks _ _ _ fr4).
    + destruct PR4 as [P4 Hc4]. split; [|exact Hc4]. apply L_write; [exact P4|apply Above_upd; exact Ab1].
    + destruct (f_end fr4 <? _); reflexivity.
    + destruct (Z.ltb_spec (f_end fr4) (f_end fr1 + zlen (b0 :: data'))); simpl; lia.
    + destruct (f_end fr4 <? _); simpl; destruct PR4; assumption.
Qed.

Lemma step_putn img0 bl0 img fr T tag len data :
  PFr img0 bl0 img fr T -> op_ok (OpPutNew tag len data) = true ->
  forall fr' w, op_putn fr tag len data = (fr', w) -> f_end fr' < 2147483648 ->
  exists T', PFr img0 bl0 (apply_log img w) fr' T'.
Proof.
  intros PR Hok fr' w Hop Hb. unfold op_putn in Hop. destruct (newref fr) as [ref fr1] eqn:N.
  assert (PR1 : PFr img0 bl0 img fr1 T).
  { unfold newref in N. remember (first_free fr (Z.to_nat MAX_REF) 1) as ff.
    destruct (f_maxref fr <? MAX_REF); inversion N; subst ref fr1; auto;
      apply (PFr_same_blocks _ _ _ fr); auto; simpl; try lia; destruct PR; assumption. }
  destruct ((0 <? ref) && (ref <? 65536)) eqn:G.
  - apply andb_prop in G. destruct G as [G1 G2]. apply Z.ltb_lt in G1.
    apply (step_put _ _ _ _ _ tag ref len data PR1); auto.
    simpl in Hok. repeat (apply andb_prop in Hok; destruct Hok as [Hok ?]).
    simpl. rewrite Hok, G2. repeat match goal with X : _ = true |- _ => rewrite X end.
    destruct (Z.leb_spec 0 ref); [reflexivity|lia].
  - inversion Hop; subst. exists T. exact PR1.
Qed.

Lemma run_ops_PFr img0 bl0 ops : forall img fr T,
  PFr img0 bl0 img fr T -> forallb op_ok ops = true ->
  forall fr' w, run_ops fr ops = (fr', w) -> f_end fr' < 2147483648 ->
  exists T', PFr img0 bl0 (apply_log img w) fr' T'.
Proof.
  induction ops as [|o r IH]; intros img fr T PR Hok fr' w Hrun Hb; simpl in Hrun.
  - inversion Hrun; subst. exists T. exact PR.
  - simpl in Hok. apply andb_prop in Hok. destruct Hok as [Ho Hr].
    destruct (run_op fr o) as [fr1 w1] eqn:R1. destruct (run_ops fr1 r) as [fr2 w2] eqn:R2.
    inversion Hrun; subst; clear Hrun.
    assert (Hc : f_cache fr = true) by (destruct PR; assumption).
    pose proof (PFr_hd_ndds _ _ _ _ _ PR) as Hn.
    assert (M1 : mono (f_end fr) fr fr1 w1).
    { pose proof (op_ok_len o Ho) as L. destruct o; simpl in R1.
      - eapply op_put_mono; eauto; lia.
      - eapply op_app_mono; eauto; lia.
      - eapply op_putn_mono; eauto; lia.
      - simpl in Ho. discriminate.
      - eapply op_get_mono; eauto; lia.
      - eapply op_copy_mono; eauto; lia.
      - simpl in Ho. discriminate.
      - simpl in Ho. discriminate. }
    destruct M1 as (A1 & B1 & _ & D1).
    pose proof (run_ops_mono r fr1 (f_end fr1) ltac:(congruence) ltac:(congruence) ltac:(lia) Hr _ _ R2) as (_ & B2 & _).
    assert (PR1 : exists T1, PFr img0 bl0 (apply_log img w1) fr1 T1).
    { destruct o; simpl in R1.
      - eapply step_put; eauto. lia.
      - eapply step_app; eauto. lia.
      - eapply step_putn; eauto. lia.
      - simpl in Ho. discriminate.
      - destruct (step_get _ _ _ _ _ PR _ _ R1) as (X & _). eauto.
      - eapply step_copy; eauto. lia.
      - simpl in Ho. discriminate.
      - simpl in Ho. discriminate. }
    destruct PR1 as (T1 & PR1). rewrite apply_log_app. eapply IH; eauto.
Qed.

(** ---- the invariant holds for a well-formed image as HTPstart loads it *)
Definition byte_ok (b : Z) : Prop := 0 <= b < 256.

Lemma be_bound l : Forall byte_ok l -> 0 <= be l < 256 ^ Z.of_nat (length l).
Proof.
  induction l as [|x l IH] using rev_ind; intros F.
  - unfold be; simpl. lia.
  - apply Forall_app in F. destruct F as [Fl Fx]. inversion Fx as [|? ? Hx _]; subst. specialize (IH Fl).
    rewrite be_app, app_length. simpl length. rewrite Nat2Z.inj_add. simpl Z.of_nat.
    rewrite Z.pow_add_r by lia. unfold byte_ok in Hx. change (256 ^ 1) with 256. nia.
Qed.

Lemma Forall_firstn_ {A} (P : A -> Prop) n l : Forall P l -> Forall P (firstn n l).
Proof. revert l; induction n; intros l F; simpl; [constructor|]. destruct l; [constructor|]. inversion F; subst. constructor; auto. Qed.

Lemma Forall_skipn_ {A} (P : A -> Prop) n l : Forall P l -> Forall P (skipn n l).
Proof. revert l; induction n; intros l F; simpl; auto. destruct l; [constructor|]. inversion F; subst. auto. Qed.

Lemma be_bound_le l k : Forall byte_ok l -> (length l <= k)%nat -> 0 <= be l < 256 ^ Z.of_nat k.
Proof.
  intros F L. pose proof (be_bound l F) as B. split; [lia|].
  apply Z.lt_le_trans with (256 ^ Z.of_nat (length l)); [lia|]. apply Z.pow_le_mono_r; lia.
Qed.

Lemma s32_range z : 0 <= z < 4294967296 -> -2147483648 <= s32 z < 2147483648.
Proof. intros. unfold s32. destruct (Z.ltb_spec z 2147483648); lia. Qed.

Lemma s16_range z : 0 <= z < 65536 -> s16 z < 32768.
Proof. intros. unfold s16. destruct (Z.ltb_spec z 32768); lia. Qed.

Lemma parse_dd_in_range b : Forall byte_ok b -> dd_in_range (parse_dd b).
Proof.
  intros F. unfold dd_in_range, parse_dd; cbn [d_tag d_ref d_off d_len].
  assert (B2 : forall l, Forall byte_ok l -> 0 <= be (firstn 2 l) < 65536).
  { intros l Fl. apply (be_bound_le _ 2); [apply Forall_firstn_; auto|]. rewrite firstn_length. lia. }
  assert (B4 : forall l, Forall byte_ok l -> 0 <= be (firstn 4 l) < 4294967296).
  { intros l Fl. apply (be_bound_le _ 4); [apply Forall_firstn_; auto|]. rewrite firstn_length. lia. }
  split; [apply B2; auto|]. split; [apply B2; apply Forall_skipn_; auto|].
  split; apply s32_range; apply B4; apply Forall_skipn_; auto.
Qed.

Lemma parse_dds_in_range n : forall b, Forall byte_ok b -> Forall dd_in_range (parse_dds n b).
Proof.
  induction n; intros b F; [constructor|].
  change (parse_dds (S n) b) with (parse_dd (firstn 12 b) :: parse_dds n (skipn 12 b)). constructor.
  - apply parse_dd_in_range. apply Forall_firstn_. exact F.
  - apply IHn. apply Forall_skipn_. exact F.
Qed.

Lemma length_parse_dds n b : length (parse_dds n b) = n.
Proof. revert b; induction n; intros; simpl; auto. Qed.

Lemma bytes_ok_Forall img : bytes_ok img = true -> Forall byte_ok img.
Proof.
  unfold bytes_ok. intros H. apply Forall_forall. intros x Hx. rewrite forallb_forall in H. specialize (H x Hx).
  apply andb_prop in H. destruct H as [A B]. apply Z.leb_le in A. apply Z.ltb_lt in B. unfold byte_ok. lia.
Qed.

Lemma read_bytes_ok img off n x : Forall byte_ok img -> read_bytes img off n = Some x -> Forall byte_ok x.
Proof.
  intros F R. apply read_bytes_some in R. destruct R as (_ & _ & _ & -> & _).
  apply Forall_firstn_. apply Forall_skipn_. exact F.
Qed.

Lemma read_block_in_range img off b : Forall byte_ok img -> read_block img off = Some b -> blk_in_range b.
Proof.
  intros F R. destruct (read_block_inv _ _ _ R) as (h & bs & Rh & Hn & Hp & Hx & Ho & Rb & Hd).
  pose proof (read_bytes_ok _ _ _ _ F Rh) as Fh. pose proof (read_bytes_ok _ _ _ _ F Rb) as Fb.
  apply read_bytes_some in Rh. destruct Rh as (O1 & _ & _ & _ & Lh).
  unfold blk_in_range. split; [|split; [|split; [|split]]].
  - split; [exact Hp|]. rewrite Hn. apply s16_range. apply (be_bound_le _ 2); [apply Forall_firstn_; auto|].
    rewrite firstn_length. lia.
  - rewrite Hx. apply s32_range. apply (be_bound_le _ 4); [apply Forall_skipn_; auto|].
    rewrite skipn_length. unfold zlen, hdr_sz, NDDS_SZ, OFFSET_SZ in Lh. lia.
  - rewrite Hd. apply parse_dds_in_range. exact Fb.
  - rewrite Hd. unfold zlen. rewrite length_parse_dds. lia.
  - lia.
Qed.

(** structure of a parsed chain *)
Lemma parse_chain_struct fuel : forall img off bl,
  parse_chain fuel img off = Some bl ->
  Forall (agrees img) bl /\ linked bl /\ (exists b r, bl = b :: r /\ b_off b = off) /\
  Forall (fun b => b_next b <> 0) (removelast bl).
Proof.
  induction fuel; intros img off bl; simpl; [discriminate|].
  destruct (read_block img off) as [b|] eqn:R; [|discriminate].
  assert (Ho : b_off b = off) by (destruct (read_block_inv _ _ _ R) as (h & bs & _ & _ & _ & _ & Ho & _); exact Ho).
  assert (Ab : agrees img b) by (unfold agrees; rewrite Ho; exact R).
  destruct (Z.eqb_spec (b_next b) 0) as [E|E].
  - intros H; inversion H; subst. split; [constructor; auto|]. split; [simpl; exact E|]. split; [eauto|]. simpl. constructor.
  - destruct (parse_chain fuel img (b_next b)) as [l|] eqn:P; [|discriminate].
    intros H; inversion H; subst. destruct (IHfuel _ _ _ P) as (A & L & (b2 & r2 & -> & Ho2) & Z).
    split; [constructor; auto|]. split; [simpl; repeat split; auto|]. split; [eauto|].
    change (removelast (b :: b2 :: r2)) with (b :: removelast (b2 :: r2)). constructor; auto.
Qed.

Lemma list_eqb_eq a : forall b, list_eqb a b = true -> a = b.
Proof.
  induction a; destruct b; simpl; intros H; try discriminate; auto.
  apply andb_prop in H. destruct H as [H1 H2]. apply Z.eqb_eq in H1. f_equal; auto.
Qed.

Lemma pairwise_disjoint_pdisj l : pairwise_disjoint l = true -> pdisj l.
Proof.
  induction l as [|[a1 a2] l IH]; simpl; auto. intros H. apply andb_prop in H. destruct H as [H1 H2]. split; auto.
  apply Forall_forall. intros q Hq. rewrite forallb_forall in H1. specialize (H1 q Hq).
  unfold disjointb in H1. apply orb_prop in H1. unfold disj; simpl. destruct H1 as [X|X]; apply Z.leb_le in X; auto.
Qed.

Lemma fold_max_ge l : forall a x, (x = a \/ In x l) -> x <= fold_left Z.max l a.
Proof.
  induction l as [|y l IH]; intros a x H; simpl.
  - destruct H as [->|[]]. lia.
  - destruct H as [->|[->|H]].
    + apply Z.le_trans with (Z.max a y); [lia|]. apply IH. left. reflexivity.
    + apply Z.le_trans with (Z.max a x); [lia|]. apply IH. left. reflexivity.
    + apply IH. right. exact H.
Qed.

Definition T_init (bl : list block) : list tri := map (fun b => mktri b b b) bl.

Lemma init_PF img bl :
  wf_image img = true -> parse_file img = Some bl -> PF img bl img bl (old_end bl) (T_init bl).
Proof.
  intros W P. unfold wf_image in W. rewrite P in W.
  apply andb_prop in W. destruct W as [Wb W]. apply andb_prop in W. destruct W as [Wd We].
  pose proof (bytes_ok_Forall _ Wb) as Fb.
  assert (P' := P). unfold parse_file in P'.
  destruct (read_bytes img 0 MAGICLEN) as [m|] eqn:Rm; [|discriminate].
  destruct (list_eqb m HDFMAGIC) eqn:Em; [|discriminate]. apply list_eqb_eq in Em. subst m.
  destruct (parse_chain_struct _ _ _ _ P') as (Ag & Lk & (b0 & r0 & Ebl & Hb0) & Nz).
  assert (Ed : map t_d (T_init bl) = bl) by (unfold T_init; rewrite map_map; simpl; apply map_id).
  assert (Emm : map t_m (T_init bl) = bl) by (unfold T_init; rewrite map_map; simpl; apply map_id).
  assert (Er : map region (T_init bl) = map block_region bl) by (unfold T_init; rewrite map_map; reflexivity).
  assert (Rg : Forall blk_in_range bl).
  { apply Forall_forall. intros b Hb. apply (read_block_in_range img (b_off b)); [exact Fb|].
    rewrite Forall_forall in Ag. apply Ag; auto. }
  assert (Hok : Forall tri_ok (T_init bl)).
  { unfold T_init. apply Forall_map. apply Forall_forall. intros b Hb. rewrite Forall_forall in Rg. split; simpl.
    - unfold compat. split; [reflexivity|]. split; [reflexivity|]. split; [left; reflexivity|].
      split; [apply Forall2_refl_or|apply Rg; exact Hb].
    - unfold mixrel. auto. }
  assert (Hag : Forall (fun t => agrees img (t_x t)) (T_init bl)).
  { unfold T_init. apply Forall_map. simpl. exact Ag. }
  pose proof (pairwise_disjoint_pdisj _ Wd) as Pd.
  apply PF_intro; auto.
  - constructor; auto.
    + rewrite Emm. exact Lk.
    + subst bl. simpl. exact Hb0.
    + rewrite Er. exact Pd.
    + apply inv_len_derive; auto. rewrite Er. simpl in Pd. destruct Pd as [_ Pd]. exact Pd.
  - exists []. rewrite Ed, app_nil_r. reflexivity.
  - intros d x _ _ _ E. exact E.
  - rewrite Ed. intros d b Hd Hl Hh Hb. rewrite forallb_forall in We. specialize (We d Hd).
    rewrite Hl, Hh in We. simpl in We. rewrite forallb_forall in We. specialize (We b Hb).
    unfold disjointb in We. apply orb_prop in We. destruct We as [X|X]; apply Z.leb_le in X; auto.
  - unfold Above. rewrite Ed. split; [|split].
    + apply Forall_forall. intros b Hb. unfold old_end. apply fold_max_ge. right. apply in_or_app. left.
      apply in_map. exact Hb.
    + intros d Hd _ _. unfold old_end. apply fold_max_ge. right. apply in_or_app. right.
      apply (in_map (fun d => d_off d + d_len d)). exact Hd.
    + apply Z.le_trans with (block_end b0).
      * rewrite Forall_forall in Rg. destruct (Rg b0 ltac:(subst bl; left; reflexivity)) as ((R1 & _) & _).
        unfold block_end, start_block_end. lia.
      * unfold old_end. apply fold_max_ge. right. apply in_or_app. left. apply in_map. subst bl. left. reflexivity.
  - unfold T_init. apply Forall_map. apply Forall_forall. intros; reflexivity.
Qed.

(** THE MISSING LEMMA: every append-only session on a well-formed image reaches a flush_state *)
Lemma run_ops_reaches_flush_state_lemma img bl fr ops fr1 pre :
  wf_image img = true -> parse_file img = Some bl -> load img true = Some fr -> forallb op_ok ops = true ->
  run_ops fr ops = (fr1, pre) -> f_end fr1 < 2147483648 ->
  exists T, flush_state img bl (apply_log img pre) fr1 T.
Proof.
  intros W P L Hok R Hb. unfold load in L. rewrite P in L. inversion L; subst fr; clear L.
  assert (PR : PFr img bl img (mkfrec (map (fun b => mkmb b false) bl) (old_end bl) true false false
                                    (fold_left Z.max (map d_ref (all_dds bl)) 0)) (T_init bl)).
  { split; [|reflexivity]. simpl. rewrite map_map. simpl. rewrite map_id. apply init_PF; auto. }
  destruct (run_ops_PFr img bl ops _ _ _ PR Hok _ _ R Hb) as (T & [PT _]).
  exists T. apply PF_flush_state. exact PT.
Qed.

(** THEOREM 2 at full strength *)
Lemma prefix_safe_flush_full img bl fr ops fr1 pre k :
  wf_image img = true -> parse_file img = Some bl -> load img true = Some fr -> forallb op_ok ops = true ->
  run_ops fr ops = (fr1, pre) -> f_end fr1 < 2147483648 ->
  preserves img (apply_log img (pre ++ firstn k (snd (sync fr1)))) = true.
Proof.
  intros W P L Hok R Hb.
  destruct (run_ops_reaches_flush_state_lemma _ _ _ _ _ _ W P L Hok R Hb) as (T & S).
  eapply prefix_safe_flush_lemma; eauto.
Qed.

(** ---- first sentence of the property, for EVERY prefix of the pre-flush log and for the wide class of sessions
    (creations, reads and copies, deletions, record rewrites through descriptor reuse): writes at or above the old
    end of file cannot touch an old DD block or old data, so the image opens and every old object reads back *)
Lemma PF_writes_above img0 bl0 M e T l : forall cur,
  PF img0 bl0 cur M e T -> Forall (fun w => e <= fst w) l -> PF img0 bl0 (apply_log cur l) M e T.
Proof.
  induction l as [|w l IH]; intros cur P F; simpl; auto.
  inversion F as [|? ? Hw Fl]; subst. apply IH; auto. apply L_write; auto.
  assert (A : Above bl0 T e) by (destruct P as (_ & _ & _ & _ & _ & _ & _ & A & _); exact A).
  eapply Above_mono; eauto.
Qed.

Lemma above_writes_preserve img bl l :
  wf_image img = true -> parse_file img = Some bl -> log_above (old_end bl) l = true ->
  preserves img (apply_log img l) = true.
Proof.
  intros W P L.
  pose proof (init_PF img bl W P) as P0.
  assert (F : Forall (fun w => old_end bl <= fst w) l).
  { apply Forall_forall. intros w Hw. unfold log_above in L. rewrite forallb_forall in L. apply Z.leb_le. auto. }
  pose proof (PF_writes_above _ _ _ _ _ l img P0 F) as P1.
  set (fr := mkfrec (map (fun b => mkmb b false) bl) (old_end bl) true false false 0).
  apply (flush_state_safe img bl (apply_log img l) fr (T_init bl)).
  apply PF_flush_state. simpl. rewrite map_map. simpl. rewrite map_id. exact P1.
Qed.

Lemma forallb_firstn {A} (f : A -> bool) j l : forallb f l = true -> forallb f (firstn j l) = true.
Proof.
  revert l; induction j; intros l H; simpl; auto. destruct l; simpl in *; auto.
  apply andb_prop in H. destruct H as [H1 H2]. rewrite H1. simpl. auto.
Qed.

Lemma prefix_safe_before_flush_lemma img bl fr ops fr1 pre j :
  wf_image img = true -> parse_file img = Some bl -> load img true = Some fr -> forallb op_ok1 ops = true ->
  run_ops fr ops = (fr1, pre) ->
  preserves img (apply_log img (firstn j pre)) = true.
Proof.
  intros W P L Hok R.
  destruct (append_only_above_old_end_lemma img bl fr ops fr1 pre P L Hok R) as [LA _].
  apply (above_writes_preserve img bl); auto. unfold log_above in *. apply forallb_firstn. exact LA.
Qed.
